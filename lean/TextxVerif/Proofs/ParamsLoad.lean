import TextxVerif.ParamsLoad
/-! Helper lemmas for the parameter load machine (C27). -/
namespace ParamsLoad

/-! ## the `for k in kwargs` loop -/

/-- Any loop body (in the translated subset) that goes on for a declared key
and raises for an undeclared one makes the loop raise at the first undeclared
key.  The two hypotheses are closed facts about the generated body (`decide`). -/
theorem runFor_spec (body : Stmt) (store : List String)
    (hknown : body.exec true = .next ∨ body.exec true = .cont) (hunknown : body.exec false = .raise) :
    ∀ ks, runFor body store ks = ks.find? (fun k => !store.contains k) := by
  intro ks
  induction ks with
  | nil => rfl
  | cons k ks ih =>
    cases h : store.contains k with
    | true =>
      rcases hknown with hk | hk <;>
        simp only [runFor, List.find?, h, hk, ih, Bool.not_true]
    | false => simp only [runFor, List.find?, h, hunknown, Bool.not_false]

/-! ## `has` -/

theorem has_append (r c : Repo) (f : Nat) : has (r ++ c) f = (has r f || has c f) := by
  simp [has]

theorem has_mono (r c : Repo) (f : Nat) (h : has r f = true) : has (r ++ c) f = true := by
  simp [has_append, h]

theorem has_iff (r : Repo) (f : Nat) : has r f = true ↔ ∃ m, m ∈ r ∧ m.file = f := by
  simp [has]

theorem has_files (c : Repo) (f : Nat) : has c f = true ↔ f ∈ c.map (·.file) := by
  simp [has]

theorem has_anti (r c : Repo) (f : Nat) (h : has (r ++ c) f = false) : has r f = false := by
  rw [has_append] at h
  exact (Bool.or_eq_false_iff.1 h).1

/-! ## reachability through files that are not cached -/

/-- the files the active provider's imports of file `f` denote when `f` is loaded with parameters `kw` -/
def importsOf (W : World) (kw : Params) (f : Nat) : List Nat :=
  match W.files[f]? with
  | some spec => (effImports W spec (some kw)).flatten
  | none => []

/-- `g` is reached from `f` along imports, every file on the way (both ends included) being absent from
`repo0`: an independent description of the files a load starting at `f` has to create.  Files that are
cached in `repo0` are reused as they are; their imports are not followed. -/
inductive ReachNC (W : World) (repo0 : Repo) (kw : Params) : Nat → Nat → Prop
  | refl {f : Nat} : has repo0 f = false → ReachNC W repo0 kw f f
  | step {f g h : Nat} : ReachNC W repo0 kw f g → h ∈ importsOf W kw g → has repo0 h = false →
      ReachNC W repo0 kw f h

theorem ReachNC.src_new {W : World} {repo0 : Repo} {kw : Params} {f g : Nat}
    (h : ReachNC W repo0 kw f g) : has repo0 f = false := by
  induction h with
  | refl hf => exact hf
  | step _ _ _ ih => exact ih

theorem ReachNC.tgt_new {W : World} {repo0 : Repo} {kw : Params} {f g : Nat}
    (h : ReachNC W repo0 kw f g) : has repo0 g = false := by
  cases h with
  | refl hf => exact hf
  | step _ _ hn => exact hn

theorem ReachNC.trans {W : World} {repo0 : Repo} {kw : Params} {f g x : Nat}
    (h1 : ReachNC W repo0 kw f g) (h2 : ReachNC W repo0 kw g x) : ReachNC W repo0 kw f x := by
  induction h2 with
  | refl _ => exact h1
  | step _ hi hn ih => exact .step ih hi hn

/-- fewer cached files, more to create -/
theorem ReachNC.anti {W : World} {repo c : Repo} {kw : Params} {f g : Nat}
    (h : ReachNC W (repo ++ c) kw f g) : ReachNC W repo kw f g := by
  induction h with
  | refl hf => exact .refl (has_anti repo c _ hf)
  | step _ hi hn ih => exact .step ih hi (has_anti repo c _ hn)

theorem nodup_files_append (repo c1 c2 : Repo) (h1 : (c1.map (·.file)).Nodup) (h2 : (c2.map (·.file)).Nodup)
    (hnew : ∀ m, m ∈ c2 → has (repo ++ c1) m.file = false) : ((c1 ++ c2).map (·.file)).Nodup := by
  rw [List.map_append, List.nodup_append]
  refine ⟨h1, h2, ?_⟩
  intro a ha b hb hab
  obtain ⟨m2, hm2, e2⟩ := List.mem_map.1 hb
  have hn := hnew m2 hm2
  rw [has_append] at hn
  have h3 : has c1 m2.file = true := (has_files c1 _).2 (by rw [e2, ← hab]; exact ha)
  rw [h3] at hn
  simp at hn

/-! ## what one `internal_model_from_file` call guarantees -/

/-- all effective imports of the model are in `R` -/
def Closed (W : World) (kw : Params) (R : Repo) (m : ModelRec) : Prop :=
  ∃ spec, W.files[m.file]? = some spec ∧
    ∀ fs, fs ∈ effImports W spec (some kw) → ∀ g, g ∈ fs → has R g = true

theorem Closed.mono {W : World} {kw : Params} {R : Repo} {m : ModelRec} (c : Repo)
    (h : Closed W kw R m) : Closed W kw (R ++ c) m := by
  obtain ⟨spec, hs, hc⟩ := h
  exact ⟨spec, hs, fun fs hfs g hg => has_mono R c g (hc fs hfs g hg)⟩

/-- post-condition of a successful load of file `g` with parameters `kw` from repository `repo` -/
def Post (W : World) (kw : Params) (repo : Repo) (g : Nat) (repo' : Repo) : Prop :=
  ∃ c, repo' = repo ++ c ∧ (∀ m, m ∈ c → m.params = some kw) ∧ has repo' g = true ∧
    (∀ m, m ∈ c → Closed W kw repo' m) ∧ (∀ m, m ∈ c → has repo m.file = false) ∧
    (c.map (·.file)).Nodup ∧ (∀ m, m ∈ c → ReachNC W repo kw g m.file)

/-- the same for a list of files -/
def PostL (W : World) (kw : Params) (repo : Repo) (gs : List Nat) (repo' : Repo) : Prop :=
  ∃ c, repo' = repo ++ c ∧ (∀ m, m ∈ c → m.params = some kw) ∧ (∀ g, g ∈ gs → has repo' g = true) ∧
    (∀ m, m ∈ c → Closed W kw repo' m) ∧ (∀ m, m ∈ c → has repo m.file = false) ∧
    (c.map (·.file)).Nodup ∧ (∀ m, m ∈ c → ∃ g, g ∈ gs ∧ ReachNC W repo kw g m.file)

theorem loadFilesWith_post (W : World) (kw : Params) (rec : Repo → Nat → Params → Except Err Repo)
    (hrec : ∀ repo g repo', has repo g = false → rec repo g kw = .ok repo' → Post W kw repo g repo') :
    ∀ gs repo repo', loadFilesWith rec repo gs (some kw) = .ok repo' → PostL W kw repo gs repo' := by
  intro gs
  induction gs with
  | nil =>
    intro repo repo' h
    simp only [loadFilesWith, Except.ok.injEq] at h
    subst h
    exact ⟨[], by simp, by simp, by simp, by simp, by simp, by simp, by simp⟩
  | cons g gs ih =>
    intro repo repo' h
    by_cases hg : has repo g = true
    · simp only [loadFilesWith, hg, if_true] at h
      obtain ⟨c, rfl, hp, hin, hcl, hnew, hnd, hre⟩ := ih repo repo' h
      refine ⟨c, rfl, hp, ?_, hcl, hnew, hnd, ?_⟩
      · intro x hx
        rcases List.mem_cons.1 hx with rfl | hx
        · exact has_mono repo c x hg
        · exact hin x hx
      · intro m hm
        obtain ⟨g', hg', hr'⟩ := hre m hm
        exact ⟨g', List.mem_cons_of_mem _ hg', hr'⟩
    · have hg' : has repo g = false := by simpa using hg
      simp only [loadFilesWith, hg', Bool.false_eq_true, if_false] at h
      cases hr : rec repo g kw with
      | error e => simp [hr] at h
      | ok repo1 =>
        simp only [hr] at h
        obtain ⟨c1, rfl, hp1, hin1, hcl1, hnew1, hnd1, hre1⟩ := hrec repo g repo1 hg' hr
        obtain ⟨c2, rfl, hp2, hin2, hcl2, hnew2, hnd2, hre2⟩ := ih (repo ++ c1) repo' h
        refine ⟨c1 ++ c2, by simp, ?_, ?_, ?_, ?_, ?_, ?_⟩
        · intro m hm
          rcases List.mem_append.1 hm with hm | hm
          · exact hp1 m hm
          · exact hp2 m hm
        · intro x hx
          rcases List.mem_cons.1 hx with rfl | hx
          · exact has_mono _ c2 x hin1
          · exact hin2 x hx
        · intro m hm
          rcases List.mem_append.1 hm with hm | hm
          · exact (hcl1 m hm).mono c2
          · exact hcl2 m hm
        · intro m hm
          rcases List.mem_append.1 hm with hm | hm
          · exact hnew1 m hm
          · exact has_anti repo c1 _ (hnew2 m hm)
        · exact nodup_files_append repo c1 c2 hnd1 hnd2 hnew2
        · intro m hm
          rcases List.mem_append.1 hm with hm | hm
          · exact ⟨g, List.mem_cons_self, hre1 m hm⟩
          · obtain ⟨g', hg2, hr'⟩ := hre2 m hm
            exact ⟨g', List.mem_cons_of_mem _ hg2, hr'.anti⟩

/-- post-condition for a list of import statements -/
def PostS (W : World) (kw : Params) (repo : Repo) (ss : List (List Nat)) (repo' : Repo) : Prop :=
  ∃ c, repo' = repo ++ c ∧ (∀ m, m ∈ c → m.params = some kw) ∧
    (∀ fs, fs ∈ ss → ∀ g, g ∈ fs → has repo' g = true) ∧
    (∀ m, m ∈ c → Closed W kw repo' m) ∧ (∀ m, m ∈ c → has repo m.file = false) ∧
    (c.map (·.file)).Nodup ∧ (∀ m, m ∈ c → ∃ fs, fs ∈ ss ∧ ∃ g, g ∈ fs ∧ ReachNC W repo kw g m.file)

theorem loadStmtsWith_post (W : World) (kw : Params) (rec : Repo → Nat → Params → Except Err Repo)
    (hrec : ∀ repo g repo', has repo g = false → rec repo g kw = .ok repo' → Post W kw repo g repo') :
    ∀ ss repo repo', loadStmtsWith rec repo ss (some kw) = .ok repo' → PostS W kw repo ss repo' := by
  intro ss
  induction ss with
  | nil =>
    intro repo repo' h
    simp only [loadStmtsWith, Except.ok.injEq] at h
    subst h
    exact ⟨[], by simp, by simp, by simp, by simp, by simp, by simp, by simp⟩
  | cons fs rest ih =>
    intro repo repo' h
    by_cases hfs : fs = []
    · simp [loadStmtsWith, hfs] at h
    · simp only [loadStmtsWith, hfs, if_false] at h
      cases hr : loadFilesWith rec repo fs (some kw) with
      | error e => simp [hr] at h
      | ok repo1 =>
        simp only [hr] at h
        obtain ⟨c1, rfl, hp1, hin1, hcl1, hnew1, hnd1, hre1⟩ := loadFilesWith_post W kw rec hrec fs repo repo1 hr
        obtain ⟨c2, rfl, hp2, hin2, hcl2, hnew2, hnd2, hre2⟩ := ih (repo ++ c1) repo' h
        refine ⟨c1 ++ c2, by simp, ?_, ?_, ?_, ?_, ?_, ?_⟩
        · intro m hm
          rcases List.mem_append.1 hm with hm | hm
          · exact hp1 m hm
          · exact hp2 m hm
        · intro xs hxs g hg
          rcases List.mem_cons.1 hxs with rfl | hxs
          · exact has_mono _ c2 g (hin1 g hg)
          · exact hin2 xs hxs g hg
        · intro m hm
          rcases List.mem_append.1 hm with hm | hm
          · exact (hcl1 m hm).mono c2
          · exact hcl2 m hm
        · intro m hm
          rcases List.mem_append.1 hm with hm | hm
          · exact hnew1 m hm
          · exact has_anti repo c1 _ (hnew2 m hm)
        · exact nodup_files_append repo c1 c2 hnd1 hnd2 hnew2
        · intro m hm
          rcases List.mem_append.1 hm with hm | hm
          · obtain ⟨g, hg, hr'⟩ := hre1 m hm
            exact ⟨fs, List.mem_cons_self, g, hg, hr'⟩
          · obtain ⟨xs, hxs, g, hg, hr'⟩ := hre2 m hm
            exact ⟨xs, List.mem_cons_of_mem _ hxs, g, hg, hr'.anti⟩

/-- **Invariant of the load recursion**: whatever the fuel, a successful load of a
file that was not in the repository appends models that all carry `kw`, contains
the file, is closed under the effective imports of every model it created, and
never re-creates a file that was already there. -/
theorem loadFile_post (W : World) (kw : Params) :
    ∀ fuel repo f repo', has repo f = false → loadFile W fuel repo f kw = .ok repo' → Post W kw repo f repo' := by
  intro fuel
  induction fuel with
  | zero => intro repo f repo' _ h; simp [loadFile] at h
  | succ fuel ih =>
    intro repo f repo' hf h
    simp only [loadFile] at h
    cases hs : W.files[f]? with
    | none => simp [hs] at h
    | some spec =>
      simp only [hs] at h
      by_cases hb : spec.broken = true
      · simp [hb] at h
      · simp only [hb, Bool.false_eq_true, if_false] at h
        obtain ⟨c, hrepo, hp, hin, hcl, hnew, hnd, hre⟩ :=
          loadStmtsWith_post W kw (loadFile W fuel) ih _ _ _ h
        subst hrepo
        have hnotf : ∀ m, m ∈ c → m.file ≠ f := by
          intro m hm e
          have := hnew m hm
          rw [has_append, e] at this
          simp [has] at this
        refine ⟨{ file := f, params := some kw } :: c, by simp, ?_, ?_, ?_, ?_, ?_, ?_⟩
        · intro m hm
          rcases List.mem_cons.1 hm with rfl | hm
          · rfl
          · exact hp m hm
        · simp [has]
        · intro m hm
          rcases List.mem_cons.1 hm with rfl | hm
          · exact ⟨spec, hs, hin⟩
          · exact hcl m hm
        · intro m hm
          rcases List.mem_cons.1 hm with rfl | hm
          · exact hf
          · exact has_anti repo _ _ (hnew m hm)
        · rw [List.map_cons, List.nodup_cons]
          refine ⟨?_, hnd⟩
          intro hmem
          obtain ⟨m, hm, e⟩ := List.mem_map.1 hmem
          exact hnotf m hm e
        · intro m hm
          rcases List.mem_cons.1 hm with rfl | hm
          · exact .refl hf
          · obtain ⟨fs, hfs, g, hg, hr⟩ := hre m hm
            have hr' : ReachNC W repo kw g m.file := hr.anti
            have himp : g ∈ importsOf W kw f := by
              simp only [importsOf, hs, List.mem_flatten]
              exact ⟨fs, hfs, hg⟩
            exact (ReachNC.step (.refl hf) himp hr'.src_new).trans hr'

/-! ## the load machine never reports an unknown parameter -/

theorem loadFilesWith_noParamErr (rec : Repo → Nat → Params → Except Err Repo)
    (hrec : ∀ repo g mp k, rec repo g mp ≠ .error (.unknownParam k)) :
    ∀ gs repo p k, loadFilesWith rec repo gs p ≠ .error (.unknownParam k) := by
  intro gs
  induction gs with
  | nil => intro repo p k h; simp [loadFilesWith] at h
  | cons g gs ih =>
    intro repo p k h
    cases p with
    | none => simp [loadFilesWith] at h
    | some mp =>
      by_cases hg : has repo g = true
      · simp only [loadFilesWith, hg, if_true] at h
        exact ih repo (some mp) k h
      · have hg' : has repo g = false := by simpa using hg
        simp only [loadFilesWith, hg', Bool.false_eq_true, if_false] at h
        cases hr : rec repo g mp with
        | error e =>
          simp only [hr, Except.error.injEq] at h
          exact hrec repo g mp k (by rw [hr, h])
        | ok repo1 =>
          simp only [hr] at h
          exact ih repo1 (some mp) k h

theorem loadStmtsWith_noParamErr (rec : Repo → Nat → Params → Except Err Repo)
    (hrec : ∀ repo g mp k, rec repo g mp ≠ .error (.unknownParam k)) :
    ∀ ss repo p k, loadStmtsWith rec repo ss p ≠ .error (.unknownParam k) := by
  intro ss
  induction ss with
  | nil => intro repo p k h; simp [loadStmtsWith] at h
  | cons fs rest ih =>
    intro repo p k h
    by_cases hfs : fs = []
    · simp [loadStmtsWith, hfs] at h
    · simp only [loadStmtsWith, hfs, if_false] at h
      cases hr : loadFilesWith rec repo fs p with
      | error e =>
        simp only [hr, Except.error.injEq] at h
        exact loadFilesWith_noParamErr rec hrec fs repo p k (by rw [hr, h])
      | ok repo1 =>
        simp only [hr] at h
        exact ih repo1 p k h

theorem loadFile_noParamErr (W : World) :
    ∀ fuel repo f mp k, loadFile W fuel repo f mp ≠ .error (.unknownParam k) := by
  intro fuel
  induction fuel with
  | zero => intro repo f mp k h; simp [loadFile] at h
  | succ fuel ih =>
    intro repo f mp k h
    simp only [loadFile] at h
    cases hs : W.files[f]? with
    | none => simp [hs] at h
    | some spec =>
      simp only [hs] at h
      by_cases hb : spec.broken = true
      · simp [hb] at h
      · simp only [hb, Bool.false_eq_true, if_false] at h
        exact loadStmtsWith_noParamErr (loadFile W fuel) ih _ _ _ k h

/-! ## which errors the load recursion can end with -/

/-- the errors of the recursion below `internal_model_from_file`: a file that does not parse, an
import that denotes nothing, (model artefacts:) a file id outside the world, no fuel -/
def Err.Local (e : Err) : Prop :=
  e = .fuel ∨ (∃ g, e = .noFile g) ∨ (∃ g, e = .syntax g) ∨ e = .enoent

theorem loadFilesWith_errs (rec : Repo → Nat → Params → Except Err Repo)
    (hrec : ∀ repo g mp e, rec repo g mp = .error e → e.Local) :
    ∀ gs repo mp e, loadFilesWith rec repo gs (some mp) = .error e → e.Local := by
  intro gs
  induction gs with
  | nil => intro repo mp e h; simp [loadFilesWith] at h
  | cons g gs ih =>
    intro repo mp e h
    by_cases hg : has repo g = true
    · simp only [loadFilesWith, hg, if_true] at h
      exact ih repo mp e h
    · have hg' : has repo g = false := by simpa using hg
      simp only [loadFilesWith, hg', Bool.false_eq_true, if_false] at h
      cases hr : rec repo g mp with
      | error e' =>
        simp only [hr, Except.error.injEq] at h
        exact h ▸ hrec repo g mp e' hr
      | ok repo1 =>
        simp only [hr] at h
        exact ih repo1 mp e h

theorem loadStmtsWith_errs (rec : Repo → Nat → Params → Except Err Repo)
    (hrec : ∀ repo g mp e, rec repo g mp = .error e → e.Local) :
    ∀ ss repo mp e, loadStmtsWith rec repo ss (some mp) = .error e → e.Local := by
  intro ss
  induction ss with
  | nil => intro repo mp e h; simp [loadStmtsWith] at h
  | cons fs rest ih =>
    intro repo mp e h
    by_cases hfs : fs = []
    · simp only [loadStmtsWith, hfs, if_true, Except.error.injEq] at h
      exact h ▸ Or.inr (Or.inr (Or.inr rfl))
    · simp only [loadStmtsWith, hfs, if_false] at h
      cases hr : loadFilesWith rec repo fs (some mp) with
      | error e' =>
        simp only [hr, Except.error.injEq] at h
        exact h ▸ loadFilesWith_errs rec hrec fs repo mp e' hr
      | ok repo1 =>
        simp only [hr] at h
        exact ih repo1 mp e h

/-- the recursion ends with one of four errors only — in particular never with the
unknown-parameter error and never with the failed `assert model_params is not None` of `load_model`:
every model that imports has its `_tx_model_params` set before its imports are followed -/
theorem loadFile_errs (W : World) :
    ∀ fuel repo f mp e, loadFile W fuel repo f mp = .error e → e.Local := by
  intro fuel
  induction fuel with
  | zero =>
    intro repo f mp e h
    simp only [loadFile, Except.error.injEq] at h
    exact h ▸ Or.inl rfl
  | succ fuel ih =>
    intro repo f mp e h
    simp only [loadFile] at h
    cases hs : W.files[f]? with
    | none =>
      simp only [hs, Except.error.injEq] at h
      exact h ▸ Or.inr (Or.inl ⟨f, rfl⟩)
    | some spec =>
      simp only [hs] at h
      by_cases hb : spec.broken = true
      · simp only [hb, if_true, Except.error.injEq] at h
        exact h ▸ Or.inr (Or.inr (Or.inl ⟨f, rfl⟩))
      · simp only [hb, Bool.false_eq_true, if_false] at h
        exact loadStmtsWith_errs (loadFile W fuel) ih _ _ _ e h

end ParamsLoad

/-! ## termination: the fuel is never the reason to stop -/
namespace ParamsLoad

theorem filter_length_le {α : Type} (p q : α → Bool) (l : List α) (h : ∀ x, p x = true → q x = true) :
    (l.filter p).length ≤ (l.filter q).length := by
  induction l with
  | nil => simp
  | cons a l ih =>
    by_cases hp : p a = true
    · simp [List.filter, hp, h a hp, ih]
    · have hp' : p a = false := by simpa using hp
      by_cases hq : q a = true
      · simp [List.filter, hp', hq]; omega
      · have hq' : q a = false := by simpa using hq
        simp [List.filter, hp', hq', ih]

theorem filter_length_lt {α : Type} (p q : α → Bool) (l : List α) (h : ∀ x, p x = true → q x = true)
    (a : α) (ha : a ∈ l) (hqa : q a = true) (hpa : p a = false) :
    (l.filter p).length < (l.filter q).length := by
  induction l with
  | nil => simp at ha
  | cons b l ih =>
    rcases List.mem_cons.1 ha with rfl | ha
    · have := filter_length_le p q l h
      simp [List.filter, hqa, hpa]; omega
    · have := ih ha
      by_cases hp : p b = true
      · simp [List.filter, hp, h b hp]; omega
      · have hp' : p b = false := by simpa using hp
        by_cases hq : q b = true
        · simp [List.filter, hp', hq]; omega
        · have hq' : q b = false := by simpa using hq
          simp [List.filter, hp', hq']; omega

/-- number of files of the world that are not in the repository -/
def missing (W : World) (repo : Repo) : Nat :=
  ((List.range W.files.length).filter (fun f => !has repo f)).length

theorem missing_append_le (W : World) (repo c : Repo) : missing W (repo ++ c) ≤ missing W repo := by
  unfold missing
  apply filter_length_le
  intro x hx
  rw [has_append] at hx
  cases h : has repo x <;> simp_all

theorem missing_lt_of_new (W : World) (repo c : Repo) (f : Nat) (hf : f < W.files.length)
    (hnot : has repo f = false) (hin : has (repo ++ c) f = true) :
    missing W (repo ++ c) < missing W repo := by
  unfold missing
  apply filter_length_lt _ _ _ _ f (by simp [hf]) (by simp [hnot]) (by simp [hin])
  intro x hx
  rw [has_append] at hx
  cases h : has repo x <;> simp_all

theorem loadFilesWith_noFuel (W : World) (n : Nat) (rec : Repo → Nat → Params → Except Err Repo)
    (hext : ∀ repo g mp repo', has repo g = false → rec repo g mp = .ok repo' → ∃ c, repo' = repo ++ c)
    (hrec : ∀ repo g mp, has repo g = false → g < W.files.length → missing W repo ≤ n →
      rec repo g mp ≠ .error .fuel) :
    ∀ gs repo p, (∀ g, g ∈ gs → g < W.files.length) → missing W repo ≤ n →
      loadFilesWith rec repo gs p ≠ .error .fuel := by
  intro gs
  induction gs with
  | nil => intro repo p _ _ h; simp [loadFilesWith] at h
  | cons g gs ih =>
    intro repo p hv hm h
    have hvs : ∀ x, x ∈ gs → x < W.files.length := fun x hx => hv x (by simp [hx])
    cases p with
    | none => simp [loadFilesWith] at h
    | some mp =>
      by_cases hg : has repo g = true
      · simp only [loadFilesWith, hg, if_true] at h
        exact ih repo (some mp) hvs hm h
      · have hg' : has repo g = false := by simpa using hg
        simp only [loadFilesWith, hg', Bool.false_eq_true, if_false] at h
        cases hr : rec repo g mp with
        | error e =>
          simp only [hr, Except.error.injEq] at h
          exact hrec repo g mp hg' (hv g (by simp)) hm (by rw [hr, h])
        | ok repo1 =>
          simp only [hr] at h
          obtain ⟨c, rfl⟩ := hext repo g mp repo1 hg' hr
          exact ih (repo ++ c) (some mp) hvs (Nat.le_trans (missing_append_le W repo c) hm) h

theorem loadFilesWith_ext (rec : Repo → Nat → Params → Except Err Repo)
    (hext : ∀ repo g mp repo', has repo g = false → rec repo g mp = .ok repo' → ∃ c, repo' = repo ++ c) :
    ∀ gs repo p repo', loadFilesWith rec repo gs p = .ok repo' → ∃ c, repo' = repo ++ c := by
  intro gs
  induction gs with
  | nil => intro repo p repo' h; simp only [loadFilesWith, Except.ok.injEq] at h; exact ⟨[], by simp [h]⟩
  | cons g gs ih =>
    intro repo p repo' h
    cases p with
    | none => simp [loadFilesWith] at h
    | some mp =>
      by_cases hg : has repo g = true
      · simp only [loadFilesWith, hg, if_true] at h
        exact ih repo (some mp) repo' h
      · have hg' : has repo g = false := by simpa using hg
        simp only [loadFilesWith, hg', Bool.false_eq_true, if_false] at h
        cases hr : rec repo g mp with
        | error e => simp [hr] at h
        | ok repo1 =>
          simp only [hr] at h
          obtain ⟨c1, rfl⟩ := hext repo g mp repo1 hg' hr
          obtain ⟨c2, rfl⟩ := ih (repo ++ c1) (some mp) repo' h
          exact ⟨c1 ++ c2, by simp⟩

theorem loadStmtsWith_noFuel (W : World) (n : Nat) (rec : Repo → Nat → Params → Except Err Repo)
    (hext : ∀ repo g mp repo', has repo g = false → rec repo g mp = .ok repo' → ∃ c, repo' = repo ++ c)
    (hrec : ∀ repo g mp, has repo g = false → g < W.files.length → missing W repo ≤ n →
      rec repo g mp ≠ .error .fuel) :
    ∀ ss repo p, (∀ fs, fs ∈ ss → ∀ g, g ∈ fs → g < W.files.length) → missing W repo ≤ n →
      loadStmtsWith rec repo ss p ≠ .error .fuel := by
  intro ss
  induction ss with
  | nil => intro repo p _ _ h; simp [loadStmtsWith] at h
  | cons fs rest ih =>
    intro repo p hv hm h
    by_cases hfs : fs = []
    · simp [loadStmtsWith, hfs] at h
    · simp only [loadStmtsWith, hfs, if_false] at h
      cases hr : loadFilesWith rec repo fs p with
      | error e =>
        simp only [hr, Except.error.injEq] at h
        exact loadFilesWith_noFuel W n rec hext hrec fs repo p (hv fs (by simp)) hm (by rw [hr, h])
      | ok repo1 =>
        simp only [hr] at h
        obtain ⟨c, rfl⟩ := loadFilesWith_ext rec hext fs repo p repo1 hr
        exact ih (repo ++ c) p (fun xs hxs => hv xs (by simp [hxs]))
          (Nat.le_trans (missing_append_le W repo c) hm) h

theorem effImports_valid (W : World) (hW : W.WF) (spec : FileSpec) (hs : spec ∈ W.files) (p : Option Params) :
    ∀ fs, fs ∈ effImports W spec p → ∀ g, g ∈ fs → g < W.files.length := by
  intro fs hfs g hg
  unfold effImports at hfs
  cases hp : W.prov with
  | none => simp [hp] at hfs
  | importURI => simp only [hp] at hfs; exact hW.1 spec hs fs hfs g hg
  | rrelM =>
    simp only [hp] at hfs
    by_cases hr : spec.hasRef = true
    · simp only [hr, if_true] at hfs; exact hW.1 spec hs fs hfs g hg
    · simp [hr] at hfs
  | globalRepo rel hit =>
    simp only [hp, List.mem_singleton] at hfs
    subst hfs
    by_cases hc : (rel && !hasKey p "project_root") = true
    · simp [hc] at hg
    · simp only [hc, Bool.false_eq_true, if_false] at hg
      exact hW.2 rel hit hp g hg

/-- with fuel for every file that is still missing the recursion never runs dry -/
theorem loadFile_noFuel (W : World) (hW : W.WF) :
    ∀ fuel repo f mp, has repo f = false → f < W.files.length → missing W repo ≤ fuel →
      loadFile W fuel repo f mp ≠ .error .fuel := by
  intro fuel
  induction fuel with
  | zero =>
    intro repo f mp hf hlt hm
    have : missing W (repo ++ [{ file := f, params := none }]) < missing W repo :=
      missing_lt_of_new W repo _ f hlt hf (by simp [has])
    omega
  | succ n ih =>
    intro repo f mp hf hlt hm h
    simp only [loadFile] at h
    cases hs : W.files[f]? with
    | none => simp [hs] at h
    | some spec =>
      simp only [hs] at h
      by_cases hb : spec.broken = true
      · simp [hb] at h
      · simp only [hb, Bool.false_eq_true, if_false] at h
        have hmem : spec ∈ W.files := List.mem_of_getElem? hs
        have hlt' : missing W (repo ++ [{ file := f, params := some mp }]) < missing W repo :=
          missing_lt_of_new W repo _ f hlt hf (by simp [has])
        refine loadStmtsWith_noFuel W n (loadFile W n) ?_ ih _ _ _
          (effImports_valid W hW spec hmem _) (by omega) h
        intro repo g mp' repo' hg hr
        obtain ⟨c, hc, _⟩ := loadFile_post W mp' n repo g repo' hg hr
        exact ⟨c, hc⟩

end ParamsLoad

/-! ## more fuel changes nothing once the fuel was enough -/
namespace ParamsLoad

theorem loadFilesWith_more (rec rec' : Repo → Nat → Params → Except Err Repo)
    (h : ∀ repo g mp, rec repo g mp ≠ .error .fuel → rec' repo g mp = rec repo g mp) :
    ∀ gs repo p, loadFilesWith rec repo gs p ≠ .error .fuel →
      loadFilesWith rec' repo gs p = loadFilesWith rec repo gs p := by
  intro gs
  induction gs with
  | nil => intro repo p _; rfl
  | cons g gs ih =>
    intro repo p hne
    cases p with
    | none => rfl
    | some mp =>
      by_cases hg : has repo g = true
      · simp only [loadFilesWith, hg, if_true] at hne ⊢
        exact ih repo (some mp) hne
      · have hg' : has repo g = false := by simpa using hg
        simp only [loadFilesWith, hg', Bool.false_eq_true, if_false] at hne ⊢
        cases hr : rec repo g mp with
        | error e =>
          simp only [hr] at hne
          have := h repo g mp (by rw [hr]; exact hne)
          rw [this, hr]
        | ok repo1 =>
          simp only [hr] at hne
          have := h repo g mp (by rw [hr]; simp)
          rw [this, hr]
          exact ih repo1 (some mp) hne

theorem loadStmtsWith_more (rec rec' : Repo → Nat → Params → Except Err Repo)
    (h : ∀ repo g mp, rec repo g mp ≠ .error .fuel → rec' repo g mp = rec repo g mp) :
    ∀ ss repo p, loadStmtsWith rec repo ss p ≠ .error .fuel →
      loadStmtsWith rec' repo ss p = loadStmtsWith rec repo ss p := by
  intro ss
  induction ss with
  | nil => intro repo p _; rfl
  | cons fs rest ih =>
    intro repo p hne
    by_cases hfs : fs = []
    · simp [loadStmtsWith, hfs]
    · simp only [loadStmtsWith, hfs, if_false] at hne ⊢
      cases hr : loadFilesWith rec repo fs p with
      | error e =>
        simp only [hr] at hne
        rw [loadFilesWith_more rec rec' h fs repo p (by rw [hr]; exact hne), hr]
      | ok repo1 =>
        simp only [hr] at hne
        rw [loadFilesWith_more rec rec' h fs repo p (by rw [hr]; simp), hr]
        exact ih repo1 p hne

theorem loadFile_succ_eq (W : World) (fuel : Nat) (repo : Repo) (f : Nat) (mp : Params) :
    loadFile W (fuel + 1) repo f mp =
      match W.files[f]? with
      | none => .error (.noFile f)
      | some spec =>
        if spec.broken then .error (.syntax f)
        else loadStmtsWith (loadFile W fuel) (repo ++ [{ file := f, params := some mp }])
          (effImports W spec (some mp)) (some mp) := rfl

theorem loadFile_succ (W : World) :
    ∀ fuel repo f mp, loadFile W fuel repo f mp ≠ .error .fuel →
      loadFile W (fuel + 1) repo f mp = loadFile W fuel repo f mp := by
  intro fuel
  induction fuel with
  | zero => intro repo f mp hne; exact absurd rfl hne
  | succ n ih =>
    intro repo f mp hne
    rw [loadFile_succ_eq W n repo f mp] at hne
    rw [loadFile_succ_eq W (n + 1) repo f mp, loadFile_succ_eq W n repo f mp]
    cases hs : W.files[f]? with
    | none => rfl
    | some spec =>
      simp only [hs] at hne ⊢
      by_cases hb : spec.broken = true
      · simp [hb]
      · simp only [hb, Bool.false_eq_true, if_false] at hne ⊢
        exact loadStmtsWith_more (loadFile W n) (loadFile W (n + 1)) ih _ _ _ hne

theorem loadFile_more (W : World) (n m : Nat) (hnm : n ≤ m) (repo : Repo) (f : Nat) (mp : Params)
    (hne : loadFile W n repo f mp ≠ .error .fuel) : loadFile W m repo f mp = loadFile W n repo f mp := by
  induction m with
  | zero =>
    have : n = 0 := by omega
    subst this; rfl
  | succ m ih =>
    by_cases h : n = m + 1
    · subst h; rfl
    · have hle : n ≤ m := by omega
      have e := ih hle
      rw [loadFile_succ W m repo f mp (by rw [e]; exact hne), e]

end ParamsLoad
