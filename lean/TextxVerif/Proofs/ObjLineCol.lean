import TextxVerif.Obj.LineCol
/-! Helper lemmas for C06: binary search, line ends, `pos_to_linecol`. -/
namespace Obj

theorem sorted_getD {xs : List Nat} (hs : xs.Pairwise (· ≤ ·)) {i j : Nat} (hij : i ≤ j) (hj : j < xs.length) :
    xs.getD i 0 ≤ xs.getD j 0 := by
  have hi : i < xs.length := by omega
  have e1 : xs.getD i 0 = xs[i] := by simp [List.getD_eq_getElem?_getD, hi]
  have e2 : xs.getD j 0 = xs[j] := by simp [List.getD_eq_getElem?_getD, hj]
  rw [e1, e2]
  rcases Nat.eq_or_lt_of_le hij with h | h
  · subst h; exact Nat.le_refl _
  · exact (List.pairwise_iff_getElem.mp hs) i j hi hj h

/-- the loop of `bisect_left` keeps its invariant and ends at the partition point -/
theorem bisectLoop_spec (xs : List Nat) (p : Nat) (hs : xs.Pairwise (· ≤ ·)) :
    ∀ fuel lo hi, lo ≤ hi → hi ≤ xs.length → hi - lo < fuel →
      (∀ i, i < lo → xs.getD i 0 < p) → (∀ i, hi ≤ i → i < xs.length → p ≤ xs.getD i 0) →
      lo ≤ bisectLoop xs p fuel lo hi ∧ bisectLoop xs p fuel lo hi ≤ hi ∧
      (∀ i, i < bisectLoop xs p fuel lo hi → xs.getD i 0 < p) ∧
      (∀ i, bisectLoop xs p fuel lo hi ≤ i → i < xs.length → p ≤ xs.getD i 0) := by
  intro fuel
  induction fuel with
  | zero => intro lo hi _ _ h; omega
  | succ f ih =>
    intro lo hi hle hlen hf hlo hhi
    unfold bisectLoop
    by_cases hlt : lo < hi
    · simp only [hlt, if_true]
      have hmid1 : lo ≤ (lo + hi) / 2 := by omega
      have hmid2 : (lo + hi) / 2 < hi := by omega
      by_cases hc : xs.getD ((lo + hi) / 2) 0 < p
      · simp only [hc, if_true]
        have := ih ((lo + hi) / 2 + 1) hi (by omega) hlen (by omega)
          (by
            intro i hi'
            have : xs.getD i 0 ≤ xs.getD ((lo + hi) / 2) 0 := sorted_getD hs (by omega) (by omega)
            omega)
          hhi
        refine ⟨by omega, this.2.1, this.2.2.1, this.2.2.2⟩
      · simp only [hc, if_false]
        have := ih lo ((lo + hi) / 2) hmid1 (by omega) (by omega) hlo
          (by
            intro i hi1 hi2
            have : xs.getD ((lo + hi) / 2) 0 ≤ xs.getD i 0 := sorted_getD hs hi1 hi2
            omega)
        refine ⟨this.1, by omega, this.2.2.1, this.2.2.2⟩
    · simp only [hlt, if_false]
      have : lo = hi := by omega
      subst this
      exact ⟨Nat.le_refl _, Nat.le_refl _, hlo, hhi⟩

theorem bisectLeft_spec (xs : List Nat) (p : Nat) (hs : xs.Pairwise (· ≤ ·)) :
    bisectLeft xs p ≤ xs.length ∧
      (∀ i, i < bisectLeft xs p → xs.getD i 0 < p) ∧
      (∀ i, bisectLeft xs p ≤ i → i < xs.length → p ≤ xs.getD i 0) := by
  have := bisectLoop_spec xs p hs (xs.length + 1) 0 xs.length (Nat.zero_le _) (Nat.le_refl _) (by omega)
    (by intro i h; omega) (by intro i h1 h2; omega)
  exact ⟨this.2.1, this.2.2.1, this.2.2.2⟩

/-- a partition point of a list counts the elements below `p` -/
theorem count_lt_of_partition (xs : List Nat) (p r : Nat) (hr : r ≤ xs.length)
    (h1 : ∀ i, i < r → xs.getD i 0 < p) (h2 : ∀ i, r ≤ i → i < xs.length → p ≤ xs.getD i 0) :
    (xs.filter (· < p)).length = r := by
  induction xs generalizing r with
  | nil => simp at hr; simp [hr]
  | cons x xs ih =>
    cases r with
    | zero =>
      have hx : ¬ x < p := by
        have := h2 0 (Nat.le_refl _) (by simp)
        simp at this; omega
      have := ih 0 (Nat.zero_le _) (by intro i h; omega)
        (by intro i _ hi; have := h2 (i + 1) (by omega) (by simp; omega); simpa using this)
      simp [hx, this]
    | succ r =>
      have hx : x < p := by have := h1 0 (by omega); simpa using this
      have := ih r (by simp at hr; omega)
        (by intro i hi; have := h1 (i + 1) (by omega); simpa using this)
        (by intro i hi1 hi2; have := h2 (i + 1) (by omega) (by simp; omega); simpa using this)
      simp [hx, this]

/-! ## line ends -/

theorem mem_lineEndsFrom {i : Nat} {s : List Char} {e : Nat} :
    e ∈ lineEndsFrom i s ↔ i ≤ e ∧ s[e - i]? = some '\n' := by
  induction s generalizing i with
  | nil => simp [lineEndsFrom]
  | cons c cs ih =>
    unfold lineEndsFrom
    by_cases hc : c = '\n'
    · simp only [hc, if_true, List.mem_cons, ih]
      constructor
      · rintro (h | ⟨h1, h2⟩)
        · subst h; simp
        · refine ⟨by omega, ?_⟩
          have : e - i = (e - (i + 1)) + 1 := by omega
          rw [this]; simpa using h2
      · rintro ⟨h1, h2⟩
        by_cases he : e = i
        · exact Or.inl he
        · right
          refine ⟨by omega, ?_⟩
          have : e - i = (e - (i + 1)) + 1 := by omega
          rw [this] at h2; simpa using h2
    · simp only [hc, if_false, ih]
      constructor
      · rintro ⟨h1, h2⟩
        refine ⟨by omega, ?_⟩
        have : e - i = (e - (i + 1)) + 1 := by omega
        rw [this]; simpa using h2
      · rintro ⟨h1, h2⟩
        have hne : e ≠ i := by
          intro h; subst h; simp at h2; exact hc h2
        refine ⟨by omega, ?_⟩
        have : e - i = (e - (i + 1)) + 1 := by omega
        rw [this] at h2; simpa using h2

theorem lineEndsFrom_sorted (i : Nat) (s : List Char) : (lineEndsFrom i s).Pairwise (· < ·) := by
  induction s generalizing i with
  | nil => simp [lineEndsFrom]
  | cons c cs ih =>
    unfold lineEndsFrom
    by_cases hc : c = '\n'
    · simp only [hc, if_true, List.pairwise_cons]
      refine ⟨?_, ih (i + 1)⟩
      intro e he
      have := (mem_lineEndsFrom.mp he).1
      omega
    · simp only [hc, if_false]; exact ih (i + 1)

theorem mem_lineEnds {s : List Char} {e : Nat} : e ∈ lineEnds s ↔ s[e]? = some '\n' := by
  simp [lineEnds, mem_lineEndsFrom]

theorem lineEnds_sorted (s : List Char) : (lineEnds s).Pairwise (· ≤ ·) :=
  (lineEndsFrom_sorted 0 s).imp Nat.le_of_lt

theorem lineEndsFrom_count (i p : Nat) (s : List Char) :
    ((lineEndsFrom i s).filter (· < p)).length = (s.take (p - i)).count '\n' := by
  induction s generalizing i with
  | nil => simp [lineEndsFrom]
  | cons c cs ih =>
    unfold lineEndsFrom
    by_cases hp : p ≤ i
    · have h0 : p - i = 0 := by omega
      have hnone : ∀ l : List Nat, (∀ e ∈ l, i ≤ e) → (l.filter (· < p)).length = 0 := by
        intro l hl
        rw [List.length_eq_zero_iff, List.filter_eq_nil_iff]
        intro e he; have := hl e he; simp; omega
      rw [h0]; simp only [List.take_zero, List.count_nil]
      apply hnone
      intro e he
      split at he
      · rcases List.mem_cons.mp he with h | h
        · omega
        · have := (mem_lineEndsFrom.mp h).1; omega
      · have := (mem_lineEndsFrom.mp he).1; omega
    · have hpi : p - i = (p - (i + 1)) + 1 := by omega
      rw [hpi, List.take_succ_cons]
      by_cases hc : c = '\n'
      · have hip : i < p := by omega
        simp [hc, hip, ih (i + 1)]
      ·         simp [hc, ih (i + 1)]

theorem lineEnds_count (p : Nat) (s : List Char) :
    ((lineEnds s).filter (· < p)).length = (s.take p).count '\n' := by
  simpa [lineEnds] using lineEndsFrom_count 0 p s


theorem bisect_lineEnds (s : List Char) (pos : Nat) :
    bisectLeft (lineEnds s) pos = (s.take pos).count '\n' := by
  have h := bisectLeft_spec (lineEnds s) pos (lineEnds_sorted s)
  rw [← lineEnds_count, count_lt_of_partition _ _ _ h.1 h.2.1 h.2.2]

theorem getD_mem_of_lt {xs : List Nat} {i : Nat} (h : i < xs.length) : xs.getD i 0 ∈ xs := by
  have e1 : xs.getD i 0 = xs[i] := by simp [List.getD_eq_getElem?_getD, h]
  rw [e1]; exact List.getElem_mem h

theorem exists_getD_of_mem {xs : List Nat} {e : Nat} (h : e ∈ xs) : ∃ k, k < xs.length ∧ xs.getD k 0 = e := by
  obtain ⟨k, hk, rfl⟩ := List.getElem_of_mem h
  exact ⟨k, hk, by simp [List.getD_eq_getElem?_getD, hk]⟩

/-- `pos_to_linecol`: line = 1 + number of `\n` before `pos`; column = 1 + distance from the
start of that line, which is the position right after the last `\n` before `pos` (or 0). -/
theorem posToLineCol_spec (s : List Char) (pos : Nat) :
    (posToLineCol s pos).1 = 1 + (s.take pos).count '\n' ∧
    ∃ start : Nat, start ≤ pos ∧ (posToLineCol s pos).2 = ((pos - start + 1 : Nat) : Int) ∧
      (start = 0 ∨ s[start - 1]? = some '\n') ∧ ∀ i, start ≤ i → i < pos → s[i]? ≠ some '\n' := by
  have hb := bisectLeft_spec (lineEnds s) pos (lineEnds_sorted s)
  have hcount := bisect_lineEnds s pos
  refine ⟨by simp [posToLineCol, hcount]; omega, ?_⟩
  by_cases hline : bisectLeft (lineEnds s) pos > 0
  · -- e = the last line end before pos
    have hk : bisectLeft (lineEnds s) pos - 1 < (lineEnds s).length := by omega
    have hlt : (lineEnds s).getD (bisectLeft (lineEnds s) pos - 1) 0 < pos := hb.2.1 _ (by omega)
    have hmem := getD_mem_of_lt hk
    have hnl := mem_lineEnds.mp hmem
    have hgetD : s.getD ((lineEnds s).getD (bisectLeft (lineEnds s) pos - 1) 0) ' ' = '\n' := by
      rw [List.getD_eq_getElem?_getD, hnl]; rfl
    refine ⟨(lineEnds s).getD (bisectLeft (lineEnds s) pos - 1) 0 + 1, by omega, ?_, ?_, ?_⟩
    · simp only [posToLineCol, hline, if_true, hgetD, true_or]
      omega
    · right; simpa using hnl
    · intro i hi1 hi2 hnli
      obtain ⟨k, hk1, hk2⟩ := exists_getD_of_mem (mem_lineEnds.mpr hnli)
      by_cases hkr : bisectLeft (lineEnds s) pos ≤ k
      · have := hb.2.2 k hkr hk1; omega
      · have := sorted_getD (lineEnds_sorted s) (i := k) (j := bisectLeft (lineEnds s) pos - 1) (by omega) hk
        omega
  · have h0 : bisectLeft (lineEnds s) pos = 0 := by omega
    refine ⟨0, Nat.zero_le _, ?_, Or.inl rfl, ?_⟩
    · simp [posToLineCol, h0]
    · intro i _ hi2 hnli
      obtain ⟨k, hk1, hk2⟩ := exists_getD_of_mem (mem_lineEnds.mpr hnli)
      have := hb.2.2 k (by omega) hk1; omega


theorem no_nl_between (s : List Char) (p q : Nat) (_hpq : p ≤ q)
    (hc : (s.take p).count '\n' = (s.take q).count '\n') : ∀ i, p ≤ i → i < q → s[i]? ≠ some '\n' := by
  intro i hi1 hi2 hnl
  rw [← lineEnds_count, ← lineEnds_count] at hc
  have hsub : ((lineEnds s).filter (· < p)) = ((lineEnds s).filter (· < q)).filter (· < p) := by
    rw [List.filter_filter]
    apply List.filter_congr
    intro x _
    by_cases h : x < p <;> simp [h]
    omega
  have hsl : ((lineEnds s).filter (· < p)).Sublist ((lineEnds s).filter (· < q)) := by
    rw [hsub]; exact List.filter_sublist
  have heq := hsl.eq_of_length hc
  have hin : i ∈ (lineEnds s).filter (· < q) := by
    simp [mem_lineEnds.mpr hnl, hi2]
  rw [← heq] at hin
  simp at hin
  omega

/-- different positions have different (line, column) pairs -/
theorem posToLineCol_inj_lt (s : List Char) (p q : Nat) (hpq : p < q) : posToLineCol s p ≠ posToLineCol s q := by
  intro h
  obtain ⟨hl1, sp, hsp1, hsp2, hsp3, hsp4⟩ := posToLineCol_spec s p
  obtain ⟨hl2, sq, hsq1, hsq2, hsq3, hsq4⟩ := posToLineCol_spec s q
  have hline : (s.take p).count '\n' = (s.take q).count '\n' := by
    have : (posToLineCol s p).1 = (posToLineCol s q).1 := by rw [h]
    omega
  have hcol : (posToLineCol s p).2 = (posToLineCol s q).2 := by rw [h]
  have hno := no_nl_between s p q (Nat.le_of_lt hpq) hline
  have hstart : sp = sq := by
    rcases Nat.lt_trichotomy sp sq with hlt | heq | hgt
    · -- the line of q starts after a newline at sq-1 ≥ sp
      rcases hsq3 with h0 | hnl
      · omega
      · by_cases hc : sq - 1 < p
        · exact absurd hnl (hsp4 (sq - 1) (by omega) hc)
        · exact absurd hnl (hno (sq - 1) (by omega) (by omega))
    · exact heq
    · rcases hsp3 with h0 | hnl
      · omega
      · exact absurd hnl (hsq4 (sp - 1) (by omega) (by omega))
  subst hstart
  rw [hsp2, hsq2] at hcol
  omega

theorem posToLineCol_inj (s : List Char) (p q : Nat) (h : posToLineCol s p = posToLineCol s q) : p = q := by
  rcases Nat.lt_trichotomy p q with hlt | heq | hgt
  · exact absurd h (posToLineCol_inj_lt s p q hlt)
  · exact heq
  · exact absurd h.symm (posToLineCol_inj_lt s q p hgt)

end Obj
