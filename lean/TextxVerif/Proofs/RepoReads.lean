import TextxVerif.Proofs.RepoMain
/-!
File reads of one load: every file is opened at most once, never when cached,
and on success exactly the files reachable from the main file through
non-cached files are opened (C17 "once").
-/
namespace Repo

/-- `Reach S C g h`: `h` is reachable from `g` along `load_model` calls through
files that are not in the cache `C` (both ends included) -/
inductive Reach (S : Spec) (C : List File) : File → File → Prop
  | refl {g : File} : g ∉ C → Reach S C g g
  | step {g h x : File} : Reach S C g h → some x ∈ S.calls h → x ∉ C → Reach S C g x

theorem Reach.head {S : Spec} {C : List File} {h x y : File} (hh : h ∉ C) (hx : some x ∈ S.calls h)
    (hr : Reach S C x y) : Reach S C h y := by
  induction hr with
  | refl hxC => exact Reach.step (Reach.refl hh) hx hxC
  | step _ hc hn ih => exact Reach.step ih hc hn

theorem Reach.start_not_cached {S : Spec} {C : List File} {g h : File} (hr : Reach S C g h) : g ∉ C := by
  induction hr with
  | refl h => exact h
  | step _ _ _ ih => exact ih

section reads
variable {B : Dict} {n0 : Nat} {L0 : Inst → Dict}

/-- the reads of one piece of a load: `new` (newest first) -/
structure ReadsOf (S : Spec) (C : List File) (from_ : File) (own : Option File) (st st1 : St) (r : Res)
    (new : List File) : Prop where
  eq : st1.reads = new ++ st.reads
  nodup : new.Nodup
  fresh : ∀ h ∈ new, h ∉ st.all.keys
  reach : ∀ h ∈ new, Reach S C from_ h
  inAll : r = .ok → ∀ h ∈ new, h ∈ st1.all.keys
  keys : r = .ok → ∀ h ∈ st1.all.keys, h ∈ st.all.keys ∨ h ∈ new ∨ some h = own
  closed : r = .ok → ∀ h ∈ new, ∀ x, some x ∈ S.calls h → x ∈ st1.all.keys

def ParseReads (S : Spec) (B : Dict) (n0 : Nat) (L0 : Inst → Dict) (parse : Parse) : Prop :=
  ∀ st g st1 r j, Inv B n0 L0 st → Good n0 st → g ∉ st.all.keys → parse st g = (st1, r, j) →
    ∃ new, ReadsOf S B.keys g none st st1 r new

theorem keys_sub_of_all_sub {st st' : St} (h : ∀ e ∈ st.all, e ∈ st'.all) : ∀ k ∈ st.all.keys, k ∈ st'.all.keys := by
  intro k hk
  obtain ⟨e, he, hek⟩ := List.mem_map.1 hk
  rw [← hek]; exact Dict.mem_keys_of_mem (h e he)

theorem B_keys_sub {st : St} (hI : Inv B n0 L0 st) : ∀ k ∈ B.keys, k ∈ st.all.keys := by
  intro k hk
  obtain ⟨e, he, hek⟩ := List.mem_map.1 hk
  rw [← hek]; exact Dict.mem_keys_of_mem (hI.B_sub e he)

theorem setLoc_keys (st : St) (i g j) : (st.setLoc i g j).all = st.all := rfl
theorem setLoc_reads (st : St) (i g j) : (st.setLoc i g j).reads = st.reads := rfl

theorem loadModelWith_reads (S : Spec) {parse : Parse} (hp : ParseSafe B n0 L0 parse)
    (hr : ParseReads S B n0 L0 parse) {st st1 : St} {i : Inst} {g hf : File} {r : Res}
    (hI : Inv B n0 L0 st) (hG : Good n0 st) (hfC : hf ∉ B.keys) (hg : some g ∈ S.calls hf)
    (h : loadModelWith parse st i g = (st1, r)) :
    ∃ new, ReadsOf S B.keys hf none st st1 r new := by
  unfold loadModelWith at h
  split at h
  · cases h
    exact ⟨[], ⟨rfl, List.nodup_nil, by simp, by simp, by simp, fun _ h hh => Or.inl hh, by simp⟩⟩
  · split at h
    · cases h
      exact ⟨[], ⟨rfl, List.nodup_nil, by simp, by simp, by simp, fun _ h hh => Or.inl hh, by simp⟩⟩
    · rename_i hnl hna
      have hgk : g ∉ st.all.keys := (Dict.has_false_iff _ _).1 (by simpa using hna)
      cases hpe : parse st g with
      | mk st' rj =>
        obtain ⟨r', j⟩ := rj
        obtain ⟨_, hok⟩ := hp st g st' r' j hI hG hgk hpe
        obtain ⟨new, hn⟩ := hr st g st' r' j hI hG hgk hpe
        rw [hpe] at h
        have hreach : ∀ h ∈ new, Reach S B.keys hf h := fun h hh => Reach.head hfC hg (hn.reach h hh)
        cases r' with
        | ok =>
          simp only at h; cases h
          obtain ⟨hG', _, hm, _⟩ := hok rfl
          have heq : st'.setAll g j = st' := setAll_mem_eq hG'.nodup g j hm
          rw [heq]
          exact ⟨new, ⟨hn.eq, hn.nodup, hn.fresh, hreach, hn.inAll, hn.keys, hn.closed⟩⟩
        | fail k =>
          simp only at h; cases h
          exact ⟨new, ⟨hn.eq, hn.nodup, hn.fresh, hreach, (fun h => by cases h), (fun h => by cases h),
            (fun h => by cases h)⟩⟩
        | fuel =>
          simp only at h; cases h
          exact ⟨new, ⟨hn.eq, hn.nodup, hn.fresh, hreach, (fun h => by cases h), (fun h => by cases h),
            (fun h => by cases h)⟩⟩

theorem registerSelf_keys (st : St) (i : Inst) :
    ∀ k ∈ (st.registerSelf i).all.keys, k ∈ st.all.keys ∨ k = st.fileOf i := by
  intro k hk
  unfold St.registerSelf at hk
  split at hk
  · exact Or.inl hk
  · rename_i h
    have hnk : st.fileOf i ∉ st.all.keys := (Dict.has_false_iff _ _).1 (by simpa using h)
    simp only [St.setAll, Dict.set_of_not_mem _ _ _ hnk, Dict.keys, List.map_append, List.map_cons, List.map_nil,
      List.mem_append, List.mem_singleton] at hk
    exact hk

theorem registerSelf_has (st : St) (i : Inst) : st.fileOf i ∈ (st.registerSelf i).all.keys := by
  unfold St.registerSelf
  split
  · rename_i h; exact (Dict.has_iff _ _).1 h
  · exact Dict.mem_keys_set _ _ _

theorem loadCalls_reads (S : Spec) {parse : Parse} (hp : ParseSafe B n0 L0 parse)
    (hr : ParseReads S B n0 L0 parse) (i : Inst) (hi0 : n0 ≤ i) (hf : File) (hfC : hf ∉ B.keys) :
    ∀ (cs : List (Option File)) (st st1 : St) (r : Res), Inv B n0 L0 st → Good n0 st → i < st.next →
      st.constr i = true → st.fileOf i = hf → (∀ c ∈ cs, c ∈ S.calls hf) →
      loadCalls parse i st cs = (st1, r) →
      ∃ new, ReadsOf S B.keys hf (some hf) st st1 r new ∧ ∀ y ∈ new, y ≠ hf := by
  intro cs
  induction cs with
  | nil =>
    intro st st1 r _ _ _ _ _ _ h
    simp only [loadCalls] at h; cases h
    exact ⟨[], ⟨rfl, List.nodup_nil, by simp, by simp, by simp, fun _ h hh => Or.inl hh, by simp⟩, by simp⟩
  | cons c cs ih =>
    intro st st1 r hI hG hi hc hfi hcs h
    simp only [loadCalls] at h
    have hI1 := registerSelf_inv hI i hi0 hc
    have hG1 := registerSelf_good (n0 := n0) hG i hi
    have hM1 := registerSelf_monoX st i i
    have hk1 := registerSelf_keys st i
    cases c with
    | none =>
      simp only at h; cases h
      exact ⟨[], ⟨by simp [registerSelf_reads], List.nodup_nil, by simp, by simp, by simp, (fun h => by cases h),
        by simp⟩, by simp⟩
    | some g =>
      simp only at h
      have hgc : some g ∈ S.calls hf := hcs _ List.mem_cons_self
      cases hl : loadModelWith parse (st.registerSelf i) i g with
      | mk st2 r2 =>
        rw [hl] at h
        have hi1 : i < (st.registerSelf i).next := by rw [registerSelf_next]; exact hi
        obtain ⟨hI2, hok2⟩ := loadModelWith_safe hp hI1 hG1 hi0 hi1 hl
        obtain ⟨new2, hn2⟩ := loadModelWith_reads S hp hr hI1 hG1 hfC hgc hl
        have heq2 : st2.reads = new2 ++ st.reads := by rw [hn2.eq, registerSelf_reads]
        have hfresh2 : ∀ h ∈ new2, h ∉ st.all.keys := fun h hh hk =>
          hn2.fresh h hh (keys_sub_of_all_sub hM1.all h hk)
        have hne2 : ∀ y ∈ new2, y ≠ hf := fun y hy hyf => by
          apply hn2.fresh y hy
          rw [hyf, ← hfi]
          exact registerSelf_has st i
        cases r2 with
        | ok =>
          simp only at h
          obtain ⟨hG2, hM2, hall2⟩ := hok2 rfl
          have hi2 : i < st2.next := Nat.lt_of_lt_of_le hi1 hM2.next
          have hc2 : st2.constr i = true := by rw [hM2.constr i hi1, registerSelf_constr]; exact hc
          have hf2 : st2.fileOf i = hf := by
            rw [hM2.fileOf i hi1, hM1.fileOf i hi]; exact hfi
          obtain ⟨new1, hn1, hne1⟩ := ih st2 st1 r hI2 hG2 hi2 hc2 hf2
            (fun c hc' => hcs c (List.mem_cons_of_mem _ hc')) h
          have hsub12 : ∀ k ∈ (st.registerSelf i).all.keys, k ∈ st2.all.keys := keys_sub_of_all_sub hM2.all
          refine ⟨new1 ++ new2, ⟨?_, ?_, ?_, ?_, ?_, ?_, ?_⟩, ?_⟩
          rotate_right
          · intro y hy
            rcases List.mem_append.1 hy with h1 | h1
            · exact hne1 y h1
            · exact hne2 y h1
          · rw [hn1.eq, heq2, List.append_assoc]
          · refine List.nodup_append.2 ⟨hn1.nodup, hn2.nodup, ?_⟩
            intro a ha b hb hab
            subst hab
            exact hn1.fresh a ha (hn2.inAll rfl a hb)
          · intro h hh
            rcases List.mem_append.1 hh with h1 | h2
            · intro hk
              exact hn1.fresh h h1 (hsub12 h (keys_sub_of_all_sub hM1.all h hk))
            · exact hfresh2 h h2
          · intro h hh
            rcases List.mem_append.1 hh with h1 | h2
            · exact hn1.reach h h1
            · exact hn2.reach h h2
          · intro hr' y hh
            obtain ⟨_, hM3, _⟩ := (loadCalls_safe hp i hi0 cs st2 st1 r hI2 hG2 hi2 hc2 h).2 hr'
            rcases List.mem_append.1 hh with h1 | h2
            · exact hn1.inAll hr' y h1
            · exact keys_sub_of_all_sub hM3.all y (hn2.inAll rfl y h2)
          · intro hr' y hh
            rcases hn1.keys hr' y hh with h1 | h1 | h1
            · rcases hn2.keys rfl y h1 with h2 | h2 | h2
              · rcases hk1 y h2 with h3 | h3
                · exact Or.inl h3
                · exact Or.inr (Or.inr (by rw [h3, hfi]))
              · exact Or.inr (Or.inl (List.mem_append_right _ h2))
              · cases h2
            · exact Or.inr (Or.inl (List.mem_append_left _ h1))
            · exact Or.inr (Or.inr h1)
          · intro hr' y hh x hx
            obtain ⟨_, hM3, _⟩ := (loadCalls_safe hp i hi0 cs st2 st1 r hI2 hG2 hi2 hc2 h).2 hr'
            rcases List.mem_append.1 hh with h1 | h2
            · exact hn1.closed hr' y h1 x hx
            · exact keys_sub_of_all_sub hM3.all x (hn2.closed rfl y h2 x hx)
        | fail k =>
          simp only at h; cases h
          exact ⟨new2, ⟨heq2, hn2.nodup, hfresh2, hn2.reach, (fun h => by cases h), (fun h => by cases h),
            (fun h => by cases h)⟩, hne2⟩
        | fuel =>
          simp only at h; cases h
          exact ⟨new2, ⟨heq2, hn2.nodup, hfresh2, hn2.reach, (fun h => by cases h), (fun h => by cases h),
            (fun h => by cases h)⟩, hne2⟩


theorem afterCallback_keys (S : Spec) (st : St) (g : File) (hg : g ∉ st.all.keys) :
    ∀ k ∈ (afterCallback S st g).all.keys, k ∈ st.all.keys ∨ k = g := by
  intro k hk
  have : (afterCallback S st g).all = st.all ++ [(g, st.next)] := by
    show Dict.set st.all g st.next = _
    exact Dict.set_of_not_mem _ _ _ hg
  rw [this] at hk
  simpa [Dict.keys] using hk

theorem afterCallback_fileOf (S : Spec) (st : St) (g : File) : (afterCallback S st g).fileOf st.next = g := by
  simp [afterCallback, St.setAll, St.alloc, upd]

theorem afterCallback_reads (S : Spec) (st : St) (g : File) : (afterCallback S st g).reads = g :: st.reads := rfl

theorem internal_reads (hB : BaseOK B n0 L0) (S : Spec) : ∀ fuel, ParseReads S B n0 L0 (internal S fuel)
  | 0 => by
    intro st g st1 r j _ _ _ h
    simp only [internal] at h; cases h
    exact ⟨[], ⟨rfl, List.nodup_nil, by simp, by simp, (fun h => by cases h), (fun h => by cases h),
      (fun h => by cases h)⟩⟩
  | fuel + 1 => by
    intro st g st1 r j hI hG hg h
    have hgB : g ∉ B.keys := fun hk => hg (B_keys_sub hI g hk)
    rw [internal_unfold] at h
    split at h
    · cases h
      exact ⟨[g], ⟨rfl, by simp, by simpa using hg, by simpa using Reach.refl hgB, (fun h => by cases h),
        (fun h => by cases h), (fun h => by cases h)⟩⟩
    · obtain ⟨hIa, hGa, hMa, hma, hlt, hca, _⟩ := afterCallback_facts hB S hI hG hg
      have hka := afterCallback_keys S st g hg
      cases hl : loadCalls (internal S fuel) st.next (afterCallback S st g) (S.calls g) with
      | mk st2 r2 =>
        rw [hl] at h
        have hsafe := loadCalls_safe (internal_safe hB S fuel) st.next hI.le (S.calls g) _ st2 r2 hIa hGa hlt hca hl
        obtain ⟨new', hn, _⟩ := loadCalls_reads S (internal_safe hB S fuel) (internal_reads hB S fuel) st.next hI.le g hgB
          (S.calls g) _ st2 r2 hIa hGa hlt hca (afterCallback_fileOf S st g) (fun c hc => hc) hl
        have heq : st2.reads = (new' ++ [g]) ++ st.reads := by
          rw [hn.eq, afterCallback_reads]; simp
        have hgin : g ∈ (afterCallback S st g).all.keys := Dict.mem_keys_of_mem hma
        have hnd : (new' ++ [g]).Nodup := by
          refine List.nodup_append.2 ⟨hn.nodup, by simp, ?_⟩
          intro a ha b hb hab
          have : b = g := by simpa using hb
          subst this; subst hab
          exact hn.fresh a ha hgin
        have hfresh : ∀ y ∈ new' ++ [g], y ∉ st.all.keys := by
          intro y hy
          rcases List.mem_append.1 hy with h1 | h1
          · intro hk
            exact hn.fresh y h1 (keys_sub_of_all_sub hMa.all y hk)
          · have : y = g := by simpa using h1
            rw [this]; exact hg
        have hreach : ∀ y ∈ new' ++ [g], Reach S B.keys g y := by
          intro y hy
          rcases List.mem_append.1 hy with h1 | h1
          · exact hn.reach y h1
          · have : y = g := by simpa using h1
            rw [this]; exact Reach.refl hgB
        cases r2 with
        | ok =>
          simp only at h
          obtain ⟨_, hM2, hcalls⟩ := hsafe.2 rfl
          split at h
          · cases h
            exact ⟨new' ++ [g], ⟨heq, hnd, hfresh, hreach, (fun h => by cases h), (fun h => by cases h),
              (fun h => by cases h)⟩⟩
          · cases h
            refine ⟨new' ++ [g], ⟨heq, hnd, hfresh, hreach, ?_, ?_, ?_⟩⟩
            · intro _ y hy
              rcases List.mem_append.1 hy with h1 | h1
              · exact hn.inAll rfl y h1
              · have : y = g := by simpa using h1
                rw [this]; exact keys_sub_of_all_sub hM2.all g hgin
            · intro _ y hy
              rcases hn.keys rfl y hy with h1 | h1 | h1
              · rcases hka y h1 with h2 | h2
                · exact Or.inl h2
                · exact Or.inr (Or.inl (by rw [h2]; simp))
              · exact Or.inr (Or.inl (List.mem_append_left _ h1))
              · have : y = g := by simpa using h1
                exact Or.inr (Or.inl (by rw [this]; simp))
            · intro _ y hy x hx
              rcases List.mem_append.1 hy with h1 | h1
              · exact hn.closed rfl y h1 x hx
              · have : y = g := by simpa using h1
                rw [this] at hx
                exact hcalls x hx
        | fuel =>
          simp only at h; cases h
          exact ⟨new' ++ [g], ⟨heq, hnd, hfresh, hreach, (fun h => by cases h), (fun h => by cases h),
            (fun h => by cases h)⟩⟩
        | fail k =>
          simp only at h; cases h
          exact ⟨new' ++ [g], ⟨by rw [cleanupA_reads]; exact heq, hnd, hfresh, hreach, (fun h => by cases h),
            (fun h => by cases h), (fun h => by cases h)⟩⟩

end reads


/-! ## the reads of a main load -/

theorem removeFromRepos_reads (st : St) (ms rm : List Inst) : (removeFromRepos st ms rm).reads = st.reads := by
  unfold removeFromRepos; split <;> rfl

theorem removeNew_reads (glob : Bool) (st : St) (before : List Inst) : (removeNew glob st before).reads = st.reads := by
  unfold removeNew; split <;> rfl

theorem finishMain_reads (S : Spec) (b : St) (f : File) (st1 : St) : (finishMain S b f st1).1.reads = st1.reads := by
  unfold finishMain
  simp only
  split
  · simp only [cleanupA_reads, removeFromRepos_reads]
  · split
    · simp only [cleanupA_reads, removeFromRepos_reads]; rfl
    · split
      · simp only [removeNew_reads]; rfl
      · rfl

theorem finishMain_ok_all (S : Spec) (b : St) (f : File) (st1 st' : St) (j : Inst)
    (h : finishMain S b f st1 = (st', .ok, j)) : st'.all = st1.all := by
  unfold finishMain at h
  simp only at h
  split at h
  · cases h
  · split at h
    · cases h
    · split at h
      · cases h
      · cases h; rfl

theorem mainStart_keys (S : Spec) (b : St) (f : File) (hf : f ∉ b.all.keys) :
    ∀ k ∈ (mainStart S b f).all.keys, k ∈ b.all.keys ∨ k = f := by
  unfold mainStart
  cases S.glob with
  | true => exact afterCallback_keys S b f hf
  | false => intro k hk; exact Or.inl hk

theorem base_reads (S : Spec) (st0 : St) : (base S st0).reads = st0.reads := by
  unfold base; split <;> rfl

theorem base_next (S : Spec) (st0 : St) : (base S st0).next = st0.next := by
  unfold base; split <;> rfl

theorem base_loc (S : Spec) (st0 : St) : (base S st0).loc = st0.loc := by
  unfold base; split <;> rfl

theorem base_all_glob (S : Spec) (st0 : St) (h : S.glob = true) : (base S st0).all = st0.all := by
  unfold base; simp [h]

theorem loadMain_reads (S : Spec) (fuel : Nat) (st0 : St) (f : File) {st' : St} {r : Res} {j : Inst}
    (hwf : WF (base S st0)) (h : loadMain S fuel st0 f = (st', r, j)) :
    ∃ new, st'.reads = new ++ st0.reads ∧ new.Nodup ∧ (∀ y ∈ new, y ∉ (base S st0).all.keys) ∧
      (∀ y ∈ new, Reach S (base S st0).all.keys f y) ∧
      (r = .ok → ∀ y, Reach S (base S st0).all.keys f y → y ∈ new) ∧
      (r = .ok → S.glob = true → ∀ y ∈ new, y ∈ st'.all.keys) := by
  have hB := hwf.baseOK
  rw [loadMain_unfold] at h
  split at h
  · -- cached
    rename_i hc
    have hh : (base S st0).all.has f = true := by
      cases hg : S.glob <;> simp [hg] at hc; exact hc
    have hfk : f ∈ (base S st0).all.keys := (Dict.has_iff _ _).1 hh
    have hno : ∀ y, Reach S (base S st0).all.keys f y → y ∈ ([] : List File) :=
      fun y hy => absurd hfk hy.start_not_cached
    split at h
    · cases h
      exact ⟨[], by simp [removeNew_reads, base_reads], List.nodup_nil, by simp, by simp, fun _ => hno, by simp⟩
    · cases h
      exact ⟨[], by simp [base_reads], List.nodup_nil, by simp, by simp, fun _ => hno, by simp⟩
  · rename_i hnc
    have hfk : f ∉ (base S st0).all.keys := by
      cases hg : S.glob with
      | true =>
        have : (base S st0).all.has f = false := by
          cases hh : (base S st0).all.has f
          · rfl
          · rw [hg, hh] at hnc; simp at hnc
        exact (Dict.has_false_iff _ _).1 this
      | false => simp [base, hg, Dict.keys]
    split at h
    · cases h
      exact ⟨[f], by simp [base_reads], by simp, by simpa using hfk, by simpa using Reach.refl hfk,
        (fun h => by cases h), (fun h => by cases h)⟩
    · obtain ⟨hIa, hGa, hSa, hlt, hca, hina, hfa, hra⟩ := mainStart_facts S hwf f (fun _ => hfk)
      have hka := mainStart_keys S (base S st0) f hfk
      cases hl : loadCalls (internal S fuel) (base S st0).next (mainStart S (base S st0) f) (S.calls f) with
      | mk st1 r1 =>
        rw [hl] at h
        have hsafe := loadCalls_safe (internal_safe hB S fuel) _ (Nat.le_refl _) (S.calls f) _ st1 r1
          hIa hGa hlt hca hl
        obtain ⟨new', hn, hnef⟩ := loadCalls_reads S (internal_safe hB S fuel) (internal_reads hB S fuel) _
          (Nat.le_refl _) f hfk (S.calls f) _ st1 r1 hIa hGa hlt hca hfa (fun c hc => hc) hl
        have heq : st1.reads = (new' ++ [f]) ++ st0.reads := by
          rw [hn.eq, hra, base_reads]; simp
        have hnd : (new' ++ [f]).Nodup := by
          refine List.nodup_append.2 ⟨hn.nodup, by simp, ?_⟩
          intro a ha b hb hab
          have : b = f := by simpa using hb
          subst this; subst hab
          exact hnef a ha rfl
        have hfresh : ∀ y ∈ new' ++ [f], y ∉ (base S st0).all.keys := by
          intro y hy
          rcases List.mem_append.1 hy with h1 | h1
          · intro hk
            exact hn.fresh y h1 (B_keys_sub hIa y hk)
          · have : y = f := by simpa using h1
            rw [this]; exact hfk
        have hreach : ∀ y ∈ new' ++ [f], Reach S (base S st0).all.keys f y := by
          intro y hy
          rcases List.mem_append.1 hy with h1 | h1
          · exact hn.reach y h1
          · have : y = f := by simpa using h1
            rw [this]; exact Reach.refl hfk
        cases r1 with
        | fuel =>
          simp only at h; cases h
          exact ⟨new' ++ [f], heq, hnd, hfresh, hreach, (fun h => by cases h), (fun h => by cases h)⟩
        | fail k' =>
          simp only at h; cases h
          exact ⟨new' ++ [f], by rw [cleanupA_reads]; exact heq, hnd, hfresh, hreach, (fun h => by cases h),
            (fun h => by cases h)⟩
        | ok =>
          simp only at h
          have hrd := finishMain_reads S (base S st0) f st1
          rw [h] at hrd
          refine ⟨new' ++ [f], by rw [hrd]; exact heq, hnd, hfresh, hreach, ?_, ?_⟩
          rotate_left
          · intro hr hg y hy
            subst hr
            rw [finishMain_ok_all S _ f st1 st' j h]
            rcases List.mem_append.1 hy with h1 | h1
            · exact hn.inAll rfl y h1
            · have : y = f := by simpa using h1
              rw [this]
              exact Dict.mem_keys_of_mem ((hsafe.2 rfl).2.1.all _ (hina hg))
          intro hr y hy
          subst hr
          obtain ⟨_, _, hcalls⟩ := hsafe.2 rfl
          induction hy with
          | refl _ => simp
          | @step h' x _ hc hxC ih =>
            have hxk : x ∈ st1.all.keys := by
              rcases List.mem_append.1 ih with h1 | h1
              · exact hn.closed rfl h' h1 x hc
              · have : h' = f := by simpa using h1
                rw [this] at hc
                exact hcalls x hc
            rcases hn.keys rfl x hxk with h1 | h1 | h1
            · rcases hka x h1 with h2 | h2
              · exact absurd h2 hxC
              · rw [h2]; simp
            · exact List.mem_append_left _ h1
            · have : x = f := by simpa using h1
              rw [this]; simp

end Repo
