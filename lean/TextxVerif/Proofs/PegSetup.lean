import TextxVerif.Peg.Setup
/-! Helper lemma for the Comment rule lookup (`Peg/Setup.lean`, C22). Core Lean only. -/
namespace Peg

/-- namespaces that do not define the rule are passed over by the search loop -/
theorem firstDefining_pre (files : List GFile) (rule : String) (pre rest : List String)
    (hpre : ∀ n ∈ pre, ∀ g, files.find? (fun g => g.name == n) = some g → rule ∉ g.defines) :
    firstDefining files rule (pre ++ rest) = firstDefining files rule rest := by
  induction pre with
  | nil => rfl
  | cons n tl ih =>
    have ih' := ih (fun m hm => hpre m (List.mem_cons_of_mem _ hm))
    simp only [List.cons_append, firstDefining]
    cases hf : files.find? (fun f => f.name == n) with
    | none => simpa using ih'
    | some g =>
      have hn := hpre n (List.mem_cons_self) g hf
      simp [hn, ih']

end Peg
