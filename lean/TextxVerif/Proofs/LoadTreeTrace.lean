import TextxVerif.LoadTree
/-!
# Which user code a load attempt calls, and in which order

`node_main_trace`: the event list of an attempt (`Sh.own`) grows by a prefix of
`mainTrace L`, and by all of it when the attempt succeeds.  Only assumption on the
loads nested in user code: they keep the event list of the enclosing attempt
(`OwnEnv`; true by construction for `asAction`).
-/
namespace LoadTree

variable {α : Type}

/-- nested loads keep the event list of the enclosing attempt -/
def OwnEnv (env : Env α) : Prop := ∀ a sh, (env a sh).1.own = sh.own

/-- the event list `o` grew to `o'` by a prefix of `full`, by all of it when `ok` -/
def Trace (o o' : List Ev) (full : List Key) (ok : Bool) : Prop :=
  ∃ l, l <+: full ∧ o'.map Ev.key = o.map Ev.key ++ l ∧ (ok = true → l = full)

theorem Trace.nil {o : List Ev} {ok : Bool} : Trace o o [] ok :=
  ⟨[], List.prefix_refl _, by simp, fun _ => rfl⟩

theorem Trace.seq {a b c : List Ev} {f1 f2 : List Key} {ok : Bool}
    (h1 : Trace a b f1 true) (h2 : Trace b c f2 ok) : Trace a c (f1 ++ f2) ok := by
  obtain ⟨l1, _, e1, q1⟩ := h1
  obtain ⟨l2, p2, e2, q2⟩ := h2
  have := q1 rfl
  subst this
  refine ⟨l1 ++ l2, (List.prefix_append_right_inj _).2 p2, by rw [e2, e1, List.append_assoc], fun hok => ?_⟩
  rw [q2 hok]

theorem Trace.stop {a b : List Ev} {f1 : List Key} {ok : Bool} (f2 : List Key)
    (h1 : Trace a b f1 ok) : Trace a b (f1 ++ f2) false := by
  obtain ⟨l1, p1, e1, _⟩ := h1
  exact ⟨l1, p1.trans (List.prefix_append _ _), e1, fun h => by simp at h⟩

theorem Trace.fail {a b : List Ev} {f : List Key} {ok : Bool} (h : Trace a b f ok) : Trace a b f false := by
  obtain ⟨l1, p1, e1, _⟩ := h
  exact ⟨l1, p1, e1, fun h => by simp at h⟩

/-- continue with `g` if the first part succeeded, stop otherwise -/
theorem Trace.cond {a b c : List Ev} {f1 f2 : List Key} {ok1 ok2 : Bool}
    (h1 : Trace a b f1 ok1) (h2 : ok1 = true → Trace b c f2 ok2) (hstop : ok1 = false → c = b ∧ ok2 = false) :
    Trace a c (f1 ++ f2) ok2 := by
  cases ok1 with
  | true => exact h1.seq (h2 rfl)
  | false =>
    obtain ⟨e1, e2⟩ := hstop rfl
    subst e1 e2
    exact h1.stop f2

/-! ## bookkeeping steps do not call user code -/

@[simp] theorem foldMod_own (f : Core α → Core α) (cs : List ClassId) (sh : Sh α) :
    (cs.foldl (fun s c => modCore f c s) sh).own = sh.own := by
  induction cs generalizing sh with
  | nil => rfl
  | cons d cs ih => simp only [List.foldl_cons]; rw [ih]; rfl

@[simp] theorem replace_own (P : PRec) (sh : Sh α) : (replace P sh).1.own = sh.own := by
  simp [replace, incAll]

@[simp] theorem restore_own (P : PRec) (sh : Sh α) : (restore P sh).1.own = sh.own := by
  unfold restore; split <;> simp [decAll]

@[simp] theorem giveUp_own (P : PRec) (sh : Sh α) : (giveUp P sh).1.own = sh.own := by
  simp [giveUp, discard]

@[simp] theorem abort_own (P : PRec) (sh : Sh α) : (abort P sh).1.own = sh.own := by
  unfold abort; split <;> simp

@[simp] theorem abortList_own (rs : List PRec) (sh : Sh α) : (abortList rs sh).1.own = sh.own := by
  induction rs generalizing sh with
  | nil => rfl
  | cons r rs ih => simp [abortList, ih]

@[simp] theorem failOuter_own (P : PRec) (left : List PRec) (sh : Sh α) : (failOuter P left sh).1.own = sh.own := by
  simp [failOuter]

/-- what the main model needs from a parser -/
def sumOf (r : PRec) : NodeSum := ⟨r.pid, r.insts.map (·.2.2), r.resolve, r.oprocs⟩

theorem restore_sum (P : PRec) (sh : Sh α) : sumOf (restore P sh).2 = sumOf P ∧
    (restore P sh).2.pid = P.pid ∧ (restore P sh).2.classes = P.classes ∧ (restore P sh).2.insts = P.insts := by
  unfold restore; split <;> simp [sumOf]

def isOk : Except (List PRec) (List PRec) → Bool
  | .ok _ => true
  | .error _ => false

section
variable {env : Env α} (henv : OwnEnv env)
include henv

theorem runActs_own (acts : List (Nat × Bool)) (sh : Sh α) : (runActs env acts sh).1.own = sh.own := by
  induction acts generalizing sh with
  | nil => rfl
  | cons x rest ih =>
    obtain ⟨a, sw⟩ := x
    simp only [runActs]
    split
    · rw [ih, henv]
    · exact henv a sh

theorem runHook_own (kind pid : Nat) (cs : List ClassId) (h : Hook) (sh : Sh α) :
    (runHook env kind pid cs h sh).1.own.map Ev.key = sh.own.map Ev.key ++ [(kind, pid, h.lab)] := by
  simp only [runHook]
  rw [runActs_own henv]
  simp [Ev.key]

theorem runHook_trace (kind pid : Nat) (cs : List ClassId) (h : Hook) (sh : Sh α) (ok : Bool) :
    Trace sh.own (runHook env kind pid cs h sh).1.own [(kind, pid, h.lab)] ok :=
  ⟨_, List.prefix_refl _, runHook_own henv kind pid cs h sh, fun _ => rfl⟩

theorem runHooks_trace (kind pid : Nat) (cs : List ClassId) (hs : List Hook) (sh : Sh α) :
    Trace sh.own (runHooks env kind pid cs hs sh).1.own (hookKeys kind pid hs) (runHooks env kind pid cs hs sh).2 := by
  induction hs generalizing sh with
  | nil => exact Trace.nil
  | cons h hs ih =>
    simp only [runHooks, hookKeys, List.map_cons]
    split
    · exact (runHook_trace henv kind pid cs h sh true).seq (ih _)
    · exact (runHook_trace henv kind pid cs h sh false).stop _

/-! ## `process_node` -/

mutual
theorem buildOT_trace : (t : OT) → ∀ (P : PRec) (sh : Sh α),
    Trace sh.own (buildOT env P t sh).1.own (hookKeys 0 P.pid t.convs) (buildOT env P t sh).2.2 ∧
    (buildOT env P t sh).2.1.pid = P.pid ∧ (buildOT env P t sh).2.1.classes = P.classes ∧
    (buildOT env P t sh).2.1.resolve = P.resolve ∧ (buildOT env P t sh).2.1.oprocs = P.oprocs ∧
    ((buildOT env P t sh).2.2 = true →
      (buildOT env P t sh).2.1.insts.map (·.2.2) = P.insts.map (·.2.2) ++ t.inits)
  | .conv h, P, sh => by
    simp only [buildOT, OT.convs, OT.inits, hookKeys, List.map_cons, List.map_nil, List.append_nil]
    refine ⟨runHook_trace henv 0 P.pid P.classes h sh _, ?_, ?_, ?_, ?_, ?_⟩ <;>
      first | trivial | rfl | (intro _; first | trivial | rfl)
  | .obj none init kids, P, sh => by
    simp only [buildOT, OT.convs, OT.inits]
    exact buildKids_trace kids P sh
  | .obj (some c) init kids, P, sh => by
    simp only [buildOT, OT.convs, OT.inits]
    obtain ⟨k1, k2, k3, k4, k5, k6⟩ := buildKids_trace kids (alloc c P sh).2.1 (alloc c P sh).1
    split
    · rename_i hok
      rw [hok] at k1
      refine ⟨k1, k2, k3, k4, k5, fun _ => ?_⟩
      simp only [List.map_append, List.map_cons, List.map_nil]
      rw [k6 hok]
      simp [alloc]
    · rename_i hok
      simp only [Bool.not_eq_true] at hok
      rw [hok] at k1
      exact ⟨k1, k2, k3, k4, k5, fun h => by simp at h⟩
theorem buildKids_trace : (ts : List OT) → ∀ (P : PRec) (sh : Sh α),
    Trace sh.own (buildKids env P ts sh).1.own (hookKeys 0 P.pid (OT.convsL ts)) (buildKids env P ts sh).2.2 ∧
    (buildKids env P ts sh).2.1.pid = P.pid ∧ (buildKids env P ts sh).2.1.classes = P.classes ∧
    (buildKids env P ts sh).2.1.resolve = P.resolve ∧ (buildKids env P ts sh).2.1.oprocs = P.oprocs ∧
    ((buildKids env P ts sh).2.2 = true →
      (buildKids env P ts sh).2.1.insts.map (·.2.2) = P.insts.map (·.2.2) ++ OT.initsL ts)
  | [], P, sh => by
    simp only [buildKids, OT.convsL, OT.initsL, hookKeys, List.map_nil, List.append_nil]
    refine ⟨Trace.nil, ?_, ?_, ?_, ?_, ?_⟩ <;> first | trivial | rfl | (intro _; first | trivial | rfl)
  | t :: ts, P, sh => by
    obtain ⟨a1, a2, a3, a4, a5, a6⟩ := buildOT_trace t P sh
    simp only [buildKids, OT.convsL, OT.initsL, hookKeys, List.map_append]
    split
    · rename_i hok
      obtain ⟨b1, b2, b3, b4, b5, b6⟩ := buildKids_trace ts (buildOT env P t sh).2.1 (buildOT env P t sh).1
      rw [hok] at a1
      rw [a2] at b1
      refine ⟨a1.seq b1, b2.trans a2, b3.trans a3, b4.trans a4, b5.trans a5, fun h2 => ?_⟩
      rw [b6 h2, a6 hok, List.append_assoc]
    · rename_i hok
      simp only [Bool.not_eq_true] at hok
      rw [hok] at a1
      exact ⟨a1.stop _, a2, a3, a4, a5, fun h => by simp at h⟩
end

/-! ## the main model's phases -/

theorem initAll_trace (pid : Nat) (cs : List ClassId) (l : List (ClassId × ObjId × Hook)) (sh : Sh α) :
    Trace sh.own (initAll env pid cs l sh).1.own (hookKeys 3 pid (l.map (·.2.2))) (initAll env pid cs l sh).2 := by
  induction l generalizing sh with
  | nil => exact Trace.nil
  | cons x l ih =>
    obtain ⟨c, i, h⟩ := x
    simp only [initAll, hookKeys, List.map_cons]
    have t1 : ∀ ok, Trace sh.own (runHook env 3 pid cs h { sh with attrs := sh.attrs.erase (c, i) }).1.own
        [(3, pid, h.lab)] ok := fun ok => runHook_trace henv 3 pid cs h { sh with attrs := sh.attrs.erase (c, i) } ok
    split
    · exact (t1 true).seq (ih _)
    · exact (t1 false).stop _

theorem endRec_trace (r : PRec) (sh : Sh α) :
    Trace sh.own (endRec env r sh).1.own (hookKeys 3 r.pid (r.insts.map (·.2.2))) (endRec env r sh).2.2 ∧
      sumOf (endRec env r sh).2.1 = sumOf r := by
  simp only [endRec]
  have := initAll_trace henv r.pid r.classes r.insts (restore r sh).1
  rw [restore_own] at this
  exact ⟨this, (restore_sum r sh).1⟩

theorem endAll_trace (rs : List PRec) (sh : Sh α) :
    Trace sh.own (endAll env rs sh).1.own (initTr (rs.map sumOf)) (endAll env rs sh).2.2 ∧
      (endAll env rs sh).2.1.map sumOf = rs.map sumOf := by
  induction rs generalizing sh with
  | nil => exact ⟨Trace.nil, rfl⟩
  | cons r rs ih =>
    obtain ⟨a1, a2⟩ := endRec_trace henv r sh
    simp only [endAll, initTr, List.map_cons, List.flatMap_cons]
    have hk : hookKeys 3 (sumOf r).pid (sumOf r).inits = hookKeys 3 r.pid (r.insts.map (·.2.2)) := rfl
    rw [hk]
    split
    · rename_i hok
      obtain ⟨b1, b2⟩ := ih (endRec env r sh).1
      rw [hok] at a1
      exact ⟨a1.seq b1, by simp [a2, b2]⟩
    · rename_i hok
      simp only [Bool.not_eq_true] at hok
      rw [hok] at a1
      exact ⟨a1.stop _, by simp [a2]⟩

theorem resolveAll_trace (rs : List PRec) (sh : Sh α) :
    Trace sh.own (resolveAll env rs sh).1.own (resolveTr (rs.map sumOf)) (resolveAll env rs sh).2 := by
  induction rs generalizing sh with
  | nil => exact Trace.nil
  | cons r rs ih =>
    have a1 := runHooks_trace henv 2 r.pid r.classes r.resolve sh
    simp only [resolveAll, resolveTr, List.map_cons, List.flatMap_cons]
    have hk : hookKeys 2 (sumOf r).pid (sumOf r).resolve = hookKeys 2 r.pid r.resolve := rfl
    rw [hk]
    split
    · rename_i hok; rw [hok] at a1; exact a1.seq (ih _)
    · rename_i hok; simp only [Bool.not_eq_true] at hok; rw [hok] at a1; exact a1.stop _

theorem procAll_trace (rs : List PRec) (sh : Sh α) :
    Trace sh.own (procAll env rs sh).1.own (procTr (rs.map sumOf)) (procAll env rs sh).2 := by
  induction rs generalizing sh with
  | nil => exact Trace.nil
  | cons r rs ih =>
    have a1 := runHooks_trace henv 4 r.pid r.classes r.oprocs sh
    simp only [procAll, procTr, List.map_cons, List.flatMap_cons]
    have hk : hookKeys 4 (sumOf r).pid (sumOf r).oprocs = hookKeys 4 r.pid r.oprocs := rfl
    rw [hk]
    split
    · rename_i hok; rw [hok] at a1; exact a1.seq (ih _)
    · rename_i hok; simp only [Bool.not_eq_true] at hok; rw [hok] at a1; exact a1.stop _

theorem phase2_trace (ms : List PRec) (sh : Sh α) :
    Trace sh.own (phase2 env ms sh).1.own
      (resolveTr (ms.map sumOf) ++ initTr (ms.map sumOf) ++ procTr (ms.map sumOf)) (phase2 env ms sh).2.2 := by
  have a := resolveAll_trace henv ms sh
  obtain ⟨b, b'⟩ := endAll_trace henv ms (resolveAll env ms sh).1
  have c := procAll_trace henv (endAll env ms (resolveAll env ms sh).1).2.1 (endAll env ms (resolveAll env ms sh).1).1
  rw [b'] at c
  simp only [phase2]
  split
  · simp only [abortList_own]
    rw [List.append_assoc]
    exact a.stop _
  · rename_i h1
    have hra : (resolveAll env ms sh).2 = true := by
      cases hh : (resolveAll env ms sh).2 <;> simp_all
    rw [hra] at a
    split
    · rename_i h2
      simp only [abortList_own]
      exact ((a.seq b).fail).stop _
    · rename_i h2
      have hb : (endAll env ms (resolveAll env ms sh).1).2.2 = true := by
        cases hh : (endAll env ms (resolveAll env ms sh).1).2.2 <;> simp_all
      rw [hb] at b
      split
      · simp only [abortList_own]
        exact ((a.seq b).seq c).fail
      · rename_i h3
        have hc : (procAll env (endAll env ms (resolveAll env ms sh).1).2.1
            (endAll env ms (resolveAll env ms sh).1).1).2 = true := by
          cases hh : (procAll env (endAll env ms (resolveAll env ms sh).1).2.1
            (endAll env ms (resolveAll env ms sh).1).1).2 <;> simp_all
        rw [hc] at c
        exact (a.seq b).seq c


/-! ## one model file -/

/-- calls before the imports of a file are followed -/
def frontKeys (pid : Nat) (root : OT) (pre : Option Hook) : List Key :=
  hookKeys 0 pid root.convs ++ hookKeys 1 pid pre.toList

omit henv in
/-- what `front` guarantees about the event list -/
def FrontTr (o : List Ev) (isMain : Bool) (pid : Nat) (classes : List ClassId) (root : OT) (pre : Option Hook)
    (resolve oprocs : List Hook) : (Sh α × Except (List PRec) (List PRec)) ⊕ (PRec × Sh α) → Prop
  | .inl res => Trace o res.1.own (frontKeys pid root pre) false ∧ isOk res.2 = false
  | .inr (P, sh1) => Trace o sh1.own (frontKeys pid root pre) true ∧
      sumOf P = ⟨pid, root.inits, resolve, oprocs⟩ ∧ P.pid = pid ∧ P.classes = classes ∧
      (isMain = false → root.isConv = false)

theorem front_trace (isMain hasImports : Bool) (pid : Nat) (classes : List ClassId) (syntaxOk : Bool)
    (root : OT) (pre : Option Hook) (resolve : List Hook) (unresolved : Bool) (oprocs : List Hook)
    (repo : List PRec) (sh : Sh α) :
    FrontTr sh.own isMain pid classes root pre resolve oprocs
      (front env isMain hasImports pid classes syntaxOk root pre resolve unresolved oprocs repo sh) := by
  generalize hres : front env isMain hasImports pid classes syntaxOk root pre resolve unresolved oprocs repo sh = res
  simp only [front] at hres
  obtain ⟨b1, b2, b3, b4, b5, b6⟩ := buildOT_trace henv root (replace (newRec pid classes resolve unresolved oprocs) sh).2
    (replace (newRec pid classes resolve unresolved oprocs) sh).1
  rw [replace_own] at b1
  have hpid : (replace (newRec pid classes resolve unresolved oprocs) sh).2.pid = pid := rfl
  rw [hpid] at b1
  split at hres
  · subst hres
    exact ⟨(Trace.nil (ok := false)).stop _ |> fun t => by simpa [frontKeys] using t, rfl⟩
  · split at hres
    · subst hres
      rename_i hok
      simp only [Bool.not_eq_true'] at hok
      rw [hok] at b1
      exact ⟨by simpa [frontKeys] using b1.stop (hookKeys 1 pid pre.toList), rfl⟩
    · rename_i hok
      simp only [Bool.not_eq_true, Bool.not_eq_false'] at hok
      rw [hok] at b1
      have hsum : sumOf (buildOT env (replace (newRec pid classes resolve unresolved oprocs) sh).2 root
          (replace (newRec pid classes resolve unresolved oprocs) sh).1).2.1 = ⟨pid, root.inits, resolve, oprocs⟩ := by
        simp only [sumOf, b2, b4, b5, b6 hok]
        simp [replace, newRec]
      split at hres
      · subst hres
        exact ⟨by simpa [frontKeys] using b1.stop (hookKeys 1 pid pre.toList), rfl⟩
      · rename_i hmain
        have hmain' : isMain = false → root.isConv = false := by
          intro hm; cases hc : root.isConv <;> simp_all
        cases pre with
        | none =>
          simp only [] at hres
          split at hres
          · rename_i hq; simp at hq
          · split at hres
            · subst hres
              exact ⟨by simpa [frontKeys, hookKeys] using b1.fail, rfl⟩
            · subst hres
              exact ⟨by simpa [frontKeys, hookKeys] using b1, hsum, b2, b3, hmain'⟩
        | some hk =>
          simp only [] at hres
          have tq := fun ok => runHook_trace henv 1 pid classes hk
            (buildOT env (replace (newRec pid classes resolve unresolved oprocs) sh).2 root
              (replace (newRec pid classes resolve unresolved oprocs) sh).1).1 ok
          split at hres
          · subst hres
            exact ⟨by simpa [frontKeys, hookKeys] using (b1.seq (tq false)), rfl⟩
          · split at hres
            · subst hres
              exact ⟨by simpa [frontKeys, hookKeys] using (b1.seq (tq false)), rfl⟩
            · subst hres
              exact ⟨by simpa [frontKeys, hookKeys] using (b1.seq (tq true)), hsum, b2, b3, hmain'⟩

theorem back_import_trace (pid : Nat) (classes : List ClassId) (mproc : Hook)
    (P : PRec) (repo mine : List PRec) (sh : Sh α) :
    Trace sh.own (back env false false pid classes mproc P repo mine sh).1.own [(5, pid, mproc.lab)]
        (isOk (back env false false pid classes mproc P repo mine sh).2) ∧
      ∀ new, (back env false false pid classes mproc P repo mine sh).2 = .ok new →
        new.map sumOf = sumOf P :: mine.map sumOf := by
  simp only [back, Bool.false_eq_true, if_false]
  refine ⟨runHook_trace henv 5 pid classes mproc sh _, fun new hnew => ?_⟩
  split at hnew
  · cases hnew; rfl
  · cases hnew

/-- the main model after its imports: `phase2`, own restore, model processors -/
theorem back_main_aux (pid : Nat) (classes : List ClassId) (mproc : Hook) (ms : List PRec) (dflt : PRec) (sh : Sh α)
    (res : Sh α × Except (List PRec) (List PRec))
    (hres : res = (if !(phase2 env ms sh).2.2 then
        failOuter (match (phase2 env ms sh).2.1 with | x :: _ => x | [] => dflt) [] (phase2 env ms sh).1
      else
        ((runHook env 5 pid classes mproc (restore (match (phase2 env ms sh).2.1 with | x :: _ => x | [] => dflt)
            (phase2 env ms sh).1).1).1,
         if (runHook env 5 pid classes mproc (restore (match (phase2 env ms sh).2.1 with | x :: _ => x | [] => dflt)
            (phase2 env ms sh).1).1).2 then .ok [] else .error []))) :
    Trace sh.own res.1.own
      (resolveTr (ms.map sumOf) ++ initTr (ms.map sumOf) ++ procTr (ms.map sumOf) ++ [(5, pid, mproc.lab)])
      (isOk res.2) := by
  have p2 := phase2_trace henv ms sh
  split at hres
  · rename_i hfail
    simp only [Bool.not_eq_true'] at hfail
    rw [hfail] at p2
    subst hres
    simp only [failOuter_own]
    exact p2.stop _
  · rename_i hok
    simp only [Bool.not_eq_true, Bool.not_eq_false'] at hok
    rw [hok] at p2
    subst hres
    refine p2.seq ?_
    have := runHook_trace henv 5 pid classes mproc
      (restore (match (phase2 env ms sh).2.1 with | x :: _ => x | [] => dflt) (phase2 env ms sh).1).1
    rw [restore_own] at this
    exact this _

theorem back_main_trace (immut : Bool) (pid : Nat) (classes : List ClassId) (mproc : Hook)
    (P : PRec) (mine : List PRec) (sh : Sh α) :
    Trace sh.own (back env true immut pid classes mproc P [] mine sh).1.own
      (resolveTr (if immut then [] else sumOf P :: mine.map sumOf) ++
        initTr (if immut then [] else sumOf P :: mine.map sumOf) ++
        procTr (if immut then [] else sumOf P :: mine.map sumOf) ++ [(5, pid, mproc.lab)])
      (isOk (back env true immut pid classes mproc P [] mine sh).2) := by
  cases immut with
  | true =>
    have := back_main_aux henv pid classes mproc [] P sh (back env true true pid classes mproc P [] mine sh)
      (by simp only [back, if_true]; rfl)
    simpa using this
  | false =>
    have := back_main_aux henv pid classes mproc ({ P with hasParser := true } :: mine) { P with hasParser := true } sh
      (back env true false pid classes mproc P [] mine sh)
      (by simp only [back, if_true, Bool.false_eq_true, if_false, List.nil_append]; rfl)
    simpa [sumOf] using this

mutual
theorem node_import_trace : (L : Load) → ∀ (repo : List PRec) (sh : Sh α),
    Trace sh.own (node env false L repo sh).1.own L.buildTr (isOk (node env false L repo sh).2) ∧
      ∀ new, (node env false L repo sh).2 = .ok new → new.map sumOf = L.sums
  | .mk pid classes syntaxOk root pre imps resolve unresolved oprocs mproc, repo, sh => by
    have hf := front_trace henv false (!imps.isEmpty) pid classes syntaxOk root pre resolve unresolved oprocs repo sh
    simp only [node, Load.buildTr, Load.sums]
    generalize front env false (!imps.isEmpty) pid classes syntaxOk root pre resolve unresolved oprocs repo sh = fr at hf
    cases fr with
    | inl res =>
      obtain ⟨t1, t2⟩ := hf
      simp only []
      rw [t2]
      refine ⟨?_, fun new hnew => by rw [hnew] at t2; simp [isOk] at t2⟩
      have := (t1.stop (Load.buildTrL imps)).stop [(5, pid, mproc.lab)]
      simpa [frontKeys] using this
    | inr pr =>
      obtain ⟨P, sh1⟩ := pr
      obtain ⟨t1, t2, t3, t4, t5⟩ := hf
      simp only []
      obtain ⟨i1, i2⟩ := importList_trace imps repo [] sh1
      generalize importList env imps repo [] sh1 = ir at i1 i2
      obtain ⟨sh2, rr⟩ := ir
      cases rr with
      | error left =>
        simp only [isOk] at i1 ⊢
        simp only [failOuter_own]
        refine ⟨?_, fun new hnew => by simp [failOuter] at hnew⟩
        have := (t1.seq i1).stop [(5, pid, mproc.lab)]
        simpa [frontKeys, failOuter, isOk] using this
      | ok mine =>
        simp only [isOk] at i1
        simp only []
        rw [t5 rfl]
        obtain ⟨m1, m2⟩ := back_import_trace henv pid classes mproc P repo mine sh2
        refine ⟨?_, fun new hnew => ?_⟩
        · have := (t1.seq i1).seq m1
          simpa [frontKeys] using this
        · rw [m2 new hnew, t2, i2 mine rfl]; simp
theorem importList_trace : (Ls : List Load) → ∀ (repo mine : List PRec) (sh : Sh α),
    Trace sh.own (importList env Ls repo mine sh).1.own (Load.buildTrL Ls) (isOk (importList env Ls repo mine sh).2) ∧
      ∀ mine', (importList env Ls repo mine sh).2 = .ok mine' → mine'.map sumOf = mine.map sumOf ++ Load.sumsL Ls
  | [], repo, mine, sh => by
    simp only [importList, Load.buildTrL, Load.sumsL, isOk]
    exact ⟨Trace.nil, fun mine' h => by cases h; simp⟩
  | L :: Ls, repo, mine, sh => by
    obtain ⟨n1, n2⟩ := node_import_trace L (repo ++ mine) sh
    simp only [importList, Load.buildTrL, Load.sumsL]
    generalize node env false L (repo ++ mine) sh = nr at n1 n2
    obtain ⟨sh1, rr⟩ := nr
    cases rr with
    | error left =>
      simp only [isOk] at n1 ⊢
      exact ⟨n1.stop _, fun mine' h => by cases h⟩
    | ok new =>
      simp only [isOk] at n1
      simp only []
      obtain ⟨j1, j2⟩ := importList_trace Ls repo (mine ++ new) sh1
      refine ⟨n1.seq j1, fun mine' h => ?_⟩
      rw [j2 mine' h, List.map_append, n2 new rfl, List.append_assoc]
end

/-- **the calls of user code of one attempt**: a prefix of `mainTrace L`, all of it on success -/
theorem node_main_trace (L : Load) (sh : Sh α) :
    Trace sh.own (node env true L [] sh).1.own (mainTrace L) (isOk (node env true L [] sh).2) := by
  obtain ⟨pid, classes, syntaxOk, root, pre, imps, resolve, unresolved, oprocs, mproc⟩ := L
  have hf := front_trace henv true (!imps.isEmpty) pid classes syntaxOk root pre resolve unresolved oprocs [] sh
  simp only [node, mainTrace, Load.sums]
  generalize front env true (!imps.isEmpty) pid classes syntaxOk root pre resolve unresolved oprocs [] sh = fr at hf
  cases fr with
  | inl res =>
    obtain ⟨t1, t2⟩ := hf
    simp only []
    rw [t2]
    have := ((((t1.stop (Load.buildTrL imps)).stop (resolveTr (if root.isConv then [] else
      ⟨pid, root.inits, resolve, oprocs⟩ :: Load.sumsL imps))).stop (initTr (if root.isConv then [] else
      ⟨pid, root.inits, resolve, oprocs⟩ :: Load.sumsL imps))).stop (procTr (if root.isConv then [] else
      ⟨pid, root.inits, resolve, oprocs⟩ :: Load.sumsL imps))).stop [(5, pid, mproc.lab)]
    simpa [frontKeys] using this
  | inr pr =>
    obtain ⟨P, sh1⟩ := pr
    obtain ⟨t1, t2, _, _, _⟩ := hf
    simp only []
    obtain ⟨i1, i2⟩ := importList_trace henv imps [] [] sh1
    generalize importList env imps [] [] sh1 = ir at i1 i2
    obtain ⟨sh2, rr⟩ := ir
    cases rr with
    | error left =>
      simp only [isOk] at i1
      simp only [failOuter_own]
      have := ((((t1.seq i1).stop (resolveTr (if root.isConv then [] else
        ⟨pid, root.inits, resolve, oprocs⟩ :: Load.sumsL imps))).stop (initTr (if root.isConv then [] else
        ⟨pid, root.inits, resolve, oprocs⟩ :: Load.sumsL imps))).stop (procTr (if root.isConv then [] else
        ⟨pid, root.inits, resolve, oprocs⟩ :: Load.sumsL imps))).stop [(5, pid, mproc.lab)]
      simpa [frontKeys, failOuter, isOk] using this
    | ok mine =>
      simp only [isOk] at i1
      simp only []
      have m := back_main_trace henv root.isConv pid classes mproc P mine sh2
      rw [t2, i2 mine rfl] at m
      simp only [List.map_nil, List.nil_append] at m
      have := (t1.seq i1).seq m
      simpa [frontKeys, List.append_assoc] using this

end

end LoadTree
