import TextxVerif.Proofs.ArpSimAt
import TextxVerif.Proofs.ArpMono2
/-!
# Compactness of the Arpeggio mirror: a finished run uses finitely much of its sub-parser

`Ev P q`: wherever the sub-parser `q` finishes, the parsers `P m` finish with the same result and state for
all sufficiently large `m`.  Every loop of the interpreter maps such an approximation of its sub-parser to an
approximation of the loop (any grammar, any state; no relation on states involved).  With `q := parseLim g`
("`parse g` with sufficient fuel", chosen classically) this turns a finished run of a `_parse` body over the
limit parser into a finished run over `parse g m` for one concrete `m` — the step needed to show that the
plain parser terminates wherever the memoizing parser does (`ArpMemoRev`).
-/
namespace Peg

def Ev (P : Nat → SubParser) (q : SubParser) : Prop :=
  ∀ e s r t, q e s = (r, t) → r ≠ .fuel → ∃ m, ∀ m', m ≤ m' → P m' e s = (r, t)

def EvB (B : Nat → PState → Res × PState) (b : PState → Res × PState) : Prop :=
  ∀ s r t, b s = (r, t) → r ≠ .fuel → ∃ m, ∀ m', m ≤ m' → B m' s = (r, t)

variable {P : Nat → SubParser} {q : SubParser}

theorem seqLoop_ev (h : Ev P q) :
    ∀ es s acc r t, seqLoop q es s acc = (r, t) → r ≠ .fuel →
      ∃ m, ∀ m', m ≤ m' → seqLoop (P m') es s acc = (r, t) := by
  intro es
  induction es with
  | nil => intro s acc r t h1 _; exact ⟨0, fun m' _ => by simpa only [seqLoop] using h1⟩
  | cons e es ih =>
    intro s acc r t h1 hr
    simp only [seqLoop] at h1
    cases hp : q e s with | mk r1 s1 =>
    rw [hp] at h1
    have hne : r1 ≠ .fuel := by intro e; subst e; (try simp only [] at h1); cases h1; exact hr rfl
    obtain ⟨m1, hm1⟩ := h e s r1 s1 hp hne
    rcases r1 with v | _ | _ | _
    · obtain ⟨m2, hm2⟩ := ih _ _ _ _ h1 hr
      exact ⟨max m1 m2, fun m' hm' => by
        simp only [seqLoop, hm1 m' (by omega)]; exact hm2 m' (by omega)⟩
    · (try simp only [] at h1); cases h1
      exact ⟨m1, fun m' hm' => by simp only [seqLoop, hm1 m' hm']⟩
    · exact absurd rfl hne
    · (try simp only [] at h1); cases h1
      exact ⟨m1, fun m' hm' => by simp only [seqLoop, hm1 m' hm']⟩

theorem choiceLoop_ev (h : Ev P q) :
    ∀ es c s r t, choiceLoop q es c s = (r, t) → r ≠ .fuel →
      ∃ m, ∀ m', m ≤ m' → choiceLoop (P m') es c s = (r, t) := by
  intro es
  induction es with
  | nil => intro c s r t h1 _; exact ⟨0, fun m' _ => by simpa only [choiceLoop] using h1⟩
  | cons e es ih =>
    intro c s r t h1 hr
    simp only [choiceLoop] at h1
    cases hp : q e s with | mk r1 s1 =>
    rw [hp] at h1
    have hne : r1 ≠ .fuel := by intro e; subst e; (try simp only [] at h1); cases h1; exact hr rfl
    obtain ⟨m1, hm1⟩ := h e s r1 s1 hp hne
    rcases r1 with v | _ | _ | _
    · rcases v with _ | ⟨a, b, c'⟩ | ⟨a, b⟩ | a
      · obtain ⟨m2, hm2⟩ := ih _ _ _ _ h1 hr
        exact ⟨max m1 m2, fun m' hm' => by
          simp only [choiceLoop, hm1 m' (by omega)]; exact hm2 m' (by omega)⟩
      · (try simp only [] at h1); cases h1
        exact ⟨m1, fun m' hm' => by simp only [choiceLoop, hm1 m' hm']⟩
      · (try simp only [] at h1); cases h1
        exact ⟨m1, fun m' hm' => by simp only [choiceLoop, hm1 m' hm']⟩
      · (try simp only [] at h1); cases h1
        exact ⟨m1, fun m' hm' => by simp only [choiceLoop, hm1 m' hm']⟩
    · obtain ⟨m2, hm2⟩ := ih _ _ _ _ h1 hr
      exact ⟨max m1 m2, fun m' hm' => by
        simp only [choiceLoop, hm1 m' (by omega)]; exact hm2 m' (by omega)⟩
    · exact absurd rfl hne
    · (try simp only [] at h1); cases h1
      exact ⟨m1, fun m' hm' => by simp only [choiceLoop, hm1 m' hm']⟩

theorem unordFor_ev (h : Ev P q) :
    ∀ es pl s se mt r t, unordFor q es pl s se mt = (r, t) → r ≠ .fuel →
      ∃ m, ∀ m', m ≤ m' → unordFor (P m') es pl s se mt = (r, t) := by
  intro es
  induction es with
  | nil => intro pl s se mt r t h1 _; exact ⟨0, fun m' _ => by simpa only [unordFor] using h1⟩
  | cons e es ih =>
    intro pl s se mt r t h1 hr
    simp only [unordFor] at h1
    cases hp : q e s with | mk r1 s1 =>
    rw [hp] at h1
    have hne : r1 ≠ .fuel := by intro e; subst e; (try simp only [] at h1); cases h1; exact hr rfl
    obtain ⟨m1, hm1⟩ := h e s r1 s1 hp hne
    rcases r1 with v | _ | _ | _
    · (try simp only [] at h1)
      by_cases hv : v.truthy = true
      · simp only [hv, if_true] at h1
        by_cases hse : se = true
        · simp only [hse, if_true] at h1
          obtain ⟨m2, hm2⟩ := ih _ _ _ _ _ _ h1 hr
          exact ⟨max m1 m2, fun m' hm' => by
            simp only [unordFor, hm1 m' (by omega), hv, hse, if_true]; exact hm2 m' (by omega)⟩
        · simp only [hse] at h1; cases h1
          exact ⟨m1, fun m' hm' => by simp only [unordFor, hm1 m' hm', hv, hse, if_true]; rfl⟩
      · simp only [hv] at h1
        obtain ⟨m2, hm2⟩ := ih _ _ _ _ _ _ h1 hr
        exact ⟨max m1 m2, fun m' hm' => by
          simp only [unordFor, hm1 m' (by omega), hv]; exact hm2 m' (by omega)⟩
    · obtain ⟨m2, hm2⟩ := ih _ _ _ _ _ _ h1 hr
      exact ⟨max m1 m2, fun m' hm' => by
        simp only [unordFor, hm1 m' (by omega)]; exact hm2 m' (by omega)⟩
    · exact absurd rfl hne
    · (try simp only [] at h1); cases h1
      exact ⟨m1, fun m' hm' => by simp only [unordFor, hm1 m' hm']⟩

theorem repTail_ev (h : Ev P q) (e cpos : Nat) (first : Bool)
    {rec : PState → List Val → Res × PState} {Rec : Nat → PState → List Val → Res × PState}
    (hrec : ∀ s a r t, rec s a = (r, t) → r ≠ .fuel → ∃ m, ∀ m', m ≤ m' → Rec m' s a = (r, t)) :
    ∀ s acc1 r t, repTail q e cpos first rec s acc1 = (r, t) → r ≠ .fuel →
      ∃ m, ∀ m', m ≤ m' → repTail (P m') e cpos first (Rec m') s acc1 = (r, t) := by
  intro s acc1 r t h1 hr
  unfold repTail at h1
  cases hp : q e s with | mk r1 s1 =>
  rw [hp] at h1
  have hne : r1 ≠ .fuel := by intro e; subst e; (try simp only [] at h1); cases h1; exact hr rfl
  obtain ⟨m1, hm1⟩ := h e s r1 s1 hp hne
  rcases r1 with v | _ | _ | _
  · (try simp only [] at h1)
    by_cases hv : v.truthy = true
    · simp only [hv, if_true] at h1
      obtain ⟨m2, hm2⟩ := hrec _ _ _ _ h1 hr
      exact ⟨max m1 m2, fun m' hm' => by
        unfold repTail; simp only [hm1 m' (by omega), hv, if_true]; exact hm2 m' (by omega)⟩
    · simp only [hv] at h1; cases h1
      exact ⟨m1, fun m' hm' => by unfold repTail; simp only [hm1 m' hm', hv]; rfl⟩
  · (try simp only [] at h1)
    exact ⟨m1, fun m' hm' => by unfold repTail; simp only [hm1 m' hm']; exact h1⟩
  · exact absurd rfl hne
  · (try simp only [] at h1); cases h1
    exact ⟨m1, fun m' hm' => by unfold repTail; simp only [hm1 m' hm']⟩

theorem repLoop_ev (h : Ev P q) (e : Nat) (sep : Option Nat) :
    ∀ k s acc f pv r t, repLoop q e sep k s acc f pv = (r, t) → r ≠ .fuel →
      ∃ m, ∀ m', m ≤ m' → repLoop (P m') e sep k s acc f pv = (r, t) := by
  intro k
  induction k with
  | zero => intro s acc f pv r t h1 hr; simp only [repLoop] at h1; cases h1; exact absurd rfl hr
  | succ k ih =>
    intro s acc f pv r t h1 hr
    rw [repLoop_succ] at h1
    have htail := fun (s' : PState) (a1 : List Val) =>
      repTail_ev h e s.pos f (rec := fun s2 a => repLoop q e sep k s2 a false true)
        (Rec := fun m s2 a => repLoop (P m) e sep k s2 a false true)
        (fun s a r t h1 hr => ih s a false true r t h1 hr) s' a1 r t
    cases sep with
    | none =>
      (try simp only [] at h1)
      obtain ⟨m, hm⟩ := htail _ _ h1 hr
      exact ⟨m, fun m' hm' => by rw [repLoop_succ]; exact hm m' hm'⟩
    | some sp =>
      cases pv
      · (try simp only [] at h1)
        obtain ⟨m, hm⟩ := htail _ _ h1 hr
        exact ⟨m, fun m' hm' => by rw [repLoop_succ]; exact hm m' hm'⟩
      · simp only [if_true] at h1
        cases hp : q sp s with | mk r1 s1 =>
        rw [hp] at h1
        have hne : r1 ≠ .fuel := by intro e; subst e; (try simp only [] at h1); cases h1; exact hr rfl
        obtain ⟨m1, hm1⟩ := h sp s r1 s1 hp hne
        rcases r1 with v | _ | _ | _
        · (try simp only [] at h1)
          obtain ⟨m2, hm2⟩ := htail _ _ h1 hr
          exact ⟨max m1 m2, fun m' hm' => by
            rw [repLoop_succ]; simp only [if_true, hm1 m' (by omega)]; exact hm2 m' (by omega)⟩
        · (try simp only [] at h1)
          exact ⟨m1, fun m' hm' => by rw [repLoop_succ]; simp only [if_true, hm1 m' hm']; exact h1⟩
        · exact absurd rfl hne
        · (try simp only [] at h1); cases h1
          exact ⟨m1, fun m' hm' => by rw [repLoop_succ]; simp only [if_true, hm1 m' hm']⟩

theorem unordTail_ev (h : Ev P q) (todo : List Nat) (posSep : Nat) (acc : List Val)
    {rec : List Nat → PState → List Val → Option Val → Res × PState}
    {Rec : Nat → List Nat → PState → List Val → Option Val → Res × PState}
    (hrec : ∀ td s a sr r t, rec td s a sr = (r, t) → r ≠ .fuel → ∃ m, ∀ m', m ≤ m' → Rec m' td s a sr = (r, t)) :
    ∀ s se sr1 r t, unordTail q todo posSep acc rec s se sr1 = (r, t) → r ≠ .fuel →
      ∃ m, ∀ m', m ≤ m' → unordTail (P m') todo posSep acc (Rec m') s se sr1 = (r, t) := by
  intro s se sr1 r t h1 hr
  unfold unordTail at h1
  cases hp : unordFor q todo s.pos s se true with | mk r1 s1 =>
  rw [hp] at h1
  have hne : r1 ≠ .fuel := by intro e; subst e; (try simp only [] at h1); cases h1; exact hr rfl
  obtain ⟨m1, hm1⟩ := unordFor_ev h todo s.pos s se true r1 s1 hp hne
  rcases r1 with ⟨v, e⟩ | mt | _ | _
  · (try simp only [] at h1)
    obtain ⟨m2, hm2⟩ := hrec _ _ _ _ _ _ h1 hr
    exact ⟨max m1 m2, fun m' hm' => by
      unfold unordTail; simp only [hm1 m' (by omega)]; exact hm2 m' (by omega)⟩
  · cases mt
    · (try simp only [] at h1); cases h1
      exact ⟨m1, fun m' hm' => by unfold unordTail; simp only [hm1 m' hm']⟩
    · (try simp only [] at h1); cases h1
      exact ⟨m1, fun m' hm' => by unfold unordTail; simp only [hm1 m' hm']⟩
  · exact absurd rfl hne
  · (try simp only [] at h1); cases h1
    exact ⟨m1, fun m' hm' => by unfold unordTail; simp only [hm1 m' hm']⟩

theorem unordLoop_ev (h : Ev P q) (sep : Option Nat) :
    ∀ k todo s acc f sr r t, unordLoop q sep k todo s acc f sr = (r, t) → r ≠ .fuel →
      ∃ m, ∀ m', m ≤ m' → unordLoop (P m') sep k todo s acc f sr = (r, t) := by
  intro k
  induction k with
  | zero => intro todo s acc f sr r t h1 hr; simp only [unordLoop] at h1; cases h1; exact absurd rfl hr
  | succ k ih =>
    intro todo s acc f sr r t h1 hr
    cases todo with
    | nil => exact ⟨0, fun m' _ => by simpa only [unordLoop] using h1⟩
    | cons e0 es0 =>
      rw [unordLoop_succ] at h1
      have htail := fun (s' : PState) (se : Bool) (sr1 : Option Val) =>
        unordTail_ev h (e0 :: es0) s.pos acc
          (rec := fun td s2 a sr => unordLoop q sep k td s2 a false sr)
          (Rec := fun m td s2 a sr => unordLoop (P m) sep k td s2 a false sr)
          (fun td s a sr r t h1 hr => ih td s a false sr r t h1 hr) s' se sr1 r t
      cases sep with
      | none =>
        (try simp only [] at h1)
        obtain ⟨m, hm⟩ := htail _ _ _ h1 hr
        exact ⟨m, fun m' hm' => by rw [unordLoop_succ]; exact hm m' hm'⟩
      | some sp =>
        cases f
        · simp only [Bool.not_false, if_true] at h1
          cases hp : q sp s with | mk r1 s1 =>
          rw [hp] at h1
          have hne : r1 ≠ .fuel := by intro e; subst e; (try simp only [] at h1); cases h1; exact hr rfl
          obtain ⟨m1, hm1⟩ := h sp s r1 s1 hp hne
          rcases r1 with v | _ | _ | _
          · (try simp only [] at h1)
            obtain ⟨m2, hm2⟩ := htail _ _ _ h1 hr
            exact ⟨max m1 m2, fun m' hm' => by
              rw [unordLoop_succ]; simp only [Bool.not_false, if_true, hm1 m' (by omega)]; exact hm2 m' (by omega)⟩
          · (try simp only [] at h1)
            obtain ⟨m2, hm2⟩ := htail _ _ _ h1 hr
            exact ⟨max m1 m2, fun m' hm' => by
              rw [unordLoop_succ]; simp only [Bool.not_false, if_true, hm1 m' (by omega)]; exact hm2 m' (by omega)⟩
          · exact absurd rfl hne
          · (try simp only [] at h1); cases h1
            exact ⟨m1, fun m' hm' => by rw [unordLoop_succ]; simp only [Bool.not_false, if_true, hm1 m' hm']⟩
        · simp only [Bool.not_true] at h1
          (try simp only [] at h1)
          obtain ⟨m, hm⟩ := htail _ _ _ h1 hr
          exact ⟨m, fun m' hm' => by rw [unordLoop_succ]; simp only [Bool.not_true]; exact hm m' hm'⟩

/-- post-processing of an approximated body -/
theorem post_ev {B : Nat → PState → Res × PState} {b : PState → Res × PState} (h : EvB B b)
    (f : PState → Res × PState → Res × PState) (hf : ∀ s x, x.1 = .fuel → (f s x).1 = .fuel) :
    EvB (fun m s => f s (B m s)) (fun s => f s (b s)) := by
  intro s r t h1 hr
  cases hb : b s with | mk r1 s1 =>
  have hne : r1 ≠ .fuel := by
    intro e
    have := hf s (b s) (by rw [hb]; exact e)
    simp only [] at h1
    rw [h1] at this; exact hr this
  obtain ⟨m, hm⟩ := h s r1 s1 hb hne
  refine ⟨m, fun m' hm' => ?_⟩
  simp only [] at h1 ⊢
  rw [hm m' hm', ← hb]; exact h1

/-- the state in which the body of `withWsCtx` runs -/
def enterCtx (nd : Node) (s : PState) : PState :=
  let s1 := match nd.ws with | some w => s.setWs w | .none => s
  match nd.skipws with | some b => { s1 with skipws := b } | .none => s1

theorem withWsCtx_split (nd : Node) (b : PState → Res × PState) (s : PState) :
    withWsCtx nd b s = ((b (enterCtx nd s)).1, restoreCtx nd s.ws s.skipws (b (enterCtx nd s)).2) := rfl

theorem withEol_split (nd : Node) (b : PState → Res × PState) (s : PState) :
    withEol nd b s = ((b (if nd.eolterm then s.setEolterm true else s)).1,
      (fun s2 : PState => if nd.eolterm then s2.setEolterm s.eolterm else s2)
        (b (if nd.eolterm then s.setEolterm true else s)).2) := rfl

/-- running a body between a state transformer and a post-processing of the end state -/
theorem sandwich_ev {B : Nat → PState → Res × PState} {b : PState → Res × PState} (h : EvB B b)
    (pre : PState → PState) (post : PState → PState → PState) :
    EvB (fun m s => ((B m (pre s)).1, post s (B m (pre s)).2)) (fun s => ((b (pre s)).1, post s (b (pre s)).2)) := by
  intro s r t h1 hr
  simp only [Prod.mk.injEq] at h1
  obtain ⟨e1, e2⟩ := h1
  cases hb : b (pre s) with | mk r1 t1 =>
  rw [hb] at e1 e2
  simp only [] at e1 e2
  subst e1
  obtain ⟨m, hm⟩ := h (pre s) r1 t1 hb hr
  refine ⟨m, fun m' hm' => ?_⟩
  simp only []
  rw [hm m' hm', ← e2]

theorem withWsCtx_ev (nd : Node) {B : Nat → PState → Res × PState} {b : PState → Res × PState} (h : EvB B b) :
    EvB (fun m => withWsCtx nd (B m)) (withWsCtx nd b) := by
  intro s r t h1 hr
  rw [withWsCtx_split] at h1
  obtain ⟨m, hm⟩ := sandwich_ev h (enterCtx nd) (fun s s2 => restoreCtx nd s.ws s.skipws s2) s r t h1 hr
  exact ⟨m, fun m' hm' => by show withWsCtx nd (B m') s = (r, t); rw [withWsCtx_split]; exact hm m' hm'⟩

theorem withEol_ev (nd : Node) {B : Nat → PState → Res × PState} {b : PState → Res × PState} (h : EvB B b) :
    EvB (fun m => withEol nd (B m)) (withEol nd b) := by
  intro s r t h1 hr
  rw [withEol_split] at h1
  obtain ⟨m, hm⟩ := sandwich_ev h (fun s => if nd.eolterm then s.setEolterm true else s)
    (fun s s2 => if nd.eolterm then s2.setEolterm s.eolterm else s2) s r t h1 hr
  exact ⟨m, fun m' hm' => by show withEol nd (B m') s = (r, t); rw [withEol_split]; exact hm m' hm'⟩

theorem bodyNode_ev (h : Ev P q) (k : Nat) (nd : Node) :
    EvB (fun m => bodyNode (P m) k nd) (bodyNode q k nd) := by
  have hseq : EvB (fun m s1 => seqLoop (P m) nd.kids s1 []) (fun s1 => seqLoop q nd.kids s1 []) :=
    fun s r t h1 hr => seqLoop_ev h _ _ _ _ _ h1 hr
  have hch : ∀ c, EvB (fun m s1 => choiceLoop (P m) nd.kids c s1) (fun s1 => choiceLoop q nd.kids c s1) :=
    fun c s r t h1 hr => choiceLoop_ev h _ _ _ _ _ h1 hr
  have hrep : ∀ e f, EvB (fun m s1 => repLoop (P m) e nd.sep k s1 [] f false) (fun s1 => repLoop q e nd.sep k s1 [] f false) :=
    fun e f s r t h1 hr => repLoop_ev h e nd.sep k _ _ _ _ _ _ h1 hr
  have hun : EvB (fun m s1 => unordLoop (P m) nd.sep k nd.kids s1 [] true .none)
      (fun s1 => unordLoop q nd.sep k nd.kids s1 [] true .none) :=
    fun s r t h1 hr => unordLoop_ev h nd.sep k _ _ _ _ _ _ _ h1 hr
  have hp : ∀ e, EvB (fun m s => P m e s) (fun s => q e s) := fun e s r t h1 hr => h e s r t h1 hr
  intro s r t h1 hr
  cases hkind : nd.kind
  case seq =>
    have := post_ev (withWsCtx_ev nd hseq)
      (fun s x => match x with | (.nomatch, s2) => (.nomatch, { s2 with pos := s.pos }) | r => r)
      (by intro s x hx; obtain ⟨r, s2⟩ := x; simp at hx; subst hx; rfl) s r t
      (by simp only [bodyNode, hkind] at h1; exact h1) hr
    obtain ⟨m, hm⟩ := this
    exact ⟨m, fun m' hm' => by simp only [bodyNode, hkind]; exact hm m' hm'⟩
  case choice =>
    simp only [bodyNode, hkind] at h1
    cases hb : withWsCtx nd (fun s1 => choiceLoop q nd.kids s.pos s1) s with | mk r1 s1 =>
    rw [hb] at h1
    have hne : r1 ≠ .fuel := by intro e; subst e; simp at h1; exact hr h1.1.symm
    obtain ⟨m, hm⟩ := withWsCtx_ev nd (hch s.pos) s r1 s1 hb hne
    exact ⟨m, fun m' hm' => by
      have e : withWsCtx nd (fun s1 => choiceLoop (P m') nd.kids s.pos s1) s = (r1, s1) := hm m' hm'
      simp only [bodyNode, hkind]; rw [e]; exact h1⟩
  case opt =>
    cases hkids : nd.kids with
    | nil => exact ⟨0, fun m' _ => by simp only [bodyNode, hkind, hkids] at h1 ⊢; exact h1⟩
    | cons e es =>
      cases es with
      | nil =>
        have := post_ev (hp e)
          (fun s x => match x with | (.ok v, s2) => (.ok (.list [v]), s2)
                                    | (.nomatch, s2) => (.ok .none, { s2 with pos := s.pos }) | r => r)
          (by intro s x hx; obtain ⟨r, s2⟩ := x; simp at hx; subst hx; rfl) s r t
          (by simp only [bodyNode, hkind, hkids] at h1; exact h1) hr
        obtain ⟨m, hm⟩ := this
        exact ⟨m, fun m' hm' => by simp only [bodyNode, hkind, hkids]; exact hm m' hm'⟩
      | cons e2 es2 => exact ⟨0, fun m' _ => by simp only [bodyNode, hkind, hkids] at h1 ⊢; exact h1⟩
  case star =>
    cases hkids : nd.kids with
    | nil => exact ⟨0, fun m' _ => by simp only [bodyNode, hkind, hkids] at h1 ⊢; exact h1⟩
    | cons e es =>
      cases es with
      | nil =>
        obtain ⟨m, hm⟩ := withEol_ev nd (hrep e false) s r t (by simp only [bodyNode, hkind, hkids] at h1; exact h1) hr
        exact ⟨m, fun m' hm' => by simp only [bodyNode, hkind, hkids]; exact hm m' hm'⟩
      | cons e2 es2 => exact ⟨0, fun m' _ => by simp only [bodyNode, hkind, hkids] at h1 ⊢; exact h1⟩
  case plus =>
    cases hkids : nd.kids with
    | nil => exact ⟨0, fun m' _ => by simp only [bodyNode, hkind, hkids] at h1 ⊢; exact h1⟩
    | cons e es =>
      cases es with
      | nil =>
        obtain ⟨m, hm⟩ := withEol_ev nd (hrep e true) s r t (by simp only [bodyNode, hkind, hkids] at h1; exact h1) hr
        exact ⟨m, fun m' hm' => by simp only [bodyNode, hkind, hkids]; exact hm m' hm'⟩
      | cons e2 es2 => exact ⟨0, fun m' _ => by simp only [bodyNode, hkind, hkids] at h1 ⊢; exact h1⟩
  case unord =>
    have := post_ev (withEol_ev nd hun)
      (fun s x => match x with | (.nomatch, s2) => (.nomatch, ({ s2 with pos := s.pos }).nmRaise s.pos) | r => r)
      (by intro s x hx; obtain ⟨r, s2⟩ := x; simp at hx; subst hx; rfl) s r t
      (by simp only [bodyNode, hkind] at h1; exact h1) hr
    obtain ⟨m, hm⟩ := this
    exact ⟨m, fun m' hm' => by simp only [bodyNode, hkind]; exact hm m' hm'⟩
  case andP =>
    cases hkids : nd.kids with
    | nil => exact ⟨0, fun m' _ => by simp only [bodyNode, hkind, hkids] at h1 ⊢; exact h1⟩
    | cons e es =>
      cases es with
      | nil =>
        have := post_ev (hp e)
          (fun s x => match x with | (.ok _, s2) => (.ok .none, { s2 with pos := s.pos })
                                    | (.nomatch, s2) => (.nomatch, { s2 with pos := s.pos }) | r => r)
          (by intro s x hx; obtain ⟨r, s2⟩ := x; simp at hx; subst hx; rfl) s r t
          (by simp only [bodyNode, hkind, hkids] at h1; exact h1) hr
        obtain ⟨m, hm⟩ := this
        exact ⟨m, fun m' hm' => by simp only [bodyNode, hkind, hkids]; exact hm m' hm'⟩
      | cons e2 es2 => exact ⟨0, fun m' _ => by simp only [bodyNode, hkind, hkids] at h1 ⊢; exact h1⟩
  case notP =>
    cases hkids : nd.kids with
    | nil => exact ⟨0, fun m' _ => by simp only [bodyNode, hkind, hkids] at h1 ⊢; exact h1⟩
    | cons e es =>
      cases es with
      | nil =>
        have := post_ev (hp e)
          (fun s x => match x with | (.ok _, s2) => (.nomatch, ({ s2 with pos := s.pos }).nmRaise s.pos)
                                    | (.nomatch, s2) => (.ok .none, { s2 with pos := s.pos }) | r => r)
          (by intro s x hx; obtain ⟨r, s2⟩ := x; simp at hx; subst hx; rfl) s r t
          (by simp only [bodyNode, hkind, hkids] at h1; exact h1) hr
        obtain ⟨m, hm⟩ := this
        exact ⟨m, fun m' hm' => by simp only [bodyNode, hkind, hkids]; exact hm m' hm'⟩
      | cons e2 es2 => exact ⟨0, fun m' _ => by simp only [bodyNode, hkind, hkids] at h1 ⊢; exact h1⟩
  all_goals exact ⟨0, fun m' _ => by simp only [bodyNode, hkind] at h1 ⊢; exact h1⟩

/-! ## the limit parser -/

open Classical in
/-- `parse g` with sufficient fuel (`fuel` where no amount of fuel suffices) -/
noncomputable def parseLim (g : Grammar) : SubParser := fun e s =>
  if h : ∃ n, (parse g n e s).1 ≠ .fuel then parse g (Classical.choose h) e s else (.fuel, s)

theorem parseLim_of (g : Grammar) {n e : Nat} {s t : PState} {r : Res} (h : parse g n e s = (r, t)) (hr : r ≠ .fuel) :
    parseLim g e s = (r, t) := by
  have hex : ∃ n, (parse g n e s).1 ≠ .fuel := ⟨n, by rw [h]; exact hr⟩
  unfold parseLim
  rw [dif_pos hex]
  have hc := Classical.choose_spec hex
  cases hp : parse g (Classical.choose hex) e s with | mk r' t' =>
  rw [hp] at hc
  have a := parse_le g (Nat.le_max_left n (Classical.choose hex)) e s r t h hr
  have b := parse_le g (Nat.le_max_right n (Classical.choose hex)) e s r' t' hp hc
  rw [a] at b
  exact b.symm

theorem parseLim_ev (g : Grammar) : Ev (parse g) (parseLim g) := by
  intro e s r t h1 hr
  unfold parseLim at h1
  by_cases hex : ∃ n, (parse g n e s).1 ≠ .fuel
  · rw [dif_pos hex] at h1
    exact ⟨Classical.choose hex, fun m' hm' => parse_le g hm' e s r t h1 hr⟩
  · rw [dif_neg hex] at h1
    cases h1
    exact absurd rfl hr

theorem parseLim_fin (g : Grammar) {e : Nat} {s t : PState} {r : Res} (h : parseLim g e s = (r, t)) (hr : r ≠ .fuel) :
    ∃ n, parse g n e s = (r, t) := by
  obtain ⟨m, hm⟩ := parseLim_ev g e s r t h hr
  exact ⟨m, hm m (Nat.le_refl m)⟩

end Peg
