import TextxVerif.Reg
/-! Helper lemmas for the registry machine (C26): dictionaries, entry-point
loading, the per-call simulation between `Reg.step` and `Reg.Spec.Step`,
frame and freshness invariants. -/
namespace Reg

/-! ## `Nodup` helpers (core only) -/

theorem nodup_of_map {α β : Type} (f : α → β) {l : List α} (h : (l.map f).Nodup) : l.Nodup :=
  (List.pairwise_map.1 h).imp (fun hne e => hne (congrArg f e))

theorem nodup_filter {α : Type} (p : α → Bool) {l : List α} (h : l.Nodup) : (l.filter p).Nodup :=
  List.Pairwise.filter p h

theorem nodup_map_on {α β : Type} {l : List α} {f : α → β}
    (inj : ∀ x, x ∈ l → ∀ y, y ∈ l → f x = f y → x = y) (h : l.Nodup) : (l.map f).Nodup :=
  List.pairwise_map.2 (List.Pairwise.imp_of_mem (fun hx hy hne e => hne (inj _ hx _ hy e)) h)

/-! ## dictionaries -/

def keys {α : Type} (d : Dict α) : List String := d.map (·.1)

@[simp] theorem dget_nil {α : Type} (k : String) : dget ([] : Dict α) k = none := rfl

theorem dget_dset {α : Type} (d : Dict α) (k : String) (v : α) (k' : String) :
    dget (dset d k v) k' = if k' = k then some v else dget d k' := by
  induction d with
  | nil =>
    simp only [dset, dget]
    by_cases h : k' = k
    · simp [h]
    · have : ¬ k = k' := fun e => h e.symm
      simp [h, this]
  | cons p t ih =>
    obtain ⟨k0, v0⟩ := p
    simp only [dset]
    by_cases h0 : k0 = k
    · subst h0
      simp only [if_true, dget]
      by_cases h : k0 = k'
      · subst h; simp
      · have : ¬ k' = k0 := fun e => h e.symm
        simp [h, this]
    · simp only [h0, if_false, dget]
      by_cases h : k0 = k'
      · subst h; simp [h0]
      · simp only [h, if_false]; exact ih

theorem dget_isSome_iff_mem_keys {α : Type} (d : Dict α) (k : String) :
    (dget d k).isSome = true ↔ k ∈ keys d := by
  induction d with
  | nil => simp [keys]
  | cons p t ih =>
    obtain ⟨k0, v0⟩ := p
    simp only [dget, keys, List.map_cons, List.mem_cons]
    by_cases h : k0 = k
    · subst h; simp
    · have : ¬ k = k0 := fun e => h e.symm
      simp only [h, if_false, this, false_or]
      exact ih

theorem dget_eq_none_iff {α : Type} (d : Dict α) (k : String) :
    dget d k = none ↔ k ∉ keys d := by
  rw [← dget_isSome_iff_mem_keys]
  cases dget d k <;> simp

theorem dget_some_mem {α : Type} (d : Dict α) (k : String) (v : α) (h : dget d k = some v) :
    (k, v) ∈ d := by
  induction d with
  | nil => simp at h
  | cons p t ih =>
    obtain ⟨k0, v0⟩ := p
    simp only [dget] at h
    by_cases h0 : k0 = k
    · subst h0; simp only [if_true, Option.some.injEq] at h; subst h; simp
    · simp only [h0, if_false] at h
      exact List.mem_cons_of_mem _ (ih h)

theorem mem_dget_of_nodup {α : Type} (d : Dict α) (hnd : (keys d).Nodup) (k : String) (v : α)
    (h : (k, v) ∈ d) : dget d k = some v := by
  induction d with
  | nil => simp at h
  | cons p t ih =>
    obtain ⟨k0, v0⟩ := p
    simp only [keys, List.map_cons, List.nodup_cons] at hnd
    simp only [List.mem_cons, Prod.mk.injEq] at h
    simp only [dget]
    rcases h with ⟨hk, hv⟩ | h
    · subst hk; subst hv; simp
    · have hk : k ∈ keys t := List.mem_map.2 ⟨(k, v), h, rfl⟩
      have : ¬ k0 = k := fun e => hnd.1 (e ▸ hk)
      simp only [this, if_false]
      exact ih hnd.2 h

theorem dset_of_none {α : Type} (d : Dict α) (k : String) (v : α) (h : dget d k = none) :
    dset d k v = d ++ [(k, v)] := by
  induction d with
  | nil => rfl
  | cons p t ih =>
    obtain ⟨k0, v0⟩ := p
    simp only [dget] at h
    by_cases h0 : k0 = k
    · simp [h0] at h
    · simp only [h0, if_false] at h
      simp [dset, h0, ih h]

theorem keys_dset_of_some {α : Type} (d : Dict α) (k : String) (v : α) (h : (dget d k).isSome = true) :
    keys (dset d k v) = keys d := by
  induction d with
  | nil => simp at h
  | cons p t ih =>
    obtain ⟨k0, v0⟩ := p
    simp only [dget] at h
    by_cases h0 : k0 = k
    · simp [dset, h0, keys]
    · simp only [h0, if_false] at h
      have := ih h
      simp only [keys] at this
      simp [dset, h0, keys, this]

theorem keys_nodup_dset {α : Type} (d : Dict α) (k : String) (v : α) (hnd : (keys d).Nodup) :
    (keys (dset d k v)).Nodup := by
  cases h : dget d k with
  | none =>
    rw [dset_of_none d k v h]
    simp only [keys, List.map_append, List.map_cons, List.map_nil]
    rw [List.nodup_append]
    refine ⟨hnd, by simp, ?_⟩
    intro a ha b hb
    simp only [List.mem_singleton] at hb
    subst hb
    intro e
    subst e
    exact (dget_eq_none_iff d a).1 h ha
  | some x =>
    rw [keys_dset_of_some d k v (by simp [h])]
    exact hnd

theorem mem_dset {α : Type} (d : Dict α) (k : String) (v : α) (p : String × α) (h : p ∈ dset d k v) :
    p = (k, v) ∨ p ∈ d := by
  induction d with
  | nil => simp only [dset, List.mem_singleton] at h; exact Or.inl h
  | cons q t ih =>
    obtain ⟨k0, v0⟩ := q
    simp only [dset] at h
    by_cases h0 : k0 = k
    · simp only [h0, if_true, List.mem_cons] at h
      rcases h with h | h
      · exact Or.inl h
      · exact Or.inr (List.mem_cons_of_mem _ h)
    · simp only [h0, if_false, List.mem_cons] at h
      rcases h with h | h
      · subst h; exact Or.inr (by simp)
      · rcases ih h with e | e
        · exact Or.inl e
        · exact Or.inr (List.mem_cons_of_mem _ e)

/-! ## well-formed registries -/

/-- language dict: distinct keys, every key is the lower-cased name of its descriptor -/
def LWF (E : Env) (ls : Dict LangDesc) : Prop :=
  (keys ls).Nodup ∧ ∀ p, p ∈ ls → p.1 = E.lower p.2.name

/-- generator dict: distinct keys on both levels -/
def GWF (gs : Dict (Dict GenDesc)) : Prop :=
  (keys gs).Nodup ∧ ∀ p, p ∈ gs → (keys p.2).Nodup

/-- the language dict an API call works on (loaded on demand) -/
def St.curL (E : Env) (s : St) : Dict LangDesc := s.langs.getD (epsDict E)
/-- the generator dict an API call works on (loaded on demand) -/
def St.curG (E : Env) (s : St) : Dict (Dict GenDesc) := s.gens.getD (gepsDict E)

def WF (E : Env) (s : St) : Prop := LWF E (s.curL E) ∧ GWF (s.curG E)

theorem LWF_nil (E : Env) : LWF E [] := ⟨by simp [keys], by simp⟩

theorem LWF_dset (E : Env) (ls : Dict LangDesc) (d : LangDesc) (h : LWF E ls) :
    LWF E (dset ls (E.lower d.name) d) := by
  refine ⟨keys_nodup_dset _ _ _ h.1, ?_⟩
  intro p hp
  rcases mem_dset _ _ _ _ hp with e | e
  · subst e; rfl
  · exact h.2 p e

/-- in a well-formed language dict, the descriptors are pairwise distinct -/
theorem LWF_vals_nodup (E : Env) (ls : Dict LangDesc) (h : LWF E ls) : (ls.map (·.2)).Nodup := by
  have hnd : ls.Nodup := nodup_of_map _ h.1
  refine nodup_map_on ?_ hnd
  intro x hx y hy hxy
  have hx1 := h.2 x hx
  have hy1 := h.2 y hy
  exact Prod.ext (by rw [hx1, hy1, hxy]) hxy

theorem LWF_registered (E : Env) (ls : Dict LangDesc) (h : LWF E ls) (d : LangDesc) :
    (∃ k, dget ls k = some d) ↔ d ∈ ls.map (·.2) := by
  constructor
  · rintro ⟨k, hk⟩
    exact List.mem_map.2 ⟨(k, d), dget_some_mem _ _ _ hk, rfl⟩
  · intro hd
    obtain ⟨p, hp, rfl⟩ := List.mem_map.1 hd
    exact ⟨p.1, mem_dget_of_nodup ls h.1 p.1 p.2 hp⟩

theorem LWF_key (E : Env) (ls : Dict LangDesc) (h : LWF E ls) (k : String) (d : LangDesc)
    (hk : dget ls k = some d) : k = E.lower d.name :=
  h.2 (k, d) (dget_some_mem _ _ _ hk)

/-! ## loading the entry points -/

theorem loadLangs_ok (E : Env) : ∀ (eps : List LangDesc) (acc : Dict LangDesc),
    (eps.map (fun d => E.lower d.name)).Nodup →
    (∀ d, d ∈ eps → dget acc (E.lower d.name) = none) →
    loadLangs E eps acc = (acc ++ eps.map (fun d => (E.lower d.name, d)), true)
  | [], acc, _, _ => by simp [loadLangs]
  | d :: rest, acc, hnd, hdis => by
    simp only [List.map_cons, List.nodup_cons] at hnd
    have h0 : dget acc (E.lower d.name) = none := hdis d (by simp)
    simp only [loadLangs, h0, Option.isSome_none, Bool.false_eq_true, if_false]
    rw [loadLangs_ok E rest _ hnd.2]
    · rw [dset_of_none _ _ _ h0]; simp
    · intro d' hd'
      rw [dget_dset]
      have hne : ¬ E.lower d'.name = E.lower d.name := by
        intro e
        exact hnd.1 (List.mem_map.2 ⟨d', hd', e⟩)
      simp only [hne, if_false]
      exact hdis d' (by simp [hd'])

theorem epsDict_eq (E : Env) (hE : E.Ok) : epsDict E = E.eps.map (fun d => (E.lower d.name, d)) := by
  unfold epsDict
  rw [loadLangs_ok E E.eps [] hE.eps_nodup (by simp)]
  simp

theorem loadLangs_eps (E : Env) (hE : E.Ok) : loadLangs E E.eps [] = (epsDict E, true) := by
  rw [epsDict_eq E hE, loadLangs_ok E E.eps [] hE.eps_nodup (by simp)]
  simp

theorem dget_map_key (E : Env) (l : List LangDesc) (k : String) :
    dget (l.map (fun d => (E.lower d.name, d))) k = l.find? (fun d => E.lower d.name = k) := by
  induction l with
  | nil => rfl
  | cons d t ih =>
    simp only [List.map_cons, dget, List.find?_cons]
    by_cases h : E.lower d.name = k
    · simp [h]
    · simp [h, ih]

theorem dget_epsDict (E : Env) (hE : E.Ok) (k : String) : dget (epsDict E) k = epMap E k := by
  rw [epsDict_eq E hE, dget_map_key]; rfl

theorem LWF_epsDict (E : Env) (hE : E.Ok) : LWF E (epsDict E) := by
  rw [epsDict_eq E hE]
  refine ⟨?_, ?_⟩
  · simp only [keys, List.map_map]
    exact hE.eps_nodup
  · intro p hp
    obtain ⟨d, _, rfl⟩ := List.mem_map.1 hp
    rfl

/-- an entry point is found under its own key -/
theorem epMap_self (E : Env) (hE : E.Ok) (d : LangDesc) (hd : d ∈ E.eps) :
    epMap E (E.lower d.name) = some d := by
  rw [← dget_epsDict E hE]
  apply mem_dget_of_nodup _ (LWF_epsDict E hE).1
  rw [epsDict_eq E hE]
  exact List.mem_map.2 ⟨d, hd, rfl⟩

theorem epMap_some (E : Env) (k : String) (d : LangDesc) (h : epMap E k = some d) :
    d ∈ E.eps ∧ E.lower d.name = k := by
  unfold epMap at h
  have h1 := List.mem_of_find?_eq_some h
  have h2 := List.find?_some h
  exact ⟨h1, by simpa using h2⟩

/-! ## generators: the two-level dict -/

theorem GWF_nil : GWF [] := ⟨by simp [keys], by simp⟩

theorem regGenInto_none_iff (E : Env) (gs : Dict (Dict GenDesc)) (g : GenDesc) :
    regGenInto E gs g = none ↔ (gget gs (E.lower g.language) (E.lower g.target)).isSome = true := by
  unfold regGenInto gget
  cases h : dget gs (E.lower g.language) with
  | none => simp [h]
  | some lg =>
    simp only [h, Option.getD_some, Option.bind_some]
    cases h2 : dget lg (E.lower g.target) <;> simp

theorem gget_regGenInto (E : Env) (gs gs' : Dict (Dict GenDesc)) (g : GenDesc)
    (h : regGenInto E gs g = some gs') (l t : String) :
    gget gs' l t = if l = E.lower g.language ∧ t = E.lower g.target then some g else gget gs l t := by
  unfold regGenInto at h
  simp only at h
  split at h
  · simp at h
  · simp only [Option.some.injEq] at h
    subst h
    unfold gget
    rw [dget_dset]
    by_cases hl : l = E.lower g.language
    · subst hl
      simp only [if_true, Option.bind_some, dget_dset, true_and]
      by_cases ht : t = E.lower g.target
      · simp [ht]
      · simp only [ht, if_false]
        cases dget gs (E.lower g.language) <;> simp
    · simp [hl]

theorem GWF_regGenInto (E : Env) (gs gs' : Dict (Dict GenDesc)) (g : GenDesc)
    (hw : GWF gs) (h : regGenInto E gs g = some gs') : GWF gs' := by
  unfold regGenInto at h
  simp only at h
  split at h
  · simp at h
  · simp only [Option.some.injEq] at h
    subst h
    refine ⟨keys_nodup_dset _ _ _ hw.1, ?_⟩
    intro p hp
    rcases mem_dset _ _ _ _ hp with e | e
    · subst e
      apply keys_nodup_dset
      cases hd : dget gs (E.lower g.language) with
      | none => simp [keys]
      | some lg => exact hw.2 _ (dget_some_mem _ _ _ hd)
    · exact hw.2 p e

theorem loadGens_ok (E : Env) : ∀ (geps : List GenDesc) (acc : Dict (Dict GenDesc)),
    (geps.map (fun g => (E.lower g.language, E.lower g.target))).Nodup →
    (∀ g, g ∈ geps → gget acc (E.lower g.language) (E.lower g.target) = none) →
    GWF acc →
    (loadGens E geps acc).2 = true ∧ GWF (loadGens E geps acc).1 ∧
    ∀ l t, gget (loadGens E geps acc).1 l t =
      match geps.find? (fun g => E.lower g.language = l ∧ E.lower g.target = t) with
      | some g => some g
      | none => gget acc l t
  | [], acc, _, _, hw => by simp [loadGens, hw]
  | g :: rest, acc, hnd, hdis, hw => by
    simp only [List.map_cons, List.nodup_cons] at hnd
    have h0 := hdis g (by simp)
    cases hr : regGenInto E acc g with
    | none =>
      have := (regGenInto_none_iff E acc g).1 hr
      simp [h0] at this
    | some acc' =>
      simp only [loadGens, hr]
      have hg := gget_regGenInto E acc acc' g hr
      have ih := loadGens_ok E rest acc' hnd.2 (by
        intro g' hg'
        rw [hg]
        have hne : ¬ (E.lower g'.language = E.lower g.language ∧ E.lower g'.target = E.lower g.target) := by
          rintro ⟨e1, e2⟩
          exact hnd.1 (List.mem_map.2 ⟨g', hg', by simp [e1, e2]⟩)
        simp only [hne, if_false]
        exact hdis g' (by simp [hg'])) (GWF_regGenInto E acc acc' g hw hr)
      refine ⟨ih.1, ih.2.1, ?_⟩
      intro l t
      rw [ih.2.2 l t, List.find?_cons]
      by_cases hlt : E.lower g.language = l ∧ E.lower g.target = t
      · have hnone : rest.find? (fun g => decide (E.lower g.language = l ∧ E.lower g.target = t)) = none := by
          rw [List.find?_eq_none]
          intro x hx hp
          simp only [decide_eq_true_eq] at hp
          exact hnd.1 (List.mem_map.2 ⟨x, hx, by simp [hp.1, hp.2, hlt.1, hlt.2]⟩)
        rw [hnone]
        simp only [hlt, and_self, decide_true]
        rw [hg]
        simp [hlt.1.symm, hlt.2.symm]
      · simp only [hlt, decide_false]
        cases rest.find? (fun g => decide (E.lower g.language = l ∧ E.lower g.target = t)) with
        | some x => rfl
        | none =>
          simp only
          rw [hg]
          have : ¬ (l = E.lower g.language ∧ t = E.lower g.target) := fun ⟨a, b⟩ => hlt ⟨a.symm, b.symm⟩
          simp [this]

theorem loadGens_geps (E : Env) (hE : E.Ok) : loadGens E E.geps [] = (gepsDict E, true) := by
  have := (loadGens_ok E E.geps [] hE.geps_nodup (by simp [gget]) GWF_nil).1
  exact Prod.ext rfl this

theorem GWF_gepsDict (E : Env) (hE : E.Ok) : GWF (gepsDict E) :=
  (loadGens_ok E E.geps [] hE.geps_nodup (by simp [gget]) GWF_nil).2.1

theorem gget_gepsDict (E : Env) (hE : E.Ok) (l t : String) : gget (gepsDict E) l t = gepMap E l t := by
  have := (loadGens_ok E E.geps [] hE.geps_nodup (by simp [gget]) GWF_nil).2.2 l t
  unfold gepsDict
  rw [this]
  unfold gepMap
  cases E.geps.find? (fun g => decide (E.lower g.language = l ∧ E.lower g.target = t)) <;> simp [gget]

theorem gepMap_self (E : Env) (hE : E.Ok) (g : GenDesc) (hg : g ∈ E.geps) :
    gepMap E (E.lower g.language) (E.lower g.target) = some g := by
  unfold gepMap
  have hnd := hE.geps_nodup
  revert hnd hg
  generalize E.geps = l
  induction l with
  | nil => intro hg; simp at hg
  | cons x t ih =>
    intro hg hnd
    simp only [List.map_cons, List.nodup_cons] at hnd
    rw [List.find?_cons]
    by_cases hx : E.lower x.language = E.lower g.language ∧ E.lower x.target = E.lower g.target
    · simp only [hx, and_self, decide_true]
      rcases List.mem_cons.1 hg with e | e
      · rw [e]
      · exfalso
        exact hnd.1 (List.mem_map.2 ⟨g, e, by simp [hx.1, hx.2]⟩)
    · simp only [hx, decide_false]
      rcases List.mem_cons.1 hg with e | e
      · subst e; simp at hx
      · exact ih e hnd.2

theorem mem_gkeysOf (gs : Dict (Dict GenDesc)) (hw : GWF gs) (l t : String) :
    (l, t) ∈ gkeysOf gs ↔ (gget gs l t).isSome = true := by
  unfold gkeysOf gget
  simp only [List.mem_flatMap, List.mem_map, Prod.mk.injEq]
  constructor
  · rintro ⟨p, hp, q, hq, rfl, rfl⟩
    rw [mem_dget_of_nodup gs hw.1 p.1 p.2 hp]
    simp only [Option.bind_some]
    rw [mem_dget_of_nodup p.2 (hw.2 p hp) q.1 q.2 hq]
    rfl
  · intro h
    cases h1 : dget gs l with
    | none => simp [h1] at h
    | some lg =>
      simp only [h1, Option.bind_some] at h
      cases h2 : dget lg t with
      | none => simp [h2] at h
      | some g =>
        exact ⟨(l, lg), dget_some_mem _ _ _ h1, (t, g), dget_some_mem _ _ _ h2, rfl, rfl⟩

theorem gkeysOf_nodup (gs : Dict (Dict GenDesc)) (hw : GWF gs) : (gkeysOf gs).Nodup := by
  unfold gkeysOf
  apply List.pairwise_flatMap.2
  constructor
  · intro p hp
    have := hw.2 p hp
    unfold keys at this
    refine nodup_map_on ?_ (nodup_of_map _ this)
    intro x hx y hy hxy
    simp only [Prod.mk.injEq, true_and] at hxy
    have hx' := mem_dget_of_nodup p.2 (hw.2 p hp) x.1 x.2 hx
    have hy' := mem_dget_of_nodup p.2 (hw.2 p hp) y.1 y.2 hy
    rw [hxy] at hx'
    rw [hx'] at hy'
    exact Prod.ext hxy (Option.some.inj hy')
  · have h1 := List.pairwise_map.1 (show List.Pairwise (· ≠ ·) (gs.map (·.1)) from hw.1)
    refine h1.imp ?_
    intro a b hab x hxa y hyb e
    obtain ⟨_, _, rfl⟩ := List.mem_map.1 hxa
    obtain ⟨_, _, rfl⟩ := List.mem_map.1 hyb
    simp only [Prod.mk.injEq] at e
    exact hab e.1

/-! ## simulation: one call of the machine is one step of the specification -/

/-- the state after the lazy load of the language registry -/
def St.loadL (E : Env) (s : St) : St := { s with langs := some (s.curL E) }
/-- the state after the lazy load of the generator registry -/
def St.loadG (E : Env) (s : St) : St := { s with gens := some (s.curG E) }

theorem WF_init (E : Env) (hE : E.Ok) : WF E St.init :=
  ⟨LWF_epsDict E hE, GWF_gepsDict E hE⟩

theorem abs_init (E : Env) (hE : E.Ok) : St.init.abs E = Spec.init E := by
  apply Spec.ext
  · funext k; exact dget_epsDict E hE k
  · rfl
  · rfl
  · funext l t; exact gget_gepsDict E hE l t

theorem langDescs_eq (E : Env) (hE : E.Ok) (s : St) :
    langDescs E s = (s.loadL E, s.curL E, true) := by
  unfold langDescs St.loadL St.curL
  cases s with
  | mk langs cache serial gens =>
    cases langs with
    | some ls => rfl
    | none => simp [loadLangs_eps E hE]

theorem genDescs_eq (E : Env) (hE : E.Ok) (s : St) :
    genDescs E s = (s.loadG E, s.curG E, true) := by
  unfold genDescs St.loadG St.curG
  cases s with
  | mk langs cache serial gens =>
    cases gens with
    | some gs => rfl
    | none => simp [loadGens_geps E hE]

@[simp] theorem abs_loadL (E : Env) (s : St) : (s.loadL E).abs E = s.abs E := rfl
@[simp] theorem abs_loadG (E : Env) (s : St) : (s.loadG E).abs E = s.abs E := rfl
@[simp] theorem curL_loadL (E : Env) (s : St) : (s.loadL E).curL E = s.curL E := rfl
@[simp] theorem curG_loadL (E : Env) (s : St) : (s.loadL E).curG E = s.curG E := rfl
@[simp] theorem curL_loadG (E : Env) (s : St) : (s.loadG E).curL E = s.curL E := rfl
@[simp] theorem curG_loadG (E : Env) (s : St) : (s.loadG E).curG E = s.curG E := rfl

theorem languageDescription_eq (E : Env) (hE : E.Ok) (s : St) (n : String) :
    languageDescription E s n =
      (s.loadL E, match dget (s.curL E) (E.lower n) with
                  | none => .raise .regError
                  | some d => .ok d) := by
  unfold languageDescription
  simp only [langDescs_eq E hE]
  cases dget (s.curL E) (E.lower n) <;> rfl

/-- `metamodel_for_language` against the cache protocol of the specification -/
theorem mfl_sim (E : Env) (hE : E.Ok) (s : St) (n : String) (kw : Nat) :
    ((metamodelForLanguage E s n kw).1.abs E, (metamodelForLanguage E s n kw).2)
        = Spec.metamodel E (s.abs E) n kw ∧
      (metamodelForLanguage E s n kw).1.curL E = s.curL E ∧
      (metamodelForLanguage E s n kw).1.curG E = s.curG E := by
  have key : ∀ (c : Option MM), c = dget s.cache (E.lower n) →
      (¬ (∃ m, c = some m ∧ kw = 0)) →
      ((metamodelForLanguage E s n kw).1.abs E, (metamodelForLanguage E s n kw).2)
        = Spec.metamodel E (s.abs E) n kw ∧
      (metamodelForLanguage E s n kw).1.curL E = s.curL E ∧
      (metamodelForLanguage E s n kw).1.curG E = s.curG E := by
    intro c hc hno
    have hm : metamodelForLanguage E s n kw =
        (match languageDescription E s (E.lower n) with
          | (s, .raise r) => (s, .raise r)
          | (s, .ok d) =>
              match d.mm with
              | .inst u => ({ s with cache := dset s.cache (E.lower n) (.given u) }, .ok (.given u))
              | .factory =>
                  ({ s with cache := dset s.cache (E.lower n) (.made s.serial d.uid kw), serial := s.serial + 1 },
                    .ok (.made s.serial d.uid kw))
              | .badFactory => (s, .raise .regError)
              | .notCallable => (s, .raise .typeError)) := by
      unfold metamodelForLanguage
      simp only
      split
      · rename_i m h1
        exact absurd ⟨m, by rw [hc, h1], rfl⟩ hno
      · rfl
    have hs : Spec.metamodel E (s.abs E) n kw =
        (match (s.abs E).L (E.lower n) with
          | none => (s.abs E, .raise .regError)
          | some d =>
              match d.mm with
              | .inst u => ({ s.abs E with C := fupd (s.abs E).C (E.lower n) (.given u) }, .ok (.given u))
              | .factory =>
                  ({ s.abs E with C := fupd (s.abs E).C (E.lower n) (.made (s.abs E).serial d.uid kw),
                                  serial := (s.abs E).serial + 1 },
                    .ok (.made (s.abs E).serial d.uid kw))
              | .badFactory => (s.abs E, .raise .regError)
              | .notCallable => (s.abs E, .raise .typeError)) := by
      unfold Spec.metamodel
      have : (s.abs E).C (E.lower n) = dget s.cache (E.lower n) := rfl
      simp only [this]
      split
      · rename_i m h1
        exact absurd ⟨m, by rw [hc, h1], rfl⟩ hno
      · rfl
    rw [hm, hs, languageDescription_eq E hE, hE.lower_idem]
    have hL : (s.abs E).L (E.lower n) = dget (s.curL E) (E.lower n) := rfl
    rw [hL]
    cases hd : dget (s.curL E) (E.lower n) with
    | none => exact ⟨rfl, rfl, rfl⟩
    | some d =>
      simp only
      cases hmm : d.mm with
      | inst u =>
        refine ⟨?_, rfl, rfl⟩
        simp only [Prod.mk.injEq, and_true]
        apply Spec.ext
        · rfl
        · funext k; simp only [St.abs, St.loadL, fupd]; exact dget_dset _ _ _ _
        · rfl
        · rfl
      | factory =>
        refine ⟨?_, rfl, rfl⟩
        have : (s.loadL E).serial = (s.abs E).serial := rfl
        simp only [this, Prod.mk.injEq, and_true]
        apply Spec.ext
        · rfl
        · funext k; simp only [St.abs, St.loadL, fupd]; exact dget_dset _ _ _ _
        · rfl
        · rfl
      | badFactory => exact ⟨rfl, rfl, rfl⟩
      | notCallable => exact ⟨rfl, rfl, rfl⟩
  cases hc : dget s.cache (E.lower n) with
  | none => exact key none hc.symm (by rintro ⟨m, h, _⟩; cases h)
  | some m =>
    cases kw with
    | succ k => exact key (some m) hc.symm (by rintro ⟨_, _, h⟩; cases h)
    | zero =>
      have hm : metamodelForLanguage E s n 0 = (s, .ok m) := by
        unfold metamodelForLanguage; simp only [hc]
      have hs : Spec.metamodel E (s.abs E) n 0 = (s.abs E, .ok m) := by
        unfold Spec.metamodel
        have : (s.abs E).C (E.lower n) = dget s.cache (E.lower n) := rfl
        simp only [this, hc]
      rw [hm, hs]
      exact ⟨rfl, rfl, rfl⟩

theorem mmLoop_sim (E : Env) (hE : E.Ok) : ∀ (ds : List LangDesc) (s : St),
    ((mmLoop E s ds).1.abs E, (mmLoop E s ds).2) = Spec.mmLoop E (s.abs E) ds ∧
      (mmLoop E s ds).1.curL E = s.curL E ∧ (mmLoop E s ds).1.curG E = s.curG E
  | [], s => ⟨rfl, rfl, rfl⟩
  | d :: ds, s => by
    obtain ⟨h1, h2, h3⟩ := mfl_sim E hE s d.name 0
    unfold mmLoop Spec.mmLoop
    rw [← h1]
    cases hr : metamodelForLanguage E s d.name 0 with
    | mk s1 o1 =>
      rw [hr] at h2 h3
      simp only at h2 h3 ⊢
      cases o1 with
      | raise r => exact ⟨rfl, h2, h3⟩
      | ok m =>
        obtain ⟨i1, i2, i3⟩ := mmLoop_sim E hE ds s1
        simp only
        rw [← i1]
        cases hr2 : mmLoop E s1 ds with
        | mk s2 o2 =>
          rw [hr2] at i2 i3
          simp only at i2 i3 ⊢
          cases o2 with
          | raise r => exact ⟨rfl, i2.trans h2, i3.trans h3⟩
          | ok ms => exact ⟨rfl, i2.trans h2, i3.trans h3⟩

theorem registered_iff (E : Env) (s : St) (hw : WF E s) (d : LangDesc) :
    (s.abs E).Registered d ↔ d ∈ (s.curL E).map (·.2) :=
  LWF_registered E (s.curL E) hw.1 d

theorem enumerates_cur (E : Env) (s : St) (hw : WF E s) (f : String) :
    Spec.Enumerates E (s.abs E) f (((s.curL E).map (·.2)).filter (patMatches E f)) := by
  refine ⟨nodup_filter _ (LWF_vals_nodup E _ hw.1), ?_⟩
  intro d
  rw [List.mem_filter, registered_iff E s hw]

theorem enumerates_single (E : Env) (a : Spec) (f : String) (ds : List LangDesc) (d : LangDesc)
    (h1 : Spec.Enumerates E a f ds) (h2 : Spec.Enumerates E a f [d]) : ds = [d] := by
  have hmem : ∀ x, x ∈ ds ↔ x = d := by
    intro x
    rw [h1.2 x, ← h2.2 x]; simp
  have hd : d ∈ ds := (hmem d).2 rfl
  match ds, h1.1, hmem, hd with
  | [x], _, hmem, _ => rw [(hmem x).1 (by simp)]
  | x :: y :: t, hnd, hmem, _ =>
    have hx := (hmem x).1 (by simp)
    have hy := (hmem y).1 (by simp)
    simp only [List.nodup_cons, List.mem_cons] at hnd
    exact absurd (Or.inl (hx.trans hy.symm)) hnd.1

theorem languagesForFile_eq (E : Env) (hE : E.Ok) (s : St) (f : String) :
    languagesForFile E s f = (s.loadL E, .ok (((s.curL E).map (·.2)).filter (patMatches E f))) := by
  unfold languagesForFile
  simp only [langDescs_eq E hE]

theorem languageForFile_eq (E : Env) (hE : E.Ok) (s : St) (f : String) :
    languageForFile E s f =
      (s.loadL E, match ((s.curL E).map (·.2)).filter (patMatches E f) with
                  | [d] => .ok d
                  | _ => .raise .regError) := by
  unfold languageForFile
  rw [languagesForFile_eq E hE]
  generalize ((s.curL E).map (·.2)).filter (patMatches E f) = l
  match l with
  | [] => rfl
  | [_] => rfl
  | _ :: _ :: _ => rfl

theorem WF_loadL (E : Env) (s : St) (hw : WF E s) : WF E (s.loadL E) := hw
theorem WF_loadG (E : Env) (s : St) (hw : WF E s) : WF E (s.loadG E) := hw

theorem WF_of_cur (E : Env) (s s' : St) (hw : WF E s) (h1 : s'.curL E = s.curL E)
    (h2 : s'.curG E = s.curG E) : WF E s' := by
  unfold WF; rw [h1, h2]; exact hw

/-- **Simulation.** From a well-formed state, a call of the machine is a step
of the specification between the abstractions, and well-formedness is kept. -/
local macro "rt" : term => `(by first | rfl | trivial)

theorem step_sim (E : Env) (hE : E.Ok) (s : St) (hw : WF E s) (op : Op) :
    Spec.Step E (s.abs E) op (step E s op).2 ((step E s op).1.abs E) ∧ WF E (step E s op).1 := by
  cases op with
  | regLang d =>
    simp only [step, registerLanguage, langDescs_eq E hE, Spec.Step]
    have hL : (s.abs E).L (E.lower d.name) = dget (s.curL E) (E.lower d.name) := rfl
    by_cases h : (dget (s.curL E) (E.lower d.name)).isSome = true
    · simp only [h, if_true]
      exact ⟨Or.inl ⟨by rw [hL]; exact h, rt, rt⟩, hw⟩
    · simp only [h]
      refine ⟨Or.inr ⟨?_, rt, ?_⟩, ?_⟩
      · rw [hL]; cases hd : dget (s.curL E) (E.lower d.name) with
        | none => rfl
        | some x => simp [hd] at h
      · apply Spec.ext
        · funext k; simp only [St.abs, St.loadL, fupd]; exact dget_dset _ _ _ _
        · rfl
        · rfl
        · rfl
      · exact ⟨LWF_dset E _ d hw.1, hw.2⟩
  | lang n =>
    simp only [step, languageDescription_eq E hE, Spec.Step]
    refine ⟨⟨rt, ?_⟩, hw⟩
    have hL : (s.abs E).L (E.lower n) = dget (s.curL E) (E.lower n) := rfl
    rw [hL]
    cases dget (s.curL E) (E.lower n) <;> rfl
  | langKeys =>
    simp only [step, langDescs_eq E hE, Spec.Step]
    refine ⟨⟨rt, _, rt, hw.1.1, ?_⟩, hw⟩
    intro k
    exact (dget_isSome_iff_mem_keys (s.curL E) k).symm
  | clearLangs =>
    simp only [step, Spec.Step]
    refine ⟨⟨rt, ?_⟩, LWF_epsDict E hE, hw.2⟩
    apply Spec.ext
    · funext k; exact dget_epsDict E hE k
    · rfl
    · rfl
    · rfl
  | mmLang n kw =>
    obtain ⟨h1, h2, h3⟩ := mfl_sim E hE s n kw
    simp only [step, Spec.Step]
    rw [← h1]
    exact ⟨⟨rt, rt⟩, WF_of_cur E s _ hw h2 h3⟩
  | langsForFile f =>
    simp only [step, languagesForFile_eq E hE, Spec.Step]
    exact ⟨⟨rt, _, rt, enumerates_cur E s hw f⟩, hw⟩
  | langForFile f =>
    simp only [step, languageForFile_eq E hE, Spec.Step]
    refine ⟨⟨rt, ?_⟩, hw⟩
    have hen := enumerates_cur E s hw f
    generalize hl : ((s.curL E).map (·.2)).filter (patMatches E f) = l at hen
    by_cases hex : ∃ d, Spec.Enumerates E (s.abs E) f [d]
    · obtain ⟨d, hd⟩ := hex
      have := enumerates_single E _ f l d hen hd
      subst this
      exact Or.inl ⟨d, hd, rt⟩
    · refine Or.inr ⟨hex, ?_⟩
      match l, hen with
      | [], _ => rfl
      | [d], hen => exact absurd ⟨d, hen⟩ hex
      | _ :: _ :: _, _ => rfl
  | mmsForFile f =>
    simp only [step, metamodelsForFile, languagesForFile_eq E hE, Spec.Step]
    obtain ⟨h1, h2, h3⟩ := mmLoop_sim E hE (((s.curL E).map (·.2)).filter (patMatches E f)) (s.loadL E)
    refine ⟨⟨_, enumerates_cur E s hw f, ?_⟩, WF_of_cur E s _ hw h2 h3⟩
    rw [abs_loadL] at h1
    rw [← h1]
    exact ⟨rt, rt⟩
  | mmForFile f kw =>
    simp only [step, metamodelForFile, languageForFile_eq E hE, Spec.Step]
    have hen := enumerates_cur E s hw f
    generalize hl : ((s.curL E).map (·.2)).filter (patMatches E f) = l at hen
    by_cases hex : ∃ d, Spec.Enumerates E (s.abs E) f [d]
    · obtain ⟨d, hd⟩ := hex
      have := enumerates_single E _ f l d hen hd
      subst this
      obtain ⟨h1, h2, h3⟩ := mfl_sim E hE (s.loadL E) d.name kw
      rw [abs_loadL] at h1
      simp only
      refine ⟨Or.inl ⟨d, hd, ?_⟩, WF_of_cur E s _ hw h2 h3⟩
      rw [← h1]
      exact ⟨rt, rt⟩
    · have hres : (match l with | [d] => (Out.ok d : Out LangDesc) | _ => .raise .regError) = .raise .regError := by
        match l, hen with
        | [], _ => rfl
        | [d], hen => exact absurd ⟨d, hen⟩ hex
        | _ :: _ :: _, _ => rfl
      rw [hres]
      exact ⟨Or.inr ⟨hex, rt, rt⟩, hw⟩
  | regGen g =>
    simp only [step, registerGenerator, genDescs_eq E hE, Spec.Step]
    have hG : (s.abs E).G (E.lower g.language) (E.lower g.target)
        = gget (s.curG E) (E.lower g.language) (E.lower g.target) := rfl
    cases hr : regGenInto E (s.curG E) g with
    | none =>
      simp only
      exact ⟨Or.inl ⟨by rw [hG]; exact (regGenInto_none_iff E _ g).1 hr, rt, rt⟩, hw⟩
    | some gs' =>
      simp only
      refine ⟨Or.inr ⟨?_, rt, ?_⟩, hw.1, GWF_regGenInto E _ gs' g hw.2 hr⟩
      · rw [hG]
        cases hd : gget (s.curG E) (E.lower g.language) (E.lower g.target) with
        | none => rfl
        | some x =>
          have := (regGenInto_none_iff E (s.curG E) g).2 (by simp [hd])
          rw [hr] at this; cases this
      · apply Spec.ext
        · rfl
        · rfl
        · rfl
        · funext l t
          simp only [St.abs, St.loadG, Option.getD_some]
          exact gget_regGenInto E _ gs' g hr l t
  | gen l t any =>
    have hG : ∀ a b, (s.abs E).G a b = gget (s.curG E) a b := fun _ _ => rfl
    simp only [step, generatorDescription, genDescs_eq E hE, Spec.Step, Spec.generator, hG]
    cases gget (s.curG E) (E.lower l) (E.lower t) with
    | some g => exact ⟨⟨rt, rt⟩, hw⟩
    | none =>
      cases any with
      | false => exact ⟨⟨rt, rt⟩, hw⟩
      | true =>
        simp only [if_true]
        cases gget (s.curG E) "any" (E.lower t) <;> exact ⟨⟨rt, rt⟩, hw⟩
  | genKeys =>
    simp only [step, genDescs_eq E hE, Spec.Step]
    refine ⟨⟨rt, _, rt, gkeysOf_nodup _ hw.2, ?_⟩, hw⟩
    intro l t
    exact mem_gkeysOf _ hw.2 l t
  | clearGens =>
    simp only [step, Spec.Step]
    refine ⟨⟨rt, ?_⟩, hw.1, GWF_gepsDict E hE⟩
    apply Spec.ext
    · rfl
    · rfl
    · rfl
    · funext l t; exact gget_gepsDict E hE l t

/-- histories -/
theorem run_sim (E : Env) (hE : E.Ok) : ∀ (ops : List Op) (s : St), WF E s →
    Spec.Run E (s.abs E) ops (run E s ops).2 ((run E s ops).1.abs E) ∧ WF E (run E s ops).1
  | [], s, hw => ⟨⟨rfl, rfl⟩, hw⟩
  | op :: ops, s, hw => by
    obtain ⟨h1, h2⟩ := step_sim E hE s hw op
    obtain ⟨i1, i2⟩ := run_sim E hE ops (step E s op).1 h2
    exact ⟨⟨_, _, _, rfl, h1, i1⟩, i2⟩

theorem run_append (E : Env) : ∀ (a b : List Op) (s : St),
    run E s (a ++ b) = ((run E (run E s a).1 b).1, (run E s a).2 ++ (run E (run E s a).1 b).2)
  | [], b, s => rfl
  | op :: a, b, s => by
    simp only [List.cons_append, run, run_append E a b]

/-! ## the specification: frame properties and invariants -/

theorem Spec.metamodel_frame (E : Env) (a : Spec) (n : String) (kw : Nat) :
    (Spec.metamodel E a n kw).1.L = a.L ∧ (Spec.metamodel E a n kw).1.G = a.G ∧
    a.serial ≤ (Spec.metamodel E a n kw).1.serial := by
  unfold Spec.metamodel
  simp only
  split
  · exact ⟨rfl, rfl, Nat.le_refl _⟩
  · split
    · exact ⟨rfl, rfl, Nat.le_refl _⟩
    · split
      · exact ⟨rfl, rfl, Nat.le_refl _⟩
      · exact ⟨rfl, rfl, Nat.le_succ _⟩
      · exact ⟨rfl, rfl, Nat.le_refl _⟩
      · exact ⟨rfl, rfl, Nat.le_refl _⟩

/-- a call without keyword arguments never replaces a cached meta-model -/
theorem Spec.metamodel_keep (E : Env) (a : Spec) (n : String) (k : String) (m : MM)
    (h : a.C k = some m) : (Spec.metamodel E a n 0).1.C k = some m := by
  unfold Spec.metamodel
  simp only
  split
  · exact h
  · rename_i hno
    have hne : ¬ k = E.lower n := by
      intro e
      subst e
      exact hno m h rfl
    split
    · exact h
    · split
      · simp only [fupd, hne, if_false]; exact h
      · simp only [fupd, hne, if_false]; exact h
      · exact h
      · exact h

/-- serial numbers handed out so far stay below the counter -/
def Spec.Bound (a : Spec) : Prop := ∀ k i b w, a.C k = some (.made i b w) → i < a.serial

theorem Spec.metamodel_bound (E : Env) (a : Spec) (n : String) (kw : Nat) (hb : a.Bound) :
    (Spec.metamodel E a n kw).1.Bound ∧
    ∀ m, (Spec.metamodel E a n kw).2 = .ok m → ∀ i b w, m = .made i b w → i < (Spec.metamodel E a n kw).1.serial := by
  unfold Spec.metamodel
  simp only
  split
  · rename_i m hc
    refine ⟨hb, ?_⟩
    intro m' hm' i b w e
    simp only [Out.ok.injEq] at hm'
    subst hm'; subst e
    exact hb _ _ _ _ hc
  · split
    · exact ⟨hb, by intro m hm; cases hm⟩
    · split
      · refine ⟨?_, ?_⟩
        · intro k i b w hk
          simp only [fupd] at hk
          split at hk
          · cases hk
          · exact hb k i b w hk
        · intro m hm i b w e
          simp only [Out.ok.injEq] at hm
          subst hm; cases e
      · refine ⟨?_, ?_⟩
        · intro k i b w hk
          simp only [fupd] at hk
          split at hk
          · simp only [Option.some.injEq, MM.made.injEq] at hk
            simp only; omega
          · have := hb k i b w hk
            simp only; omega
        · intro m hm i b w e
          simp only [Out.ok.injEq] at hm
          subst hm
          simp only [MM.made.injEq] at e
          simp only; omega
      · exact ⟨hb, by intro m hm; cases hm⟩
      · exact ⟨hb, by intro m hm; cases hm⟩

theorem Spec.mmLoop_frame (E : Env) : ∀ (ds : List LangDesc) (a : Spec),
    (Spec.mmLoop E a ds).1.L = a.L ∧ (Spec.mmLoop E a ds).1.G = a.G ∧
    a.serial ≤ (Spec.mmLoop E a ds).1.serial ∧
    (∀ k m, a.C k = some m → (Spec.mmLoop E a ds).1.C k = some m) ∧
    (a.Bound → (Spec.mmLoop E a ds).1.Bound ∧
      ∀ ms, (Spec.mmLoop E a ds).2 = .ok ms → ∀ i b w, .made i b w ∈ ms → i < (Spec.mmLoop E a ds).1.serial)
  | [], a => ⟨rfl, rfl, Nat.le_refl _, fun _ _ h => h, fun hb => ⟨hb, by
      intro ms hms i b w hm
      simp only [Spec.mmLoop, Out.ok.injEq] at hms
      subst hms; simp at hm⟩⟩
  | d :: ds, a => by
    obtain ⟨f1, f2, f3⟩ := Spec.metamodel_frame E a d.name 0
    have f4 := Spec.metamodel_keep E a d.name
    have f5 := Spec.metamodel_bound E a d.name 0
    unfold Spec.mmLoop
    cases hr : Spec.metamodel E a d.name 0 with
    | mk a1 o1 =>
      rw [hr] at f1 f2 f3 f4 f5
      simp only at f1 f2 f3 f4 f5 ⊢
      cases o1 with
      | raise r => exact ⟨f1, f2, f3, f4, fun hb => ⟨(f5 hb).1, by intro ms hms; cases hms⟩⟩
      | ok m =>
        obtain ⟨g1, g2, g3, g4, g5⟩ := Spec.mmLoop_frame E ds a1
        simp only
        cases hr2 : Spec.mmLoop E a1 ds with
        | mk a2 o2 =>
          rw [hr2] at g1 g2 g3 g4 g5
          simp only at g1 g2 g3 g4 g5 ⊢
          have hcommon : a2.L = a.L ∧ a2.G = a.G ∧ a.serial ≤ a2.serial ∧
              (∀ k m, a.C k = some m → a2.C k = some m) :=
            ⟨g1.trans f1, g2.trans f2, Nat.le_trans f3 g3, fun k m h => g4 k m (f4 k m h)⟩
          cases o2 with
          | raise r =>
            simp only
            exact ⟨hcommon.1, hcommon.2.1, hcommon.2.2.1, hcommon.2.2.2,
              fun hb => ⟨(g5 (f5 hb).1).1, by intro ms hms; cases hms⟩⟩
          | ok ms =>
            simp only
            refine ⟨hcommon.1, hcommon.2.1, hcommon.2.2.1, hcommon.2.2.2, fun hb => ⟨(g5 (f5 hb).1).1, ?_⟩⟩
            intro ms' hms' i b w hm
            simp only [Out.ok.injEq] at hms'
            subst hms'
            rcases List.mem_cons.1 hm with e | e
            · have := (f5 hb).2 m rfl i b w e.symm
              omega
            · exact (g5 (f5 hb).1).2 ms rfl i b w e

theorem Spec.metamodel_raise (E : Env) (a : Spec) (n : String) (kw : Nat) (r : Res)
    (h : (Spec.metamodel E a n kw).2 = .raise r) : r.mmObjs = [] := by
  unfold Spec.metamodel at h
  simp only at h
  split at h
  · cases h
  · split at h
    · cases h; rfl
    · split at h
      · cases h
      · cases h
      · cases h; rfl
      · cases h; rfl

theorem Spec.mmLoop_raise (E : Env) : ∀ (ds : List LangDesc) (a : Spec) (r : Res),
    (Spec.mmLoop E a ds).2 = .raise r → r.mmObjs = []
  | [], a, r, h => by simp [Spec.mmLoop] at h
  | d :: ds, a, r, h => by
    unfold Spec.mmLoop at h
    cases hr : Spec.metamodel E a d.name 0 with
    | mk a1 o1 =>
      have h1 := Spec.metamodel_raise E a d.name 0
      rw [hr] at h h1
      simp only at h h1
      cases o1 with
      | raise r1 =>
        simp only [Out.raise.injEq] at h
        subst h; exact h1 r1 rfl
      | ok m =>
        simp only at h
        cases hr2 : Spec.mmLoop E a1 ds with
        | mk a2 o2 =>
          have h2 := Spec.mmLoop_raise E ds a1
          rw [hr2] at h h2
          simp only at h h2
          cases o2 with
          | raise r2 =>
            simp only [Out.raise.injEq] at h
            subst h; exact h2 r2 rfl
          | ok ms => cases h

theorem Spec.Step_frame (E : Env) (a a' : Spec) (op : Op) (r : Res) (h : Spec.Step E a op r a') :
    ((∀ d, op ≠ .regLang d) → op ≠ .clearLangs → a'.L = a.L) ∧
    ((∀ g, op ≠ .regGen g) → op ≠ .clearGens → a'.G = a.G) ∧
    a.serial ≤ a'.serial ∧
    (op.keepsCache = true → ∀ k m, a.C k = some m → a'.C k = some m) ∧
    (a.Bound → a'.Bound ∧ ∀ i b w, MM.made i b w ∈ r.mmObjs → i < a'.serial) := by
  have same : ∀ (r : Res), r.mmObjs = [] →
      ((∀ d, op ≠ .regLang d) → op ≠ .clearLangs → a.L = a.L) ∧
      ((∀ g, op ≠ .regGen g) → op ≠ .clearGens → a.G = a.G) ∧
      a.serial ≤ a.serial ∧
      (op.keepsCache = true → ∀ k m, a.C k = some m → a.C k = some m) ∧
      (a.Bound → a.Bound ∧ ∀ i b w, MM.made i b w ∈ r.mmObjs → i < a.serial) := by
    intro r hr
    exact ⟨fun _ _ => rfl, fun _ _ => rfl, Nat.le_refl _, fun _ _ _ h => h,
      fun hb => ⟨hb, by intro i b w hm; rw [hr] at hm; simp at hm⟩⟩
  cases op with
  | regLang d =>
    rcases h with ⟨_, hr, ha⟩ | ⟨_, hr, ha⟩
    · subst ha; subst hr; exact same _ rfl
    · subst ha; subst hr
      exact ⟨fun h => absurd rfl (h d), fun _ _ => rfl, Nat.le_refl _, fun _ _ _ h => h,
        fun hb => ⟨hb, by intro i b w hm; simp [Res.mmObjs] at hm⟩⟩
  | lang n =>
    obtain ⟨ha, hr⟩ := h
    subst ha; subst hr
    apply same
    split <;> rfl
  | langKeys =>
    obtain ⟨ha, ks, hr, _⟩ := h
    subst ha; subst hr; exact same _ rfl
  | clearLangs =>
    obtain ⟨hr, ha⟩ := h
    subst ha; subst hr
    exact ⟨fun _ h => absurd rfl h, fun _ _ => rfl, Nat.le_refl _, fun h => by simp [Op.keepsCache] at h,
      fun _ => ⟨by intro k i b w hk; simp at hk, by intro i b w hm; simp [Res.mmObjs] at hm⟩⟩
  | mmLang n kw =>
    obtain ⟨ha, hr⟩ := h
    subst ha; subst hr
    obtain ⟨f1, f2, f3⟩ := Spec.metamodel_frame E a n kw
    refine ⟨fun _ _ => f1, fun _ _ => f2, f3, ?_, ?_⟩
    · intro hk k m hc
      simp only [Op.keepsCache, beq_iff_eq] at hk
      subst hk
      exact Spec.metamodel_keep E a n k m hc
    · intro hb
      obtain ⟨b1, b2⟩ := Spec.metamodel_bound E a n kw hb
      refine ⟨b1, ?_⟩
      intro i b w hm
      cases ho : (Spec.metamodel E a n kw).2 with
      | raise r =>
        rw [ho] at hm
        simp only [Out.res] at hm
        rw [Spec.metamodel_raise E a n kw r ho] at hm; simp at hm
      | ok m =>
        rw [ho] at hm
        simp only [Out.res, Res.mmObjs, List.mem_singleton] at hm
        exact b2 m ho i b w hm.symm
  | langsForFile f =>
    obtain ⟨ha, ds, hr, _⟩ := h
    subst ha; subst hr; exact same _ rfl
  | langForFile f =>
    obtain ⟨ha, h⟩ := h
    subst ha
    rcases h with ⟨d, _, hr⟩ | ⟨_, hr⟩ <;> (subst hr; exact same _ rfl)
  | mmsForFile f =>
    obtain ⟨ds, _, ha, hr⟩ := h
    subst ha; subst hr
    obtain ⟨g1, g2, g3, g4, g5⟩ := Spec.mmLoop_frame E ds a
    refine ⟨fun _ _ => g1, fun _ _ => g2, g3, fun _ => g4, ?_⟩
    intro hb
    refine ⟨(g5 hb).1, ?_⟩
    intro i b w hm
    cases ho : (Spec.mmLoop E a ds).2 with
    | raise r =>
      rw [ho] at hm
      simp only [Out.res] at hm
      rw [Spec.mmLoop_raise E ds a r ho] at hm; simp at hm
    | ok ms =>
      rw [ho] at hm
      simp only [Out.res, Res.mmObjs] at hm
      exact (g5 hb).2 ms ho i b w hm
  | mmForFile f kw =>
    rcases h with ⟨d, _, ha, hr⟩ | ⟨_, hr, ha⟩
    · subst ha; subst hr
      obtain ⟨f1, f2, f3⟩ := Spec.metamodel_frame E a d.name kw
      refine ⟨fun _ _ => f1, fun _ _ => f2, f3, ?_, ?_⟩
      · intro hk k m hc
        simp only [Op.keepsCache, beq_iff_eq] at hk
        subst hk
        exact Spec.metamodel_keep E a d.name k m hc
      · intro hb
        obtain ⟨b1, b2⟩ := Spec.metamodel_bound E a d.name kw hb
        refine ⟨b1, ?_⟩
        intro i b w hm
        cases ho : (Spec.metamodel E a d.name kw).2 with
        | raise r =>
          rw [ho] at hm
          simp only [Out.res] at hm
          rw [Spec.metamodel_raise E a d.name kw r ho] at hm; simp at hm
        | ok m =>
          rw [ho] at hm
          simp only [Out.res, Res.mmObjs, List.mem_singleton] at hm
          exact b2 m ho i b w hm.symm
    · subst ha; subst hr; exact same _ rfl
  | regGen g =>
    rcases h with ⟨_, hr, ha⟩ | ⟨_, hr, ha⟩
    · subst ha; subst hr; exact same _ rfl
    · subst ha; subst hr
      exact ⟨fun _ _ => rfl, fun h => absurd rfl (h g), Nat.le_refl _, fun _ _ _ h => h,
        fun hb => ⟨hb, by intro i b w hm; simp [Res.mmObjs] at hm⟩⟩
  | gen l t any =>
    obtain ⟨ha, hr⟩ := h
    subst ha; subst hr
    apply same
    split <;> rfl
  | genKeys =>
    obtain ⟨ha, ks, hr, _⟩ := h
    subst ha; subst hr; exact same _ rfl
  | clearGens =>
    obtain ⟨hr, ha⟩ := h
    subst ha; subst hr
    exact ⟨fun _ _ => rfl, fun _ h => absurd rfl h, Nat.le_refl _, fun _ _ _ h => h,
      fun hb => ⟨hb, by intro i b w hm; simp [Res.mmObjs] at hm⟩⟩

/-- a registered language stays registered until the registry is cleared -/
theorem Spec.Step_L_keep (E : Env) (a a' : Spec) (op : Op) (r : Res) (h : Spec.Step E a op r a')
    (hop : op ≠ .clearLangs) (k : String) (d : LangDesc) (hk : a.L k = some d) : a'.L k = some d := by
  by_cases hreg : ∃ d0, op = .regLang d0
  · obtain ⟨d0, rfl⟩ := hreg
    rcases h with ⟨_, _, ha⟩ | ⟨hn, _, ha⟩
    · subst ha; exact hk
    · subst ha
      simp only [fupd]
      have : ¬ k = E.lower d0.name := by intro e; subst e; rw [hn] at hk; cases hk
      simp only [this, if_false]; exact hk
  · have := (Spec.Step_frame E a a' op r h).1 (fun d e => hreg ⟨d, e⟩) hop
    rw [this]; exact hk

theorem Spec.Step_G_keep (E : Env) (a a' : Spec) (op : Op) (r : Res) (h : Spec.Step E a op r a')
    (hop : op ≠ .clearGens) (l t : String) (g : GenDesc) (hk : a.G l t = some g) : a'.G l t = some g := by
  by_cases hreg : ∃ g0, op = .regGen g0
  · obtain ⟨g0, rfl⟩ := hreg
    rcases h with ⟨_, _, ha⟩ | ⟨hn, _, ha⟩
    · subst ha; exact hk
    · subst ha
      simp only
      have : ¬ (l = E.lower g0.language ∧ t = E.lower g0.target) := by
        rintro ⟨e1, e2⟩; subst e1; subst e2; rw [hn] at hk; cases hk
      simp only [this, if_false]; exact hk
  · have := (Spec.Step_frame E a a' op r h).2.1 (fun d e => hreg ⟨d, e⟩) hop
    rw [this]; exact hk

/-! ## the registered set as a function of the history -/

/-- the abstract language map holds exactly the descriptors of `l`, each under its folded name -/
def LiveRel (E : Env) (a : Spec) (l : List LangDesc) : Prop :=
  ∀ k d, a.L k = some d ↔ (d ∈ l ∧ k = E.lower d.name)

def GLiveRel (E : Env) (a : Spec) (l : List GenDesc) : Prop :=
  ∀ x y g, a.G x y = some g ↔ (g ∈ l ∧ x = E.lower g.language ∧ y = E.lower g.target)

theorem epMap_iff (E : Env) (hE : E.Ok) (k : String) (d : LangDesc) :
    epMap E k = some d ↔ (d ∈ E.eps ∧ k = E.lower d.name) := by
  constructor
  · intro h
    obtain ⟨h1, h2⟩ := epMap_some E k d h
    exact ⟨h1, h2.symm⟩
  · rintro ⟨h1, rfl⟩
    exact epMap_self E hE d h1

theorem gepMap_iff (E : Env) (hE : E.Ok) (x y : String) (g : GenDesc) :
    gepMap E x y = some g ↔ (g ∈ E.geps ∧ x = E.lower g.language ∧ y = E.lower g.target) := by
  constructor
  · intro h
    unfold gepMap at h
    have h1 := List.mem_of_find?_eq_some h
    have h2 := List.find?_some h
    simp only [decide_eq_true_eq] at h2
    exact ⟨h1, h2.1.symm, h2.2.symm⟩
  · rintro ⟨h1, rfl, rfl⟩
    exact gepMap_self E hE g h1

theorem LiveRel_init (E : Env) (hE : E.Ok) : LiveRel E (Spec.init E) E.eps :=
  fun k d => epMap_iff E hE k d

theorem GLiveRel_init (E : Env) (hE : E.Ok) : GLiveRel E (Spec.init E) E.geps :=
  fun x y g => gepMap_iff E hE x y g

theorem LiveRel_any (E : Env) (a : Spec) (l : List LangDesc) (hl : LiveRel E a l) (key : String) :
    l.any (fun d' => E.lower d'.name == key) = (a.L key).isSome := by
  cases hk : a.L key with
  | some x =>
    obtain ⟨h1, h2⟩ := (hl key x).1 hk
    simp only [Option.isSome_some, List.any_eq_true, beq_iff_eq]
    exact ⟨x, h1, h2.symm⟩
  | none =>
    simp only [Option.isSome_none, List.any_eq_false, beq_iff_eq]
    intro x hx e
    have := (hl key x).2 ⟨hx, e.symm⟩
    rw [hk] at this; cases this

theorem GLiveRel_any (E : Env) (a : Spec) (l : List GenDesc) (hl : GLiveRel E a l) (x y : String) :
    l.any (fun g' => E.lower g'.language == x && E.lower g'.target == y) = (a.G x y).isSome := by
  cases hk : a.G x y with
  | some g =>
    obtain ⟨h1, h2, h3⟩ := (hl x y g).1 hk
    simp only [Option.isSome_some, List.any_eq_true, Bool.and_eq_true, beq_iff_eq]
    exact ⟨g, h1, h2.symm, h3.symm⟩
  | none =>
    simp only [Option.isSome_none, List.any_eq_false, Bool.and_eq_true, beq_iff_eq, not_and]
    intro g hg e1 e2
    have := (hl x y g).2 ⟨hg, e1.symm, e2.symm⟩
    rw [hk] at this; cases this

theorem LiveRel_step (E : Env) (hE : E.Ok) (a a' : Spec) (op : Op) (r : Res) (l : List LangDesc)
    (h : Spec.Step E a op r a') (hl : LiveRel E a l) : LiveRel E a' (liveStep E l op) := by
  by_cases hreg : ∃ d0, op = .regLang d0
  · obtain ⟨d0, rfl⟩ := hreg
    simp only [liveStep, LiveRel_any E a l hl]
    rcases h with ⟨hs, _, ha⟩ | ⟨hn, _, ha⟩
    · subst ha; simp only [hs, if_true]; exact hl
    · subst ha
      simp only [hn, Option.isSome_none, Bool.false_eq_true, if_false]
      intro k d
      simp only [fupd, List.mem_append, List.mem_singleton]
      by_cases hk : k = E.lower d0.name
      · subst hk
        simp only [if_true, Option.some.injEq]
        constructor
        · intro e; subst e; exact ⟨Or.inr rfl, rfl⟩
        · rintro ⟨hd | hd, e⟩
          · have := (hl _ d).2 ⟨hd, rfl⟩
            rw [← e, hn] at this; cases this
          · exact hd.symm
      · simp only [hk, if_false]
        rw [hl k d]
        constructor
        · rintro ⟨h1, h2⟩; exact ⟨Or.inl h1, h2⟩
        · rintro ⟨h1 | h1, h2⟩
          · exact ⟨h1, h2⟩
          · subst h1; exact absurd h2 hk
  · by_cases hc : op = .clearLangs
    · subst hc
      obtain ⟨_, ha⟩ := h
      subst ha
      exact fun k d => epMap_iff E hE k d
    · have hL := (Spec.Step_frame E a a' op r h).1 (fun d e => hreg ⟨d, e⟩) hc
      have hls : liveStep E l op = l := by
        cases op <;> first | rfl | exact absurd rfl hc | exact absurd ⟨_, rfl⟩ hreg
      rw [hls]
      intro k d; rw [hL]; exact hl k d

theorem GLiveRel_step (E : Env) (hE : E.Ok) (a a' : Spec) (op : Op) (r : Res) (l : List GenDesc)
    (h : Spec.Step E a op r a') (hl : GLiveRel E a l) : GLiveRel E a' (gLiveStep E l op) := by
  by_cases hreg : ∃ g0, op = .regGen g0
  · obtain ⟨g0, rfl⟩ := hreg
    simp only [gLiveStep, GLiveRel_any E a l hl]
    rcases h with ⟨hs, _, ha⟩ | ⟨hn, _, ha⟩
    · subst ha; simp only [hs, if_true]; exact hl
    · subst ha
      simp only [hn, Option.isSome_none, Bool.false_eq_true, if_false]
      intro x y g
      simp only [List.mem_append, List.mem_singleton]
      by_cases hk : x = E.lower g0.language ∧ y = E.lower g0.target
      · obtain ⟨hx, hy⟩ := hk
        subst hx; subst hy
        simp only [and_self, if_true, Option.some.injEq]
        constructor
        · intro e; subst e; exact ⟨Or.inr rfl, rfl, rfl⟩
        · rintro ⟨hd | hd, e1, e2⟩
          · have := (hl _ _ g).2 ⟨hd, rfl, rfl⟩
            rw [← e1, ← e2, hn] at this; cases this
          · exact hd.symm
      · simp only [hk, if_false]
        rw [hl x y g]
        constructor
        · rintro ⟨h1, h2⟩; exact ⟨Or.inl h1, h2⟩
        · rintro ⟨h1 | h1, h2⟩
          · exact ⟨h1, h2⟩
          · subst h1; exact absurd h2 hk
  · by_cases hc : op = .clearGens
    · subst hc
      obtain ⟨_, ha⟩ := h
      subst ha
      exact fun x y g => gepMap_iff E hE x y g
    · have hG := (Spec.Step_frame E a a' op r h).2.1 (fun d e => hreg ⟨d, e⟩) hc
      have hls : gLiveStep E l op = l := by
        cases op <;> first | rfl | exact absurd rfl hc | exact absurd ⟨_, rfl⟩ hreg
      rw [hls]
      intro x y g; rw [hG]; exact hl x y g

/-! ## histories of the specification -/

theorem Spec.Run_live (E : Env) (hE : E.Ok) : ∀ (ops : List Op) (a : Spec) (rs : List Res) (a' : Spec)
    (l : List LangDesc), Spec.Run E a ops rs a' → LiveRel E a l → LiveRel E a' (ops.foldl (liveStep E) l)
  | [], a, rs, a', l, h, hl => by obtain ⟨_, rfl⟩ := h; exact hl
  | op :: ops, a, rs, a', l, h, hl => by
    obtain ⟨r, rs', a1, _, hs, hr⟩ := h
    exact Spec.Run_live E hE ops a1 rs' a' _ hr (LiveRel_step E hE a a1 op r l hs hl)

theorem Spec.Run_glive (E : Env) (hE : E.Ok) : ∀ (ops : List Op) (a : Spec) (rs : List Res) (a' : Spec)
    (l : List GenDesc), Spec.Run E a ops rs a' → GLiveRel E a l → GLiveRel E a' (ops.foldl (gLiveStep E) l)
  | [], a, rs, a', l, h, hl => by obtain ⟨_, rfl⟩ := h; exact hl
  | op :: ops, a, rs, a', l, h, hl => by
    obtain ⟨r, rs', a1, _, hs, hr⟩ := h
    exact Spec.Run_glive E hE ops a1 rs' a' _ hr (GLiveRel_step E hE a a1 op r l hs hl)

theorem Spec.Run_L_keep (E : Env) : ∀ (ops : List Op) (a : Spec) (rs : List Res) (a' : Spec),
    Spec.Run E a ops rs a' → Op.clearLangs ∉ ops → ∀ k d, a.L k = some d → a'.L k = some d
  | [], a, rs, a', h, _, k, d, hk => by obtain ⟨_, rfl⟩ := h; exact hk
  | op :: ops, a, rs, a', h, hnc, k, d, hk => by
    obtain ⟨r, rs', a1, _, hs, hr⟩ := h
    simp only [List.mem_cons, not_or] at hnc
    exact Spec.Run_L_keep E ops a1 rs' a' hr hnc.2 k d
      (Spec.Step_L_keep E a a1 op r hs (fun e => hnc.1 e.symm) k d hk)

theorem Spec.Run_G_keep (E : Env) : ∀ (ops : List Op) (a : Spec) (rs : List Res) (a' : Spec),
    Spec.Run E a ops rs a' → Op.clearGens ∉ ops → ∀ x y g, a.G x y = some g → a'.G x y = some g
  | [], a, rs, a', h, _, x, y, g, hk => by obtain ⟨_, rfl⟩ := h; exact hk
  | op :: ops, a, rs, a', h, hnc, x, y, g, hk => by
    obtain ⟨r, rs', a1, _, hs, hr⟩ := h
    simp only [List.mem_cons, not_or] at hnc
    exact Spec.Run_G_keep E ops a1 rs' a' hr hnc.2 x y g
      (Spec.Step_G_keep E a a1 op r hs (fun e => hnc.1 e.symm) x y g hk)

theorem Spec.Run_C_keep (E : Env) : ∀ (ops : List Op) (a : Spec) (rs : List Res) (a' : Spec),
    Spec.Run E a ops rs a' → (∀ op, op ∈ ops → op.keepsCache = true) →
    ∀ k m, a.C k = some m → a'.C k = some m
  | [], a, rs, a', h, _, k, m, hk => by obtain ⟨_, rfl⟩ := h; exact hk
  | op :: ops, a, rs, a', h, hq, k, m, hk => by
    obtain ⟨r, rs', a1, _, hs, hr⟩ := h
    exact Spec.Run_C_keep E ops a1 rs' a' hr (fun o ho => hq o (List.mem_cons_of_mem _ ho)) k m
      ((Spec.Step_frame E a a1 op r hs).2.2.2.1 (hq op (by simp)) k m hk)

theorem Spec.Run_bound (E : Env) : ∀ (ops : List Op) (a : Spec) (rs : List Res) (a' : Spec),
    Spec.Run E a ops rs a' → a.Bound →
    a'.Bound ∧ a.serial ≤ a'.serial ∧
      ∀ r, r ∈ rs → ∀ i b w, MM.made i b w ∈ r.mmObjs → i < a'.serial
  | [], a, rs, a', h, hb => by
    obtain ⟨rfl, rfl⟩ := h
    exact ⟨hb, Nat.le_refl _, by simp⟩
  | op :: ops, a, rs, a', h, hb => by
    obtain ⟨r, rs', a1, rfl, hs, hr⟩ := h
    obtain ⟨_, _, f3, _, f5⟩ := Spec.Step_frame E a a1 op r hs
    obtain ⟨b1, b2⟩ := f5 hb
    obtain ⟨c1, c2, c3⟩ := Spec.Run_bound E ops a1 rs' a' hr b1
    refine ⟨c1, Nat.le_trans f3 c2, ?_⟩
    intro r0 hr0 i b w hm
    rcases List.mem_cons.1 hr0 with e | e
    · subst e
      have := b2 i b w hm
      omega
    · exact c3 r0 e i b w hm

theorem Spec.init_bound (E : Env) : (Spec.init E).Bound := by
  intro k i b w h; simp [Spec.init] at h

/-! ## reachable states -/

theorem after_sim (E : Env) (hE : E.Ok) (ops : List Op) :
    Spec.Run E (Spec.init E) ops (run E St.init ops).2 ((after E ops).abs E) ∧ WF E (after E ops) := by
  have := run_sim E hE ops St.init (WF_init E hE)
  rw [abs_init E hE] at this
  exact this

theorem after_live (E : Env) (hE : E.Ok) (ops : List Op) : LiveRel E ((after E ops).abs E) (live E ops) :=
  Spec.Run_live E hE ops _ _ _ _ (after_sim E hE ops).1 (LiveRel_init E hE)

theorem after_glive (E : Env) (hE : E.Ok) (ops : List Op) : GLiveRel E ((after E ops).abs E) (gLive E ops) :=
  Spec.Run_glive E hE ops _ _ _ _ (after_sim E hE ops).1 (GLiveRel_init E hE)

theorem after_bound (E : Env) (hE : E.Ok) (ops : List Op) :
    ((after E ops).abs E).Bound ∧
      ∀ r, r ∈ (run E St.init ops).2 → ∀ i b w, MM.made i b w ∈ r.mmObjs → i < (after E ops).serial := by
  obtain ⟨h1, _, h3⟩ := Spec.Run_bound E ops _ _ _ (after_sim E hE ops).1 (Spec.init_bound E)
  exact ⟨h1, h3⟩

theorem after_append (E : Env) (ops ops' : List Op) :
    after E (ops ++ ops') = (run E (after E ops) ops').1 := by
  unfold after; rw [run_append]

theorem after_snoc_cons (E : Env) (ops : List Op) (op : Op) (ops' : List Op) :
    after E (ops ++ op :: ops') = (run E (step E (after E ops) op).1 ops').1 := by
  rw [after_append]; rfl

theorem registered_live (E : Env) (a : Spec) (l : List LangDesc) (hl : LiveRel E a l) (d : LangDesc) :
    a.Registered d ↔ d ∈ l := by
  constructor
  · rintro ⟨k, hk⟩; exact ((hl k d).1 hk).1
  · intro hd; exact ⟨_, (hl _ d).2 ⟨hd, rfl⟩⟩

theorem eps_sub_foldl (E : Env) : ∀ (ops : List Op) (l : List LangDesc),
    (∀ d, d ∈ E.eps → d ∈ l) → ∀ d, d ∈ E.eps → d ∈ ops.foldl (liveStep E) l
  | [], l, h, d, hd => h d hd
  | op :: ops, l, h, d, hd => by
    refine eps_sub_foldl E ops _ ?_ d hd
    intro x hx
    cases op <;> simp only [liveStep] <;> first | exact h x hx | exact hx | skip
    split
    · exact h x hx
    · exact List.mem_append_left _ (h x hx)

theorem eps_sub_live (E : Env) (ops : List Op) (d : LangDesc) (hd : d ∈ E.eps) : d ∈ live E ops :=
  eps_sub_foldl E ops E.eps (fun _ h => h) d hd

theorem geps_sub_foldl (E : Env) : ∀ (ops : List Op) (l : List GenDesc),
    (∀ g, g ∈ E.geps → g ∈ l) → ∀ g, g ∈ E.geps → g ∈ ops.foldl (gLiveStep E) l
  | [], l, h, g, hg => h g hg
  | op :: ops, l, h, g, hg => by
    refine geps_sub_foldl E ops _ ?_ g hg
    intro x hx
    cases op <;> simp only [gLiveStep] <;> first | exact h x hx | exact hx | skip
    split
    · exact h x hx
    · exact List.mem_append_left _ (h x hx)

theorem geps_sub_gLive (E : Env) (ops : List Op) (g : GenDesc) (hg : g ∈ E.geps) : g ∈ gLive E ops :=
  geps_sub_foldl E ops E.geps (fun _ h => h) g hg

theorem Spec.metamodel_fast (E : Env) (a : Spec) (n : String) (m : MM) (hc : a.C (E.lower n) = some m) :
    Spec.metamodel E a n 0 = (a, .ok m) := by
  unfold Spec.metamodel; simp only [hc]

theorem Spec.metamodel_slow (E : Env) (a : Spec) (n : String) (kw : Nat)
    (hno : ∀ m, a.C (E.lower n) = some m → kw = 0 → False) :
    Spec.metamodel E a n kw =
      (match a.L (E.lower n) with
        | none => (a, .raise .regError)
        | some d =>
            match d.mm with
            | .inst u => ({ a with C := fupd a.C (E.lower n) (.given u) }, .ok (.given u))
            | .factory =>
                ({ a with C := fupd a.C (E.lower n) (.made a.serial d.uid kw), serial := a.serial + 1 },
                  .ok (.made a.serial d.uid kw))
            | .badFactory => (a, .raise .regError)
            | .notCallable => (a, .raise .typeError)) := by
  unfold Spec.metamodel
  simp only
  cases hc : a.C (E.lower n) with
  | none => rfl
  | some m =>
    cases kw with
    | zero => exact absurd rfl (hno m hc)
    | succ k => rfl

/-- a successful meta-model request leaves its answer in the cache -/
theorem Spec.metamodel_ok_cached (E : Env) (a : Spec) (n : String) (kw : Nat) (m : MM)
    (h : (Spec.metamodel E a n kw).2 = .ok m) : (Spec.metamodel E a n kw).1.C (E.lower n) = some m := by
  by_cases fast : ∃ m', a.C (E.lower n) = some m' ∧ kw = 0
  · obtain ⟨m', hc, rfl⟩ := fast
    rw [Spec.metamodel_fast E a n m' hc] at h ⊢
    simp only [Out.ok.injEq] at h
    subst h; exact hc
  · have hno : ∀ m, a.C (E.lower n) = some m → kw = 0 → False := fun m h1 h2 => fast ⟨m, h1, h2⟩
    rw [Spec.metamodel_slow E a n kw hno] at h ⊢
    cases hL : a.L (E.lower n) with
    | none => simp only [hL] at h; cases h
    | some d =>
      simp only [hL] at h ⊢
      cases hm : d.mm with
      | inst u =>
        simp only [hm, Out.ok.injEq] at h ⊢
        subst h; simp [fupd]
      | factory =>
        simp only [hm, Out.ok.injEq] at h ⊢
        subst h; simp [fupd]
      | badFactory => simp only [hm] at h; cases h
      | notCallable => simp only [hm] at h; cases h

/-! ## no stale cache -/

/-- every cached meta-model belongs to the language currently registered under its key -/
def Spec.Coh (a : Spec) : Prop := ∀ k m, a.C k = some m → ∃ d, a.L k = some d ∧ Owns d m

theorem Spec.metamodel_coh (E : Env) (a : Spec) (n : String) (kw : Nat) (hc : a.Coh) :
    (Spec.metamodel E a n kw).1.Coh ∧
    ∀ m, (Spec.metamodel E a n kw).2 = .ok m → ∃ d, a.L (E.lower n) = some d ∧ Owns d m := by
  by_cases fast : ∃ m', a.C (E.lower n) = some m' ∧ kw = 0
  · obtain ⟨m', hm', rfl⟩ := fast
    rw [Spec.metamodel_fast E a n m' hm']
    refine ⟨hc, ?_⟩
    intro m hm
    simp only [Out.ok.injEq] at hm
    subst hm
    exact hc _ _ hm'
  · have hno : ∀ m, a.C (E.lower n) = some m → kw = 0 → False := fun m h1 h2 => fast ⟨m, h1, h2⟩
    rw [Spec.metamodel_slow E a n kw hno]
    cases hL : a.L (E.lower n) with
    | none => exact ⟨hc, by intro m hm; cases hm⟩
    | some d =>
      simp only
      cases hm : d.mm with
      | inst u =>
        simp only
        refine ⟨?_, ?_⟩
        · intro k m hk
          simp only [fupd] at hk
          by_cases e : k = E.lower n
          · subst e
            simp only [if_true, Option.some.injEq] at hk
            subst hk
            exact ⟨d, hL, hm⟩
          · simp only [e, if_false] at hk
            exact hc k m hk
        · intro m hm'
          simp only [Out.ok.injEq] at hm'
          subst hm'
          exact ⟨d, rfl, hm⟩
      | factory =>
        simp only
        refine ⟨?_, ?_⟩
        · intro k m hk
          simp only [fupd] at hk
          by_cases e : k = E.lower n
          · subst e
            simp only [if_true, Option.some.injEq] at hk
            subst hk
            exact ⟨d, hL, hm, rfl⟩
          · simp only [e, if_false] at hk
            exact hc k m hk
        · intro m hm'
          simp only [Out.ok.injEq] at hm'
          subst hm'
          exact ⟨d, rfl, hm, rfl⟩
      | badFactory => exact ⟨hc, by intro m hm; cases hm⟩
      | notCallable => exact ⟨hc, by intro m hm; cases hm⟩

theorem Spec.mmLoop_coh (E : Env) : ∀ (ds : List LangDesc) (a : Spec), a.Coh → (Spec.mmLoop E a ds).1.Coh
  | [], a, hc => hc
  | d :: ds, a, hc => by
    have h1 := (Spec.metamodel_coh E a d.name 0 hc).1
    unfold Spec.mmLoop
    cases hr : Spec.metamodel E a d.name 0 with
    | mk a1 o1 =>
      rw [hr] at h1
      simp only at h1 ⊢
      cases o1 with
      | raise r => exact h1
      | ok m =>
        have h2 := Spec.mmLoop_coh E ds a1 h1
        simp only
        cases hr2 : Spec.mmLoop E a1 ds with
        | mk a2 o2 =>
          rw [hr2] at h2
          cases o2 <;> exact h2

theorem Spec.Step_coh (E : Env) (a a' : Spec) (op : Op) (r : Res) (h : Spec.Step E a op r a')
    (hc : a.Coh) : a'.Coh := by
  cases op with
  | regLang d =>
    rcases h with ⟨_, _, ha⟩ | ⟨hn, _, ha⟩
    · subst ha; exact hc
    · subst ha
      intro k m hk
      obtain ⟨d0, h1, h2⟩ := hc k m hk
      refine ⟨d0, ?_, h2⟩
      simp only [fupd]
      have : ¬ k = E.lower d.name := by intro e; subst e; rw [hn] at h1; cases h1
      simp only [this, if_false]; exact h1
  | lang n => obtain ⟨ha, _⟩ := h; subst ha; exact hc
  | langKeys => obtain ⟨ha, _⟩ := h; subst ha; exact hc
  | clearLangs =>
    obtain ⟨_, ha⟩ := h; subst ha
    intro k m hk; cases hk
  | mmLang n kw => obtain ⟨ha, _⟩ := h; subst ha; exact (Spec.metamodel_coh E a n kw hc).1
  | langsForFile f => obtain ⟨ha, _⟩ := h; subst ha; exact hc
  | langForFile f => obtain ⟨ha, _⟩ := h; subst ha; exact hc
  | mmsForFile f => obtain ⟨ds, _, ha, _⟩ := h; subst ha; exact Spec.mmLoop_coh E ds a hc
  | mmForFile f kw =>
    rcases h with ⟨d, _, ha, _⟩ | ⟨_, _, ha⟩
    · subst ha; exact (Spec.metamodel_coh E a d.name kw hc).1
    · subst ha; exact hc
  | regGen g =>
    rcases h with ⟨_, _, ha⟩ | ⟨_, _, ha⟩
    · subst ha; exact hc
    · subst ha; exact hc
  | gen l t any => obtain ⟨ha, _⟩ := h; subst ha; exact hc
  | genKeys => obtain ⟨ha, _⟩ := h; subst ha; exact hc
  | clearGens => obtain ⟨_, ha⟩ := h; subst ha; exact hc

theorem Spec.Run_coh (E : Env) : ∀ (ops : List Op) (a : Spec) (rs : List Res) (a' : Spec),
    Spec.Run E a ops rs a' → a.Coh → a'.Coh
  | [], a, rs, a', h, hc => by obtain ⟨_, rfl⟩ := h; exact hc
  | op :: ops, a, rs, a', h, hc => by
    obtain ⟨r, rs', a1, _, hs, hr⟩ := h
    exact Spec.Run_coh E ops a1 rs' a' hr (Spec.Step_coh E a a1 op r hs hc)

theorem after_coh (E : Env) (hE : E.Ok) (ops : List Op) : ((after E ops).abs E).Coh :=
  Spec.Run_coh E ops _ _ _ (after_sim E hE ops).1 (by intro k m h; cases h)

/-! ## the glob model: a pattern matches itself -/

theorem mem_suffixes_self {α : Type} (t : List α) : t ∈ suffixes t := by
  cases t <;> simp [suffixes]

theorem globMatch_self : ∀ p : List Char, globMatch p p = true
  | [] => rfl
  | c :: cs => by
    unfold globMatch
    by_cases h : (c == '*') = true
    · simp only [h, if_true, List.any_eq_true]
      refine ⟨cs, ?_, globMatch_self cs⟩
      simp only [suffixes, List.mem_cons]
      exact Or.inr (mem_suffixes_self cs)
    · simp only [h, Bool.false_eq_true, if_false, beq_self_eq_true, Bool.or_true, Bool.true_and]
      exact globMatch_self cs

/-! ## the class-aware matcher agrees with the glob model on patterns without `[` -/

theorem matchToks_tokenize_eq_globMatch : ∀ (p : List Char) (n : Nat), p.length ≤ n → '[' ∉ p →
    matchToks (tokenize n p) = globMatch p
  | [], n, _, _ => by
    funext t
    cases n <;> simp [tokenize, matchToks, globMatch]
  | c :: cs, 0, h, _ => by simp at h
  | c :: cs, n + 1, h, hb => by
    have hlen : cs.length ≤ n := by simpa using h
    have hcs : '[' ∉ cs := fun hm => hb (List.mem_cons_of_mem _ hm)
    have hc : (c == '[') = false := by
      cases hq : c == '[' with
      | false => rfl
      | true => exact absurd (by rw [eq_of_beq hq]; exact List.mem_cons_self) hb
    have ih := matchToks_tokenize_eq_globMatch cs n hlen hcs
    funext t
    by_cases h1 : (c == '*') = true
    · simp only [tokenize, h1, if_true, matchToks, globMatch, ih]
    · by_cases h2 : (c == '?') = true
      · simp only [tokenize, h1, h2, Bool.false_eq_true, if_false, if_true, matchToks, globMatch, ih,
          reduceCtorEq]
        cases t with
        | nil => rfl
        | cons x xs => simp [Tok.accepts]
      · simp only [tokenize, h1, h2, hc, Bool.false_eq_true, if_false, matchToks, globMatch, ih,
          reduceCtorEq]
        cases t with
        | nil => rfl
        | cons x xs => simp [Tok.accepts]

theorem fnMatch_eq_globMatch (p t : List Char) (h : '[' ∉ p) : fnMatch p t = globMatch p t := by
  unfold fnMatch
  rw [matchToks_tokenize_eq_globMatch p p.length (Nat.le_refl _) h]

/-! ## the driver's environment satisfies `Env.Ok` -/

theorem toLower_idem (c : Char) : c.toLower.toLower = c.toLower := by
  unfold Char.toLower
  split
  · rename_i h
    split
    · rename_i h2
      exfalso
      simp only [UInt32.le_iff_toNat_le] at h h2
      have := c.val.toNat_lt
      simp at h h2
      omega
    · rfl
  · simp

theorem asciiLower_idem (s : String) : asciiLower (asciiLower s) = asciiLower s := by
  unfold asciiLower
  rw [String.toList_ofList, List.map_map]
  congr 1
  apply List.map_congr_left
  intro c _
  exact toLower_idem c

theorem asciiEnv_ok (eps : List LangDesc) (geps : List GenDesc)
    (h1 : (eps.map (fun d => asciiLower d.name)).Nodup)
    (h2 : (geps.map (fun g => (asciiLower g.language, asciiLower g.target))).Nodup) :
    (asciiEnv eps geps).Ok :=
  ⟨asciiLower_idem, h1, h2⟩

end Reg
