import TextxVerif.Reg
import Mathlib.Data.List.Nodup
/-! Helper lemmas for the registry machine (C26): dictionaries, entry-point
loading, the per-call simulation between `Reg.step` and `Reg.Spec.Step`,
frame and freshness invariants. -/
namespace Reg

/-! ## dictionaries -/

def keys {α : Type} (d : Dict α) : List String := d.map (·.1)

@[simp] theorem dget_nil {α : Type} (k : String) : dget ([] : Dict α) k = none := rfl

theorem dget_dset {α : Type} (d : Dict α) (k : String) (v : α) (k' : String) :
    dget (dset d k v) k' = if k' = k then some v else dget d k' := by
  induction d with
  | nil =>
    simp only [dset, dget]
    by_cases h : k' = k
    · simp [h]
    · have : ¬ k = k' := fun e => h e.symm
      simp [h, this]
  | cons p t ih =>
    obtain ⟨k0, v0⟩ := p
    simp only [dset]
    by_cases h0 : k0 = k
    · subst h0
      simp only [if_true, dget]
      by_cases h : k0 = k'
      · subst h; simp
      · have : ¬ k' = k0 := fun e => h e.symm
        simp [h, this]
    · simp only [h0, if_false, dget]
      by_cases h : k0 = k'
      · subst h; simp [h0]
      · simp only [h, if_false]; exact ih

theorem dget_isSome_iff_mem_keys {α : Type} (d : Dict α) (k : String) :
    (dget d k).isSome = true ↔ k ∈ keys d := by
  induction d with
  | nil => simp [keys]
  | cons p t ih =>
    obtain ⟨k0, v0⟩ := p
    simp only [dget, keys, List.map_cons, List.mem_cons]
    by_cases h : k0 = k
    · subst h; simp
    · have : ¬ k = k0 := fun e => h e.symm
      simp only [h, if_false, this, false_or]
      exact ih

theorem dget_eq_none_iff {α : Type} (d : Dict α) (k : String) :
    dget d k = none ↔ k ∉ keys d := by
  rw [← dget_isSome_iff_mem_keys]
  cases dget d k <;> simp

theorem dget_some_mem {α : Type} (d : Dict α) (k : String) (v : α) (h : dget d k = some v) :
    (k, v) ∈ d := by
  induction d with
  | nil => simp at h
  | cons p t ih =>
    obtain ⟨k0, v0⟩ := p
    simp only [dget] at h
    by_cases h0 : k0 = k
    · subst h0; simp only [if_true, Option.some.injEq] at h; subst h; simp
    · simp only [h0, if_false] at h
      exact List.mem_cons_of_mem _ (ih h)

theorem mem_dget_of_nodup {α : Type} (d : Dict α) (hnd : (keys d).Nodup) (k : String) (v : α)
    (h : (k, v) ∈ d) : dget d k = some v := by
  induction d with
  | nil => simp at h
  | cons p t ih =>
    obtain ⟨k0, v0⟩ := p
    simp only [keys, List.map_cons, List.nodup_cons] at hnd
    simp only [List.mem_cons, Prod.mk.injEq] at h
    simp only [dget]
    rcases h with ⟨hk, hv⟩ | h
    · subst hk; subst hv; simp
    · have hk : k ∈ keys t := List.mem_map.2 ⟨(k, v), h, rfl⟩
      have : ¬ k0 = k := fun e => hnd.1 (e ▸ hk)
      simp only [this, if_false]
      exact ih hnd.2 h

theorem dset_of_none {α : Type} (d : Dict α) (k : String) (v : α) (h : dget d k = none) :
    dset d k v = d ++ [(k, v)] := by
  induction d with
  | nil => rfl
  | cons p t ih =>
    obtain ⟨k0, v0⟩ := p
    simp only [dget] at h
    by_cases h0 : k0 = k
    · simp [h0] at h
    · simp only [h0, if_false] at h
      simp [dset, h0, ih h]

theorem keys_dset_of_some {α : Type} (d : Dict α) (k : String) (v : α) (h : (dget d k).isSome = true) :
    keys (dset d k v) = keys d := by
  induction d with
  | nil => simp at h
  | cons p t ih =>
    obtain ⟨k0, v0⟩ := p
    simp only [dget] at h
    by_cases h0 : k0 = k
    · simp [dset, h0, keys]
    · simp only [h0, if_false] at h
      have := ih h
      simp only [keys] at this
      simp [dset, h0, keys, this]

theorem keys_nodup_dset {α : Type} (d : Dict α) (k : String) (v : α) (hnd : (keys d).Nodup) :
    (keys (dset d k v)).Nodup := by
  cases h : dget d k with
  | none =>
    rw [dset_of_none d k v h]
    simp only [keys, List.map_append, List.map_cons, List.map_nil]
    rw [List.nodup_append]
    refine ⟨hnd, by simp, ?_⟩
    intro a ha b hb
    simp only [List.mem_singleton] at hb
    subst hb
    intro e
    subst e
    exact (dget_eq_none_iff d a).1 h ha
  | some x =>
    rw [keys_dset_of_some d k v (by simp [h])]
    exact hnd

theorem mem_dset {α : Type} (d : Dict α) (k : String) (v : α) (p : String × α) (h : p ∈ dset d k v) :
    p = (k, v) ∨ p ∈ d := by
  induction d with
  | nil => simp only [dset, List.mem_singleton] at h; exact Or.inl h
  | cons q t ih =>
    obtain ⟨k0, v0⟩ := q
    simp only [dset] at h
    by_cases h0 : k0 = k
    · simp only [h0, if_true, List.mem_cons] at h
      rcases h with h | h
      · exact Or.inl h
      · exact Or.inr (List.mem_cons_of_mem _ h)
    · simp only [h0, if_false, List.mem_cons] at h
      rcases h with h | h
      · subst h; exact Or.inr (by simp)
      · rcases ih h with e | e
        · exact Or.inl e
        · exact Or.inr (List.mem_cons_of_mem _ e)

/-! ## well-formed registries -/

/-- language dict: distinct keys, every key is the lower-cased name of its descriptor -/
def LWF (E : Env) (ls : Dict LangDesc) : Prop :=
  (keys ls).Nodup ∧ ∀ p, p ∈ ls → p.1 = E.lower p.2.name

/-- generator dict: distinct keys on both levels -/
def GWF (gs : Dict (Dict GenDesc)) : Prop :=
  (keys gs).Nodup ∧ ∀ p, p ∈ gs → (keys p.2).Nodup

/-- the language dict an API call works on (loaded on demand) -/
def St.curL (E : Env) (s : St) : Dict LangDesc := s.langs.getD (epsDict E)
/-- the generator dict an API call works on (loaded on demand) -/
def St.curG (E : Env) (s : St) : Dict (Dict GenDesc) := s.gens.getD (gepsDict E)

def WF (E : Env) (s : St) : Prop := LWF E (s.curL E) ∧ GWF (s.curG E)

theorem LWF_nil (E : Env) : LWF E [] := ⟨by simp [keys], by simp⟩

theorem LWF_dset (E : Env) (ls : Dict LangDesc) (d : LangDesc) (h : LWF E ls) :
    LWF E (dset ls (E.lower d.name) d) := by
  refine ⟨keys_nodup_dset _ _ _ h.1, ?_⟩
  intro p hp
  rcases mem_dset _ _ _ _ hp with e | e
  · subst e; rfl
  · exact h.2 p e

/-- in a well-formed language dict, the descriptors are pairwise distinct -/
theorem LWF_vals_nodup (E : Env) (ls : Dict LangDesc) (h : LWF E ls) : (ls.map (·.2)).Nodup := by
  have hnd : ls.Nodup := List.Nodup.of_map _ h.1
  refine List.Nodup.map_on ?_ hnd
  intro x hx y hy hxy
  have hx1 := h.2 x hx
  have hy1 := h.2 y hy
  exact Prod.ext (by rw [hx1, hy1, hxy]) hxy

theorem LWF_registered (E : Env) (ls : Dict LangDesc) (h : LWF E ls) (d : LangDesc) :
    (∃ k, dget ls k = some d) ↔ d ∈ ls.map (·.2) := by
  constructor
  · rintro ⟨k, hk⟩
    exact List.mem_map.2 ⟨(k, d), dget_some_mem _ _ _ hk, rfl⟩
  · intro hd
    obtain ⟨p, hp, rfl⟩ := List.mem_map.1 hd
    exact ⟨p.1, mem_dget_of_nodup ls h.1 p.1 p.2 hp⟩

theorem LWF_key (E : Env) (ls : Dict LangDesc) (h : LWF E ls) (k : String) (d : LangDesc)
    (hk : dget ls k = some d) : k = E.lower d.name :=
  h.2 (k, d) (dget_some_mem _ _ _ hk)

/-! ## loading the entry points -/

theorem loadLangs_ok (E : Env) : ∀ (eps : List LangDesc) (acc : Dict LangDesc),
    (eps.map (fun d => E.lower d.name)).Nodup →
    (∀ d, d ∈ eps → dget acc (E.lower d.name) = none) →
    loadLangs E eps acc = (acc ++ eps.map (fun d => (E.lower d.name, d)), true)
  | [], acc, _, _ => by simp [loadLangs]
  | d :: rest, acc, hnd, hdis => by
    simp only [List.map_cons, List.nodup_cons] at hnd
    have h0 : dget acc (E.lower d.name) = none := hdis d (by simp)
    simp only [loadLangs, h0, Option.isSome_none, Bool.false_eq_true, if_false]
    rw [loadLangs_ok E rest _ hnd.2]
    · rw [dset_of_none _ _ _ h0]; simp
    · intro d' hd'
      rw [dget_dset]
      have hne : ¬ E.lower d'.name = E.lower d.name := by
        intro e
        exact hnd.1 (List.mem_map.2 ⟨d', hd', e⟩)
      simp only [hne, if_false]
      exact hdis d' (by simp [hd'])

theorem epsDict_eq (E : Env) (hE : E.Ok) : epsDict E = E.eps.map (fun d => (E.lower d.name, d)) := by
  unfold epsDict
  rw [loadLangs_ok E E.eps [] hE.eps_nodup (by simp)]
  simp

theorem loadLangs_eps (E : Env) (hE : E.Ok) : loadLangs E E.eps [] = (epsDict E, true) := by
  rw [epsDict_eq E hE, loadLangs_ok E E.eps [] hE.eps_nodup (by simp)]
  simp

theorem dget_map_key (E : Env) (l : List LangDesc) (k : String) :
    dget (l.map (fun d => (E.lower d.name, d))) k = l.find? (fun d => E.lower d.name = k) := by
  induction l with
  | nil => rfl
  | cons d t ih =>
    simp only [List.map_cons, dget, List.find?_cons]
    by_cases h : E.lower d.name = k
    · simp [h]
    · simp [h, ih]

theorem dget_epsDict (E : Env) (hE : E.Ok) (k : String) : dget (epsDict E) k = epMap E k := by
  rw [epsDict_eq E hE, dget_map_key]; rfl

theorem LWF_epsDict (E : Env) (hE : E.Ok) : LWF E (epsDict E) := by
  rw [epsDict_eq E hE]
  refine ⟨?_, ?_⟩
  · simp only [keys, List.map_map]
    exact hE.eps_nodup
  · intro p hp
    obtain ⟨d, _, rfl⟩ := List.mem_map.1 hp
    rfl

/-- an entry point is found under its own key -/
theorem epMap_self (E : Env) (hE : E.Ok) (d : LangDesc) (hd : d ∈ E.eps) :
    epMap E (E.lower d.name) = some d := by
  rw [← dget_epsDict E hE]
  apply mem_dget_of_nodup _ (LWF_epsDict E hE).1
  rw [epsDict_eq E hE]
  exact List.mem_map.2 ⟨d, hd, rfl⟩

theorem epMap_some (E : Env) (k : String) (d : LangDesc) (h : epMap E k = some d) :
    d ∈ E.eps ∧ E.lower d.name = k := by
  unfold epMap at h
  have h1 := List.mem_of_find?_eq_some h
  have h2 := List.find?_some h
  exact ⟨h1, by simpa using h2⟩

/-! ## generators: the two-level dict -/

theorem GWF_nil : GWF [] := ⟨by simp [keys], by simp⟩

theorem regGenInto_none_iff (E : Env) (gs : Dict (Dict GenDesc)) (g : GenDesc) :
    regGenInto E gs g = none ↔ (gget gs (E.lower g.language) (E.lower g.target)).isSome = true := by
  unfold regGenInto gget
  cases h : dget gs (E.lower g.language) with
  | none => simp [h]
  | some lg =>
    simp only [h, Option.getD_some, Option.bind_some]
    cases h2 : dget lg (E.lower g.target) <;> simp

theorem gget_regGenInto (E : Env) (gs gs' : Dict (Dict GenDesc)) (g : GenDesc)
    (h : regGenInto E gs g = some gs') (l t : String) :
    gget gs' l t = if l = E.lower g.language ∧ t = E.lower g.target then some g else gget gs l t := by
  unfold regGenInto at h
  simp only at h
  split at h
  · simp at h
  · simp only [Option.some.injEq] at h
    subst h
    unfold gget
    rw [dget_dset]
    by_cases hl : l = E.lower g.language
    · subst hl
      simp only [if_true, Option.bind_some, dget_dset, true_and]
      by_cases ht : t = E.lower g.target
      · simp [ht]
      · simp only [ht, if_false]
        cases dget gs (E.lower g.language) <;> simp
    · simp [hl]

theorem GWF_regGenInto (E : Env) (gs gs' : Dict (Dict GenDesc)) (g : GenDesc)
    (hw : GWF gs) (h : regGenInto E gs g = some gs') : GWF gs' := by
  unfold regGenInto at h
  simp only at h
  split at h
  · simp at h
  · simp only [Option.some.injEq] at h
    subst h
    refine ⟨keys_nodup_dset _ _ _ hw.1, ?_⟩
    intro p hp
    rcases mem_dset _ _ _ _ hp with e | e
    · subst e
      apply keys_nodup_dset
      cases hd : dget gs (E.lower g.language) with
      | none => simp [keys]
      | some lg => exact hw.2 _ (dget_some_mem _ _ _ hd)
    · exact hw.2 p e

theorem loadGens_ok (E : Env) : ∀ (geps : List GenDesc) (acc : Dict (Dict GenDesc)),
    (geps.map (fun g => (E.lower g.language, E.lower g.target))).Nodup →
    (∀ g, g ∈ geps → gget acc (E.lower g.language) (E.lower g.target) = none) →
    GWF acc →
    (loadGens E geps acc).2 = true ∧ GWF (loadGens E geps acc).1 ∧
    ∀ l t, gget (loadGens E geps acc).1 l t =
      match geps.find? (fun g => E.lower g.language = l ∧ E.lower g.target = t) with
      | some g => some g
      | none => gget acc l t
  | [], acc, _, _, hw => by simp [loadGens, hw]
  | g :: rest, acc, hnd, hdis, hw => by
    simp only [List.map_cons, List.nodup_cons] at hnd
    have h0 := hdis g (by simp)
    cases hr : regGenInto E acc g with
    | none =>
      have := (regGenInto_none_iff E acc g).1 hr
      simp [h0] at this
    | some acc' =>
      simp only [loadGens, hr]
      have hg := gget_regGenInto E acc acc' g hr
      have ih := loadGens_ok E rest acc' hnd.2 (by
        intro g' hg'
        rw [hg]
        have hne : ¬ (E.lower g'.language = E.lower g.language ∧ E.lower g'.target = E.lower g.target) := by
          rintro ⟨e1, e2⟩
          exact hnd.1 (List.mem_map.2 ⟨g', hg', by simp [e1, e2]⟩)
        simp only [hne, if_false]
        exact hdis g' (by simp [hg'])) (GWF_regGenInto E acc acc' g hw hr)
      refine ⟨ih.1, ih.2.1, ?_⟩
      intro l t
      rw [ih.2.2 l t, List.find?_cons]
      by_cases hlt : E.lower g.language = l ∧ E.lower g.target = t
      · have hnone : rest.find? (fun g => decide (E.lower g.language = l ∧ E.lower g.target = t)) = none := by
          rw [List.find?_eq_none]
          intro x hx hp
          simp only [decide_eq_true_eq] at hp
          exact hnd.1 (List.mem_map.2 ⟨x, hx, by simp [hp.1, hp.2, hlt.1, hlt.2]⟩)
        rw [hnone]
        simp only [hlt, and_self, decide_true]
        rw [hg]
        simp [hlt.1.symm, hlt.2.symm]
      · simp only [hlt, decide_false]
        cases rest.find? (fun g => decide (E.lower g.language = l ∧ E.lower g.target = t)) with
        | some x => rfl
        | none =>
          simp only
          rw [hg]
          have : ¬ (l = E.lower g.language ∧ t = E.lower g.target) := fun ⟨a, b⟩ => hlt ⟨a.symm, b.symm⟩
          simp [this]

theorem loadGens_geps (E : Env) (hE : E.Ok) : loadGens E E.geps [] = (gepsDict E, true) := by
  have := (loadGens_ok E E.geps [] hE.geps_nodup (by simp [gget]) GWF_nil).1
  exact Prod.ext rfl this

theorem GWF_gepsDict (E : Env) (hE : E.Ok) : GWF (gepsDict E) :=
  (loadGens_ok E E.geps [] hE.geps_nodup (by simp [gget]) GWF_nil).2.1

theorem gget_gepsDict (E : Env) (hE : E.Ok) (l t : String) : gget (gepsDict E) l t = gepMap E l t := by
  have := (loadGens_ok E E.geps [] hE.geps_nodup (by simp [gget]) GWF_nil).2.2 l t
  unfold gepsDict
  rw [this]
  unfold gepMap
  cases E.geps.find? (fun g => decide (E.lower g.language = l ∧ E.lower g.target = t)) <;> simp [gget]

theorem gepMap_self (E : Env) (hE : E.Ok) (g : GenDesc) (hg : g ∈ E.geps) :
    gepMap E (E.lower g.language) (E.lower g.target) = some g := by
  unfold gepMap
  have hnd := hE.geps_nodup
  revert hnd hg
  generalize E.geps = l
  induction l with
  | nil => intro hg; simp at hg
  | cons x t ih =>
    intro hg hnd
    simp only [List.map_cons, List.nodup_cons] at hnd
    rw [List.find?_cons]
    by_cases hx : E.lower x.language = E.lower g.language ∧ E.lower x.target = E.lower g.target
    · simp only [hx, and_self, decide_true]
      rcases List.mem_cons.1 hg with e | e
      · rw [e]
      · exfalso
        exact hnd.1 (List.mem_map.2 ⟨g, e, by simp [hx.1, hx.2]⟩)
    · simp only [hx, decide_false]
      rcases List.mem_cons.1 hg with e | e
      · subst e; simp at hx
      · exact ih e hnd.2

theorem mem_gkeysOf (gs : Dict (Dict GenDesc)) (hw : GWF gs) (l t : String) :
    (l, t) ∈ gkeysOf gs ↔ (gget gs l t).isSome = true := by
  unfold gkeysOf gget
  simp only [List.mem_flatMap, List.mem_map, Prod.mk.injEq]
  constructor
  · rintro ⟨p, hp, q, hq, rfl, rfl⟩
    rw [mem_dget_of_nodup gs hw.1 p.1 p.2 hp]
    simp only [Option.bind_some]
    rw [mem_dget_of_nodup p.2 (hw.2 p hp) q.1 q.2 hq]
    rfl
  · intro h
    cases h1 : dget gs l with
    | none => simp [h1] at h
    | some lg =>
      simp only [h1, Option.bind_some] at h
      cases h2 : dget lg t with
      | none => simp [h2] at h
      | some g =>
        exact ⟨(l, lg), dget_some_mem _ _ _ h1, (t, g), dget_some_mem _ _ _ h2, rfl, rfl⟩

theorem gkeysOf_nodup (gs : Dict (Dict GenDesc)) (hw : GWF gs) : (gkeysOf gs).Nodup := by
  unfold gkeysOf
  rw [List.nodup_flatMap]
  constructor
  · intro p hp
    have := hw.2 p hp
    unfold keys at this
    refine List.Nodup.map_on ?_ (List.Nodup.of_map _ this)
    intro x hx y hy hxy
    simp only [Prod.mk.injEq, true_and] at hxy
    have hx' := mem_dget_of_nodup p.2 (hw.2 p hp) x.1 x.2 hx
    have hy' := mem_dget_of_nodup p.2 (hw.2 p hp) y.1 y.2 hy
    rw [hxy] at hx'
    rw [hx'] at hy'
    exact Prod.ext hxy (Option.some.inj hy')
  · have h1 := List.pairwise_map.1 (show List.Pairwise (· ≠ ·) (gs.map (·.1)) from hw.1)
    refine h1.imp ?_
    intro a b hab
    simp only [Function.onFun]
    intro x hxa hxb
    obtain ⟨_, _, rfl⟩ := List.mem_map.1 hxa
    obtain ⟨_, _, e⟩ := List.mem_map.1 hxb
    simp only [Prod.mk.injEq] at e
    exact hab e.1.symm

/-! ## simulation: one call of the machine is one step of the specification -/

/-- the state after the lazy load of the language registry -/
def St.loadL (E : Env) (s : St) : St := { s with langs := some (s.curL E) }
/-- the state after the lazy load of the generator registry -/
def St.loadG (E : Env) (s : St) : St := { s with gens := some (s.curG E) }

theorem WF_init (E : Env) (hE : E.Ok) : WF E St.init :=
  ⟨LWF_epsDict E hE, GWF_gepsDict E hE⟩

theorem abs_init (E : Env) (hE : E.Ok) : St.init.abs E = Spec.init E := by
  apply Spec.ext
  · funext k; exact dget_epsDict E hE k
  · rfl
  · rfl
  · funext l t; exact gget_gepsDict E hE l t

theorem langDescs_eq (E : Env) (hE : E.Ok) (s : St) :
    langDescs E s = (s.loadL E, s.curL E, true) := by
  unfold langDescs St.loadL St.curL
  cases s with
  | mk langs cache serial gens =>
    cases langs with
    | some ls => rfl
    | none => simp [loadLangs_eps E hE]

theorem genDescs_eq (E : Env) (hE : E.Ok) (s : St) :
    genDescs E s = (s.loadG E, s.curG E, true) := by
  unfold genDescs St.loadG St.curG
  cases s with
  | mk langs cache serial gens =>
    cases gens with
    | some gs => rfl
    | none => simp [loadGens_geps E hE]

@[simp] theorem abs_loadL (E : Env) (s : St) : (s.loadL E).abs E = s.abs E := rfl
@[simp] theorem abs_loadG (E : Env) (s : St) : (s.loadG E).abs E = s.abs E := rfl
@[simp] theorem curL_loadL (E : Env) (s : St) : (s.loadL E).curL E = s.curL E := rfl
@[simp] theorem curG_loadL (E : Env) (s : St) : (s.loadL E).curG E = s.curG E := rfl
@[simp] theorem curL_loadG (E : Env) (s : St) : (s.loadG E).curL E = s.curL E := rfl
@[simp] theorem curG_loadG (E : Env) (s : St) : (s.loadG E).curG E = s.curG E := rfl

theorem languageDescription_eq (E : Env) (hE : E.Ok) (s : St) (n : String) :
    languageDescription E s n =
      (s.loadL E, match dget (s.curL E) (E.lower n) with
                  | none => .raise .regError
                  | some d => .ok d) := by
  unfold languageDescription
  simp only [langDescs_eq E hE]
  cases dget (s.curL E) (E.lower n) <;> rfl

/-- `metamodel_for_language` against the cache protocol of the specification -/
theorem mfl_sim (E : Env) (hE : E.Ok) (s : St) (n : String) (kw : Nat) :
    ((metamodelForLanguage E s n kw).1.abs E, (metamodelForLanguage E s n kw).2)
        = Spec.metamodel E (s.abs E) n kw ∧
      (metamodelForLanguage E s n kw).1.curL E = s.curL E ∧
      (metamodelForLanguage E s n kw).1.curG E = s.curG E := by
  have key : ∀ (c : Option MM), c = dget s.cache (E.lower n) →
      (¬ (∃ m, c = some m ∧ kw = 0)) →
      ((metamodelForLanguage E s n kw).1.abs E, (metamodelForLanguage E s n kw).2)
        = Spec.metamodel E (s.abs E) n kw ∧
      (metamodelForLanguage E s n kw).1.curL E = s.curL E ∧
      (metamodelForLanguage E s n kw).1.curG E = s.curG E := by
    intro c hc hno
    have hm : metamodelForLanguage E s n kw =
        (match languageDescription E s (E.lower n) with
          | (s, .raise r) => (s, .raise r)
          | (s, .ok d) =>
              match d.mm with
              | .inst u => ({ s with cache := dset s.cache (E.lower n) (.given u) }, .ok (.given u))
              | .factory =>
                  ({ s with cache := dset s.cache (E.lower n) (.made s.serial d.uid kw), serial := s.serial + 1 },
                    .ok (.made s.serial d.uid kw))
              | .badFactory => (s, .raise .regError)
              | .notCallable => (s, .raise .typeError)) := by
      unfold metamodelForLanguage
      simp only
      split
      · rename_i m h1
        exact absurd ⟨m, by rw [hc, h1], rfl⟩ hno
      · rfl
    have hs : Spec.metamodel E (s.abs E) n kw =
        (match (s.abs E).L (E.lower n) with
          | none => (s.abs E, .raise .regError)
          | some d =>
              match d.mm with
              | .inst u => ({ s.abs E with C := fupd (s.abs E).C (E.lower n) (.given u) }, .ok (.given u))
              | .factory =>
                  ({ s.abs E with C := fupd (s.abs E).C (E.lower n) (.made (s.abs E).serial d.uid kw),
                                  serial := (s.abs E).serial + 1 },
                    .ok (.made (s.abs E).serial d.uid kw))
              | .badFactory => (s.abs E, .raise .regError)
              | .notCallable => (s.abs E, .raise .typeError)) := by
      unfold Spec.metamodel
      have : (s.abs E).C (E.lower n) = dget s.cache (E.lower n) := rfl
      simp only [this]
      split
      · rename_i m h1
        exact absurd ⟨m, by rw [hc, h1], rfl⟩ hno
      · rfl
    rw [hm, hs, languageDescription_eq E hE, hE.lower_idem]
    have hL : (s.abs E).L (E.lower n) = dget (s.curL E) (E.lower n) := rfl
    rw [hL]
    cases hd : dget (s.curL E) (E.lower n) with
    | none => exact ⟨rfl, rfl, rfl⟩
    | some d =>
      simp only
      cases hmm : d.mm with
      | inst u =>
        refine ⟨?_, rfl, rfl⟩
        simp only [Prod.mk.injEq, and_true]
        apply Spec.ext
        · rfl
        · funext k; simp only [St.abs, St.loadL, fupd]; exact dget_dset _ _ _ _
        · rfl
        · rfl
      | factory =>
        refine ⟨?_, rfl, rfl⟩
        have : (s.loadL E).serial = (s.abs E).serial := rfl
        simp only [this, Prod.mk.injEq, and_true]
        apply Spec.ext
        · rfl
        · funext k; simp only [St.abs, St.loadL, fupd]; exact dget_dset _ _ _ _
        · rfl
        · rfl
      | badFactory => exact ⟨rfl, rfl, rfl⟩
      | notCallable => exact ⟨rfl, rfl, rfl⟩
  cases hc : dget s.cache (E.lower n) with
  | none => exact key none hc.symm (by rintro ⟨m, h, _⟩; cases h)
  | some m =>
    cases kw with
    | succ k => exact key (some m) hc.symm (by rintro ⟨_, _, h⟩; cases h)
    | zero =>
      have hm : metamodelForLanguage E s n 0 = (s, .ok m) := by
        unfold metamodelForLanguage; simp only [hc]
      have hs : Spec.metamodel E (s.abs E) n 0 = (s.abs E, .ok m) := by
        unfold Spec.metamodel
        have : (s.abs E).C (E.lower n) = dget s.cache (E.lower n) := rfl
        simp only [this, hc]
      rw [hm, hs]
      exact ⟨rfl, rfl, rfl⟩

theorem mmLoop_sim (E : Env) (hE : E.Ok) : ∀ (ds : List LangDesc) (s : St),
    ((mmLoop E s ds).1.abs E, (mmLoop E s ds).2) = Spec.mmLoop E (s.abs E) ds ∧
      (mmLoop E s ds).1.curL E = s.curL E ∧ (mmLoop E s ds).1.curG E = s.curG E
  | [], s => ⟨rfl, rfl, rfl⟩
  | d :: ds, s => by
    obtain ⟨h1, h2, h3⟩ := mfl_sim E hE s d.name 0
    unfold mmLoop Spec.mmLoop
    rw [← h1]
    cases hr : metamodelForLanguage E s d.name 0 with
    | mk s1 o1 =>
      rw [hr] at h2 h3
      simp only at h2 h3 ⊢
      cases o1 with
      | raise r => exact ⟨rfl, h2, h3⟩
      | ok m =>
        obtain ⟨i1, i2, i3⟩ := mmLoop_sim E hE ds s1
        simp only
        rw [← i1]
        cases hr2 : mmLoop E s1 ds with
        | mk s2 o2 =>
          rw [hr2] at i2 i3
          simp only at i2 i3 ⊢
          cases o2 with
          | raise r => exact ⟨rfl, i2.trans h2, i3.trans h3⟩
          | ok ms => exact ⟨rfl, i2.trans h2, i3.trans h3⟩

theorem registered_iff (E : Env) (s : St) (hw : WF E s) (d : LangDesc) :
    (s.abs E).Registered d ↔ d ∈ (s.curL E).map (·.2) :=
  LWF_registered E (s.curL E) hw.1 d

theorem enumerates_cur (E : Env) (s : St) (hw : WF E s) (f : String) :
    Spec.Enumerates E (s.abs E) f (((s.curL E).map (·.2)).filter (patMatches E f)) := by
  refine ⟨(LWF_vals_nodup E _ hw.1).filter _, ?_⟩
  intro d
  rw [List.mem_filter, registered_iff E s hw]

theorem enumerates_single (E : Env) (a : Spec) (f : String) (ds : List LangDesc) (d : LangDesc)
    (h1 : Spec.Enumerates E a f ds) (h2 : Spec.Enumerates E a f [d]) : ds = [d] := by
  have hmem : ∀ x, x ∈ ds ↔ x = d := by
    intro x
    rw [h1.2 x, ← h2.2 x]; simp
  have hd : d ∈ ds := (hmem d).2 rfl
  match ds, h1.1, hmem, hd with
  | [x], _, hmem, _ => rw [(hmem x).1 (by simp)]
  | x :: y :: t, hnd, hmem, _ =>
    have hx := (hmem x).1 (by simp)
    have hy := (hmem y).1 (by simp)
    simp only [List.nodup_cons, List.mem_cons] at hnd
    exact absurd (Or.inl (hx.trans hy.symm)) hnd.1

theorem languagesForFile_eq (E : Env) (hE : E.Ok) (s : St) (f : String) :
    languagesForFile E s f = (s.loadL E, .ok (((s.curL E).map (·.2)).filter (patMatches E f))) := by
  unfold languagesForFile
  simp only [langDescs_eq E hE]

theorem languageForFile_eq (E : Env) (hE : E.Ok) (s : St) (f : String) :
    languageForFile E s f =
      (s.loadL E, match ((s.curL E).map (·.2)).filter (patMatches E f) with
                  | [d] => .ok d
                  | _ => .raise .regError) := by
  unfold languageForFile
  rw [languagesForFile_eq E hE]
  generalize ((s.curL E).map (·.2)).filter (patMatches E f) = l
  match l with
  | [] => rfl
  | [_] => rfl
  | _ :: _ :: _ => rfl

theorem WF_loadL (E : Env) (s : St) (hw : WF E s) : WF E (s.loadL E) := hw
theorem WF_loadG (E : Env) (s : St) (hw : WF E s) : WF E (s.loadG E) := hw

theorem WF_of_cur (E : Env) (s s' : St) (hw : WF E s) (h1 : s'.curL E = s.curL E)
    (h2 : s'.curG E = s.curG E) : WF E s' := by
  unfold WF; rw [h1, h2]; exact hw

/-- **Simulation.** From a well-formed state, a call of the machine is a step
of the specification between the abstractions, and well-formedness is kept. -/
local macro "rt" : term => `(by first | rfl | trivial)

theorem step_sim (E : Env) (hE : E.Ok) (s : St) (hw : WF E s) (op : Op) :
    Spec.Step E (s.abs E) op (step E s op).2 ((step E s op).1.abs E) ∧ WF E (step E s op).1 := by
  cases op with
  | regLang d =>
    simp only [step, registerLanguage, langDescs_eq E hE, Spec.Step]
    have hL : (s.abs E).L (E.lower d.name) = dget (s.curL E) (E.lower d.name) := rfl
    by_cases h : (dget (s.curL E) (E.lower d.name)).isSome = true
    · simp only [h, if_true]
      exact ⟨Or.inl ⟨by rw [hL]; exact h, rt, rt⟩, hw⟩
    · simp only [h]
      refine ⟨Or.inr ⟨?_, rt, ?_⟩, ?_⟩
      · rw [hL]; cases hd : dget (s.curL E) (E.lower d.name) with
        | none => rfl
        | some x => simp [hd] at h
      · apply Spec.ext
        · funext k; simp only [St.abs, St.loadL, fupd]; exact dget_dset _ _ _ _
        · rfl
        · rfl
        · rfl
      · exact ⟨LWF_dset E _ d hw.1, hw.2⟩
  | lang n =>
    simp only [step, languageDescription_eq E hE, Spec.Step]
    refine ⟨⟨rt, ?_⟩, hw⟩
    have hL : (s.abs E).L (E.lower n) = dget (s.curL E) (E.lower n) := rfl
    rw [hL]
    cases dget (s.curL E) (E.lower n) <;> rfl
  | langKeys =>
    simp only [step, langDescs_eq E hE, Spec.Step]
    refine ⟨⟨rt, _, rt, hw.1.1, ?_⟩, hw⟩
    intro k
    exact (dget_isSome_iff_mem_keys (s.curL E) k).symm
  | clearLangs =>
    simp only [step, Spec.Step]
    refine ⟨⟨rt, ?_⟩, LWF_epsDict E hE, hw.2⟩
    apply Spec.ext
    · funext k; exact dget_epsDict E hE k
    · rfl
    · rfl
    · rfl
  | mmLang n kw =>
    obtain ⟨h1, h2, h3⟩ := mfl_sim E hE s n kw
    simp only [step, Spec.Step]
    rw [← h1]
    exact ⟨⟨rt, rt⟩, WF_of_cur E s _ hw h2 h3⟩
  | langsForFile f =>
    simp only [step, languagesForFile_eq E hE, Spec.Step]
    exact ⟨⟨rt, _, rt, enumerates_cur E s hw f⟩, hw⟩
  | langForFile f =>
    simp only [step, languageForFile_eq E hE, Spec.Step]
    refine ⟨⟨rt, ?_⟩, hw⟩
    have hen := enumerates_cur E s hw f
    generalize hl : ((s.curL E).map (·.2)).filter (patMatches E f) = l at hen
    by_cases hex : ∃ d, Spec.Enumerates E (s.abs E) f [d]
    · obtain ⟨d, hd⟩ := hex
      have := enumerates_single E _ f l d hen hd
      subst this
      exact Or.inl ⟨d, hd, rt⟩
    · refine Or.inr ⟨hex, ?_⟩
      match l, hen with
      | [], _ => rfl
      | [d], hen => exact absurd ⟨d, hen⟩ hex
      | _ :: _ :: _, _ => rfl
  | mmsForFile f =>
    simp only [step, metamodelsForFile, languagesForFile_eq E hE, Spec.Step]
    obtain ⟨h1, h2, h3⟩ := mmLoop_sim E hE (((s.curL E).map (·.2)).filter (patMatches E f)) (s.loadL E)
    refine ⟨⟨_, enumerates_cur E s hw f, ?_⟩, WF_of_cur E s _ hw h2 h3⟩
    rw [abs_loadL] at h1
    rw [← h1]
    exact ⟨rt, rt⟩
  | mmForFile f kw =>
    simp only [step, metamodelForFile, languageForFile_eq E hE, Spec.Step]
    have hen := enumerates_cur E s hw f
    generalize hl : ((s.curL E).map (·.2)).filter (patMatches E f) = l at hen
    by_cases hex : ∃ d, Spec.Enumerates E (s.abs E) f [d]
    · obtain ⟨d, hd⟩ := hex
      have := enumerates_single E _ f l d hen hd
      subst this
      obtain ⟨h1, h2, h3⟩ := mfl_sim E hE (s.loadL E) d.name kw
      rw [abs_loadL] at h1
      simp only
      refine ⟨Or.inl ⟨d, hd, ?_⟩, WF_of_cur E s _ hw h2 h3⟩
      rw [← h1]
      exact ⟨rt, rt⟩
    · have hres : (match l with | [d] => (Out.ok d : Out LangDesc) | _ => .raise .regError) = .raise .regError := by
        match l, hen with
        | [], _ => rfl
        | [d], hen => exact absurd ⟨d, hen⟩ hex
        | _ :: _ :: _, _ => rfl
      rw [hres]
      exact ⟨Or.inr ⟨hex, rt, rt⟩, hw⟩
  | regGen g =>
    simp only [step, registerGenerator, genDescs_eq E hE, Spec.Step]
    have hG : (s.abs E).G (E.lower g.language) (E.lower g.target)
        = gget (s.curG E) (E.lower g.language) (E.lower g.target) := rfl
    cases hr : regGenInto E (s.curG E) g with
    | none =>
      simp only
      exact ⟨Or.inl ⟨by rw [hG]; exact (regGenInto_none_iff E _ g).1 hr, rt, rt⟩, hw⟩
    | some gs' =>
      simp only
      refine ⟨Or.inr ⟨?_, rt, ?_⟩, hw.1, GWF_regGenInto E _ gs' g hw.2 hr⟩
      · rw [hG]
        cases hd : gget (s.curG E) (E.lower g.language) (E.lower g.target) with
        | none => rfl
        | some x =>
          have := (regGenInto_none_iff E (s.curG E) g).2 (by simp [hd])
          rw [hr] at this; cases this
      · apply Spec.ext
        · rfl
        · rfl
        · rfl
        · funext l t
          simp only [St.abs, St.loadG, Option.getD_some]
          exact gget_regGenInto E _ gs' g hr l t
  | gen l t any =>
    have hG : ∀ a b, (s.abs E).G a b = gget (s.curG E) a b := fun _ _ => rfl
    simp only [step, generatorDescription, genDescs_eq E hE, Spec.Step, Spec.generator, hG]
    cases gget (s.curG E) (E.lower l) (E.lower t) with
    | some g => exact ⟨⟨rt, rt⟩, hw⟩
    | none =>
      cases any with
      | false => exact ⟨⟨rt, rt⟩, hw⟩
      | true =>
        simp only [if_true]
        cases gget (s.curG E) "any" (E.lower t) <;> exact ⟨⟨rt, rt⟩, hw⟩
  | genKeys =>
    simp only [step, genDescs_eq E hE, Spec.Step]
    refine ⟨⟨rt, _, rt, gkeysOf_nodup _ hw.2, ?_⟩, hw⟩
    intro l t
    exact mem_gkeysOf _ hw.2 l t
  | clearGens =>
    simp only [step, Spec.Step]
    refine ⟨⟨rt, ?_⟩, hw.1, GWF_gepsDict E hE⟩
    apply Spec.ext
    · rfl
    · rfl
    · rfl
    · funext l t; exact gget_gepsDict E hE l t

/-- histories -/
theorem run_sim (E : Env) (hE : E.Ok) : ∀ (ops : List Op) (s : St), WF E s →
    Spec.Run E (s.abs E) ops (run E s ops).2 ((run E s ops).1.abs E) ∧ WF E (run E s ops).1
  | [], s, hw => ⟨⟨rfl, rfl⟩, hw⟩
  | op :: ops, s, hw => by
    obtain ⟨h1, h2⟩ := step_sim E hE s hw op
    obtain ⟨i1, i2⟩ := run_sim E hE ops (step E s op).1 h2
    exact ⟨⟨_, _, _, rfl, h1, i1⟩, i2⟩

theorem run_append (E : Env) : ∀ (a b : List Op) (s : St),
    run E s (a ++ b) = ((run E (run E s a).1 b).1, (run E s a).2 ++ (run E (run E s a).1 b).2)
  | [], b, s => rfl
  | op :: a, b, s => by
    simp only [List.cons_append, run, run_append E a b]

end Reg
