import TextxVerif.Proofs.DotDoc
/-! `metamodel_export_tofile`: where the items handed to a renderer come from, and that the
DOT renderer's statements have safe strings. -/
namespace Dot

/-- names as the textX grammar produces them: safe inside labels, no angle brackets -/
def AttrNamesOk (a : MAttr) : Prop := Safe a.name ∧ Safe a.clsName ∧ Safe a.mult

def ClsOk (c : MCls) : Prop := Safe c.name ∧ NoAngle c.name ∧ ∀ a ∈ c.attrs, AttrNamesOk a

def ItemIn (all : List MCls) : MItem → Prop
  | .cls c => c ∈ all
  | .blank => True
  | .link c a => c ∈ all ∧ a ∈ c.attrs
  | .inh b s => b ∈ all ∧ s ∈ all

theorem findCls_mem {all : List MCls} {i : Nat} {c : MCls} (h : findCls all i = some c) : c ∈ all :=
  List.mem_of_find?_eq_some h

theorem attrItems_in (all classes : List MCls) (c : MCls) (hc : c ∈ all) (as : List MAttr)
    (has : ∀ a ∈ as, a ∈ c.attrs) (items : List MItem) (h : attrItems all classes c as = some items) :
    ∀ it ∈ items, ItemIn all it := by
  induction as generalizing items with
  | nil => simp only [attrItems, Option.some.injEq] at h; subst h; simp
  | cons a as ih =>
    simp only [attrItems] at h
    cases hr : attrItems all classes c as with
    | none => simp [hr] at h
    | some rest =>
      simp only [hr] at h
      have hrest := ih (fun b hb => has b (by simp [hb])) rest hr
      have hl : ∀ it ∈ (if (a.ref && a.clsName != cl!"OBJECT") = true then [MItem.link c a] else []), ItemIn all it := by
        intro it hit
        split at hit
        · simp only [List.mem_singleton] at hit; subst hit; exact ⟨hc, has a (by simp)⟩
        · simp at hit
      split at h
      · simp only [Option.some.injEq] at h; subst h
        intro it hit
        rcases List.mem_append.mp hit with hit | hit
        · exact hl it hit
        · exact hrest it hit
      · cases hf : findCls all a.clsId with
        | none => simp [hf] at h
        | some ac =>
          simp only [hf, Option.some.injEq] at h; subst h
          intro it hit
          rcases List.mem_append.mp hit with hit | hit
          · exact hl it hit
          · rcases List.mem_cons.mp hit with hit | hit
            · subst hit; exact findCls_mem hf
            · exact hrest it hit

theorem inhItems_in (all : List MCls) (c : MCls) (hc : c ∈ all) (is : List Nat) (items : List MItem)
    (h : inhItems all c is = some items) : ∀ it ∈ items, ItemIn all it := by
  induction is generalizing items with
  | nil => simp only [inhItems, Option.some.injEq] at h; subst h; simp
  | cons i is ih =>
    simp only [inhItems] at h
    cases hf : findCls all i with
    | none => simp [hf] at h
    | some s =>
      cases hr : inhItems all c is with
      | none => simp [hf, hr] at h
      | some rest =>
        simp only [hf, hr, Option.some.injEq] at h; subst h
        intro it hit
        rcases List.mem_cons.mp hit with hit | hit
        · subst hit; exact ⟨hc, findCls_mem hf⟩
        · exact ih rest hr it hit

theorem linkItems_in (all classes : List MCls) (cs : List MCls) (hcs : ∀ c ∈ cs, c ∈ all) (items : List MItem)
    (h : linkItems all classes cs = some items) : ∀ it ∈ items, ItemIn all it := by
  induction cs generalizing items with
  | nil => simp only [linkItems, Option.some.injEq] at h; subst h; simp
  | cons c cs ih =>
    simp only [linkItems] at h
    cases ha : attrItems all classes c c.attrs with
    | none => simp [ha] at h
    | some a =>
      cases hi : inhItems all c c.inhBy with
      | none => simp [ha, hi] at h
      | some i =>
        cases hr : linkItems all classes cs with
        | none => simp [ha, hi, hr] at h
        | some rest =>
          simp only [ha, hi, hr, Option.some.injEq] at h; subst h
          have hc := hcs c (by simp)
          intro it hit
          rcases List.mem_append.mp hit with hit | hit
          · rcases List.mem_append.mp hit with hit | hit
            · exact attrItems_in all classes c hc c.attrs (fun _ hb => hb) a ha it hit
            · exact inhItems_in all c hc c.inhBy i hi it hit
          · exact ih (fun d hd => hcs d (by simp [hd])) rest hr it hit

theorem mmItems_in (all : List MCls) (allNames : List Str) (items : List MItem) (h : mmItems all allNames = some items) :
    (∀ it ∈ items, ItemIn all it) ∧
      ∀ c ∈ all, c.fqn ∉ allNames → c.name ∉ allNames → MItem.cls c ∈ items := by
  simp only [mmItems] at h
  split at h
  · simp at h
  · rename_i ls hl
    simp only [Option.some.injEq] at h; subst h
    constructor
    · intro it hit
      rcases List.mem_append.mp hit with hit | hit
      · obtain ⟨c, hc, rfl⟩ := List.mem_map.mp hit
        simp only [List.mem_filter] at hc
        exact hc.1.1
      · rcases List.mem_cons.mp hit with hit | hit
        · subst hit; trivial
        · exact linkItems_in all _ _ (fun c hc => (List.mem_filter.mp hc).1) ls hl it hit
    · intro c hc h1 h2
      apply List.mem_append_left
      apply List.mem_map.mpr
      refine ⟨c, ?_, rfl⟩
      simp only [List.mem_filter]
      exact ⟨⟨hc, by simp [h1]⟩, by simp [h2]⟩

theorem collectMatch_mem (base : List Str) (items : List MItem) (acc : List MCls) :
    ∀ c ∈ collectMatch base items acc, c ∈ acc ∨ MItem.cls c ∈ items := by
  induction items generalizing acc with
  | nil => intro c hc; exact Or.inl (by simpa [collectMatch] using hc)
  | cons it items ih =>
    intro c hc
    cases it with
    | cls d =>
      simp only [collectMatch] at hc
      split at hc
      · rcases ih _ c hc with h | h
        · rcases List.mem_append.mp h with h | h
          · exact Or.inl h
          · simp only [List.mem_singleton] at h; subst h; exact Or.inr (by simp)
        · exact Or.inr (by simp [h])
      · rcases ih _ c hc with h | h
        · exact Or.inl h
        · exact Or.inr (by simp [h])
    | blank =>
      simp only [collectMatch] at hc
      rcases ih _ c hc with h | h
      · exact Or.inl h
      · exact Or.inr (by simp [h])
    | link _ _ =>
      simp only [collectMatch] at hc
      rcases ih _ c hc with h | h
      · exact Or.inl h
      · exact Or.inr (by simp [h])
    | inh _ _ =>
      simp only [collectMatch] at hc
      rcases ih _ c hc with h | h
      · exact Or.inl h
      · exact Or.inr (by simp [h])

/-- the match rules a renderer shows are classes of the metamodel -/
theorem rules_mem (all : List MCls) (base : List Str) (items : List MItem) (hin : ∀ it ∈ items, ItemIn all it) :
    ∀ c ∈ (collectMatch base items []).mergeSort (fun a b => strLe a.fqn b.fqn), c ∈ all := by
  intro c hc
  have hp := (List.mergeSort_perm (collectMatch base items []) (fun a b => strLe a.fqn b.fqn)).mem_iff.mp hc
  rcases collectMatch_mem base items [] c hp with h | h
  · simp at h
  · exact hin _ h

/-! ### the DOT renderer -/

theorem attrType_safe {a : MAttr} (h : AttrNamesOk a) : Safe (attrType a) := by
  unfold attrType
  split
  · exact Safe.append (Safe.append (by decide) h.2.1) (by decide)
  · exact h.2.1

theorem dotAttrLine_safe {a : MAttr} (h : AttrNamesOk a) : Safe (dotAttrLine a) := by
  unfold dotAttrLine
  refine Safe.append (Safe.append (Safe.append h.1 (by decide)) ?_) (by decide)
  split
  · exact attrType_safe h
  · exact Safe.append (Safe.append (by decide) (attrType_safe h)) (by decide)

theorem dotClassAttrs_safe {c : MCls} (h : ClsOk c) : Safe (dotClassAttrs c) := by
  unfold dotClassAttrs
  split
  · exact Safe.nil
  · exact Safe.flatMap (fun a ha => dotAttrLine_safe (h.2.2 a (List.mem_filter.mp ha).1))

theorem dotItem_ok (all : List MCls) (hall : ∀ c ∈ all, ClsOk c) (it : MItem) (hin : ItemIn all it) :
    ∀ s ∈ dotItem it, StmtOk s := by
  intro s hs
  cases it with
  | cls c =>
    have hc : ClsOk c := hall c hin
    simp only [dotItem] at hs
    split at hs
    · simp at hs
    · simp only [List.mem_singleton] at hs; subst hs
      refine ⟨?_, dotClassAttrs_safe hc⟩
      split
      · exact Safe.cons (by decide) hc.1
      · exact hc.1
  | blank => simp only [dotItem, List.mem_singleton] at hs; subst hs; trivial
  | link c a =>
    simp only [dotItem, List.mem_singleton] at hs; subst hs
    have ha := (hall c hin.1).2.2 a hin.2
    show Safe _
    refine Safe.append ha.1 (Safe.cons (by decide) ?_)
    split
    · exact Safe.nil
    · exact ha.2.2
  | inh b s' => simp only [dotItem, List.mem_singleton] at hs; subst hs; trivial

end Dot
