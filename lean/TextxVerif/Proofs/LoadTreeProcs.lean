import TextxVerif.Proofs.LoadTreeFrame
import TextxVerif.Proofs.LoadTreeTrace
import TextxVerif.Proofs.LoadTreeHist
/-!
# What object processors see

`runMain_procs`: every object-processor call (event kind 4) of a load attempt carries the
instrumentation snapshot of the state in which the attempt *started*: by the time the object
processors run, every parser of the attempt has given back its instrumentation and every
collected attribute dict has been popped, so the classes are exactly as they were before loading
(for a load that starts with untouched classes: not instrumented, no cache, empty storage).

The proof threads a predicate on the attempt's event list (`OwnP`) through the machine, next to
the frame invariant `InvL` of `Proofs/LoadTree.lean`; the only place where an event of kind 4 is
produced is `procAll`, which `phase2` reaches only after `endAll` succeeded for all models, i.e.
(`endAll_spec`, `InvL.dropAll`) when no parser of the attempt holds anything any more.
-/
namespace LoadTree

variable {α : Type}

/-- every event of the attempt's list satisfies `Q` -/
def OwnP (Q : Ev → Prop) (sh : Sh α) : Prop := ∀ e, e ∈ sh.own → Q e

/-- `R` holds for the events of kind `K` (4 = object processors) -/
def QK (K : Nat) (R : Ev → Prop) (e : Ev) : Prop := e.kind = K → R e

/-- the snapshot of the event is one of the state `sh0` -/
def SnapAt (sh0 : Sh α) (e : Ev) : Prop := ∃ cs, e.snap = snapOf cs sh0

theorem OwnP.of_eq {Q : Ev → Prop} {sh sh' : Sh α} (e : sh'.own = sh.own) (h : OwnP Q sh) : OwnP Q sh' := by
  intro x hx; rw [e] at hx; exact h x hx

theorem snapOf_same {sh0 sh : Sh α} (s : Same sh0 sh) (cs : List ClassId) : snapOf cs sh = snapOf cs sh0 := by
  simp only [snapOf, s.core, s.attrs]

/-- when no parser of the attempt holds anything, the classes and the storage are those of the start -/
theorem InvL.nil_same {sh0 sh : Sh α}
    (h : InvL ⟨sh0.core, sh0.attrs, sh0.next⟩ (fun _ => 0) (fun _ => False) [] sh) : Same sh0 sh := by
  refine ⟨?_, ?_, Inv.le h⟩
  · funext c
    obtain ⟨a, k, c1, c2⟩ := Inv.core h c
    rw [c2]; simpa [holdL] using c1.symm
  · have hall : ∀ p, p ∈ sh.attrs → decide (p.2 < sh0.next) = true := by
      intro p hp
      by_cases hn : p.2 < sh0.next
      · simpa using hn
      · rcases Inv.own h p hp (Nat.le_of_not_lt hn) with h' | h'
        · exact h'.elim
        · exact (Own_nil p h').elim
    have := Inv.base h
    rw [List.filter_eq_self.2 hall] at this
    exact this

section
variable {env : Env α} (henv : FrameEnv env) (hown : OwnEnv env) {R : Ev → Prop} {K : Nat}
variable (k0 : 0 ≠ K) (k1 : 1 ≠ K) (k2 : 2 ≠ K) (k3 : 3 ≠ K) (k5 : 5 ≠ K)

include hown in
theorem runHook_own_eq (kind pid : Nat) (cs : List ClassId) (h : Hook) (sh : Sh α) :
    (runHook env kind pid cs h sh).1.own = sh.own ++ [⟨kind, pid, h.lab, snapOf cs sh⟩] := by
  simp only [runHook]
  rw [runActs_own hown]

include hown in
/-- a call of user code which is not an object processor -/
theorem runHook_q (kind pid : Nat) (hk : kind ≠ K) (cs : List ClassId) (h : Hook) (sh : Sh α)
    (ho : OwnP (QK K R) sh) : OwnP (QK K R) (runHook env kind pid cs h sh).1 := by
  intro e he
  rw [runHook_own_eq hown] at he
  simp only [List.mem_append, List.mem_singleton] at he
  rcases he with he | he
  · exact ho e he
  · subst he; exact fun h4 => absurd h4 hk

include hown in
theorem runHooks_q (kind pid : Nat) (hk : kind ≠ K) (cs : List ClassId) (hs : List Hook) (sh : Sh α)
    (ho : OwnP (QK K R) sh) : OwnP (QK K R) (runHooks env kind pid cs hs sh).1 := by
  induction hs generalizing sh with
  | nil => exact ho
  | cons h hs ih =>
    have h1 := runHook_q hown kind pid hk cs h sh ho
    simp only [runHooks]
    split
    · exact ih _ h1
    · exact h1

include hown k0 in
mutual
theorem buildOT_q : (t : OT) → ∀ (P : PRec) (sh : Sh α), OwnP (QK K R) sh → OwnP (QK K R) (buildOT env P t sh).1
  | .conv h, P, sh, ho => by
    simp only [buildOT]
    exact runHook_q hown 0 P.pid k0 P.classes h sh ho
  | .obj none init kids, P, sh, ho => by
    simp only [buildOT]
    exact buildKids_q kids P sh ho
  | .obj (some c) init kids, P, sh, ho => by
    simp only [buildOT]
    have h1 : OwnP (QK K R) (alloc c P sh).1 := ho
    have h2 := buildKids_q kids (alloc c P sh).2.1 (alloc c P sh).1 h1
    split <;> exact h2
theorem buildKids_q : (ts : List OT) → ∀ (P : PRec) (sh : Sh α), OwnP (QK K R) sh → OwnP (QK K R) (buildKids env P ts sh).1
  | [], P, sh, ho => by
    simp only [buildKids]; exact ho
  | t :: ts, P, sh, ho => by
    have h1 := buildOT_q t P sh ho
    simp only [buildKids]
    split
    · exact buildKids_q ts _ _ h1
    · exact h1
end

include hown k3 in
theorem initAll_q (pid : Nat) (cs : List ClassId) (l : List (ClassId × ObjId × Hook)) (sh : Sh α)
    (ho : OwnP (QK K R) sh) : OwnP (QK K R) (initAll env pid cs l sh).1 := by
  induction l generalizing sh with
  | nil => exact ho
  | cons x l ih =>
    obtain ⟨c, i, h⟩ := x
    have h0 : OwnP (QK K R) { sh with attrs := sh.attrs.erase (c, i) } := ho
    have h1 := runHook_q hown 3 pid k3 cs h _ h0
    simp only [initAll]
    split
    · exact ih _ h1
    · exact h1

include hown k3 in
theorem endRec_q (r : PRec) (sh : Sh α) (ho : OwnP (QK K R) sh) : OwnP (QK K R) (endRec env r sh).1 := by
  simp only [endRec]
  exact initAll_q hown k3 r.pid r.classes r.insts _ (OwnP.of_eq (restore_own r sh) ho)

include hown k3 in
theorem endAll_q (rs : List PRec) (sh : Sh α) (ho : OwnP (QK K R) sh) : OwnP (QK K R) (endAll env rs sh).1 := by
  induction rs generalizing sh with
  | nil => exact ho
  | cons r rs ih =>
    have h1 := endRec_q hown k3 r sh ho
    simp only [endAll]
    split
    · exact ih _ h1
    · exact h1

include hown k2 in
theorem resolveAll_q (rs : List PRec) (sh : Sh α) (ho : OwnP (QK K R) sh) : OwnP (QK K R) (resolveAll env rs sh).1 := by
  induction rs generalizing sh with
  | nil => exact ho
  | cons r rs ih =>
    have h1 := runHooks_q hown 2 r.pid k2 r.classes r.resolve sh ho
    simp only [resolveAll]
    split
    · exact ih _ h1
    · exact h1

/-! ## the object processors -/

include hown in
theorem runHook4_q {sh0 : Sh α} (pid : Nat) (cs : List ClassId) (h : Hook) (sh : Sh α) (s : Same sh0 sh)
    (ho : OwnP (QK 4 (SnapAt sh0)) sh) : OwnP (QK 4 (SnapAt sh0)) (runHook env 4 pid cs h sh).1 := by
  intro e he
  rw [runHook_own_eq hown] at he
  simp only [List.mem_append, List.mem_singleton] at he
  rcases he with he | he
  · exact ho e he
  · subst he; exact fun _ => ⟨cs, snapOf_same s cs⟩

include henv hown in
theorem runHooks4_q {sh0 : Sh α} (pid : Nat) (cs : List ClassId) (hs : List Hook) (sh : Sh α) (hg : Good sh)
    (s : Same sh0 sh) (ho : OwnP (QK 4 (SnapAt sh0)) sh) :
    OwnP (QK 4 (SnapAt sh0)) (runHooks env 4 pid cs hs sh).1 := by
  induction hs generalizing sh with
  | nil => exact ho
  | cons h hs ih =>
    have h1 := runHook4_q hown pid cs h sh s ho
    have s1 := runHook_same henv 4 pid cs h sh hg
    simp only [runHooks]
    split
    · exact ih _ (hg.same s1) (s.trans s1) h1
    · exact h1

include henv hown in
theorem procAll_q {sh0 : Sh α} (rs : List PRec) (sh : Sh α) (hg : Good sh)
    (s : Same sh0 sh) (ho : OwnP (QK 4 (SnapAt sh0)) sh) : OwnP (QK 4 (SnapAt sh0)) (procAll env rs sh).1 := by
  induction rs generalizing sh with
  | nil => exact ho
  | cons r rs ih =>
    have h1 := runHooks4_q henv hown r.pid r.classes r.oprocs sh hg s ho
    have s1 := runHooks_same henv 4 r.pid r.classes r.oprocs sh hg
    simp only [procAll]
    split
    · exact ih _ (hg.same s1) (s.trans s1) h1
    · exact h1

include henv hown in
/-- `phase2` of the main model of an attempt that started in `sh0` -/
theorem phase2_q {sh0 : Sh α} (ms : List PRec) (sh : Sh α)
    (h : InvL ⟨sh0.core, sh0.attrs, sh0.next⟩ (fun _ => 0) (fun _ => False) (ms ++ []) sh) (hr : AllOK ms)
    (ho : OwnP (QK 4 (SnapAt sh0)) sh) : OwnP (QK 4 (SnapAt sh0)) (phase2 env ms sh).1 := by
  have sa := resolveAll_same henv ms sh (Inv.good h)
  have ha := InvL.same h sa
  have qa := resolveAll_q hown (by decide) ms sh ho
  obtain ⟨b1, _, _, _, b5⟩ := endAll_spec henv ms _ ha hr
  have qb := endAll_q hown (by decide) ms _ qa
  simp only [phase2]
  split
  · exact OwnP.of_eq (abortList_own _ _) qa
  · split
    · exact OwnP.of_eq (abortList_own _ _) qb
    · rename_i hok
      simp only [Bool.not_eq_true, Bool.not_eq_false'] at hok
      have hfin : ∀ r, r ∈ (endAll env ms (resolveAll env ms sh).1).2.1 → r.replaced = false ∧
          ∀ p, p ∈ r.allocs → p ∉ (endAll env ms (resolveAll env ms sh).1).1.attrs := b5 hok
      have hnil := InvL.dropAll _ _ hfin b1
      have qc := procAll_q henv hown (endAll env ms (resolveAll env ms sh).1).2.1 _ (Inv.good b1)
        (InvL.nil_same hnil) qb
      split
      · exact OwnP.of_eq (abortList_own _ _) qc
      · exact qc

/-! ## one model file -/

include hown k0 k1 in
theorem front_q (isMain hasImports : Bool) (pid : Nat) (classes : List ClassId) (syntaxOk : Bool)
    (root : OT) (pre : Option Hook) (resolve : List Hook) (unresolved : Bool) (oprocs : List Hook)
    (repo : List PRec) (sh : Sh α) (ho : OwnP (QK K R) sh) :
    match front env isMain hasImports pid classes syntaxOk root pre resolve unresolved oprocs repo sh with
    | .inl res => OwnP (QK K R) res.1
    | .inr (_, sh1) => OwnP (QK K R) sh1 := by
  generalize hres : front env isMain hasImports pid classes syntaxOk root pre resolve unresolved oprocs repo sh = res
  simp only [front] at hres
  have b := buildOT_q (R := R) hown k0 root (replace (newRec pid classes resolve unresolved oprocs) sh).2
    (replace (newRec pid classes resolve unresolved oprocs) sh).1 (OwnP.of_eq (replace_own _ _) ho)
  split at hres
  · subst hres; exact ho
  · split at hres
    · subst hres; exact OwnP.of_eq (giveUp_own _ _) b
    · split at hres
      · subst hres; exact OwnP.of_eq (failOuter_own _ _ _) b
      · cases pre with
        | none =>
          simp only [] at hres
          split at hres
          · subst hres; exact OwnP.of_eq (failOuter_own _ _ _) b
          · split at hres
            · subst hres; exact OwnP.of_eq (failOuter_own _ _ _) b
            · subst hres; exact b
        | some hk =>
          simp only [] at hres
          have q := runHook_q hown 1 pid k1 classes hk _ b
          split at hres
          · subst hres; exact OwnP.of_eq (failOuter_own _ _ _) q
          · split at hres
            · subst hres; exact OwnP.of_eq (failOuter_own _ _ _) q
            · subst hres; exact q

include hown k5 in
theorem back_import_q (pid : Nat) (classes : List ClassId) (mproc : Hook)
    (P : PRec) (repo mine : List PRec) (sh : Sh α) (ho : OwnP (QK K R) sh) :
    OwnP (QK K R) (back env false false pid classes mproc P repo mine sh).1 := by
  simp only [back, Bool.false_eq_true, if_false]
  exact runHook_q hown 5 pid k5 classes mproc sh ho

include hown k0 k1 k5 in
mutual
theorem node_import_q : (L : Load) → ∀ (repo : List PRec) (sh : Sh α), OwnP (QK K R) sh →
    OwnP (QK K R) (node env false L repo sh).1
  | .mk pid classes syntaxOk root pre imps resolve unresolved oprocs mproc, repo, sh, ho => by
    have hf := front_q (R := R) hown k0 k1 false (!imps.isEmpty) pid classes syntaxOk root pre resolve unresolved oprocs repo sh ho
    have hfs := front_trace hown false (!imps.isEmpty) pid classes syntaxOk root pre resolve unresolved oprocs repo sh
    simp only [node]
    generalize front env false (!imps.isEmpty) pid classes syntaxOk root pre resolve unresolved oprocs repo sh = fr at hf hfs
    cases fr with
    | inl res => exact hf
    | inr pr =>
      obtain ⟨P, sh1⟩ := pr
      simp only [] at hf ⊢
      have hi := importList_q imps repo [] sh1 hf
      generalize importList env imps repo [] sh1 = ir at hi
      obtain ⟨sh2, rr⟩ := ir
      cases rr with
      | error left => exact OwnP.of_eq (failOuter_own _ _ _) hi
      | ok mine =>
        simp only []
        rw [hfs.2.2.2.2 rfl]
        exact back_import_q hown k5 pid classes mproc P repo mine sh2 hi
theorem importList_q : (Ls : List Load) → ∀ (repo mine : List PRec) (sh : Sh α), OwnP (QK K R) sh →
    OwnP (QK K R) (importList env Ls repo mine sh).1
  | [], repo, mine, sh, ho => by
    simp only [importList]; exact ho
  | L :: Ls, repo, mine, sh, ho => by
    have hn := node_import_q L (repo ++ mine) sh ho
    simp only [importList]
    generalize node env false L (repo ++ mine) sh = nr at hn
    obtain ⟨sh1, rr⟩ := nr
    cases rr with
    | error left => exact hn
    | ok new => exact importList_q Ls repo (mine ++ new) sh1 hn
end

/-! ## an unresolvable reference anywhere: the attempt stops after the resolution -/

/-- the reference resolution of this parser's file fails -/
def PRec.bad (r : PRec) : Bool := r.unresolved || r.resolve.any (·.raises)

omit hown in
mutual
theorem buildOT_unres : (t : OT) → ∀ (P : PRec) (sh : Sh α), (buildOT env P t sh).2.1.bad = P.bad
  | .conv h, P, sh => by simp only [buildOT]
  | .obj none init kids, P, sh => by
    simp only [buildOT]
    exact buildKids_unres kids P sh
  | .obj (some c) init kids, P, sh => by
    simp only [buildOT]
    have h2 : (buildKids env (alloc c P sh).2.1 kids (alloc c P sh).1).2.1.bad = P.bad :=
      buildKids_unres kids (alloc c P sh).2.1 (alloc c P sh).1
    split
    · exact h2
    · exact h2
theorem buildKids_unres : (ts : List OT) → ∀ (P : PRec) (sh : Sh α), (buildKids env P ts sh).2.1.bad = P.bad
  | [], P, sh => by simp only [buildKids]
  | t :: ts, P, sh => by
    have h1 := buildOT_unres t P sh
    simp only [buildKids]
    split
    · exact (buildKids_unres ts _ _).trans h1
    · exact h1
end

omit hown in
theorem front_unres (isMain hasImports : Bool) (pid : Nat) (classes : List ClassId) (syntaxOk : Bool)
    (root : OT) (pre : Option Hook) (resolve : List Hook) (unresolved : Bool) (oprocs : List Hook)
    (repo : List PRec) (sh : Sh α) (P : PRec) (sh1 : Sh α)
    (hres : front env isMain hasImports pid classes syntaxOk root pre resolve unresolved oprocs repo sh = .inr (P, sh1)) :
    P.bad = (unresolved || resolve.any (·.raises)) := by
  have b : _ = (unresolved || resolve.any (·.raises)) :=
    buildOT_unres (env := env) root (replace (newRec pid classes resolve unresolved oprocs) sh).2
      (replace (newRec pid classes resolve unresolved oprocs) sh).1
  simp only [front] at hres
  split at hres
  · cases hres
  · split at hres
    · cases hres
    · split at hres
      · cases hres
      · cases pre with
        | none =>
          simp only [] at hres
          split at hres
          · cases hres
          · split at hres
            · cases hres
            · cases hres; exact b
        | some hk =>
          simp only [] at hres
          split at hres
          · cases hres
          · split at hres
            · cases hres
            · cases hres; exact b

omit hown in
theorem back_import_unres (immut : Bool) (pid : Nat) (classes : List ClassId) (mproc : Hook)
    (P : PRec) (repo mine new : List PRec) (sh : Sh α)
    (h : (back env false immut pid classes mproc P repo mine sh).2 = .ok new) :
    new.map PRec.bad = P.bad :: mine.map PRec.bad := by
  simp only [back, Bool.false_eq_true, if_false] at h
  split at h
  · cases h
    cases immut <;> simp [PRec.bad]
  · cases h

omit hown in
mutual
theorem node_import_unres : (L : Load) → ∀ (repo new : List PRec) (sh : Sh α),
    (node env false L repo sh).2 = .ok new → new.map PRec.bad = L.unres
  | .mk pid classes syntaxOk root pre imps resolve unresolved oprocs mproc, repo, new, sh, h => by
    simp only [node] at h
    simp only [Load.unres]
    generalize hfr : front env false (!imps.isEmpty) pid classes syntaxOk root pre resolve unresolved oprocs repo sh = fr at h
    cases fr with
    | inl res =>
      simp only [] at h
      rcases front_left _ _ _ _ _ _ _ _ _ _ _ _ res hfr with e | e <;> (rw [e] at h; cases h)
    | inr pr =>
      obtain ⟨P, sh1⟩ := pr
      simp only [] at h
      have hP := front_unres _ _ _ _ _ _ _ _ _ _ _ _ P sh1 hfr
      generalize hir : importList env imps repo [] sh1 = ir at h
      obtain ⟨sh2, rr⟩ := ir
      cases rr with
      | error l => simp only [failOuter] at h; cases h
      | ok mine =>
        simp only [] at h
        have hm := importList_unres imps repo [] mine sh1 (by rw [hir])
        rw [back_import_unres _ _ _ _ _ _ _ _ _ h, hP, hm]
        simp
theorem importList_unres : (Ls : List Load) → ∀ (repo mine mine' : List PRec) (sh : Sh α),
    (importList env Ls repo mine sh).2 = .ok mine' →
      mine'.map PRec.bad = mine.map PRec.bad ++ Load.unresL Ls
  | [], repo, mine, mine', sh, h => by
    simp only [importList] at h
    cases h
    simp [Load.unresL]
  | L :: Ls, repo, mine, mine', sh, h => by
    simp only [importList] at h
    generalize hn : node env false L (repo ++ mine) sh = nr at h
    obtain ⟨sh1, rr⟩ := nr
    cases rr with
    | error l => simp only [] at h; cases h
    | ok new =>
      simp only [] at h
      have h1 := node_import_unres L (repo ++ mine) new sh (by rw [hn])
      have h2 := importList_unres Ls repo (mine ++ new) mine' sh1 h
      rw [h2, List.map_append, h1]
      simp [Load.unresL]
end

omit hown in
theorem runHooks_raises (kind pid : Nat) (cs : List ClassId) (hs : List Hook) (sh : Sh α)
    (h : hs.any (·.raises) = true) : (runHooks env kind pid cs hs sh).2 = false := by
  induction hs generalizing sh with
  | nil => simp at h
  | cons x hs ih =>
    simp only [runHooks]
    split
    · rename_i hok
      simp only [List.any_cons, Bool.or_eq_true] at h
      rcases h with h | h
      · simp [runHook, h] at hok
      · exact ih _ h
    · rfl

omit hown in
theorem resolveAll_raises (rs : List PRec) (sh : Sh α)
    (h : rs.any (fun r => r.resolve.any (·.raises)) = true) : (resolveAll env rs sh).2 = false := by
  induction rs generalizing sh with
  | nil => simp at h
  | cons r rs ih =>
    simp only [resolveAll]
    split
    · rename_i hok
      simp only [List.any_cons, Bool.or_eq_true] at h
      rcases h with h | h
      · rw [runHooks_raises 2 r.pid r.classes r.resolve sh h] at hok; simp at hok
      · exact ih _ h
    · rfl

omit hown in
theorem phase2_unres (ms : List PRec) (sh : Sh α) (h : ms.any PRec.bad = true) :
    (phase2 env ms sh).2.2 = false ∧ (phase2 env ms sh).1.own = (resolveAll env ms sh).1.own := by
  have hc : (!(resolveAll env ms sh).2 || ms.any (·.unresolved)) = true := by
    cases hu : ms.any (·.unresolved) with
    | true => simp
    | false =>
      have : ms.any (fun r => r.resolve.any (·.raises)) = true := by
        simp only [List.any_eq_true] at h ⊢
        obtain ⟨r, hr, hb⟩ := h
        refine ⟨r, hr, ?_⟩
        simp only [PRec.bad, Bool.or_eq_true] at hb
        rcases hb with hb | hb
        · have : ms.any (·.unresolved) = true := List.any_eq_true.2 ⟨r, hr, hb⟩
          rw [hu] at this; cases this
        · exact List.any_eq_true.1 hb
      rw [resolveAll_raises ms sh this]; simp
  simp [phase2, hc]

include hown k0 k1 k2 k5 in
/-- an attempt with a mutable main model in which some file holds an unresolvable reference fails, and
calls no user code of kind `K ∉ {0, 1, 2, 5}`: no constructor, no object processor -/
theorem node_main_unres (L : Load) (sh : Sh α) (hconv : L.immut = false) (hun : true ∈ L.unres)
    (ho : OwnP (QK K R) sh) :
    OwnP (QK K R) (node env true L [] sh).1 ∧ isOk (node env true L [] sh).2 = false := by
  obtain ⟨pid, classes, syntaxOk, root, pre, imps, resolve, unresolved, oprocs, mproc⟩ := L
  simp only [Load.immut] at hconv
  simp only [Load.unres] at hun
  have hq := front_q (R := R) hown k0 k1 true (!imps.isEmpty) pid classes syntaxOk root pre resolve unresolved
    oprocs [] sh ho
  simp only [node]
  generalize hfr : front env true (!imps.isEmpty) pid classes syntaxOk root pre resolve unresolved oprocs [] sh = fr at hq
  cases fr with
  | inl res =>
    refine ⟨hq, ?_⟩
    simp only []
    rcases front_left _ _ _ _ _ _ _ _ _ _ _ _ res hfr with e | e <;> (rw [e]; rfl)
  | inr pr =>
    obtain ⟨P, sh1⟩ := pr
    simp only [] at hq ⊢
    have hP := front_unres _ _ _ _ _ _ _ _ _ _ _ _ P sh1 hfr
    have qi := importList_q (R := R) hown k0 k1 k5 imps [] [] sh1 hq
    generalize hir : importList env imps [] [] sh1 = ir at qi
    obtain ⟨sh2, rr⟩ := ir
    cases rr with
    | error left => exact ⟨OwnP.of_eq (failOuter_own _ _ _) qi, rfl⟩
    | ok mine =>
      simp only []
      have hm := importList_unres (env := env) imps [] [] mine sh1 (by rw [hir])
      simp only [List.map_nil, List.nil_append] at hm
      have hany : (({ P with hasParser := true } : PRec) :: ([] ++ mine)).any PRec.bad = true := by
        simp only [List.nil_append, List.any_cons, Bool.or_eq_true, List.any_eq_true]
        simp only [List.mem_cons] at hun
        rcases hun with hun | hun
        · exact .inl (by
            have : ({ P with hasParser := true } : PRec).bad = P.bad := rfl
            rw [this, hP]; exact hun.symm)
        · rw [← hm] at hun
          obtain ⟨r, hr, e⟩ := List.mem_map.1 hun
          exact .inr ⟨r, hr, e⟩
      obtain ⟨p1, p2⟩ := phase2_unres (env := env) _ sh2 hany
      simp only [back, hconv, Bool.false_eq_true, if_false, if_true, p1, Bool.not_false]
      refine ⟨OwnP.of_eq ((failOuter_own _ _ _).trans p2) (resolveAll_q hown k2 _ _ qi), rfl⟩

include henv hown in
/-- the main model after its imports -/
theorem back_main_q {sh0 : Sh α} (immut : Bool) (pid : Nat) (classes : List ClassId) (mproc : Hook)
    (P : PRec) (mine : List PRec) (sh : Sh α)
    (h : InvL ⟨sh0.core, sh0.attrs, sh0.next⟩ (fun _ => 0) (fun _ => False) (mine ++ P :: []) sh)
    (hP : CovI P ∧ CovA P) (hm : AllOK mine) (ho : OwnP (QK 4 (SnapAt sh0)) sh) :
    OwnP (QK 4 (SnapAt sh0)) (back env true immut pid classes mproc P [] mine sh).1 := by
  cases immut with
  | true =>
    have hp2 : phase2 env [] sh = (sh, [], true) := by
      simp [phase2, resolveAll, endAll, procAll]
    simp only [back, if_true, hp2]
    simp only [Bool.not_true, Bool.false_eq_true, if_false]
    exact runHook_q hown 5 pid (by decide) classes mproc _ (OwnP.of_eq (restore_own _ _) ho)
  | false =>
    simp only [back, Bool.false_eq_true, if_false, if_true, List.nil_append]
    have hok : RecOK { P with hasParser := true } := ⟨rfl, hP.1, hP.2⟩
    have h' : InvL ⟨sh0.core, sh0.attrs, sh0.next⟩ (fun _ => 0) (fun _ => False)
        (({ P with hasParser := true } :: mine) ++ []) sh := by
      refine InvL.congrL h (fun c => ?_) (fun p => ?_)
      · simp only [holdL_append, holdL, hold, List.cons_append]; omega
      · simp only [Own_append, Own_cons, List.cons_append]
        constructor
        · rintro (h1 | h1 | h1)
          · exact .inr (.inl h1)
          · exact .inl h1
          · exact .inr (.inr h1)
        · rintro (h1 | h1 | h1)
          · exact .inr (.inl h1)
          · exact .inl h1
          · exact .inr (.inr h1)
    have hall : AllOK ({ P with hasParser := true } :: mine) := by
      intro r hr'
      simp only [List.mem_cons] at hr'
      rcases hr' with hr' | hr'
      · subst hr'; exact hok
      · exact hm r hr'
    have q2 := phase2_q henv hown _ sh h' hall ho
    split
    · exact OwnP.of_eq (failOuter_own _ _ _) q2
    · exact runHook_q hown 5 pid (by decide) classes mproc _ (OwnP.of_eq (restore_own _ _) q2)

include henv hown in
/-- the main model of an attempt that starts in `sh0` -/
theorem node_main_q {sh0 : Sh α} (L : Load) (sh : Sh α)
    (h : InvL ⟨sh0.core, sh0.attrs, sh0.next⟩ (fun _ => 0) (fun _ => False) [] sh)
    (ho : OwnP (QK 4 (SnapAt sh0)) sh) : OwnP (QK 4 (SnapAt sh0)) (node env true L [] sh).1 := by
  obtain ⟨pid, classes, syntaxOk, root, pre, imps, resolve, unresolved, oprocs, mproc⟩ := L
  have hf := front_spec henv (A := []) true (!imps.isEmpty) pid classes syntaxOk root pre resolve unresolved
    oprocs [] sh (by simpa using h) (fun _ hx => by simp at hx)
  have hq := front_q (R := SnapAt sh0) hown (by decide) (by decide) true (!imps.isEmpty) pid classes syntaxOk root pre resolve unresolved
    oprocs [] sh ho
  simp only [node]
  generalize front env true (!imps.isEmpty) pid classes syntaxOk root pre resolve unresolved oprocs [] sh = fr at hf hq
  cases fr with
  | inl res => exact hq
  | inr pr =>
    obtain ⟨P, sh1⟩ := pr
    obtain ⟨f1, f2, f3, _, _, _⟩ := hf
    simp only [] at hq ⊢
    have hi := importList_spec henv imps [] [] (P :: []) sh1 (by simpa using f1) (fun _ hx => by simp at hx)
      (fun _ hx => by simp at hx)
    have qi := importList_q (R := SnapAt sh0) hown (by decide) (by decide) (by decide) imps [] [] sh1 hq
    generalize importList env imps [] [] sh1 = ir at hi qi
    obtain ⟨sh2, rr⟩ := ir
    cases rr with
    | error left => exact OwnP.of_eq (failOuter_own _ _ _) qi
    | ok mine =>
      obtain ⟨i1, i2⟩ := hi
      simp only []
      exact back_main_q henv hown root.isConv pid classes mproc P mine sh2 (by simpa using i1) ⟨f2, f3⟩ i2 qi

include henv hown in
/-- **object processors see the classes as they were before loading**: every event of kind 4 of the
attempt carries a snapshot of the start state -/
theorem runMain_procs (L : Load) (sh : Sh α) (hg : Good sh) (ho : OwnP (QK 4 (SnapAt sh)) sh) :
    OwnP (QK 4 (SnapAt sh)) (runMain env L sh).1 := by
  have h0 : InvL ⟨sh.core, sh.attrs, sh.next⟩ (fun _ => 0) (fun _ => False) [] sh := by
    refine ⟨fun c => ?_, ?_, hg.nodup, hg.lt, fun p hp hn => ?_, fun p hp => ?_, Nat.le_refl _⟩
    · obtain ⟨a, k, h⟩ := hg.core c
      exact ⟨a, k, h, by simpa [holdL] using h⟩
    · exact List.filter_eq_self.2 (fun p hp => by simpa using hg.lt p hp)
    · exact absurd (hg.lt p hp) (Nat.not_lt.mpr hn)
    · rcases hp with hp | hp
      · exact hp.elim
      · exact (Own_nil p hp).elim
  exact node_main_q henv hown L sh h0 ho

end

end LoadTree
