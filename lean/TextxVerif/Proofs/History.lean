import TextxVerif.Proofs.HistoryCache
/-!
# The load machine at rest: invariant, frame, history-free outcome

`Rest H` — what holds of the surviving state between two operations: all memo caches empty, no
user class instrumented, no collected attributes, every blueprint's containers allocated and empty,
the base-type rules owned by some metamodel as soon as a metamodel exists.

`pureLoad` — the outcome of a load written *without* any surviving state (parse on empty caches,
empty containers, instrumentation counted from zero).  Main lemma `load_real`: from a state at
rest the real machine produces exactly `pureLoad` and returns to rest.
-/
namespace History
open Peg

/-! ## heap -/

theorem rd_wr_ne (H : Hidden) {a a' : Nat} (v : List Nat) (h : a' ≠ a) : rd (wr H a' v) a = rd H a := by
  simp [rd, wr, List.getD_eq_getElem?_getD, List.getElem?_set_ne h]

@[simp] theorem wr_len (H : Hidden) (a : Nat) (v : List Nat) : (wr H a v).heap.length = H.heap.length := by
  simp [wr]

theorem getD_append_lt (l xs : List (List Nat)) {a : Nat} (h : a < l.length) :
    (l ++ xs).getD a [] = l.getD a [] := by
  simp [List.getD_eq_getElem?_getD, List.getElem?_append_left h]

theorem getD_fresh (l : List (List Nat)) {i : Nat} (h : i < 6) :
    (l ++ List.replicate 6 []).getD (l.length + i) [] = [] := by
  rw [List.getD_eq_getElem?_getD, List.getElem?_append_right (by omega), Nat.add_sub_cancel_left,
      List.getElem?_replicate]
  simp [h]

@[simp] theorem wr_cache (H : Hidden) (a : Nat) (v : List Nat) : (wr H a v).cache = H.cache := rfl
@[simp] theorem wr_blue (H : Hidden) (a : Nat) (v : List Nat) : (wr H a v).blue = H.blue := rfl
@[simp] theorem wr_instr (H : Hidden) (a : Nat) (v : List Nat) : (wr H a v).instr = H.instr := rfl
@[simp] theorem wr_objAttrs (H : Hidden) (a : Nat) (v : List Nat) : (wr H a v).objAttrs = H.objAttrs := rfl
@[simp] theorem wr_gp (H : Hidden) (a : Nat) (v : List Nat) : (wr H a v).gp = H.gp := rfl
@[simp] theorem wr_baseOwner (H : Hidden) (a : Nat) (v : List Nat) : (wr H a v).baseOwner = H.baseOwner := rfl

theorem rd_wr3 (H : Hidden) (n a : Nat) (v0 v1 v2 : List Nat) (h : a < n) :
    rd (wr (wr (wr H (n + 0) v0) (n + 1) v1) (n + 2) v2) a = rd H a := by
  rw [rd_wr_ne _ _ (by omega), rd_wr_ne _ _ (by omega), rd_wr_ne _ _ (by omega)]

theorem clone_real (b : PObj) (H : Hidden) :
    clone real b H =
      ({ conts := [H.heap.length + 0, H.heap.length + 1, H.heap.length + 2, H.heap.length + 3,
                   H.heap.length + 4, H.heap.length + 5] },
       { H with heap := H.heap ++ List.replicate 6 [] }) := by
  simp [clone, real, List.range, List.range.loop]

/-! ## parsing from empty caches leaves empty caches -/

theorem parseText_rest (W : World) (m : MM) (x : Inp) : (parseText real W m x []).2.2 = [] := by
  unfold parseText
  cases hm : m.memo with
  | true => simp [real]
  | false =>
    have hk := parse_keeps
      { nodes := W.nodes, comments := m.comments, memo := false, input := x.input, toks := x.toks } rfl
      x.fuel m.top { initState m.skipws m.ws with cache := [] }
    simp only [Bool.false_and, Bool.false_eq_true, ↓reduceIte]
    exact hk

/-! ## the history-free outcome -/

def freshReads (t : Val) : Reads :=
  { tree := t, stack0 := [], instances0 := [], crossrefs0 := [], baseIsMatch := true }

def pureOne (W : World) (sem : Sem) (k : Nat) (m : MM) (x : Inp) (pr : Prog) : Option (Phase × Nat) × Prog :=
  let pt := parseText real W m x []
  let pr := { pr with parses := pr.parses ++ [pt.1], stores := pr.stores ++ [pt.2.1] }
  match pt.1 with
  | .tree t =>
    let r := freshReads t
    let fs := sem.file k r
    let pr := { pr with lives := pr.lives ++ [{ replaced := true, allocated := fs.allocs }], reads := pr.reads ++ [r] }
    (if fs.ok then none else some (.build (pr.parses.length - 1), fs.dump), pr)
  | _ => (some (.parse (pr.parses.length - 1), 0), pr)

def pureFiles (W : World) (sem : Sem) (k : Nat) (m : MM) : List Inp → Prog → Option (Phase × Nat) × Prog
  | [], pr => (none, pr)
  | x :: xs, pr =>
    match pureOne W sem k m x pr with
    | (none, pr) => pureFiles W sem k m xs pr
    | r => r

/-- outcome of loading `files` with metamodel configuration `m` — no surviving state involved -/
def pureLoad (W : World) (sem : Sem) (k : Nat) (m : MM) (files : List Inp) : Out :=
  match pureFiles W sem k m files {} with
  | (some (ph, d), pr) => { parses := pr.parses, stores := pr.stores, phase := ph, dump := d, initCounts := [] }
  | (none, pr) =>
    let counts := initCounts pr.lives.length pr.lives
    let (f, d) := sem.final k pr.reads counts
    { parses := pr.parses, stores := pr.stores, phase := finPhase f, dump := d,
      initCounts := match f with
        | .ok | .objproc | .modelproc => counts
        | .init j => counts.take (j + 1)
        | .resolve => [] }

def skipOut : Out := { parses := [], stores := [], phase := .skip, dump := 0, initCounts := [] }

/-! ## the invariant -/

def BlueOK (H : Hidden) (b : PObj) : Prop := ∀ a ∈ b.conts, a < H.heap.length ∧ rd H a = []

structure Rest (H : Hidden) : Prop where
  cache : H.cache = []
  instr : ∀ k, H.instr k = 0
  attrs : ∀ k, H.objAttrs k = 0
  blue : ∀ k b, H.blue k = some b → BlueOK H b
  owner : ∀ k b, H.blue k = some b → H.baseOwner.isSome = true

/-- the state in the middle of a load of metamodel `k` that started in `H0` -/
structure Mid (k : Nat) (H0 H : Hidden) (pr : Prog) : Prop where
  cache : H.cache = []
  len : H0.heap.length ≤ H.heap.length
  frame : ∀ a, a < H0.heap.length → rd H a = rd H0 a
  blue : H.blue = H0.blue
  gp : H.gp = H0.gp
  bo : H.baseOwner = H0.baseOwner
  instrK : H.instr k = H0.instr k + pr.lives.length
  instrO : ∀ j, j ≠ k → H.instr j = H0.instr j
  attrsK : H.objAttrs k = H0.objAttrs k + (pr.lives.map (·.allocated)).sum
  attrsO : ∀ j, j ≠ k → H.objAttrs j = H0.objAttrs j
  repl : ∀ p ∈ pr.lives, p.replaced = true

theorem Mid.start (k : Nat) (H : Hidden) (hc : H.cache = []) : Mid k H H {} :=
  { cache := hc, len := Nat.le_refl _, frame := fun _ _ => rfl, blue := rfl, gp := rfl, bo := rfl,
    instrK := by simp, instrO := fun _ _ => rfl, attrsK := by simp, attrsO := fun _ _ => rfl,
    repl := by intro p hp; simp at hp }

/-- one file: the real machine computes what `pureOne` computes and stays in `Mid` -/
theorem oneFile_real (W : World) (sem : Sem) (k : Nat) (m : MM) (b : PObj) (x : Inp)
    (H0 H : Hidden) (pr : Prog) (hm : Mid k H0 H pr) (ho : H0.baseOwner.isSome = true) :
    ∃ H', oneFile real W sem k m b x H pr = ((pureOne W sem k m x pr).1, H', (pureOne W sem k m x pr).2)
          ∧ Mid k H0 H' (pureOne W sem k m x pr).2 := by
  have hrest := parseText_rest W m x
  unfold oneFile pureOne
  rw [clone_real]
  simp only [hm.cache]
  generalize parseText real W m x [] = pt at hrest ⊢
  obtain ⟨o, st, c⟩ := pt
  simp only at hrest
  subst hrest
  have hlen := hm.len
  cases o with
  | tree t =>
    simp only []
    have hbo : H.baseOwner.isSome = true := by rw [hm.bo]; exact ho
    have e0 : rd { H with heap := H.heap ++ List.replicate 6 [], cache := [],
                          instr := upd H.instr k (H.instr k + 1) } (H.heap.length + 0) = [] :=
      getD_fresh H.heap (by omega)
    have e1 : rd { H with heap := H.heap ++ List.replicate 6 [], cache := [],
                          instr := upd H.instr k (H.instr k + 1) } (H.heap.length + 1) = [] :=
      getD_fresh H.heap (by omega)
    have e2 : rd { H with heap := H.heap ++ List.replicate 6 [], cache := [],
                          instr := upd H.instr k (H.instr k + 1) } (H.heap.length + 2) = [] :=
      getD_fresh H.heap (by omega)
    simp only [List.getD_cons_zero, List.getD_cons_succ, e0, e1, e2, hbo, freshReads]
    refine ⟨_, rfl, ?_⟩
    constructor
    · rfl
    · simp [wr]; omega
    · intro a ha
      have h1 : a < H.heap.length := by omega
      show rd (wr (wr (wr _ (H.heap.length + 0) _) (H.heap.length + 1) _) (H.heap.length + 2) _) a = _
      rw [rd_wr3 _ _ _ _ _ _ h1, ← hm.frame a ha]
      exact getD_append_lt H.heap _ h1
    · exact hm.blue
    · exact hm.gp
    · exact hm.bo
    · simp [wr, upd, hm.instrK]; omega
    · intro j hj; simp [wr, upd, hj, hm.instrO j hj]
    · simp [wr, upd, hm.attrsK]; omega
    · intro j hj; simp [wr, upd, hj, hm.attrsO j hj]
    · intro p hp
      simp only [List.mem_append, List.mem_singleton] at hp
      rcases hp with hp | hp
      · exact hm.repl p hp
      · rw [hp]
  | noMatch p =>
    refine ⟨_, rfl, ?_⟩
    exact { cache := rfl, len := by simp; omega,
            frame := fun a ha => by
              rw [← hm.frame a ha]; exact getD_append_lt H.heap _ (by omega),
            blue := hm.blue, gp := hm.gp, bo := hm.bo, instrK := hm.instrK, instrO := hm.instrO,
            attrsK := hm.attrsK, attrsO := hm.attrsO, repl := hm.repl }
  | fuel =>
    refine ⟨_, rfl, ?_⟩
    exact { cache := rfl, len := by simp; omega,
            frame := fun a ha => by
              rw [← hm.frame a ha]; exact getD_append_lt H.heap _ (by omega),
            blue := hm.blue, gp := hm.gp, bo := hm.bo, instrK := hm.instrK, instrO := hm.instrO,
            attrsK := hm.attrsK, attrsO := hm.attrsO, repl := hm.repl }
  | bad =>
    refine ⟨_, rfl, ?_⟩
    exact { cache := rfl, len := by simp; omega,
            frame := fun a ha => by
              rw [← hm.frame a ha]; exact getD_append_lt H.heap _ (by omega),
            blue := hm.blue, gp := hm.gp, bo := hm.bo, instrK := hm.instrK, instrO := hm.instrO,
            attrsK := hm.attrsK, attrsO := hm.attrsO, repl := hm.repl }

theorem loadFiles_real (W : World) (sem : Sem) (k : Nat) (m : MM) (b : PObj) (H0 : Hidden)
    (ho : H0.baseOwner.isSome = true) :
    ∀ (xs : List Inp) (H : Hidden) (pr : Prog), Mid k H0 H pr →
      ∃ H', loadFiles real W sem k m b xs H pr = ((pureFiles W sem k m xs pr).1, H', (pureFiles W sem k m xs pr).2)
            ∧ Mid k H0 H' (pureFiles W sem k m xs pr).2 := by
  intro xs
  induction xs with
  | nil => intro H pr hm; exact ⟨H, rfl, hm⟩
  | cons x xs ih =>
    intro H pr hm
    obtain ⟨H1, h1, hm1⟩ := oneFile_real W sem k m b x H0 H pr hm ho
    simp only [loadFiles, pureFiles, h1]
    generalize pureOne W sem k m x pr = po at hm1 ⊢
    obtain ⟨r, pr1⟩ := po
    cases r with
    | none => simpa using ih H1 pr1 hm1
    | some fl => exact ⟨H1, rfl, hm1⟩

/-! ## giving everything back -/

theorem giveBackAll_spec (k : Nat) : ∀ (ps : List Live) (H : Hidden), (∀ p ∈ ps, p.replaced = true) →
    (giveBackAll k ps H).instr k = H.instr k - ps.length ∧
    (giveBackAll k ps H).objAttrs k = H.objAttrs k - (ps.map (·.allocated)).sum ∧
    (∀ j, j ≠ k → (giveBackAll k ps H).instr j = H.instr j ∧ (giveBackAll k ps H).objAttrs j = H.objAttrs j) ∧
    (giveBackAll k ps H).cache = H.cache ∧ (giveBackAll k ps H).heap = H.heap ∧
    (giveBackAll k ps H).blue = H.blue ∧ (giveBackAll k ps H).gp = H.gp ∧
    (giveBackAll k ps H).baseOwner = H.baseOwner := by
  intro ps
  induction ps with
  | nil => intro H _; simp [giveBackAll]
  | cons p ps ih =>
    intro H hrep
    have hp : p.replaced = true := hrep p (by simp)
    have ih' := ih (giveBack k p H) (fun q hq => hrep q (by simp [hq]))
    simp only [giveBackAll, List.foldl_cons] at ih' ⊢
    obtain ⟨i1, i2, i3, i4, i5, i6, i7, i8⟩ := ih'
    refine ⟨?_, ?_, ?_, ?_, ?_, ?_, ?_, ?_⟩
    · rw [i1]; simp [giveBack, hp, upd]; omega
    · rw [i2]; simp [giveBack, hp, upd]; omega
    · intro j hj
      obtain ⟨a, b⟩ := i3 j hj
      rw [a, b]; simp [giveBack, hp, upd, hj]
    · rw [i4]; simp [giveBack, hp]
    · rw [i5]; simp [giveBack, hp]
    · rw [i6]; simp [giveBack, hp]
    · rw [i7]; simp [giveBack, hp]
    · rw [i8]; simp [giveBack, hp]

/-- leaving a load: from `Mid` back to `Rest` -/
theorem rest_of_mid (k : Nat) (H0 H : Hidden) (pr : Prog) (hr : Rest H0) (hm : Mid k H0 H pr) :
    Rest (giveBackAll k pr.lives H) := by
  obtain ⟨i1, i2, i3, i4, i5, i6, i7, i8⟩ := giveBackAll_spec k pr.lives H hm.repl
  constructor
  · rw [i4]; exact hm.cache
  · intro j
    by_cases hj : j = k
    · subst hj; rw [i1, hm.instrK, hr.instr]; omega
    · rw [(i3 j hj).1, hm.instrO j hj]; exact hr.instr j
  · intro j
    by_cases hj : j = k
    · subst hj; rw [i2, hm.attrsK, hr.attrs]; omega
    · rw [(i3 j hj).2, hm.attrsO j hj]; exact hr.attrs j
  · intro j b hb
    rw [i6, hm.blue] at hb
    intro a ha
    obtain ⟨hlt, hempty⟩ := hr.blue j b hb a ha
    refine ⟨by rw [i5]; exact Nat.lt_of_lt_of_le hlt hm.len, ?_⟩
    have : rd (giveBackAll k pr.lives H) a = rd H a := by simp [rd, i5]
    rw [this, hm.frame a hlt]; exact hempty
  · intro j b hb
    rw [i6, hm.blue] at hb
    rw [i8, hm.bo]; exact hr.owner j b hb

theorem blue_of_mid (k : Nat) (H0 H : Hidden) (pr : Prog) (hm : Mid k H0 H pr) :
    (giveBackAll k pr.lives H).blue = H0.blue := by
  obtain ⟨_, _, _, _, _, i6, _, _⟩ := giveBackAll_spec k pr.lives H hm.repl
  rw [i6, hm.blue]

/-- **Main lemma.**  From a state at rest, a load of a created metamodel yields the history-free
outcome and returns to rest (the set of existing metamodels is of course unchanged). -/
theorem load_real (W : World) (sem : Sem) (k : Nat) (m : MM) (b : PObj) (files : List Inp) (H : Hidden)
    (hr : Rest H) (hk : W.mms[k]? = some m) (hb : H.blue k = some b) :
    (load real W sem k files H).1 = pureLoad W sem k m files ∧ Rest (load real W sem k files H).2 ∧
      (load real W sem k files H).2.blue = H.blue := by
  have ho := hr.owner k b hb
  obtain ⟨H', hl, hm⟩ := loadFiles_real W sem k m b H ho files H {} (Mid.start k H hr.cache)
  unfold load pureLoad
  simp only [hk, hb, hl]
  generalize pureFiles W sem k m files {} = pf at hm ⊢
  obtain ⟨r, pr⟩ := pf
  have hcount : H'.instr k = pr.lives.length := by
    have := hm.instrK; simp only [hr.instr] at this; simpa using this
  cases r with
  | some fl =>
    obtain ⟨ph, d⟩ := fl
    exact ⟨rfl, rest_of_mid k H H' pr hr hm, blue_of_mid k H H' pr hm⟩
  | none =>
    simp only [hcount]
    exact ⟨rfl, rest_of_mid k H H' pr hr hm, blue_of_mid k H H' pr hm⟩

theorem load_skip (v : Variant) (W : World) (sem : Sem) (k : Nat) (files : List Inp) (H : Hidden)
    (h : W.mms[k]? = none ∨ H.blue k = none) : load v W sem k files H = (skipOut, H) := by
  unfold load
  rcases h with h | h
  · simp [h, skipOut]
  · cases hk : W.mms[k]? <;> simp [h, skipOut]

/-! ## creation -/

theorem rest_empty : Rest empty :=
  { cache := rfl, instr := fun _ => rfl, attrs := fun _ => rfl,
    blue := by intro k b h; simp [empty] at h,
    owner := by intro k b h; simp [empty] at h }

theorem create_blue (W : World) (k : Nat) (H : Hidden) (m : MM) (hk : W.mms[k]? = some m) :
    ((create W k H).blue k).isSome = true := by
  simp [create, hk, upd]

theorem create_blue_other (W : World) (k j : Nat) (H : Hidden) (hj : j ≠ k) :
    (create W k H).blue j = H.blue j := by
  unfold create
  cases W.mms[k]? <;> simp [upd, hj]

theorem create_none (W : World) (k : Nat) (H : Hidden) (hk : W.mms[k]? = none) : create W k H = H := by
  simp [create, hk]

theorem rest_create (W : World) (k : Nat) (H : Hidden) (hr : Rest H) : Rest (create W k H) := by
  unfold create
  cases hk : W.mms[k]? with
  | none => exact hr
  | some m =>
    simp only []
    constructor
    · exact hr.cache
    · exact hr.instr
    · exact hr.attrs
    · intro j b hb
      simp only [upd] at hb
      by_cases hj : j = k
      · simp only [hj, ↓reduceIte, Option.some.injEq] at hb
        subst hb
        intro a ha
        simp only [List.mem_map, List.mem_range] at ha
        obtain ⟨i, hi, rfl⟩ := ha
        refine ⟨by simp; omega, ?_⟩
        exact getD_fresh H.heap hi
      · simp only [hj, ↓reduceIte] at hb
        intro a ha
        obtain ⟨hlt, he⟩ := hr.blue j b hb a ha
        refine ⟨by simp; omega, ?_⟩
        rw [← he]
        exact getD_append_lt H.heap _ hlt
    · intro j b _
      rfl

end History
