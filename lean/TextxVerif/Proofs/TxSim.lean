import TextxVerif.Tx.Sem
import TextxVerif.Tx.Doc
/-!
# Simulation: the Arpeggio mirror on a compiled table computes the documented PEG semantics

Fragment: expressions built from string matches, sequences, ordered choices,
`?`, `*`, `+` (no suppression, separators, eolterm, rule references), i.e. the
rule-free core of PEG, under `docExpr` (productive alternatives and repetition
bodies) and a token table without empty matches.

`Repr nodes e id`: the node `id` of the table stands for `e` (what `Tx.emit`
produces, see `TxEmit.lean`).  `sim`: for every fuel of either side, if neither
interpreter runs out of fuel, `Peg.parse` on the node and `Sem.pExpr` on the
expression agree on success / failure, on the end position and on the matched
tokens (`leaves`).
-/
namespace Tx.Sim
open Peg Tx

/-! ## what is compared -/

def key : Sem.Item → Nat × Nat × Nat
  | .tok _ _ t _ p l => (t, p, l)
  | _ => (0, 0, 0)

mutual
/-- the terminals of a parse tree, as (token, position, length) -/
def leaves (nodes : Array Node) : Val → List (Nat × Nat × Nat)
  | .none => []
  | .term id pos len => [(((nodes[id]?).map (·.tok)).getD 0, pos, len)]
  | .nt _ ks => leavesList nodes ks
  | .list ks => leavesList nodes ks
def leavesList (nodes : Array Node) : List Val → List (Nat × Nat × Nat)
  | [] => []
  | v :: vs => leaves nodes v ++ leavesList nodes vs
end

theorem leavesList_append (nodes : Array Node) (a b : List Val) :
    leavesList nodes (a ++ b) = leavesList nodes a ++ leavesList nodes b := by
  induction a with
  | nil => simp [leavesList]
  | cons v vs ih => simp [leavesList, ih]

theorem falsy_leaves (nodes : Array Node) (v : Val) (h : v.truthy = false) : leaves nodes v = [] := by
  cases v with
  | none => simp [leaves]
  | term => simp [Val.truthy] at h
  | nt id ks => cases ks with
    | nil => simp [leaves, leavesList]
    | cons => simp [Val.truthy] at h
  | list ks => cases ks with
    | nil => simp [leaves, leavesList]
    | cons => simp [Val.truthy] at h

/-! ## the table represents the expression -/

mutual
def Repr (nodes : Array Node) : Expr → Nat → Prop
  | .str t _ sup, id => ∃ nd, nodes[id]? = some nd ∧ nd.kind = .str ∧ nd.tok = t ∧ nd.suppress = sup ∧ nd.root = false
  | .seq xs sup, id => ∃ nd, nodes[id]? = some nd ∧ nd.kind = .seq ∧ nd.suppress = sup ∧ nd.root = false ∧
      nd.ws = none ∧ nd.skipws = none ∧ ReprList nodes xs nd.kids
  | .alt xs sup, id => ∃ nd, nodes[id]? = some nd ∧ nd.kind = .choice ∧ nd.suppress = sup ∧ nd.root = false ∧
      nd.ws = none ∧ nd.skipws = none ∧ ReprList nodes xs nd.kids
  | .rep op x none false sup, id => ∃ nd k, nodes[id]? = some nd ∧ nd.kind = repKind op ∧ nd.suppress = sup ∧
      nd.root = false ∧ nd.sep = none ∧ nd.eolterm = false ∧ nd.kids = [k] ∧ Repr nodes x k
  | _, _ => False
def ReprList (nodes : Array Node) : List Expr → List Nat → Prop
  | [], [] => True
  | x :: xs, k :: ks => Repr nodes x k ∧ ReprList nodes xs ks
  | _, _ => False
end

/-! ## hypotheses and invariant -/

structure Hyp (g : Grammar) (x : Sem.Env) : Prop where
  memo : g.memo = false
  comments : g.comments = none
  input : g.input = x.input
  toks : g.toks = x.toks
  nonempty : ∀ t p, x.tokLen t p ≠ some 0

/-- parser state and whitespace context agree; the comment cache is trivial (there is no comment model) -/
def Inv (c : Sem.Ctx) (s : PState) : Prop :=
  s.skipws = c.skipws ∧ s.ws = c.active ∧ s.inComments = false ∧ ∀ p ∈ s.commentPos, p.1 = p.2

theorem Inv.pos {c : Sem.Ctx} {s : PState} (h : Inv c s) (p : Nat) : Inv c { s with pos := p } := h

theorem Inv.nmRaise {c : Sem.Ctx} {s : PState} (h : Inv c s) (p : Nat) : Inv c (s.nmRaise p) := by
  unfold PState.nmRaise
  split
  · split
    · exact h
    · split <;> exact h
  · exact h

theorem lookup_trivial (l : List (Nat × Nat)) (h : ∀ p ∈ l, p.1 = p.2) (k v : Nat) (hl : l.lookup k = some v) :
    v = k := by
  induction l with
  | nil => simp [List.lookup] at hl
  | cons a as ih =>
    obtain ⟨a1, a2⟩ := a
    simp only [List.lookup] at hl
    split at hl
    · rename_i heq
      have := h (a1, a2) (by simp)
      simp at this hl heq
      omega
    · exact ih (fun p hp => h p (by simp [hp])) hl

theorem tokLen_eq {g : Grammar} {x : Sem.Env} (h : Hyp g x) (t p : Nat) : Peg.tokLen g t p = x.tokLen t p := by
  unfold Peg.tokLen Sem.Env.tokLen
  rw [h.toks]
  cases x.toks[t]? <;> rfl

/-- position at which a match is attempted: after whitespace skipping -/
def startPos (x : Sem.Env) (c : Sem.Ctx) (pos : Nat) : Nat :=
  if c.skipws then Peg.skipWsFrom x.input c.active (x.input.size + 1 - pos) pos else pos

theorem layout_none (x : Sem.Env) (c : Sem.Ctx) (f pos : Nat) :
    Sem.layout x none c (f+1) pos = startPos x c pos := by
  simp [Sem.layout, startPos, Sem.skipWsFrom]

/-- `Match.parse`, step 1: whitespace -/
def wsStep (g : Grammar) (s : PState) : PState := if s.skipws then skipWs g s else s

/-- `Match.parse`, step 2: comments (cache lookup or `_parse_comments`) -/
def preStep (pc : PState → Res × PState) (s : PState) : Res × PState :=
  match (if s.skipws then s.commentPos.lookup s.pos else .none) with
  | some p => (.ok .none, { s with pos := p })
  | .none =>
    if s.inComments then (.ok .none, s) else
      let start := s.pos
      match pc { s with inComments := true } with
      | (.ok _, s2) =>
          let s2 := { s2 with inComments := false }
          (.ok .none, { s2 with commentPos := (start, s2.pos) :: s2.commentPos })
      | (r, s2) => (r, { s2 with inComments := false })

/-- `Match.parse`, step 3: the match itself -/
def postStep (g : Grammar) (id : Nat) (nd : Node) (s : PState) : Res × PState :=
  let cpos := s.pos
  match nd.kind with
  | .eof =>
      if g.input.size = cpos then (.ok (if nd.suppress then .none else .term id cpos 0), s)
      else (.nomatch, s.nmRaise cpos)
  | .str =>
      match tokLen g nd.tok cpos with
      | some len => (.ok (if nd.suppress then .none else .term id cpos len), { s with pos := cpos + len })
      | .none => (.nomatch, s.nmRaise cpos)
  | _ =>
      match tokLen g nd.tok cpos with
      | some len =>
          (.ok (if nd.suppress || len = 0 then .none else .term id cpos len), { s with pos := cpos + len })
      | .none => (.nomatch, s.nmRaise cpos)

theorem matchNode_steps (g : Grammar) (pc : PState → Res × PState) (id : Nat) (nd : Node) (s : PState) :
    matchNode g pc id nd s =
      match preStep pc (wsStep g s) with
      | (.ok _, s1) => postStep g id nd s1
      | r => r := rfl

theorem wsStep_spec {g : Grammar} {x : Sem.Env} (h : Hyp g x) {c : Sem.Ctx} {s : PState} (hi : Inv c s) :
    Inv c (wsStep g s) ∧ (wsStep g s).pos = startPos x c s.pos := by
  obtain ⟨h1, h2, h3, h4⟩ := hi
  unfold wsStep startPos
  rw [h1]
  split
  · exact ⟨⟨h1, h2, h3, h4⟩, by simp [skipWs, h.input, h2]⟩
  · exact ⟨⟨h1, h2, h3, h4⟩, rfl⟩

/-- without a comment model the comment step changes nothing but the (trivial) cache -/
theorem preStep_spec {g : Grammar} {x : Sem.Env} (h : Hyp g x) {c : Sem.Ctx} {s0 : PState} (hi : Inv c s0)
    (p : SubParser) (k : Nat) :
    ∃ s1, Inv c s1 ∧ s1.pos = s0.pos ∧ preStep (commentsLoop g p k) s0 = (.ok .none, s1) := by
  obtain ⟨g1, g2, g3, g4⟩ := hi
  unfold preStep
  split
  · rename_i q hq
    split at hq
    · have := lookup_trivial _ g4 _ _ hq
      subst this
      exact ⟨_, ⟨g1, g2, g3, g4⟩, rfl, rfl⟩
    · simp at hq
  · simp only [g3, Bool.false_eq_true, if_false, commentsLoop, h.comments]
    refine ⟨{ { { s0 with inComments := true } with inComments := false } with
                commentPos := (s0.pos, s0.pos) :: s0.commentPos }, ⟨g1, g2, rfl, ?_⟩, rfl, rfl⟩
    intro q hq
    simp at hq
    rcases hq with rfl | hq
    · rfl
    · exact g4 q hq

/-- `Match.parse` of a string match without comment model -/
theorem matchNode_str {g : Grammar} {x : Sem.Env} (h : Hyp g x) {c : Sem.Ctx} {s : PState} (hi : Inv c s)
    (p : SubParser) (k id : Nat) (nd : Node) (hk : nd.kind = .str) :
    ∃ s', Inv c s' ∧
      ((x.tokLen nd.tok (startPos x c s.pos) = none ∧
          matchNode g (commentsLoop g p k) id nd s = (.nomatch, s')) ∨
       (∃ len, x.tokLen nd.tok (startPos x c s.pos) = some len ∧ s'.pos = startPos x c s.pos + len ∧
          matchNode g (commentsLoop g p k) id nd s =
            (.ok (if nd.suppress then .none else .term id (startPos x c s.pos) len), s'))) := by
  obtain ⟨i0, p0⟩ := wsStep_spec h hi
  obtain ⟨s1, i1, p1, e1⟩ := preStep_spec h i0 p k
  rw [matchNode_steps, e1]
  simp only [postStep, hk, tokLen_eq h, p1, p0]
  cases hl : x.tokLen nd.tok (startPos x c s.pos) with
  | none => exact ⟨_, i1.nmRaise _, Or.inl ⟨rfl, rfl⟩⟩
  | some len => exact ⟨_, i1.pos _, Or.inr ⟨len, rfl, rfl, by simp⟩⟩

/-! ## agreement of one run of each interpreter -/

/-- `pos0`: start position; `prod`: the expression is productive (`¬ falsy`) -/
def Rel (nodes : Array Node) (c : Sem.Ctx) (pos0 : Nat) (prod : Bool) (out : Res × PState)
    (sr : Sem.SRes (List Sem.Item)) : Prop :=
  match out.1, sr with
  | .fuel, _ => True
  | _, .fuel => True
  | .ok v, .ok p items =>
      out.2.pos = p ∧ Inv c out.2 ∧ leaves nodes v = items.map key ∧ pos0 ≤ p ∧
      (prod = true → v.truthy = true ∧ pos0 < p)
  | .nomatch, .fail => Inv c out.2
  | _, _ => False

theorem skipWsFrom_ge (input : Array Char) (ws : List Char) : ∀ f pos, pos ≤ Peg.skipWsFrom input ws f pos := by
  intro f
  induction f with
  | zero => intro pos; simp [Peg.skipWsFrom]
  | succ f ih =>
    intro pos
    simp only [Peg.skipWsFrom]
    split
    · split
      · exact Nat.le_trans (Nat.le_succ pos) (ih (pos+1))
      · exact Nat.le_refl _
    · exact Nat.le_refl _

theorem startPos_ge (x : Sem.Env) (c : Sem.Ctx) (pos : Nat) : pos ≤ startPos x c pos := by
  unfold startPos
  split
  · exact skipWsFrom_ge _ _ _ _
  · exact Nat.le_refl _

theorem withWsCtx_none (nd : Node) (body : PState → Res × PState) (s : PState) (h1 : nd.ws = none)
    (h2 : nd.skipws = none) : withWsCtx nd body s = body s := by
  simp [withWsCtx, h1, h2]

theorem withEol_false (nd : Node) (body : PState → Res × PState) (s : PState) (h1 : nd.eolterm = false) :
    withEol nd body s = body s := by
  simp [withEol, h1]

/-- `ParsingExpression.parse` without memoization -/
theorem wrap_plain (id : Nat) (nd : Node) (body : PState → Res × PState) (s : PState) :
    wrap false id nd body s =
      match body s with
      | (.ok v, s2) => (.ok (finish id nd v), s2)
      | (.nomatch, s2) => (.nomatch, { s2 with pos := s.pos })
      | r => r := by
  simp only [wrap, cacheHit, cacheStore]
  rcases body s with ⟨r, s2⟩
  cases r <;> simp

theorem finish_plain (id : Nat) (nd : Node) (v : Val) (h1 : nd.suppress = false) (h2 : nd.root = false)
    (h3 : ∀ rest, v ≠ .list (.none :: rest)) : finish id nd v = v := by
  unfold finish
  simp only [h1, h2, Bool.false_eq_true, if_false, Bool.false_and]

theorem finish_optnone (id : Nat) (nd : Node) (h1 : nd.suppress = false) (h2 : nd.root = false) :
    finish id nd (.list [.none]) = .none := by
  simp [finish, h1, h2, Val.truthy]

/-! ## the simulation -/

abbrev nf : Nat → Bool := fun _ => false
abbrev ff : String → Bool := fun _ => false

/-- induction hypothesis: children agree (sub-parser `p`, any fuel of the semantics) -/
def ChildOK (g : Grammar) (x : Sem.Env) (c : Sem.Ctx) (p : SubParser) : Prop :=
  ∀ e id s m, Repr g.nodes e id → docExpr nf ff e = true → Inv c s →
    Rel g.nodes c s.pos (!falsy nf ff e) (p id s) (Sem.pExpr x none m c e s.pos)

/-- agreement for the `Sequence._parse` loop -/
def RelSeq (nodes : Array Node) (c : Sem.Ctx) (pos0 : Nat) (prod : Bool) (out : Res × PState)
    (sr : Sem.SRes (List Sem.Item)) : Prop :=
  match out.1, sr with
  | .fuel, _ => True
  | _, .fuel => True
  | .ok v, .ok p items =>
      out.2.pos = p ∧ Inv c out.2 ∧ leaves nodes v = items.map key ∧ pos0 ≤ p ∧
      (∀ rest, v ≠ .list (.none :: rest)) ∧ (prod = true → v.truthy = true ∧ pos0 < p)
  | .nomatch, .fail => Inv c out.2
  | _, _ => False

theorem RelSeq.fuel_right (nodes : Array Node) (c : Sem.Ctx) (pos0 : Nat) (pr : Bool) (out : Res × PState) :
    RelSeq nodes c pos0 pr out .fuel := by
  unfold RelSeq
  split <;> first | trivial | simp_all

theorem Rel.fuel_right (nodes : Array Node) (c : Sem.Ctx) (pos0 : Nat) (pr : Bool) (out : Res × PState) :
    Rel nodes c pos0 pr out .fuel := by
  unfold Rel
  split <;> first | trivial | simp_all

theorem seq_sim {g : Grammar} {x : Sem.Env} {c : Sem.Ctx} {p : SubParser} (ih : ChildOK g x c p) :
    ∀ xs kids, ReprList g.nodes xs kids → docAll nf ff xs = true →
    ∀ s acc items m (pos0 : Nat) (pr : Bool), Inv c s → (∀ v ∈ acc, v.truthy = true) →
      leavesList g.nodes acc.reverse = items.map key → pos0 ≤ s.pos →
      (pr = true → acc ≠ [] ∧ pos0 < s.pos) →
      RelSeq g.nodes c pos0 (pr || !falsyAll nf ff xs) (seqLoop p kids s acc) (Sem.pSeq x none m c xs s.pos items) := by
  intro xs
  induction xs with
  | nil =>
    intro kids hr _ s acc items m pos0 pr hi hacc hl hp hpr
    cases kids with
    | cons => simp [ReprList] at hr
    | nil =>
      cases m with
      | zero => simp [Sem.pSeq, RelSeq]; split <;> trivial
      | succ m =>
        simp only [seqLoop, Sem.pSeq, RelSeq, falsyAll, Bool.not_true, Bool.or_false]
        refine ⟨by trivial, hi, ?_, hp, ?_, ?_⟩
        · cases acc with
          | nil => simpa [leaves, leavesList] using hl
          | cons a as => simpa [leaves] using hl
        · intro rest
          cases acc with
          | nil => simp
          | cons a as =>
            simp only [List.isEmpty_cons, Bool.false_eq_true, if_false]
            intro heq
            injection heq with heq
            have hmem : Val.none ∈ (a :: as) := List.mem_reverse.mp (by rw [heq]; simp)
            have := hacc _ hmem
            simp [Val.truthy] at this
        · intro hprt
          obtain ⟨hne, hlt⟩ := hpr hprt
          cases acc with
          | nil => exact absurd rfl hne
          | cons a as =>
            refine ⟨?_, hlt⟩
            simp only [List.isEmpty_cons, Bool.false_eq_true, if_false]
            cases hrev : (a :: as).reverse with
            | nil => simp at hrev
            | cons b bs => simp [Val.truthy]
  | cons e es ihs =>
    intro kids hr hd s acc items m pos0 pr hi hacc hl hp hpr
    cases kids with
    | nil => simp [ReprList] at hr
    | cons k ks =>
      obtain ⟨hr1, hr2⟩ := hr
      simp only [docAll, Bool.and_eq_true] at hd
      cases m with
      | zero => simp [Sem.pSeq, RelSeq]; split <;> trivial
      | succ m =>
        have h1 := ih e k s m hr1 hd.1 hi
        simp only [seqLoop, Sem.pSeq]
        unfold Rel at h1
        rcases hp1 : p k s with ⟨r1, s1⟩
        rw [hp1] at h1
        cases r1 with
        | fuel => simp [RelSeq]
        | bad => cases hs1 : Sem.pExpr x none m c e s.pos <;> simp [hs1] at h1 <;> simp [RelSeq]
        | «nomatch» =>
          cases hs1 : Sem.pExpr x none m c e s.pos <;> simp [hs1] at h1 <;> simp [RelSeq]
          exact h1
        | ok v =>
          cases hs1 : Sem.pExpr x none m c e s.pos with
          | fuel => exact RelSeq.fuel_right _ _ _ _ _
          | skip w => simp [hs1] at h1
          | fail => simp [hs1] at h1
          | ok p1 its =>
            rw [hs1] at h1
            simp only at h1
            obtain ⟨e1, i1, l1, le1, pr1⟩ := h1
            simp only
            have hrec := ihs ks hr2 hd.2 s1 (if v.truthy then v :: acc else acc) (items ++ its) m pos0
              (pr || !falsy nf ff e) i1
              (by intro u hu; split at hu
                  · rename_i ht; simp at hu; rcases hu with rfl | hu; exact ht; exact hacc u hu
                  · exact hacc u hu)
              (by split
                  · simp [leavesList_append, leavesList, hl, l1]
                  · rename_i ht
                    have := falsy_leaves g.nodes v (by simpa using ht)
                    simp [hl, ← l1, this])
              (by omega)
              (by intro hh
                  simp only [Bool.or_eq_true, Bool.not_eq_true'] at hh
                  rcases hh with hh | hh
                  · obtain ⟨a1, a2⟩ := hpr hh
                    refine ⟨?_, by omega⟩
                    split <;> simp [a1]
                  · obtain ⟨b1, b2⟩ := pr1 (by simp [hh])
                    refine ⟨by simp [b1], by omega⟩)
            rw [e1] at hrec
            simpa [falsyAll, Bool.or_assoc, Bool.not_and] using hrec

theorem choice_sim {g : Grammar} {x : Sem.Env} {c : Sem.Ctx} {p : SubParser} (ih : ChildOK g x c p) :
    ∀ xs kids, ReprList g.nodes xs kids → docAll nf ff xs = true → falsyAny nf ff xs = false →
    ∀ s m (cpos : Nat), Inv c s → s.pos = cpos →
      RelSeq g.nodes c cpos true (choiceLoop p kids cpos s) (Sem.pAlt x none m c xs cpos) := by
  intro xs
  induction xs with
  | nil =>
    intro kids hr _ _ s m cpos hi hp
    cases kids with
    | cons => simp [ReprList] at hr
    | nil =>
      cases m with
      | zero => simp only [Sem.pAlt]; exact RelSeq.fuel_right _ _ _ _ _
      | succ m => simpa [choiceLoop, Sem.pAlt, RelSeq] using hi
  | cons e es ihs =>
    intro kids hr hd hf s m cpos hi hp
    cases kids with
    | nil => simp [ReprList] at hr
    | cons k ks =>
      obtain ⟨hr1, hr2⟩ := hr
      simp only [docAll, Bool.and_eq_true] at hd
      simp only [falsyAny, Bool.or_eq_false_iff] at hf
      cases m with
      | zero => simp only [Sem.pAlt]; exact RelSeq.fuel_right _ _ _ _ _
      | succ m =>
        have h1 := ih e k s m hr1 hd.1 hi
        rw [hp] at h1
        simp only [choiceLoop, Sem.pAlt]
        unfold Rel at h1
        rcases hp1 : p k s with ⟨r1, s1⟩
        rw [hp1] at h1
        cases r1 with
        | fuel => simp [RelSeq]
        | bad => cases hs1 : Sem.pExpr x none m c e cpos <;> simp [hs1] at h1 <;> simp [RelSeq]
        | «nomatch» =>
          cases hs1 : Sem.pExpr x none m c e cpos with
          | fuel => exact RelSeq.fuel_right _ _ _ _ _
          | skip w => simp [hs1] at h1
          | ok => simp [hs1] at h1
          | fail =>
            simp only [hs1] at h1
            exact ihs ks hr2 hd.2 hf.2 { s1 with pos := cpos } m cpos (h1.pos cpos) rfl
        | ok v =>
          cases hs1 : Sem.pExpr x none m c e cpos with
          | fuel => exact RelSeq.fuel_right _ _ _ _ _
          | skip w => simp [hs1] at h1
          | fail => simp [hs1] at h1
          | ok p1 its =>
            rw [hs1] at h1
            simp only at h1
            obtain ⟨e1, i1, l1, le1, pr1⟩ := h1
            obtain ⟨t1, t2⟩ := pr1 (by simp [hf.1])
            cases v with
            | none => simp [Val.truthy] at t1
            | term a b d =>
              simp only [RelSeq]
              exact ⟨e1, i1, by simpa [leaves, leavesList] using l1, le1, by simp, fun _ => ⟨by simp [Val.truthy], t2⟩⟩
            | nt a b =>
              simp only [RelSeq]
              exact ⟨e1, i1, by simpa [leaves, leavesList] using l1, le1, by simp, fun _ => ⟨by simp [Val.truthy], t2⟩⟩
            | list b =>
              simp only [RelSeq]
              exact ⟨e1, i1, by simpa [leaves, leavesList] using l1, le1, by simp, fun _ => ⟨by simp [Val.truthy], t2⟩⟩

theorem rev_not_none_headed (acc : List Val) (h : ∀ v ∈ acc, v.truthy = true) (rest : List Val) :
    Val.list acc.reverse ≠ .list (.none :: rest) := by
  intro heq
  injection heq with heq
  have hmem : Val.none ∈ acc := List.mem_reverse.mp (by rw [heq]; simp)
  have := h _ hmem
  simp [Val.truthy] at this

theorem truthy_rev (acc : List Val) (h : acc ≠ []) : (Val.list acc.reverse).truthy = true := by
  cases hr : acc.reverse with
  | nil => simp at hr; exact absurd hr h
  | cons b bs => simp [Val.truthy]

/-- agreement for the `while` loop of `ZeroOrMore` / `OneOrMore` (no separator) -/
def RelRep (nodes : Array Node) (c : Sem.Ctx) (pos0 : Nat) (first need : Bool) (out : Res × PState)
    (sr : Sem.SRes (List Sem.Item)) : Prop :=
  match out.1, sr with
  | .fuel, _ => True
  | _, .fuel => True
  | .ok v, .ok p items =>
      out.2.pos = p ∧ Inv c out.2 ∧ leaves nodes v = items.map key ∧ pos0 ≤ p ∧
      (∀ rest, v ≠ .list (.none :: rest)) ∧ (need = true → v.truthy = true ∧ pos0 < p)
  | .nomatch, .ok p items => first = true ∧ p = pos0 ∧ items = [] ∧ Inv c out.2
  | _, _ => False

theorem RelRep.fuel_right (nodes : Array Node) (c : Sem.Ctx) (pos0 : Nat) (fi pr : Bool) (out : Res × PState) :
    RelRep nodes c pos0 fi pr out .fuel := by
  unfold RelRep
  split <;> first | trivial | simp_all

theorem RelRep.weaken {nodes : Array Node} {c : Sem.Ctx} {pos0 : Nat} {need : Bool} {out : Res × PState}
    {sr : Sem.SRes (List Sem.Item)} (h : RelRep nodes c pos0 false need out sr) (first : Bool) :
    RelRep nodes c pos0 first need out sr := by
  unfold RelRep at h ⊢
  split <;> simp_all

theorem rep_sim {g : Grammar} {x : Sem.Env} {c : Sem.Ctx} {p : SubParser} (ih : ChildOK g x c p)
    (e : Expr) (kid : Nat) (hr : Repr g.nodes e kid) (hd : docExpr nf ff e = true) (hf : falsy nf ff e = false) :
    ∀ k s acc items m (first prev fst need : Bool) (pos0 : Nat), Inv c s → (∀ v ∈ acc, v.truthy = true) →
      leavesList g.nodes acc.reverse = items.map key → pos0 ≤ s.pos →
      (first = true → items = [] ∧ s.pos = pos0) →
      (need = true → first = true ∨ (acc ≠ [] ∧ pos0 < s.pos)) →
      RelRep g.nodes c pos0 first need (repLoop p kid none k s acc first prev)
        (Sem.pRep x none m c e none s.pos items fst) := by
  intro k
  induction k with
  | zero => intro s acc items m first prev fst need pos0 _ _ _ _ _ _; simp [repLoop, RelRep]
  | succ k ihk =>
    intro s acc items m first prev fst need pos0 hi hacc hl hp hfirst hneed
    cases m with
    | zero => simp only [Sem.pRep]; exact RelRep.fuel_right _ _ _ _ _ _
    | succ m =>
      have h1 := ih e kid s m hr hd hi
      have hsp : (match (none : Option Sep), fst with
          | some s', false => (none : Option (Nat × List Sem.Item))
          | _, _ => some (s.pos, [])) = some (s.pos, []) := by cases fst <;> rfl
      simp only [repLoop, Sem.pRep]
      unfold Rel at h1
      rcases hp1 : p kid s with ⟨r1, s1⟩
      rw [hp1] at h1
      cases r1 with
      | fuel => simp [RelRep]
      | bad => cases hs1 : Sem.pExpr x none m c e s.pos <;> simp [hs1] at h1 <;> simp [RelRep]
      | «nomatch» =>
        cases hs1 : Sem.pExpr x none m c e s.pos with
        | fuel => cases fst <;> exact RelRep.fuel_right _ _ _ _ _ _
        | skip w => simp [hs1] at h1
        | ok => simp [hs1] at h1
        | fail =>
          simp only [hs1] at h1
          cases hfst : first with
          | true =>
            obtain ⟨a1, a2⟩ := hfirst hfst
            cases fst <;> simp [RelRep, a1, a2] <;> exact h1.pos _
          | false =>
            have hn : need = true → acc ≠ [] ∧ pos0 < s.pos := by
              intro hh; rcases hneed hh with h' | h'
              · simp [hfst] at h'
              · exact h'
            cases fst <;> simp only [RelRep, Bool.false_eq_true, if_false] <;>
              exact ⟨trivial, h1.pos _, by simpa [leaves] using hl, hp, rev_not_none_headed acc hacc,
                fun hh => ⟨truthy_rev acc (hn hh).1, (hn hh).2⟩⟩
      | ok v =>
        cases hs1 : Sem.pExpr x none m c e s.pos with
        | fuel => cases fst <;> exact RelRep.fuel_right _ _ _ _ _ _
        | skip w => simp [hs1] at h1
        | fail => simp [hs1] at h1
        | ok p1 its =>
          rw [hs1] at h1
          simp only at h1
          obtain ⟨e1, i1, l1, le1, pr1⟩ := h1
          obtain ⟨t1, t2⟩ := pr1 (by simp [hf])
          have hne : p1 ≠ s.pos := by omega
          have hrec := ihk s1 (v :: acc) (items ++ [] ++ its) m false true false need pos0 i1
            (by intro u hu; simp at hu; rcases hu with rfl | hu; exact t1; exact hacc u hu)
            (by simp [leavesList_append, leavesList, hl, l1])
            (by omega) (by simp) (by intro _; exact Or.inr ⟨by simp, by omega⟩)
          rw [e1] at hrec
          have hrec := hrec.weaken first
          cases fst <;> simpa [t1, hne] using hrec

/-- the epilogue of `ParsingExpression.parse` (no memoization) -/
def post (id : Nat) (nd : Node) (cpos : Nat) : Res × PState → Res × PState
  | (.ok v, s2) => (.ok (finish id nd v), s2)
  | (.nomatch, s2) => (.nomatch, { s2 with pos := cpos })
  | r => r

theorem wrap_post (id : Nat) (nd : Node) (body : PState → Res × PState) (s : PState) :
    wrap false id nd body s = post id nd s.pos (body s) := by
  rw [wrap_plain]
  rcases body s with ⟨r, s2⟩
  cases r <;> rfl

/-- a loop result that agrees (`RelSeq` / `RelRep` shape) still agrees after the epilogue -/
theorem RelSeq.post {nodes : Array Node} {c : Sem.Ctx} {pos0 : Nat} {pr : Bool} {out : Res × PState}
    {sr : Sem.SRes (List Sem.Item)} (h : RelSeq nodes c pos0 pr out sr) (id : Nat) (nd : Node) (cpos : Nat)
    (h1 : nd.suppress = false) (h2 : nd.root = false) : Rel nodes c pos0 pr (post id nd cpos out) sr := by
  obtain ⟨r, s2⟩ := out
  unfold RelSeq at h
  cases r with
  | fuel => simp [Sim.post, Rel]
  | bad => cases sr <;> simp at h <;> simp [Sim.post, Rel]
  | «nomatch» => cases sr <;> simp at h <;> simp [Sim.post, Rel]; exact h.pos _
  | ok v =>
    cases sr with
    | fuel => exact Rel.fuel_right _ _ _ _ _
    | skip => simp at h
    | fail => simp at h
    | ok p its =>
      simp only at h
      obtain ⟨a1, a2, a3, a4, a5, a6⟩ := h
      simp only [Sim.post, Rel, finish_plain id nd v h1 h2 a5]
      exact ⟨a1, a2, a3, a4, a6⟩

/-- the suppression epilogue of `Sem.pExpr` -/
def supWrap (sup : Bool) : Sem.SRes (List Sem.Item) → Sem.SRes (List Sem.Item)
  | .ok p items => .ok p (if sup then [] else items)
  | r => r

theorem finish_sup (id : Nat) (nd : Node) (v : Val) (h1 : nd.suppress = true) : finish id nd v = .none := by
  simp [finish, h1, Val.truthy]

/-- epilogue of both sides after a `RelSeq` loop result; `sup` = the node's suppression flag -/
theorem RelSeq.postS {nodes : Array Node} {c : Sem.Ctx} {pos0 : Nat} {pr : Bool} {out : Res × PState}
    {sr : Sem.SRes (List Sem.Item)} (h : RelSeq nodes c pos0 pr out sr) (id : Nat) (nd : Node) (cpos : Nat)
    (sup : Bool) (h1 : nd.suppress = sup) (h2 : nd.root = false) :
    Rel nodes c pos0 (pr && !sup) (Sim.post id nd cpos out) (supWrap sup sr) := by
  cases sup with
  | false =>
    have := h.post id nd cpos h1 h2
    cases sr <;> simpa [supWrap] using this
  | true =>
    obtain ⟨r, s2⟩ := out
    unfold RelSeq at h
    cases r with
    | fuel => simp [Sim.post, Rel]
    | bad => cases sr <;> simp at h <;> simp [Sim.post, Rel, supWrap]
    | «nomatch» => cases sr <;> simp at h <;> simp [Sim.post, Rel, supWrap]; exact h.pos _
    | ok v =>
      cases sr with
      | fuel => exact Rel.fuel_right _ _ _ _ _
      | skip => simp at h
      | fail => simp at h
      | ok p its =>
        simp only at h
        obtain ⟨a1, a2, a3, a4, a5, a6⟩ := h
        simp only [Sim.post, Rel, supWrap, finish_sup id nd v h1]
        exact ⟨a1, a2, by simp [leaves], a4, by simp⟩

/-- the same after a repetition loop that is past its first element -/
theorem RelRep.postS {nodes : Array Node} {c : Sem.Ctx} {pos0 : Nat} {need : Bool} {out : Res × PState}
    {sr : Sem.SRes (List Sem.Item)} (h : RelRep nodes c pos0 false need out sr) (id : Nat) (nd : Node) (cpos : Nat)
    (sup : Bool) (h1 : nd.suppress = sup) (h2 : nd.root = false) :
    Rel nodes c pos0 (need && !sup) (Sim.post id nd cpos out) (supWrap sup sr) := by
  have hs : RelSeq nodes c pos0 need out sr := by
    obtain ⟨r, s2⟩ := out
    unfold RelRep at h
    unfold RelSeq
    cases r <;> cases sr <;> simp at h ⊢ <;> exact h
  exact hs.postS id nd cpos sup h1 h2

/-! unfolding lemmas for `Sem.pExpr` on the fragment -/

theorem pExpr_seq (x : Sem.Env) (cm : Option Nat) (m : Nat) (c : Sem.Ctx) (xs : List Expr) (sup : Bool) (pos : Nat) :
    Sem.pExpr x cm (m+1) c (.seq xs sup) pos = supWrap sup (Sem.pSeq x cm m c xs pos []) := by
  simp only [Sem.pExpr, Expr.sup]
  cases Sem.pSeq x cm m c xs pos [] <;> rfl

theorem pExpr_alt (x : Sem.Env) (cm : Option Nat) (m : Nat) (c : Sem.Ctx) (xs : List Expr) (sup : Bool) (pos : Nat) :
    Sem.pExpr x cm (m+1) c (.alt xs sup) pos = supWrap sup (Sem.pAlt x cm m c xs pos) := by
  simp only [Sem.pExpr, Expr.sup]
  cases Sem.pAlt x cm m c xs pos <;> rfl

theorem pExpr_opt (x : Sem.Env) (cm : Option Nat) (m : Nat) (c : Sem.Ctx) (y : Expr) (sup : Bool) (pos : Nat) :
    Sem.pExpr x cm (m+1) c (.rep .opt y none false sup) pos =
      supWrap sup (match Sem.pExpr x cm m c y pos with
        | .fail => .ok pos []
        | r => r) := by
  simp only [Sem.pExpr, Expr.sup]
  cases Sem.pExpr x cm m c y pos <;> rfl

theorem pExpr_star (x : Sem.Env) (cm : Option Nat) (m : Nat) (c : Sem.Ctx) (y : Expr) (sup : Bool) (pos : Nat) :
    Sem.pExpr x cm (m+1) c (.rep .star y none false sup) pos =
      supWrap sup (Sem.pRep x cm m c y none pos [] true) := by
  simp only [Sem.pExpr, Expr.sup, Bool.false_eq_true, ↓reduceIte]
  cases Sem.pRep x cm m c y none pos [] true <;> rfl

theorem pExpr_plus (x : Sem.Env) (cm : Option Nat) (m : Nat) (c : Sem.Ctx) (y : Expr) (sup : Bool) (pos : Nat) :
    Sem.pExpr x cm (m+1) c (.rep .plus y none false sup) pos =
      supWrap sup (match Sem.pExpr x cm m c y pos with
        | .ok p1 items1 => if p1 = pos then .ok p1 items1 else Sem.pRep x cm m c y none p1 items1 false
        | r => r) := by
  simp only [Sem.pExpr, Expr.sup, Bool.false_eq_true, ↓reduceIte]
  cases Sem.pExpr x cm m c y pos with
  | ok p1 items1 =>
    by_cases hpp : p1 = pos
    · simp [hpp, supWrap]; cases sup <;> rfl
    · simp only [hpp, ↓reduceIte]
      cases Sem.pRep x cm m c y none p1 items1 false <;> rfl
  | _ => rfl

/-- **Simulation.**  On a table that represents `e`, the Arpeggio mirror and the documented
semantics agree whenever neither runs out of fuel. -/
theorem sim {g : Grammar} {x : Sem.Env} (h : Hyp g x) (c : Sem.Ctx) (hc : c.eol = false) :
    ∀ n, ChildOK g x c (parse g n) := by
  intro n
  induction n with
  | zero => intro e id s m _ _ _; simp [parse, Rel]
  | succ n ihn =>
    intro e id s m hr hd hi
    cases m with
    | zero => simp only [Sem.pExpr]; exact Rel.fuel_right _ _ _ _ _
    | succ m =>
      cases e with
      | str t v sup =>
        obtain ⟨nd, hnd, hk, ht, hs, hroot⟩ := hr
        obtain ⟨s', i', hm⟩ := matchNode_str h hi (parse g n) n id nd hk
        simp only [parse, nodeParse, hnd, hk, Sem.pExpr, layout_none, Expr.sup, ← ht, hs] at hm ⊢
        rcases hm with ⟨hn, he⟩ | ⟨len, hl, hp, he⟩
        · rw [he, hn]; simpa [Rel] using i'
        · rw [he, hl]
          have hge := startPos_ge x c s.pos
          have hlen : len ≠ 0 := fun h0 => h.nonempty _ _ (h0 ▸ hl)
          cases sup with
          | true => simp only [Rel, if_true]; exact ⟨hp, i', by simp [leaves], by omega, by simp [falsy]⟩
          | false =>
            simp only [Rel, Bool.false_eq_true, if_false]
            exact ⟨hp, i', by simp [leaves, key, hnd], by omega, fun _ => ⟨by simp [Val.truthy], by omega⟩⟩
      | seq xs sup =>
        obtain ⟨nd, hnd, hk, hs, hroot, hws, hsk, hkids⟩ := hr
        have hseq := seq_sim ihn xs nd.kids hkids (by simpa [docExpr] using hd) s [] [] m s.pos false hi
          (by simp) (by simp [leavesList]) (Nat.le_refl _) (by simp)
        simp only [Bool.false_or] at hseq
        have := hseq.postS id nd s.pos sup hs hroot
        simp only [parse, nodeParse, hnd, hk, h.memo, wrap_post, bodyNode, withWsCtx_none _ _ _ hws hsk,
          pExpr_seq, falsy]
        rcases hl : seqLoop (parse g n) nd.kids s [] with ⟨r, s2⟩
        rw [hl] at this
        have hb : (!(sup || falsyAll nf ff xs)) = (!falsyAll nf ff xs && !sup) := by
          cases sup <;> cases falsyAll nf ff xs <;> rfl
        rw [hb]
        cases r <;> simpa [Sim.post] using this
      | alt xs sup =>
        obtain ⟨nd, hnd, hk, hs, hroot, hws, hsk, hkids⟩ := hr
        simp only [docExpr, Bool.and_eq_true, Bool.not_eq_true'] at hd
        have hseq := choice_sim ihn xs nd.kids hkids hd.2 hd.1 s m s.pos hi rfl
        simp only [parse, nodeParse, hnd, hk, h.memo, wrap_post, bodyNode, withWsCtx_none _ _ _ hws hsk,
          pExpr_alt, falsy, hd.1, Bool.or_false]
        rcases hl : choiceLoop (parse g n) nd.kids s.pos s with ⟨r, s2⟩
        rw [hl] at hseq
        have hseq' : RelSeq g.nodes c s.pos true
            (match ((r, s2) : Res × PState) with
              | (.nomatch, s2) => (.nomatch, s2.nmRaise s.pos)
              | r => r) (Sem.pAlt x none m c xs s.pos) := by
          cases r with
          | «nomatch» =>
            unfold RelSeq at hseq ⊢
            cases hps : Sem.pAlt x none m c xs s.pos <;> rw [hps] at hseq <;> simp at hseq ⊢
            exact hseq.nmRaise _
          | _ => exact hseq
        have := hseq'.postS id nd s.pos sup hs hroot
        cases r <;> simpa [Sim.post] using this
      | rep op y sep eol sup =>
        cases sep with
        | some _ => simp [Repr] at hr
        | none =>
        cases eol with
        | true => simp [Repr] at hr
        | false =>
          obtain ⟨nd, kid, hnd, hk, hs, hroot, hsep, heol, hkids, hry⟩ := hr
          simp only [docExpr, Bool.and_eq_true, Bool.not_eq_true'] at hd
          cases op with
          | opt =>
            have h1 := ihn y kid s m hry hd.2 hi
            simp only [repKind] at hk
            simp only [parse, nodeParse, hnd, hk, h.memo, wrap_post, bodyNode, hkids, pExpr_opt, falsy,
              Bool.or_true, Bool.not_true]
            unfold Rel at h1
            rcases hp1 : parse g n kid s with ⟨r1, s1⟩
            rw [hp1] at h1
            cases r1 with
            | fuel => simp [Sim.post, Rel]
            | bad => cases hs1 : Sem.pExpr x none m c y s.pos <;> simp [hs1] at h1 <;> simp [Sim.post, Rel, supWrap]
            | «nomatch» =>
              cases hs1 : Sem.pExpr x none m c y s.pos <;> simp [hs1] at h1 <;> simp [Sim.post, Rel, supWrap]
              refine ⟨h1.pos _, ?_⟩
              cases sup
              · simp [finish, hs, hroot, leaves]
              · simp [finish_sup id nd _ hs, leaves]
            | ok v =>
              cases hs1 : Sem.pExpr x none m c y s.pos with
              | fuel => exact Rel.fuel_right _ _ _ _ _
              | skip w => simp [hs1] at h1
              | fail => simp [hs1] at h1
              | ok p1 its =>
                rw [hs1] at h1
                simp only at h1
                obtain ⟨e1, i1, l1, le1, _⟩ := h1
                simp only [Sim.post, Rel, supWrap, Bool.false_eq_true, false_implies, and_true]
                refine ⟨e1, i1, ?_, le1⟩
                cases sup with
                | true => simp [finish_sup id nd _ hs, leaves]
                | false =>
                  simp only [Bool.false_eq_true, if_false]
                  cases v with
                  | none => simpa [finish_optnone id nd hs hroot, leaves] using l1
                  | term a b d =>
                    rw [finish_plain id nd _ hs hroot (by simp)]; simpa [leaves, leavesList] using l1
                  | nt a b =>
                    rw [finish_plain id nd _ hs hroot (by simp)]; simpa [leaves, leavesList] using l1
                  | list b =>
                    rw [finish_plain id nd _ hs hroot (by simp)]; simpa [leaves, leavesList] using l1
          | star =>
            have hf : falsy nf ff y = false := hd.1
            have hrep := rep_sim ihn y kid hry hd.2 hf n s [] [] m false false true false s.pos hi (by simp)
              (by simp [leavesList]) (Nat.le_refl _) (by simp) (by simp)
            simp only [repKind] at hk
            simp only [parse, nodeParse, hnd, hk, h.memo, wrap_post, bodyNode, hkids, hsep,
              withEol_false _ _ _ heol, pExpr_star, falsy, Bool.or_true, Bool.not_true]
            have := hrep.postS id nd s.pos sup hs hroot
            simpa using this
          | plus =>
            have hf : falsy nf ff y = false := hd.1
            simp only [repKind] at hk
            simp only [parse, nodeParse, hnd, hk, h.memo, wrap_post, bodyNode, hkids, hsep,
              withEol_false _ _ _ heol, pExpr_plus, falsy, hf, Bool.or_false]
            -- first iteration of the loop = the mandatory first element
            cases n with
            | zero => simp [repLoop, Sim.post, Rel]
            | succ k =>
              have h1 := ihn y kid s m hry hd.2 hi
              simp only [repLoop]
              unfold Rel at h1
              rcases hp1 : parse g (k+1) kid s with ⟨r1, s1⟩
              rw [hp1] at h1
              cases r1 with
              | fuel => simp [Sim.post, Rel]
              | bad => cases hs1 : Sem.pExpr x none m c y s.pos <;> simp [hs1] at h1 <;> simp [Sim.post, Rel, supWrap]
              | «nomatch» =>
                cases hs1 : Sem.pExpr x none m c y s.pos <;> simp [hs1] at h1 <;> simp [Sim.post, Rel, supWrap]
                exact h1.pos _
              | ok v =>
                cases hs1 : Sem.pExpr x none m c y s.pos with
                | fuel => exact Rel.fuel_right _ _ _ _ _
                | skip w => simp [hs1] at h1
                | fail => simp [hs1] at h1
                | ok p1 its =>
                  rw [hs1] at h1
                  simp only at h1
                  obtain ⟨e1, i1, l1, le1, pr1⟩ := h1
                  obtain ⟨t1, t2⟩ := pr1 (by simp [hf])
                  have hne : p1 ≠ s.pos := by omega
                  have hrep := rep_sim ihn y kid hry hd.2 hf k s1 [v] its m false true false true s.pos i1
                    (by intro u hu; simp at hu; subst hu; exact t1)
                    (by simp [leavesList, l1]) (by omega) (by simp) (by intro _; exact Or.inr ⟨by simp, by omega⟩)
                  rw [e1] at hrep
                  simp only [t1, hne, ↓reduceIte]
                  have := hrep.postS id nd s.pos sup hs hroot
                  simpa using this
      | _ => simp [Repr] at hr

end Tx.Sim
