import TextxVerif.RepoEntry
import TextxVerif.Proofs.RepoLookup
/-!
The other entry points of a load (`Repo.loadStr`, `Repo.preload`, TextxVerif/RepoEntry.lean)
reduced to the main load `loadMain`:

* a model without file name that issues at least one `load_model` call, or a metamodel
  without global repository: `loadStr = loadMain` on the invented (fresh) name
  (`loadStr_eq_loadMain`) — the first `registerSelf` stores the model exactly where the
  metamodel's callback would have stored it;
* no call at all: the load is the `is_main_model` part alone (`loadStr_nocalls`);
* `preload` is a sequence of main loads on one dict.

`LoadOK` is what every successful load establishes, whatever its entry point.
-/
namespace Repo

/-! ## invented names are fresh -/

theorem anonFrom_fresh (d : Dict) : ∀ (fuel : Nat) (a : File),
    (d.filter (fun e => decide (a ≤ e.1))).length < fuel → anonFrom d fuel a ∉ d.keys := by
  intro fuel
  induction fuel with
  | zero => intro a h; exact absurd h (Nat.not_lt_zero _)
  | succ fuel ih =>
    intro a h
    unfold anonFrom
    split
    · rename_i hh
      apply ih
      have hk : a ∈ d.keys := (Dict.has_iff _ _).1 hh
      obtain ⟨e, he, hea⟩ := List.mem_map.1 hk
      have hea' : e.1 = a := hea
      have h2 : (d.filter (fun e => decide (a + 1 ≤ e.1))).length < (d.filter (fun e => decide (a ≤ e.1))).length :=
        filter_len_lt (fun e : File × Inst => decide (a ≤ e.1)) (fun e => decide (a + 1 ≤ e.1)) d
          (fun x _ hx => decide_eq_true (Nat.le_of_succ_le (of_decide_eq_true hx)))
          e he (by simp [hea']) (by simp [hea'])
      exact Nat.lt_of_lt_of_le h2 (Nat.le_of_lt_succ h)
    · rename_i hh
      exact (Dict.has_false_iff _ _).1 (by simpa using hh)

/-- the name invented for a model without file name is not a key of the dict -/
theorem anonKey_fresh (a0 : File) (d : Dict) : anonKey a0 d ∉ d.keys :=
  anonFrom_fresh d _ a0 (Nat.lt_succ_of_le (List.length_filter_le _ _))

/-! ## the model without file name -/

/-- the state in which the imports of a model without file name are followed -/
def strStart (S : Spec) (b : St) (a : File) : St := ({ b with reads := a :: b.reads } : St).alloc S a

theorem loadStr_unfold (S : Spec) (fuel : Nat) (st0 : St) (a : File) :
    loadStr S fuel st0 a =
      if S.syntaxErr a then ({ base S st0 with reads := a :: (base S st0).reads }, .fail .syntax, 0)
      else match loadCalls (internal S fuel) (base S st0).next (strStart S (base S st0) a) (S.calls a) with
        | (st1, .fuel) => (st1, .fuel, 0)
        | (st1, .fail k) => (cleanupA st1 (base S st0).next, .fail k, 0)
        | (st1, .ok) => finishMain S (base S st0) a st1 := by
  rfl

theorem strStart_fileOf (S : Spec) (b : St) (a : File) : (strStart S b a).fileOf b.next = a := by
  simp [strStart, St.alloc, upd]

theorem mainStart_of_glob (S : Spec) (b : St) (a : File) (hg : S.glob = true) :
    mainStart S b a = (strStart S b a).setAll a b.next := by
  unfold mainStart strStart
  simp [hg]

theorem mainStart_of_noGlob (S : Spec) (b : St) (a : File) (hg : S.glob = false) :
    mainStart S b a = strStart S b a := by
  unfold mainStart strStart
  simp [hg]

/-- the first `update_model_in_repo_based_on_filename` stores the model where the callback of the
metamodel stores a model with a file name -/
theorem registerSelf_strStart (S : Spec) (b : St) (a : File) (ha : a ∉ b.all.keys) :
    (strStart S b a).registerSelf b.next = (strStart S b a).setAll a b.next := by
  unfold St.registerSelf
  rw [strStart_fileOf]
  have : (strStart S b a).all.has a = false := (Dict.has_false_iff _ _).2 ha
  simp [this]

theorem registerSelf_setAll_strStart (S : Spec) (b : St) (a : File) :
    ((strStart S b a).setAll a b.next).registerSelf b.next = (strStart S b a).setAll a b.next := by
  unfold St.registerSelf
  have hf : ((strStart S b a).setAll a b.next).fileOf b.next = a := strStart_fileOf S b a
  rw [hf]
  have : ((strStart S b a).setAll a b.next).all.has a = true :=
    (Dict.has_iff _ _).2 (Dict.mem_keys_set _ _ _)
  simp [this]

/-- A model without file name is loaded like a file with the invented name — unless the
metamodel has a global repository and the model issues no `load_model` call (then nothing
registers it). -/
theorem loadStr_eq_loadMain (S : Spec) (fuel : Nat) (st0 : St) (a : File) (ha : a ∉ (base S st0).all.keys)
    (h : S.glob = false ∨ S.calls a ≠ []) : loadStr S fuel st0 a = loadMain S fuel st0 a := by
  rw [loadStr_unfold, loadMain_unfold]
  have hh : (base S st0).all.has a = false := (Dict.has_false_iff _ _).2 ha
  have hstart : loadCalls (internal S fuel) (base S st0).next (strStart S (base S st0) a) (S.calls a)
      = loadCalls (internal S fuel) (base S st0).next (mainStart S (base S st0) a) (S.calls a) := by
    cases hg : S.glob with
    | false => rw [mainStart_of_noGlob S _ a hg]
    | true =>
      rcases h with h | h
      · rw [hg] at h; cases h
      · cases hc : S.calls a with
        | nil => exact absurd hc h
        | cons c cs =>
          rw [mainStart_of_glob S _ a hg]
          simp only [loadCalls]
          rw [registerSelf_strStart S _ a ha, registerSelf_setAll_strStart]
  rw [hstart, hh, Bool.and_false]
  rfl

theorem loadStr_nocalls (S : Spec) (fuel : Nat) (st0 : St) (a : File) (hc : S.calls a = []) :
    loadStr S fuel st0 a =
      if S.syntaxErr a then ({ base S st0 with reads := a :: (base S st0).reads }, .fail .syntax, 0)
      else finishMain S (base S st0) a (strStart S (base S st0) a) := by
  rw [loadStr_unfold, hc]
  rfl

theorem strStart_facts (S : Spec) {b : St} (hwf : WF b) (a : File) :
    Inv b.all b.next b.loc (strStart S b a) ∧ Good b.next (strStart S b a) ∧ Stable b (strStart S b a) ∧
      b.next < (strStart S b a).next ∧ (strStart S b a).constr b.next = true ∧
      (strStart S b a).reads = a :: b.reads := by
  unfold strStart
  refine ⟨alloc_inv hwf.baseOK (reads_inv hwf.inv _) S a, alloc_good (reads_good hwf.good _) S a, ?_, ?_, ?_, rfl⟩
  · exact Stable.trans (Stable.of_eq rfl rfl rfl : Stable b ({ b with reads := a :: b.reads } : St))
      (alloc_stable _ S a)
  · exact Nat.lt_succ_self _
  · simp [St.alloc, upd]

/-! ## what every successful load establishes -/

structure LoadOK (S : Spec) (b : St) (f : File) (st' : St) (j : Inst) : Prop where
  wf : WF st'
  invW : InvW b.all b.next b.loc st'
  stable : Stable b st'
  locJ : ∀ x ∈ st'.loc j, x ∈ st'.all
  fileJ : st'.fileOf j = f
  ltJ : j < st'.next
  tgt : ∀ m, b.next ≤ m → m ∈ included st' j → (st'.tgt m).map some = resolveAll S st' m

theorem MainOK.toLoad {S : Spec} {b : St} {f : File} {st' : St} {j : Inst} (h : MainOK S b f st' j) :
    LoadOK S b f st' j :=
  ⟨h.wf, h.invW, h.stable, h.locJ, h.fileJ, h.ltJ, h.tgt⟩

/-- the same metamodel without its global repository -/
def noGlob (S : Spec) : Spec := { S with glob := false }

theorem resolveAll_noGlob (S : Spec) (st : St) (m : Inst) : resolveAll (noGlob S) st m = resolveAll S st m := rfl
theorem setTargets_noGlob (S : Spec) (st : St) (ms : List Inst) : st.setTargets (noGlob S) ms = st.setTargets S ms := rfl
theorem noGlob_objFault (S : Spec) : (noGlob S).objFault = S.objFault := rfl
theorem noGlob_modFault (S : Spec) : (noGlob S).modFault = S.modFault := rfl

theorem finishMain_noGlob_ok (S : Spec) (b : St) (f : File) (st1 st' : St) (j : Inst)
    (h : finishMain S b f st1 = (st', .ok, j)) : finishMain (noGlob S) b f st1 = (st', .ok, j) := by
  unfold finishMain at h ⊢
  simp only at h ⊢
  split at h
  · cases h
  · rename_i h1
    split
    · rename_i g1; exact absurd g1 h1
    · split at h
      · cases h
      · rename_i h2
        split
        · rename_i g2; exact absurd g2 h2
        · split at h
          · cases h
          · rename_i h3
            split
            · rename_i g3; exact absurd g3 h3
            · exact h

/-- the `is_main_model` part succeeds: `LoadOK`, whether or not the main model is in the dict -/
theorem finishMain_loadOK (S : Spec) {b : St} (hwf : WF b) (f : File) {st1 st' : St} {j : Inst}
    (hI : Inv b.all b.next b.loc st1) (hG : Good b.next st1) (hc : st1.constr b.next = true)
    (hlt : b.next < st1.next) (hfile : st1.fileOf b.next = f) (hS : Stable b st1)
    (h : finishMain S b f st1 = (st', .ok, j)) : LoadOK S b f st' j := by
  have hm : MainOK (noGlob S) b f st' j :=
    finishMain_ok (noGlob S) hwf f hI hG hc hlt hfile (fun hg => by cases hg) hS
      (finishMain_noGlob_ok S b f st1 st' j h)
  exact ⟨hm.wf, hm.invW, hm.stable, hm.locJ, hm.fileJ, hm.ltJ, hm.tgt⟩

theorem LoadOK.lt {S : Spec} {b : St} {f : File} {st' : St} {j : Inst} (hok : LoadOK S b f st' j) :
    ∀ m ∈ included st' j, m < st'.next := by
  intro m hm
  unfold included at hm
  split at hm
  · obtain ⟨e', he', hem⟩ := List.mem_map.1 hm
    rw [← hem]; exact hok.wf.lt e' he'
  · rcases List.mem_append.1 hm with h' | h'
    · obtain ⟨e', he', hem⟩ := List.mem_map.1 h'
      rw [← hem]; exact hok.wf.lt e' he'
    · have : m = j := by simpa using h'
      rw [this]; exact hok.ltJ

theorem LoadOK.locSub {S : Spec} {b : St} {f : File} {st' : St} {j : Inst} (hok : LoadOK S b f st' j) :
    ∀ m ∈ included st' j, ∀ e ∈ st'.loc m, e ∈ st'.all := by
  intro m hm e he
  unfold included at hm
  split at hm
  · obtain ⟨e', he', hem⟩ := List.mem_map.1 hm
    exact hok.wf.locIn e' he' e (by rw [hem]; exact he)
  · rcases List.mem_append.1 hm with h' | h'
    · obtain ⟨e', he', hem⟩ := List.mem_map.1 h'
      exact hok.wf.locIn e' he' e (by rw [hem]; exact he)
    · have : m = j := by simpa using h'
      rw [this] at he
      exact hok.locJ e he

/-- identity of the models a successful load leaves behind (the body of `C17_identity`) -/
theorem LoadOK.identity {S : Spec} {b : St} {f : File} {st' : St} {j : Inst} (hok : LoadOK S b f st' j) :
    WF st' ∧ st'.fileOf j = f ∧
      (∀ m ∈ included st' j, ∀ e ∈ st'.loc m, st'.all.get? e.1 = some e.2 ∧ st'.fileOf e.2 = e.1) ∧
      (∀ m m' g x x', m ∈ included st' j → m' ∈ included st' j → (g, x) ∈ st'.loc m → (g, x') ∈ st'.loc m' →
        x = x') ∧
      (∀ m, b.next ≤ m → m ∈ included st' j → ∀ x n, Target.elem x n ∈ st'.tgt m →
        x = m ∨ (st'.fileOf x, x) ∈ st'.all) := by
  have hloc := hok.locSub
  refine ⟨hok.wf, hok.fileJ, ?_, ?_, ?_⟩
  · intro m hm e he
    have := hloc m hm e he
    exact ⟨Dict.get?_of_mem _ _ _ hok.wf.nodup this, hok.wf.file e this⟩
  · intro m m' g x x' hm hm' hx hx'
    have h1 := Dict.get?_of_mem _ _ _ hok.wf.nodup (hloc m hm _ hx)
    have h2 := Dict.get?_of_mem _ _ _ hok.wf.nodup (hloc m' hm' _ hx')
    rw [h1] at h2
    exact Option.some.inj h2
  · intro m hge hm x n ht
    have htm := hok.tgt m hge hm
    have : some (Target.elem x n) ∈ resolveAll S st' m := by
      rw [← htm]; exact List.mem_map_of_mem ht
    unfold resolveAll at this
    obtain ⟨n', _, hn'⟩ := List.mem_map.1 this
    obtain ⟨_, hx, _⟩ := lookup_elem S st' m n' x n hn'
    rcases hx with hx | ⟨e, he, hex⟩
    · exact Or.inl hx
    · have hin := hloc m hm e he
      have hf := hok.wf.file e hin
      right
      rw [← hex, hf]
      exact hin

/-- lookup order of the models constructed in a successful load (the body of `C17_lookup_order`) -/
theorem LoadOK.lookupOrder {S : Spec} {b : St} {f : File} {st' : St} {j : Inst} (hok : LoadOK S b f st' j)
    (m : Inst) (hge : b.next ≤ m) (hm : m ∈ included st' j) (hd : LocDone S st' m) :
    (st'.tgt m).map some = (S.refs (st'.fileOf m)).map (lookupSpec S st' m) := by
  rw [hok.tgt m hge hm]
  unfold resolveAll
  apply List.map_congr_left
  intro n _
  exact lookup_eq_spec S st' m n (hok.locSub m hm) hok.wf.nodup hd

/-! ## the load of a model without file name -/

theorem loadStr_ok (S : Spec) (fuel : Nat) (st0 : St) (a : File) {st' : St} {j : Inst}
    (hwf : WF (base S st0)) (ha : a ∉ (base S st0).all.keys) (h : loadStr S fuel st0 a = (st', .ok, j)) :
    LoadOK S (base S st0) a st' j := by
  cases hc : S.calls a with
  | cons c cs =>
    rw [loadStr_eq_loadMain S fuel st0 a ha (Or.inr (by rw [hc]; exact List.cons_ne_nil _ _))] at h
    exact (loadMain_ok S fuel st0 a hwf h).toLoad
  | nil =>
    rw [loadStr_nocalls S fuel st0 a hc] at h
    split at h
    · cases h
    · obtain ⟨hI, hG, hS, hlt, hca, _⟩ := strStart_facts S hwf a
      exact finishMain_loadOK S hwf a hI hG hca hlt (strStart_fileOf S _ a) hS h

theorem loadStr_fuel (S : Spec) (U : List File) (hU : ∀ h ∈ U, ∀ x, some x ∈ S.calls h → x ∈ U)
    (fuel : Nat) (st0 : St) (a : File) (haU : a ∈ U) (hwf : WF (base S st0)) (ha : a ∉ (base S st0).all.keys)
    (hn : unl U (base S st0) ≤ fuel) : (loadStr S fuel st0 a).2.1 ≠ .fuel := by
  cases hc : S.calls a with
  | cons c cs =>
    rw [loadStr_eq_loadMain S fuel st0 a ha (Or.inr (by rw [hc]; exact List.cons_ne_nil _ _))]
    exact loadMain_fuel S U hU fuel st0 a haU hwf hn
  | nil =>
    rw [loadStr_nocalls S fuel st0 a hc]
    split
    · intro hh; cases hh
    · exact finishMain_not_fuel S _ a _

theorem reach_nocalls {S : Spec} {C : List File} {a y : File} (hc : S.calls a = []) (hr : Reach S C a y) : y = a := by
  induction hr with
  | refl _ => rfl
  | step _ hx _ ih =>
    rw [ih, hc] at hx
    cases hx

theorem loadStr_reads (S : Spec) (fuel : Nat) (st0 : St) (a : File) {st' : St} {r : Res} {j : Inst}
    (hwf : WF (base S st0)) (ha : a ∉ (base S st0).all.keys) (h : loadStr S fuel st0 a = (st', r, j)) :
    ∃ new, st'.reads = new ++ st0.reads ∧ new.Nodup ∧ (∀ y ∈ new, y ∉ (base S st0).all.keys) ∧
      (∀ y ∈ new, Reach S (base S st0).all.keys a y) ∧
      (r = .ok → ∀ y, Reach S (base S st0).all.keys a y → y ∈ new) := by
  cases hc : S.calls a with
  | cons c cs =>
    rw [loadStr_eq_loadMain S fuel st0 a ha (Or.inr (by rw [hc]; exact List.cons_ne_nil _ _))] at h
    obtain ⟨new, h1, h2, h3, h4, h5, _⟩ := loadMain_reads S fuel st0 a hwf h
    exact ⟨new, h1, h2, h3, h4, h5⟩
  | nil =>
    rw [loadStr_nocalls S fuel st0 a hc] at h
    have hrd : st'.reads = [a] ++ st0.reads := by
      split at h
      · cases h; simp [base_reads]
      · have := finishMain_reads S (base S st0) a (strStart S (base S st0) a)
        rw [h] at this
        rw [this, (strStart_facts S hwf a).2.2.2.2.2, base_reads]
        rfl
    refine ⟨[a], hrd, by simp, by simpa using ha, by simpa using Reach.refl ha, ?_⟩
    intro _ y hy
    rw [reach_nocalls hc hy]
    simp

theorem loadStr_loc (S : Spec) (fuel : Nat) (st0 : St) (a : File) {st' : St} {j : Inst}
    (hwf : WF (base S st0)) (ha : a ∉ (base S st0).all.keys) (h : loadStr S fuel st0 a = (st', .ok, j)) :
    ∀ m, st0.next ≤ m → m < st'.next → LocDone S st' m := by
  cases hc : S.calls a with
  | cons c cs =>
    rw [loadStr_eq_loadMain S fuel st0 a ha (Or.inr (by rw [hc]; exact List.cons_ne_nil _ _))] at h
    exact loadMain_loc S fuel st0 a hwf h
  | nil =>
    intro m h1 h2
    rw [loadStr_nocalls S fuel st0 a hc] at h
    split at h
    · cases h
    · obtain ⟨e1, e2, e3, _⟩ := finishMain_ok_same S _ a _ st' j h
      have hnx : (strStart S (base S st0) a).next = (base S st0).next + 1 := rfl
      rw [e3, hnx, base_next] at h2
      have hm : m = (base S st0).next := by
        rw [base_next]; exact Nat.le_antisymm (Nat.le_of_lt_succ h2) h1
      unfold LocDone
      rw [e1, e2, hm, strStart_fileOf]
      have hl : (strStart S (base S st0) a).loc (base S st0).next = [] := by simp [strStart, St.alloc, upd]
      rw [hl]
      simp [callFiles, hc, addKeys, Dict.keys]

/-! ## the explicit pre-load of a GlobalRepo provider -/

theorem Reach.mono {S : Spec} {C C' : List File} (hCC : ∀ x ∈ C, x ∈ C') {g y : File} (hr : Reach S C' g y) :
    Reach S C g y := by
  induction hr with
  | refl hg => exact Reach.refl (fun hx => hg (hCC _ hx))
  | step _ hc hn ih => exact Reach.step ih hc (fun hx => hn (hCC _ hx))

theorem base_of_glob (S : Spec) (st0 : St) (hg : S.glob = true) : base S st0 = st0 := by
  simp [base, hg]

theorem preload_spec (S : Spec) (hg : S.glob = true) (fuel : Nat) :
    ∀ (calls : List (Option File)) (st0 st' : St), WF st0 → preload S fuel st0 calls = (st', .ok) →
      WF st' ∧ (∀ k ∈ st0.all.keys, k ∈ st'.all.keys) ∧ (∀ c, some c ∈ calls → c ∈ st'.all.keys) ∧
      ∃ new, st'.reads = new ++ st0.reads ∧ new.Nodup ∧ (∀ y ∈ new, y ∉ st0.all.keys) ∧
        (∀ y ∈ new, y ∈ st'.all.keys) ∧ (∀ y ∈ new, ∃ c, some c ∈ calls ∧ Reach S st0.all.keys c y) := by
  intro calls
  induction calls with
  | nil =>
    intro st0 st' hwf h
    simp only [preload] at h
    cases h
    exact ⟨hwf, fun _ hk => hk, by simp, [], by simp, List.nodup_nil, by simp, by simp, by simp⟩
  | cons c cs ih =>
    intro st0 st' hwf h
    cases c with
    | none => simp only [preload] at h; cases h
    | some g =>
      simp only [preload] at h
      split at h
      · rename_i hhas
        have hgk : g ∈ st0.all.keys := (Dict.has_iff _ _).1 hhas
        obtain ⟨h1, h2, h3, new, h4, h5, h6, h7, h8⟩ := ih st0 st' hwf h
        refine ⟨h1, h2, ?_, new, h4, h5, h6, h7, ?_⟩
        · intro c hc
          rcases List.mem_cons.1 hc with hc | hc
          · cases hc; exact h2 g hgk
          · exact h3 c hc
        · intro y hy
          obtain ⟨c, hc, hr⟩ := h8 y hy
          exact ⟨c, List.mem_cons_of_mem _ hc, hr⟩
      · cases hl : loadMain S fuel st0 g with
        | mk st1 rj =>
          obtain ⟨r1, j1⟩ := rj
          rw [hl] at h
          cases r1 with
          | fuel => simp only at h; cases h
          | fail k => simp only at h; cases h
          | ok =>
            simp only at h
            have hb := base_of_glob S st0 hg
            have hwfb : WF (base S st0) := hwf.base S
            have hok := loadMain_ok S fuel st0 g hwfb hl
            obtain ⟨new1, r1, r2, r3, r4, _, r6⟩ := loadMain_reads S fuel st0 g hwfb hl
            rw [hb] at r3 r4
            have hsub01 : ∀ k ∈ st0.all.keys, k ∈ st1.all.keys := by
              intro k hk
              obtain ⟨N, hN, _⟩ := hok.invW.split
              rw [hb] at hN
              rw [hN]
              simp only [Dict.keys, List.map_append, List.mem_append]
              exact Or.inl hk
            obtain ⟨h1, h2, h3, new2, h4, h5, h6, h7, h8⟩ := ih st1 st' hok.wf h
            refine ⟨h1, fun k hk => h2 k (hsub01 k hk), ?_, new2 ++ new1, ?_, ?_, ?_, ?_, ?_⟩
            · intro c hc
              rcases List.mem_cons.1 hc with hc | hc
              · cases hc
                exact h2 g (Dict.mem_keys_of_mem (hok.inAll hg))
              · exact h3 c hc
            · rw [h4, r1, List.append_assoc]
            · refine List.nodup_append.2 ⟨h5, r2, ?_⟩
              intro x hx y hy hxy
              subst hxy
              exact h6 x hx (r6 rfl hg x hy)
            · intro y hy
              rcases List.mem_append.1 hy with hy | hy
              · exact fun hk => h6 y hy (hsub01 y hk)
              · exact r3 y hy
            · intro y hy
              rcases List.mem_append.1 hy with hy | hy
              · exact h7 y hy
              · exact h2 y (r6 rfl hg y hy)
            · intro y hy
              rcases List.mem_append.1 hy with hy | hy
              · obtain ⟨c, hc, hr⟩ := h8 y hy
                exact ⟨c, List.mem_cons_of_mem _ hc, Reach.mono hsub01 hr⟩
              · exact ⟨g, List.mem_cons_self, r4 y hy⟩

end Repo
