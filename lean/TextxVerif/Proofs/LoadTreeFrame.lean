import TextxVerif.Proofs.LoadTree
/-!
# The frame theorem of the load-tree machine

`runMain_frame`: a load attempt — whatever its tree of files, its faults and the
(frame-respecting) loads nested in its user code — leaves every class and the stored
keys exactly as it found them.  `runF_frame`: so do the nested loads, to any depth.
-/
namespace LoadTree

variable {α : Type}

/-- what a (sub)load guarantees: `.ok new` — the new completely parsed models are
accounted for; `.error left` — only `left` is -/
def ResPost (ctx : Ctx α) (w : ClassId → Nat) (O : ClassId × ObjId → Prop) (A repo : List PRec) :
    Sh α × Except (List PRec) (List PRec) → Prop
  | (sh', .ok new) => InvL ctx w O (new ++ (repo ++ A)) sh' ∧ AllOK new
  | (sh', .error left) => InvL ctx w O (left ++ A) sh' ∧ AllOK left

theorem restore_noop (r : PRec) (sh : Sh α) (hr : r.replaced = false) : restore r sh = (sh, r) := by
  simp [restore, hr]

section
variable {env : Env α} (henv : FrameEnv env) {ctx : Ctx α} {w : ClassId → Nat} {O : ClassId × ObjId → Prop}
include henv

/-- an imported model: `_tx_parser` is set, then its model processors run -/
theorem back_import_spec {A : List PRec} (pid : Nat) (classes : List ClassId) (mproc : Hook)
    (P : PRec) (repo mine : List PRec) (sh : Sh α)
    (h : InvL ctx w O (mine ++ (repo ++ P :: A)) sh) (hP : CovI P ∧ CovA P) (hm : AllOK mine) (hr : AllOK repo) :
    ResPost ctx w O A repo (back env false false pid classes mproc P repo mine sh) := by
  have sm := runHook_same henv 5 pid classes mproc sh (Inv.good h)
  have h' := InvL.same h sm
  have hok : RecOK { P with hasParser := true } := ⟨rfl, hP.1, hP.2⟩
  simp only [back, Bool.false_eq_true, if_false]
  split
  · refine ⟨InvL.congrL h' (fun c => ?_) (fun p => ?_), ?_⟩
    · simp only [holdL_append, holdL, hold]; omega
    · simp only [Own_append, Own_cons]
      constructor
      · rintro (h1 | h1 | h1 | h1)
        · exact .inl (.inr h1)
        · exact .inr (.inl h1)
        · exact .inl (.inl h1)
        · exact .inr (.inr h1)
      · rintro ((h1 | h1) | h1 | h1)
        · exact .inr (.inr (.inl h1))
        · exact .inl h1
        · exact .inr (.inl h1)
        · exact .inr (.inr (.inr h1))
    · intro r hr'
      simp only [List.mem_cons] at hr'
      rcases hr' with hr' | hr'
      · subst hr'; exact hok
      · exact hm r hr'
  · refine ⟨InvL.congrL h' (fun c => ?_) (fun p => ?_), ?_⟩
    · simp only [holdL_append, holdL, hold]; omega
    · simp only [Own_append, Own_cons]
      constructor
      · rintro (h1 | h1 | h1 | h1)
        · exact .inl (.inr (.inr h1))
        · exact .inl (.inl h1)
        · exact .inl (.inr (.inl h1))
        · exact .inr h1
      · rintro ((h1 | h1 | h1) | h1)
        · exact .inr (.inl h1)
        · exact .inr (.inr (.inl h1))
        · exact .inl h1
        · exact .inr (.inr (.inr h1))
    · intro r hr'
      simp only [List.mem_append, List.mem_cons] at hr'
      rcases hr' with hr' | hr' | hr'
      · exact hr r hr'
      · subst hr'; exact hok
      · exact hm r hr'

/-- the main model: afterwards nothing is held, whatever the outcome -/
theorem back_main_spec {A : List PRec} (immut : Bool) (pid : Nat) (classes : List ClassId) (mproc : Hook)
    (P : PRec) (mine : List PRec) (sh : Sh α)
    (h : InvL ctx w O (mine ++ P :: A) sh) (hP : CovI P ∧ CovA P) (hm : AllOK mine)
    (hi : immut = true → P.allocs = [] ∧ mine = []) :
    InvL ctx w O A (back env true immut pid classes mproc P [] mine sh).1 := by
  cases immut with
  | true =>
    obtain ⟨ha, hmine⟩ := hi rfl
    subst hmine
    simp only [back, if_true, List.nil_append]
    have p2 := phase2_spec henv (A := P :: A) [] sh (by simpa using h) (fun _ hx => by simp at hx)
    have hl : (phase2 env [] sh).2.1 = [] := by
      have := p2.2.1; simpa using this
    rw [hl]
    simp only []
    have hf := restore_fields P (phase2 env [] sh).1
    have h1 := InvL.restore p2.1
    have h2 : InvL ctx w O A (restore P (phase2 env [] sh).1).1 :=
      InvL.drop hf.1 (by rw [hf.2.1, ha]; simp) h1
    split
    · exact (failOuter_spec _ [] _ (by simpa using p2.1) (fun _ hx => by simp at hx)).2
    · exact InvL.same h2 (runHook_same henv 5 pid classes mproc _ (Inv.good h2))
  | false =>
    simp only [back, Bool.false_eq_true, if_false, if_true, List.nil_append]
    have hok : RecOK { P with hasParser := true } := ⟨rfl, hP.1, hP.2⟩
    have h' : InvL ctx w O (({ P with hasParser := true } :: mine) ++ A) sh := by
      refine InvL.congrL h (fun c => ?_) (fun p => ?_)
      · simp only [holdL_append, holdL, hold, List.cons_append]; omega
      · simp only [Own_append, Own_cons, List.cons_append]
        constructor
        · rintro (h1 | h1 | h1)
          · exact .inr (.inl h1)
          · exact .inl h1
          · exact .inr (.inr h1)
        · rintro (h1 | h1 | h1)
          · exact .inr (.inl h1)
          · exact .inl h1
          · exact .inr (.inr h1)
    have hall : AllOK ({ P with hasParser := true } :: mine) := by
      intro r hr'
      simp only [List.mem_cons] at hr'
      rcases hr' with hr' | hr'
      · subst hr'; exact hok
      · exact hm r hr'
    obtain ⟨p1, p2, p3⟩ := phase2_spec henv _ sh h' hall
    generalize hms : (phase2 env ({ P with hasParser := true } :: mine) sh).2.1 = ms' at p2 p3
    cases ms' with
    | nil => simp at p2
    | cons x xs =>
      simp only []
      obtain ⟨x1, x2⟩ := p3 x (by simp)
      have hadd : InvL ctx w O (x :: ([] ++ A)) (phase2 env ({ P with hasParser := true } :: mine) sh).1 :=
        InvL.add x1 (fun p hp => (x2 p hp).2) (by simpa using p1)
      split
      · exact (failOuter_spec _ [] _ hadd (fun _ hx => by simp at hx)).2
      · rw [restore_noop _ _ x1]
        exact InvL.same p1 (runHook_same henv 5 pid classes mproc _ (Inv.good p1))

mutual
theorem node_import_spec : (L : Load) → ∀ (repo A : List PRec) (sh : Sh α),
    InvL ctx w O (repo ++ A) sh → AllOK repo → ResPost ctx w O A repo (node env false L repo sh)
  | .mk pid classes syntaxOk root pre imps resolve unresolved oprocs mproc, repo, A, sh, h, hr => by
    have hf := front_spec henv (A := A) false (!imps.isEmpty) pid classes syntaxOk root pre resolve unresolved
      oprocs repo sh h hr
    simp only [node]
    generalize front env false (!imps.isEmpty) pid classes syntaxOk root pre resolve unresolved oprocs repo sh = fr at hf
    cases fr with
    | inl res =>
      obtain ⟨left, e1, e2, e3, _⟩ := hf
      simp only []
      obtain ⟨sh', rr⟩ := res
      simp only at e1 e2
      subst e1
      exact ⟨e2, e3⟩
    | inr pr =>
      obtain ⟨P, sh1⟩ := pr
      obtain ⟨f1, f2, f3, _, f5, _⟩ := hf
      simp only []
      have f1' : InvL ctx w O ([] ++ (repo ++ P :: A)) sh1 := by
        simpa using InvL.congrL f1 (holdL_mid _ _ _) (Own_mid _ _ _)
      have hi := importList_spec imps repo [] (P :: A) sh1 f1' hr (fun _ hx => by simp at hx)
      generalize importList env imps repo [] sh1 = ir at hi
      obtain ⟨sh2, rr⟩ := ir
      cases rr with
      | error left =>
        obtain ⟨i1, i2⟩ := hi
        simp only []
        obtain ⟨g1, g2⟩ := failOuter_spec P left sh2
          (InvL.congrL i1 (fun c => (holdL_mid _ _ _ c).symm) (fun p => (Own_mid _ _ _ p).symm)) i2
        generalize failOuter P left sh2 = fo at g1 g2
        obtain ⟨sh3, r3⟩ := fo
        simp only at g1 g2
        subst g1
        exact ⟨by simpa using g2, fun _ hx => by simp at hx⟩
      | ok mine =>
        obtain ⟨i1, i2⟩ := hi
        simp only []
        rw [f5 rfl]
        exact back_import_spec henv pid classes mproc P repo mine sh2 i1 ⟨f2, f3⟩ i2 hr
theorem importList_spec : (Ls : List Load) → ∀ (repo mine A : List PRec) (sh : Sh α),
    InvL ctx w O (mine ++ (repo ++ A)) sh → AllOK repo → AllOK mine →
    ResPost ctx w O A repo (importList env Ls repo mine sh)
  | [], repo, mine, A, sh, h, hr, hm => by
    simp only [importList]
    exact ⟨h, hm⟩
  | L :: Ls, repo, mine, A, sh, h, hr, hm => by
    simp only [importList]
    have h' : InvL ctx w O ((repo ++ mine) ++ A) sh := by
      refine InvL.congrL h (fun c => ?_) (fun p => ?_)
      · simp only [holdL_append]; omega
      · simp only [Own_append]
        constructor
        · rintro (h1 | h1 | h1)
          · exact .inl (.inr h1)
          · exact .inl (.inl h1)
          · exact .inr h1
        · rintro ((h1 | h1) | h1)
          · exact .inr (.inl h1)
          · exact .inl h1
          · exact .inr (.inr h1)
    have hrm : AllOK (repo ++ mine) := by
      intro r hr'
      simp only [List.mem_append] at hr'
      rcases hr' with hr' | hr'
      · exact hr r hr'
      · exact hm r hr'
    have hn := node_import_spec L (repo ++ mine) A sh h' hrm
    generalize node env false L (repo ++ mine) sh = nr at hn
    obtain ⟨sh1, rr⟩ := nr
    cases rr with
    | error left => simp only []; exact hn
    | ok new =>
      obtain ⟨n1, n2⟩ := hn
      simp only []
      have n1' : InvL ctx w O ((mine ++ new) ++ (repo ++ A)) sh1 := by
        refine InvL.congrL n1 (fun c => ?_) (fun p => ?_)
        · simp only [holdL_append]; omega
        · simp only [Own_append]
          constructor
          · rintro (h1 | (h1 | h1) | h1)
            · exact .inl (.inr h1)
            · exact .inr (.inl h1)
            · exact .inl (.inl h1)
            · exact .inr (.inr h1)
          · rintro ((h1 | h1) | h1 | h1)
            · exact .inr (.inl (.inr h1))
            · exact .inl h1
            · exact .inr (.inl (.inl h1))
            · exact .inr (.inr h1)
      have hmn : AllOK (mine ++ new) := by
        intro r hr'
        simp only [List.mem_append] at hr'
        rcases hr' with hr' | hr'
        · exact hm r hr'
        · exact n2 r hr'
      exact importList_spec Ls repo (mine ++ new) A sh1 n1' hr hmn
end

/-- the main model of an attempt: afterwards nothing is held, whatever the outcome -/
theorem node_main_spec (L : Load) {A : List PRec} (sh : Sh α) (h : InvL ctx w O A sh) :
    InvL ctx w O A (node env true L [] sh).1 := by
  obtain ⟨pid, classes, syntaxOk, root, pre, imps, resolve, unresolved, oprocs, mproc⟩ := L
  have hf := front_spec henv (A := A) true (!imps.isEmpty) pid classes syntaxOk root pre resolve unresolved
    oprocs [] sh (by simpa using h) (fun _ hx => by simp at hx)
  simp only [node]
  generalize front env true (!imps.isEmpty) pid classes syntaxOk root pre resolve unresolved oprocs [] sh = fr at hf
  cases fr with
  | inl res =>
    obtain ⟨left, e1, e2, e3, e4⟩ := hf
    simp only []
    -- nothing was registered before, so nothing is left
    have : left = [] := by rcases e4 with e4 | e4 <;> exact e4
    subst this
    simpa using e2
  | inr pr =>
    obtain ⟨P, sh1⟩ := pr
    obtain ⟨f1, f2, f3, f4, _, f6⟩ := hf
    simp only []
    have hi := importList_spec henv imps [] [] (P :: A) sh1 (by simpa using f1) (fun _ hx => by simp at hx)
      (fun _ hx => by simp at hx)
    generalize hir : importList env imps [] [] sh1 = ir at hi
    obtain ⟨sh2, rr⟩ := ir
    cases rr with
    | error left =>
      obtain ⟨i1, i2⟩ := hi
      simp only []
      exact (failOuter_spec P left sh2
        (InvL.congrL i1 (fun c => (holdL_mid _ _ _ c).symm) (fun p => (Own_mid _ _ _ p).symm)) i2).2
    | ok mine =>
      obtain ⟨i1, i2⟩ := hi
      simp only []
      refine back_main_spec henv root.isConv pid classes mproc P mine sh2 (by simpa using i1) ⟨f2, f3⟩ i2 ?_
      intro hc
      refine ⟨f4 hc, ?_⟩
      have : imps = [] := by
        have := f6 hc
        cases imps with
        | nil => rfl
        | cons _ _ => simp at this
      subst this
      simp only [importList] at hir
      exact (Prod.mk.inj hir).2 |> Except.ok.inj |> Eq.symm
end


/-- the state of a class and the stored keys after a load attempt are those before it -/
theorem runMain_frame {env : Env α} (henv : FrameEnv env) (L : Load) (sh : Sh α) (hg : Good sh) :
    (runMain env L sh).1.core = sh.core ∧ (runMain env L sh).1.attrs = sh.attrs ∧
      sh.next ≤ (runMain env L sh).1.next := by
  let ctx : Ctx α := ⟨sh.core, sh.attrs, sh.next⟩
  have h0 : InvL ctx (fun _ => 0) (fun _ => False) [] sh := by
    refine ⟨fun c => ?_, ?_, hg.nodup, hg.lt, fun p hp hn => ?_, fun p hp => ?_, Nat.le_refl _⟩
    · obtain ⟨a, k, h⟩ := hg.core c
      exact ⟨a, k, h, by simpa [holdL] using h⟩
    · exact List.filter_eq_self.2 (fun p hp => by simpa using hg.lt p hp)
    · exact absurd (hg.lt p hp) (Nat.not_lt.mpr hn)
    · rcases hp with hp | hp
      · exact hp.elim
      · exact (Own_nil p hp).elim
  have h1 := node_main_spec henv L sh h0
  have e : (runMain env L sh).1 = (node env true L [] sh).1 := rfl
  rw [e]
  refine ⟨?_, ?_, Inv.le h1⟩
  · funext c
    obtain ⟨a, k, c1, c2⟩ := Inv.core h1 c
    rw [c2]; simpa [holdL] using c1.symm
  · have hall : ∀ p, p ∈ (node env true L [] sh).1.attrs → decide (p.2 < sh.next) = true := by
      intro p hp
      by_cases hn : p.2 < sh.next
      · simpa using hn
      · rcases Inv.own h1 p hp (Nat.le_of_not_lt hn) with h | h
        · exact h.elim
        · exact (Own_nil p h).elim
    have := Inv.base h1
    rw [List.filter_eq_self.2 hall] at this
    exact this

theorem Good.own_irrel {sh : Sh α} (hg : Good sh) (l : List Ev) : Good { sh with own := l } :=
  ⟨hg.core, hg.nodup, hg.lt⟩

/-- a load seen as user-code action keeps what nested loads must keep -/
theorem asAction_frame (f : Sh α → Sh α × Bool)
    (hf : ∀ sh, Good sh → (f sh).1.core = sh.core ∧ (f sh).1.attrs = sh.attrs ∧ sh.next ≤ (f sh).1.next)
    (sh : Sh α) (hg : Good sh) :
    (asAction f sh).1.core = sh.core ∧ (asAction f sh).1.attrs = sh.attrs ∧
      sh.next ≤ (asAction f sh).1.next ∧ (asAction f sh).1.own = sh.own := by
  obtain ⟨a, b, c⟩ := hf { sh with own := [] } (hg.own_irrel [])
  exact ⟨a, b, c, rfl⟩

theorem tableEnv_frame (run : Load → Sh α → Sh α × Bool) (table : List Load)
    (hrun : ∀ L sh, Good sh → (run L sh).1.core = sh.core ∧ (run L sh).1.attrs = sh.attrs ∧ sh.next ≤ (run L sh).1.next) :
    FrameEnv (tableEnv run table) := by
  intro a s hs
  unfold tableEnv
  split
  · exact asAction_frame _ (fun s' hs' => hrun _ s' hs') s hs
  · exact ⟨rfl, rfl, Nat.le_refl _, rfl⟩

/-- loads started by user code, to any depth -/
theorem runF_frame (table : List Load) (n : Nat) (L : Load) (sh : Sh α) (hg : Good sh) :
    (runF table n L sh).1.core = sh.core ∧ (runF table n L sh).1.attrs = sh.attrs ∧
      sh.next ≤ (runF table n L sh).1.next := by
  induction n generalizing L sh with
  | zero => exact ⟨rfl, rfl, Nat.le_refl _⟩
  | succ n ih =>
    simp only [runF]
    exact runMain_frame (tableEnv_frame _ table ih) L sh hg

theorem runF_env_frame (table : List Load) (n : Nat) : FrameEnv (tableEnv (α := α) (runF table n) table) :=
  tableEnv_frame _ table (runF_frame table n)

end LoadTree
