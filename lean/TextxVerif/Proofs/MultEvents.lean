import TextxVerif.Proofs.MultVisit
/-!
Helper lemmas for C02, part 3 — the trace language `Events`:
* every trace weighs at most the count (`events_le`);
* a trace reaching the count exists (`events_witness`);
* a `?=` event stems from a `?=` assignment, which in an accepted grammar is
  the only assignment of its attribute and outside repetitions (`bool_attr_scalar`).
-/
namespace Mult

variable {V : Type}

/-! ### weights, values, counts -/

theorem tw_append (a : Attr) : ∀ (u v : List (Ev V)), tw a (u ++ v) = tw a u + tw a v
  | [], v => by simp [tw]
  | e :: u, v => by simp [tw, tw_append a u v, Nat.add_assoc]

theorem valsOf_append (a : Attr) : ∀ (u v : List (Ev V)), valsOf a (u ++ v) = valsOf a u ++ valsOf a v
  | [], v => by simp [valsOf]
  | e :: u, v => by simp [valsOf, valsOf_append a u v]

theorem nvals_append (a : Attr) (u v : List (Ev V)) : nvals a (u ++ v) = nvals a u + nvals a v := by
  simp [nvals, valsOf_append]

@[simp] theorem tw_nil (a : Attr) : tw a ([] : List (Ev V)) = 0 := rfl
@[simp] theorem nvals_nil (a : Attr) : nvals a ([] : List (Ev V)) = 0 := rfl

theorem Cnt.toNat_add (c1 c2 : Cnt) : (c1.add c2).toNat = min 2 (c1.toNat + c2.toNat) := by
  cases c1 <;> cases c2 <;> rfl

theorem Cnt.toNat_max (c1 c2 : Cnt) : (c1.max c2).toNat = Max.max c1.toNat c2.toNat := by
  cases c1 <;> cases c2 <;> rfl

@[simp] theorem Cnt.toNat_zero : Cnt.zero.toNat = 0 := rfl

theorem Cnt.toNat_le_two (c : Cnt) : c.toNat ≤ 2 := by cases c <;> decide

theorem Cnt.toNat_eq_zero {c : Cnt} : c.toNat = 0 ↔ c = .zero := by cases c <;> simp [Cnt.toNat]

theorem Cnt.eq_many_iff {c : Cnt} : c = .many ↔ 2 ≤ c.toNat := by cases c <;> simp [Cnt.toNat]

theorem fits_attr {e : Ev V} {b : Attr} {op : Op} (h : e.fits b op = true) : e.attr = b := by
  cases e with
  | plain x v => cases op <;> simp_all [Ev.fits, Ev.attr]
  | bool x v => cases op <;> simp_all [Ev.fits, Ev.attr]
  | list x p vs => cases op <;> cases p <;> simp_all [Ev.fits, Ev.attr]

theorem fits_w {e : Ev V} {b : Attr} {op : Op} (h : e.fits b op = true) (a : Attr) :
    e.w a = if b = a then (if op.isList then 2 else 1) else 0 := by
  cases e with
  | plain x v => cases op <;> simp_all [Ev.fits, Ev.w, Op.isList]
  | bool x v => cases op <;> simp_all [Ev.fits, Ev.w, Op.isList]
  | list x p vs => cases op <;> cases p <;> simp_all [Ev.fits, Ev.w, Op.isList]

theorem tw_flatten_zero (a : Attr) : ∀ (us : List (List (Ev V))), (∀ u ∈ us, tw a u = 0) → tw a us.flatten = 0
  | [], _ => by simp
  | u :: us, h => by
      simp only [List.flatten_cons, tw_append]
      rw [h u (by simp), tw_flatten_zero a us (fun u' hu' => h u' (by simp [hu']))]

/-! ### every trace weighs at most the count -/

mutual
theorem events_le (a : Attr) : ∀ (b : Body) (t : List (Ev V)), Events b t → min 2 (tw a t) ≤ (count a b).toNat
  | .leaf, t, h => by
      simp only [Events] at h
      subst h; simp
  | .asgn b op, t, h => by
      simp only [Events] at h
      rcases h with ⟨e, rfl, hf⟩ | ⟨_, rfl⟩
      · simp only [tw, fits_w hf a, count]
        by_cases hab : a = b
        · subst hab; cases hl : op.isList <;> simp [Cnt.toNat]
        · have : ¬ b = a := fun e => hab e.symm
          simp [this, hab]
      · simp
  | .seq xs, t, h => by
      simp only [Events] at h
      simpa [count] using eventsSeq_le a xs t h
  | .choice xs, t, h => by
      simp only [Events] at h
      simpa [count] using eventsAny_le a xs t h
  | .opt x, t, h => by
      simp only [Events] at h
      rcases h with rfl | h
      · simp
      · simpa [count] using events_le a x t h
  | .rep _ x, t, h => by
      simp only [Events] at h
      obtain ⟨us, hus, rfl⟩ := h
      simp only [count]
      cases hx : count a x with
      | zero =>
          have : tw a us.flatten = 0 := by
            apply tw_flatten_zero
            intro u hu
            have := events_le a x u (hus u hu)
            rw [hx] at this
            simp [Cnt.toNat] at this
            omega
          simp [this]
      | one => simp only [Cnt.toNat]; omega
      | many => simp only [Cnt.toNat]; omega
  | .unordered xs, t, h => by
      simp only [Events] at h
      simpa [count] using eventsUn_le a xs t h
theorem eventsSeq_le (a : Attr) : ∀ (xs : List Body) (t : List (Ev V)), EventsSeq xs t →
    min 2 (tw a t) ≤ (countSum a xs).toNat
  | [], t, h => by
      simp only [EventsSeq] at h
      subst h; simp
  | x :: xs, t, h => by
      simp only [EventsSeq] at h
      obtain ⟨u, v, rfl, hu, hv⟩ := h
      have h1 := events_le a x u hu
      have h2 := eventsSeq_le a xs v hv
      simp only [countSum, Cnt.toNat_add, tw_append]
      omega
theorem eventsAny_le (a : Attr) : ∀ (xs : List Body) (t : List (Ev V)), EventsAny xs t →
    min 2 (tw a t) ≤ (countMax a xs).toNat
  | [], t, h => by simp [EventsAny] at h
  | x :: xs, t, h => by
      simp only [EventsAny] at h
      simp only [countMax, Cnt.toNat_max]
      rcases h with h | h
      · have := events_le a x t h; omega
      · have := eventsAny_le a xs t h; omega
theorem eventsUn_le (a : Attr) : ∀ (xs : List Body) (t : List (Ev V)), EventsUn xs t →
    min 2 (tw a t) ≤ (countSum a xs).toNat
  | [], t, h => by
      simp only [EventsUn] at h
      subst h; simp
  | x :: xs, t, h => by
      simp only [EventsUn] at h
      obtain ⟨v, u, w, rfl, hu, hvw⟩ := h
      have h1 := events_le a x u hu
      have h2 := eventsUn_le a xs (v ++ w) hvw
      simp only [countSum, Cnt.toNat_add, tw_append] at h2 ⊢
      omega
end

/-- a value is matched only through events, and every event weighs at least 1 per ... -/
theorem nvals_le_of_tw_zero (a : Attr) : ∀ (t : List (Ev V)), tw a t = 0 → valsOf a t = []
  | [], _ => rfl
  | e :: t, h => by
      simp only [tw] at h
      have h1 : e.w a = 0 := by omega
      have h2 : tw a t = 0 := by omega
      have : e.attr ≠ a := by
        intro he
        cases e <;> simp_all [Ev.w, Ev.attr]
      simp [valsOf, this, nvals_le_of_tw_zero a t h2]

/-- two values matched for `a` ⇒ the trace weighs at least 2 for `a` -/
theorem two_le_tw_of_nvals (a : Attr) : ∀ (t : List (Ev V)), 2 ≤ nvals a t → 2 ≤ tw a t
  | [], h => by simp at h
  | e :: t, h => by
      simp only [tw]
      by_cases he : e.attr = a
      · cases e with
        | plain x v =>
            simp [Ev.attr] at he
            simp only [Ev.w, he, if_true]
            have : 1 ≤ tw a t := by
              by_cases h0 : tw a t = 0
              · have := nvals_le_of_tw_zero a t h0
                simp [nvals, valsOf, Ev.attr, he, Ev.vals, this] at h
              · omega
            omega
        | bool x v =>
            simp [Ev.attr] at he
            simp only [Ev.w, he, if_true]
            have : 1 ≤ tw a t := by
              by_cases h0 : tw a t = 0
              · have := nvals_le_of_tw_zero a t h0
                simp [nvals, valsOf, Ev.attr, he, Ev.vals, this] at h
              · omega
            omega
        | list x p vs =>
            simp [Ev.attr] at he
            simp only [Ev.w, he, if_true]
            omega
      · have : nvals a (e :: t) = nvals a t := by simp [nvals, valsOf, he]
        have := two_le_tw_of_nvals a t (by omega)
        omega

/-! ### a trace that reaches the count -/

section witness
set_option linter.unusedSectionVars false
variable [Inhabited V]

def witEv (a : Attr) (op : Op) : Ev V :=
  match op with
  | .plain => .plain a default
  | .bool => .bool a default
  | .star => .list a false [default, default]
  | .plus => .list a true [default, default]

theorem witEv_fits (a : Attr) (op : Op) : (witEv a op : Ev V).fits a op = true := by
  cases op <;> simp [witEv, Ev.fits]

theorem witEv_nvals (a b : Attr) (op : Op) :
    nvals a [(witEv b op : Ev V)] = if b = a then (if op.isList then 2 else 1) else 0 := by
  cases op <;> by_cases h : b = a <;> simp [witEv, nvals, valsOf, Ev.attr, Ev.vals, Op.isList, h]

mutual
theorem events_witness (a : Attr) : ∀ (b : Body), b.wf = true →
    ∃ t : List (Ev V), Events b t ∧ (count a b).toNat ≤ nvals a t
  | .leaf, _ => ⟨[], by simp [Events], by simp [count, Cnt.toNat]⟩
  | .asgn b op, _ => by
      refine ⟨[witEv b op], ?_, ?_⟩
      · simp only [Events]; exact Or.inl ⟨_, rfl, witEv_fits b op⟩
      · rw [witEv_nvals]
        by_cases hab : a = b
        · subst hab; cases hl : op.isList <;> simp [count, hl, Cnt.toNat]
        · have : ¬ b = a := fun e => hab e.symm
          simp [count, hab, this, Cnt.toNat]
  | .seq xs, h => by
      obtain ⟨t, ht, hn⟩ := eventsSeq_witness a xs (by simpa [Body.wf] using h)
      exact ⟨t, by simpa [Events] using ht, by simpa [count] using hn⟩
  | .choice xs, h => by
      simp only [Body.wf, Bool.and_eq_true, Bool.not_eq_true', List.isEmpty_eq_false_iff] at h
      obtain ⟨t, ht, hn⟩ := eventsAny_witness a xs h.2 h.1
      exact ⟨t, by simpa [Events] using ht, by simpa [count] using hn⟩
  | .opt x, h => by
      obtain ⟨t, ht, hn⟩ := events_witness a x (by simpa [Body.wf] using h)
      exact ⟨t, by simp only [Events]; exact Or.inr ht, by simpa [count] using hn⟩
  | .rep _ x, h => by
      obtain ⟨t, ht, hn⟩ := events_witness a x (by simpa [Body.wf] using h)
      cases hx : count a x with
      | zero => exact ⟨[], by simp only [Events]; exact ⟨[], by simp, by simp⟩, by simp [count, hx, Cnt.toNat]⟩
      | one =>
          refine ⟨t ++ t, ?_, ?_⟩
          · simp only [Events]; exact ⟨[t, t], by simp [ht], by simp⟩
          · rw [hx] at hn; simp only [count, hx, Cnt.toNat, nvals_append] at hn ⊢; omega
      | many =>
          refine ⟨t ++ t, ?_, ?_⟩
          · simp only [Events]; exact ⟨[t, t], by simp [ht], by simp⟩
          · rw [hx] at hn; simp only [count, hx, Cnt.toNat, nvals_append] at hn ⊢; omega
  | .unordered xs, h => by
      obtain ⟨t, ht, hn⟩ := eventsUn_witness a xs (by simpa [Body.wf] using h)
      exact ⟨t, by simpa [Events] using ht, by simpa [count] using hn⟩
theorem eventsSeq_witness (a : Attr) : ∀ (xs : List Body), wfL xs = true →
    ∃ t : List (Ev V), EventsSeq xs t ∧ (countSum a xs).toNat ≤ nvals a t
  | [], _ => ⟨[], by simp [EventsSeq], by simp [countSum, Cnt.toNat]⟩
  | x :: xs, h => by
      simp only [wfL, Bool.and_eq_true] at h
      obtain ⟨u, hu, hnu⟩ := events_witness a x h.1
      obtain ⟨v, hv, hnv⟩ := eventsSeq_witness a xs h.2
      refine ⟨u ++ v, ?_, ?_⟩
      · simp only [EventsSeq]; exact ⟨u, v, rfl, hu, hv⟩
      · simp only [countSum, Cnt.toNat_add, nvals_append]; omega
theorem eventsAny_witness (a : Attr) : ∀ (xs : List Body), wfL xs = true → xs ≠ [] →
    ∃ t : List (Ev V), EventsAny xs t ∧ (countMax a xs).toNat ≤ nvals a t
  | [], _, hne => absurd rfl hne
  | x :: xs, h, _ => by
      simp only [wfL, Bool.and_eq_true] at h
      obtain ⟨u, hu, hnu⟩ := events_witness a x h.1
      by_cases hxs : xs = []
      · subst hxs
        refine ⟨u, by simp only [EventsAny]; exact Or.inl hu, ?_⟩
        simp only [countMax, Cnt.toNat_max, Cnt.toNat_zero]; omega
      · obtain ⟨v, hv, hnv⟩ := eventsAny_witness a xs h.2 hxs
        by_cases hc : (countMax a xs).toNat ≤ (count a x).toNat
        · refine ⟨u, by simp only [EventsAny]; exact Or.inl hu, ?_⟩
          simp only [countMax, Cnt.toNat_max]; omega
        · refine ⟨v, by simp only [EventsAny]; exact Or.inr hv, ?_⟩
          simp only [countMax, Cnt.toNat_max]; omega
theorem eventsUn_witness (a : Attr) : ∀ (xs : List Body), wfL xs = true →
    ∃ t : List (Ev V), EventsUn xs t ∧ (countSum a xs).toNat ≤ nvals a t
  | [], _ => ⟨[], by simp [EventsUn], by simp [countSum, Cnt.toNat]⟩
  | x :: xs, h => by
      simp only [wfL, Bool.and_eq_true] at h
      obtain ⟨u, hu, hnu⟩ := events_witness a x h.1
      obtain ⟨w, hw, hnw⟩ := eventsUn_witness a xs h.2
      refine ⟨u ++ w, ?_, ?_⟩
      · simp only [EventsUn]; exact ⟨[], u, w, by simp, hu, by simpa using hw⟩
      · simp only [countSum, Cnt.toNat_add, nvals_append]; omega
end

end witness

/-! ### `?=` events -/

mutual
theorem events_bool_mem (a : Attr) (v : V) : ∀ (b : Body) (t : List (Ev V)), Events b t →
    Ev.bool a v ∈ t → (a, Op.bool) ∈ asgns b
  | .leaf, t, h, hm => by simp only [Events] at h; subst h; simp at hm
  | .asgn b op, t, h, hm => by
      simp only [Events] at h
      rcases h with ⟨e, rfl, hf⟩ | ⟨_, rfl⟩
      · simp at hm; subst hm
        cases op <;> simp_all [Ev.fits, asgns]
      · simp at hm
  | .seq xs, t, h, hm => by
      simp only [Events] at h
      simpa [asgns] using eventsSeq_bool_mem a v xs t h hm
  | .choice xs, t, h, hm => by
      simp only [Events] at h
      simpa [asgns] using eventsAny_bool_mem a v xs t h hm
  | .opt x, t, h, hm => by
      simp only [Events] at h
      rcases h with rfl | h
      · simp at hm
      · simpa [asgns] using events_bool_mem a v x t h hm
  | .rep _ x, t, h, hm => by
      simp only [Events] at h
      obtain ⟨us, hus, rfl⟩ := h
      obtain ⟨u, hu, hmu⟩ := List.mem_flatten.mp hm
      simpa [asgns] using events_bool_mem a v x u (hus u hu) hmu
  | .unordered xs, t, h, hm => by
      simp only [Events] at h
      simpa [asgns] using eventsUn_bool_mem a v xs t h hm
theorem eventsSeq_bool_mem (a : Attr) (v : V) : ∀ (xs : List Body) (t : List (Ev V)), EventsSeq xs t →
    Ev.bool a v ∈ t → (a, Op.bool) ∈ asgnsL xs
  | [], t, h, hm => by simp only [EventsSeq] at h; subst h; simp at hm
  | x :: xs, t, h, hm => by
      simp only [EventsSeq] at h
      obtain ⟨u, w, rfl, hu, hw⟩ := h
      simp only [asgnsL, List.mem_append] at hm ⊢
      rcases hm with hm | hm
      · exact Or.inl (events_bool_mem a v x u hu hm)
      · exact Or.inr (eventsSeq_bool_mem a v xs w hw hm)
theorem eventsAny_bool_mem (a : Attr) (v : V) : ∀ (xs : List Body) (t : List (Ev V)), EventsAny xs t →
    Ev.bool a v ∈ t → (a, Op.bool) ∈ asgnsL xs
  | [], t, h, _ => by simp [EventsAny] at h
  | x :: xs, t, h, hm => by
      simp only [EventsAny] at h
      simp only [asgnsL, List.mem_append]
      rcases h with h | h
      · exact Or.inl (events_bool_mem a v x t h hm)
      · exact Or.inr (eventsAny_bool_mem a v xs t h hm)
theorem eventsUn_bool_mem (a : Attr) (v : V) : ∀ (xs : List Body) (t : List (Ev V)), EventsUn xs t →
    Ev.bool a v ∈ t → (a, Op.bool) ∈ asgnsL xs
  | [], t, h, hm => by simp only [EventsUn] at h; subst h; simp at hm
  | x :: xs, t, h, hm => by
      simp only [EventsUn] at h
      obtain ⟨p, u, w, rfl, hu, hw⟩ := h
      simp only [asgnsL, List.mem_append] at hm ⊢
      rcases hm with (hm | hm) | hm
      · exact Or.inr (eventsUn_bool_mem a v xs (p ++ w) hw (by simp [hm]))
      · exact Or.inl (events_bool_mem a v x u hu hm)
      · exact Or.inr (eventsUn_bool_mem a v xs (p ++ w) hw (by simp [hm]))
end

/-! ### an attribute assigned only by `?=`, outside repetitions -/

mutual
theorem bool_count (a : Attr) : ∀ (r : Bool) (b : Body), (∀ op, (a, op) ∈ asgns b → op = .bool) →
    bir r b = false →
    (if r then count a b = .zero else (count a b).toNat ≤ ((asgns b).filter (fun p => p.1 = a)).length)
  | r, .leaf, _, _ => by cases r <;> simp [count, Cnt.toNat]
  | r, .asgn b op, hall, hb => by
      by_cases hab : a = b
      · subst hab
        have hop : op = .bool := hall op (by simp [asgns])
        subst hop
        simp [bir] at hb
        subst hb
        simp [count, Op.isList, asgns, Cnt.toNat]
      · cases r <;> simp [count, hab, Cnt.toNat]
  | r, .seq xs, hall, hb => by
      simpa [count, asgns] using bool_countSum a r xs (by simpa [asgns] using hall) (by simpa [bir] using hb)
  | r, .unordered xs, hall, hb => by
      simpa [count, asgns] using bool_countSum a r xs (by simpa [asgns] using hall) (by simpa [bir] using hb)
  | r, .choice xs, hall, hb => by
      simpa [count, asgns] using bool_countMax a r xs (by simpa [asgns] using hall) (by simpa [bir] using hb)
  | r, .opt x, hall, hb => by
      simpa [count, asgns] using bool_count a r x (by simpa [asgns] using hall) (by simpa [bir] using hb)
  | r, .rep _ x, hall, hb => by
      have := bool_count a true x (by simpa [asgns] using hall) (by simpa [bir] using hb)
      simp only [if_true] at this
      cases r <;> simp [count, this, Cnt.toNat]
theorem bool_countSum (a : Attr) : ∀ (r : Bool) (xs : List Body), (∀ op, (a, op) ∈ asgnsL xs → op = .bool) →
    birL r xs = false →
    (if r then countSum a xs = .zero else (countSum a xs).toNat ≤ ((asgnsL xs).filter (fun p => p.1 = a)).length)
  | r, [], _, _ => by cases r <;> simp [countSum, Cnt.toNat]
  | r, x :: xs, hall, hb => by
      simp only [birL, Bool.or_eq_false_iff] at hb
      have h1 := bool_count a r x (fun op h => hall op (by simp [asgnsL, h])) hb.1
      have h2 := bool_countSum a r xs (fun op h => hall op (by simp [asgnsL, h])) hb.2
      cases r
      · simp only [Bool.false_eq_true, if_false, countSum, Cnt.toNat_add, asgnsL, List.filter_append,
          List.length_append] at h1 h2 ⊢
        omega
      · simp only [if_true] at h1 h2 ⊢
        simp [countSum, h1, h2, Cnt.add]
theorem bool_countMax (a : Attr) : ∀ (r : Bool) (xs : List Body), (∀ op, (a, op) ∈ asgnsL xs → op = .bool) →
    birL r xs = false →
    (if r then countMax a xs = .zero else (countMax a xs).toNat ≤ ((asgnsL xs).filter (fun p => p.1 = a)).length)
  | r, [], _, _ => by cases r <;> simp [countMax, Cnt.toNat]
  | r, x :: xs, hall, hb => by
      simp only [birL, Bool.or_eq_false_iff] at hb
      have h1 := bool_count a r x (fun op h => hall op (by simp [asgnsL, h])) hb.1
      have h2 := bool_countMax a r xs (fun op h => hall op (by simp [asgnsL, h])) hb.2
      cases r
      · simp only [Bool.false_eq_true, if_false, countMax, Cnt.toNat_max, asgnsL, List.filter_append,
          List.length_append] at h1 h2 ⊢
        omega
      · simp only [if_true] at h1 h2 ⊢
        simp [countMax, h1, h2, Cnt.max]
end

/-- in an accepted grammar an attribute with a `?=` assignment collects at most one value -/
theorem bool_attr_scalar (b : Body) (a : Attr) (hacc : accepted b = true) (hm : (a, Op.bool) ∈ asgns b) :
    count a b ≠ .many := by
  obtain ⟨hv, hb⟩ := (accepted_iff b).mp hacc
  obtain ⟨hlen, hall⟩ := visit_single a (asgns b) hv hm
  have := bool_count a false b hall hb
  simp only [Bool.false_eq_true, if_false, hlen] at this
  intro hc
  rw [hc] at this
  simp [Cnt.toNat] at this

end Mult
