import TextxVerif.Proofs.RepoHistory
/-!
Why a load fails at reference resolution (C18 "after the failing file is corrected the next load
succeeds"): a load ends with `.fail .semantic` only if some file of its import closure refers to a
name without *visible* definition (`visible`: own file, a file it asks `load_model` for — as cached, or
as on disk —, a builtin model).  Together with `loadMain_nofault` and `loadMain_fuel`: a fault-free
closure whose references all have a visible definition loads successfully.
-/
namespace Repo

/-! ## instances created by a load carry the definitions of their file -/

structure StableD (S : Spec) (st st' : St) : Prop where
  stable : Stable st st'
  defsNew : ∀ m, st.next ≤ m → m < st'.next → st'.defsOf m = S.defs (st'.fileOf m)

theorem StableD.refl (S : Spec) (st : St) : StableD S st st :=
  ⟨Stable.refl _, fun _ h1 h2 => absurd h2 (Nat.not_lt.2 h1)⟩

theorem StableD.trans {S : Spec} {a b c : St} (h1 : StableD S a b) (h2 : StableD S b c) : StableD S a c where
  stable := h1.stable.trans h2.stable
  defsNew := fun m hge hlt => by
    rcases Nat.lt_or_ge m b.next with hm | hm
    · rw [h2.stable.defsOf m hm, h2.stable.fileOf m hm]
      exact h1.defsNew m hge hm
    · exact h2.defsNew m hm hlt

theorem StableD.of_eq (S : Spec) {st st' : St} (h1 : st'.next = st.next) (h2 : st'.fileOf = st.fileOf)
    (h3 : st'.defsOf = st.defsOf) : StableD S st st' :=
  ⟨Stable.of_eq h1 h2 h3, fun m hge hlt => by rw [h1] at hlt; exact absurd hlt (Nat.not_lt.2 hge)⟩

theorem registerSelf_stableD (S : Spec) (st : St) (i : Inst) : StableD S st (st.registerSelf i) := by
  unfold St.registerSelf; split
  · exact StableD.refl _ _
  · exact StableD.of_eq S rfl rfl rfl

theorem removeFromRepos_stableD (S : Spec) (st : St) (ms rm : List Inst) :
    StableD S st (removeFromRepos st ms rm) := by
  unfold removeFromRepos; split
  · exact StableD.refl _ _
  · exact StableD.of_eq S rfl rfl rfl

theorem cleanupA_stableD (S : Spec) (st : St) (j : Inst) : StableD S st (cleanupA st j) :=
  removeFromRepos_stableD S _ _ _

theorem alloc_stableD (S : Spec) (st : St) (g : File) : StableD S st (st.alloc S g) where
  stable := alloc_stable st S g
  defsNew := fun m hge hlt => by
    have hm : m = st.next := Nat.le_antisymm (Nat.le_of_lt_succ hlt) hge
    subst hm
    simp [St.alloc, upd]

def ParseStableD (S : Spec) (parse : Parse) : Prop := ∀ st g, StableD S st (parse st g).1

theorem loadModelWith_stableD (S : Spec) {parse : Parse} (hp : ParseStableD S parse) (st : St) (i : Inst)
    (g : File) : StableD S st (loadModelWith parse st i g).1 := by
  unfold loadModelWith
  split
  · exact StableD.refl _ _
  · split
    · exact StableD.of_eq S rfl rfl rfl
    · have := hp st g
      cases hpe : parse st g with
      | mk st' rj =>
        obtain ⟨r', j⟩ := rj
        rw [hpe] at this
        cases r' with
        | ok => exact this.trans (StableD.of_eq S rfl rfl rfl)
        | fail k => exact this
        | fuel => exact this

theorem loadCalls_stableD (S : Spec) {parse : Parse} (hp : ParseStableD S parse) (i : Inst) :
    ∀ (cs : List (Option File)) (st : St), StableD S st (loadCalls parse i st cs).1 := by
  intro cs
  induction cs with
  | nil => intro st; exact StableD.refl _ _
  | cons c cs ih =>
    intro st
    simp only [loadCalls]
    cases c with
    | none => exact registerSelf_stableD S _ _
    | some g =>
      simp only
      have h1 := loadModelWith_stableD S hp (st.registerSelf i) i g
      cases hl : loadModelWith parse (st.registerSelf i) i g with
      | mk st2 r2 =>
        rw [hl] at h1
        cases r2 with
        | ok => exact ((registerSelf_stableD S _ _).trans h1).trans (ih st2)
        | fail k => exact (registerSelf_stableD S _ _).trans h1
        | fuel => exact (registerSelf_stableD S _ _).trans h1

theorem afterCallback_stableD (S : Spec) (st : St) (g : File) : StableD S st (afterCallback S st g) :=
  ((StableD.of_eq S rfl rfl rfl : StableD S st ({ st with reads := g :: st.reads } : St)).trans
    (alloc_stableD S _ g)).trans (StableD.of_eq S rfl rfl rfl)

theorem internal_stableD (S : Spec) : ∀ fuel, ParseStableD S (internal S fuel)
  | 0 => fun st _ => by simp only [internal]; exact StableD.refl _ _
  | fuel + 1 => by
    intro st g
    rw [internal_unfold]
    split
    · exact StableD.of_eq S rfl rfl rfl
    · have h1 := loadCalls_stableD S (internal_stableD S fuel) st.next (S.calls g) (afterCallback S st g)
      have h0 := afterCallback_stableD S st g
      cases hl : loadCalls (internal S fuel) st.next (afterCallback S st g) (S.calls g) with
      | mk st2 r2 =>
        rw [hl] at h1
        cases r2 with
        | ok => simp only; split <;> exact h0.trans h1
        | fuel => exact h0.trans h1
        | fail k => exact (h0.trans h1).trans (cleanupA_stableD S _ _)

theorem mainStart_stableD (S : Spec) (b : St) (f : File) : StableD S b (mainStart S b f) := by
  unfold mainStart
  have h1 : StableD S b (({ b with reads := f :: b.reads } : St).alloc S f) :=
    (StableD.of_eq S rfl rfl rfl : StableD S b ({ b with reads := f :: b.reads } : St)).trans (alloc_stableD S _ f)
  cases S.glob with
  | true => exact h1.trans (StableD.of_eq S rfl rfl rfl)
  | false => exact h1

theorem strStart_stableD (S : Spec) (b : St) (a : File) : StableD S b (strStart S b a) :=
  (StableD.of_eq S rfl rfl rfl : StableD S b ({ b with reads := a :: b.reads } : St)).trans (alloc_stableD S _ a)

/-! ## imported models never fail at reference resolution -/

def ParseNoSem (parse : Parse) : Prop := ∀ st g, (parse st g).2.1 ≠ .fail .semantic

theorem loadModelWith_nosem {parse : Parse} (hp : ParseNoSem parse) (st : St) (i : Inst) (g : File) :
    (loadModelWith parse st i g).2 ≠ .fail .semantic := by
  unfold loadModelWith
  split
  · intro h; cases h
  · split
    · intro h; cases h
    · have := hp st g
      cases hpe : parse st g with
      | mk st' rj =>
        obtain ⟨r', j⟩ := rj
        rw [hpe] at this
        cases r' with
        | ok => intro h; cases h
        | fail k' => intro h; apply this; simp only at h ⊢; exact h
        | fuel => intro h; cases h

theorem loadCalls_nosem {parse : Parse} (hp : ParseNoSem parse) (i : Inst) :
    ∀ (cs : List (Option File)) (st : St), (loadCalls parse i st cs).2 ≠ .fail .semantic := by
  intro cs
  induction cs with
  | nil => intro st h; simp only [loadCalls] at h; cases h
  | cons c cs ih =>
    intro st
    simp only [loadCalls]
    cases c with
    | none => intro h; cases h
    | some g =>
      simp only
      have h1 := loadModelWith_nosem hp (st.registerSelf i) i g
      cases hl : loadModelWith parse (st.registerSelf i) i g with
      | mk st2 r2 =>
        rw [hl] at h1
        cases r2 with
        | ok => exact ih st2
        | fail k' => intro h; apply h1; simp only at h ⊢; exact h
        | fuel => intro h; cases h

theorem internal_nosem (S : Spec) : ∀ fuel, ParseNoSem (internal S fuel)
  | 0 => by intro st g h; simp only [internal] at h; cases h
  | fuel + 1 => by
    intro st g
    rw [internal_unfold]
    split
    · intro h; cases h
    · have h1 := loadCalls_nosem (internal_nosem S fuel) st.next (S.calls g) (afterCallback S st g)
      cases hl : loadCalls (internal S fuel) st.next (afterCallback S st g) (S.calls g) with
      | mk st2 r2 =>
        rw [hl] at h1
        cases r2 with
        | ok => simp only; split <;> (intro h; cases h)
        | fuel => intro h; cases h
        | fail k' => intro h; apply h1; simp only at h ⊢; exact h

/-! ## a lookup that finds nothing: the name has no visible definition -/

theorem mem_addKeys (g : File) : ∀ (gs acc : List File), g ∈ acc ∨ g ∈ gs → g ∈ addKeys acc gs := by
  intro gs
  induction gs with
  | nil => intro acc h; rcases h with h | h; exact h; cases h
  | cons x gs ih =>
    intro acc h
    simp only [addKeys]
    apply ih
    rcases h with h | h
    · left; split
      · exact h
      · exact List.mem_append_left _ h
    · rcases List.mem_cons.1 h with h | h
      · left; subst h; split
        · assumption
        · simp
      · exact Or.inr h

theorem Dict.get?_eq_none (d : Dict) (f : File) (h : f ∉ d.keys) : d.get? f = none := by
  unfold Dict.get?
  have : d.find? (fun e => e.1 == f) = none := by
    apply List.find?_eq_none.2
    intro e he hef
    apply h
    have : e.1 = f := by simpa using hef
    rw [← this]; exact Dict.mem_keys_of_mem he
  rw [this]; rfl

section vis
variable {B : Dict} {n0 : Nat} {L0 : Inst → Dict}

/-- what a model of the current load finds in one of its local models is what `defsNow` says about the file -/
theorem defsOf_entry (S : Spec) {b st1 : St} (hwf : WF b) (hI : Inv b.all b.next b.loc st1) (hG : Good b.next st1)
    (hD : StableD S b st1) (e : File × Inst) (he : e ∈ st1.all) : st1.defsOf e.2 = defsNow S b e.1 := by
  unfold defsNow
  rcases Nat.lt_or_ge e.2 b.next with hlt | hge
  · have heB := hI.mem_B_of_lt e he hlt
    rw [Dict.get?_of_mem _ _ _ hwf.nodup heB]
    exact hD.stable.defsOf e.2 hlt
  · have hnk : e.1 ∉ b.all.keys := by
      intro hk
      obtain ⟨x, hx, hxe⟩ := List.mem_map.1 hk
      have hx' : (e.1, x.2) ∈ st1.all := by
        have := hI.B_sub x hx
        rw [← hxe]; exact this
      have h1 := Dict.get?_of_mem _ _ _ hG.nodup hx'
      have h2 := Dict.get?_of_mem _ _ _ hG.nodup (show (e.1, e.2) ∈ st1.all from he)
      rw [h1] at h2
      have h3 : x.2 = e.2 := Option.some.inj h2
      have := hwf.lt x hx
      rw [h3] at this
      exact absurd hge (Nat.not_le.2 this)
    rw [Dict.get?_eq_none _ _ hnk]
    simp only
    rw [hD.defsNew e.2 hge (hG.lt e he), hG.file e he]

theorem lookup_none_not_visible (S : Spec) {b st1 : St} (hwf : WF b) (hI : Inv b.all b.next b.loc st1)
    (hG : Good b.next st1) (hD : StableD S b st1) (m : Inst) (hge : b.next ≤ m) (hlt : m < st1.next)
    (hL : LocDone S st1 m) (n : Name) (h : lookup S st1 m n = none) :
    visible S b (st1.fileOf m) n = false := by
  unfold lookup at h
  split at h
  · cases h
  · rename_i hd
    split at h
    · cases h
    · rename_i hfind
      split at h
      · cases h
      · rename_i hbi
        have hA : (S.defs (st1.fileOf m)).contains n = false := by
          rw [← hD.defsNew m hge hlt]
          simpa using hd
        have hB : (((S.calls (st1.fileOf m)).filterMap id).any fun h' => (defsNow S b h').contains n) = false := by
          apply List.any_eq_false.2
          intro h' hh'
          have hk : h' ∈ (st1.loc m).keys := by
            unfold LocDone at hL
            rw [hL]
            exact mem_addKeys h' _ _ (Or.inr hh')
          obtain ⟨e, he, hek⟩ := List.mem_map.1 hk
          have hnone := List.find?_eq_none.1 hfind e he
          have heall := hG.locIn m hge hlt e he
          rw [← hek, ← defsOf_entry S hwf hI hG hD e heall]
          exact hnone
        have hC : (S.builtins.any (·.contains n)) = false := by
          apply List.any_eq_false.2
          intro x hx
          have := List.findIdx?_eq_none_iff.1 hbi x hx
          simpa using this
        unfold visible
        rw [hA, hB, hC]
        rfl

/-- the `is_main_model` part fails at reference resolution only because of a reference without visible
definition in one of the models constructed in this load -/
theorem finishMain_semantic (S : Spec) {b : St} (hwf : WF b) (f : File) {st1 st' : St} {j : Inst}
    (hI : Inv b.all b.next b.loc st1) (hG : Good b.next st1) (hlt : b.next < st1.next)
    (hD : StableD S b st1) (hL : ∀ m, b.next ≤ m → m < st1.next → LocDone S st1 m)
    (h : finishMain S b f st1 = (st', .fail .semantic, j)) :
    ∃ m n, m ∈ modelsOf st1 b.next ∧ n ∈ S.refs (st1.fileOf m) ∧ visible S b (st1.fileOf m) n = false := by
  unfold finishMain at h
  simp only at h
  split at h
  · rename_i hany
    obtain ⟨m, hm, hm2⟩ := List.any_eq_true.1 hany
    obtain ⟨t, ht, htn⟩ := List.any_eq_true.1 hm2
    unfold resolveAll at ht
    obtain ⟨n, hn, hnt⟩ := List.mem_map.1 ht
    have hnone : lookup S st1 m n = none := by
      rw [hnt]
      cases t with
      | none => rfl
      | some v => simp at htn
    have hge : b.next ≤ m := constr_included_ge hI _ (Nat.le_refl _) m hm
    have hmlt : m < st1.next := by
      have hin := (List.mem_filter.1 hm).1
      unfold included at hin
      split at hin
      · obtain ⟨e, he, hem⟩ := List.mem_map.1 hin
        rw [← hem]; exact hG.lt e he
      · rcases List.mem_append.1 hin with h' | h'
        · obtain ⟨e, he, hem⟩ := List.mem_map.1 h'
          rw [← hem]; exact hG.lt e he
        · have : m = b.next := by simpa using h'
          rw [this]; exact hlt
    exact ⟨m, n, hm, hn, lookup_none_not_visible S hwf hI hG hD m hge hmlt (hL m hge hmlt) n hnone⟩
  · split at h
    · cases h
    · split at h
      · cases h
      · cases h

end vis

/-- the file of a model constructed in the load is the main file or a file read in the load -/
theorem modelsOf_file {b st1 : St} (hwf : WF b) (hI : Inv b.all b.next b.loc st1) (hG : Good b.next st1)
    (f : File) (hfile : st1.fileOf b.next = f) (m : Inst) (hm : m ∈ modelsOf st1 b.next) :
    st1.fileOf m = f ∨ (st1.fileOf m ∈ st1.all.keys ∧ st1.fileOf m ∉ b.all.keys) := by
  have hge : b.next ≤ m := constr_included_ge hI _ (Nat.le_refl _) m hm
  have hin := (List.mem_filter.1 hm).1
  have key : ∀ e ∈ st1.all, e.2 = m → st1.fileOf m ∈ st1.all.keys ∧ st1.fileOf m ∉ b.all.keys := by
    intro e he hem
    have hf := hG.file e he
    rw [hem] at hf
    rw [hf]
    refine ⟨Dict.mem_keys_of_mem he, ?_⟩
    intro hk
    obtain ⟨x, hx, hxe⟩ := List.mem_map.1 hk
    have hx' : (e.1, x.2) ∈ st1.all := by
      have := hI.B_sub x hx
      rw [← hxe]; exact this
    have h1 := Dict.get?_of_mem _ _ _ hG.nodup hx'
    have h2 := Dict.get?_of_mem _ _ _ hG.nodup (show (e.1, e.2) ∈ st1.all from he)
    rw [h1] at h2
    have h3 : x.2 = e.2 := Option.some.inj h2
    have := hwf.lt x hx
    rw [h3, hem] at this
    exact absurd hge (Nat.not_le.2 this)
  unfold included at hin
  split at hin
  · obtain ⟨e, he, hem⟩ := List.mem_map.1 hin
    exact Or.inr (key e he hem)
  · rcases List.mem_append.1 hin with h' | h'
    · obtain ⟨e, he, hem⟩ := List.mem_map.1 h'
      exact Or.inr (key e he hem)
    · have : m = b.next := by simpa using h'
      rw [this]; exact Or.inl hfile

/-- **why a main load fails at reference resolution**: some file of the non-cached import closure of the
main file refers to a name without visible definition -/
theorem loadMain_semantic (S : Spec) (fuel : Nat) (st0 : St) (f : File) {st' : St} {j : Inst}
    (hwf : WF (base S st0)) (h : loadMain S fuel st0 f = (st', .fail .semantic, j)) :
    ∃ g n, Reach S (base S st0).all.keys f g ∧ n ∈ S.refs g ∧ visible S (base S st0) g n = false := by
  have hB := hwf.baseOK
  rw [loadMain_unfold] at h
  split at h
  · split at h
    · cases h
    · cases h
  · rename_i hnc
    have hfk : f ∉ (base S st0).all.keys := by
      cases hg : S.glob with
      | true =>
        have : (base S st0).all.has f = false := by
          cases hh : (base S st0).all.has f
          · rfl
          · rw [hg, hh] at hnc; simp at hnc
        exact (Dict.has_false_iff _ _).1 this
      | false => simp [base, hg, Dict.keys]
    split at h
    · cases h
    · obtain ⟨hIa, hGa, hSa, hlt, hca, hina, hfa, hra⟩ := mainStart_facts S hwf f (fun _ => hfk)
      have hka := mainStart_keys S (base S st0) f hfk
      cases hl : loadCalls (internal S fuel) (base S st0).next (mainStart S (base S st0) f) (S.calls f) with
      | mk st1 r1 =>
        rw [hl] at h
        have hsafe := loadCalls_safe (internal_safe hB S fuel) _ (Nat.le_refl _) (S.calls f) _ st1 r1
          hIa hGa hlt hca hl
        obtain ⟨new', hn, _⟩ := loadCalls_reads S (internal_safe hB S fuel) (internal_reads hB S fuel) _
          (Nat.le_refl _) f hfk (S.calls f) _ st1 r1 hIa hGa hlt hca hfa (fun c hc => hc) hl
        have hns := loadCalls_nosem (internal_nosem S fuel) (base S st0).next (S.calls f) (mainStart S (base S st0) f)
        rw [hl] at hns
        cases r1 with
        | fuel => simp only at h; cases h
        | fail k' =>
          simp only at h
          have hk : k' = .semantic := by
            have := congrArg (fun x => x.2.1) h
            simp only at this
            exact Res.fail.inj this
          rw [hk] at hns
          exact absurd rfl hns
        | ok =>
          simp only at h
          obtain ⟨hG1, hM1, _⟩ := hsafe.2 rfl
          have hS1 := loadCalls_stableD S (internal_stableD S fuel) (base S st0).next (S.calls f)
            (mainStart S (base S st0) f)
          rw [hl] at hS1
          have hD : StableD S (base S st0) st1 := (mainStart_stableD S _ f).trans hS1
          have hlt1 : (base S st0).next < st1.next := Nat.lt_of_lt_of_le hlt hM1.next
          obtain ⟨hk, hd⟩ := loadCalls_loc S (internal_safe hB S fuel) (internal_loc hB S fuel) _ (Nat.le_refl _)
            (S.calls f) _ st1 hIa hGa hlt hca hl
          have hf1 : st1.fileOf (base S st0).next = f := by rw [hS1.stable.fileOf _ hlt]; exact hfa
          have hL : ∀ m, (base S st0).next ≤ m → m < st1.next → LocDone S st1 m := by
            intro m h1 h2
            rcases Nat.eq_or_lt_of_le h1 with heq | hgt
            · subst heq
              unfold LocDone
              rw [hk, mainStart_loc, hf1]
              rfl
            · exact hd m (by rw [mainStart_next]; exact hgt) h2
          obtain ⟨m, n, hm, hnr, hv⟩ := finishMain_semantic S hwf f hsafe.1 hG1 hlt1 hD hL h
          refine ⟨st1.fileOf m, n, ?_, hnr, hv⟩
          rcases modelsOf_file hwf hsafe.1 hG1 f hf1 m hm with hmf | ⟨hmk, hmn⟩
          · rw [hmf]; exact Reach.refl hfk
          · rcases hn.keys rfl _ hmk with h1 | h1 | h1
            · rcases hka _ h1 with h2 | h2
              · exact absurd h2 hmn
              · rw [h2]; exact Reach.refl hfk
            · exact hn.reach _ h1
            · have : st1.fileOf m = f := (Option.some.inj h1)
              rw [this]; exact Reach.refl hfk

/-- the same for a main model without file name -/
theorem loadStr_semantic (S : Spec) (fuel : Nat) (st0 : St) (a : File) {st' : St} {j : Inst}
    (hwf : WF (base S st0)) (ha : a ∉ (base S st0).all.keys) (h : loadStr S fuel st0 a = (st', .fail .semantic, j)) :
    ∃ g n, Reach S (base S st0).all.keys a g ∧ n ∈ S.refs g ∧ visible S (base S st0) g n = false := by
  cases hc : S.calls a with
  | cons c cs =>
    rw [loadStr_eq_loadMain S fuel st0 a ha (Or.inr (by rw [hc]; exact List.cons_ne_nil _ _))] at h
    exact loadMain_semantic S fuel st0 a hwf h
  | nil =>
    rw [loadStr_nocalls S fuel st0 a hc] at h
    split at h
    · cases h
    · obtain ⟨hI, hG, _, hlt, _, _⟩ := strStart_facts S hwf a
      have hL : ∀ m, (base S st0).next ≤ m → m < (strStart S (base S st0) a).next →
          LocDone S (strStart S (base S st0) a) m := by
        intro m h1 h2
        have hnx : (strStart S (base S st0) a).next = (base S st0).next + 1 := rfl
        rw [hnx] at h2
        have hm : m = (base S st0).next := Nat.le_antisymm (Nat.le_of_lt_succ h2) h1
        unfold LocDone
        rw [hm, strStart_fileOf]
        have hl : (strStart S (base S st0) a).loc (base S st0).next = [] := by simp [strStart, St.alloc, upd]
        rw [hl]
        simp [callFiles, hc, addKeys, Dict.keys]
      obtain ⟨m, n, hm, hnr, hv⟩ := finishMain_semantic S hwf a hI hG hlt (strStart_stableD S _ a) hL h
      refine ⟨_, n, ?_, hnr, hv⟩
      rcases modelsOf_file hwf hI hG a (strStart_fileOf S _ a) m hm with hmf | ⟨hmk, hmn⟩
      · rw [hmf]; exact Reach.refl ha
      · exact absurd hmk hmn

/-! ## the repaired load succeeds -/

/-- the text a load starts with: the main file, or the invented name of a model without file name -/
def Entry.main : Entry → File
  | .file f => f
  | .str a => a

theorem Entry.run_semantic (S : Spec) (fuel : Nat) (st0 : St) (e : Entry) {st' : St} {j : Inst}
    (hwf : WF (base S st0)) (he : e.Admissible S st0) (h : e.run S fuel st0 = (st', .fail .semantic, j)) :
    ∃ g n, Reach S (base S st0).all.keys e.main g ∧ n ∈ S.refs g ∧ visible S (base S st0) g n = false := by
  cases e with
  | file f => exact loadMain_semantic S fuel st0 f hwf h
  | str a => exact loadStr_semantic S fuel st0 a hwf he h

theorem Entry.run_fuel (S : Spec) (U : List File) (hU : ∀ h ∈ U, ∀ x, some x ∈ S.calls h → x ∈ U)
    (fuel : Nat) (st0 : St) (e : Entry) (hmU : e.main ∈ U) (hwf : WF (base S st0)) (he : e.Admissible S st0)
    (hn : U.length ≤ fuel) : (e.run S fuel st0).2.1 ≠ .fuel := by
  have hn' : unl U (base S st0) ≤ fuel := Nat.le_trans (unl_le_length U _) hn
  cases e with
  | file f => exact loadMain_fuel S U hU fuel st0 f hmU hwf hn'
  | str a => exact loadStr_fuel S U hU fuel st0 a hmU hwf he hn'

/-- a fault-free load with enough fuel whose references all have a visible definition succeeds -/
theorem Entry.run_succeeds (S : Spec) (hS : NoFault S) (U : List File)
    (hU : ∀ h ∈ U, ∀ x, some x ∈ S.calls h → x ∈ U) (fuel : Nat) (st0 : St) (e : Entry) (hmU : e.main ∈ U)
    (hwf : WF (base S st0)) (he : e.Admissible S st0) (hn : U.length ≤ fuel)
    (hv : ∀ g, Reach S (base S st0).all.keys e.main g → ∀ n ∈ S.refs g, visible S (base S st0) g n = true) :
    (e.run S fuel st0).2.1 = .ok := by
  rcases Entry.run_nofault S hS fuel st0 e with h | h | h
  · exact h
  · exfalso
    obtain ⟨g, n, hr, hn', hvis⟩ := Entry.run_semantic S fuel st0 e hwf he
      (show e.run S fuel st0 = ((e.run S fuel st0).1, .fail .semantic, (e.run S fuel st0).2.2) by rw [← h])
    rw [hv g hr n hn'] at hvis
    cases hvis
  · exact absurd h (Entry.run_fuel S U hU fuel st0 e hmU hwf he hn)

/-- files reachable from a file of an import-closed set stay in the set -/
theorem Reach.mem_closed {S : Spec} {C U : List File} (hU : ∀ h ∈ U, ∀ x, some x ∈ S.calls h → x ∈ U)
    {f g : File} (hf : f ∈ U) (hr : Reach S C f g) : g ∈ U := by
  induction hr with
  | refl _ => exact hf
  | step _ hc _ ih => exact hU _ ih _ hc


/-! ## faults outside the import closure do not matter -/

/-- no file of `U` has a syntax error, a failing processor or an import statement without target -/
structure NoFaultOn (S : Spec) (U : List File) : Prop where
  syn : ∀ g ∈ U, S.syntaxErr g = false
  obj : ∀ g ∈ U, S.objFault g = false
  mod : ∀ g ∈ U, S.modFault g = false
  calls : ∀ g ∈ U, none ∉ S.calls g

theorem NoFault.on {S : Spec} (h : NoFault S) (U : List File) : NoFaultOn S U :=
  ⟨fun g _ => h.syn g, fun g _ => h.obj g, fun g _ => h.mod g, fun g _ => h.calls g⟩

def ParseNoFailU (U : List File) (parse : Parse) : Prop := ∀ st g k, g ∈ U → (parse st g).2.1 ≠ .fail k

theorem loadModelWith_nofailU {U : List File} {parse : Parse} (hp : ParseNoFailU U parse) (st : St) (i : Inst)
    (g : File) (hg : g ∈ U) (k : Kind) : (loadModelWith parse st i g).2 ≠ .fail k := by
  unfold loadModelWith
  split
  · intro h; cases h
  · split
    · intro h; cases h
    · have := hp st g
      cases hpe : parse st g with
      | mk st' rj =>
        obtain ⟨r', j⟩ := rj
        rw [hpe] at this
        cases r' with
        | ok => intro h; cases h
        | fail k' => exact absurd rfl (this k' hg)
        | fuel => intro h; cases h

theorem loadCalls_nofailU {U : List File} {parse : Parse} (hp : ParseNoFailU U parse) (i : Inst) :
    ∀ (cs : List (Option File)) (st : St) (k : Kind), none ∉ cs → (∀ g, some g ∈ cs → g ∈ U) →
      (loadCalls parse i st cs).2 ≠ .fail k := by
  intro cs
  induction cs with
  | nil => intro st k _ _ h; simp only [loadCalls] at h; cases h
  | cons c cs ih =>
    intro st k hn hcs
    simp only [loadCalls]
    cases c with
    | none => exact absurd List.mem_cons_self hn
    | some g =>
      simp only
      have h1 := loadModelWith_nofailU hp (st.registerSelf i) i g (hcs g List.mem_cons_self)
      cases hl : loadModelWith parse (st.registerSelf i) i g with
      | mk st2 r2 =>
        rw [hl] at h1
        cases r2 with
        | ok => exact ih st2 k (fun h => hn (List.mem_cons_of_mem _ h)) (fun g' h => hcs g' (List.mem_cons_of_mem _ h))
        | fail k' => exact absurd rfl (h1 k')
        | fuel => intro h; cases h

theorem internal_nofailU (S : Spec) (U : List File) (hU : ∀ h ∈ U, ∀ x, some x ∈ S.calls h → x ∈ U)
    (hS : NoFaultOn S U) : ∀ fuel, ParseNoFailU U (internal S fuel)
  | 0 => by intro st g k _ h; simp only [internal] at h; cases h
  | fuel + 1 => by
    intro st g k hg
    rw [internal_unfold]
    simp only [hS.syn g hg, Bool.false_eq_true, if_false, hS.mod g hg]
    have h1 := loadCalls_nofailU (internal_nofailU S U hU hS fuel) st.next (S.calls g) (afterCallback S st g)
    cases hl : loadCalls (internal S fuel) st.next (afterCallback S st g) (S.calls g) with
    | mk st2 r2 =>
      rw [hl] at h1
      cases r2 with
      | ok => intro h; cases h
      | fuel => intro h; cases h
      | fail k' => exact absurd rfl (h1 k' (hS.calls g hg) (hU g hg))

/-- the files of the models constructed by the imports of the main model are reachable from the main file -/
theorem mainCalls_models_reach (S : Spec) (fuel : Nat) {b : St} (hwf : WF b) (f : File) (hfk : f ∉ b.all.keys)
    {st1 : St} (hl : loadCalls (internal S fuel) b.next (mainStart S b f) (S.calls f) = (st1, .ok)) :
    ∀ m ∈ modelsOf st1 b.next, Reach S b.all.keys f (st1.fileOf m) := by
  have hB := hwf.baseOK
  obtain ⟨hIa, hGa, _, hlt, hca, _, hfa, _⟩ := mainStart_facts S hwf f (fun _ => hfk)
  have hka := mainStart_keys S b f hfk
  have hsafe := loadCalls_safe (internal_safe hB S fuel) _ (Nat.le_refl _) (S.calls f) _ st1 .ok hIa hGa hlt hca hl
  obtain ⟨new', hn, _⟩ := loadCalls_reads S (internal_safe hB S fuel) (internal_reads hB S fuel) _
    (Nat.le_refl _) f hfk (S.calls f) _ st1 .ok hIa hGa hlt hca hfa (fun c hc => hc) hl
  obtain ⟨hG1, _, _⟩ := hsafe.2 rfl
  have hS1 := loadCalls_stable (internal_stable S fuel) b.next (S.calls f) (mainStart S b f)
  rw [hl] at hS1
  have hf1 : st1.fileOf b.next = f := by rw [hS1.fileOf _ hlt]; exact hfa
  intro m hm
  rcases modelsOf_file hwf hsafe.1 hG1 f hf1 m hm with hmf | ⟨hmk, hmn⟩
  · rw [hmf]; exact Reach.refl hfk
  · rcases hn.keys rfl _ hmk with h1 | h1 | h1
    · rcases hka _ h1 with h2 | h2
      · exact absurd h2 hmn
      · rw [h2]; exact Reach.refl hfk
    · exact hn.reach _ h1
    · have : st1.fileOf m = f := (Option.some.inj h1)
      rw [this]; exact Reach.refl hfk

theorem finishMain_nofaultU (S : Spec) (U : List File) (hS : NoFaultOn S U) (b : St) (f : File) (st1 : St)
    (hf : f ∈ U) (hm : ∀ m ∈ modelsOf st1 b.next, st1.fileOf m ∈ U) :
    (finishMain S b f st1).2.1 = .ok ∨ (finishMain S b f st1).2.1 = .fail .semantic := by
  unfold finishMain
  simp only [hS.mod f hf, Bool.false_eq_true, if_false]
  split
  · exact Or.inr rfl
  · have : (List.any (modelsOf st1 b.next) fun m =>
        S.objFault (((st1.setTargets S (modelsOf st1 b.next)).endConstruction
          (modelsOf st1 b.next)).fileOf m)) = false := by
      apply List.any_eq_false.2
      intro m hmm
      have : ((st1.setTargets S (modelsOf st1 b.next)).endConstruction (modelsOf st1 b.next)).fileOf m
          = st1.fileOf m := rfl
      rw [this, hS.obj _ (hm m hmm)]
      simp
    unfold modelsOf at this
    simp only [this, Bool.false_eq_true, if_false]
    simp

theorem loadMain_nofaultU (S : Spec) (U : List File) (hU : ∀ h ∈ U, ∀ x, some x ∈ S.calls h → x ∈ U)
    (hS : NoFaultOn S U) (fuel : Nat) (st0 : St) (f : File) (hfU : f ∈ U) (hwf : WF (base S st0)) :
    (loadMain S fuel st0 f).2.1 = .ok ∨ (loadMain S fuel st0 f).2.1 = .fail .semantic ∨
      (loadMain S fuel st0 f).2.1 = .fuel := by
  rw [loadMain_unfold]
  simp only [hS.syn f hfU, hS.mod f hfU, Bool.false_eq_true, if_false]
  split
  · exact Or.inl rfl
  · rename_i hnc
    have hfk : f ∉ (base S st0).all.keys := by
      cases hg : S.glob with
      | true =>
        have : (base S st0).all.has f = false := by
          cases hh : (base S st0).all.has f
          · rfl
          · rw [hg, hh] at hnc; simp at hnc
        exact (Dict.has_false_iff _ _).1 this
      | false => simp [base, hg, Dict.keys]
    have h1 := loadCalls_nofailU (internal_nofailU S U hU hS fuel) (base S st0).next (S.calls f)
      (mainStart S (base S st0) f)
    cases hl : loadCalls (internal S fuel) (base S st0).next (mainStart S (base S st0) f) (S.calls f) with
    | mk st1 r1 =>
      rw [hl] at h1
      cases r1 with
      | fuel => exact Or.inr (Or.inr rfl)
      | fail k' => exact absurd rfl (h1 k' (hS.calls f hfU) (hU f hfU))
      | ok =>
        simp only
        have hr := mainCalls_models_reach S fuel hwf f hfk hl
        rcases finishMain_nofaultU S U hS (base S st0) f st1 hfU
            (fun m hm => Reach.mem_closed hU hfU (hr m hm)) with h | h
        · exact Or.inl h
        · exact Or.inr (Or.inl h)

theorem loadStr_nofaultU (S : Spec) (U : List File) (hU : ∀ h ∈ U, ∀ x, some x ∈ S.calls h → x ∈ U)
    (hS : NoFaultOn S U) (fuel : Nat) (st0 : St) (a : File) (haU : a ∈ U) (hwf : WF (base S st0))
    (ha : a ∉ (base S st0).all.keys) :
    (loadStr S fuel st0 a).2.1 = .ok ∨ (loadStr S fuel st0 a).2.1 = .fail .semantic ∨
      (loadStr S fuel st0 a).2.1 = .fuel := by
  cases hc : S.calls a with
  | cons c cs =>
    rw [loadStr_eq_loadMain S fuel st0 a ha (Or.inr (by rw [hc]; exact List.cons_ne_nil _ _))]
    exact loadMain_nofaultU S U hU hS fuel st0 a haU hwf
  | nil =>
    rw [loadStr_nocalls S fuel st0 a hc]
    simp only [hS.syn a haU, Bool.false_eq_true, if_false]
    obtain ⟨hI, hG, _, _, _, _⟩ := strStart_facts S hwf a
    have hm : ∀ m ∈ modelsOf (strStart S (base S st0) a) (base S st0).next,
        (strStart S (base S st0) a).fileOf m ∈ U := by
      intro m hm
      rcases modelsOf_file hwf hI hG a (strStart_fileOf S _ a) m hm with hmf | ⟨hmk, hmn⟩
      · rw [hmf]; exact haU
      · exact absurd hmk hmn
    rcases finishMain_nofaultU S U hS (base S st0) a _ haU hm with h | h
    · exact Or.inl h
    · exact Or.inr (Or.inl h)

theorem Entry.run_nofaultU (S : Spec) (U : List File) (hU : ∀ h ∈ U, ∀ x, some x ∈ S.calls h → x ∈ U)
    (hS : NoFaultOn S U) (fuel : Nat) (st0 : St) (e : Entry) (hmU : e.main ∈ U) (hwf : WF (base S st0))
    (he : e.Admissible S st0) :
    (e.run S fuel st0).2.1 = .ok ∨ (e.run S fuel st0).2.1 = .fail .semantic ∨ (e.run S fuel st0).2.1 = .fuel := by
  cases e with
  | file f => exact loadMain_nofaultU S U hU hS fuel st0 f hmU hwf
  | str a => exact loadStr_nofaultU S U hU hS fuel st0 a hmU hwf he

/-- a load with enough fuel whose import-closed set of files has no fault and whose references all have a
visible definition succeeds — whatever is wrong with files outside that set -/
theorem Entry.run_succeedsU (S : Spec) (U : List File)
    (hU : ∀ h ∈ U, ∀ x, some x ∈ S.calls h → x ∈ U) (hS : NoFaultOn S U) (fuel : Nat) (st0 : St) (e : Entry)
    (hmU : e.main ∈ U) (hwf : WF (base S st0)) (he : e.Admissible S st0) (hn : U.length ≤ fuel)
    (hv : ∀ g, Reach S (base S st0).all.keys e.main g → ∀ n ∈ S.refs g, visible S (base S st0) g n = true) :
    (e.run S fuel st0).2.1 = .ok := by
  rcases Entry.run_nofaultU S U hU hS fuel st0 e hmU hwf he with h | h | h
  · exact h
  · exfalso
    obtain ⟨g, n, hr, hn', hvis⟩ := Entry.run_semantic S fuel st0 e hwf he
      (show e.run S fuel st0 = ((e.run S fuel st0).1, .fail .semantic, (e.run S fuel st0).2.2) by rw [← h])
    rw [hv g hr n hn'] at hvis
    cases hvis
  · exact absurd h (Entry.run_fuel S U hU fuel st0 e hmU hwf he hn)

/-- decidable form of `NoFaultOn` -/
def noFaultB (S : Spec) (U : List File) : Bool :=
  U.all fun g => !S.syntaxErr g && !S.objFault g && !S.modFault g && !(S.calls g).contains none

theorem noFaultB_spec {S : Spec} {U : List File} (h : noFaultB S U = true) : NoFaultOn S U := by
  have key : ∀ g ∈ U, (!S.syntaxErr g && !S.objFault g && !S.modFault g && !(S.calls g).contains none) = true :=
    fun g hg => List.all_eq_true.1 h g hg
  refine ⟨fun g hg => ?_, fun g hg => ?_, fun g hg => ?_, fun g hg => ?_⟩
  · have := key g hg; simp only [Bool.and_eq_true, Bool.not_eq_true'] at this; exact this.1.1.1
  · have := key g hg; simp only [Bool.and_eq_true, Bool.not_eq_true'] at this; exact this.1.1.2
  · have := key g hg; simp only [Bool.and_eq_true, Bool.not_eq_true'] at this; exact this.1.2
  · have := key g hg; simp only [Bool.and_eq_true, Bool.not_eq_true'] at this
    intro hc
    have : (S.calls g).contains none = true := by simpa using hc
    simp_all

/-! ## the repaired pre-load succeeds -/

/-- a successful main load: every instance it created carries the definitions of its file -/
theorem loadMain_stableD_ok (S : Spec) (fuel : Nat) (st0 : St) (f : File) {st' : St} {j : Inst}
    (h : loadMain S fuel st0 f = (st', .ok, j)) : StableD S (base S st0) st' := by
  rw [loadMain_unfold] at h
  split at h
  · split at h
    · cases h
    · cases h; exact StableD.refl _ _
  · split at h
    · cases h
    · have hS1 := loadCalls_stableD S (internal_stableD S fuel) (base S st0).next (S.calls f)
        (mainStart S (base S st0) f)
      cases hl : loadCalls (internal S fuel) (base S st0).next (mainStart S (base S st0) f) (S.calls f) with
      | mk st1 r1 =>
        rw [hl] at h hS1
        cases r1 with
        | fuel => simp only at h; cases h
        | fail k' => simp only at h; cases h
        | ok =>
          simp only at h
          obtain ⟨_, e2, e3, e4⟩ := finishMain_ok_same S _ f st1 st' j h
          exact ((mainStart_stableD S _ f).trans hS1).trans (StableD.of_eq S e3 e2 e4)

/-- what a later load finds in a file does not change by a successful load of the same files in between -/
theorem defsNow_after_ok (S : Spec) (fuel : Nat) (st : St) (f : File) {st1 : St} {j : Inst} (hg : S.glob = true)
    (hwf : WF st) (hl : loadMain S fuel st f = (st1, .ok, j)) (h : File) : defsNow S st1 h = defsNow S st h := by
  have hb := base_of_glob S st hg
  have hok := loadMain_ok S fuel st f (hwf.base S) hl
  have hD := loadMain_stableD_ok S fuel st f hl
  rw [hb] at hok hD
  obtain ⟨N, hN, hge⟩ := hok.invW.split
  unfold defsNow
  by_cases hk : h ∈ st.all.keys
  · obtain ⟨e, he, hek⟩ := List.mem_map.1 hk
    have he' : (h, e.2) ∈ st.all := by rw [← hek]; exact he
    have he1 : (h, e.2) ∈ st1.all := by rw [hN]; exact List.mem_append_left _ he'
    rw [Dict.get?_of_mem _ _ _ hwf.nodup he', Dict.get?_of_mem _ _ _ hok.wf.nodup he1]
    exact hD.stable.defsOf e.2 (hwf.lt (h, e.2) he')
  · rw [Dict.get?_eq_none _ _ hk]
    by_cases hk1 : h ∈ st1.all.keys
    · obtain ⟨e, he, hek⟩ := List.mem_map.1 hk1
      have he' : (h, e.2) ∈ st1.all := by rw [← hek]; exact he
      rw [Dict.get?_of_mem _ _ _ hok.wf.nodup he']
      have hx : st.next ≤ e.2 := by
        rw [hN] at he
        rcases List.mem_append.1 he with h1 | h1
        · exact absurd (by rw [← hek]; exact Dict.mem_keys_of_mem h1) hk
        · exact hge e h1
      simp only
      rw [hD.defsNew e.2 hx (hok.wf.lt (h, e.2) he'), hok.wf.file (h, e.2) he']
    · rw [Dict.get?_eq_none _ _ hk1]

theorem visible_after_ok (S : Spec) (fuel : Nat) (st : St) (f : File) {st1 : St} {j : Inst} (hg : S.glob = true)
    (hwf : WF st) (hl : loadMain S fuel st f = (st1, .ok, j)) (g : File) (n : Name) :
    visible S st1 g n = visible S st g n := by
  unfold visible
  simp only [defsNow_after_ok S fuel st f hg hwf hl]

/-- **a pre-load of repaired files succeeds**: no fault in an import-closed set `U` containing every file
the patterns denote, every pattern denotes a file, fuel for `U`, and every reference of the files of `U`
has a visible definition -/
theorem preload_succeeds (S : Spec) (hg : S.glob = true) (U : List File)
    (hU : ∀ h ∈ U, ∀ x, some x ∈ S.calls h → x ∈ U) (hS : NoFaultOn S U) (fuel : Nat) (hn : U.length ≤ fuel) :
    ∀ (calls : List (Option File)) (st : St), WF st → none ∉ calls → (∀ c, some c ∈ calls → c ∈ U) →
      (∀ g ∈ U, ∀ n ∈ S.refs g, visible S st g n = true) → (Repo.preload S fuel st calls).2 = .ok := by
  intro calls
  induction calls with
  | nil => intro st _ _ _ _; rfl
  | cons c cs ih =>
    intro st hwf hnone hc hv
    cases c with
    | none => exact absurd List.mem_cons_self hnone
    | some g =>
      have hnone' : none ∉ cs := fun h => hnone (List.mem_cons_of_mem _ h)
      have hcs : ∀ c, some c ∈ cs → c ∈ U := fun c h => hc c (List.mem_cons_of_mem _ h)
      cases hhas : st.all.has g with
      | true =>
        rw [preload_cons_cached S fuel st g cs hhas]
        exact ih st hwf hnone' hcs hv
      | false =>
        have hgU : g ∈ U := hc g List.mem_cons_self
        have hb := base_of_glob S st hg
        have hok : (Entry.run S fuel st (.file g)).2.1 = .ok :=
          Entry.run_succeedsU S U hU hS fuel st (.file g) hgU (hwf.base S) trivial hn
            (fun g' hr n hn' => by
              rw [hb]; exact hv g' (Reach.mem_closed hU hgU hr) n hn')
        cases hl : loadMain S fuel st g with
        | mk st1 rj =>
          obtain ⟨r1, j1⟩ := rj
          have : r1 = .ok := by
            have h' : (loadMain S fuel st g).2.1 = .ok := hok
            rw [hl] at h'; exact h'
          subst this
          rw [preload_cons_ok S fuel st st1 g j1 cs hhas hl]
          refine ih st1 (loadMain_ok S fuel st g (hwf.base S) hl).wf hnone' hcs ?_
          intro g' hg' n hn'
          rw [visible_after_ok S fuel st g hg hwf hl]
          exact hv g' hg' n hn'

end Repo
