import TextxVerif.Link.PlainName
import TextxVerif.Proofs.Link.Tree
/-! `get_children` with its identity set = filtered containment pre-order, when
the containment structure is a tree of distinct objects. -/
namespace Link

theorem followKids_eq (sel : Obj → Bool) (ks : List Obj) (acc : List Obj) :
    followKids sel ks acc = ks.foldl (fun a k => follow sel k a) acc := by
  induction ks generalizing acc with
  | nil => simp [followKids]
  | cons k ks ih => simp [followKids, ih]

theorem followAttrs_eq (sel : Obj → Bool) (as : List Attr) (acc : List Obj) :
    followAttrs sel as acc = (as.flatMap Attr.kids).foldl (fun a k => follow sel k a) acc := by
  induction as generalizing acc with
  | nil => simp [followAttrs]
  | cons a as ih =>
    cases a with
    | cont ks => simp [followAttrs, ih, followKids_eq, Attr.kids, List.foldl_append]
    | ref t => simp [followAttrs, ih, Attr.kids]
    | prim => simp [followAttrs, ih, Attr.kids]

theorem follow_eq (sel : Obj → Bool) (o : Obj) (acc : List Obj) :
    follow sel o acc =
      if acc.any (fun x => x.id == o.id) then acc
      else o.children.foldl (fun a k => follow sel k a) (if sel o then acc ++ [o] else acc) := by
  cases o with
  | mk i c n as => simp [follow, followAttrs_eq, Obj.children, Obj.attrs, Obj.id]

/-- the fold over a list of subtrees, given the statement for each subtree -/
theorem foldl_follow (sel : Obj → Bool) (ks : List Obj)
    (ih : ∀ k, k ∈ ks → ∀ acc : List Obj, ((preorder k).map Obj.id).Nodup →
      (∀ x, x ∈ acc → x.id ∉ (preorder k).map Obj.id) →
      follow sel k acc = acc ++ (preorder k).filter sel)
    (acc : List Obj) (hnd : ((ks.flatMap preorder).map Obj.id).Nodup)
    (hdis : ∀ x, x ∈ acc → x.id ∉ (ks.flatMap preorder).map Obj.id) :
    ks.foldl (fun a k => follow sel k a) acc = acc ++ (ks.flatMap preorder).filter sel := by
  induction ks generalizing acc with
  | nil => simp
  | cons k ks ihk =>
    simp only [List.flatMap_cons, List.map_append, List.nodup_append] at hnd
    obtain ⟨hk, hks, hcross⟩ := hnd
    simp only [List.foldl_cons]
    rw [ih k (by simp) acc hk (fun x hx hmem => hdis x hx (by simp [hmem]))]
    rw [ihk (fun k' hk' => ih k' (by simp [hk'])) _ hks]
    · simp [List.append_assoc]
    · intro x hx hmem
      rcases List.mem_append.1 hx with hx | hx
      · exact hdis x hx (by
          simp only [List.flatMap_cons, List.map_append, List.mem_append]
          exact Or.inr hmem)
      · have hxk : x.id ∈ (preorder k).map Obj.id :=
          List.mem_map.2 ⟨x, (List.mem_filter.1 hx).1, rfl⟩
        exact hcross _ hxk _ hmem rfl

theorem follow_spec (sel : Obj → Bool) (o : Obj) : ∀ acc : List Obj,
    ((preorder o).map Obj.id).Nodup → (∀ x, x ∈ acc → x.id ∉ (preorder o).map Obj.id) →
    follow sel o acc = acc ++ (preorder o).filter sel := by
  induction o using Obj.induct_children with
  | h o ih =>
    intro acc hnd hdis
    rw [follow_eq]
    have hself : o.id ∈ (preorder o).map Obj.id := List.mem_map.2 ⟨o, self_mem_preorder o, rfl⟩
    have hany : acc.any (fun x => x.id == o.id) = false := by
      rw [List.any_eq_false]
      intro x hx hh
      have : x.id = o.id := by simpa using hh
      exact hdis x hx (this ▸ hself)
    rw [hany]
    simp only [Bool.false_eq_true, if_false]
    rw [preorder_eq] at hnd hdis ⊢
    simp only [List.map_cons, List.nodup_cons] at hnd
    obtain ⟨hon, hkn⟩ := hnd
    rw [foldl_follow sel o.children ih _ hkn]
    · by_cases hs : sel o = true
      · simp [hs]
      · simp [hs]
    · intro x hx
      have hx' : x ∈ acc ∨ x = o := by
        by_cases hs : sel o = true
        · simp only [hs, if_true, List.mem_append, List.mem_singleton] at hx; exact hx
        · simp only [hs] at hx; exact Or.inl (by simpa using hx)
      rcases hx' with hx' | rfl
      · intro hm; exact hdis x hx' (by simp [hm])
      · exact hon

/-- `get_children(selector, root)` returns the selected objects of the
containment pre-order, each once -/
theorem getChildren_eq_filter (sel : Obj → Bool) (root : Obj) (h : DistinctIds root) :
    getChildren sel root = (preorder root).filter sel := by
  unfold getChildren
  rw [follow_spec sel root [] h (by simp)]
  simp

/-! a `Nodup`-by-id list: filter has ≤ 1 / exactly these elements -/

theorem eq_of_id_eq {root a b : Obj} (h : DistinctIds root) (ha : a ∈ preorder root)
    (hb : b ∈ preorder root) (hid : a.id = b.id) : a = b := by
  unfold DistinctIds at h
  generalize preorder root = l at h ha hb
  induction l with
  | nil => cases ha
  | cons x xs ih =>
    simp only [List.map_cons, List.nodup_cons] at h
    rcases List.mem_cons.1 ha with rfl | ha' <;> rcases List.mem_cons.1 hb with rfl | hb'
    · rfl
    · exact absurd (List.mem_map.2 ⟨b, hb', hid.symm⟩) h.1
    · exact absurd (List.mem_map.2 ⟨a, ha', hid⟩) h.1
    · exact ih h.2 ha' hb'

theorem nodup_preorder {root : Obj} (h : DistinctIds root) : (preorder root).Nodup :=
  List.Pairwise.of_map Obj.id (fun _ _ hne heq => hne (heq ▸ rfl)) h

end Link

namespace Link

/-! ## filters of duplicate-free lists -/

theorem filter_eq_singleton_iff {α} (p : α → Bool) (l : List α) (hnd : l.Nodup) (x : α) :
    l.filter p = [x] ↔ x ∈ l ∧ p x = true ∧ ∀ y, y ∈ l → p y = true → y = x := by
  constructor
  · intro h
    have hx : x ∈ l.filter p := by rw [h]; simp
    refine ⟨(List.mem_filter.1 hx).1, (List.mem_filter.1 hx).2, ?_⟩
    intro y hy hpy
    have : y ∈ l.filter p := List.mem_filter.2 ⟨hy, hpy⟩
    rw [h] at this
    simpa using this
  · rintro ⟨hx, hpx, huniq⟩
    have hfn : (l.filter p).Nodup := hnd.sublist List.filter_sublist
    have hall : ∀ y, y ∈ l.filter p → y = x := fun y hy =>
      huniq y (List.mem_filter.1 hy).1 (List.mem_filter.1 hy).2
    have hmem : x ∈ l.filter p := List.mem_filter.2 ⟨hx, hpx⟩
    cases hf : l.filter p with
    | nil => rw [hf] at hmem; cases hmem
    | cons a rest =>
      cases rest with
      | nil =>
        rw [hf] at hall
        rw [hall a (by simp)]
      | cons b rest' =>
        rw [hf] at hall hfn
        have ha := hall a (by simp)
        have hb := hall b (by simp)
        simp only [List.nodup_cons, List.mem_cons] at hfn
        exact absurd (Or.inl (ha.trans hb.symm)) hfn.1

theorem filter_two_iff {α} (p : α → Bool) (l : List α) (hnd : l.Nodup) :
    (∃ a b rest, l.filter p = a :: b :: rest) ↔
      ∃ a b, a ∈ l ∧ b ∈ l ∧ a ≠ b ∧ p a = true ∧ p b = true := by
  constructor
  · rintro ⟨a, b, rest, h⟩
    have hfn : (l.filter p).Nodup := hnd.sublist List.filter_sublist
    have ha : a ∈ l.filter p := by rw [h]; simp
    have hb : b ∈ l.filter p := by rw [h]; simp
    rw [h] at hfn
    simp only [List.nodup_cons, List.mem_cons] at hfn
    exact ⟨a, b, (List.mem_filter.1 ha).1, (List.mem_filter.1 hb).1,
      fun hab => hfn.1 (Or.inl hab), (List.mem_filter.1 ha).2, (List.mem_filter.1 hb).2⟩
  · rintro ⟨a, b, ha, hb, hab, hpa, hpb⟩
    have hma : a ∈ l.filter p := List.mem_filter.2 ⟨ha, hpa⟩
    have hmb : b ∈ l.filter p := List.mem_filter.2 ⟨hb, hpb⟩
    cases hf : l.filter p with
    | nil => rw [hf] at hma; cases hma
    | cons x rest =>
      cases rest with
      | nil =>
        rw [hf] at hma hmb
        simp only [List.mem_singleton] at hma hmb
        exact absurd (hma.trans hmb.symm) hab
      | cons y rest' => exact ⟨x, y, rest', rfl⟩

/-! ## the provider's verdict -/

variable (conf : Nat → Nat → Bool) (root : Obj) (name : String) (tcls : Nat)

theorem plainName_one_iff (h : DistinctIds root) (o : Obj) :
    plainName conf root name tcls = .one o ↔
      o ∈ preorder root ∧ isMatch conf name tcls o = true ∧
        ∀ y, y ∈ preorder root → isMatch conf name tcls y = true → y = o := by
  rw [← filter_eq_singleton_iff _ _ (nodup_preorder h), ← getChildren_eq_filter _ _ h]
  unfold plainName
  cases hg : getChildren (isMatch conf name tcls) root with
  | nil => simp
  | cons a rest =>
    cases rest with
    | nil => simp
    | cons b rest' => simp

theorem plainName_none_iff (h : DistinctIds root) :
    plainName conf root name tcls = .none ↔
      ∀ y, y ∈ preorder root → isMatch conf name tcls y = false := by
  unfold plainName
  rw [getChildren_eq_filter _ _ h]
  cases hg : (preorder root).filter (isMatch conf name tcls) with
  | nil =>
    simp only [true_iff]
    intro y hy
    have := List.filter_eq_nil_iff.1 hg y hy
    simpa using this
  | cons a rest =>
    have ha : a ∈ (preorder root).filter (isMatch conf name tcls) := by rw [hg]; simp
    have := List.mem_filter.1 ha
    cases rest with
    | nil =>
      simp only [reduceCtorEq, false_iff]
      intro hall; rw [hall a this.1] at this; exact absurd this.2 (by simp)
    | cons b rest' =>
      simp only [reduceCtorEq, false_iff]
      intro hall; rw [hall a this.1] at this; exact absurd this.2 (by simp)

theorem plainName_many_iff (h : DistinctIds root) :
    plainName conf root name tcls = .many ↔
      ∃ a b, a ∈ preorder root ∧ b ∈ preorder root ∧ a ≠ b ∧
        isMatch conf name tcls a = true ∧ isMatch conf name tcls b = true := by
  rw [← filter_two_iff _ _ (nodup_preorder h), ← getChildren_eq_filter _ _ h]
  unfold plainName
  cases hg : getChildren (isMatch conf name tcls) root with
  | nil => simp
  | cons a rest =>
    cases rest with
    | nil => simp
    | cons b rest' => simp

end Link
