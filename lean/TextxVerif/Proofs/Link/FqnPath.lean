import TextxVerif.Proofs.Link.Fqn
import TextxVerif.Proofs.Link.PlainName
/-! The `parent` chain of an object of the tree: `pathTo` succeeds for every object
of a tree of distinct objects, starts at that object, and is the only containment
path to it.  Also: erasing non-containment attributes, for every conformance
predicate that does not look at them. -/
namespace Link

/-- every object of the tree has a containment path from the root, starting at it -/
theorem Desc.exists_isPath {r c : Obj} (h : Desc r c) : ∃ rest, IsPath c.id r (c :: rest) := by
  induction h with
  | refl r => exact ⟨[], IsPath.here rfl⟩
  | @step r k o hk _ ih =>
    obtain ⟨rest, hp⟩ := ih
    exact ⟨rest ++ [r], IsPath.inside hk hp⟩

/-- the path ends in an object of the tree that carries the identity -/
theorem IsPath.holder {t : Nat} {r : Obj} {p : List Obj} (h : IsPath t r p) :
    ∃ c, c ∈ preorder r ∧ c.id = t := by
  obtain ⟨c, rest, hc, hid⟩ := h.head
  exact ⟨c, (mem_preorder_iff_desc _ _).2 (h.desc c (by simp [hc])), hid⟩

theorem pathTo_holder {t : Nat} {r : Obj} {p : List Obj} (h : pathTo t r = some p) :
    ∃ c, c ∈ preorder r ∧ c.id = t := (pathTo_isPath t r p h).holder

/-- no object of the tree carries the identity: no path -/
theorem pathTo_none_of_not_mem {t : Nat} {r : Obj} (h : t ∉ (preorder r).map Obj.id) :
    pathTo t r = none := by
  cases hp : pathTo t r with
  | none => rfl
  | some p =>
    obtain ⟨c, hc, hid⟩ := pathTo_holder hp
    exact absurd (List.mem_map.2 ⟨c, hc, hid⟩) h

/-- **Completeness and uniqueness of the ancestor list.** In a tree of distinct
objects every containment path to the identity `t` is what `pathTo` computes. -/
theorem IsPath.pathTo_eq_some {t : Nat} {r : Obj} {p : List Obj} (h : IsPath t r p)
    (hd : DistinctIds r) : pathTo t r = some p := by
  induction h with
  | here hid => rw [pathTo_eq]; simp [hid]
  | @inside o k p hk hkp ih =>
    obtain ⟨l1, l2, hsplit⟩ := List.append_of_mem hk
    have hnd : ((preorder o).map Obj.id).Nodup := hd
    rw [preorder_eq, hsplit] at hnd
    simp only [List.map_cons, List.nodup_cons, List.flatMap_append, List.flatMap_cons,
      List.map_append] at hnd
    obtain ⟨hself, hrest⟩ := hnd
    obtain ⟨_, hkl2, hcross⟩ := List.nodup_append.1 hrest
    obtain ⟨hknd, _, _⟩ := List.nodup_append.1 hkl2
    obtain ⟨c, hc, hcid⟩ := hkp.holder
    have hcmem : t ∈ (preorder k).map Obj.id := List.mem_map.2 ⟨c, hc, hcid⟩
    have hne : ¬ o.id = t := by
      intro he
      apply hself
      rw [he]
      exact List.mem_append.2 (Or.inr (List.mem_append.2 (Or.inl hcmem)))
    have hbefore : l1.findSome? (pathTo t) = none := by
      rw [List.findSome?_eq_none_iff]
      intro k' hk'
      apply pathTo_none_of_not_mem
      intro hm
      have hm1 : t ∈ (l1.flatMap preorder).map Obj.id := by
        obtain ⟨x, hx, hxid⟩ := List.mem_map.1 hm
        exact List.mem_map.2 ⟨x, List.mem_flatMap.2 ⟨k', hk', hx⟩, hxid⟩
      exact hcross t hm1 t (List.mem_append.2 (Or.inl hcmem)) rfl
    rw [pathTo_eq]
    simp only [hne, if_false]
    rw [hsplit, List.findSome?_append, hbefore]
    simp [ih hknd]

/-- `pathTo` succeeds for every object of the tree and starts at that very object -/
theorem pathTo_complete {root c : Obj} (hd : DistinctIds root) (hc : Desc root c) :
    ∃ rest, pathTo c.id root = some (c :: rest) := by
  obtain ⟨rest, hp⟩ := hc.exists_isPath
  exact ⟨rest, hp.pathTo_eq_some hd⟩

/-- the containment path to an identity is unique -/
theorem IsPath.unique {t : Nat} {r : Obj} {p q : List Obj} (hd : DistinctIds r)
    (hp : IsPath t r p) (hq : IsPath t r q) : p = q :=
  Option.some.inj ((hp.pathTo_eq_some hd).symm.trans (hq.pathTo_eq_some hd))

/-- `pathTo` succeeds exactly for the identities carried by an object of the tree -/
theorem pathTo_isSome_iff {root : Obj} (hd : DistinctIds root) (t : Nat) :
    (pathTo t root).isSome ↔ ∃ c, Desc root c ∧ c.id = t := by
  constructor
  · intro h
    cases hp : pathTo t root with
    | none => rw [hp] at h; cases h
    | some p =>
      obtain ⟨c, hc, hid⟩ := pathTo_holder hp
      exact ⟨c, (mem_preorder_iff_desc _ _).1 hc, hid⟩
  · rintro ⟨c, hc, rfl⟩
    obtain ⟨rest, hp⟩ := pathTo_complete hd hc
    simp [hp]

/-! ## erasing non-containment attributes, for any conformance predicate blind to them -/

theorem findObjFqn_strip' (conf : Obj → Bool) (hconf : ∀ o, conf (strip o) = conf o) (p : Obj)
    (parts : List String) :
    findObjFqn conf (strip p) parts = (findObjFqn conf p parts).map strip := by
  unfold findObjFqn
  rw [walk_strip]
  cases walk p parts with
  | none => simp
  | some o => by_cases h : conf o = true <;> simp [hconf, h]

theorem findReferenced_strip' (conf : Obj → Bool) (hconf : ∀ o, conf (strip o) = conf o)
    (ancs : List Obj) (parts : List String) :
    findReferenced conf (ancs.map strip) parts = (findReferenced conf ancs parts).map strip := by
  unfold findReferenced
  induction ancs with
  | nil => simp
  | cons a as ih =>
    simp only [List.map_cons, List.findSome?_cons, findObjFqn_strip' conf hconf]
    cases findObjFqn conf a parts with
    | some o => simp
    | none => simpa using ih

theorem fqn_strip' (conf : Obj → Bool) (hconf : ∀ o, conf (strip o) = conf o) (root : Obj)
    (cur : Nat) (parts : List String) :
    fqn conf (strip root) cur parts = (fqn conf root cur parts).map strip := by
  unfold fqn
  rw [pathTo_strip]
  cases pathTo cur root with
  | none => simp
  | some ancs => simp [findReferenced_strip' conf hconf]

end Link
