import TextxVerif.Link.Tree
/-! Lemmas about object trees: everything later is proved through
`preorder_eq` (unfolding in terms of `children`) and `Obj.induct_children`. -/
namespace Link

theorem preAttrs_eq (as : List Attr) : preAttrs as = preKids (as.flatMap Attr.kids) := by
  induction as with
  | nil => simp [preAttrs, preKids]
  | cons a as ih =>
    cases a with
    | cont ks =>
      simp only [preAttrs, List.flatMap_cons, Attr.kids, ih]
      generalize as.flatMap Attr.kids = rest
      induction ks with
      | nil => simp [preKids]
      | cons k ks ih2 => simp [preKids, ih2, List.append_assoc]
    | ref t => simp [preAttrs, Attr.kids, ih]
    | prim => simp [preAttrs, Attr.kids, ih]

theorem preKids_eq (ks : List Obj) : preKids ks = ks.flatMap preorder := by
  induction ks with
  | nil => simp [preKids]
  | cons k ks ih => simp [preKids, ih]

theorem preorder_eq (o : Obj) : preorder o = o :: o.children.flatMap preorder := by
  cases o with
  | mk i c n as => simp [preorder, preAttrs_eq, preKids_eq, Obj.children, Obj.attrs]

section induct
set_option linter.unusedSectionVars false
variable {P : Obj → Prop} (h : ∀ o, (∀ k, k ∈ o.children → P k) → P o)
include h
mutual
  theorem indObj : ∀ o : Obj, P o
    | .mk i c n as => h _ (by
        intro k hk
        exact indAttrs as k (by simpa [Obj.children, Obj.attrs] using hk))
  theorem indAttrs : ∀ (as : List Attr) (k : Obj), k ∈ as.flatMap Attr.kids → P k
    | [], k, hk => by simp at hk
    | .cont ks :: as, k, hk => by
        simp only [List.flatMap_cons, Attr.kids, List.mem_append] at hk
        rcases hk with hk | hk
        · exact indKids ks k hk
        · exact indAttrs as k hk
    | .ref _ :: as, k, hk => by
        simp only [List.flatMap_cons, Attr.kids, List.nil_append] at hk
        exact indAttrs as k hk
    | .prim :: as, k, hk => by
        simp only [List.flatMap_cons, Attr.kids, List.nil_append] at hk
        exact indAttrs as k hk
  theorem indKids : ∀ (ks : List Obj) (k : Obj), k ∈ ks → P k
    | [], k, hk => by simp at hk
    | x :: xs, k, hk => by
        rcases List.mem_cons.1 hk with hx | hk
        · exact hx ▸ indObj x
        · exact indKids xs k hk
end
end induct

/-- induction over the containment structure -/
theorem Obj.induct_children {P : Obj → Prop} (h : ∀ o, (∀ k, k ∈ o.children → P k) → P o) (o : Obj) :
    P o := indObj h o

theorem Desc.trans {a b c : Obj} (h1 : Desc a b) (h2 : Desc b c) : Desc a c := by
  induction h1 with
  | refl => exact h2
  | step hk _ ih => exact Desc.step hk (ih h2)

theorem Desc.child {r k : Obj} (hk : k ∈ r.children) : Desc r k := Desc.step hk (Desc.refl k)

theorem mem_preorder_iff_desc (r o : Obj) : o ∈ preorder r ↔ Desc r o := by
  constructor
  · revert o
    induction r using Obj.induct_children with
    | h r ih =>
      intro o ho
      rw [preorder_eq] at ho
      rcases List.mem_cons.1 ho with rfl | ho
      · exact Desc.refl _
      · obtain ⟨k, hk, hok⟩ := List.mem_flatMap.1 ho
        exact Desc.step hk (ih k hk o hok)
  · intro h
    induction h with
    | refl r => rw [preorder_eq]; simp
    | step hk _ ih =>
      rw [preorder_eq]
      exact List.mem_cons_of_mem _ (List.mem_flatMap.2 ⟨_, hk, ih⟩)

theorem self_mem_preorder (r : Obj) : r ∈ preorder r := by rw [preorder_eq]; simp

end Link
