import TextxVerif.Link.Store
import TextxVerif.Proofs.Link.Fqn
import TextxVerif.Proofs.Link.PlainName
/-! Default resolution does not depend on the state of the reference attributes:
`get_children` / `PlainName` / `resolve_one_step` commute with `strip` (erasing every
non-containment attribute), the store of a resolved reference leaves `strip`
unchanged, hence the pass with stores computes what the pass over one fixed tree
computes.  No `DistinctIds` is needed for any of this. -/
namespace Link

/-! ## `get_children` commutes with `strip` -/

theorem follow_strip (sel : Obj → Bool) (hsel : ∀ x, sel (strip x) = sel x) (o : Obj) :
    ∀ acc : List Obj, follow sel (strip o) (acc.map strip) = (follow sel o acc).map strip := by
  induction o using Obj.induct_children with
  | h o ih =>
    intro acc
    rw [follow_eq, follow_eq, strip_id, strip_children, hsel]
    have hany : (acc.map strip).any (fun x => x.id == o.id) = acc.any (fun x => x.id == o.id) := by
      simp [List.any_map, Function.comp_def, strip_id]
    rw [hany]
    by_cases ha : acc.any (fun x => x.id == o.id) = true
    · simp [ha]
    · simp only [ha, Bool.false_eq_true, if_false]
      have hinit : (if sel o = true then acc.map strip ++ [strip o] else acc.map strip) =
          (if sel o = true then acc ++ [o] else acc).map strip := by
        by_cases hs : sel o = true <;> simp [hs]
      rw [hinit, List.foldl_map]
      generalize (if sel o = true then acc ++ [o] else acc) = a0
      have key : ∀ (l : List Obj),
          (∀ k, k ∈ l → ∀ acc : List Obj, follow sel (strip k) (acc.map strip) = (follow sel k acc).map strip) →
          ∀ a : List Obj, l.foldl (fun a k => follow sel (strip k) a) (a.map strip) =
            (l.foldl (fun a k => follow sel k a) a).map strip := by
        intro l
        induction l with
        | nil => intro _ a; rfl
        | cons k ks ihl =>
          intro hk a
          simp only [List.foldl_cons]
          rw [hk k (by simp) a]
          exact ihl (fun k' hk' => hk k' (by simp [hk'])) _
      exact key o.children ih a0

theorem getChildren_strip (sel : Obj → Bool) (hsel : ∀ x, sel (strip x) = sel x) (r : Obj) :
    getChildren sel (strip r) = (getChildren sel r).map strip := by
  unfold getChildren
  simpa using follow_strip sel hsel r []

theorem isMatch_strip (conf : Nat → Nat → Bool) (name : String) (tcls : Nat) (x : Obj) :
    isMatch conf name tcls (strip x) = isMatch conf name tcls x := by
  simp [isMatch, strip_name, strip_cls]

theorem plainName_strip (conf : Nat → Nat → Bool) (r : Obj) (name : String) (tcls : Nat) :
    plainName conf (strip r) name tcls =
      match plainName conf r name tcls with
      | .one o => .one (strip o)
      | .many => .many
      | .none => .none := by
  unfold plainName
  rw [getChildren_strip _ (isMatch_strip conf name tcls)]
  cases getChildren (isMatch conf name tcls) r with
  | nil => rfl
  | cons a rest =>
    cases rest with
    | nil => rfl
    | cons b rest' => rfl

theorem resolveRef_strip (conf : Nat → Nat → Bool) (r : Obj) (builtins : List (String × Builtin))
    (name : String) (tcls : Nat) :
    outcomeId (resolveRef conf (strip r) builtins name tcls) =
      outcomeId (resolveRef conf r builtins name tcls) := by
  unfold resolveRef
  rw [plainName_strip]
  cases plainName conf r name tcls with
  | one o => simp [outcomeId, strip_id]
  | many => rfl
  | none => rfl

theorem resolveRef_frame (conf : Nat → Nat → Bool) (r₁ r₂ : Obj) (hs : strip r₁ = strip r₂)
    (builtins : List (String × Builtin)) (name : String) (tcls : Nat) :
    outcomeId (resolveRef conf r₁ builtins name tcls) =
      outcomeId (resolveRef conf r₂ builtins name tcls) := by
  rw [← resolveRef_strip conf r₁, ← resolveRef_strip conf r₂, hs]

/-! ## the store leaves the containment skeleton alone -/

mutual
  theorem strip_storeObj (owner attr : Nat) (single : Bool) (tgt : Nat) :
      ∀ o : Obj, strip (storeObj owner attr single tgt o) = strip o
    | .mk i c n as => by
      simp only [storeObj, strip]
      rw [stripAttrs_storeAttrs owner attr single tgt (i == owner) 0 as]
  theorem stripAttrs_storeAttrs (owner attr : Nat) (single : Bool) (tgt : Nat) :
      ∀ (here : Bool) (j : Nat) (as : List Attr),
        stripAttrs (storeAttrs owner attr single tgt here j as) = stripAttrs as
    | _, _, [] => by simp [storeAttrs]
    | here, j, .cont ks :: as => by
      simp only [storeAttrs, stripAttrs]
      rw [stripKids_storeKids owner attr single tgt ks,
        stripAttrs_storeAttrs owner attr single tgt here (j + 1) as]
    | here, j, .ref ts :: as => by
      simp only [storeAttrs, stripAttrs]
      exact stripAttrs_storeAttrs owner attr single tgt here (j + 1) as
    | here, j, .prim :: as => by
      simp only [storeAttrs, stripAttrs]
      exact stripAttrs_storeAttrs owner attr single tgt here (j + 1) as
  theorem stripKids_storeKids (owner attr : Nat) (single : Bool) (tgt : Nat) :
      ∀ ks : List Obj, stripKids (storeKids owner attr single tgt ks) = stripKids ks
    | [] => by simp [storeKids]
    | k :: ks => by
      simp only [storeKids, stripKids]
      rw [strip_storeObj owner attr single tgt k, stripKids_storeKids owner attr single tgt ks]
end

theorem strip_storeRef (single : Ref → Bool) (root : Obj) (r : Ref) (t : Target) :
    strip (storeRef single root r t) = strip root :=
  strip_storeObj _ _ _ _ root

/-! ## the pass with stores = the pass over one fixed tree -/

theorem resolveFromSt_frame (st : Obj → Ref → Target → Obj)
    (hst : ∀ root r t, strip (st root r t) = strip root)
    (conf : Nat → Nat → Bool) (builtins : List (String × Builtin)) (root0 : Obj) :
    ∀ (refs : List Ref) (i : Nat) (root : Obj), strip root = strip root0 →
      (match resolveFromSt st conf builtins i root refs with
        | .ok (ts, root') =>
          strip root' = strip root0 ∧
            ∃ ts0, resolveFrom conf root0 builtins i refs = .ok ts0 ∧ resIds ts = resIds ts0
        | .error e => resolveFrom conf root0 builtins i refs = .error e) := by
  intro refs
  induction refs with
  | nil => intro i root hs; exact ⟨hs, [], rfl, rfl⟩
  | cons r rs ih =>
    intro i root hs
    have hfr := resolveRef_frame conf root root0 hs builtins r.name r.tcls
    simp only [resolveFromSt, resolveFrom]
    cases h1 : resolveRef conf root builtins r.name r.tcls with
    | unknown =>
      cases h0 : resolveRef conf root0 builtins r.name r.tcls <;> simp [h1, h0, outcomeId] at hfr ⊢
    | notUnique =>
      cases h0 : resolveRef conf root0 builtins r.name r.tcls <;> simp [h1, h0, outcomeId] at hfr ⊢
    | obj o =>
      cases h0 : resolveRef conf root0 builtins r.name r.tcls with
      | unknown => simp [h1, h0, outcomeId] at hfr
      | notUnique => simp [h1, h0, outcomeId] at hfr
      | builtin b => simp [h1, h0, outcomeId] at hfr
      | obj o0 =>
        have hid : o.id = o0.id := by simpa [h1, h0, outcomeId] using hfr
        have := ih (i + 1) (st root r (.obj o)) ((hst root r (.obj o)).trans hs)
        cases hrest : resolveFromSt st conf builtins (i + 1) (st root r (.obj o)) rs with
        | error e =>
          rw [hrest] at this
          simp only at this
          simp only [hrest, this]
        | ok p =>
          obtain ⟨ts, root'⟩ := p
          rw [hrest] at this
          simp only at this
          obtain ⟨hs', ts0, hts0, hids⟩ := this
          simp only [hrest, hts0]
          refine ⟨hs', (r, .obj o0) :: ts0, rfl, ?_⟩
          simp only [resIds, List.map_cons, Target.tid, hid, List.cons.injEq, true_and] at hids ⊢
          exact hids
    | builtin b =>
      cases h0 : resolveRef conf root0 builtins r.name r.tcls with
      | unknown => simp [h1, h0, outcomeId] at hfr
      | notUnique => simp [h1, h0, outcomeId] at hfr
      | obj o0 => simp [h1, h0, outcomeId] at hfr
      | builtin b0 =>
        have hid : b = b0 := by simpa [h1, h0, outcomeId] using hfr
        subst hid
        have := ih (i + 1) (st root r (.builtin b)) ((hst root r (.builtin b)).trans hs)
        cases hrest : resolveFromSt st conf builtins (i + 1) (st root r (.builtin b)) rs with
        | error e =>
          rw [hrest] at this
          simp only at this
          simp only [hrest, this]
        | ok p =>
          obtain ⟨ts, root'⟩ := p
          rw [hrest] at this
          simp only at this
          obtain ⟨hs', ts0, hts0, hids⟩ := this
          simp only [hrest, hts0]
          refine ⟨hs', (r, .builtin b) :: ts0, rfl, ?_⟩
          simp only [resIds, List.map_cons, Target.tid, List.cons.injEq, true_and] at hids ⊢
          exact hids

end Link

namespace Link

/-! ## what the reference attributes of the final tree hold -/

theorem refAt_storeAttrs (owner attr : Nat) (single : Bool) (tgt : Nat) (here : Bool) :
    ∀ (as : List Attr) (j a : Nat),
      refAt (storeAttrs owner attr single tgt here j as) a =
        if here = true ∧ j + a = attr then
          (refAt as a).map (fun ts => if single then [tgt] else ts ++ [tgt])
        else refAt as a := by
  intro as
  induction as with
  | nil => intro j a; simp [storeAttrs, refAt]
  | cons x as ih =>
    intro j a
    cases a with
    | zero =>
      cases x with
      | cont ks => simp [storeAttrs, refAt]
      | prim => simp [storeAttrs, refAt]
      | ref ts =>
        by_cases hc : here = true ∧ j = attr
        · simp [storeAttrs, refAt, hc]
        · have hc' : ¬ (here = true ∧ j + 0 = attr) := by simpa using hc
          have hb : (here && j == attr) = false := by
            cases here <;> simp_all
          simp only [storeAttrs, refAt, hb, hc', if_false, Bool.false_eq_true]
    | succ a =>
      have hj : (j + 1 + a = attr) ↔ (j + (a + 1) = attr) := by omega
      cases x with
      | cont ks => simp only [storeAttrs, refAt, ih (j + 1) a, hj]
      | prim => simp only [storeAttrs, refAt, ih (j + 1) a, hj]
      | ref ts => simp only [storeAttrs, refAt, ih (j + 1) a, hj]

section
variable (ow a owner attr : Nat) (single : Bool) (tgt : Nat)

mutual
  theorem readObj_storeObj : ∀ o : Obj,
      readObj ow a (storeObj owner attr single tgt o) =
        if ow = owner ∧ a = attr then
          (readObj ow a o).map (fun ts => if single then [tgt] else ts ++ [tgt])
        else readObj ow a o
    | .mk i c n as => by
      simp only [storeObj, readObj]
      by_cases hi : i = ow
      · subst hi
        simp only [if_true, refAt_storeAttrs]
        by_cases hc : i = owner ∧ a = attr
        · simp [hc]
        · have : ¬ ((i == owner) = true ∧ 0 + a = attr) := by simpa using hc
          simp only [this, hc, if_false]
      · simp only [hi, if_false]
        exact readAttrs_storeAttrs (i == owner) 0 as
  theorem readAttrs_storeAttrs : ∀ (here : Bool) (j : Nat) (as : List Attr),
      readAttrs ow a (storeAttrs owner attr single tgt here j as) =
        if ow = owner ∧ a = attr then
          (readAttrs ow a as).map (fun ts => if single then [tgt] else ts ++ [tgt])
        else readAttrs ow a as
    | _, _, [] => by simp [storeAttrs, readAttrs]
    | here, j, .cont ks :: as => by
      simp only [storeAttrs, readAttrs]
      rw [readKids_storeKids ks, readAttrs_storeAttrs here (j + 1) as]
      by_cases hc : ow = owner ∧ a = attr
      · simp only [if_pos hc]
        cases readKids ow a ks <;> rfl
      · simp only [if_neg hc]
    | here, j, .ref ts :: as => by
      simp only [storeAttrs, readAttrs]
      exact readAttrs_storeAttrs here (j + 1) as
    | here, j, .prim :: as => by
      simp only [storeAttrs, readAttrs]
      exact readAttrs_storeAttrs here (j + 1) as
  theorem readKids_storeKids : ∀ ks : List Obj,
      readKids ow a (storeKids owner attr single tgt ks) =
        if ow = owner ∧ a = attr then
          (readKids ow a ks).map (fun ts => if single then [tgt] else ts ++ [tgt])
        else readKids ow a ks
    | [] => by simp [storeKids, readKids]
    | k :: ks => by
      simp only [storeKids, readKids]
      rw [readObj_storeObj k, readKids_storeKids ks]
      by_cases hc : ow = owner ∧ a = attr
      · simp only [if_pos hc]
        cases readObj ow a k <;> rfl
      · simp only [if_neg hc]
end
end

/-- the stores of a result list, applied in order to the value of attribute `a` of object `ow` -/
def applyStores (single : Ref → Bool) (ow a : Nat) : List (Ref × Target) → List Nat → List Nat
  | [], ts => ts
  | (r, t) :: rest, ts =>
    applyStores single ow a rest
      (if ow = r.owner ∧ a = r.attr then (if single r then [t.pyId] else ts ++ [t.pyId]) else ts)

theorem resolveFromSt_read (single : Ref → Bool) (conf : Nat → Nat → Bool)
    (builtins : List (String × Builtin)) (ow a : Nat) :
    ∀ (refs : List Ref) (i : Nat) (root : Obj) (res : List (Ref × Target)) (root' : Obj),
      resolveFromSt (storeRef single) conf builtins i root refs = .ok (res, root') →
      readObj ow a root' = (readObj ow a root).map (applyStores single ow a res) := by
  intro refs
  induction refs with
  | nil =>
    intro i root res root' h
    simp only [resolveFromSt, Except.ok.injEq, Prod.mk.injEq] at h
    obtain ⟨rfl, rfl⟩ := h
    cases readObj ow a root <;> simp [applyStores]
  | cons r rs ih =>
    intro i root res root' h
    simp only [resolveFromSt] at h
    cases h1 : resolveRef conf root builtins r.name r.tcls with
    | unknown => simp [h1] at h
    | notUnique => simp [h1] at h
    | obj o =>
      simp only [h1] at h
      cases hrest : resolveFromSt (storeRef single) conf builtins (i + 1) (storeRef single root r (.obj o)) rs with
      | error e => simp [hrest] at h
      | ok p =>
        obtain ⟨ts, r'⟩ := p
        simp only [hrest, Except.ok.injEq, Prod.mk.injEq] at h
        obtain ⟨rfl, rfl⟩ := h
        rw [ih (i + 1) _ ts r' hrest]
        simp only [storeRef, readObj_storeObj, applyStores]
        by_cases hc : ow = r.owner ∧ a = r.attr
        · simp only [hc, and_self, if_true, Option.map_map]; rfl
        · simp only [hc, if_false]
    | builtin b =>
      simp only [h1] at h
      cases hrest : resolveFromSt (storeRef single) conf builtins (i + 1) (storeRef single root r (.builtin b)) rs with
      | error e => simp [hrest] at h
      | ok p =>
        obtain ⟨ts, r'⟩ := p
        simp only [hrest, Except.ok.injEq, Prod.mk.injEq] at h
        obtain ⟨rfl, rfl⟩ := h
        rw [ih (i + 1) _ ts r' hrest]
        simp only [storeRef, readObj_storeObj, applyStores]
        by_cases hc : ow = r.owner ∧ a = r.attr
        · simp only [hc, and_self, if_true, Option.map_map]; rfl
        · simp only [hc, if_false]

theorem attrValue_cons (r : Ref) (t : Target) (rest : List (Ref × Target)) (ow a : Nat) :
    attrValue ((r, t) :: rest) ow a =
      if ow = r.owner ∧ a = r.attr then t :: attrValue rest ow a else attrValue rest ow a := by
  unfold attrValue
  by_cases hc : ow = r.owner ∧ a = r.attr
  · have hf : (r.owner == ow && r.attr == a) = true := by simp [hc.1, hc.2]
    rw [List.filter_cons_of_pos (by simpa using hf), if_pos hc]; rfl
  · have hf : ¬ ((r.owner == ow && r.attr == a) = true) := by
      intro h1
      simp only [Bool.and_eq_true, beq_iff_eq] at h1
      exact hc ⟨h1.1.symm, h1.2.symm⟩
    rw [List.filter_cons_of_neg (by simpa using hf), if_neg hc]

/-- list attribute: the stores append, in order -/
theorem applyStores_list (single : Ref → Bool) (ow a : Nat)
    (hl : ∀ r : Ref, r.owner = ow → r.attr = a → single r = false) :
    ∀ (res : List (Ref × Target)) (ts : List Nat),
      applyStores single ow a res ts = ts ++ (attrValue res ow a).map Target.pyId := by
  intro res
  induction res with
  | nil => intro ts; simp [applyStores, attrValue]
  | cons p rest ih =>
    intro ts
    obtain ⟨r, t⟩ := p
    simp only [applyStores]
    rw [ih, attrValue_cons]
    by_cases hc : ow = r.owner ∧ a = r.attr
    · have hs := hl r hc.1.symm hc.2.symm
      simp only [if_pos hc, hs, Bool.false_eq_true, if_false, List.map_cons, List.append_assoc,
        List.singleton_append]
    · simp only [if_neg hc]

/-- single-valued attribute: the last store wins -/
theorem applyStores_single (single : Ref → Bool) (ow a : Nat)
    (hl : ∀ r : Ref, r.owner = ow → r.attr = a → single r = true) :
    ∀ (res : List (Ref × Target)) (ts : List Nat),
      applyStores single ow a res ts =
        match (attrValue res ow a).getLast? with
        | some t => [t.pyId]
        | none => ts := by
  intro res
  induction res with
  | nil => intro ts; simp [applyStores, attrValue]
  | cons p rest ih =>
    intro ts
    obtain ⟨r, t⟩ := p
    simp only [applyStores]
    rw [ih, attrValue_cons]
    by_cases hc : ow = r.owner ∧ a = r.attr
    · have hs := hl r hc.1.symm hc.2.symm
      simp only [if_pos hc, hs, if_true]
      cases hrest : attrValue rest ow a with
      | nil => simp
      | cons x xs => simp only [List.getLast?_cons_cons]; rw [List.getLast?_cons]
    · simp only [if_neg hc]

end Link
