import TextxVerif.Proofs.Link.FqnPath
/-! The split of the reference text at dots, and the heap view of `find_obj`. -/
namespace Link

/-! ## `str.split(".")` -/

theorem splitDotsL_ne_nil (s : List Char) : splitDotsL s ≠ [] := by
  cases s with
  | nil => simp [splitDotsL]
  | cons c cs =>
    simp only [splitDotsL]
    by_cases hc : c = '.'
    · simp [hc]
    · simp only [hc, if_false]
      cases splitDotsL cs <;> simp

theorem joinDotsL_cons_cons (c : Char) (w : List Char) (ws : List (List Char)) :
    joinDotsL ((c :: w) :: ws) = c :: joinDotsL (w :: ws) := by
  cases ws with
  | nil => simp [joinDotsL]
  | cons w' ws' => simp [joinDotsL]

/-- joining the parts gives the text back -/
theorem joinDotsL_splitDotsL (s : List Char) : joinDotsL (splitDotsL s) = s := by
  induction s with
  | nil => simp [splitDotsL, joinDotsL]
  | cons c cs ih =>
    simp only [splitDotsL]
    by_cases hc : c = '.'
    · simp only [hc, if_true]
      cases hx : splitDotsL cs with
      | nil => exact absurd hx (splitDotsL_ne_nil cs)
      | cons w ws => rw [hx] at ih; simp [joinDotsL, ih]
    · simp only [hc, if_false]
      cases hx : splitDotsL cs with
      | nil => exact absurd hx (splitDotsL_ne_nil cs)
      | cons w ws => rw [hx] at ih; simp [joinDotsL_cons_cons, ih]

/-- no part contains a dot -/
theorem splitDotsL_no_dot (s : List Char) : ∀ w, w ∈ splitDotsL s → '.' ∉ w := by
  induction s with
  | nil => intro w hw; simp [splitDotsL] at hw; simp [hw]
  | cons c cs ih =>
    intro w hw
    simp only [splitDotsL] at hw
    by_cases hc : c = '.'
    · simp only [hc, if_true, List.mem_cons] at hw
      rcases hw with rfl | hw
      · simp
      · exact ih w hw
    · simp only [hc, if_false] at hw
      cases hx : splitDotsL cs with
      | nil => exact absurd hx (splitDotsL_ne_nil cs)
      | cons w' ws =>
        rw [hx] at hw ih
        simp only [List.mem_cons] at hw
        rcases hw with rfl | hw
        · intro hm
          rcases List.mem_cons.1 hm with h | h
          · exact hc h.symm
          · exact ih w' (by simp) h
        · exact ih w (by simp [hw])

theorem splitDotsL_of_no_dot (w : List Char) (hw : '.' ∉ w) : splitDotsL w = [w] := by
  induction w with
  | nil => rfl
  | cons c cs ih =>
    have hc : ¬ c = '.' := fun h => hw (by simp [h])
    have hcs : '.' ∉ cs := fun h => hw (by simp [h])
    simp [splitDotsL, hc, ih hcs]

theorem splitDotsL_append_dot (w rest : List Char) (hw : '.' ∉ w) :
    splitDotsL (w ++ '.' :: rest) = w :: splitDotsL rest := by
  induction w with
  | nil => simp [splitDotsL]
  | cons c cs ih =>
    have hc : ¬ c = '.' := fun h => hw (by simp [h])
    have hcs : '.' ∉ cs := fun h => hw (by simp [h])
    simp [splitDotsL, hc, ih hcs]

/-- the split is the only list of dot-free parts whose join is the text -/
theorem splitDotsL_joinDotsL (parts : List (List Char)) (hne : parts ≠ [])
    (hnd : ∀ w, w ∈ parts → '.' ∉ w) : splitDotsL (joinDotsL parts) = parts := by
  induction parts with
  | nil => exact absurd rfl hne
  | cons w ws ih =>
    cases ws with
    | nil => simpa [joinDotsL] using splitDotsL_of_no_dot w (hnd w (by simp))
    | cons w' ws' =>
      simp only [joinDotsL]
      rw [splitDotsL_append_dot w _ (hnd w (by simp)), ih (by simp) (fun x hx => hnd x (by simp [hx]))]

theorem splitDots_ne_nil (s : String) : splitDots s ≠ [] := by
  unfold splitDots
  intro h
  exact splitDotsL_ne_nil s.toList (List.map_eq_nil_iff.1 h)

/-- text `".".join(parts)` with dot-free parts splits into exactly these parts -/
theorem splitDots_join (parts : List String) (hne : parts ≠ [])
    (hnd : ∀ w, w ∈ parts → '.' ∉ w.toList) :
    splitDots (String.ofList (joinDotsL (parts.map String.toList))) = parts := by
  unfold splitDots
  rw [String.toList_ofList, splitDotsL_joinDotsL _ (by simpa using hne)]
  · simp [List.map_map, Function.comp_def, String.ofList_toList]
  · intro w hw
    obtain ⟨x, hx, rfl⟩ := List.mem_map.1 hw
    exact hnd x hx

/-! ## an empty part never matches when no object is named `""` -/

theorem Chain.named {p o : Obj} {parts : List String} (h : Chain p parts o) (n : String)
    (hn : n ∈ parts) : ∃ k, Desc p k ∧ k.name = some n := by
  induction h with
  | nil p => cases hn
  | @cons p k o n' ns hk hname _ ih =>
    rcases List.mem_cons.1 hn with rfl | hn'
    · exact ⟨k, Desc.child hk, hname⟩
    · obtain ⟨x, hx, hxn⟩ := ih hn'
      exact ⟨x, Desc.step hk hx, hxn⟩

/-! ## heap view: the guard is the repair -/

theorem findAttrsHeap_true (deref : Nat → Option Obj) (as : List Attr) (n : String) :
    findAttrsHeap true deref as n = findAttrs as n := by
  induction as with
  | nil => rfl
  | cons a as ih =>
    cases a with
    | cont ks => simp only [findAttrsHeap, findAttrs, ih]
    | ref ts => simp only [findAttrsHeap, findAttrs, ih, if_true]
    | prim => simp only [findAttrsHeap, findAttrs, ih]

theorem findAttrsHeap_false (deref : Nat → Option Obj) (as : List Attr) (n : String) :
    findAttrsHeap false deref as n = findAttrsPinned deref as n := by
  induction as with
  | nil => rfl
  | cons a as ih =>
    cases a with
    | cont ks => simp only [findAttrsHeap, findAttrsPinned, ih]
    | ref ts => simp only [findAttrsHeap, findAttrsPinned, ih, Bool.false_eq_true, if_false]
    | prim => simp only [findAttrsHeap, findAttrsPinned, ih]

theorem findObjHeap_true (deref parentOf : Nat → Option Obj) (p : Obj) (n : String) :
    findObjHeap true deref parentOf p n = findObj p n := by
  unfold findObjHeap findObj
  rw [findAttrsHeap_true]
  cases findAttrs p.attrs n <;> simp

theorem findObjHeap_false (deref parentOf : Nat → Option Obj) (p : Obj) (n : String) :
    findObjHeap false deref parentOf p n = findObjPinned deref parentOf p n := by
  unfold findObjHeap findObjPinned
  rw [findAttrsHeap_false]
  cases findAttrsPinned deref p.attrs n <;> simp

theorem walkHeap_true (deref parentOf : Nat → Option Obj) (p : Obj) (parts : List String) :
    walkHeap true deref parentOf p parts = walk p parts := by
  induction parts generalizing p with
  | nil => rfl
  | cons n ns ih =>
    simp only [walkHeap, walk, findObjHeap_true]
    cases findObj p n with
    | none => rfl
    | some o => exact ih o

theorem walkHeap_false (deref parentOf : Nat → Option Obj) (p : Obj) (parts : List String) :
    walkHeap false deref parentOf p parts = walkPinned deref parentOf p parts := by
  induction parts generalizing p with
  | nil => rfl
  | cons n ns ih =>
    simp only [walkHeap, walkPinned, findObjHeap_false]
    cases findObjPinned deref parentOf p n with
    | none => rfl
    | some o => exact ih o

end Link
