import TextxVerif.Link.Fqn
import TextxVerif.Proofs.Link.Tree
/-! Lemmas for the FQN provider model. -/
namespace Link

theorem findAttrs_eq (as : List Attr) (n : String) :
    findAttrs as n = (as.flatMap Attr.kids).find? (nameIs n) := by
  induction as with
  | nil => simp [findAttrs]
  | cons a as ih =>
    cases a with
    | cont ks =>
      simp only [findAttrs, List.flatMap_cons, Attr.kids, List.find?_append, ih]
      cases ks.find? (nameIs n) <;> simp
    | ref t => simp [findAttrs, Attr.kids, ih]
    | prim => simp [findAttrs, Attr.kids, ih]

theorem findObj_eq (p : Obj) (n : String) : findObj p n = p.children.find? (nameIs n) := by
  simp [findObj, findAttrs_eq, Obj.children]

theorem nameIs_iff (n : String) (o : Obj) : nameIs n o = true ↔ o.name = some n := by
  simp [nameIs]

theorem findObj_some {p o : Obj} {n : String} (h : findObj p n = some o) :
    o ∈ p.children ∧ o.name = some n := by
  rw [findObj_eq] at h
  exact ⟨List.mem_of_find?_eq_some h, (nameIs_iff n o).1 (List.find?_some h)⟩

theorem find?_unique (l : List Obj) (n : String)
    (hu : l.Pairwise (fun a b => a.name.isSome → a.name ≠ b.name))
    (k : Obj) (hk : k ∈ l) (hn : k.name = some n) : l.find? (nameIs n) = some k := by
  induction l with
  | nil => cases hk
  | cons c cs ih =>
    rw [List.pairwise_cons] at hu
    by_cases hc : nameIs n c = true
    · rw [List.find?_cons_of_pos hc]
      rcases List.mem_cons.1 hk with rfl | hk'
      · rfl
      · have hcn := (nameIs_iff n c).1 hc
        exact absurd (hcn.trans hn.symm) (hu.1 k hk' (by simp [hcn]))
    · rw [List.find?_cons_of_neg hc]
      rcases List.mem_cons.1 hk with rfl | hk'
      · exact absurd ((nameIs_iff n k).2 hn) hc
      · exact ih hu.2 hk'

theorem findObj_unique {p k : Obj} {n : String} (hu : UniqueNames p) (hk : k ∈ p.children)
    (hn : k.name = some n) : findObj p n = some k := by
  rw [findObj_eq]; exact find?_unique _ n hu k hk hn

theorem walk_sound {p o : Obj} {parts : List String} (h : walk p parts = some o) : Chain p parts o := by
  induction parts generalizing p with
  | nil => simp only [walk, Option.some.injEq] at h; subst h; exact Chain.nil _
  | cons n ns ih =>
    simp only [walk] at h
    cases hf : findObj p n with
    | none => simp [hf] at h
    | some k =>
      simp only [hf] at h
      exact Chain.cons (findObj_some hf).1 (findObj_some hf).2 (ih h)

theorem walk_complete {p o : Obj} {parts : List String} (hu : ∀ q, Desc p q → UniqueNames q)
    (h : Chain p parts o) : walk p parts = some o := by
  induction h with
  | nil p => rfl
  | cons hk hn _ ih =>
    simp only [walk, findObj_unique (hu _ (Desc.refl _)) hk hn]
    exact ih (fun q hq => hu q (Desc.step hk hq))

theorem walk_iff {p o : Obj} {parts : List String} (hu : ∀ q, Desc p q → UniqueNames q) :
    walk p parts = some o ↔ Chain p parts o :=
  ⟨walk_sound, walk_complete hu⟩

theorem findObjFqn_some_iff (conf : Obj → Bool) {p o : Obj} {parts : List String}
    (hu : ∀ q, Desc p q → UniqueNames q) :
    findObjFqn conf p parts = some o ↔ Chain p parts o ∧ conf o = true := by
  unfold findObjFqn
  cases hw : walk p parts with
  | none =>
    simp only [reduceCtorEq, false_iff, not_and]
    intro hc; rw [walk_complete hu hc] at hw; cases hw
  | some x =>
    have hx := walk_sound hw
    by_cases hc : conf x = true
    · simp only [hc, if_true, Option.some.injEq]
      constructor
      · rintro rfl; exact ⟨hx, hc⟩
      · rintro ⟨hch, _⟩
        have := walk_complete hu hch
        rw [hw] at this; exact Option.some.inj this
    · simp only [hc, Bool.false_eq_true, if_false, reduceCtorEq, false_iff, not_and]
      intro hch hco
      have := walk_complete hu hch
      rw [hw] at this
      rw [Option.some.inj this] at hc
      exact hc hco

theorem findObjFqn_none_iff (conf : Obj → Bool) {p : Obj} {parts : List String}
    (hu : ∀ q, Desc p q → UniqueNames q) :
    findObjFqn conf p parts = none ↔ ¬ ∃ o, Chain p parts o ∧ conf o = true := by
  constructor
  · rintro h ⟨o, ho⟩
    rw [(findObjFqn_some_iff conf hu).2 ho] at h; cases h
  · intro h
    cases hf : findObjFqn conf p parts with
    | none => rfl
    | some o => exact absurd ⟨o, (findObjFqn_some_iff conf hu).1 hf⟩ h

/-! ## ancestors -/

theorem pathKids_eq (t : Nat) (ks : List Obj) : pathKids t ks = ks.findSome? (pathTo t) := by
  induction ks with
  | nil => simp [pathKids]
  | cons k ks ih =>
    simp only [pathKids, List.findSome?_cons, ih]
    cases pathTo t k <;> simp

theorem pathAttrs_eq (t : Nat) (as : List Attr) :
    pathAttrs t as = (as.flatMap Attr.kids).findSome? (pathTo t) := by
  induction as with
  | nil => simp [pathAttrs]
  | cons a as ih =>
    cases a with
    | cont ks =>
      simp only [pathAttrs, List.flatMap_cons, Attr.kids, List.findSome?_append, ih, pathKids_eq]
      cases ks.findSome? (pathTo t) <;> simp
    | ref x => simp [pathAttrs, Attr.kids, ih]
    | prim => simp [pathAttrs, Attr.kids, ih]

theorem pathTo_eq (t : Nat) (o : Obj) :
    pathTo t o = if o.id = t then some [o]
      else (o.children.findSome? (pathTo t)).map (fun p => p ++ [o]) := by
  cases o with
  | mk i c n as =>
    simp only [pathTo, pathAttrs_eq, Obj.id, Obj.children, Obj.attrs]
    by_cases h : i = t
    · simp [h]
    · simp only [h, if_false]
      cases (as.flatMap Attr.kids).findSome? (pathTo t) <;> simp

theorem pathTo_isPath (t : Nat) (r : Obj) : ∀ ancs, pathTo t r = some ancs → IsPath t r ancs := by
  induction r using Obj.induct_children with
  | h r ih =>
    intro ancs h
    rw [pathTo_eq] at h
    by_cases hid : r.id = t
    · simp only [hid, if_true, Option.some.injEq] at h
      subst h; exact IsPath.here hid
    · simp only [hid, if_false] at h
      cases hf : r.children.findSome? (pathTo t) with
      | none => simp [hf] at h
      | some p =>
        simp only [hf, Option.map_some, Option.some.injEq] at h
        subst h
        obtain ⟨k, hk, hkp⟩ := List.exists_of_findSome?_eq_some hf
        exact IsPath.inside hk (ih k hk p hkp)

theorem IsPath.desc {t : Nat} {r : Obj} {ancs : List Obj} (h : IsPath t r ancs) :
    ∀ q, q ∈ ancs → Desc r q := by
  induction h with
  | here _ => intro q hq; simp only [List.mem_singleton] at hq; subst hq; exact Desc.refl _
  | inside hk _ ih =>
    intro q hq
    rcases List.mem_append.1 hq with hq | hq
    · exact Desc.step hk (ih q hq)
    · simp only [List.mem_singleton] at hq; subst hq; exact Desc.refl _

theorem IsPath.head {t : Nat} {r : Obj} {ancs : List Obj} (h : IsPath t r ancs) :
    ∃ c rest, ancs = c :: rest ∧ c.id = t := by
  induction h with
  | here hid => exact ⟨_, [], rfl, hid⟩
  | @inside o k p _ _ ih =>
    obtain ⟨c, rest, hc, hid⟩ := ih
    exact ⟨c, rest ++ [o], by simp [hc], hid⟩

theorem IsPath.last {t : Nat} {r : Obj} {ancs : List Obj} (h : IsPath t r ancs) :
    ancs.getLast? = some r := by
  cases h <;> simp

/-! ## erasing non-containment attributes -/

theorem stripKids_eq (ks : List Obj) : stripKids ks = ks.map strip := by
  induction ks with
  | nil => simp [stripKids]
  | cons k ks ih => simp [stripKids, ih]

theorem stripAttrs_kids (as : List Attr) :
    (stripAttrs as).flatMap Attr.kids = (as.flatMap Attr.kids).map strip := by
  induction as with
  | nil => simp [stripAttrs]
  | cons a as ih =>
    cases a with
    | cont ks => simp [stripAttrs, Attr.kids, ih, stripKids_eq]
    | ref t => simp [stripAttrs, Attr.kids, ih]
    | prim => simp [stripAttrs, Attr.kids, ih]

theorem strip_children (o : Obj) : (strip o).children = o.children.map strip := by
  cases o with
  | mk i c n as => simp [strip, Obj.children, Obj.attrs, stripAttrs_kids]

theorem strip_id (o : Obj) : (strip o).id = o.id := by cases o; simp [strip, Obj.id]
theorem strip_cls (o : Obj) : (strip o).cls = o.cls := by cases o; simp [strip, Obj.cls]
theorem strip_name (o : Obj) : (strip o).name = o.name := by cases o; simp [strip, Obj.name]

theorem nameIs_strip (n : String) (o : Obj) : nameIs n (strip o) = nameIs n o := by
  simp [nameIs, strip_name]

theorem findObj_strip (p : Obj) (n : String) : findObj (strip p) n = (findObj p n).map strip := by
  have hf : (nameIs n ∘ strip) = nameIs n := by funext x; simp [nameIs_strip]
  rw [findObj_eq, findObj_eq, strip_children, List.find?_map, hf]

theorem walk_strip (p : Obj) (parts : List String) :
    walk (strip p) parts = (walk p parts).map strip := by
  induction parts generalizing p with
  | nil => simp [walk]
  | cons n ns ih =>
    simp only [walk, findObj_strip]
    cases findObj p n with
    | none => simp
    | some k => simp [ih]

theorem findObjFqn_strip (c : Nat → Bool) (p : Obj) (parts : List String) :
    findObjFqn (fun o => c o.cls) (strip p) parts =
      (findObjFqn (fun o => c o.cls) p parts).map strip := by
  unfold findObjFqn
  rw [walk_strip]
  cases walk p parts with
  | none => simp
  | some o => by_cases h : c o.cls = true <;> simp [strip_cls, h]

theorem pathTo_strip (t : Nat) (r : Obj) :
    pathTo t (strip r) = (pathTo t r).map (fun p => p.map strip) := by
  induction r using Obj.induct_children with
  | h r ih =>
    rw [pathTo_eq, pathTo_eq, strip_id, strip_children]
    by_cases hid : r.id = t
    · simp [hid]
    · simp only [hid, if_false, List.findSome?_map]
      have : r.children.findSome? (pathTo t ∘ strip) =
          (r.children.findSome? (pathTo t)).map (fun p => p.map strip) := by
        have hk : ∀ k, k ∈ r.children → (pathTo t ∘ strip) k = (pathTo t k).map (fun p => p.map strip) :=
          fun k hk => ih k hk
        generalize r.children = l at hk
        induction l with
        | nil => simp
        | cons x xs ihl =>
          simp only [List.findSome?_cons, hk x (by simp)]
          cases pathTo t x with
          | some p => simp
          | none => simpa using ihl (fun k hk' => hk k (by simp [hk']))
      rw [this]
      cases r.children.findSome? (pathTo t) <;> simp

theorem findReferenced_strip (c : Nat → Bool) (ancs : List Obj) (parts : List String) :
    findReferenced (fun o => c o.cls) (ancs.map strip) parts =
      (findReferenced (fun o => c o.cls) ancs parts).map strip := by
  unfold findReferenced
  induction ancs with
  | nil => simp
  | cons a as ih =>
    simp only [List.map_cons, List.findSome?_cons, findObjFqn_strip]
    cases findObjFqn (fun o => c o.cls) a parts with
    | some o => simp
    | none => simpa using ih

theorem fqn_strip (c : Nat → Bool) (root : Obj) (cur : Nat) (parts : List String) :
    fqn (fun o => c o.cls) (strip root) cur parts =
      (fqn (fun o => c o.cls) root cur parts).map strip := by
  unfold fqn
  rw [pathTo_strip]
  cases pathTo cur root with
  | none => simp
  | some ancs => simp [findReferenced_strip]

end Link
