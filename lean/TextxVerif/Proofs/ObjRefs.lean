import TextxVerif.Proofs.ObjSpanBuild
import TextxVerif.Proofs.ObjChildren
/-! Helper lemmas for C05 / C06: reference resolution (stores into non-containment attributes)
leaves the containment tree, the parent links, the classes and the spans of a heap alone. -/
namespace Obj

/-- `a` does not name a containment attribute of the object `x` of `h` (it names a reference /
primitive attribute, or nothing at all) -/
def IsRefAttr (h : Heap) (x a : Nat) : Prop :=
  ∀ o m v, h.get x = some o → findAttr a o.attrs = some (m, v) → m.cont = false

/-- What reference resolution does to the heap `process_node` built: any number of stores
(`setattr(obj, attr.name, resolved)`, `getattr(obj, attr.name).append(resolved)`, …: an arbitrary
function `g` of the old value) into attributes that are not containment attributes, on any
objects, in any order. -/
inductive RefUpdates : Heap → Heap → Prop
  | refl (h : Heap) : RefUpdates h h
  | step {h h' : Heap} (x a : Nat) (g : AVal → AVal) :
      RefUpdates h h' → IsRefAttr h' x a → RefUpdates h (h'.updAttr x a g)

theorem contIdsL_updAttrs_ref (a : Nat) (g : AVal → AVal) : ∀ attrs : List (MetaAttr × AVal),
    (∀ m v, findAttr a attrs = some (m, v) → m.cont = false) →
    contIdsL (updAttrs a g attrs) = contIdsL attrs := by
  intro attrs
  induction attrs with
  | nil => intro _; rfl
  | cons mv rest ih =>
    obtain ⟨m, v⟩ := mv
    intro hh
    unfold updAttrs
    by_cases hn : m.name = a
    · have := hh m v (by simp [findAttr, hn])
      simp [hn, contIdsL, this]
    · simp only [hn, if_false, contIdsL]
      rw [ih (fun m' v' hf => hh m' v' (by simpa [findAttr, hn] using hf))]

theorem updAttr_of_none {h : Heap} {x a : Nat} {g : AVal → AVal} (hg : h.get x = none) : h.updAttr x a g = h := by
  unfold Heap.updAttr; rw [hg]

theorem contIds_updAttr_ref {h : Heap} {x a : Nat} {g : AVal → AVal} (href : IsRefAttr h x a) (y : Nat) :
    contIds (h.updAttr x a g) y = contIds h y := by
  by_cases hy : y = x
  · subst hy
    cases hg : h.get y with
    | none => rw [updAttr_of_none hg]
    | some o =>
      simp only [contIds, updAttr_get_eq hg, hg, HObj.contIds]
      exact contIdsL_updAttrs_ref a g o.attrs (fun m v hf => href o m v hg hf)
  · exact contIds_congr (updAttr_get_ne hy)

theorem isSome_updAttr (h : Heap) (x a : Nat) (g : AVal → AVal) (y : Nat) :
    ((h.updAttr x a g).get y).isSome = (h.get y).isSome := by
  by_cases hy : y = x
  · subst hy
    cases hg : h.get y with
    | none => rw [updAttr_of_none hg, hg]
    | some o => rw [updAttr_get_eq hg]; rfl
  · rw [updAttr_get_ne hy]

theorem clsOf_updAttr (h : Heap) (x a : Nat) (g : AVal → AVal) (y : Nat) :
    clsOf (h.updAttr x a g) y = clsOf h y := by
  by_cases hy : y = x
  · subst hy
    cases hg : h.get y with
    | none => rw [updAttr_of_none hg]
    | some o => simp [clsOf, updAttr_get_eq hg, hg]
  · simp [clsOf, updAttr_get_ne hy]

/-- two heaps with the same objects, containment lists, parent links, classes and spans -/
structure SameTree (h h' : Heap) : Prop where
  cont : ∀ y, contIds h' y = contIds h y
  parent : ∀ y, parentOf h' y = parentOf h y
  ex : ∀ y, (h'.get y).isSome = (h.get y).isSome
  cls : ∀ y, clsOf h' y = clsOf h y
  span : ∀ y, spanOf h' y = spanOf h y
  len : h'.length = h.length

theorem SameTree.rfl' (h : Heap) : SameTree h h :=
  ⟨fun _ => rfl, fun _ => rfl, fun _ => rfl, fun _ => rfl, fun _ => rfl, rfl⟩

theorem RefUpdates.same {h h' : Heap} (u : RefUpdates h h') : SameTree h h' := by
  induction u with
  | refl => exact SameTree.rfl' _
  | step x a g _ href ih =>
    refine ⟨?_, ?_, ?_, ?_, ?_, ?_⟩
    · intro y; rw [contIds_updAttr_ref href y]; exact ih.cont y
    · intro y; rw [parentOf_updAttr]; exact ih.parent y
    · intro y; rw [isSome_updAttr]; exact ih.ex y
    · intro y; rw [clsOf_updAttr]; exact ih.cls y
    · intro y; rw [spanOf_updAttr]; exact ih.span y
    · rw [updAttr_length]; exact ih.len

theorem SameTree.tree {h h' : Heap} (e : SameTree h h') (T : TreeHeap h) : TreeHeap h' := by
  refine ⟨?_, ?_, ?_, ?_⟩
  · intro p c hc
    rw [e.cont] at hc; rw [e.parent]
    exact T.parent_of_cont p c hc
  · intro c p hp
    rw [e.parent] at hp
    exact T.parent_lt c p hp
  · intro p; rw [e.cont]; exact T.nodup p
  · intro p c hc
    rw [e.cont] at hc; rw [e.ex]
    exact T.exists_of_cont p c hc

theorem SameTree.reach {h h' : Heap} (e : SameTree h h') {fol : Nat → Bool} {r x : Nat}
    (R : Reach h fol r x) : Reach h' fol r x := by
  induction R with
  | here hx => exact Reach.here (by rw [e.ex]; exact hx)
  | down hc hf _ ih => exact Reach.down (by rw [e.cont]; exact hc) hf ih

theorem SameTree.reach_back {h h' : Heap} (e : SameTree h h') {fol : Nat → Bool} {r x : Nat}
    (R : Reach h' fol r x) : Reach h fol r x := by
  induction R with
  | here hx => exact Reach.here (by rw [← e.ex]; exact hx)
  | down hc hf _ ih => exact Reach.down (by rw [← e.cont]; exact hc) hf ih

theorem getModel_congr {h h' : Heap} (hp : ∀ y, parentOf h' y = parentOf h y) :
    ∀ (f x : Nat), getModel h' f x = getModel h f x
  | 0, _ => rfl
  | f + 1, x => by
    rw [getModel, getModel, hp x]
    cases parentOf h x with
    | none => rfl
    | some p => exact getModel_congr hp f p

theorem getParentOfType_congr {h h' : Heap} (hp : ∀ y, parentOf h' y = parentOf h y)
    (hc : ∀ y, clsOf h' y = clsOf h y) (typ : Nat) :
    ∀ (f x : Nat), getParentOfType h' typ f x = getParentOfType h typ f x
  | 0, _ => rfl
  | f + 1, x => by
    rw [getParentOfType, getParentOfType, hp x]
    cases parentOf h x with
    | none => rfl
    | some p =>
      simp only [hc p]
      rw [getParentOfType_congr hp hc typ f p]

/-! ## the abstract-rule branch: which child is the result -/

theorem processFirstNT_some (tr : Heap → Nat → Bool) (mm : Nat → List MetaAttr) (fb : Bool) (s : St) :
    ∀ (ks : List PT) (n : PT),
    (ks.filter (fun n => !n.isTerm)).find? (fun n => !n.isMatchNT) = some n →
    processFirstNT tr mm fb ks s = processNode tr mm n s := by
  intro ks
  induction ks with
  | nil => intro n h; simp at h
  | cons k ks ih =>
    intro n h
    simp only [processFirstNT]
    by_cases ht : k.isTerm = true
    · simp only [ht, Bool.true_or, if_true]
      apply ih
      simpa [List.filter_cons, ht] using h
    · have ht' : k.isTerm = false := by simpa using ht
      by_cases hm : k.isMatchNT = true
      · simp only [hm, Bool.or_true, if_true]
        apply ih
        simpa [List.filter_cons, ht', List.find?_cons, hm] using h
      · have hm' : k.isMatchNT = false := by simpa using hm
        simp only [ht', hm', Bool.or_false, Bool.false_eq_true, if_false]
        have hkn : k = n := by simpa [List.filter_cons, ht', List.find?_cons, hm'] using h
        rw [hkn]

theorem processFirstNT_none (tr : Heap → Nat → Bool) (mm : Nat → List MetaAttr) (fb : Bool) (s : St) :
    ∀ (ks : List PT),
    (ks.filter (fun n => !n.isTerm)).find? (fun n => !n.isMatchNT) = none →
    processFirstNT tr mm fb ks s = some (.prim fb, s) := by
  intro ks
  induction ks with
  | nil => intro _; simp only [processFirstNT]
  | cons k ks ih =>
    intro h
    simp only [processFirstNT]
    by_cases ht : k.isTerm = true
    · simp only [ht, Bool.true_or, if_true]
      apply ih
      simpa [List.filter_cons, ht] using h
    · have ht' : k.isTerm = false := by simpa using ht
      by_cases hm : k.isMatchNT = true
      · simp only [hm, Bool.or_true, if_true]
        apply ih
        simpa [List.filter_cons, ht', List.find?_cons, hm] using h
      · have hm' : k.isMatchNT = false := by simpa using hm
        exfalso
        simp [ht', hm'] at h

theorem abstractFallback_spec (tr : Heap → Nat → Bool) (mm : Nat → List MetaAttr) (s : St) :
    ∀ (ks : List PT), (∀ n ∈ ks.filter (fun n => !n.isTerm), n.isMatchNT = true) →
    (∀ n, (ks.filter (fun n => !n.isTerm)).head? = some n →
        processNode tr mm n s = some (.prim (abstractFallback ks), s)) ∧
    (ks.filter (fun n => !n.isTerm) = [] → abstractFallback ks = true) := by
  intro ks
  induction ks with
  | nil => intro _; exact ⟨fun n h => by simp at h, fun _ => rfl⟩
  | cons k ks ih =>
    intro hall
    cases k with
    | term p l sp t =>
      have hf : (PT.term p l sp t :: ks).filter (fun n => !n.isTerm) = ks.filter (fun n => !n.isTerm) := by
        simp [PT.isTerm]
      have hfb : abstractFallback (PT.term p l sp t :: ks) = abstractFallback ks := rfl
      rw [hf] at hall ⊢
      rw [hfb]
      exact ih hall
    | nt kd kids =>
      have hf : (PT.nt kd kids :: ks).filter (fun n => !n.isTerm) = PT.nt kd kids :: ks.filter (fun n => !n.isTerm) := by
        simp [PT.isTerm]
      have hk := hall (PT.nt kd kids) (by rw [hf]; exact List.mem_cons_self)
      cases kd with
      | mat t =>
        refine ⟨?_, ?_⟩
        · intro n hn
          rw [hf] at hn
          simp only [List.head?_cons, Option.some.injEq] at hn
          subst hn
          simp only [processNode, abstractFallback]
        · intro h; rw [hf] at h; cases h
      | obj c => simp [PT.isMatchNT] at hk
      | abs => simp [PT.isMatchNT] at hk
      | asgn a op => simp [PT.isMatchNT] at hk

end Obj
