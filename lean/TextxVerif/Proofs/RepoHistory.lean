import TextxVerif.Proofs.RepoEntryFail
/-!
Histories of loads (C17): every state a history of loads reaches from the empty state is
well formed (`WF`, the hypothesis of the C17 / C18 theorems), through any mix of entry points
(`Op`), successful and failing loads; a cached file is returned as it is.
-/
namespace Repo

theorem WF.init : WF St.init :=
  ⟨by simp [St.init, Dict.keys], by simp [St.init], by simp [St.init], by simp [St.init], by simp [St.init]⟩

/-- without a global repository every load starts from an empty dict: nothing to assume -/
theorem wf_base_noGlob (S : Spec) (st : St) (hg : S.glob = false) : WF (base S st) := by
  unfold base
  rw [hg]
  exact ⟨by simp [Dict.keys], by simp, by simp, by simp, by simp⟩

theorem base_all_eq (S : Spec) (st : St) : (if S.glob then st.all else []) = (base S st).all := by
  unfold base; split <;> rfl

theorem base_idem (S : Spec) (st : St) : base S (base S st) = base S st := by
  cases hg : S.glob <;> simp [base, hg]

/-- a load only looks at the dict it starts from -/
theorem loadMain_base (S : Spec) (fuel : Nat) (st : St) (f : File) :
    loadMain S fuel (base S st) f = loadMain S fuel st f := by
  rw [loadMain_unfold, loadMain_unfold, base_idem]

theorem loadStr_base (S : Spec) (fuel : Nat) (st : St) (a : File) :
    loadStr S fuel (base S st) a = loadStr S fuel st a := by
  rw [loadStr_unfold, loadStr_unfold, base_idem]

/-- with a global repository, loading any file that is in it returns the cached model and changes nothing -/
theorem loadMain_cached (S : Spec) (fuel : Nat) (st : St) (g : File) (hg : S.glob = true)
    (hk : g ∈ st.all.keys) (hm : S.modFault g = false) :
    loadMain S fuel st g = (st, .ok, (st.all.get? g).getD 0) := by
  rw [loadMain_unfold]
  have hb : base S st = st := base_of_glob S st hg
  have hhas : st.all.has g = true := (Dict.has_iff _ _).2 hk
  simp only [hb, hg, hhas, Bool.and_self, if_true, hm, Bool.false_eq_true, if_false]

/-! ## one step of a history -/

theorem loadMain_wf (S : Spec) (fuel : Nat) (st : St) (f : File) (hg : S.glob = true) (hwf : WF st)
    (hnf : (loadMain S fuel st f).2.1 ≠ .fuel) : WF (loadMain S fuel st f).1 := by
  cases hl : loadMain S fuel st f with
  | mk st' rj =>
    obtain ⟨r, j⟩ := rj
    rw [hl] at hnf
    cases r with
    | ok => exact (loadMain_ok S fuel st f (hwf.base S) hl).wf
    | fail k =>
      obtain ⟨hI, hall, hS⟩ := loadMain_fail S fuel st f (hwf.base S) hl
      exact (clean_of_fail hwf hg hI hall hS).2
    | fuel => exact absurd rfl hnf

theorem loadStr_wf (S : Spec) (fuel : Nat) (st : St) (a : File) (hg : S.glob = true) (hwf : WF st)
    (ha : a ∉ (base S st).all.keys) (hnf : (loadStr S fuel st a).2.1 ≠ .fuel) : WF (loadStr S fuel st a).1 := by
  cases hl : loadStr S fuel st a with
  | mk st' rj =>
    obtain ⟨r, j⟩ := rj
    rw [hl] at hnf
    cases r with
    | ok => exact (loadStr_ok S fuel st a (hwf.base S) ha hl).wf
    | fail k =>
      obtain ⟨hI, hall, hS⟩ := loadStr_fail S fuel st a (hwf.base S) ha hl
      exact (clean_of_fail hwf hg hI hall hS).2
    | fuel => exact absurd rfl hnf

theorem preload_wf (S : Spec) (fuel : Nat) (st : St) (calls : List (Option File)) (hg : S.glob = true) (hwf : WF st)
    (hnf : (preload S fuel st calls).2 ≠ .fuel) : WF (preload S fuel st calls).1 := by
  cases hp : preload S fuel st calls with
  | mk st' r =>
    rw [hp] at hnf
    cases r with
    | ok => exact (preload_spec S hg fuel calls st st' hwf hp).1
    | fail k => exact (preload_fail S hg fuel calls st st' k hwf hp).1
    | fuel => exact absurd rfl hnf

/-- whatever the entry point and whatever the outcome (other than running out of fuel), a load started
in a well-formed state ends in a well-formed state -/
theorem Op.run_wf (S : Spec) (fuel : Nat) (st : St) (op : Op) (hwf : WF (base S st))
    (hnf : (op.run S fuel st).2.1 ≠ .fuel) :
    ∀ T : Spec, T.glob = S.glob → WF (base T (op.run S fuel st).1) := by
  intro T hT
  cases hg : S.glob with
  | false => exact wf_base_noGlob T _ (by rw [hT, hg])
  | true =>
    rw [base_of_glob T _ (by rw [hT, hg])]
    have hb := base_of_glob S st hg
    have hwf' : WF st := by rw [hb] at hwf; exact hwf
    cases op with
    | file f => exact loadMain_wf S fuel st f hg hwf' hnf
    | str a0 =>
      exact loadStr_wf S fuel st _ hg hwf' (by rw [base_all_eq]; exact anonKey_fresh a0 _) hnf
    | preload calls =>
      have hnf' : (Repo.preload { S with glob := true } fuel (base S st) calls).2 ≠ .fuel := hnf
      show WF (Repo.preload { S with glob := true } fuel (base S st) calls).1
      rw [hb] at hnf' ⊢
      exact preload_wf _ fuel st calls rfl hwf' hnf'

/-! ## histories -/

/-- a history in which every load runs on a metamodel with (`g = true`) or without a global repository
and none runs out of fuel -/
def HistOK (g : Bool) : List (Spec × Nat × Op) → St → Prop
  | [], _ => True
  | (S, fuel, op) :: rest, st =>
    S.glob = g ∧ (op.run S fuel st).2.1 ≠ .fuel ∧ HistOK g rest (op.run S fuel st).1

theorem runOps_wf (g : Bool) : ∀ (ops : List (Spec × Nat × Op)) (st : St),
    (∀ T : Spec, T.glob = g → WF (base T st)) → HistOK g ops st →
    ∀ T : Spec, T.glob = g → WF (base T (runOps ops st))
  | [], _, h, _ => h
  | (S, fuel, op) :: rest, st, h, hh => by
    obtain ⟨hg, hnf, hr⟩ := hh
    exact runOps_wf g rest _ (fun T hT => Op.run_wf S fuel st op (h S hg) hnf T (by rw [hT, hg])) hr

/-! ## fuel along a history -/

/-- the main models an entry point starts with -/
def Op.roots (S : Spec) (st : St) : Op → List File
  | .file f => [f]
  | .str a0 => [anonKey a0 (if S.glob then st.all else [])]
  | .preload calls => calls.filterMap id

/-- the fuel is at least the size of a set of files that contains the main models and is closed under imports -/
def Op.Fueled (S : Spec) (fuel : Nat) (st : St) (op : Op) : Prop :=
  ∃ U : List File, (∀ h ∈ U, ∀ x, some x ∈ S.calls h → x ∈ U) ∧ (∀ r ∈ op.roots S st, r ∈ U) ∧ U.length ≤ fuel

theorem preload_fuel (S : Spec) (U : List File)
    (hU : ∀ h ∈ U, ∀ x, some x ∈ S.calls h → x ∈ U) (fuel : Nat) (hn : U.length ≤ fuel) :
    ∀ (calls : List (Option File)) (st : St), WF st → (∀ c, some c ∈ calls → c ∈ U) →
      (preload S fuel st calls).2 ≠ .fuel := by
  intro calls
  induction calls with
  | nil => intro st _ _ h; simp only [preload] at h; cases h
  | cons c cs ih =>
    intro st hwf hc
    cases c with
    | none => intro h; simp only [preload] at h; cases h
    | some g =>
      have hcs : ∀ c, some c ∈ cs → c ∈ U := fun c h => hc c (List.mem_cons_of_mem _ h)
      simp only [preload]
      split
      · exact ih st hwf hcs
      · have hnf := loadMain_fuel S U hU fuel st g (hc g List.mem_cons_self) (hwf.base S)
          (Nat.le_trans (unl_le_length U _) hn)
        cases hl : loadMain S fuel st g with
        | mk st1 rj =>
          obtain ⟨r1, j1⟩ := rj
          rw [hl] at hnf
          cases r1 with
          | ok => exact ih st1 (loadMain_ok S fuel st g (hwf.base S) hl).wf hcs
          | fail k => intro h; cases h
          | fuel => exact absurd rfl hnf

theorem Op.run_not_fuel (S : Spec) (fuel : Nat) (st : St) (op : Op) (hwf : WF (base S st))
    (hf : op.Fueled S fuel st) : (op.run S fuel st).2.1 ≠ .fuel := by
  obtain ⟨U, hU, hr, hn⟩ := hf
  have hn' : unl U (base S st) ≤ fuel := Nat.le_trans (unl_le_length U _) hn
  cases op with
  | file f => exact loadMain_fuel S U hU fuel st f (hr f (by simp [Op.roots])) hwf hn'
  | str a0 =>
    exact loadStr_fuel S U hU fuel st _ (hr _ (by simp [Op.roots])) hwf
      (by rw [base_all_eq]; exact anonKey_fresh a0 _) hn'
  | preload calls =>
    show (Repo.preload { S with glob := true } fuel (base S st) calls).2 ≠ .fuel
    refine preload_fuel { S with glob := true } U hU fuel hn calls (base S st) hwf ?_
    intro c hc
    exact hr c (List.mem_filterMap.2 ⟨some c, hc, rfl⟩)

/-- a history in which every load has enough fuel -/
def HistFueled (g : Bool) : List (Spec × Nat × Op) → St → Prop
  | [], _ => True
  | (S, fuel, op) :: rest, st =>
    S.glob = g ∧ op.Fueled S fuel st ∧ HistFueled g rest (op.run S fuel st).1

theorem histFueled_ok (g : Bool) : ∀ (ops : List (Spec × Nat × Op)) (st : St),
    (∀ T : Spec, T.glob = g → WF (base T st)) → HistFueled g ops st → HistOK g ops st
  | [], _, _, _ => trivial
  | (S, fuel, op) :: rest, st, h, hh => by
    obtain ⟨hg, hf, hr⟩ := hh
    have hnf := Op.run_not_fuel S fuel st op (h S hg) hf
    exact ⟨hg, hnf, histFueled_ok g rest _
      (fun T hT => Op.run_wf S fuel st op (h S hg) hnf T (by rw [hT, hg])) hr⟩

/-! ## the global repository only grows at its end -/

theorem loadMain_prefix (S : Spec) (fuel : Nat) (st : St) (f : File) (hg : S.glob = true) (hwf : WF st)
    (hnf : (loadMain S fuel st f).2.1 ≠ .fuel) : ∃ N, (loadMain S fuel st f).1.all = st.all ++ N := by
  have hb := base_of_glob S st hg
  cases hl : loadMain S fuel st f with
  | mk st' rj =>
    obtain ⟨r, j⟩ := rj
    rw [hl] at hnf
    cases r with
    | ok =>
      obtain ⟨N, hN, _⟩ := (loadMain_ok S fuel st f (hwf.base S) hl).invW.split
      rw [hb] at hN
      exact ⟨N, hN⟩
    | fail k =>
      obtain ⟨_, hall, _⟩ := loadMain_fail S fuel st f (hwf.base S) hl
      rw [hb] at hall
      exact ⟨[], by simp [hall hg]⟩
    | fuel => exact absurd rfl hnf

theorem loadStr_prefix (S : Spec) (fuel : Nat) (st : St) (a : File) (hg : S.glob = true) (hwf : WF st)
    (ha : a ∉ (base S st).all.keys) (hnf : (loadStr S fuel st a).2.1 ≠ .fuel) :
    ∃ N, (loadStr S fuel st a).1.all = st.all ++ N := by
  have hb := base_of_glob S st hg
  cases hl : loadStr S fuel st a with
  | mk st' rj =>
    obtain ⟨r, j⟩ := rj
    rw [hl] at hnf
    cases r with
    | ok =>
      obtain ⟨N, hN, _⟩ := (loadStr_ok S fuel st a (hwf.base S) ha hl).invW.split
      rw [hb] at hN
      exact ⟨N, hN⟩
    | fail k =>
      obtain ⟨_, hall, _⟩ := loadStr_fail S fuel st a (hwf.base S) ha hl
      rw [hb] at hall
      exact ⟨[], by simp [hall hg]⟩
    | fuel => exact absurd rfl hnf

theorem preload_prefix (S : Spec) (hg : S.glob = true) (fuel : Nat) :
    ∀ (calls : List (Option File)) (st : St), WF st → (Repo.preload S fuel st calls).2 ≠ .fuel →
      ∃ N, (Repo.preload S fuel st calls).1.all = st.all ++ N := by
  intro calls
  induction calls with
  | nil => intro st _ _; exact ⟨[], by simp [Repo.preload]⟩
  | cons c cs ih =>
    intro st hwf hnf
    cases c with
    | none => exact ⟨[], by simp [Repo.preload]⟩
    | some g =>
      cases hhas : st.all.has g with
      | true =>
        rw [preload_cons_cached S fuel st g cs hhas] at hnf ⊢
        exact ih st hwf hnf
      | false =>
        cases hl : loadMain S fuel st g with
        | mk st1 rj =>
          obtain ⟨r1, j1⟩ := rj
          have hnf1 : (loadMain S fuel st g).2.1 ≠ .fuel := by
            intro h
            apply hnf
            rw [hl] at h
            simp only at h
            subst h
            simp [Repo.preload, hhas, hl]
          obtain ⟨N1, hN1⟩ := loadMain_prefix S fuel st g hg hwf hnf1
          have hw1 := loadMain_wf S fuel st g hg hwf hnf1
          rw [hl] at hN1 hw1
          cases r1 with
          | ok =>
            rw [preload_cons_ok S fuel st st1 g j1 cs hhas hl] at hnf ⊢
            obtain ⟨N2, hN2⟩ := ih st1 hw1 hnf
            exact ⟨N1 ++ N2, by rw [hN2, hN1, List.append_assoc]⟩
          | fail k =>
            have : Repo.preload S fuel st (some g :: cs) = (st1, .fail k) := by simp [Repo.preload, hhas, hl]
            rw [this]; exact ⟨N1, hN1⟩
          | fuel => exact absurd (by rw [hl]) hnf1

theorem Op.run_prefix (S : Spec) (fuel : Nat) (st : St) (op : Op) (hg : S.glob = true) (hwf : WF st)
    (hnf : (op.run S fuel st).2.1 ≠ .fuel) : ∃ N, (op.run S fuel st).1.all = st.all ++ N := by
  have hb := base_of_glob S st hg
  cases op with
  | file f => exact loadMain_prefix S fuel st f hg hwf hnf
  | str a0 => exact loadStr_prefix S fuel st _ hg hwf (by rw [base_all_eq]; exact anonKey_fresh a0 _) hnf
  | preload calls =>
    have hnf' : (Repo.preload { S with glob := true } fuel (base S st) calls).2 ≠ .fuel := hnf
    show ∃ N, (Repo.preload { S with glob := true } fuel (base S st) calls).1.all = st.all ++ N
    rw [hb] at hnf' ⊢
    exact preload_prefix _ rfl fuel calls st hwf hnf'

theorem runOps_prefix : ∀ (ops : List (Spec × Nat × Op)) (st : St), WF st → HistOK true ops st →
    ∃ N, (runOps ops st).all = st.all ++ N
  | [], st, _, _ => ⟨[], by simp [runOps]⟩
  | (S, fuel, op) :: rest, st, hwf, hh => by
    obtain ⟨hg, hnf, hr⟩ := hh
    obtain ⟨N1, hN1⟩ := Op.run_prefix S fuel st op hg hwf hnf
    have hw1 : WF (op.run S fuel st).1 := by
      have := Op.run_wf S fuel st op (hwf.base S) hnf S rfl
      rw [base_of_glob S _ hg] at this
      exact this
    obtain ⟨N2, hN2⟩ := runOps_prefix rest _ hw1 hr
    exact ⟨N1 ++ N2, by show (runOps rest (op.run S fuel st).1).all = _; rw [hN2, hN1, List.append_assoc]⟩

theorem runOps_append : ∀ (ops1 ops2 : List (Spec × Nat × Op)) (st : St),
    runOps (ops1 ++ ops2) st = runOps ops2 (runOps ops1 st)
  | [], _, _ => rfl
  | _ :: rest, ops2, _ => runOps_append rest ops2 _

theorem histOK_append (g : Bool) : ∀ (ops1 ops2 : List (Spec × Nat × Op)) (st : St),
    HistOK g (ops1 ++ ops2) st → HistOK g ops1 st ∧ HistOK g ops2 (runOps ops1 st)
  | [], _, _, h => ⟨trivial, h⟩
  | (S, fuel, op) :: rest, ops2, st, h => by
    obtain ⟨hg, hnf, hr⟩ := h
    obtain ⟨h1, h2⟩ := histOK_append g rest ops2 _ hr
    exact ⟨⟨hg, hnf, h1⟩, h2⟩

/-- decidable form of "closed under imports" -/
def closedB (S : Spec) (U : List File) : Bool :=
  U.all fun h => (S.calls h).all fun c => match c with
    | some x => U.contains x
    | none => true

theorem closedB_spec {S : Spec} {U : List File} (h : closedB S U = true) :
    ∀ h ∈ U, ∀ x, some x ∈ S.calls h → x ∈ U := by
  intro g hg x hx
  have h1 := List.all_eq_true.1 h g hg
  have h2 := List.all_eq_true.1 h1 (some x) hx
  simpa using h2

end Repo
