import TextxVerif.Proofs.HistoryReach
/-!
# Arpeggio's cache walk: what it visits, and why walking equals "drop everything"

* `Reach nodes r x` — `x` is reachable from `r` along `ParsingExpression.nodes` (inductive specification,
  independent of the executable `walk`).
* `walk_inv` — the explicit-stack mirror of `_clear_cache` with `edges + 1` units of fuel never stops
  early: its result contains the start set and is closed under `kidsOf` (counting argument: every
  node is expanded at most once, `pending` = the `nodes` references of nodes not yet expanded).
* `mem_walkFrom_iff` — `x ∈ walkFrom nodes r ↔ Reach nodes r x`.
* `closed_cleared` — under `walkOK` the walked set satisfies `Peg.Closed`, so by `parse_stores_in` every
  memo entry written by a parse belongs to a walked rule object: `parseText_walk`, and from there
  `load_walk`, `run_walk`: `realWalk` and `real` are the same machine on states with empty caches.
* `load_sw` — a load commutes with replacing the grammar-parser cache and the owner of the base-type rules
  (as long as "there is an owner" is unchanged), for every variant of the machine.
-/
namespace History
open Peg

/-- reachable along `nodes` (the model's `kids`) — what `_clear_cache` can ever get to -/
inductive Reach (nodes : Array Node) (r : Nat) : Nat → Prop
  | refl : Reach nodes r r
  | step {b c : Nat} : Reach nodes r b → c ∈ kidsOf nodes b → Reach nodes r c

/-! ## the counting argument -/

def kl (nodes : Array Node) (i : Nat) : Nat := (kidsOf nodes i).length

/-- `nodes` references of the members of `l` that are not yet in `done` -/
def pendingL (nodes : Array Node) (l : List Nat) (done : List Nat) : Nat :=
  ((l.filter fun i => decide (i ∉ done)).map (kl nodes)).sum

def pending (nodes : Array Node) (done : List Nat) : Nat := pendingL nodes (List.range nodes.size) done

theorem pendingL_cons (nodes : Array Node) (x : Nat) (done : List Nat) (hx : x ∉ done) :
    ∀ l, pendingL nodes l (x :: done) + (if x ∈ l then kl nodes x else 0) ≤ pendingL nodes l done := by
  intro l
  induction l with
  | nil => simp [pendingL]
  | cons y l ih =>
    by_cases hyx : y = x
    · subst hyx
      have h1 : pendingL nodes (y :: l) (y :: done) = pendingL nodes l (y :: done) := by
        simp [pendingL]
      have h2 : pendingL nodes (y :: l) done = kl nodes y + pendingL nodes l done := by
        simp [pendingL, hx]
      rw [h1, h2]
      simp only [List.mem_cons, true_or, ↓reduceIte]
      split at ih <;> omega
    · have hmem : (x ∈ y :: l) ↔ (x ∈ l) := by
        simp [List.mem_cons, Ne.symm hyx]
      simp only [hmem]
      by_cases hyd : y ∈ done
      · have h1 : pendingL nodes (y :: l) (x :: done) = pendingL nodes l (x :: done) := by
          simp [pendingL, hyd]
        have h2 : pendingL nodes (y :: l) done = pendingL nodes l done := by
          simp [pendingL, hyd]
        rw [h1, h2]; exact ih
      · have h1 : pendingL nodes (y :: l) (x :: done) = kl nodes y + pendingL nodes l (x :: done) := by
          simp [pendingL, hyd, hyx]
        have h2 : pendingL nodes (y :: l) done = kl nodes y + pendingL nodes l done := by
          simp [pendingL, hyd]
        rw [h1, h2]; omega

theorem pending_cons (nodes : Array Node) (x : Nat) (done : List Nat) (hx : x ∉ done) :
    pending nodes (x :: done) + (kidsOf nodes x).length ≤ pending nodes done := by
  have h := pendingL_cons nodes x done hx (List.range nodes.size)
  unfold pending
  by_cases hlt : x < nodes.size
  · simp only [List.mem_range, hlt, ↓reduceIte, kl] at h
    exact h
  · have h0 : (kidsOf nodes x).length = 0 := by
      have : nodes[x]? = none := by simp; omega
      simp [kidsOf, this]
    simp only [List.mem_range, hlt, ↓reduceIte] at h
    omega

theorem pending_nil (nodes : Array Node) : pending nodes [] = edges nodes := by
  unfold pending pendingL edges
  have h : (List.range nodes.size).filter (fun i => decide (i ∉ ([] : List Nat))) = List.range nodes.size := by
    simp
  rw [h]
  rfl

/-! ## the walk never runs out of fuel: its result is closed -/

theorem walk_inv (nodes : Array Node) : ∀ (f : Nat) (todo done : List Nat),
    (∀ v ∈ done, ∀ c ∈ kidsOf nodes v, c ∈ done ∨ c ∈ todo) →
    todo.length + pending nodes done ≤ f →
    (∀ v ∈ done, v ∈ walk nodes f todo done) ∧ (∀ v ∈ todo, v ∈ walk nodes f todo done) ∧
      (∀ v ∈ walk nodes f todo done, ∀ c ∈ kidsOf nodes v, c ∈ walk nodes f todo done) := by
  intro f
  induction f with
  | zero =>
    intro todo done hi hf
    have ht : todo = [] := by
      cases todo with
      | nil => rfl
      | cons _ _ => simp at hf
    subst ht
    simp only [walk]
    refine ⟨fun v hv => hv, fun v hv => by simp at hv, ?_⟩
    intro v hv c hc
    rcases hi v hv c hc with h | h
    · exact h
    · simp at h
  | succ f ih =>
    intro todo done hi hf
    cases todo with
    | nil =>
      simp only [walk]
      refine ⟨fun v hv => hv, fun v hv => by simp at hv, ?_⟩
      intro v hv c hc
      rcases hi v hv c hc with h | h
      · exact h
      · simp at h
    | cons x todo =>
      by_cases hx : x ∈ done
      · simp only [walk, hx, ↓reduceIte]
        have hi' : ∀ v ∈ done, ∀ c ∈ kidsOf nodes v, c ∈ done ∨ c ∈ todo := by
          intro v hv c hc
          rcases hi v hv c hc with h | h
          · exact .inl h
          · rcases List.mem_cons.mp h with h | h
            · subst h; exact .inl hx
            · exact .inr h
        have hf' : todo.length + pending nodes done ≤ f := by
          simp only [List.length_cons] at hf; omega
        obtain ⟨r1, r2, r3⟩ := ih todo done hi' hf'
        refine ⟨r1, ?_, r3⟩
        intro v hv
        rcases List.mem_cons.mp hv with h | h
        · subst h; exact r1 v hx
        · exact r2 v h
      · simp only [walk, hx, ↓reduceIte]
        have hi' : ∀ v ∈ x :: done, ∀ c ∈ kidsOf nodes v, c ∈ x :: done ∨ c ∈ kidsOf nodes x ++ todo := by
          intro v hv c hc
          rcases List.mem_cons.mp hv with h | h
          · subst h; exact .inr (List.mem_append_left _ hc)
          · rcases hi v h c hc with h' | h'
            · exact .inl (List.mem_cons_of_mem _ h')
            · rcases List.mem_cons.mp h' with h'' | h''
              · subst h''; exact .inl (List.mem_cons_self)
              · exact .inr (List.mem_append_right _ h'')
        have hp := pending_cons nodes x done hx
        have hf' : (kidsOf nodes x ++ todo).length + pending nodes (x :: done) ≤ f := by
          simp only [List.length_cons, List.length_append] at hf ⊢; omega
        obtain ⟨r1, r2, r3⟩ := ih (kidsOf nodes x ++ todo) (x :: done) hi' hf'
        refine ⟨fun v hv => r1 v (List.mem_cons_of_mem _ hv), ?_, r3⟩
        intro v hv
        rcases List.mem_cons.mp hv with h | h
        · subst h; exact r1 v (List.mem_cons_self)
        · exact r2 v (List.mem_append_right _ h)

/-- everything the walk returns was reachable -/
theorem walk_sound (nodes : Array Node) (r : Nat) : ∀ (f : Nat) (todo done : List Nat),
    (∀ v ∈ todo, Reach nodes r v) → (∀ v ∈ done, Reach nodes r v) →
    ∀ v ∈ walk nodes f todo done, Reach nodes r v := by
  intro f
  induction f with
  | zero => intro todo done _ hd v hv; exact hd v (by simpa [walk] using hv)
  | succ f ih =>
    intro todo done ht hd
    cases todo with
    | nil => intro v hv; exact hd v (by simpa [walk] using hv)
    | cons x todo =>
      by_cases hx : x ∈ done
      · simp only [walk, hx, ↓reduceIte]
        exact ih todo done (fun v hv => ht v (List.mem_cons_of_mem _ hv)) hd
      · simp only [walk, hx, ↓reduceIte]
        have hrx := ht x (List.mem_cons_self)
        apply ih
        · intro v hv
          rcases List.mem_append.mp hv with h | h
          · exact .step hrx h
          · exact ht v (List.mem_cons_of_mem _ h)
        · intro v hv
          rcases List.mem_cons.mp hv with h | h
          · subst h; exact hrx
          · exact hd v h

theorem walkFrom_closed (nodes : Array Node) (r : Nat) :
    r ∈ walkFrom nodes r ∧ ∀ v ∈ walkFrom nodes r, ∀ c ∈ kidsOf nodes v, c ∈ walkFrom nodes r := by
  have h := walk_inv nodes (edges nodes + 1) [r] [] (by intro v hv; simp at hv)
    (by rw [pending_nil]; simp; omega)
  exact ⟨h.2.1 r (by simp), h.2.2⟩

/-- **The walk computes reachability.** -/
theorem mem_walkFrom_iff (nodes : Array Node) (r x : Nat) : x ∈ walkFrom nodes r ↔ Reach nodes r x := by
  constructor
  · exact walk_sound nodes r _ [r] [] (by intro v hv; simp at hv; subst hv; exact .refl)
      (by intro v hv; simp at hv) x
  · intro h
    induction h with
    | refl => exact (walkFrom_closed nodes r).1
    | step _ hc ih => exact (walkFrom_closed nodes r).2 _ ih _ hc

theorem mem_clearedBy_iff (nodes : Array Node) (top : Nat) (comments : Option Nat) (x : Nat) :
    x ∈ clearedBy nodes top comments ↔
      Reach nodes top x ∨ ∃ c, comments = some c ∧ Reach nodes c x := by
  unfold clearedBy
  cases comments with
  | none => simp [mem_walkFrom_iff]
  | some c => simp [mem_walkFrom_iff]

/-! ## stores of a parse are in the walked set -/

def clearedSet (nodes : Array Node) (top : Nat) (comments : Option Nat) : Nat → Bool :=
  fun i => (clearedBy nodes top comments).contains i

theorem clearedSet_iff (nodes : Array Node) (top : Nat) (comments : Option Nat) (i : Nat) :
    clearedSet nodes top comments i = true ↔ i ∈ clearedBy nodes top comments := by
  simp [clearedSet]

theorem kidsOf_some {nodes : Array Node} {i : Nat} {nd : Node} (h : nodes[i]? = some nd) :
    kidsOf nodes i = nd.kids := by
  simp [kidsOf, h]

theorem closed_cleared (g : Grammar) (top : Nat) (hw : walkOK g.nodes top g.comments = true) :
    Closed g (clearedSet g.nodes top g.comments) where
  kids := by
    intro i nd hi hn c hc
    rw [clearedSet_iff] at hi ⊢
    rw [← kidsOf_some hn] at hc
    unfold clearedBy at hi ⊢
    rcases List.mem_append.mp hi with h | h
    · exact List.mem_append_left _ ((walkFrom_closed g.nodes top).2 i h c hc)
    · cases hcm : g.comments with
      | none => simp [hcm] at h
      | some cm =>
        simp only [hcm] at h ⊢
        exact List.mem_append_right _ ((walkFrom_closed g.nodes cm).2 i h c hc)
  sep := by
    intro i nd sp hi hn hsp
    rw [clearedSet_iff] at hi
    have h := (List.all_eq_true.mp hw) i hi
    simpa [sepTerm, hn, hsp] using h
  cm := by
    intro cm hcm
    rw [clearedSet_iff]
    unfold clearedBy
    simp only [hcm]
    exact List.mem_append_right _ (walkFrom_closed g.nodes cm).1

theorem top_cleared (nodes : Array Node) (top : Nat) (comments : Option Nat) :
    clearedSet nodes top comments top = true := by
  rw [clearedSet_iff]
  exact List.mem_append_left _ (walkFrom_closed nodes top).1

/-- after a parse that started on `cache`, walking leaves exactly what walking the start cache leaves -/
theorem walkClear_parse (g : Grammar) (top : Nat) (hw : walkOK g.nodes top g.comments = true)
    (n : Nat) (s : PState) :
    walkClear g.nodes top g.comments (parse g n top s).2.cache = walkClear g.nodes top g.comments s.cache := by
  have h := parse_keepsO (closed_cleared g top hw) n top s (Or.inl (top_cleared g.nodes top g.comments))
  simpa [outside, walkClear, clearedSet] using h

theorem walkClear_nil (nodes : Array Node) (top : Nat) (comments : Option Nat) :
    walkClear nodes top comments [] = [] := rfl

/-! ## `realWalk` = `real` -/

theorem parseText_walk (W : World) (m : MM) (x : Inp) (hw : walkOK W.nodes m.top m.comments = true) :
    parseText realWalk W m x [] = parseText real W m x [] := by
  unfold parseText
  have h := walkClear_parse
    { nodes := W.nodes, comments := m.comments, memo := m.memo, input := x.input, toks := x.toks } m.top hw
    x.fuel { initState m.skipws m.ws with cache := [] }
  simp only [walkClear_nil] at h
  simp only [realWalk, real, h]
  cases m.memo <;> simp

theorem oneFile_walk (W : World) (sem : Sem) (k : Nat) (m : MM) (b : PObj) (x : Inp) (H : Hidden) (pr : Prog)
    (hc : H.cache = []) (hw : walkOK W.nodes m.top m.comments = true) :
    oneFile realWalk W sem k m b x H pr = oneFile real W sem k m b x H pr := by
  unfold oneFile clone
  simp only [hc, parseText_walk W m x hw]
  rfl

theorem oneFile_cache (W : World) (sem : Sem) (k : Nat) (m : MM) (b : PObj) (x : Inp) (H : Hidden) (pr : Prog)
    (hc : H.cache = []) : (oneFile real W sem k m b x H pr).2.1.cache = [] := by
  have hrest := parseText_rest W m x
  unfold oneFile clone
  simp only [hc]
  generalize parseText real W m x [] = pt at hrest ⊢
  obtain ⟨o, st, c⟩ := pt
  simp only at hrest
  subst hrest
  cases o <;> rfl

theorem loadFiles_walk (W : World) (sem : Sem) (k : Nat) (m : MM) (b : PObj)
    (hw : walkOK W.nodes m.top m.comments = true) :
    ∀ (xs : List Inp) (H : Hidden) (pr : Prog), H.cache = [] →
      loadFiles realWalk W sem k m b xs H pr = loadFiles real W sem k m b xs H pr ∧
      (loadFiles real W sem k m b xs H pr).2.1.cache = [] := by
  intro xs
  induction xs with
  | nil => intro H pr hc; exact ⟨rfl, hc⟩
  | cons x xs ih =>
    intro H pr hc
    simp only [loadFiles, oneFile_walk W sem k m b x H pr hc hw]
    have hc' := oneFile_cache W sem k m b x H pr hc
    generalize oneFile real W sem k m b x H pr = r at hc' ⊢
    obtain ⟨o, H1, pr1⟩ := r
    cases o with
    | none => exact ih H1 pr1 hc'
    | some _ => exact ⟨rfl, hc'⟩

theorem giveBackAll_cache (k : Nat) : ∀ (ps : List Live) (H : Hidden), (giveBackAll k ps H).cache = H.cache := by
  intro ps
  induction ps with
  | nil => intro H; rfl
  | cons p ps ih =>
    intro H
    simp only [giveBackAll, List.foldl_cons] at ih ⊢
    rw [ih]
    unfold giveBack
    split <;> rfl

theorem walkOK_of_world (W : World) (k : Nat) (m : MM) (hW : W.walkOK = true) (hk : W.mms[k]? = some m) :
    walkOK W.nodes m.top m.comments = true :=
  (List.all_eq_true.mp hW) m (List.mem_of_getElem? hk)

theorem load_walk (W : World) (sem : Sem) (k : Nat) (files : List Inp) (H : Hidden)
    (hW : W.walkOK = true) (hc : H.cache = []) :
    load realWalk W sem k files H = load real W sem k files H ∧ (load real W sem k files H).2.cache = [] := by
  unfold load
  cases hk : W.mms[k]? with
  | none => exact ⟨rfl, hc⟩
  | some m =>
    cases hb : H.blue k with
    | none => exact ⟨rfl, hc⟩
    | some b =>
      obtain ⟨h1, h2⟩ := loadFiles_walk W sem k m b (walkOK_of_world W k m hW hk) files H {} hc
      simp only [h1]
      generalize loadFiles real W sem k m b files H {} = r at h2 ⊢
      obtain ⟨o, H1, pr1⟩ := r
      cases o with
      | none => exact ⟨trivial, by simp only [giveBackAll_cache]; exact h2⟩
      | some fl => exact ⟨trivial, by simp only [giveBackAll_cache]; exact h2⟩

theorem create_cache (W : World) (k : Nat) (H : Hidden) : (create W k H).cache = H.cache := by
  unfold create
  cases W.mms[k]? <;> rfl

/-- **Walking = dropping everything.**  On a world whose walked repetitions have `Match` separators, the
machine that clears the memo caches the way Arpeggio does is, operation by operation and state by
state, the machine `real` of the history theorems — from every state with empty caches. -/
theorem run_walk (W : World) (sem : Sem) (hW : W.walkOK = true) : ∀ (ops : List Op) (H : Hidden), H.cache = [] →
    run realWalk W sem ops H = run real W sem ops H := by
  intro ops
  induction ops with
  | nil => intro H _; rfl
  | cons op ops ih =>
    intro H hc
    cases op with
    | new k =>
      simp only [run, step]
      rw [ih (create W k H) (by rw [create_cache]; exact hc)]
    | load k files =>
      obtain ⟨h1, h2⟩ := load_walk W sem k files H hW hc
      simp only [run, step, h1]
      rw [ih (load real W sem k files H).2 h2]

/-! ## what a load reads of the creation history: nothing of `gp`, of `baseOwner` only whether it is set -/

/-- the same state with another grammar-parser cache and another owner of the base-type rules -/
def sw (gp : List (Bool × Bool)) (bo : Option Nat) (H : Hidden) : Hidden := { H with gp := gp, baseOwner := bo }

theorem oneFile_sw (v : Variant) (W : World) (sem : Sem) (k : Nat) (m : MM) (b : PObj) (x : Inp) (H : Hidden) (pr : Prog)
    (gp : List (Bool × Bool)) (bo : Option Nat) (h : bo.isSome = H.baseOwner.isSome) :
    oneFile v W sem k m b x (sw gp bo H) pr =
      ((oneFile v W sem k m b x H pr).1, sw gp bo (oneFile v W sem k m b x H pr).2.1, (oneFile v W sem k m b x H pr).2.2) ∧
    (oneFile v W sem k m b x H pr).2.1.baseOwner = H.baseOwner := by
  unfold oneFile clone sw
  simp only []
  generalize parseText v W m x H.cache = pt
  obtain ⟨o, st, c⟩ := pt
  cases o <;> simp [wr, rd, h]

theorem loadFiles_sw (v : Variant) (W : World) (sem : Sem) (k : Nat) (m : MM) (b : PObj)
    (gp : List (Bool × Bool)) (bo : Option Nat) :
    ∀ (xs : List Inp) (H : Hidden) (pr : Prog), bo.isSome = H.baseOwner.isSome →
    loadFiles v W sem k m b xs (sw gp bo H) pr =
      ((loadFiles v W sem k m b xs H pr).1, sw gp bo (loadFiles v W sem k m b xs H pr).2.1,
       (loadFiles v W sem k m b xs H pr).2.2) := by
  intro xs
  induction xs with
  | nil => intro H pr _; rfl
  | cons x xs ih =>
    intro H pr h
    obtain ⟨h1, h2⟩ := oneFile_sw v W sem k m b x H pr gp bo h
    simp only [loadFiles, h1]
    generalize oneFile v W sem k m b x H pr = r at h2 ⊢
    obtain ⟨o, H1, pr1⟩ := r
    cases o with
    | none => exact ih H1 pr1 (by rw [h]; simp only at h2; rw [h2])
    | some _ => rfl

theorem giveBackAll_sw (k : Nat) (gp : List (Bool × Bool)) (bo : Option Nat) :
    ∀ (ps : List Live) (H : Hidden), giveBackAll k ps (sw gp bo H) = sw gp bo (giveBackAll k ps H) := by
  intro ps
  induction ps with
  | nil => intro H; rfl
  | cons p ps ih =>
    intro H
    simp only [giveBackAll, List.foldl_cons] at ih ⊢
    rw [← ih]
    congr 1
    unfold giveBack sw
    cases p.replaced <;> rfl

theorem load_sw (v : Variant) (W : World) (sem : Sem) (k : Nat) (files : List Inp) (H : Hidden)
    (gp : List (Bool × Bool)) (bo : Option Nat) (h : bo.isSome = H.baseOwner.isSome) :
    load v W sem k files (sw gp bo H) = ((load v W sem k files H).1, sw gp bo (load v W sem k files H).2) := by
  unfold load
  cases hk : W.mms[k]? with
  | none => rfl
  | some m =>
    have hb : (sw gp bo H).blue k = H.blue k := rfl
    rw [hb]
    cases hbk : H.blue k with
    | none => rfl
    | some b =>
      simp only [loadFiles_sw v W sem k m b gp bo files H {} h]
      generalize loadFiles v W sem k m b files H {} = r
      obtain ⟨o, H1, pr1⟩ := r
      have hi : (sw gp bo H1).instr = H1.instr := rfl
      cases o with
      | none => simp only [giveBackAll_sw, hi]
      | some fl => simp only [giveBackAll_sw]

end History
