import TextxVerif.Proofs.RepoFaults
/-!
`lookup` (the model of `ImportURI.__call__`) in terms of the import order of a
file, and what an element target can be.
-/
namespace Repo

theorem lookup_elem (S : Spec) (st : St) (i : Inst) (n : Name) (x : Inst) (k : Name)
    (h : lookup S st i n = some (.elem x k)) :
    k = n ∧ (x = i ∨ ∃ e ∈ st.loc i, e.2 = x) ∧ (st.defsOf x).contains n = true := by
  unfold lookup at h
  split at h
  · rename_i hd
    cases h
    exact ⟨rfl, Or.inl rfl, hd⟩
  · split at h
    · rename_i e he
      cases h
      have hm := List.mem_of_find?_eq_some he
      have hp := List.find?_some he
      exact ⟨rfl, Or.inr ⟨e, hm, rfl⟩, hp⟩
    · split at h
      · cases h
      · cases h

theorem dict_eq_map_keys (d : Dict) (F : File → Inst) (h : ∀ e ∈ d, e.2 = F e.1) :
    d = d.keys.map (fun g => (g, F g)) := by
  induction d with
  | nil => rfl
  | cons e r ih =>
    obtain ⟨g, j⟩ := e
    have h1 : j = F g := h (g, j) List.mem_cons_self
    have h2 := ih (fun e he => h e (List.mem_cons_of_mem _ he))
    simp only [Dict.keys, List.map_cons] at h2 ⊢
    rw [← h2, h1]

/-- the lookup order in terms of the files a model imports, in call order:
the model itself, the first imported file defining the name, the builtin models -/
def lookupSpec (S : Spec) (st : St) (m : Inst) (n : Name) : Option Target :=
  if (st.defsOf m).contains n then some (.elem m n)
  else match (callFiles S (st.fileOf m)).find? (fun g => (st.defsOf ((st.all.get? g).getD 0)).contains n) with
    | some g => some (.elem ((st.all.get? g).getD 0) n)
    | none => match S.builtins.findIdx? (·.contains n) with
      | some k => some (.builtin k n)
      | none => none

theorem lookup_eq_spec (S : Spec) (st : St) (m : Inst) (n : Name) (hloc : ∀ e ∈ st.loc m, e ∈ st.all)
    (hn : st.all.keys.Nodup) (hd : LocDone S st m) : lookup S st m n = lookupSpec S st m n := by
  unfold lookup lookupSpec
  split
  · rfl
  · have hF : ∀ e ∈ st.loc m, e.2 = (st.all.get? e.1).getD 0 := fun e he => by
      have := Dict.get?_of_mem st.all e.1 e.2 hn (hloc e he)
      rw [this]; rfl
    have hmap := dict_eq_map_keys (st.loc m) (fun g => (st.all.get? g).getD 0) hF
    have hfind : (st.loc m).find? (fun e => (st.defsOf e.2).contains n) =
        ((callFiles S (st.fileOf m)).find? (fun g => (st.defsOf ((st.all.get? g).getD 0)).contains n)).map
          (fun g => (g, (st.all.get? g).getD 0)) := by
      rw [hmap, List.find?_map]
      unfold LocDone at hd
      rw [hd, addKeys_find?]
      simp only [List.nil_append]
      rfl
    rw [hfind]
    cases (callFiles S (st.fileOf m)).find? (fun g => (st.defsOf ((st.all.get? g).getD 0)).contains n) with
    | some g => rfl
    | none => rfl

end Repo
