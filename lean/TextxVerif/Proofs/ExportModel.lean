import TextxVerif.Proofs.DotDoc
import TextxVerif.Proofs.DotRecord
/-! Invariants of the `_export` recursion of `model_export_to_file`: every statement it
writes has safe strings; it writes exactly one node per processed object; every edge
target and every object referenced by an exported object gets its node. -/
namespace Dot

/-! ### well-formed input: names are identifiers-like (safe), numbers print safely -/

def PrimOk : Prim → Prop
  | .str _ => True
  | .lit ty t => Safe ty ∧ Safe t

def ItemOk : Item → Prop
  | .prim p => PrimOk p
  | _ => True

def ValOk : Val → Prop
  | .one p => PrimOk p
  | .many xs => ∀ x ∈ xs, ItemOk x
  | _ => True

def AttrOk (a : AttrV) : Prop := Safe a.name ∧ ValOk a.val

def ObjOk (o : Obj) : Prop := Safe o.cls ∧ ∀ as, o.attrs = some as → ∀ a ∈ as, AttrOk a

def HeapOk (h : Heap) : Prop := ∀ o ∈ h, ObjOk o

/-! ### what a statement list declares -/

def Stmt.nodeId? : Stmt → Option Nat
  | .node _ i _ _ => some i
  | _ => none

def Stmt.target? : Stmt → Option Nat
  | .edgeObj _ d _ _ => some d
  | _ => none

def nodeIds (l : List Stmt) : List Nat := l.filterMap Stmt.nodeId?
def edgeTargets (l : List Stmt) : List Nat := l.filterMap Stmt.target?

@[simp] theorem nodeIds_append (a b : List Stmt) : nodeIds (a ++ b) = nodeIds a ++ nodeIds b := by
  simp [nodeIds]
@[simp] theorem edgeTargets_append (a b : List Stmt) : edgeTargets (a ++ b) = edgeTargets a ++ edgeTargets b := by
  simp [edgeTargets]

def Item.refs : Item → List Nat
  | .obj t => [t]
  | _ => []

def Val.refs : Val → List Nat
  | .ref t => [t]
  | .many xs => xs.flatMap Item.refs
  | _ => []

/-- the objects an object refers to through its attributes (contained or referenced) -/
def Obj.refs (o : Obj) : List Nat :=
  match o.attrs with
  | none => []
  | some as => as.flatMap (fun a => a.val.refs)

/-! ### safety of the label pieces -/

theorem safe_digits (n : Nat) : Safe (digits n) := by
  have h := digits_isDigit n
  generalize digits n = l at h
  induction l with
  | nil => exact Safe.nil
  | cons c cs ih =>
    refine Safe.cons ?_ (ih (fun x hx => h x (by simp [hx])))
    have hc := h c (by simp)
    have h1 : c ≠ '\\' := by intro e; rw [e] at hc; revert hc; decide
    have h2 : isSpecial c = false := by
      simp only [isSpecial, Bool.or_eq_false_iff, decide_eq_false_iff_not]
      refine ⟨⟨⟨⟨⟨?_, ?_⟩, ?_⟩, ?_⟩, ?_⟩, ?_⟩ <;> (intro e; rw [e] at hc; revert hc; decide)
    simp [Safe, scan, h1, h2]

theorem Prim.ty_safe {p : Prim} (h : PrimOk p) : Safe p.ty := by
  cases p with
  | str s => show Safe cl!"str"; decide
  | lit ty t => exact h.1

theorem Prim.repr_safe {p : Prim} (h : PrimOk p) : Safe p.repr := by
  cases p with
  | str s => exact dotRepr_safe s
  | lit ty t => exact h.2

theorem Prim.nameText_safe {p : Prim} (h : PrimOk p) : Safe p.nameText := by
  cases p with
  | str s => exact dotEscape_safe s
  | lit ty t => exact h.2

theorem Prim.nodeText_safe {p : Prim} (h : PrimOk p) : Safe p.nodeText := by
  unfold Prim.nodeText
  exact Safe.append (dotEscape_safe _) (Safe.cons (by decide) (Prim.ty_safe h))

theorem Item.repr_safe {x : Item} (h : ItemOk x) : Safe x.repr := by
  cases x with
  | none => exact Safe.nil
  | prim p => exact Prim.repr_safe h
  | obj t => exact Safe.nil

theorem join_safe {sep : Str} (hs : Safe sep) {l : List Str} (h : ∀ x ∈ l, Safe x) : Safe (join sep l) := by
  induction l with
  | nil => exact Safe.nil
  | cons x xs ih =>
    cases xs with
    | nil => simpa [join] using h x (by simp)
    | cons y r =>
      simp only [join]
      exact Safe.append (Safe.append (h x (by simp)) hs) (ih (fun z hz => h z (by simp [hz])))

theorem reqMark_safe (r : Bool) : Safe (reqMark r) := by cases r <;> decide

theorem label_idx_safe {an : Str} (h : Safe an) (idx : Nat) : Safe (an ++ ':' :: digits idx) :=
  Safe.append h (Safe.cons (by decide) (safe_digits idx))

/-! ### the extension relation between the state before and after a call -/

structure ExtBy (h : Heap) (st st' : ESt) (sfx : List Stmt) : Prop where
  out_eq : st'.out = sfx ++ st.out
  ok : ∀ s ∈ sfx, StmtOk s
  nodup : (nodeIds sfx).Nodup
  fresh : ∀ n ∈ nodeIds sfx, n ∉ st.processed
  proc : ∀ n, n ∈ st'.processed ↔ n ∈ st.processed ∨ n ∈ nodeIds sfx
  targets : ∀ d ∈ edgeTargets sfx, d ∈ st'.processed
  closed : ∀ n ∈ nodeIds sfx, ∀ o, h.get n = some o → ∀ t ∈ o.refs, t ∈ st'.processed

def Ext (h : Heap) (st st' : ESt) : Prop := ∃ sfx, ExtBy h st st' sfx

theorem ExtBy.refl (h : Heap) (st : ESt) : ExtBy h st st [] :=
  ⟨by simp, by simp, by simp [nodeIds], by simp [nodeIds], by simp [nodeIds], by simp [edgeTargets], by simp [nodeIds]⟩

theorem ExtBy.mono {h : Heap} {a b : ESt} {s : List Stmt} (e : ExtBy h a b s) : ∀ n ∈ a.processed, n ∈ b.processed :=
  fun n hn => (e.proc n).mpr (Or.inl hn)

theorem ExtBy.trans {h : Heap} {a b c : ESt} {s1 s2 : List Stmt} (e1 : ExtBy h a b s1) (e2 : ExtBy h b c s2) :
    ExtBy h a c (s2 ++ s1) where
  out_eq := by rw [e2.out_eq, e1.out_eq, List.append_assoc]
  ok := by
    intro s hs
    rcases List.mem_append.mp hs with hs | hs
    · exact e2.ok s hs
    · exact e1.ok s hs
  nodup := by
    rw [nodeIds_append, List.nodup_append]
    refine ⟨e2.nodup, e1.nodup, ?_⟩
    intro x hx y hy hxy
    subst hxy
    exact e2.fresh x hx ((e1.proc x).mpr (Or.inr hy))
  fresh := by
    intro n hn
    rw [nodeIds_append, List.mem_append] at hn
    rcases hn with hn | hn
    · exact fun hp => e2.fresh n hn (e1.mono n hp)
    · exact e1.fresh n hn
  proc := by
    intro n
    rw [e2.proc, e1.proc, nodeIds_append, List.mem_append]
    constructor
    · rintro ((h1 | h1) | h1)
      · exact Or.inl h1
      · exact Or.inr (Or.inr h1)
      · exact Or.inr (Or.inl h1)
    · rintro (h1 | h1 | h1)
      · exact Or.inl (Or.inl h1)
      · exact Or.inr h1
      · exact Or.inl (Or.inr h1)
  targets := by
    intro d hd
    rw [edgeTargets_append, List.mem_append] at hd
    rcases hd with hd | hd
    · exact e2.targets d hd
    · exact e2.mono d (e1.targets d hd)
  closed := by
    intro n hn o ho t ht
    rw [nodeIds_append, List.mem_append] at hn
    rcases hn with hn | hn
    · exact e2.closed n hn o ho t ht
    · exact e2.mono t (e1.closed n hn o ho t ht)

/-- emitting a statement that is neither a node nor an object edge -/
theorem ExtBy.emit_plain (h : Heap) (st : ESt) (e : Stmt) (hok : StmtOk e) (h1 : e.nodeId? = none)
    (h2 : e.target? = none) : ExtBy h st (st.emit e) [e] :=
  ⟨by simp [ESt.emit], by simpa using hok, by simp [nodeIds, h1], by simp [nodeIds, h1],
   by simp [ESt.emit, nodeIds, h1], by simp [edgeTargets, h2], by simp [nodeIds, h1]⟩

/-- emitting an object edge and exporting its target -/
theorem ExtBy.emit_edge {h : Heap} {st st' : ESt} {s : List Stmt} (src t : Nat) (l : Str) (c : Bool)
    (hl : Safe l) (e : ExtBy h (st.emit (.edgeObj src t l c)) st' s) (ht : t ∈ st'.processed) :
    ExtBy h st st' (s ++ [.edgeObj src t l c]) where
  out_eq := by rw [e.out_eq]; simp [ESt.emit]
  ok := by
    intro x hx
    rcases List.mem_append.mp hx with hx | hx
    · exact e.ok x hx
    · simp only [List.mem_singleton] at hx; subst hx; exact hl
  nodup := by
    have h0 : nodeIds [Stmt.edgeObj src t l c] = [] := rfl
    rw [nodeIds_append, h0, List.append_nil]; exact e.nodup
  fresh := by
    intro n hn
    have h0 : nodeIds [Stmt.edgeObj src t l c] = [] := rfl
    rw [nodeIds_append, h0, List.append_nil] at hn
    simpa [ESt.emit] using e.fresh n hn
  proc := by
    intro n
    have h0 : nodeIds [Stmt.edgeObj src t l c] = [] := rfl
    rw [e.proc, nodeIds_append, h0, List.append_nil]
    simp [ESt.emit]
  targets := by
    intro d hd
    rw [edgeTargets_append, List.mem_append] at hd
    rcases hd with hd | hd
    · exact e.targets d hd
    · simp only [edgeTargets, List.filterMap_cons, Stmt.target?, List.filterMap_nil, List.mem_singleton] at hd
      subst hd; exact ht
  closed := by
    intro n hn
    have h0 : nodeIds [Stmt.edgeObj src t l c] = [] := rfl
    rw [nodeIds_append, h0, List.append_nil] at hn
    exact e.closed n hn

/-- marking `i` processed, running the attribute loop, writing the node of `i` -/
theorem ExtBy.emit_node {h : Heap} {st st2 : ESt} {s : List Stmt} (i : Nat) (n a : Str) (o : Obj)
    (hi : i ∉ st.processed) (e : ExtBy h { st with processed := i :: st.processed } st2 s)
    (ho : h.get i = some o) (hr : ∀ t ∈ o.refs, t ∈ st2.processed) (hn : Safe n) (ha : Safe a) :
    ExtBy h st (st2.emit (.node false i n a)) (.node false i n a :: s) where
  out_eq := by simp [ESt.emit, e.out_eq]
  ok := by
    intro x hx
    rcases List.mem_cons.mp hx with hx | hx
    · subst hx; exact ⟨hn, ha⟩
    · exact e.ok x hx
  nodup := by
    simp only [nodeIds, List.filterMap_cons, Stmt.nodeId?, List.nodup_cons]
    exact ⟨fun hm => e.fresh i hm (by simp), e.nodup⟩
  fresh := by
    intro m hm
    simp only [nodeIds, List.filterMap_cons, Stmt.nodeId?, List.mem_cons] at hm
    rcases hm with hm | hm
    · subst hm; exact hi
    · exact fun hp => e.fresh m hm (by simp [hp])
  proc := by
    intro m
    simp only [ESt.emit, nodeIds, List.filterMap_cons, Stmt.nodeId?, List.mem_cons]
    rw [e.proc]
    simp only [List.mem_cons, nodeIds]
    constructor
    · rintro ((h1 | h1) | h1)
      · exact Or.inr (Or.inl h1)
      · exact Or.inl h1
      · exact Or.inr (Or.inr h1)
    · rintro (h1 | h1 | h1)
      · exact Or.inl (Or.inr h1)
      · exact Or.inl (Or.inl h1)
      · exact Or.inr h1
  targets := by
    intro d hd
    have : d ∈ edgeTargets s := by simpa [edgeTargets, Stmt.target?] using hd
    simpa [ESt.emit] using e.targets d this
  closed := by
    intro m hm o' ho' t ht
    simp only [nodeIds, List.filterMap_cons, Stmt.nodeId?, List.mem_cons] at hm
    simp only [ESt.emit]
    rcases hm with hm | hm
    · subst hm
      rw [ho] at ho'
      cases ho'
      exact hr t ht
    · exact e.closed m hm o' ho' t ht

/-! ### the three loops -/

/-- what a call `rec st t` guarantees -/
def CallOk (h : Heap) (rec : ESt → Nat → Option ESt) : Prop :=
  ∀ st t st', rec st t = some st' → Ext h st st' ∧ t ∈ st'.processed

theorem exportItems_ext {h : Heap} {rec : ESt → Nat → Option ESt} (hrec : CallOk h rec) (src : Nat) {an : Str}
    (han : Safe an) (c : Bool) (idx : Nat) (its : List Item) (st st' : ESt) (hok : ∀ x ∈ its, ItemOk x)
    (he : exportItems rec src an c idx its st = some st') :
    Ext h st st' ∧ ∀ t ∈ its.flatMap Item.refs, t ∈ st'.processed := by
  induction its generalizing idx st with
  | nil =>
    simp only [exportItems, Option.some.injEq] at he
    subst he
    exact ⟨⟨[], ExtBy.refl h st⟩, by simp⟩
  | cons x xs ih =>
    have hxs : ∀ y ∈ xs, ItemOk y := fun y hy => hok y (by simp [hy])
    cases x with
    | none =>
      simp only [exportItems] at he
      obtain ⟨e, hr⟩ := ih (idx + 1) st hxs he
      exact ⟨e, by simpa [Item.refs] using hr⟩
    | prim p =>
      simp only [exportItems] at he
      obtain ⟨⟨s, e⟩, hr⟩ := ih (idx + 1) _ hxs he
      have hp : PrimOk p := hok (.prim p) (by simp)
      have e0 := ExtBy.emit_plain h st (.edgePrim src p.nodeText (an ++ ':' :: digits idx) c)
        ⟨Prim.nodeText_safe hp, label_idx_safe han idx⟩ rfl rfl
      exact ⟨⟨_, e0.trans e⟩, by simpa [Item.refs] using hr⟩
    | obj t =>
      simp only [exportItems] at he
      cases hc : rec (st.emit (.edgeObj src t (an ++ ':' :: digits idx) c)) t with
      | none => simp [hc] at he
      | some st1 =>
        simp only [hc] at he
        obtain ⟨⟨s1, e1⟩, ht⟩ := hrec _ _ _ hc
        obtain ⟨⟨s2, e2⟩, hr⟩ := ih (idx + 1) st1 hxs he
        have e0 := ExtBy.emit_edge src t _ c (label_idx_safe han idx) e1 ht
        refine ⟨⟨_, e0.trans e2⟩, ?_⟩
        intro u hu
        simp only [List.flatMap_cons, Item.refs, List.singleton_append, List.mem_cons] at hu
        rcases hu with hu | hu
        · subst hu; exact e2.mono _ ht
        · exact hr u hu

theorem exportAttrs_ext {h : Heap} {rec : ESt → Nat → Option ESt} (hrec : CallOk h rec) (src : Nat)
    (as : List AttrV) (nm tx nm' tx' : Str) (st st' : ESt) (hok : ∀ a ∈ as, AttrOk a) (hnm : Safe nm) (htx : Safe tx)
    (he : exportAttrs rec src as (nm, tx) st = some ((nm', tx'), st')) :
    Ext h st st' ∧ Safe nm' ∧ Safe tx' ∧ ∀ t ∈ as.flatMap (fun a => a.val.refs), t ∈ st'.processed := by
  induction as generalizing nm tx st with
  | nil =>
    simp only [exportAttrs, Option.some.injEq, Prod.mk.injEq] at he
    obtain ⟨⟨rfl, rfl⟩, rfl⟩ := he
    exact ⟨⟨[], ExtBy.refl h st⟩, hnm, htx, by simp⟩
  | cons a as ih =>
    have has : ∀ b ∈ as, AttrOk b := fun b hb => hok b (by simp [hb])
    obtain ⟨han, hav⟩ := hok a (by simp)
    simp only [exportAttrs] at he
    cases hv : a.val with
    | none =>
      simp only [hv] at he
      obtain ⟨e, h1, h2, hr⟩ := ih nm tx st has hnm htx he
      exact ⟨e, h1, h2, by simpa [hv, Val.refs] using hr⟩
    | many xs =>
      simp only [hv] at he
      have hxs : ∀ x ∈ xs, ItemOk x := by simpa [hv, ValOk] using hav
      split at he
      · rename_i hall
        have hsafe : Safe (tx ++ reqMark a.req ++ a.name ++ cl!":list=[" ++ join [','] (xs.map Item.repr) ++ cl!"]\\l") := by
          refine Safe.append (Safe.append (Safe.append (Safe.append (Safe.append htx (reqMark_safe _)) han) (by decide)) ?_) (by decide)
          exact join_safe (by decide) (by
            intro y hy
            obtain ⟨x, hx, rfl⟩ := List.mem_map.mp hy
            exact Item.repr_safe (hxs x hx))
        obtain ⟨e, h1, h2, hr⟩ := ih nm _ st has hnm hsafe he
        refine ⟨e, h1, h2, ?_⟩
        have hnone : xs.flatMap Item.refs = [] := by
          rw [List.flatMap_eq_nil_iff]
          intro x hx
          have := List.all_eq_true.mp hall x hx
          cases x <;> simp_all [Item.isPrim, Item.refs]
        simpa [hv, Val.refs, hnone] using hr
      · cases hi : exportItems rec src a.name a.cont 0 xs st with
        | none => simp [hi] at he
        | some st1 =>
          simp only [hi] at he
          obtain ⟨⟨s1, e1⟩, hr1⟩ := exportItems_ext hrec src han a.cont 0 xs st st1 hxs hi
          obtain ⟨⟨s2, e2⟩, h1, h2, hr⟩ := ih nm tx st1 has hnm htx he
          refine ⟨⟨_, e1.trans e2⟩, h1, h2, ?_⟩
          intro t ht
          simp only [List.flatMap_cons, hv, Val.refs, List.mem_append] at ht
          rcases ht with ht | ht
          · exact e2.mono t (hr1 t ht)
          · exact hr t ht
    | one p =>
      simp only [hv] at he
      have hp : PrimOk p := by simpa [hv, ValOk] using hav
      split at he
      · obtain ⟨e, h1, h2, hr⟩ := ih _ tx st has (Prim.nameText_safe hp) htx he
        exact ⟨e, h1, h2, by simpa [hv, Val.refs] using hr⟩
      · have hsafe : Safe (tx ++ reqMark a.req ++ a.name ++ ':' :: p.ty ++ '=' :: p.repr ++ cl!"\\l") := by
          have e : tx ++ reqMark a.req ++ a.name ++ ':' :: p.ty ++ '=' :: p.repr ++ cl!"\\l" =
              tx ++ reqMark a.req ++ a.name ++ ([':'] ++ p.ty) ++ (['='] ++ p.repr) ++ cl!"\\l" := by simp
          rw [e]
          exact Safe.append (Safe.append (Safe.append (Safe.append (Safe.append htx (reqMark_safe _)) han)
            (Safe.append (by decide) (Prim.ty_safe hp))) (Safe.append (by decide) (Prim.repr_safe hp))) (by decide)
        obtain ⟨e, h1, h2, hr⟩ := ih nm _ st has hnm hsafe he
        exact ⟨e, h1, h2, by simpa [hv, Val.refs] using hr⟩
    | ref t =>
      simp only [hv] at he
      cases hc : rec (st.emit (.edgeObj src t a.name a.cont)) t with
      | none => simp [hc] at he
      | some st1 =>
        simp only [hc] at he
        obtain ⟨⟨s1, e1⟩, ht⟩ := hrec _ _ _ hc
        obtain ⟨⟨s2, e2⟩, h1, h2, hr⟩ := ih nm tx st1 has hnm htx he
        have e0 := ExtBy.emit_edge src t _ a.cont han e1 ht
        refine ⟨⟨_, e0.trans e2⟩, h1, h2, ?_⟩
        intro u hu
        simp only [List.flatMap_cons, hv, Val.refs, List.singleton_append, List.mem_cons] at hu
        rcases hu with hu | hu
        · subst hu; exact e2.mono _ ht
        · exact hr u hu

theorem Heap.get_mem {h : Heap} {i : Nat} {o : Obj} (hg : h.get i = some o) : o ∈ h ∧ o.id = i := by
  unfold Heap.get at hg
  have := List.find?_some hg
  exact ⟨List.mem_of_find?_eq_some hg, by simpa using this⟩

theorem exportObj_ext (h : Heap) (hh : HeapOk h) (fuel : Nat) : CallOk h (exportObj h fuel) := by
  induction fuel with
  | zero => intro st t st' he; simp [exportObj] at he
  | succ fuel ih =>
    intro st i st' he
    simp only [exportObj] at he
    split at he
    · rename_i hin
      simp only [Option.some.injEq] at he; subst he
      exact ⟨⟨[], ExtBy.refl h st⟩, hin⟩
    · rename_i hin
      cases ho : h.get i with
      | none => simp [ho] at he
      | some o =>
        simp only [ho] at he
        obtain ⟨hmem, _⟩ := Heap.get_mem ho
        obtain ⟨hcls, hattrs⟩ := hh o hmem
        have hname0 : Safe (':' :: o.cls) := Safe.cons (by decide) hcls
        cases hat : o.attrs with
        | none =>
          simp only [hat, Option.some.injEq] at he
          subst he
          have e1 : ExtBy h { st with processed := i :: st.processed } { st with processed := i :: st.processed } [] :=
            ExtBy.refl h _
          have hr : ∀ t ∈ o.refs, t ∈ ({ st with processed := i :: st.processed } : ESt).processed := by
            simp [Obj.refs, hat]
          have := ExtBy.emit_node i (':' :: o.cls) [] o hin e1 ho hr hname0 Safe.nil
          exact ⟨⟨_, this⟩, by simp [ESt.emit]⟩
        | some as =>
          simp only [hat] at he
          cases ha : exportAttrs (exportObj h fuel) i as ([], []) { st with processed := i :: st.processed } with
          | none => simp [ha] at he
          | some r =>
            obtain ⟨⟨nm, tx⟩, st2⟩ := r
            simp only [ha, Option.some.injEq] at he
            subst he
            obtain ⟨⟨s, e⟩, hnm, htx, hr⟩ :=
              exportAttrs_ext ih i as [] [] nm tx _ st2 (hattrs as hat) Safe.nil Safe.nil ha
            have hr' : ∀ t ∈ o.refs, t ∈ st2.processed := by simpa [Obj.refs, hat] using hr
            have := ExtBy.emit_node i (nm ++ ':' :: o.cls) tx o hin e ho hr' (Safe.append hnm hname0) htx
            refine ⟨⟨_, this⟩, ?_⟩
            simp only [ESt.emit]
            exact e.mono i (by simp)

def Root.id : Root → Nat
  | .plain i => i
  | .sub _ _ i => i

theorem exportRoots_ext (h : Heap) (hh : HeapOk h) (fuel : Nat) (roots : List Root) (st st' : ESt)
    (he : exportRoots h fuel roots st = some st') :
    Ext h st st' ∧ ∀ r ∈ roots, r.id ∈ st'.processed := by
  induction roots generalizing st with
  | nil =>
    simp only [exportRoots, Option.some.injEq] at he; subst he
    exact ⟨⟨[], ExtBy.refl h st⟩, by simp⟩
  | cons r rs ih =>
    cases r with
    | plain i =>
      simp only [exportRoots] at he
      cases hc : exportObj h fuel st i with
      | none => simp [hc] at he
      | some st1 =>
        simp only [hc] at he
        obtain ⟨⟨s1, e1⟩, hi⟩ := exportObj_ext h hh fuel _ _ _ hc
        obtain ⟨⟨s2, e2⟩, hr⟩ := ih st1 he
        refine ⟨⟨_, e1.trans e2⟩, ?_⟩
        intro r hr'
        rcases List.mem_cons.mp hr' with rfl | hr'
        · exact e2.mono _ hi
        · exact hr r hr'
    | sub f ks i =>
      simp only [exportRoots] at he
      cases hc : exportObj h fuel (st.emit (.cluster (dotEscape f) ks)) i with
      | none => simp [hc] at he
      | some st1 =>
        simp only [hc] at he
        have e0 := ExtBy.emit_plain h st (.cluster (dotEscape f) ks) (dotEscape_safe f) rfl rfl
        obtain ⟨⟨s1, e1⟩, hi⟩ := exportObj_ext h hh fuel _ _ _ hc
        obtain ⟨⟨s2, e2⟩, hr⟩ := ih st1 he
        refine ⟨⟨_, (e0.trans e1).trans e2⟩, ?_⟩
        intro r hr'
        rcases List.mem_cons.mp hr' with rfl | hr'
        · exact e2.mono _ hi
        · exact hr r hr'

end Dot
