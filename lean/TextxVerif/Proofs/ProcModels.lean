import TextxVerif.Proofs.ProcWalk

/-! Loads whose models belong to several metamodels (`Proc.finishMM`): the processor
calls on one model are those of the walk with that model's own metamodel, whatever
the metamodels of the other models of the load register (also: nothing at all). -/

namespace Proc

/-- the processor calls of model `k` in an event sequence, as (rule, object) -/
def callsOfModel (k : Nat) (evs : List Ev) : List (Nat × Nat) :=
  evs.filterMap (fun e => match e with
    | .proc m r i => if m = k then some (r, i) else none
    | _ => none)

theorem callsOfModel_append (k : Nat) (a b : List Ev) :
    callsOfModel k (a ++ b) = callsOfModel k a ++ callsOfModel k b := by
  simp [callsOfModel, List.filterMap_append]

theorem callsOfModel_not_proc (k : Nat) (evs : List Ev) (h : ∀ e ∈ evs, e.isProc = false) :
    callsOfModel k evs = [] := by
  unfold callsOfModel
  rw [List.filterMap_eq_nil_iff]
  intro e he
  have := h e he
  cases e <;> simp_all [Ev.isProc]

theorem callsOfModel_procEvents_same (M : MM) (S : Script) (k : Nat) (v : Val) :
    callsOfModel k (procEvents M S k v) = (walk M S v v.cls).log.map Entry.key := by
  unfold callsOfModel procEvents
  rw [List.filterMap_map]
  generalize (walk M S v v.cls).log = l
  induction l with
  | nil => rfl
  | cons e l ih => simp [Entry.key, ih]

theorem callsOfModel_procEvents_other (M : MM) (S : Script) (k j : Nat) (v : Val) (h : j ≠ k) :
    callsOfModel k (procEvents M S j v) = [] := by
  unfold callsOfModel procEvents
  rw [List.filterMap_eq_nil_iff]
  intro e he
  obtain ⟨o, _, rfl⟩ := List.mem_map.1 he
  simp [h]

/-- in the walk of the models numbered `j, j+1, …` the calls of model `k` are the walk of the
`k-j`-th model with its own metamodel (none when there is no such model) -/
theorem callsOfModel_procsFromMM (S : Script) (k : Nat) : ∀ (vs : List (MM × Val)) (j : Nat),
    callsOfModel k (procsFromMM S j vs) =
      if j ≤ k then
        match vs[k - j]? with
        | some (M, v) => (walk M S v v.cls).log.map Entry.key
        | none => []
      else []
  | [], j => by
      simp [procsFromMM, callsOfModel]
  | mv :: vs, j => by
      rw [procsFromMM, callsOfModel_append, callsOfModel_procsFromMM S k vs (j + 1)]
      by_cases hjk : j = k
      · subst hjk
        rw [callsOfModel_procEvents_same]
        have h1 : ¬ (j + 1 ≤ j) := by omega
        simp [h1]
      · rw [callsOfModel_procEvents_other mv.1 S k j mv.2 hjk]
        by_cases hle : j ≤ k
        · have h1 : j + 1 ≤ k := by omega
          have h2 : k - j = (k - (j + 1)) + 1 := by omega
          simp only [hle, h1, if_true, List.nil_append]
          rw [h2, List.getElem?_cons_succ]
        · have h1 : ¬ (j + 1 ≤ k) := by omega
          simp [hle, h1]

theorem callsOfModel_finishMM (S : Script) (isUser : Nat → Bool) (resolves : List Nat)
    (models : List (MM × Val)) (k : Nat) :
    callsOfModel k (finishMM S isUser resolves models) =
      match models[k]? with
      | some (M, v) => (walk M S v v.cls).log.map Entry.key
      | none => [] := by
  unfold finishMM
  rw [callsOfModel_append, callsOfModel_append]
  rw [callsOfModel_not_proc k (resolves.map Ev.resolve) (by
        intro e he
        obtain ⟨r, _, rfl⟩ := List.mem_map.1 he
        rfl)]
  rw [callsOfModel_not_proc k _ (fun e he => initsFrom_not_proc isUser _ 0 e he)]
  rw [callsOfModel_procsFromMM S k models 0]
  simp

theorem mem_callsOfModel (k r i : Nat) (evs : List Ev) :
    (r, i) ∈ callsOfModel k evs ↔ Ev.proc k r i ∈ evs := by
  unfold callsOfModel
  rw [List.mem_filterMap]
  constructor
  · rintro ⟨e, he, h⟩
    cases e with
    | resolve _ => simp at h
    | init _ _ => simp at h
    | proc m r' i' =>
      by_cases hm : m = k
      · simp [hm] at h
        obtain ⟨rfl, rfl⟩ := h
        subst hm
        exact he
      · simp [hm] at h
  · intro h
    exact ⟨Ev.proc k r i, h, by simp⟩

end Proc
