import TextxVerif.Proofs.ArpSimAt
import TextxVerif.Proofs.ArpMemo
/-!
# Memoized vs plain parsing under a constant whitespace context (C19)

The development of `ArpMemo` redone for `UniformAt g sk w` (rule modifiers may restate the context
`(sk, w)` the parse runs under) instead of `Uniform g` (no modifiers at all).  The state relations
additionally pin `realWs = w` and `eolterm = false`, which the `ws` setter of the context manager reads.

* `plain_sim_at`  — the plain interpreter respects every closed relation that pins the context;
* `plain_det_at`, `plain_det_nm_at` — position-determinism incl. the failure record;
* `memo_sim_at`   — lock-step simulation of the plain interpreter by the memoizing one.
-/
namespace Peg

/-- what a state must satisfy (besides its position): context `(sk, w)`, not inside comments,
only identity entries in the comment cache, `_real_ws = w`, no `eolterm` in force -/
def Sa (sk : Bool) (w : List Char) (s : PState) : Prop :=
  s.skipws = sk ∧ s.ws = w ∧ s.inComments = false ∧ IdCP s.commentPos ∧ s.realWs = w ∧ s.eolterm = false

/-- states agree on the position and both satisfy `Sa` -/
def Qa (sk : Bool) (w : List Char) (a b : PState) : Prop :=
  a.pos = b.pos ∧ Sa sk w a ∧ Sa sk w b

theorem Sa.nmRaise {sk : Bool} {w : List Char} {s : PState} (h : Sa sk w s) (c : Nat) : Sa sk w (s.nmRaise c) := by
  unfold PState.nmRaise
  split
  · split
    · exact h
    · split
      · exact h
      · exact h
  · exact h

theorem Sa.toQc {sk : Bool} {w : List Char} {a b : PState} (h : Qa sk w a b) : Qc sk w a b :=
  ⟨h.1, h.2.1.1, h.2.2.1, h.2.1.2.1, h.2.2.2.1, h.2.1.2.2.1, h.2.2.2.2.1, h.2.1.2.2.2.1, h.2.2.2.2.2.1⟩

theorem qa_ok (sk : Bool) (w : List Char) : QOKc (Qa sk w) sk w where
  ok := {
    pos := fun h => h.1
    skipws := fun h => h.2.1.1.trans h.2.2.1.symm
    ws := fun h => h.2.1.2.1.trans h.2.2.2.1.symm
    notInC := fun h => ⟨h.2.1.2.2.1, h.2.2.2.2.1⟩
    idcp := fun h => ⟨h.2.1.2.2.2.1, h.2.2.2.2.2.1⟩
    setPos := fun h _ => ⟨rfl, h.2.1, h.2.2⟩
    nmR := fun {a b} h c => ⟨by rw [(nmRaise_frame a c).1, (nmRaise_frame b c).1]; exact h.1, h.2.1.nmRaise c, h.2.2.nmRaise c⟩
    setCP := fun h _ _ hl hl' =>
      ⟨h.1, ⟨h.2.1.1, h.2.1.2.1, h.2.1.2.2.1, hl, h.2.1.2.2.2.2⟩, ⟨h.2.2.1, h.2.2.2.1, h.2.2.2.2.1, hl', h.2.2.2.2.2.2⟩⟩ }
  ctx := fun h => ⟨⟨h.2.1.1, h.2.1.2.1, h.2.1.2.2.2.2.1, h.2.1.2.2.2.2.2⟩, ⟨h.2.2.1, h.2.2.2.1, h.2.2.2.2.2.2.1, h.2.2.2.2.2.2.2⟩⟩

variable {Q : PState → PState → Prop} {sk : Bool} {w : List Char}

theorem nodeParse_plain_sim_at (hQ : QOKc Q sk w) (g : Grammar) (hu : UniformAt g sk w) (hm : g.memo = false)
    {pA pB : SubParser} (h : Sim Q pA pB) (k : Nat) : Sim Q (nodeParse g pA k) (nodeParse g pB k) := by
  intro id sA sB r tA hq h1 hr
  unfold nodeParse at h1 ⊢
  cases hn : g.nodes[id]? with
  | none => simp only [hn] at h1 ⊢; cases h1; exact ⟨sB, rfl, hq⟩
  | some nd =>
    simp only [hn, hm] at h1 ⊢
    obtain ⟨hws, hsk, heol⟩ := hu.ctx id nd hn
    have hmN := matchNode_sim hQ.ok g hu.noComments pA pB k k id nd
    have hwr := wrap_plain_sim hQ.ok id nd (bodyNode_sim_at hQ h k nd hws hsk heol)
    cases hkind : nd.kind <;> simp only [hkind] at h1 ⊢
    all_goals first | exact hmN sA sB r tA hq h1 hr | exact hwr sA sB r tA hq h1 hr

/-- the plain interpreter respects every closed state relation that pins the context to `(sk, w)` -/
theorem plain_sim_at (hQ : QOKc Q sk w) (g : Grammar) (hu : UniformAt g sk w) (hm : g.memo = false) :
    ∀ n, Sim Q (parse g n) (parse g n)
  | 0 => by intro e sA sB r tA _ h1 hr; simp only [parse] at h1; cases h1; exact absurd rfl hr
  | n+1 => by
      intro e sA sB r tA hq h1 hr
      simp only [parse] at h1 ⊢
      exact nodeParse_plain_sim_at hQ g hu hm (plain_sim_at hQ g hu hm n) n e sA sB r tA hq h1 hr

/-- **Position-determinism of the plain parser** under a constant context -/
theorem plain_det_at (g : Grammar) (hu : UniformAt g sk w) (hm : g.memo = false)
    {n m e : Nat} {s s' t t' : PState} {r r' : Res} (hq : Qa sk w s s')
    (h1 : parse g n e s = (r, t)) (hr : r ≠ .fuel) (h2 : parse g m e s' = (r', t')) (hr' : r' ≠ .fuel) :
    r = r' ∧ Qa sk w t t' := by
  have h1' := parse_le g (Nat.le_max_left n m) e s r t h1 hr
  have h2' := parse_le g (Nat.le_max_right n m) e s' r' t' h2 hr'
  obtain ⟨t'', h3, hq'⟩ := plain_sim_at (qa_ok sk w) g hu hm (max n m) e s s' r t hq h1' hr
  rw [h2'] at h3
  cases h3
  exact ⟨rfl, hq'⟩

/-- `Qa` plus: both failure records are "the initial one joined with the same increment" -/
def Qna (sk : Bool) (w : List Char) (a0 b0 : Nat) (a b : PState) : Prop :=
  Qa sk w a b ∧ ∃ F, nmv a.nm = max a0 F ∧ nmv b.nm = max b0 F

theorem qna_ok (sk : Bool) (w : List Char) (a0 b0 : Nat) : QOKc (Qna sk w a0 b0) sk w where
  ok := {
    pos := fun h => (qa_ok sk w).ok.pos h.1
    skipws := fun h => (qa_ok sk w).ok.skipws h.1
    ws := fun h => (qa_ok sk w).ok.ws h.1
    notInC := fun h => (qa_ok sk w).ok.notInC h.1
    idcp := fun h => (qa_ok sk w).ok.idcp h.1
    setPos := fun h c => ⟨(qa_ok sk w).ok.setPos h.1 c, h.2⟩
    nmR := fun {a b} h c => by
      refine ⟨(qa_ok sk w).ok.nmR h.1 c, ?_⟩
      obtain ⟨F, h1, h2⟩ := h.2
      refine ⟨max F (c + 1), ?_, ?_⟩
      · rw [nmRaise_nmv a c h.1.2.1.2.2.1, h1]; omega
      · rw [nmRaise_nmv b c h.1.2.2.2.2.1, h2]; omega
    setCP := fun h l l' hl hl' => ⟨(qa_ok sk w).ok.setCP h.1 l l' hl hl', h.2⟩ }
  ctx := fun h => (qa_ok sk w).ctx h.1

/-- two finished plain runs from the same position raise the failure record by the same increment -/
theorem plain_det_nm_at (g : Grammar) (hu : UniformAt g sk w) (hm : g.memo = false)
    {n m e : Nat} {s s' t t' : PState} {r r' : Res} (hq : Qa sk w s s')
    (h1 : parse g n e s = (r, t)) (hr : r ≠ .fuel) (h2 : parse g m e s' = (r', t')) (hr' : r' ≠ .fuel) :
    ∃ F, nmv t.nm = max (nmv s.nm) F ∧ nmv t'.nm = max (nmv s'.nm) F := by
  have h1' := parse_le g (Nat.le_max_left n m) e s r t h1 hr
  have h2' := parse_le g (Nat.le_max_right n m) e s' r' t' h2 hr'
  have hq0 : Qna sk w (nmv s.nm) (nmv s'.nm) s s' := ⟨hq, 0, by omega, by omega⟩
  obtain ⟨t'', h3, hq'⟩ := plain_sim_at (qna_ok sk w _ _) g hu hm (max n m) e s s' r t hq0 h1' hr
  rw [h2'] at h3
  cases h3
  exact hq'.2

/-! ## the memoizing interpreter -/

/-- every cache entry is the outcome of some finished plain run from its position (in context `(sk, w)`) -/
def CacheValidA (g : Grammar) (sk : Bool) (w : List Char) (bound : Nat)
    (cache : List ((Nat × Nat) × (Option Val × Nat))) : Prop :=
  ∀ i p ro np, ((i, p), (ro, np)) ∈ cache →
    ∃ k u u', Sa sk w u ∧ u.pos = p ∧ parse g k i u = (resOf ro, u') ∧ u'.pos = np ∧ nmv u'.nm ≤ bound

theorem CacheValidA.mono {g : Grammar} {b b' : Nat} {c}
    (h : CacheValidA g sk w b c) (hb : b ≤ b') : CacheValidA g sk w b' c := by
  intro i p ro np hm
  obtain ⟨k, u, u', h1, h2, h3, h4, h5⟩ := h i p ro np hm
  exact ⟨k, u, u', h1, h2, h3, h4, Nat.le_trans h5 hb⟩

/-- plain state vs memoizing state -/
def QmA (g : Grammar) (sk : Bool) (w : List Char) (sP sM : PState) : Prop :=
  Qa sk w sP sM ∧ sP.nm = sM.nm ∧ CacheValidA g sk w (nmv sM.nm) sM.cache

theorem qmA_ok (g : Grammar) (sk : Bool) (w : List Char) : QOKc (QmA g sk w) sk w where
  ok := {
    pos := fun h => (qa_ok sk w).ok.pos h.1
    skipws := fun h => (qa_ok sk w).ok.skipws h.1
    ws := fun h => (qa_ok sk w).ok.ws h.1
    notInC := fun h => (qa_ok sk w).ok.notInC h.1
    idcp := fun h => (qa_ok sk w).ok.idcp h.1
    setPos := fun h c => ⟨(qa_ok sk w).ok.setPos h.1 c, h.2⟩
    nmR := fun {a b} h c => by
      have hia := h.1.2.1.2.2.1
      have hib := h.1.2.2.2.2.1
      have e : (a.nmRaise c).nm = (b.nmRaise c).nm := by
        apply nmv_inj; rw [nmRaise_nmv a c hia, nmRaise_nmv b c hib, h.2.1]
      refine ⟨(qa_ok sk w).ok.nmR h.1 c, e, ?_⟩
      rw [(nmRaise_frame b c).2.2.2.2.2]
      exact h.2.2.mono (by rw [nmRaise_nmv b c hib]; omega)
    setCP := fun h l l' hl hl' => ⟨(qa_ok sk w).ok.setCP h.1 l l' hl hl', h.2⟩ }
  ctx := fun h => (qa_ok sk w).ctx h.1

theorem memo_step_at (g : Grammar) (hu : UniformAt g sk w) (hm : g.memo = false) (n : Nat)
    (ih : Sim (QmA g sk w) (parse g n) (parse (g.withMemo true) n)) :
    Sim (QmA g sk w) (parse g (n+1)) (parse (g.withMemo true) (n+1)) := by
  intro id sP sM r tP hq h1 hr
  have h1full := h1
  have hQ := qmA_ok g sk w
  simp only [parse] at h1 ⊢
  unfold nodeParse at h1 ⊢
  have hnodes : (g.withMemo true).nodes = g.nodes := rfl
  have hmemo : (g.withMemo true).memo = true := rfl
  rw [hnodes, hmemo]
  cases hn : g.nodes[id]? with
  | none => simp only [hn] at h1 ⊢; cases h1; exact ⟨sM, rfl, hq⟩
  | some nd =>
    simp only [hn, hm] at h1 ⊢
    obtain ⟨hws, hsk, heol⟩ := hu.ctx id nd hn
    have hmN : ∀ r tP, matchNode g (commentsLoop g (parse g n) n) id nd sP = (r, tP) → r ≠ .fuel →
        ∃ tM, matchNode (g.withMemo true) (commentsLoop (g.withMemo true) (parse (g.withMemo true) n) n) id nd sM
          = (r, tM) ∧ QmA g sk w tP tM := by
      intro r tP h1 hr
      rw [matchNode_withMemo g hu.noComments true _ (parse (g.withMemo true) n) n n]
      exact matchNode_sim hQ.ok g hu.noComments (parse g n) (parse (g.withMemo true) n) n n id nd sP sM r tP hq h1 hr
    have hbody := bodyNode_sim_at hQ ih n nd hws hsk heol
    have hwr : ∀ r tP, wrap false id nd (bodyNode (parse g n) n nd) sP = (r, tP) → r ≠ .fuel →
        parse g (n+1) id sP = (r, tP) →
        ∃ tM, wrap true id nd (bodyNode (parse (g.withMemo true) n) n nd) sM = (r, tM) ∧ QmA g sk w tP tM := by
      intro r tP h1 hr hfull
      unfold wrap at h1 ⊢
      have hposPM : sP.pos = sM.pos := hq.1.1
      simp only [cacheHit, Bool.false_eq_true, if_false] at h1
      cases hl : lookupCache sM id sM.pos with
      | some x =>
        obtain ⟨ro, np⟩ := x
        obtain ⟨k, u, u', hsu, hup, hrun, hnp, hbound⟩ := hq.2.2 id sM.pos ro np (lookupCache_mem hl)
        have hne : resOf ro ≠ .fuel := by cases ro <;> simp [resOf]
        have hqus : Qa sk w u sP := ⟨hup.trans hposPM.symm, hsu, hq.1.2.1⟩
        obtain ⟨hreq, hqt⟩ := plain_det_at g hu hm hqus hrun hne hfull hr
        obtain ⟨F, hF1, hF2⟩ := plain_det_nm_at g hu hm hqus hrun hne hfull hr
        have hnmP : tP.nm = sM.nm := by
          apply nmv_inj
          rw [hF2, hq.2.1]
          have : F ≤ nmv sM.nm := by omega
          omega
        have hqM : QmA g sk w tP { sM with pos := np } :=
          ⟨⟨hqt.1.symm.trans hnp, hqt.2.2, hq.1.2.2⟩, hnmP, hq.2.2⟩
        cases ro with
        | some v =>
          simp only [cacheHit, if_true, hl]
          simp only [resOf] at hreq
          exact ⟨_, by rw [← hreq], hqM⟩
        | none =>
          simp only [cacheHit, if_true, hl]
          simp only [resOf] at hreq
          exact ⟨_, by rw [← hreq], hqM⟩
      | none =>
        simp only [cacheHit, if_true, hl]
        cases hb : bodyNode (parse g n) n nd sP with | mk r1 s1P =>
        rw [hb] at h1
        have hne : r1 ≠ .fuel := by intro e; subst e; simp only [cacheStore] at h1; cases h1; exact hr rfl
        obtain ⟨s1M, hB, hq1⟩ := hbody sP sM r1 s1P hq hb hne
        rw [hB, ← hposPM]
        rcases r1 with v | _ | _ | _
        · simp only [cacheStore, Bool.false_eq_true, if_false] at h1
          simp only [cacheStore, if_true]
          cases h1
          refine ⟨_, rfl, ⟨?_, hq1.2.1, ?_⟩⟩
          · exact ⟨hq1.1.1, hq1.1.2.1, hq1.1.2.2⟩
          · intro i p ro np hmem
            simp only [List.mem_cons, Prod.mk.injEq] at hmem
            rcases hmem with ⟨⟨rfl, rfl⟩, rfl, rfl⟩ | hmem
            · exact ⟨n+1, sP, _, hq.1.2.1, rfl, hfull, hq1.1.1, by rw [hq1.2.1]; exact Nat.le_refl _⟩
            · exact hq1.2.2 i p ro np hmem
        · simp only [cacheStore, Bool.false_eq_true, if_false] at h1
          simp only [cacheStore, if_true]
          cases h1
          refine ⟨_, rfl, ⟨?_, hq1.2.1, ?_⟩⟩
          · exact ⟨rfl, hq1.1.2.1, hq1.1.2.2⟩
          · intro i p ro np hmem
            simp only [List.mem_cons, Prod.mk.injEq] at hmem
            rcases hmem with ⟨⟨rfl, rfl⟩, rfl, rfl⟩ | hmem
            · exact ⟨n+1, sP, _, hq.1.2.1, rfl, hfull, rfl, by rw [← hq1.2.1]; exact Nat.le_refl _⟩
            · exact hq1.2.2 i p ro np hmem
        · exact absurd rfl hne
        · simp only [cacheStore] at h1 ⊢; cases h1; exact ⟨s1M, rfl, hq1⟩
    cases hkind : nd.kind <;> simp only [hkind] at h1 ⊢
    all_goals first | exact hmN r tP h1 hr | exact hwr r tP h1 hr (by simp only [parse, nodeParse, hn, hm, hkind]; exact h1)

/-- lock-step simulation of the plain parser by the memoizing parser, for parser models whose modifiers
restate the context `(sk, w)` -/
theorem memo_sim_at (g : Grammar) (hu : UniformAt g sk w) (hm : g.memo = false) :
    ∀ n, Sim (QmA g sk w) (parse g n) (parse (g.withMemo true) n)
  | 0 => by intro e sA sB r tA _ h1 hr; simp only [parse] at h1; cases h1; exact absurd rfl hr
  | n+1 => memo_step_at g hu hm n (memo_sim_at g hu hm n)

end Peg
