import TextxVerif.Proofs.ObjBuild
import TextxVerif.Proofs.ObjSpan
/-! Helper lemmas for C06: the spans `process_node` assigns to objects. -/
namespace Obj

/-- (`_tx_position`, `_tx_position_end`) of object `x` -/
def spanOf (h : Heap) (x : Nat) : Option (Nat × Nat) := (h.get x).map fun o => (o.pos, o.posEnd)

/-- `sp` is the span of a common-rule node of the parse tree `root` -/
def ObjSpan (root : PT) (sp : Nat × Nat) : Prop :=
  ∃ cls ks, PT.Sub (.nt (.obj cls) ks) root ∧ sp = ((PT.nt (.obj cls) ks).pos, (PT.nt (.obj cls) ks).posEnd)

/-- span invariant of the heap under construction -/
structure SI (root : PT) (h : Heap) : Prop where
  /-- a contained object lies inside its container -/
  nest : ∀ p c sp sc, c ∈ contIds h p → spanOf h p = some sp → spanOf h c = some sc → sp.1 ≤ sc.1 ∧ sc.2 ≤ sp.2
  /-- two objects contained in the same object: the older one ends before the younger one starts -/
  sib : ∀ p c1 c2 s1 s2, c1 ∈ contIds h p → c2 ∈ contIds h p → c1 < c2 →
    spanOf h c1 = some s1 → spanOf h c2 = some s2 → s1.2 ≤ s2.1
  /-- containment list attributes hold their objects in allocation order -/
  incr : ∀ p o m vs, h.get p = some o → (m, AVal.many vs) ∈ o.attrs → m.cont = true →
    (vs.filterMap Val.objId?).Pairwise (· < ·)
  /-- every object carries the span of the parse-tree node it was created for -/
  exact : ∀ x sp, spanOf h x = some sp → ObjSpan root sp

/-- the nodes about to be processed lie in `[lo, hi]`: inside the object on top of the stack and
after everything that object contains so far -/
structure Pre (s : St) (lo hi : Nat) : Prop where
  within : ∀ top sp, s.stack.head? = some top → spanOf s.heap top = some sp → sp.1 ≤ lo ∧ hi ≤ sp.2
  front : ∀ top c sc, s.stack.head? = some top → c ∈ contIds s.heap top → spanOf s.heap c = some sc → sc.2 ≤ lo

structure Post (root : PT) (s s' : St) (lo hi : Nat) : Prop where
  si : SI root s'.heap
  new : ∀ x sp, s.heap.length ≤ x → spanOf s'.heap x = some sp → lo ≤ sp.1 ∧ sp.2 ≤ hi

theorem spanOf_congr {h h' : Heap} {x : Nat} (hx : h'.get x = h.get x) : spanOf h' x = spanOf h x := by
  simp [spanOf, hx]

theorem Step.span_old {s s' : St} (st : Step s s') {x : Nat} (hx : x < s.heap.length) :
    spanOf s'.heap x = spanOf s.heap x := by
  by_cases hh : s.stack.head? = some x
  · cases ho : s.heap.get x with
    | none => have := Heap.isSome_iff.mpr hx; rw [ho] at this; simp at this
    | some o =>
      obtain ⟨o', h1, c⟩ := st.head_same x o hh ho
      simp [spanOf, h1, ho, c.2.2.1, c.2.2.2]
  · exact spanOf_congr (st.frame x hx hh)

theorem spanOf_lt {h : Heap} {x : Nat} {sp : Nat × Nat} (hx : spanOf h x = some sp) : x < h.length := by
  unfold spanOf at hx
  cases hg : h.get x with
  | none => simp [hg] at hx
  | some o => exact get_lt hg

theorem spanOf_updAttr (h : Heap) (top a : Nat) (f : AVal → AVal) (x : Nat) :
    spanOf (h.updAttr top a f) x = spanOf h x := by
  by_cases hxt : x = top
  · subst hxt
    cases hx : h.get x with
    | none =>
      have : h.updAttr x a f = h := by unfold Heap.updAttr; rw [hx]
      rw [this]
    | some o => simp [spanOf, updAttr_get_eq hx, hx]
  · exact spanOf_congr (updAttr_get_ne hxt)

theorem spanOf_setParent (h : Heap) (x p y : Nat) : spanOf (h.setParent x p) y = spanOf h y := by
  by_cases hy : y = x
  · subst hy
    cases hx : h.get y with
    | none =>
      have : h.setParent y p = h := by unfold Heap.setParent; rw [hx]
      rw [this]
    | some o => simp [spanOf, setParent_get_eq hx, hx]
  · exact spanOf_congr (setParent_get_ne hy)

/-- spans, contained ids and attributes unchanged ⇒ invariant unchanged -/
theorem SI.congr {root : PT} {h h' : Heap} (hs : ∀ x, spanOf h' x = spanOf h x)
    (hc : ∀ p, contIds h' p = contIds h p)
    (ha : ∀ p o', h'.get p = some o' → ∃ o, h.get p = some o ∧ o'.attrs = o.attrs) (si : SI root h) : SI root h' := by
  refine ⟨?_, ?_, ?_, ?_⟩
  · intro p c sp sc hcp h1 h2
    rw [hc] at hcp; rw [hs] at h1 h2
    exact si.nest p c sp sc hcp h1 h2
  · intro p c1 c2 s1 s2 h1 h2 hlt e1 e2
    rw [hc] at h1 h2; rw [hs] at e1 e2
    exact si.sib p c1 c2 s1 s2 h1 h2 hlt e1 e2
  · intro p o' m vs hg hm hcm
    obtain ⟨o, hgo, hat⟩ := ha p o' hg
    rw [hat] at hm
    exact si.incr p o m vs hgo hm hcm
  · intro x sp hx
    rw [hs] at hx
    exact si.exact x sp hx

/-! ## attribute lists -/

theorem mem_updAttrs {a : Nat} {f : AVal → AVal} {attrs : List (MetaAttr × AVal)} {x : MetaAttr × AVal}
    (hx : x ∈ updAttrs a f attrs) :
    x ∈ attrs ∨ ∃ m cur, findAttr a attrs = some (m, cur) ∧ (m, cur) ∈ attrs ∧ x = (m, f cur) := by
  induction attrs with
  | nil => simp [updAttrs] at hx
  | cons mv rest ih =>
    obtain ⟨m, v⟩ := mv
    unfold updAttrs at hx
    by_cases hn : m.name = a
    · simp only [hn, if_true, List.mem_cons] at hx
      rcases hx with rfl | hx
      · exact Or.inr ⟨m, v, by simp [findAttr, hn], by simp, rfl⟩
      · exact Or.inl (List.mem_cons_of_mem _ hx)
    · simp only [hn, if_false, List.mem_cons] at hx
      rcases hx with rfl | hx
      · exact Or.inl List.mem_cons_self
      · rcases ih hx with h1 | ⟨m', cur, h1, h2, h3⟩
        · exact Or.inl (List.mem_cons_of_mem _ h1)
        · exact Or.inr ⟨m', cur, by simpa [findAttr, hn] using h1, List.mem_cons_of_mem _ h2, h3⟩

theorem objIds_sub_contIdsL {attrs : List (MetaAttr × AVal)} {m : MetaAttr} {cur : AVal}
    (hm : (m, cur) ∈ attrs) (hc : m.cont = true) : ∀ e ∈ cur.objIds, e ∈ contIdsL attrs := by
  induction attrs with
  | nil => cases hm
  | cons mv rest ih =>
    obtain ⟨m', v'⟩ := mv
    intro e he
    simp only [contIdsL, List.mem_append]
    rcases List.mem_cons.mp hm with h | h
    · cases h; left; simpa [hc] using he
    · exact Or.inr (ih h e he)

theorem AVal.objIds_pairwise_of {cur : AVal}
    (h : ∀ vs, cur = .many vs → (vs.filterMap Val.objId?).Pairwise (· < ·)) : cur.objIds.Pairwise (· < ·) := by
  cases cur with
  | many vs => exact h vs rfl
  | one w => cases w <;> simp [AVal.objIds, Val.objId?]

/-- storing the value of child node `k` (span `[klo, khi]`) in the object on top of the stack -/
theorem SI.attach {root : PT} {s s1 : St} {top a : Nat} {f : AVal → AVal} {val : Val} {lo hi klo khi : Nat}
    (hi0 : Inv s) (st : Step s s1) (fr : ∀ c, val = .obj c → Fresh s s1 c) (htop : s.stack.head? = some top)
    (pre : Pre s lo hi) (hk1 : lo ≤ klo) (hk2 : khi ≤ hi)
    (post : Post root s s1 klo khi)
    (hf : f = AVal.append val ∨ f = AVal.assign val) :
    SI root (s1.heap.updAttr top a f) := by
  have si := post.si
  have hfs : ∀ cur, (f cur).objIds.Sublist (cur.objIds ++ val.objId?.toList) := by
    rcases hf with rfl | rfl
    · exact fun cur => sublist_append _ cur
    · exact fun cur => sublist_assign _ cur
  have htl : top < s.heap.length := head_lt hi0 htop
  have hV : ∀ c ∈ val.objId?.toList, val = .obj c := by
    intro c hc
    cases val <;> simp [Val.objId?] at hc
    subst hc; rfl
  obtain ⟨L, hsub, hperm⟩ := contIds_updAttr s1.heap top a f _ hfs
  have hmem : ∀ p c, c ∈ contIds (s1.heap.updAttr top a f) p → c ∈ contIds s1.heap p ∨ (p = top ∧ val = .obj c) := by
    intro p c hc
    by_cases hp : p = top
    · subst hp
      rcases List.mem_append.mp (hperm.mem_iff.mp (hsub.subset hc)) with h1 | h1
      · exact Or.inl h1
      · exact Or.inr ⟨rfl, hV c h1⟩
    · rw [contIds_congr (updAttr_get_ne hp)] at hc; exact Or.inl hc
  -- facts about the new child
  have hnew : ∀ c sc, val = .obj c → spanOf s1.heap c = some sc → lo ≤ sc.1 ∧ sc.2 ≤ hi := by
    intro c sc hv hsc
    have := post.new c sc (fr c hv).ge hsc
    omega
  have hold : ∀ c, val = .obj c → ∀ e, e ∈ contIds s1.heap top → e < c ∧
      ∀ se, spanOf s1.heap e = some se → se.2 ≤ lo := by
    intro c hv e he
    have hfr := fr c hv
    have hsame := hfr.old_same top htl
    rw [contIds_congr hsame] at he
    have helt : e < s.heap.length := Heap.isSome_iff.mp (hi0.tree.exists_of_cont top e he)
    refine ⟨by have := hfr.ge; omega, ?_⟩
    intro se hse
    rw [spanOf_congr (hfr.old_same e helt)] at hse
    exact pre.front top e se htop he hse
  refine ⟨?_, ?_, ?_, ?_⟩
  · intro p c sp sc hc h1 h2
    rw [spanOf_updAttr] at h1 h2
    rcases hmem p c hc with h | ⟨rfl, hv⟩
    · exact si.nest p c sp sc h h1 h2
    · rw [st.span_old htl] at h1
      have hw := pre.within p sp htop h1
      have hn := post.new c sc (fr c hv).ge h2
      omega
  · intro p c1 c2 s1' s2' h1 h2 hlt e1 e2
    rw [spanOf_updAttr] at e1 e2
    rcases hmem p c1 h1 with g1 | ⟨rfl, v1⟩
    · rcases hmem p c2 h2 with g2 | ⟨rfl, v2⟩
      · exact si.sib p c1 c2 s1' s2' g1 g2 hlt e1 e2
      · have := (hold c2 v2 c1 g1).2 s1' e1
        have := hnew c2 s2' v2 e2
        have := post.new c2 s2' (fr c2 v2).ge e2
        omega
    · rcases hmem p c2 h2 with g2 | ⟨_, v2⟩
      · have := (hold c1 v1 c2 g2).1; omega
      · rw [v1] at v2; cases v2; omega
  · intro p o' m' vs' hg hm hcm
    by_cases hp : p = top
    · subst hp
      cases hg1 : s1.heap.get p with
      | none =>
        have : s1.heap.updAttr p a f = s1.heap := by unfold Heap.updAttr; rw [hg1]
        rw [this, hg1] at hg; cases hg
      | some o1 =>
        rw [updAttr_get_eq hg1] at hg
        cases hg
        rcases mem_updAttrs hm with h | ⟨m, cur, hfa, hmem', hx⟩
        · exact si.incr p o1 m' vs' hg1 h hcm
        · have hmm : m' = m := (Prod.mk.inj hx).1
          have heq : AVal.many vs' = f cur := (Prod.mk.inj hx).2
          subst hmm
          have hcurpw : cur.objIds.Pairwise (· < ·) :=
            AVal.objIds_pairwise_of (fun vs hvs => by subst hvs; exact si.incr p o1 m' vs hg1 hmem' hcm)
          have hobj : (vs'.filterMap Val.objId?) = (f cur).objIds := by rw [← heq]; rfl
          rw [hobj]
          rcases hf with rfl | rfl
          · rw [AVal.objIds_append]
            cases val with
            | none => simpa [Val.objId?] using hcurpw
            | prim t => simpa [Val.objId?] using hcurpw
            | obj c =>
              simp only [Val.objId?, Option.toList]
              refine List.pairwise_append.mpr ⟨hcurpw, List.pairwise_singleton _ _, ?_⟩
              intro e he x hx
              simp at hx; subst hx
              have : e ∈ contIds s1.heap p := by
                simp only [contIds, hg1, HObj.contIds]
                exact objIds_sub_contIdsL hmem' hcm e he
              exact (hold x rfl e this).1
          · rw [AVal.objIds_assign]
            cases val <;> simp [Val.objId?]
    · rw [updAttr_get_ne hp] at hg
      exact si.incr p o' m' vs' hg hm hcm
  · intro x sp hx
    rw [spanOf_updAttr] at hx
    exact si.exact x sp hx

/-! ## bookkeeping between consecutive children -/

theorem Pre.mono {s : St} {lo hi lo' hi' : Nat} (pre : Pre s lo hi) (h1 : lo ≤ lo') (h2 : hi' ≤ hi) : Pre s lo' hi' := by
  refine ⟨?_, ?_⟩
  · intro top sp ht hs
    have := pre.within top sp ht hs; omega
  · intro top c sc ht hc hs
    have := pre.front top c sc ht hc hs; omega

theorem Pre.next {s s2 : St} {lo hi klo khi : Nat} (hi0 : Inv s) (st : Step s s2) (pre : Pre s lo hi)
    (new : ∀ x sp, s.heap.length ≤ x → spanOf s2.heap x = some sp → klo ≤ sp.1 ∧ sp.2 ≤ khi)
    (h1 : lo ≤ khi) : Pre s2 khi hi := by
  refine ⟨?_, ?_⟩
  · intro top sp ht hs
    rw [st.stack] at ht
    rw [st.span_old (head_lt hi0 ht)] at hs
    have := pre.within top sp ht hs; omega
  · intro top c sc ht hc hs
    rw [st.stack] at ht
    rcases st.cont_new top c hc with h | h
    · have hcl : c < s.heap.length := Heap.isSome_iff.mp (hi0.tree.exists_of_cont top c h)
      rw [st.span_old hcl] at hs
      have := pre.front top c sc ht h hs; omega
    · exact (new c sc h hs).2

theorem Post.refl {root : PT} {s : St} {lo hi : Nat} (si : SI root s.heap) : Post root s s lo hi := by
  refine ⟨si, ?_⟩
  intro x sp hx hs
  have := spanOf_lt hs; omega

theorem Post.chain {root : PT} {s s1 s' : St} {lo hi klo khi : Nat} (p1 : Post root s s1 klo khi)
    (st : Step s1 s') (p2 : Post root s1 s' khi hi) (h1 : lo ≤ klo) (h2 : klo ≤ khi) (h3 : khi ≤ hi) :
    Post root s s' lo hi := by
  refine ⟨p2.si, ?_⟩
  intro x sp hx hs
  by_cases hx1 : s1.heap.length ≤ x
  · have := p2.new x sp hx1 hs; omega
  · rw [st.span_old (by omega)] at hs
    have := p1.new x sp hx hs; omega

theorem Post.widen {root : PT} {s s' : St} {lo hi lo' hi' : Nat} (p : Post root s s' lo' hi')
    (h1 : lo ≤ lo') (h2 : hi' ≤ hi) : Post root s s' lo hi :=
  ⟨p.si, fun x sp hx hs => by have := p.new x sp hx hs; omega⟩

/-! ## allocation -/

theorem spanOf_append_left {h : Heap} {o : HObj} {x : Nat} (hx : x < h.length) : spanOf (h ++ [o]) x = spanOf h x :=
  spanOf_congr (Heap.get_append_left hx)

theorem mem_contIds_lt {h : Heap} {p c : Nat} (hc : c ∈ contIds h p) : p < h.length := by
  cases hg : h.get p with
  | none => simp [contIds, hg] at hc
  | some o => exact get_lt hg

theorem SI.alloc {root : PT} {s : St} (hi0 : Inv s) (si : SI root s.heap) (mm : Nat → List MetaAttr)
    (cls : Nat) (ks : List PT) (hsub : PT.Sub (.nt (.obj cls) ks) root) :
    SI root (s.heap ++ [newObj mm cls ks]) := by
  have hoc : contIdsL (newObj mm cls ks).attrs = [] := contIdsL_init _
  refine ⟨?_, ?_, ?_, ?_⟩
  · intro p c sp sc hc h1 h2
    rw [contIds_append_new hoc] at hc
    have hp := mem_contIds_lt hc
    have hcl := Heap.isSome_iff.mp (hi0.tree.exists_of_cont p c hc)
    rw [spanOf_append_left hp] at h1
    rw [spanOf_append_left hcl] at h2
    exact si.nest p c sp sc hc h1 h2
  · intro p c1 c2 s1 s2 h1 h2 hlt e1 e2
    rw [contIds_append_new hoc] at h1 h2
    rw [spanOf_append_left (Heap.isSome_iff.mp (hi0.tree.exists_of_cont p c1 h1))] at e1
    rw [spanOf_append_left (Heap.isSome_iff.mp (hi0.tree.exists_of_cont p c2 h2))] at e2
    exact si.sib p c1 c2 s1 s2 h1 h2 hlt e1 e2
  · intro p o m vs hg hm hcm
    rcases Nat.lt_trichotomy p s.heap.length with hlt | heq | hgt
    · rw [Heap.get_append_left hlt] at hg
      exact si.incr p o m vs hg hm hcm
    · subst heq
      rw [Heap.get_append_new] at hg
      cases hg
      simp only [newObj, List.mem_map] at hm
      obtain ⟨m0, _, hm0⟩ := hm
      simp only [initAttr, Prod.mk.injEq] at hm0
      by_cases hmany : m0.many = true
      · simp only [hmany, if_true] at hm0
        have : vs = [] := by cases hm0.2; rfl
        subst this; simp
      · simp only [hmany, Bool.false_eq_true, if_false] at hm0
        cases hm0.2
    · rw [Heap.get_of_ge (by simp; omega)] at hg; cases hg
  · intro x sp hx
    rcases Nat.lt_trichotomy x s.heap.length with hlt | heq | hgt
    · rw [spanOf_append_left hlt] at hx
      exact si.exact x sp hx
    · subst heq
      simp only [spanOf, Heap.get_append_new, Option.map_some, Option.some.injEq] at hx
      subst hx
      exact ⟨cls, ks, hsub, by simp [newObj, PT.pos, PT.posEnd]⟩
    · have := spanOf_lt hx
      simp at this; omega

theorem Pre.alloc (s : St) (mm : Nat → List MetaAttr) (cls : Nat) (ks : List PT) :
    Pre { heap := s.heap ++ [newObj mm cls ks], stack := s.heap.length :: s.stack }
      (PT.nt (.obj cls) ks).pos (PT.nt (.obj cls) ks).posEnd := by
  refine ⟨?_, ?_⟩
  · intro top sp ht hs
    simp only [List.head?_cons, Option.some.injEq] at ht
    subst ht
    simp only [spanOf, Heap.get_append_new, Option.map_some, Option.some.injEq] at hs
    subst hs
    simp [newObj, PT.pos, PT.posEnd]
  · intro top c sc ht hc _
    simp only [List.head?_cons, Option.some.injEq] at ht
    subst ht
    rw [contIds_append_new (contIdsL_init _)] at hc
    have := mem_contIds_lt hc
    omega

/-! ## the span induction -/

theorem PT.Sub.trans {a b c : PT} (h1 : PT.Sub a b) (h2 : PT.Sub b c) : PT.Sub a c := by
  induction h2 with
  | refl => exact h1
  | kid hc _ ih => exact PT.Sub.kid hc ih

structure KidsOK (root : PT) (ks : List PT) (lo hi : Nat) : Prop where
  wf : ∀ k ∈ ks, k.WF
  sub : ∀ k ∈ ks, PT.Sub k root
  lo : ∀ k ∈ ks, lo ≤ k.pos
  hi : ∀ k ∈ ks, k.posEnd ≤ hi
  ord : ks.Pairwise (fun a b => a.posEnd ≤ b.pos)

theorem KidsOK.of_node {root : PT} {kd : Kind} {ks : List PT} (hwf : (PT.nt kd ks).WF)
    (hsub : PT.Sub (.nt kd ks) root) : KidsOK root ks (PT.nt kd ks).pos (PT.nt kd ks).posEnd :=
  ⟨fun _ hk => (hwf.kid hk).1, fun k hk => (PT.Sub.kid hk (PT.Sub.refl k)).trans hsub,
   fun _ hk => (hwf.kid hk).2.1, fun _ hk => (hwf.kid hk).2.2, hwf.kids_ordered⟩

theorem KidsOK.tail {root : PT} {k : PT} {ks : List PT} {lo hi : Nat} (h : KidsOK root (k :: ks) lo hi) :
    KidsOK root ks k.posEnd hi :=
  ⟨fun x hx => h.wf x (List.mem_cons_of_mem _ hx), fun x hx => h.sub x (List.mem_cons_of_mem _ hx),
   fun x hx => (List.pairwise_cons.mp h.ord).1 x hx, fun x hx => h.hi x (List.mem_cons_of_mem _ hx),
   (List.pairwise_cons.mp h.ord).2⟩

theorem KidsOK.tail_same {root : PT} {k : PT} {ks : List PT} {lo hi : Nat} (h : KidsOK root (k :: ks) lo hi) :
    KidsOK root ks lo hi :=
  ⟨fun x hx => h.wf x (List.mem_cons_of_mem _ hx), fun x hx => h.sub x (List.mem_cons_of_mem _ hx),
   fun x hx => h.lo x (List.mem_cons_of_mem _ hx), fun x hx => h.hi x (List.mem_cons_of_mem _ hx),
   (List.pairwise_cons.mp h.ord).2⟩

theorem KidsOK.head {root : PT} {k : PT} {ks : List PT} {lo hi : Nat} (h : KidsOK root (k :: ks) lo hi) :
    k.WF ∧ PT.Sub k root ∧ lo ≤ k.pos ∧ k.pos < k.posEnd ∧ k.posEnd ≤ hi :=
  ⟨h.wf k List.mem_cons_self, h.sub k List.mem_cons_self, h.lo k List.mem_cons_self,
   (h.wf k List.mem_cons_self).nonempty, h.hi k List.mem_cons_self⟩

theorem SI.finish {root : PT} {h : Heap} (id : Nat) (si : SI root h) :
    ∀ tl : List Nat, SI root (match tl with
      | [] => h
      | p :: _ => h.setParent id p)
  | [] => si
  | p :: _ => by
    show SI root (h.setParent id p)
    refine SI.congr (fun x => spanOf_setParent _ _ _ x) (fun q => contIds_setParent _ _ _ q) ?_ si
    intro q o' hg
    by_cases hq : q = id
    · subst hq
      cases hg2 : h.get q with
      | none =>
        have : h.setParent q p = h := by unfold Heap.setParent; rw [hg2]
        rw [this, hg2] at hg; cases hg
      | some o2 =>
        rw [setParent_get_eq hg2] at hg
        cases hg
        exact ⟨o2, rfl, rfl⟩
    · rw [setParent_get_ne hq] at hg
      exact ⟨o', hg, rfl⟩

theorem spanOf_finish (h : Heap) (id : Nat) : ∀ (tl : List Nat) (x : Nat),
    spanOf (match tl with
      | [] => h
      | p :: _ => h.setParent id p) x = spanOf h x
  | [], _ => rfl
  | _ :: _, x => spanOf_setParent _ _ _ x

mutual
theorem processNode_span (tr : Heap → Nat → Bool) (mm : Nat → List MetaAttr) (root : PT) : (n : PT) → ∀ (s : St) (v : Val) (s' : St),
    n.WF → PT.Sub n root → Inv s → SI root s.heap → Pre s n.pos n.posEnd →
    processNode tr mm n s = some (v, s') → Post root s s' n.pos n.posEnd
  | .term _ _ _ t, s, v, s', _, _, _, si, _, h => by
    simp only [processNode, Option.some.injEq, Prod.mk.injEq] at h
    obtain ⟨rfl, rfl⟩ := h
    exact Post.refl si
  | .nt (.mat t) _, s, v, s', _, _, _, si, _, h => by
    simp only [processNode, Option.some.injEq, Prod.mk.injEq] at h
    obtain ⟨rfl, rfl⟩ := h
    exact Post.refl si
  | .nt .abs ks, s, v, s', hwf, hsub, hi0, si, pre, h => by
    have hk := KidsOK.of_node hwf hsub
    match ks, h, hk with
    | [], h, _ => simp [processNode] at h
    | [k], h, hk =>
      simp only [processNode] at h
      obtain ⟨kwf, ksub, k1, _, k2⟩ := hk.head
      exact (processNode_span tr mm root k s v s' kwf ksub hi0 si (pre.mono k1 k2) h).widen k1 k2
    | k :: k2 :: rest, h, hk =>
      simp only [processNode] at h
      exact processFirstNT_span tr mm root _ (k :: k2 :: rest) _ _ s v s' hk hi0 si pre h
  | .nt (.obj cls) ks, s, v, s', hwf, hsub, hi0, si, pre, h => by
    have hk := KidsOK.of_node hwf hsub
    have hne := hwf.nonempty
    simp only [processNode, St.next] at h
    have hi1 := hi0.alloc (o := newObj mm cls ks) rfl (contIdsL_init _)
    cases hkk : processKids tr mm ks { heap := s.heap ++ [newObj mm cls ks], stack := s.heap.length :: s.stack } with
    | none => simp [hkk] at h
    | some s2 =>
      simp only [hkk, Option.some.injEq, Prod.mk.injEq] at h
      obtain ⟨rfl, rfl⟩ := h
      have st := processKids_post tr mm ks _ s2 hi1 hkk
      have pk := processKids_span tr mm root ks _ _ _ s2 hk (Nat.le_of_lt hne) hi1
        (si.alloc hi0 mm cls ks hsub) (Pre.alloc s mm cls ks) hkk
      -- spans, contained ids and attributes are not affected by the parent assignment
      have hsi := SI.finish s.heap.length pk.si s2.stack.tail
      have hspan := spanOf_finish s2.heap s.heap.length s2.stack.tail
      refine ⟨hsi, ?_⟩
      intro x sp hx hs0
      have hs : spanOf s2.heap x = some sp := (hspan x).symm.trans hs0
      by_cases hx1 : s.heap.length + 1 ≤ x
      · exact pk.new x sp (by simpa using hx1) hs
      · have hxe : x = s.heap.length := by omega
        subst hxe
        rw [st.span_old (by simp)] at hs
        simp only [spanOf, Heap.get_append_new, Option.map_some, Option.some.injEq] at hs
        subst hs
        simp [newObj, PT.pos, PT.posEnd]
  | .nt (.asgn a op) ks, s, v, s', hwf, hsub, hi0, si, pre, h => by
    have hk := KidsOK.of_node hwf hsub
    simp only [processNode] at h
    cases hs : s.stack with
    | nil => simp [hs] at h
    | cons top rest =>
      have htop : s.stack.head? = some top := by simp [hs]
      simp only [hs] at h
      cases hf : (s.heap.get top).bind (fun o => findAttr a o.attrs) with
      | none => simp [hf] at h
      | some mc =>
        obtain ⟨m, cur⟩ := mc
        simp only [hf] at h
        cases op with
        | optional =>
          simp only [Option.some.injEq, Prod.mk.injEq] at h
          obtain ⟨rfl, rfl⟩ := h
          have hsi := SI.attach (a := a) (val := .prim true) (lo := (PT.nt (.asgn a .optional) ks).pos)
            (hi := (PT.nt (.asgn a .optional) ks).posEnd) (klo := (PT.nt (.asgn a .optional) ks).pos)
            (khi := (PT.nt (.asgn a .optional) ks).posEnd) hi0 (Step.refl hi0) (fun c hc => by cases hc) htop pre
            (Nat.le_refl _) (Nat.le_refl _) (Post.refl si) (Or.inr rfl)
          refine ⟨hsi, ?_⟩
          intro x sp hx hsx
          dsimp only at hsx
          rw [spanOf_updAttr] at hsx
          have := spanOf_lt hsx; omega
        | plain =>
          match cur, ks, h, hk with
          | cur, [], h, _ => cases cur <;> simp at h
          | .one v0, k :: _, h, hk =>
            obtain ⟨kwf, ksub, k1, _, k2⟩ := hk.head
            simp only [] at h
            by_cases hv : v0.truthyIn tr s.heap = true
            · simp [hv] at h
            · simp only [hv, Bool.false_eq_true, if_false] at h
              cases hkk : processNode tr mm k s with
              | none => simp [hkk] at h
              | some r =>
                obtain ⟨val, s1⟩ := r
                simp only [hkk] at h
                have ihp := processNode_post tr mm k s val s1 hi0 hkk
                have ih := processNode_span tr mm root k s val s1 kwf ksub hi0 si (pre.mono k1 k2) hkk
                by_cases hc : m.cont = true
                · simp only [hc, if_true, Option.some.injEq, Prod.mk.injEq] at h
                  obtain ⟨rfl, rfl⟩ := h
                  have hsi := SI.attach (a := a) hi0 ihp.1 ihp.2 htop pre k1 k2 ih (Or.inr rfl)
                  refine ⟨hsi, ?_⟩
                  intro x sp hx hsx
                  dsimp only at hsx
                  rw [spanOf_updAttr] at hsx
                  have := ih.new x sp hx hsx; omega
                · simp only [hc, Bool.false_eq_true, if_false, Option.some.injEq, Prod.mk.injEq] at h
                  obtain ⟨rfl, rfl⟩ := h
                  exact ih.widen k1 k2
          | .many _, k :: _, h, hk =>
            obtain ⟨kwf, ksub, k1, _, k2⟩ := hk.head
            simp only [] at h
            cases hkk : processNode tr mm k s with
            | none => simp [hkk] at h
            | some r =>
              obtain ⟨val, s1⟩ := r
              simp only [hkk] at h
              have ihp := processNode_post tr mm k s val s1 hi0 hkk
              have ih := processNode_span tr mm root k s val s1 kwf ksub hi0 si (pre.mono k1 k2) hkk
              by_cases hc : m.cont = true
              · simp only [hc, if_true, Option.some.injEq, Prod.mk.injEq] at h
                obtain ⟨rfl, rfl⟩ := h
                have hsi := SI.attach (a := a) hi0 ihp.1 ihp.2 htop pre k1 k2 ih (Or.inl rfl)
                refine ⟨hsi, ?_⟩
                intro x sp hx hsx
                dsimp only at hsx
                rw [spanOf_updAttr] at hsx
                have := ih.new x sp hx hsx; omega
              · simp only [hc, Bool.false_eq_true, if_false, Option.some.injEq, Prod.mk.injEq] at h
                obtain ⟨rfl, rfl⟩ := h
                exact ih.widen k1 k2
        | many =>
          cases hkk : processItems tr mm top a m.cont ks s with
          | none => simp [hkk] at h
          | some s1 =>
            simp only [hkk, Option.some.injEq, Prod.mk.injEq] at h
            obtain ⟨rfl, rfl⟩ := h
            exact processItems_span tr mm root ks _ _ top a m.cont s s1 hk (Nat.le_of_lt hwf.nonempty) hi0 si pre htop hkk

theorem processKids_span (tr : Heap → Nat → Bool) (mm : Nat → List MetaAttr) (root : PT) : (ks : List PT) → ∀ (lo hi : Nat) (s s' : St),
    KidsOK root ks lo hi → lo ≤ hi → Inv s → SI root s.heap → Pre s lo hi →
    processKids tr mm ks s = some s' → Post root s s' lo hi
  | [], lo, hi, s, s', _, _, _, si, _, h => by
    simp only [processKids, Option.some.injEq] at h
    subst h; exact Post.refl si
  | k :: ks, lo, hi, s, s', hk, _, hi0, si, pre, h => by
    simp only [processKids] at h
    obtain ⟨kwf, ksub, k1, k3, k2⟩ := hk.head
    cases hkk : processNode tr mm k s with
    | none => simp [hkk] at h
    | some r =>
      obtain ⟨val, s1⟩ := r
      simp only [hkk] at h
      have ihp := processNode_post tr mm k s val s1 hi0 hkk
      have ih := processNode_span tr mm root k s val s1 kwf ksub hi0 si (pre.mono k1 k2) hkk
      have pre1 : Pre s1 k.posEnd hi := Pre.next hi0 ihp.1 pre ih.new (by omega)
      have p2 := processKids_span tr mm root ks k.posEnd hi s1 s' hk.tail k2 ihp.1.inv ih.si pre1 h
      exact Post.chain ih (processKids_post tr mm ks s1 s' ihp.1.inv h) p2 k1 (Nat.le_of_lt k3) k2

theorem processFirstNT_span (tr : Heap → Nat → Bool) (mm : Nat → List MetaAttr) (root : PT) (fb : Bool) : (ks : List PT) → ∀ (lo hi : Nat) (s : St)
    (v : Val) (s' : St), KidsOK root ks lo hi → Inv s → SI root s.heap → Pre s lo hi →
    processFirstNT tr mm fb ks s = some (v, s') → Post root s s' lo hi
  | [], lo, hi, s, v, s', _, _, si, _, h => by
    simp only [processFirstNT, Option.some.injEq, Prod.mk.injEq] at h
    obtain ⟨rfl, rfl⟩ := h
    exact Post.refl si
  | k :: ks, lo, hi, s, v, s', hk, hi0, si, pre, h => by
    simp only [processFirstNT] at h
    by_cases ht : (k.isTerm || k.isMatchNT) = true
    · simp only [ht, if_true] at h
      exact processFirstNT_span tr mm root fb ks lo hi s v s' hk.tail_same hi0 si pre h
    · simp only [ht, Bool.false_eq_true, if_false] at h
      obtain ⟨kwf, ksub, k1, _, k2⟩ := hk.head
      exact (processNode_span tr mm root k s v s' kwf ksub hi0 si (pre.mono k1 k2) h).widen k1 k2

theorem processItems_span (tr : Heap → Nat → Bool) (mm : Nat → List MetaAttr) (root : PT) : (ks : List PT) → ∀ (lo hi top a : Nat)
    (cont : Bool) (s s' : St), KidsOK root ks lo hi → lo ≤ hi → Inv s → SI root s.heap → Pre s lo hi →
    s.stack.head? = some top → processItems tr mm top a cont ks s = some s' → Post root s s' lo hi
  | [], lo, hi, top, a, cont, s, s', _, _, _, si, _, _, h => by
    simp only [processItems, Option.some.injEq] at h
    subst h; exact Post.refl si
  | k :: ks, lo, hi, top, a, cont, s, s', hk, hlh, hi0, si, pre, htop, h => by
    simp only [processItems] at h
    by_cases hsep : k.isSep = true
    · simp only [hsep, if_true] at h
      exact processItems_span tr mm root ks lo hi top a cont s s' hk.tail_same hlh hi0 si pre htop h
    · simp only [hsep, Bool.false_eq_true, if_false] at h
      obtain ⟨kwf, ksub, k1, k3, k2⟩ := hk.head
      cases hkk : processNode tr mm k s with
      | none => simp [hkk] at h
      | some r =>
        obtain ⟨val, s1⟩ := r
        simp only [hkk] at h
        have ihp := processNode_post tr mm k s val s1 hi0 hkk
        have ih := processNode_span tr mm root k s val s1 kwf ksub hi0 si (pre.mono k1 k2) hkk
        by_cases hc : cont = true
        · simp only [hc, if_true] at h
          have st2 : Step s { s1 with heap := s1.heap.updAttr top a (AVal.append val) } :=
            ihp.1.attach ihp.2 htop (fun cur => sublist_append _ cur)
          have hsi := SI.attach (a := a) hi0 ihp.1 ihp.2 htop pre k1 k2 ih (Or.inl rfl)
          have p1 : Post root s { s1 with heap := s1.heap.updAttr top a (AVal.append val) } k.pos k.posEnd := by
            refine ⟨hsi, ?_⟩
            intro x sp hx hsx
            dsimp only at hsx
            rw [spanOf_updAttr] at hsx
            exact ih.new x sp hx hsx
          have pre2 := Pre.next hi0 st2 pre p1.new (by omega)
          have p2 := processItems_span tr mm root ks k.posEnd hi top a true _ s' hk.tail k2 st2.inv hsi pre2
            (by rw [st2.stack]; exact htop) h
          exact Post.chain p1 (processItems_post tr mm ks top a true _ s' st2.inv (by rw [st2.stack]; exact htop) h) p2
            k1 (Nat.le_of_lt k3) k2
        · simp only [hc, Bool.false_eq_true, if_false] at h
          have hc' : cont = false := by simpa using hc
          subst hc'
          have pre1 : Pre s1 k.posEnd hi := Pre.next hi0 ihp.1 pre ih.new (by omega)
          have p2 := processItems_span tr mm root ks k.posEnd hi top a false s1 s' hk.tail k2 ihp.1.inv ih.si pre1
            (by rw [ihp.1.stack]; exact htop) h
          exact Post.chain ih (processItems_post tr mm ks top a false s1 s' ihp.1.inv (by rw [ihp.1.stack]; exact htop) h)
            p2 k1 (Nat.le_of_lt k3) k2
end

end Obj
