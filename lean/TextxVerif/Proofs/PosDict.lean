import TextxVerif.PosDict
/-! Helper lemmas for `PosDict` (C34): the bottom-up collection and the sort. -/
namespace PosDict

def keys (d : Dict) : List (Nat × Nat) := d.map (·.1)

theorem has_iff (d : Dict) (k : Nat × Nat) : has d k = true ↔ k ∈ keys d := by
  unfold has keys
  simp only [List.any_eq_true, beq_iff_eq, List.mem_map]

theorem self_mem_nodes (n : ONode) : n ∈ nodes n := by
  cases n with
  | mk id s e kids => simp [nodes]

theorem nodes_eq (n : ONode) : nodes n = n :: properDesc n := by
  cases n with
  | mk id s e kids => simp [nodes, properDesc, ONode.kids]

/-- what one (sub)traversal adds to the dict; `ns` are the objects traversed -/
structure CollectSpec (ns : List ONode) (d d' : Dict) : Prop where
  ext : ∃ ex, d' = d ++ ex ∧ ∀ it ∈ ex, it.1 ∉ keys d ∧
          ∃ n ∈ ns, n.id = it.2 ∧ n.span = it.1 ∧ ∀ x ∈ properDesc n, x.span ≠ it.1
  cover : ∀ n ∈ ns, n.span ∈ keys d'
  nodup : (keys d).Nodup → (keys d').Nodup

mutual
theorem collect_spec : ∀ (n : ONode) (d : Dict), CollectSpec (nodes n) d (collect n d)
  | .mk id s e kids, d => by
    have hl := collectList_spec kids d
    obtain ⟨ex, hex, hgood⟩ := hl.ext
    simp only [collect, setDefault]
    by_cases hh : has (collectList kids d) (s, e) = true
    · rw [if_pos hh]
      refine ⟨⟨ex, hex, ?_⟩, ?_, hl.nodup⟩
      · intro it hit
        obtain ⟨h1, n, hn, h2⟩ := hgood it hit
        exact ⟨h1, n, by simp [nodes, hn], h2⟩
      · intro n hn
        simp only [nodes, List.mem_cons] at hn
        rcases hn with rfl | hn
        · exact (has_iff _ _).1 hh
        · exact hl.cover n hn
    · rw [if_neg hh]
      have hnot : (s, e) ∉ keys (collectList kids d) := fun h => hh ((has_iff _ _).2 h)
      refine ⟨⟨ex ++ [((s, e), id)], by simp [hex], ?_⟩, ?_, ?_⟩
      · intro it hit
        rcases List.mem_append.1 hit with hit | hit
        · obtain ⟨h1, n, hn, h2⟩ := hgood it hit
          exact ⟨h1, n, by simp [nodes, hn], h2⟩
        · have : it = ((s, e), id) := by simpa using hit
          subst this
          refine ⟨?_, .mk id s e kids, by simp [nodes], rfl, rfl, ?_⟩
          · intro hk
            apply hnot
            rw [hex]; unfold keys at hk ⊢
            simp only [List.map_append, List.mem_append]; exact Or.inl hk
          · intro x hx heq
            apply hnot
            have := hl.cover x (by simpa [properDesc, ONode.kids] using hx)
            rw [heq] at this; exact this
      · intro n hn
        unfold keys
        simp only [List.map_append, List.mem_append, List.map_cons, List.map_nil, List.mem_singleton]
        simp only [nodes, List.mem_cons] at hn
        rcases hn with rfl | hn
        · exact Or.inr rfl
        · exact Or.inl (hl.cover n hn)
      · intro hd
        have := hl.nodup hd
        unfold keys at this hnot ⊢
        simp only [List.map_append, List.map_cons, List.map_nil]
        refine List.nodup_append.2 ⟨this, by simp, ?_⟩
        intro a ha b hb
        have : b = (s, e) := by simpa using hb
        subst this
        intro hab; subst hab; exact hnot ha

theorem collectList_spec : ∀ (ks : List ONode) (d : Dict), CollectSpec (nodesList ks) d (collectList ks d)
  | [], d => by
    simp only [collectList, nodesList]
    exact ⟨⟨[], by simp, by simp⟩, by simp, id⟩
  | k :: ks, d => by
    have h1 := collect_spec k d
    have h2 := collectList_spec ks (collect k d)
    obtain ⟨e1, he1, hg1⟩ := h1.ext
    obtain ⟨e2, he2, hg2⟩ := h2.ext
    simp only [collectList, nodesList]
    refine ⟨⟨e1 ++ e2, by rw [he2, he1]; simp, ?_⟩, ?_, fun hd => h2.nodup (h1.nodup hd)⟩
    · intro it hit
      rcases List.mem_append.1 hit with hit | hit
      · obtain ⟨a, n, hn, b⟩ := hg1 it hit
        exact ⟨a, n, List.mem_append.2 (Or.inl hn), b⟩
      · obtain ⟨a, n, hn, b⟩ := hg2 it hit
        refine ⟨?_, n, List.mem_append.2 (Or.inr hn), b⟩
        intro hk; apply a
        rw [he1]; unfold keys at hk ⊢
        simp only [List.map_append, List.mem_append]; exact Or.inl hk
    · intro n hn
      rcases List.mem_append.1 hn with hn | hn
      · have := h1.cover n hn
        rw [he2]; unfold keys at this ⊢
        simp only [List.map_append, List.mem_append]; exact Or.inl this
      · exact h2.cover n hn
end

/-! ## the sort -/

theorem keyLe_trans (a b c : Item) : keyLe a b = true → keyLe b c = true → keyLe a c = true := by
  unfold keyLe
  simp only [Bool.or_eq_true, Bool.and_eq_true, decide_eq_true_eq, beq_iff_eq]
  omega

theorem keyLe_total (a b : Item) : (keyLe a b || keyLe b a) = true := by
  unfold keyLe
  simp only [Bool.or_eq_true, Bool.and_eq_true, decide_eq_true_eq, beq_iff_eq]
  omega

/-- an item sorted in front of another one does not strictly contain it -/
theorem keyLe_not_contains (a b : Item) (h : keyLe a b = true) (hin : inside b.1 a.1) : b.1 = a.1 := by
  unfold keyLe at h
  unfold inside at hin
  simp only [Bool.or_eq_true, Bool.and_eq_true, decide_eq_true_eq, beq_iff_eq] at h
  apply Prod.ext <;> omega

/-! ## geometry: objects with the same span are nested -/

mutual
theorem wf_bounds : ∀ (n : ONode), wf n = true → ∀ x ∈ nodes n, n.s ≤ x.s ∧ x.e ≤ n.e ∧ x.s < x.e
  | .mk id s e kids, h => by
    simp only [wf, Bool.and_eq_true, decide_eq_true_eq] at h
    intro x hx
    simp only [nodes, List.mem_cons] at hx
    rcases hx with rfl | hx
    · simp only [ONode.s, ONode.e]; omega
    · have := wfList_bounds s e kids h.2 x hx
      simp only [ONode.s, ONode.e] at this ⊢; omega
theorem wfList_bounds : ∀ (lo hi : Nat) (ks : List ONode), wfList lo hi ks = true →
    ∀ x ∈ nodesList ks, lo ≤ x.s ∧ x.e ≤ hi ∧ x.s < x.e
  | lo, hi, [], _ => by simp [nodesList]
  | lo, hi, k :: ks, h => by
    simp only [wfList, Bool.and_eq_true, decide_eq_true_eq] at h
    obtain ⟨⟨⟨h1, h2⟩, h3⟩, h4⟩ := h
    intro x hx
    simp only [nodesList, List.mem_append] at hx
    have hk := wf_bounds k h3 k (self_mem_nodes k)
    rcases hx with hx | hx
    · have := wf_bounds k h3 x hx; omega
    · have := wfList_bounds k.e hi ks h4 x hx; omega
end

mutual
theorem wf_comparable : ∀ (n : ONode), wf n = true → ∀ a ∈ nodes n, ∀ b ∈ nodes n,
    a.span = b.span → a ∈ nodes b ∨ b ∈ nodes a
  | .mk id s e kids, h => by
    have h' := h
    simp only [wf, Bool.and_eq_true, decide_eq_true_eq] at h'
    intro a ha b hb hab
    simp only [nodes, List.mem_cons] at ha hb
    rcases ha with rfl | ha
    · right
      simp only [nodes, List.mem_cons]
      rcases hb with rfl | hb
      · exact Or.inl rfl
      · exact Or.inr hb
    · rcases hb with rfl | hb
      · left; simp only [nodes, List.mem_cons]; exact Or.inr ha
      · exact wfList_comparable s e kids h'.2 a ha b hb hab
theorem wfList_comparable : ∀ (lo hi : Nat) (ks : List ONode), wfList lo hi ks = true →
    ∀ a ∈ nodesList ks, ∀ b ∈ nodesList ks, a.span = b.span → a ∈ nodes b ∨ b ∈ nodes a
  | lo, hi, [], _ => by simp [nodesList]
  | lo, hi, k :: ks, h => by
    have h' := h
    simp only [wfList, Bool.and_eq_true, decide_eq_true_eq] at h'
    obtain ⟨⟨⟨h1, h2⟩, h3⟩, h4⟩ := h'
    intro a ha b hb hab
    simp only [nodesList, List.mem_append] at ha hb
    have hsp : a.s = b.s ∧ a.e = b.e := by
      unfold ONode.span at hab
      exact ⟨congrArg Prod.fst hab, congrArg Prod.snd hab⟩
    rcases ha with ha | ha <;> rcases hb with hb | hb
    · exact wf_comparable k h3 a ha b hb hab
    · have ba := wf_bounds k h3 a ha
      have bb := wfList_bounds k.e hi ks h4 b hb
      omega
    · have ba := wfList_bounds k.e hi ks h4 a ha
      have bb := wf_bounds k h3 b hb
      omega
    · exact wfList_comparable k.e hi ks h4 a ha b hb hab
end

/-! ## order-free geometry -/

theorem disjointFrom_iff (k : ONode) : ∀ ks : List ONode,
    disjointFrom k ks = true ↔ ∀ x ∈ ks, k.e ≤ x.s ∨ x.e ≤ k.s
  | [] => by simp [disjointFrom]
  | x :: xs => by
    simp only [disjointFrom, Bool.and_eq_true, Bool.or_eq_true, decide_eq_true_eq, disjointFrom_iff k xs,
      List.forall_mem_cons]

/-- `geoList` says: every child lies inside `[lo, hi]` and has the geometry itself, and the
children are pairwise disjoint -/
theorem geoList_iff (lo hi : Nat) : ∀ ks : List ONode,
    geoList lo hi ks = true ↔
      (∀ k ∈ ks, lo ≤ k.s ∧ k.e ≤ hi ∧ geo k = true) ∧ ks.Pairwise (fun a b => a.e ≤ b.s ∨ b.e ≤ a.s)
  | [] => by simp [geoList]
  | k :: ks => by
    simp only [geoList, Bool.and_eq_true, decide_eq_true_eq, geoList_iff lo hi ks, disjointFrom_iff,
      List.pairwise_cons, List.forall_mem_cons]
    constructor
    · rintro ⟨⟨⟨⟨h1, h2⟩, h3⟩, h4⟩, h5, h6⟩
      exact ⟨⟨⟨h1, h2, h3⟩, h5⟩, h4, h6⟩
    · rintro ⟨⟨⟨h1, h2, h3⟩, h5⟩, h4, h6⟩
      exact ⟨⟨⟨⟨h1, h2⟩, h3⟩, h4⟩, h5, h6⟩

theorem geoList_mono {lo lo' hi : Nat} {ks : List ONode} (hl : lo' ≤ lo) (h : geoList lo hi ks = true) :
    geoList lo' hi ks = true := by
  rw [geoList_iff] at h ⊢
  exact ⟨fun k hk => ⟨Nat.le_trans hl (h.1 k hk).1, (h.1 k hk).2⟩, h.2⟩

theorem mem_nodesList {x : ONode} : ∀ {ks : List ONode}, x ∈ nodesList ks → ∃ k ∈ ks, x ∈ nodes k
  | [], h => by simp [nodesList] at h
  | k :: ks, h => by
    simp only [nodesList, List.mem_append] at h
    rcases h with h | h
    · exact ⟨k, List.mem_cons_self, h⟩
    · obtain ⟨k', hk', hx⟩ := mem_nodesList h
      exact ⟨k', List.mem_cons_of_mem _ hk', hx⟩

theorem mem_nodesList_of {x k : ONode} : ∀ {ks : List ONode}, k ∈ ks → x ∈ nodes k → x ∈ nodesList ks
  | [], h, _ => by cases h
  | k' :: ks, h, hx => by
    simp only [nodesList, List.mem_append]
    rcases List.mem_cons.mp h with rfl | h
    · exact Or.inl hx
    · exact Or.inr (mem_nodesList_of h hx)

mutual
theorem geo_bounds : ∀ (n : ONode), geo n = true → ∀ x ∈ nodes n, n.s ≤ x.s ∧ x.e ≤ n.e ∧ x.s < x.e
  | .mk id s e kids, h => by
    simp only [geo, Bool.and_eq_true, decide_eq_true_eq] at h
    intro x hx
    simp only [nodes, List.mem_cons] at hx
    rcases hx with rfl | hx
    · simp only [ONode.s, ONode.e]; omega
    · have := geoList_bounds s e kids h.2 x hx
      simp only [ONode.s, ONode.e] at this ⊢; omega
theorem geoList_bounds : ∀ (lo hi : Nat) (ks : List ONode), geoList lo hi ks = true →
    ∀ x ∈ nodesList ks, lo ≤ x.s ∧ x.e ≤ hi ∧ x.s < x.e
  | lo, hi, [], _ => by simp [nodesList]
  | lo, hi, k :: ks, h => by
    simp only [geoList, Bool.and_eq_true, decide_eq_true_eq] at h
    obtain ⟨⟨⟨⟨h1, h2⟩, h3⟩, _⟩, h5⟩ := h
    intro x hx
    simp only [nodesList, List.mem_append] at hx
    rcases hx with hx | hx
    · have := geo_bounds k h3 x hx; omega
    · exact geoList_bounds lo hi ks h5 x hx
end

mutual
theorem geo_comparable : ∀ (n : ONode), geo n = true → ∀ a ∈ nodes n, ∀ b ∈ nodes n,
    a.span = b.span → a ∈ nodes b ∨ b ∈ nodes a
  | .mk id s e kids, h => by
    have h' := h
    simp only [geo, Bool.and_eq_true, decide_eq_true_eq] at h'
    intro a ha b hb hab
    simp only [nodes, List.mem_cons] at ha hb
    rcases ha with rfl | ha
    · right
      simp only [nodes, List.mem_cons]
      rcases hb with rfl | hb
      · exact Or.inl rfl
      · exact Or.inr hb
    · rcases hb with rfl | hb
      · left; simp only [nodes, List.mem_cons]; exact Or.inr ha
      · exact geoList_comparable s e kids h'.2 a ha b hb hab
theorem geoList_comparable : ∀ (lo hi : Nat) (ks : List ONode), geoList lo hi ks = true →
    ∀ a ∈ nodesList ks, ∀ b ∈ nodesList ks, a.span = b.span → a ∈ nodes b ∨ b ∈ nodes a
  | lo, hi, [], _ => by simp [nodesList]
  | lo, hi, k :: ks, h => by
    have h' := h
    simp only [geoList, Bool.and_eq_true, decide_eq_true_eq] at h'
    obtain ⟨⟨⟨⟨_, _⟩, h3⟩, h4⟩, h5⟩ := h'
    intro a ha b hb hab
    simp only [nodesList, List.mem_append] at ha hb
    have hsp : a.s = b.s ∧ a.e = b.e := by
      unfold ONode.span at hab
      exact ⟨congrArg Prod.fst hab, congrArg Prod.snd hab⟩
    have hdis := (disjointFrom_iff k ks).mp h4
    have hks := ((geoList_iff lo hi ks).mp h5).1
    have cross : ∀ a ∈ nodes k, ∀ b ∈ nodesList ks, a.s = b.s → a.e = b.e → False := by
      intro a ha b hb e1 e2
      obtain ⟨k', hk', hbk⟩ := mem_nodesList hb
      have ba := geo_bounds k h3 a ha
      have bb := geo_bounds k' (hks k' hk').2.2 b hbk
      rcases hdis k' hk' with d | d <;> omega
    rcases ha with ha | ha <;> rcases hb with hb | hb
    · exact geo_comparable k h3 a ha b hb hab
    · exact (cross a ha b hb hsp.1 hsp.2).elim
    · exact (cross b hb a ha hsp.1.symm hsp.2.symm).elim
    · exact geoList_comparable lo hi ks h5 a ha b hb hab
end

mutual
theorem wf_geo : ∀ (n : ONode), wf n = true → geo n = true
  | .mk id s e kids, h => by
    simp only [wf, Bool.and_eq_true, decide_eq_true_eq] at h
    simp only [geo, Bool.and_eq_true, decide_eq_true_eq]
    exact ⟨h.1, (wfList_geo s e kids h.2).1⟩
theorem wfList_geo : ∀ (lo hi : Nat) (ks : List ONode), wfList lo hi ks = true →
    geoList lo hi ks = true ∧ ∀ x ∈ ks, lo ≤ x.s
  | lo, hi, [], _ => by simp [geoList]
  | lo, hi, k :: ks, h => by
    simp only [wfList, Bool.and_eq_true, decide_eq_true_eq] at h
    obtain ⟨⟨⟨h1, h2⟩, h3⟩, h4⟩ := h
    have ih := wfList_geo k.e hi ks h4
    have hk := wf_geo k h3
    have hne : k.s < k.e := (geo_bounds k hk k (self_mem_nodes k)).2.2
    refine ⟨?_, ?_⟩
    · simp only [geoList, Bool.and_eq_true, decide_eq_true_eq]
      refine ⟨⟨⟨⟨h1, h2⟩, hk⟩, ?_⟩, ?_⟩
      · exact (disjointFrom_iff k ks).mpr (fun x hx => Or.inl (ih.2 x hx))
      · exact geoList_mono (by omega) ih.1
    · intro x hx
      rcases List.mem_cons.mp hx with rfl | hx
      · exact h1
      · have := ih.2 x hx; omega
end

end PosDict
