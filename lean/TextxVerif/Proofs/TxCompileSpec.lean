import TextxVerif.Tx.Compile
/-!
# What a successful run of `Tx.compile` returns

`compile` is one long `do` block; this file takes it apart once: the node table is the base types,
then the rules' blocks (`emitRules`), then the `Model` wrapper and `EOF`; the comments model exists
only when the grammar has a `Comment` rule; the classes are those of `ruleClasses true` (the
multiplicity walk of the code as it is) with rule kinds and `ref` / `cont` filled in.
-/
namespace Tx

/-- the classes after `_determine_rule_types` and `_resolve_cls_refs` -/
def finishClasses (nodes : Array CNode) (roots : List (String × Nat)) (classes0 : List Cls) : List Cls :=
  let classes := iterate (kindStep nodes roots) (classes0.length + 1) classes0
  classes.map fun c => { c with attrs := c.attrs.map (resolveAttr classes) }

theorem compile_spec {g : Gram} {c : Compiled} (h : compile g = .ok c) :
    ∃ (rootOf : String → Nat) (tail : List CNode) (classes0 : List Cls) (roots : List (String × Nat)),
      c.nodes = (baseNodes ++ emitRules rootOf g.rules baseNodes.length ++ tail).toArray ∧
      (g.find? "Comment" = none → c.comments = none) ∧
      ruleClasses true g.rules = .ok classes0 ∧
      c.classes = finishClasses c.nodes roots classes0 := by
  unfold compile at h
  split at h
  · simp at h
  · rename_i r0 rs hrules
    simp only [bind, Except.bind] at h
    split at h
    · simp at h
    split at h
    · simp at h
    split at h
    · simp at h
    split at h
    · simp at h
    split at h
    · simp at h
    rename_i classes0 hcls
    split at h
    · simp at h
    simp only [pure, Except.pure, Except.ok.injEq] at h
    subst h
    refine ⟨_, _, classes0, _, rfl, ?_, hcls, rfl⟩
    intro hcm
    simp [hcm]

end Tx
