import TextxVerif.Proofs.ImpErr
/-!
Which files the loader opens (used by `Props/C25.lean`): after a successful `loadMain` the files
handed to the loader, the namespaces and the files connected to the main file by import statements
are the same set.

`OSpec`: what `loadFile` guarantees about `opened` — every namespace has been opened (the one that
was just entered is opened first thing), and only files connected to the main file are opened.
-/
namespace Imp

theorem Connected.step {fs : FS} {main : Seg} {a b : Ns} (ha : Connected fs main a) (e : Edge fs a b) :
    Connected fs main b := by
  rcases ha with rfl | hr
  · exact .inr (.single e)
  · exact .inr (hr.snoc e)

def OSpec (fs : FS) (main : Seg) (load : Ns → St → Except Err St) : Prop :=
  ∀ n s s', load n s = .ok s' → s.stack.head? = some n → Connected fs main n →
    (∀ x, isKey s x → x ∈ s.opened ∨ x = n) → (∀ x ∈ s.opened, Connected fs main x) →
    (∀ x, isKey s' x → x ∈ s'.opened) ∧ (∀ x ∈ s'.opened, Connected fs main x)

theorem importAll_open {fs : FS} {main : Seg} {load} (hs : StackOK load) (hspec : OSpec fs main load) :
    ∀ (is : List Ns) (st s : St) (n : Ns), importAll load is st = .ok s → st.stack.head? = some n →
      Connected fs main n → (∀ i ∈ is, Edge fs n (absImport n i)) →
      (∀ x, isKey st x → x ∈ st.opened) → (∀ x ∈ st.opened, Connected fs main x) →
      (∀ x, isKey s x → x ∈ s.opened) ∧ (∀ x ∈ s.opened, Connected fs main x)
  | [], st, s, n, h, _, _, _, h1, h2 => by
    simp [importAll] at h; rw [← h]; exact ⟨h1, h2⟩
  | i :: is, st, s, n, h, htop, hn, hedge, hk, ho => by
    obtain ⟨s1, h1, h2⟩ := importAll_cons_ok h
    have htop1 : s1.stack.head? = some n := by rw [newImport_stack hs h1]; exact htop
    have step : (∀ x, isKey s1 x → x ∈ s1.opened) ∧ (∀ x ∈ s1.opened, Connected fs main x) := by
      obtain ⟨cur, rest, hst, hcase | ⟨hnk, s1', hs1', hcase⟩⟩ := newImport_ok h1
      · rw [hcase.2]; exact ⟨hk, ho⟩
      · rw [hst] at htop; simp at htop; subst htop
        have key := hspec _ _ _ hs1' (by simp) (hn.step (hedge i (List.mem_cons_self ..)))
          (by
            intro x hx
            by_cases hxn : x = absImport cur i
            · exact .inr hxn
            · left
              unfold isKey at hx
              rw [enter_nss_other _ _ _ hxn] at hx
              simpa using hk x hx)
          (by simpa using ho)
        rw [hcase]
        exact key
    exact importAll_open hs hspec is s1 s n h2 htop1 hn
      (fun j hj => hedge j (List.mem_cons_of_mem _ hj)) step.1 step.2

theorem loadFile_ospec (fs : FS) (main : Seg) : ∀ fuel, OSpec fs main (loadFile fs fuel)
  | 0 => by
    intro n s s' h
    obtain ⟨_, _, _, h0, _⟩ := loadFile_ok h
    omega
  | fuel + 1 => by
    intro n s s' h htop hn hk ho
    obtain ⟨f, fuel', s1, h0, hf, h1, h2⟩ := loadFile_ok h
    have : fuel' = fuel := by omega
    subst this
    have key := importAll_open (loadFile_stack fs fuel') (loadFile_ospec fs main fuel') f.imports
      (logOpen s n) s1 n h1 (by simpa using htop) hn
      (fun i hi => ⟨f, hf, List.mem_map.2 ⟨i, hi, rfl⟩⟩)
      (by
        intro x hx
        have hx' : isKey s x := hx
        rcases hk x hx' with h | h
        · simp [logOpen, h]
        · simp [logOpen, h])
      (by
        intro x hx
        simp [logOpen] at hx
        rcases hx with hx | rfl
        · exact ho x hx
        · exact hn)
    obtain ⟨e1, _, _, e4⟩ := secondPass_nss _ _ _ h2
    have hkey : ∀ x, isKey s' x → isKey s1 x := by
      intro x hx
      unfold isKey at hx
      rw [e1] at hx
      exact (createAll_key _ _ _).1 hx
    have hop : s'.opened = s1.opened := by rw [e4]; simp
    refine ⟨fun x hx => ?_, fun x hx => ?_⟩
    · rw [hop]; exact key.1 x (hkey x hx)
    · rw [hop] at hx; exact key.2 x hx

theorem loadMain_opened {fs : FS} {fuel : Nat} {main : Seg} {st : St}
    (h : loadMain fs fuel main = .ok st) :
    (∀ x, isKey st x → x ∈ st.opened) ∧ (∀ x ∈ st.opened, Connected fs main x) := by
  unfold loadMain at h
  apply loadFile_ospec fs main fuel [main] _ st h (by simp) (.inl rfl)
  · intro x hx
    by_cases hxn : x = [main]
    · exact .inr hxn
    · unfold isKey at hx
      rw [enter_nss_other _ _ _ hxn] at hx
      simp [St.empty] at hx
  · intro x hx
    simp [St.empty] at hx

end Imp
