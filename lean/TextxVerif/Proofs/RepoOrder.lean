import TextxVerif.Proofs.RepoReads
/-!
Termination (the nesting depth of loads is bounded by the number of files not
yet loaded) and the content of `local_models` (the direct imports in
first-occurrence order), for C17.
-/
namespace Repo

/-! ## fuel -/

/-- files of the universe `U` that are not in the shared dict yet -/
def unl (U : List File) (st : St) : Nat := (U.filter (fun f => !st.all.has f)).length

theorem filter_len_le {α : Type} (p q : α → Bool) (l : List α) (h : ∀ x ∈ l, q x = true → p x = true) :
    (l.filter q).length ≤ (l.filter p).length := by
  induction l with
  | nil => simp
  | cons a l ih =>
    have ih' := ih (fun x hx => h x (List.mem_cons_of_mem _ hx))
    simp only [List.filter_cons]
    cases hq : q a
    · cases hp : p a
      · simpa using ih'
      · simp only [if_true]; simp; omega
    · have hp := h a List.mem_cons_self hq
      simp only [hp, if_true]; simp; exact ih'

theorem filter_len_lt {α : Type} (p q : α → Bool) (l : List α) (h : ∀ x ∈ l, q x = true → p x = true)
    (g : α) (hg : g ∈ l) (hpg : p g = true) (hqg : q g = false) :
    (l.filter q).length < (l.filter p).length := by
  induction l with
  | nil => cases hg
  | cons a l ih =>
    have hle := filter_len_le p q l (fun x hx => h x (List.mem_cons_of_mem _ hx))
    simp only [List.filter_cons]
    rcases List.mem_cons.1 hg with hga | hgl
    · subst hga
      simp only [hpg, hqg, if_true]; simp; omega
    · have ih' := ih (fun x hx => h x (List.mem_cons_of_mem _ hx)) hgl
      cases hq : q a
      · cases hp : p a
        · simpa using ih'
        · simp only [if_true]; simp; omega
      · have hp := h a List.mem_cons_self hq
        simp only [hp, if_true]; simp; exact ih'

theorem unl_le {U : List File} {st st' : St} (h : ∀ k ∈ st.all.keys, k ∈ st'.all.keys) : unl U st' ≤ unl U st := by
  unfold unl
  apply filter_len_le
  intro x _ hx
  have hx' : st'.all.has x = false := by simpa using hx
  have : st.all.has x = false := by
    cases hh : st.all.has x
    · rfl
    · have := (Dict.has_iff _ _).2 (h x ((Dict.has_iff _ _).1 hh))
      rw [this] at hx'; cases hx'
  simp [this]

theorem unl_lt {U : List File} {st st' : St} {g : File} (h : ∀ k ∈ st.all.keys, k ∈ st'.all.keys)
    (hU : g ∈ U) (hg : g ∉ st.all.keys) (hg' : g ∈ st'.all.keys) : unl U st' < unl U st := by
  unfold unl
  apply filter_len_lt _ _ _ _ g hU
  · simp [(Dict.has_false_iff _ _).2 hg]
  · simp [(Dict.has_iff _ _).2 hg']
  · intro x _ hx
    have hx' : st'.all.has x = false := by simpa using hx
    have : st.all.has x = false := by
      cases hh : st.all.has x
      · rfl
      · have := (Dict.has_iff _ _).2 (h x ((Dict.has_iff _ _).1 hh))
        rw [this] at hx'; cases hx'
    simp [this]

theorem unl_pos {U : List File} {st : St} {g : File} (hU : g ∈ U) (hg : g ∉ st.all.keys) : 0 < unl U st := by
  unfold unl
  apply List.length_pos_of_mem (a := g)
  exact List.mem_filter.2 ⟨hU, by simp [(Dict.has_false_iff _ _).2 hg]⟩

section fuel
variable {B : Dict} {n0 : Nat} {L0 : Inst → Dict}

def ParseFuel (B : Dict) (n0 : Nat) (L0 : Inst → Dict) (U : List File) (n : Nat) (parse : Parse) : Prop :=
  ∀ st g st1 r j, Inv B n0 L0 st → Good n0 st → g ∉ st.all.keys → g ∈ U → unl U st ≤ n →
    parse st g = (st1, r, j) → r ≠ .fuel

theorem loadModelWith_fuel {U : List File} {n : Nat} {parse : Parse}
    (hf : ParseFuel B n0 L0 U n parse) {st st1 : St} {i : Inst} {g : File} {r : Res}
    (hI : Inv B n0 L0 st) (hG : Good n0 st) (hgU : g ∈ U) (hn : unl U st ≤ n)
    (h : loadModelWith parse st i g = (st1, r)) : r ≠ .fuel := by
  unfold loadModelWith at h
  split at h
  · cases h; intro hh; cases hh
  · split at h
    · cases h; intro hh; cases hh
    · rename_i hnl hna
      have hgk : g ∉ st.all.keys := (Dict.has_false_iff _ _).1 (by simpa using hna)
      cases hpe : parse st g with
      | mk st' rj =>
        obtain ⟨r', j⟩ := rj
        have hnf := hf st g st' r' j hI hG hgk hgU hn hpe
        rw [hpe] at h
        cases r' with
        | ok => simp only at h; cases h; intro hh; cases hh
        | fail k => simp only at h; cases h; intro hh; cases hh
        | fuel => exact absurd rfl hnf

theorem loadCalls_fuel {U : List File} {n : Nat} {parse : Parse} (hp : ParseSafe B n0 L0 parse)
    (hf : ParseFuel B n0 L0 U n parse) (i : Inst) (hi0 : n0 ≤ i) :
    ∀ (cs : List (Option File)) (st st1 : St) (r : Res), Inv B n0 L0 st → Good n0 st → i < st.next →
      st.constr i = true → (∀ g, some g ∈ cs → g ∈ U) → unl U st ≤ n →
      loadCalls parse i st cs = (st1, r) → r ≠ .fuel := by
  intro cs
  induction cs with
  | nil =>
    intro st st1 r _ _ _ _ _ _ h
    simp only [loadCalls] at h; cases h; intro hh; cases hh
  | cons c cs ih =>
    intro st st1 r hI hG hi hc hcs hn h
    simp only [loadCalls] at h
    have hI1 := registerSelf_inv hI i hi0 hc
    have hG1 := registerSelf_good (n0 := n0) hG i hi
    have hM1 := registerSelf_monoX st i i
    have hn1 : unl U (st.registerSelf i) ≤ n := Nat.le_trans (unl_le (keys_sub_of_all_sub hM1.all)) hn
    cases c with
    | none => simp only at h; cases h; intro hh; cases hh
    | some g =>
      simp only at h
      cases hl : loadModelWith parse (st.registerSelf i) i g with
      | mk st2 r2 =>
        rw [hl] at h
        have hi1 : i < (st.registerSelf i).next := by rw [registerSelf_next]; exact hi
        obtain ⟨hI2, hok2⟩ := loadModelWith_safe hp hI1 hG1 hi0 hi1 hl
        have hnf2 := loadModelWith_fuel hf hI1 hG1 (hcs g List.mem_cons_self) hn1 hl
        cases r2 with
        | ok =>
          simp only at h
          obtain ⟨hG2, hM2, _⟩ := hok2 rfl
          have hi2 : i < st2.next := Nat.lt_of_lt_of_le hi1 hM2.next
          have hc2 : st2.constr i = true := by rw [hM2.constr i hi1, registerSelf_constr]; exact hc
          have hn2 : unl U st2 ≤ n := Nat.le_trans (unl_le (keys_sub_of_all_sub hM2.all)) hn1
          exact ih st2 st1 r hI2 hG2 hi2 hc2 (fun g' hg' => hcs g' (List.mem_cons_of_mem _ hg')) hn2 h
        | fail k => simp only at h; cases h; intro hh; cases hh
        | fuel => exact absurd rfl hnf2

theorem internal_fuel (hB : BaseOK B n0 L0) (S : Spec) (U : List File)
    (hU : ∀ h ∈ U, ∀ x, some x ∈ S.calls h → x ∈ U) : ∀ fuel, ParseFuel B n0 L0 U fuel (internal S fuel)
  | 0 => by
    intro st g st1 r j _ _ hg hgU hn _
    have := unl_pos hgU hg
    omega
  | fuel + 1 => by
    intro st g st1 r j hI hG hg hgU hn h
    rw [internal_unfold] at h
    split at h
    · cases h; intro hh; cases hh
    · obtain ⟨hIa, hGa, hMa, hma, hlt, hca, _⟩ := afterCallback_facts hB S hI hG hg
      have hna : unl U (afterCallback S st g) ≤ fuel := by
        have := unl_lt (U := U) (keys_sub_of_all_sub hMa.all) hgU hg (Dict.mem_keys_of_mem hma)
        omega
      cases hl : loadCalls (internal S fuel) st.next (afterCallback S st g) (S.calls g) with
      | mk st2 r2 =>
        rw [hl] at h
        have hnf := loadCalls_fuel (internal_safe hB S fuel) (internal_fuel hB S U hU fuel) st.next hI.le
          (S.calls g) _ st2 r2 hIa hGa hlt hca (fun x hx => hU g hgU x hx) hna hl
        cases r2 with
        | ok => simp only at h; split at h <;> (cases h; intro hh; cases hh)
        | fuel => exact absurd rfl hnf
        | fail k => simp only at h; cases h; intro hh; cases hh

end fuel

theorem finishMain_not_fuel (S : Spec) (b : St) (f : File) (st1 : St) : (finishMain S b f st1).2.1 ≠ .fuel := by
  unfold finishMain
  simp only
  split
  · intro hh; cases hh
  · split
    · intro hh; cases hh
    · split <;> (intro hh; cases hh)

theorem loadMain_fuel (S : Spec) (U : List File) (hU : ∀ h ∈ U, ∀ x, some x ∈ S.calls h → x ∈ U)
    (fuel : Nat) (st0 : St) (f : File) (hfU : f ∈ U) (hwf : WF (base S st0))
    (hn : unl U (base S st0) ≤ fuel) : (loadMain S fuel st0 f).2.1 ≠ .fuel := by
  have hB := hwf.baseOK
  rw [loadMain_unfold]
  split
  · split <;> (intro hh; cases hh)
  · rename_i hnc
    split
    · intro hh; cases hh
    · have hfk : S.glob = true → f ∉ (base S st0).all.keys := fun hg => by
        have : (base S st0).all.has f = false := by
          cases hh : (base S st0).all.has f
          · rfl
          · rw [hg, hh] at hnc; simp at hnc
        exact (Dict.has_false_iff _ _).1 this
      obtain ⟨hIa, hGa, _, hlt, hca, _, _, _⟩ := mainStart_facts S hwf f hfk
      have hna : unl U (mainStart S (base S st0) f) ≤ fuel :=
        Nat.le_trans (unl_le (B_keys_sub hIa)) hn
      cases hl : loadCalls (internal S fuel) (base S st0).next (mainStart S (base S st0) f) (S.calls f) with
      | mk st1 r1 =>
        have hnf := loadCalls_fuel (internal_safe hB S fuel) (internal_fuel hB S U hU fuel) _ (Nat.le_refl _)
          (S.calls f) _ st1 r1 hIa hGa hlt hca (fun x hx => hU f hfU x hx) hna hl
        cases r1 with
        | ok => exact finishMain_not_fuel S _ f st1
        | fuel => exact absurd rfl hnf
        | fail k => intro hh; cases hh

theorem unl_le_length (U : List File) (st : St) : unl U st ≤ U.length := List.length_filter_le _ _


/-! ## local models = direct imports in first-occurrence order -/

/-- append the files of `gs` that are not present yet, in order -/
def addKeys : List File → List File → List File
  | acc, [] => acc
  | acc, g :: gs => addKeys (if g ∈ acc then acc else acc ++ [g]) gs

/-- the files a model of file `f` asks `load_model` for, in call order -/
def callFiles (S : Spec) (f : File) : List File := (S.calls f).filterMap id

/-- the local dict of model `m` lists its direct imports, first occurrence first -/
def LocDone (S : Spec) (st : St) (m : Inst) : Prop :=
  (st.loc m).keys = addKeys [] (callFiles S (st.fileOf m))

theorem addKeys_find? (q : File → Bool) : ∀ (gs acc : List File),
    (addKeys acc gs).find? q = (acc ++ gs).find? q := by
  intro gs
  induction gs with
  | nil => intro acc; simp [addKeys]
  | cons g gs ih =>
    intro acc
    simp only [addKeys]
    split
    · rename_i hmem
      rw [ih acc]
      simp only [List.find?_append, List.find?_cons]
      cases hacc : acc.find? q with
      | some v => simp
      | none =>
        have : q g = false := by
          cases hq : q g
          · rfl
          · have := List.find?_eq_none.1 hacc g hmem
            simp [hq] at this
        simp [this]
    · rw [ih (acc ++ [g])]
      simp [List.append_assoc]

theorem Dict.keys_set_new (d : Dict) (f : File) (i : Inst) (h : f ∉ d.keys) : (d.set f i).keys = d.keys ++ [f] := by
  rw [Dict.set_of_not_mem _ _ _ h]; simp [Dict.keys]

section loc
variable {B : Dict} {n0 : Nat} {L0 : Inst → Dict}

def ParseLoc (S : Spec) (B : Dict) (n0 : Nat) (L0 : Inst → Dict) (parse : Parse) : Prop :=
  ∀ st g st1 j, Inv B n0 L0 st → Good n0 st → g ∉ st.all.keys → parse st g = (st1, .ok, j) →
    ∀ m, st.next ≤ m → m < st1.next → LocDone S st1 m

theorem loadModelWith_loc (S : Spec) {parse : Parse} (hp : ParseSafe B n0 L0 parse) (hl : ParseLoc S B n0 L0 parse)
    {st st1 : St} {i : Inst} {g : File}
    (hI : Inv B n0 L0 st) (hG : Good n0 st) (hi : i < st.next)
    (h : loadModelWith parse st i g = (st1, .ok)) :
    (st1.loc i).keys = (if g ∈ (st.loc i).keys then (st.loc i).keys else (st.loc i).keys ++ [g]) ∧
      ∀ m, st.next ≤ m → m < st1.next → LocDone S st1 m := by
  unfold loadModelWith at h
  split at h
  · rename_i hloc
    cases h
    have : g ∈ (st.loc i).keys := (Dict.has_iff _ _).1 hloc
    exact ⟨by simp [this], fun m h1 h2 => absurd h2 (Nat.not_lt.2 h1)⟩
  · rename_i hnl
    have hgl : g ∉ (st.loc i).keys := (Dict.has_false_iff _ _).1 (by simpa using hnl)
    split at h
    · cases h
      refine ⟨?_, fun m h1 h2 => absurd h2 (Nat.not_lt.2 h1)⟩
      simp only [hgl, if_false, St.setLoc, upd, if_true]
      exact Dict.keys_set_new _ _ _ hgl
    · rename_i hna
      have hgk : g ∉ st.all.keys := (Dict.has_false_iff _ _).1 (by simpa using hna)
      cases hpe : parse st g with
      | mk st' rj =>
        obtain ⟨r', j⟩ := rj
        rw [hpe] at h
        cases r' with
        | ok =>
          simp only at h
          have hst1 : st1 = (st'.setAll g j).setLoc i g j := by cases h; rfl
          obtain ⟨_, hok⟩ := hp st g st' .ok j hI hG hgk hpe
          obtain ⟨hG', hM, hm, _⟩ := hok rfl
          have heq : st'.setAll g j = st' := setAll_mem_eq hG'.nodup g j hm
          rw [heq] at hst1
          subst hst1
          have hloci : st'.loc i = st.loc i := hM.loc i hi (Nat.ne_of_lt hi)
          refine ⟨?_, ?_⟩
          · simp only [hgl, if_false, St.setLoc, upd, if_true, hloci]
            exact Dict.keys_set_new _ _ _ hgl
          · intro m h1 h2
            have hd := hl st g st' j hI hG hgk hpe m h1 h2
            have hne : m ≠ i := fun hh => by rw [hh] at h1; exact absurd hi (Nat.not_lt.2 h1)
            unfold LocDone at hd ⊢
            simp only [St.setLoc, upd, hne, if_false]
            exact hd
        | fail k => simp only at h; cases h
        | fuel => simp only at h; cases h

theorem loadCalls_loc (S : Spec) {parse : Parse} (hp : ParseSafe B n0 L0 parse) (hl : ParseLoc S B n0 L0 parse)
    (i : Inst) (hi0 : n0 ≤ i) :
    ∀ (cs : List (Option File)) (st st1 : St), Inv B n0 L0 st → Good n0 st → i < st.next →
      st.constr i = true → loadCalls parse i st cs = (st1, .ok) →
      (st1.loc i).keys = addKeys (st.loc i).keys (cs.filterMap id) ∧
        ∀ m, st.next ≤ m → m < st1.next → LocDone S st1 m := by
  intro cs
  induction cs with
  | nil =>
    intro st st1 _ _ _ _ h
    simp only [loadCalls] at h; cases h
    exact ⟨by simp [addKeys], fun m h1 h2 => absurd h2 (Nat.not_lt.2 h1)⟩
  | cons c cs ih =>
    intro st st1 hI hG hi hc h
    simp only [loadCalls] at h
    have hI1 := registerSelf_inv hI i hi0 hc
    have hG1 := registerSelf_good (n0 := n0) hG i hi
    cases c with
    | none => simp only at h; cases h
    | some g =>
      simp only at h
      cases hlm : loadModelWith parse (st.registerSelf i) i g with
      | mk st2 r2 =>
        rw [hlm] at h
        have hi1 : i < (st.registerSelf i).next := by rw [registerSelf_next]; exact hi
        obtain ⟨hI2, hok2⟩ := loadModelWith_safe hp hI1 hG1 hi0 hi1 hlm
        cases r2 with
        | ok =>
          simp only at h
          obtain ⟨hG2, hM2, _⟩ := hok2 rfl
          have hi2 : i < st2.next := Nat.lt_of_lt_of_le hi1 hM2.next
          have hc2 : st2.constr i = true := by rw [hM2.constr i hi1, registerSelf_constr]; exact hc
          obtain ⟨hk2, hd2⟩ := loadModelWith_loc S hp hl hI1 hG1 hi1 hlm
          obtain ⟨hk1, hd1⟩ := ih st2 st1 hI2 hG2 hi2 hc2 h
          obtain ⟨_, hM3, _⟩ := (loadCalls_safe hp i hi0 cs st2 st1 .ok hI2 hG2 hi2 hc2 h).2 rfl
          have hlocr : (st.registerSelf i).loc = st.loc := by unfold St.registerSelf; split <;> rfl
          refine ⟨?_, ?_⟩
          · rw [hk1, hk2, hlocr]
            simp only [List.filterMap_cons, id, addKeys]
          · intro m h1 h2
            rw [← registerSelf_next st i] at h1
            rcases Nat.lt_or_ge m st2.next with hlt | hge
            · have hd := hd2 m h1 hlt
              have hne : m ≠ i := fun hh => by rw [hh] at h1; exact absurd hi1 (Nat.not_lt.2 h1)
              unfold LocDone at hd ⊢
              rw [hM3.loc m hlt hne, hM3.fileOf m hlt]
              exact hd
            · exact hd1 m hge h2
        | fail k => simp only at h; cases h
        | fuel => simp only at h; cases h

theorem afterCallback_loc (S : Spec) (st : St) (g : File) : (afterCallback S st g).loc st.next = [] := by
  simp [afterCallback, St.setAll, St.alloc, upd]

theorem internal_loc (hB : BaseOK B n0 L0) (S : Spec) : ∀ fuel, ParseLoc S B n0 L0 (internal S fuel)
  | 0 => by
    intro st g st1 j _ _ _ h
    simp only [internal] at h; cases h
  | fuel + 1 => by
    intro st g st1 j hI hG hg h m h1 h2
    rw [internal_unfold] at h
    split at h
    · cases h
    · obtain ⟨hIa, hGa, hMa, hma, hlt, hca, hnext⟩ := afterCallback_facts hB S hI hG hg
      cases hl : loadCalls (internal S fuel) st.next (afterCallback S st g) (S.calls g) with
      | mk st2 r2 =>
        rw [hl] at h
        cases r2 with
        | ok =>
          simp only at h
          split at h
          · cases h
          · cases h
            obtain ⟨hk, hd⟩ := loadCalls_loc S (internal_safe hB S fuel) (internal_loc hB S fuel) st.next hI.le
              (S.calls g) _ st1 hIa hGa hlt hca hl
            have hS := loadCalls_stable (internal_stable S fuel) st.next (S.calls g) (afterCallback S st g)
            rw [hl] at hS
            rcases Nat.eq_or_lt_of_le h1 with heq | hgt
            · subst heq
              unfold LocDone
              rw [hk, afterCallback_loc, hS.fileOf _ hlt, afterCallback_fileOf]
              rfl
            · exact hd m (by rw [hnext]; exact hgt) h2
        | fuel => simp only at h; cases h
        | fail k => simp only at h; cases h

end loc

theorem finishMain_ok_same (S : Spec) (b : St) (f : File) (st1 st' : St) (j : Inst)
    (h : finishMain S b f st1 = (st', .ok, j)) :
    st'.loc = st1.loc ∧ st'.fileOf = st1.fileOf ∧ st'.next = st1.next ∧ st'.defsOf = st1.defsOf := by
  unfold finishMain at h
  simp only at h
  split at h
  · cases h
  · split at h
    · cases h
    · split at h
      · cases h
      · cases h; exact ⟨rfl, rfl, rfl, rfl⟩

theorem mainStart_loc (S : Spec) (b : St) (f : File) : (mainStart S b f).loc b.next = [] := by
  unfold mainStart
  cases S.glob <;> simp [St.setAll, St.alloc, upd]

theorem mainStart_next (S : Spec) (b : St) (f : File) : (mainStart S b f).next = b.next + 1 := by
  unfold mainStart
  cases S.glob <;> rfl

/-- after a successful main load, every model constructed in it lists exactly its
direct imports, first occurrence first -/
theorem loadMain_loc (S : Spec) (fuel : Nat) (st0 : St) (f : File) {st' : St} {j : Inst}
    (hwf : WF (base S st0)) (h : loadMain S fuel st0 f = (st', .ok, j)) :
    ∀ m, st0.next ≤ m → m < st'.next → LocDone S st' m := by
  have hB := hwf.baseOK
  intro m h1 h2
  rw [← base_next S st0] at h1
  rw [loadMain_unfold] at h
  split at h
  · split at h
    · cases h
    · cases h; exact absurd h2 (Nat.not_lt.2 h1)
  · rename_i hnc
    split at h
    · cases h
    · have hfk : S.glob = true → f ∉ (base S st0).all.keys := fun hg => by
        have : (base S st0).all.has f = false := by
          cases hh : (base S st0).all.has f
          · rfl
          · rw [hg, hh] at hnc; simp at hnc
        exact (Dict.has_false_iff _ _).1 this
      obtain ⟨hIa, hGa, _, hlt, hca, _, hfa, _⟩ := mainStart_facts S hwf f hfk
      cases hl : loadCalls (internal S fuel) (base S st0).next (mainStart S (base S st0) f) (S.calls f) with
      | mk st1 r1 =>
        rw [hl] at h
        cases r1 with
        | fuel => simp only at h; cases h
        | fail k => simp only at h; cases h
        | ok =>
          simp only at h
          obtain ⟨e1, e2, e3, _⟩ := finishMain_ok_same S _ f st1 st' j h
          obtain ⟨hk, hd⟩ := loadCalls_loc S (internal_safe hB S fuel) (internal_loc hB S fuel) _ (Nat.le_refl _)
            (S.calls f) _ st1 hIa hGa hlt hca hl
          have hS := loadCalls_stable (internal_stable S fuel) (base S st0).next (S.calls f) (mainStart S (base S st0) f)
          rw [hl] at hS
          unfold LocDone
          rw [e1, e2]
          rw [e3] at h2
          rcases Nat.eq_or_lt_of_le h1 with heq | hgt
          · subst heq
            rw [hk, mainStart_loc, hS.fileOf _ hlt, hfa]
            rfl
          · exact hd m (by rw [mainStart_next]; exact hgt) h2

end Repo
