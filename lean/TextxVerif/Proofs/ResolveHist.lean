import TextxVerif.ResolveHist
/-! Lemmas about the repository between loads (C09): between two loads nothing is under construction,
and a load only sees its own freshly parsed files. -/
namespace Resolve

theorem building_clean (repo : Repo) (h : Clean repo) : building repo = [] := by
  unfold building
  rw [List.filterMap_eq_nil_iff]
  intro m hm
  exact h m hm

theorem building_addFiles (repo : Repo) (files : Prog) (h : Clean repo) :
    building (addFiles repo files) = (freshFiles (repo.map (·.key)) files).map (·.2) := by
  unfold addFiles building
  rw [List.filterMap_append]
  have h0 : List.filterMap (·.pending) repo = [] := building_clean repo h
  rw [h0, List.nil_append, List.filterMap_map]
  induction freshFiles (repo.map (·.key)) files with
  | nil => rfl
  | cons f fs ih => simp [List.filterMap_cons, ih]

theorem clean_finish (repo : Repo) : Clean (repo.map fun m => { m with pending := none }) := by
  intro m hm
  rcases List.mem_map.1 hm with ⟨x, _, rfl⟩
  rfl

theorem clean_remove (repo : Repo) : Clean (repo.filter fun m => m.pending.isNone) := by
  intro m hm
  have := (List.mem_filter.1 hm).2
  cases hp : m.pending with
  | none => rfl
  | some x => simp [hp] at this

theorem keys_finish (repo : Repo) :
    (repo.map fun m => ({ m with pending := none } : RModel)).map (·.key) = repo.map (·.key) := by
  simp [List.map_map, Function.comp_def]

theorem filter_clean (repo : Repo) (h : Clean repo) : repo.filter (fun m => m.pending.isNone) = repo := by
  rw [List.filter_eq_self]
  intro m hm
  simp [h m hm]

/-- a failed load leaves the repository as it found it -/
theorem remove_addFiles (repo : Repo) (files : Prog) (h : Clean repo) :
    (addFiles repo files).filter (fun m => m.pending.isNone) = repo := by
  unfold addFiles
  rw [List.filter_append, filter_clean repo h]
  have : List.filter (fun m : RModel => m.pending.isNone)
      ((freshFiles (repo.map (·.key)) files).map fun f => ({ key := f.1, pending := some f.2 } : RModel)) = [] := by
    rw [List.filter_eq_nil_iff]
    intro m hm
    rcases List.mem_map.1 hm with ⟨x, _, rfl⟩
    simp
  rw [this, List.append_nil]

theorem keys_addFiles (repo : Repo) (files : Prog) :
    (addFiles repo files).map (·.key) =
      repo.map (·.key) ++ (freshFiles (repo.map (·.key)) files).map (·.1) := by
  unfold addFiles
  simp [List.map_append, List.map_map, Function.comp_def]

theorem runH_eq_specH (glob : Bool) : ∀ (hist : List (Provider × Prog)) (repo : Repo), Clean repo →
    runH glob repo hist = specH glob (repo.map (·.key)) hist
  | [], _, _ => rfl
  | (P, files) :: rest, repo, h => by
      have hb := building_addFiles repo files h
      simp only [runH, specH, loadH, hb]
      by_cases hok : (loopFiles P
          (((freshFiles (repo.map (·.key)) files).map (·.2)).flatten.length + 1)
          ((freshFiles (repo.map (·.key)) files).map (·.2)) []).1.flatten = []
      · simp only [hok, if_true]
        congr 1
        cases glob with
        | false =>
          simpa using runH_eq_specH false rest [] (by intro m hm; cases hm)
        | true =>
          have := runH_eq_specH true rest _ (clean_finish (addFiles repo files))
          simp only [if_true] at this ⊢
          rw [this, keys_finish, keys_addFiles]
      · simp only [hok, if_false]
        congr 1
        cases glob with
        | false =>
          simpa using runH_eq_specH false rest [] (by intro m hm; cases hm)
        | true =>
          have := runH_eq_specH true rest _ (clean_remove (addFiles repo files))
          simp only [if_true] at this ⊢
          rw [this, remove_addFiles repo files h]

end Resolve
