import TextxVerif.Proofs.TxSim
/-!
# The compiler's node emission produces a table that represents the expression

`Tx.emit` (Compile.lean) lays an expression out in pre-order.  For the rule-free
fragment of `TxSim.lean` the emitted block, placed anywhere in a table, satisfies
`Sim.Repr`: the simulation theorem applies to what the compiler produces.
-/
namespace Tx.Sim
open Peg Tx

mutual
/-- the fragment of `Sim.Repr` as a decidable predicate -/
def frag : Expr → Bool
  | .str .. => true
  | .seq xs _ | .alt xs _ => fragAll xs
  | .rep _ x sep eol _ => sep.isNone && !eol && frag x
  | _ => false
def fragAll : List Expr → Bool
  | [] => true
  | x :: xs => frag x && fragAll xs
end

mutual
theorem emit_length (rootOf : String → Nat) : ∀ (e : Expr) (n : Nat), (emit rootOf e n).length = size e
  | .str .., _ => by simp [emit, size]
  | .re .., _ => by simp [emit, size]
  | .ref _ sup, _ => by cases sup <;> simp [emit, size]
  | .seq xs _, n => by simp [emit, size, emitList_length rootOf xs (n+1)]; omega
  | .alt xs _, n => by simp [emit, size, emitList_length rootOf xs (n+1)]; omega
  | .rep _ x sep _ _, n => by
      cases sep <;> simp [emit, size, sepNodes, sepSize, emit_length rootOf x (n+1)] <;> omega
  | .unord xs sep _ _, n => by
      cases sep <;> simp [emit, size, sepNodes, sepSize, emitList_length rootOf xs (n+1)] <;> omega
  | .asgn _ _ rhs sep _ _, n => by
      cases sep <;> simp [emit, size, sepNodes, sepSize, emit_length rootOf rhs (n+1)] <;> omega
  | .pred _ x _, n => by simp [emit, size, emit_length rootOf x (n+1)]; omega
theorem emitList_length (rootOf : String → Nat) : ∀ (xs : List Expr) (n : Nat),
    (emitList rootOf xs n).length = sizeList xs
  | [], _ => by simp [emitList, sizeList]
  | x :: xs, n => by
      simp [emitList, sizeList, emit_length rootOf x n, emitList_length rootOf xs (n + size x)]
end

/-- the Arpeggio table of a list of compiled nodes -/
def table (l : List CNode) : Array Node := (l.map (·.node)).toArray

theorem table_at (pre post : List CNode) (c : CNode) :
    (table (pre ++ c :: post))[pre.length]? = some c.node := by
  simp [table]

theorem idOf_frag (rootOf : String → Nat) (e : Expr) (n : Nat) (h : frag e = true) : idOf rootOf e n = n := by
  cases e <;> simp [frag] at h <;> simp [idOf]

mutual
theorem emit_repr (rootOf : String → Nat) : ∀ (e : Expr), frag e = true → ∀ (pre post : List CNode),
    Repr (table (pre ++ emit rootOf e pre.length ++ post)) e pre.length
  | .str t v sup, _, pre, post => by
      refine ⟨_, by simpa [emit] using table_at pre post _, rfl, rfl, rfl, rfl⟩
  | .seq xs sup, h, pre, post => by
      simp only [frag] at h
      have hl := emitList_repr rootOf xs h
        (pre ++ [{ node := { kind := .seq, kids := kidIds rootOf xs (pre.length+1), suppress := sup } }]) post
      simp only [List.length_append, List.length_cons, List.length_nil, Nat.zero_add, List.append_assoc,
        List.singleton_append] at hl
      refine ⟨_, by simpa [emit] using table_at pre (emitList rootOf xs (pre.length+1) ++ post) _,
        rfl, rfl, rfl, rfl, rfl, ?_⟩
      simpa [emit] using hl
  | .alt xs sup, h, pre, post => by
      simp only [frag] at h
      have hl := emitList_repr rootOf xs h
        (pre ++ [{ node := { kind := .choice, kids := kidIds rootOf xs (pre.length+1), suppress := sup } }]) post
      simp only [List.length_append, List.length_cons, List.length_nil, Nat.zero_add, List.append_assoc,
        List.singleton_append] at hl
      refine ⟨_, by simpa [emit] using table_at pre (emitList rootOf xs (pre.length+1) ++ post) _,
        rfl, rfl, rfl, rfl, rfl, ?_⟩
      simpa [emit] using hl
  | .rep op x sep eol sup, h, pre, post => by
      cases sep with
      | some _ => simp [frag] at h
      | none =>
      cases eol with
      | true => simp [frag] at h
      | false =>
        simp only [frag, Bool.not_false, Bool.true_and, Option.isNone_none] at h
        have hx := emit_repr rootOf x h
          (pre ++ [{ node := { kind := repKind op, kids := [idOf rootOf x (pre.length+1)], suppress := sup,
                               eolterm := false, sep := none } }]) post
        simp only [List.length_append, List.length_cons, List.length_nil, Nat.zero_add, List.append_assoc,
          List.singleton_append] at hx
        refine ⟨_, pre.length + 1, by simpa [emit, sepNodes] using table_at pre (emit rootOf x (pre.length+1) ++ post) _,
          rfl, rfl, rfl, rfl, rfl, by simp [idOf_frag rootOf x _ h], ?_⟩
        simpa [emit, sepNodes] using hx
  | .re .., h, _, _ => by simp [frag] at h
  | .ref .., h, _, _ => by simp [frag] at h
  | .unord .., h, _, _ => by simp [frag] at h
  | .asgn .., h, _, _ => by simp [frag] at h
  | .pred .., h, _, _ => by simp [frag] at h
theorem emitList_repr (rootOf : String → Nat) : ∀ (xs : List Expr), fragAll xs = true → ∀ (pre post : List CNode),
    ReprList (table (pre ++ emitList rootOf xs pre.length ++ post)) xs (kidIds rootOf xs pre.length)
  | [], _, _, _ => by simp [ReprList, kidIds]
  | x :: xs, h, pre, post => by
      simp only [fragAll, Bool.and_eq_true] at h
      have h1 := emit_repr rootOf x h.1 pre (emitList rootOf xs (pre.length + size x) ++ post)
      have h2 := emitList_repr rootOf xs h.2 (pre ++ emit rootOf x pre.length) post
      simp only [List.length_append, emit_length, List.append_assoc] at h1 h2
      simp only [emitList, kidIds, ReprList, idOf_frag rootOf x _ h.1, List.append_assoc]
      exact ⟨h1, h2⟩
end

end Tx.Sim
