import TextxVerif.Proofs.Repo
/-!
The main load (`loadMain`): what a failing load leaves behind (C18) and what a
successful one establishes (C17 identity), from the safety invariant of
`Proofs/Repo.lean`.
-/
namespace Repo

/-- the shared dict the main model starts from -/
def base (S : Spec) (st0 : St) : St := if S.glob then st0 else { st0 with all := [] }

/-- the state in which the imports of the main model are followed -/
def mainStart (S : Spec) (b : St) (f : File) : St :=
  let st := ({ b with reads := f :: b.reads } : St).alloc S f
  if S.glob then st.setAll f b.next else st

/-- the `is_main_model` part of `parse_tree_to_objgraph` and the model processors -/
def finishMain (S : Spec) (b : St) (f : File) (st1 : St) : St × Res × Inst :=
  let j := b.next
  let models := (included st1 j).filter st1.constr
  if models.any (fun m => (resolveAll S st1 m).any (·.isNone)) then
    (cleanupA (removeFromRepos st1 models models) j, .fail .semantic, 0)
  else
    let st2 := (st1.setTargets S models).endConstruction models
    if models.any (fun m => S.objFault (st2.fileOf m)) then
      (cleanupA (removeFromRepos st2 models models) j, .fail .objproc, 0)
    else if S.modFault f then (removeNew S.glob st2 b.all.vals, .fail .modproc, 0)
    else (st2, .ok, j)

theorem loadMain_unfold (S : Spec) (fuel : Nat) (st0 : St) (f : File) :
    loadMain S fuel st0 f =
      if (S.glob && (base S st0).all.has f) = true then
        if S.modFault f then (removeNew S.glob (base S st0) (base S st0).all.vals, .fail .modproc, 0)
        else (base S st0, .ok, ((base S st0).all.get? f).getD 0)
      else if S.syntaxErr f then ({ base S st0 with reads := f :: (base S st0).reads }, .fail .syntax, 0)
      else match loadCalls (internal S fuel) (base S st0).next (mainStart S (base S st0) f) (S.calls f) with
        | (st1, .fuel) => (st1, .fuel, 0)
        | (st1, .fail k) => (cleanupA st1 (base S st0).next, .fail k, 0)
        | (st1, .ok) => finishMain S (base S st0) f st1 := by
  rfl

/-- a state between loads: the cache is a dict of finished models that only know finished models -/
structure WF (st : St) : Prop where
  nodup : st.all.keys.Nodup
  lt : ∀ e ∈ st.all, e.2 < st.next
  file : ∀ e ∈ st.all, st.fileOf e.2 = e.1
  locIn : ∀ e ∈ st.all, ∀ x ∈ st.loc e.2, x ∈ st.all
  noConstr : ∀ e ∈ st.all, st.constr e.2 = false

theorem WF.base {st0 : St} (h : WF st0) (S : Spec) : WF (base S st0) := by
  unfold Repo.base
  split
  · exact h
  · exact ⟨by simp [Dict.keys], by simp, by simp, by simp, by simp⟩

theorem WF.baseOK {b : St} (h : WF b) : BaseOK b.all b.next b.loc := ⟨h.lt, h.locIn⟩

theorem WF.inv {b : St} (h : WF b) : Inv b.all b.next b.loc b where
  split := ⟨[], by simp, by simp⟩
  oldc := h.noConstr
  newc := fun e he hge => absurd (h.lt e he) (Nat.not_lt.2 hge)
  frame := fun _ _ => rfl
  le := Nat.le_refl _

theorem WF.good {b : St} (h : WF b) : Good b.next b where
  nodup := h.nodup
  lt := h.lt
  file := h.file
  locIn := fun _ h1 h2 => absurd h2 (Nat.not_lt.2 h1)

/-! ## the weak invariant: what survives the end of construction -/

structure InvW (B : Dict) (n0 : Nat) (L0 : Inst → Dict) (st : St) : Prop where
  split : ∃ N, st.all = B ++ N ∧ ∀ e ∈ N, n0 ≤ e.2
  oldc : ∀ e ∈ B, st.constr e.2 = false
  frame : ∀ i, i < n0 → st.loc i = L0 i
  le : n0 ≤ st.next

section weak
variable {B : Dict} {n0 : Nat} {L0 : Inst → Dict}

theorem Inv.toW {st : St} (h : Inv B n0 L0 st) : InvW B n0 L0 st := ⟨h.split, h.oldc, h.frame, h.le⟩

theorem InvW.mem_B_of_lt {st : St} (hI : InvW B n0 L0 st) (e : File × Inst) (he : e ∈ st.all) (hlt : e.2 < n0) :
    e ∈ B := by
  obtain ⟨N, hN, hge⟩ := hI.split
  rw [hN] at he
  rcases List.mem_append.1 he with h | h
  · exact h
  · exact absurd (hge e h) (Nat.not_le.2 hlt)

theorem removeFromRepos_invW {st : St} (hB : BaseOK B n0 L0) (hI : InvW B n0 L0 st) (models rm : List Inst)
    (hrm : ∀ m ∈ rm, n0 ≤ m) (hmod : ∀ m ∈ models, m < n0 → m ∈ B.vals) :
    InvW B n0 L0 (removeFromRepos st models rm) := by
  unfold removeFromRepos
  split
  · exact hI
  · have keepB : ∀ e ∈ B, (rm.contains e.2) = false := fun e he => by
      have h1 := hB.lt e he
      cases hc : rm.contains e.2
      · rfl
      · have h2 := hrm e.2 (by simpa using hc)
        exact absurd h2 (Nat.not_le.2 h1)
    exact
    { split := by
        obtain ⟨N, hN, hge⟩ := hI.split
        refine ⟨N.removeVals (rm.contains ·), ?_, ?_⟩
        · simp only [hN, Dict.removeVals_append, Dict.removeVals_eq_self B _ keepB]
        · intro e he
          exact hge e ((Dict.mem_removeVals _ _ _).1 he).1
      oldc := hI.oldc
      frame := fun k hk => by
        simp only
        split
        · rename_i hmem
          have hkB : k ∈ B.vals := hmod k (by simpa using hmem) hk
          obtain ⟨e, heB, hek⟩ := List.mem_map.1 hkB
          rw [hI.frame k hk]
          apply Dict.removeVals_eq_self
          intro x hx
          have hxB : x ∈ B := hB.loc e heB x (by rw [hek]; exact hx)
          exact keepB x hxB
        · exact hI.frame k hk
      le := hI.le }

theorem includedW_lt_mem_B {st : St} (hI : InvW B n0 L0 st) (j : Inst) (hj : n0 ≤ j) :
    ∀ m ∈ included st j, m < n0 → m ∈ B.vals := by
  intro m hm hlt
  have hmv : m ∈ st.all.vals := by
    unfold included at hm
    split at hm
    · exact hm
    · rcases List.mem_append.1 hm with h | h
      · exact h
      · have hmj : m = j := by simpa using h
        rw [hmj] at hlt
        exact absurd hj (Nat.not_le.2 hlt)
  obtain ⟨e, he, hem⟩ := List.mem_map.1 hmv
  have := hI.mem_B_of_lt e he (by rw [hem]; exact hlt)
  exact List.mem_map.2 ⟨e, this, hem⟩

theorem constrW_included_ge {st : St} (hI : InvW B n0 L0 st) (j : Inst) (hj : n0 ≤ j) :
    ∀ m ∈ (included st j).filter st.constr, n0 ≤ m := by
  intro m hm
  obtain ⟨hin, hc⟩ := List.mem_filter.1 hm
  rcases Nat.lt_or_ge m n0 with hlt | hge
  · have hmB := includedW_lt_mem_B hI j hj m hin hlt
    obtain ⟨e, heB, hem⟩ := List.mem_map.1 hmB
    have h1 := hI.oldc e heB
    rw [hem] at h1
    rw [h1] at hc; cases hc
  · exact hge

theorem cleanupA_invW {st : St} (hB : BaseOK B n0 L0) (hI : InvW B n0 L0 st) (j : Inst) (hj : n0 ≤ j) :
    InvW B n0 L0 (cleanupA st j) :=
  removeFromRepos_invW hB hI _ _ (constrW_included_ge hI j hj) (includedW_lt_mem_B hI j hj)

theorem included_ne_nil (st : St) (j : Inst) : (included st j).isEmpty = false := by
  unfold included
  split
  · rename_i h
    cases hv : st.all.vals with
    | nil => rw [hv] at h; simp at h
    | cons a l => rfl
  · simp

theorem mem_included_of_mem_all {st : St} (j : Inst) (e : File × Inst) (he : e ∈ st.all) : e.2 ∈ included st j := by
  unfold included
  split
  · exact Dict.mem_vals_of_mem he
  · exact List.mem_append_left _ (Dict.mem_vals_of_mem he)

theorem self_mem_included (st : St) (j : Inst) : j ∈ included st j := by
  unfold included
  split
  · rename_i h; simpa using h
  · simp

/-- removing every model of the load from the shared dict gives back the initial dict -/
theorem removeFromRepos_all_B {st : St} (hB : BaseOK B n0 L0) (hI : InvW B n0 L0 st) (models rm : List Inst)
    (hne : models.isEmpty = false) (hrm : ∀ m ∈ rm, n0 ≤ m)
    (hall : ∀ e ∈ st.all, n0 ≤ e.2 → e.2 ∈ rm) : (removeFromRepos st models rm).all = B := by
  unfold removeFromRepos
  rw [hne]
  simp only [Bool.false_eq_true, if_false]
  obtain ⟨N, hN, hge⟩ := hI.split
  have keepB : ∀ e ∈ B, (rm.contains e.2) = false := fun e he => by
    have h1 := hB.lt e he
    cases hc : rm.contains e.2
    · rfl
    · have h2 := hrm e.2 (by simpa using hc)
      exact absurd h2 (Nat.not_le.2 h1)
  have dropN : ∀ e ∈ N, (rm.contains e.2) = true := fun e he => by
    have : e ∈ st.all := by rw [hN]; exact List.mem_append_right _ he
    simpa using hall e this (hge e he)
  rw [hN, Dict.removeVals_append, Dict.removeVals_eq_self B _ keepB, Dict.removeVals_eq_nil N _ dropN]
  simp

theorem cleanupA_all_B {st : St} (hB : BaseOK B n0 L0) (hI : Inv B n0 L0 st) (j : Inst) (hj : n0 ≤ j) :
    (cleanupA st j).all = B := by
  unfold cleanupA
  refine removeFromRepos_all_B hB hI.toW _ _ (included_ne_nil st j) (constr_included_ge hI j hj) ?_
  intro e he hge
  exact List.mem_filter.2 ⟨mem_included_of_mem_all j e he, hI.newc e he hge⟩

/-- a second clean-up of an already clean dict changes nothing -/
theorem cleanupA_all_B_again {st : St} (hB : BaseOK B n0 L0) (hI : InvW B n0 L0 st) (j : Inst) (hj : n0 ≤ j)
    (hall : st.all = B) : (cleanupA st j).all = B := by
  unfold cleanupA
  refine removeFromRepos_all_B hB hI _ _ (included_ne_nil st j) (constrW_included_ge hI j hj) ?_
  intro e he hge
  rw [hall] at he
  exact absurd (hB.lt e he) (Nat.not_lt.2 hge)

end weak


/-! ## the main load -/

theorem removeNew_spec {B : Dict} {n0 : Nat} {L0 : Inst → Dict} {st : St} (hB : BaseOK B n0 L0)
    (hI : InvW B n0 L0 st) (glob : Bool) :
    InvW B n0 L0 (removeNew glob st B.vals) ∧ (glob = true → (removeNew glob st B.vals).all = B) := by
  unfold removeNew
  cases glob with
  | false => exact ⟨hI, fun h => by cases h⟩
  | true =>
    simp only [if_true]
    obtain ⟨N, hN, hge⟩ := hI.split
    have keepB : ∀ e ∈ B, (!B.vals.contains e.2) = false := fun e he => by
      have : e.2 ∈ B.vals := Dict.mem_vals_of_mem he
      simpa using this
    have dropN : ∀ e ∈ N, (!B.vals.contains e.2) = true := fun e he => by
      have h1 := hge e he
      cases hc : B.vals.contains e.2
      · rfl
      · obtain ⟨x, hx, hxe⟩ := List.mem_map.1 (show e.2 ∈ B.vals by simpa using hc)
        have h2 := hB.lt x hx
        rw [hxe] at h2
        exact absurd h1 (Nat.not_le.2 h2)
    have hall : (st.all.removeVals fun j => !B.vals.contains j) = B := by
      rw [hN, Dict.removeVals_append, Dict.removeVals_eq_self B _ keepB, Dict.removeVals_eq_nil N _ dropN]
      simp
    refine ⟨⟨⟨[], ?_, by simp⟩, hI.oldc, hI.frame, hI.le⟩, fun _ => hall⟩
    rw [List.append_nil]; exact hall

theorem removeNew_stable (glob : Bool) (st : St) (before : List Inst) : Stable st (removeNew glob st before) := by
  unfold removeNew; split
  · exact Stable.of_eq rfl rfl rfl
  · exact Stable.refl _

theorem mainStart_facts (S : Spec) {b : St} (hwf : WF b) (f : File) (hf : S.glob = true → f ∉ b.all.keys) :
    Inv b.all b.next b.loc (mainStart S b f) ∧ Good b.next (mainStart S b f) ∧ Stable b (mainStart S b f) ∧
      b.next < (mainStart S b f).next ∧ (mainStart S b f).constr b.next = true ∧
      (S.glob = true → (f, b.next) ∈ (mainStart S b f).all) ∧ (mainStart S b f).fileOf b.next = f ∧
      (mainStart S b f).reads = f :: b.reads := by
  unfold mainStart
  cases hg : S.glob with
  | true =>
    simp only [if_true]
    obtain ⟨h1, h2, _, h4, h5, h6, _⟩ := afterCallback_facts hwf.baseOK S hwf.inv hwf.good (hf hg)
    refine ⟨h1, h2, afterCallback_stable S b f, h5, h6, fun _ => h4, ?_, rfl⟩
    simp [St.setAll, St.alloc, upd]
  | false =>
    simp only [Bool.false_eq_true, if_false]
    refine ⟨alloc_inv hwf.baseOK (reads_inv hwf.inv _) S f, alloc_good (reads_good hwf.good _) S f, ?_, ?_, ?_,
      (fun h => by cases h), ?_, rfl⟩
    · exact Stable.trans (Stable.of_eq rfl rfl rfl : Stable b ({ b with reads := f :: b.reads } : St))
        (alloc_stable _ S f)
    · exact Nat.lt_succ_self _
    · simp [St.alloc, upd]
    · simp [St.alloc, upd]

/-- the models constructed in this load -/
def modelsOf (st1 : St) (j : Inst) : List Inst := (included st1 j).filter st1.constr

theorem endC_invW {B : Dict} {n0 : Nat} {L0 : Inst → Dict} {st1 : St} (hI : Inv B n0 L0 st1) (S : Spec)
    (models : List Inst) : InvW B n0 L0 ((st1.setTargets S models).endConstruction models) where
  split := hI.split
  oldc := fun e he => by
    simp only [St.endConstruction, St.setTargets]
    split
    · rfl
    · exact hI.oldc e he
  frame := hI.frame
  le := hI.le

theorem finishMain_fail (S : Spec) {b : St} (hwf : WF b) (f : File) {st1 st' : St} {k : Kind} {j : Inst}
    (hI : Inv b.all b.next b.loc st1) (hc : st1.constr b.next = true)
    (h : finishMain S b f st1 = (st', .fail k, j)) :
    InvW b.all b.next b.loc st' ∧ (S.glob = true → st'.all = b.all) ∧ Stable st1 st' := by
  have hB := hwf.baseOK
  have hge : ∀ m ∈ modelsOf st1 b.next, b.next ≤ m := constr_included_ge hI _ (Nat.le_refl _)
  have hjm : b.next ∈ modelsOf st1 b.next := List.mem_filter.2 ⟨self_mem_included _ _, hc⟩
  have hne : (modelsOf st1 b.next).isEmpty = false := by
    cases hm : modelsOf st1 b.next with
    | nil => rw [hm] at hjm; cases hjm
    | cons a l => rfl
  have hmod : ∀ m ∈ modelsOf st1 b.next, m < b.next → m ∈ b.all.vals :=
    fun m hm hlt => absurd (hge m hm) (Nat.not_le.2 hlt)
  have hall : ∀ e ∈ st1.all, b.next ≤ e.2 → e.2 ∈ modelsOf st1 b.next := fun e he hge' =>
    List.mem_filter.2 ⟨mem_included_of_mem_all _ e he, hI.newc e he hge'⟩
  unfold finishMain at h
  simp only at h
  split at h
  · -- unresolved reference
    cases h
    have hX := removeFromRepos_invW hB hI.toW _ _ hge hmod
    have hXall := removeFromRepos_all_B hB hI.toW _ _ hne hge hall
    exact ⟨cleanupA_invW hB hX _ (Nat.le_refl _), fun _ => cleanupA_all_B_again hB hX _ (Nat.le_refl _) hXall,
      (removeFromRepos_stable _ _ _).trans (cleanupA_stable _ _)⟩
  · have hI2 := endC_invW hI S (modelsOf st1 b.next)
    have hS2 : Stable st1 ((st1.setTargets S (modelsOf st1 b.next)).endConstruction (modelsOf st1 b.next)) :=
      Stable.of_eq rfl rfl rfl
    split at h
    · -- object processor
      cases h
      have hX := removeFromRepos_invW hB hI2 _ _ hge hmod
      have hXall := removeFromRepos_all_B hB hI2 _ _ hne hge hall
      exact ⟨cleanupA_invW hB hX _ (Nat.le_refl _), fun _ => cleanupA_all_B_again hB hX _ (Nat.le_refl _) hXall,
        hS2.trans ((removeFromRepos_stable _ _ _).trans (cleanupA_stable _ _))⟩
    · split at h
      · -- model processor on the main model
        cases h
        obtain ⟨h1, h2⟩ := removeNew_spec hB hI2 S.glob
        exact ⟨h1, h2, hS2.trans (removeNew_stable _ _ _)⟩
      · cases h

theorem loadMain_fail (S : Spec) (fuel : Nat) (st0 : St) (f : File) {st' : St} {k : Kind} {j : Inst}
    (hwf : WF (base S st0)) (h : loadMain S fuel st0 f = (st', .fail k, j)) :
    InvW (base S st0).all (base S st0).next (base S st0).loc st' ∧
      (S.glob = true → st'.all = (base S st0).all) ∧ Stable (base S st0) st' := by
  have hB := hwf.baseOK
  rw [loadMain_unfold] at h
  split at h
  · -- cached main model
    split at h
    · cases h
      obtain ⟨h1, h2⟩ := removeNew_spec hB hwf.inv.toW S.glob
      exact ⟨h1, h2, removeNew_stable _ _ _⟩
    · cases h
  · rename_i hnc
    split at h
    · cases h
      exact ⟨(reads_inv hwf.inv _).toW, fun _ => rfl, Stable.of_eq rfl rfl rfl⟩
    · have hf : S.glob = true → f ∉ (base S st0).all.keys := fun hg => by
        have : (base S st0).all.has f = false := by
          cases hh : (base S st0).all.has f
          · rfl
          · rw [hg, hh] at hnc; simp at hnc
        exact (Dict.has_false_iff _ _).1 this
      obtain ⟨hIa, hGa, hSa, hlt, hca, _, _, _⟩ := mainStart_facts S hwf f hf
      cases hl : loadCalls (internal S fuel) (base S st0).next (mainStart S (base S st0) f) (S.calls f) with
      | mk st1 r1 =>
        rw [hl] at h
        obtain ⟨hI1, hok1⟩ := loadCalls_safe (internal_safe hB S fuel) _ (Nat.le_refl _) (S.calls f) _ st1 r1
          hIa hGa hlt hca hl
        have hS1 : Stable (mainStart S (base S st0) f) st1 := by
          have := loadCalls_stable (internal_stable S fuel) (base S st0).next (S.calls f) (mainStart S (base S st0) f)
          rw [hl] at this; exact this
        cases r1 with
        | fuel => simp only at h; cases h
        | fail k' =>
          simp only at h; cases h
          exact ⟨(cleanupA_inv hB hI1 _ (Nat.le_refl _)).toW, fun _ => cleanupA_all_B hB hI1 _ (Nat.le_refl _),
            (hSa.trans hS1).trans (cleanupA_stable _ _)⟩
        | ok =>
          simp only at h
          obtain ⟨_, hM1, _⟩ := hok1 rfl
          have hc1 : st1.constr (base S st0).next = true := by rw [hM1.constr _ hlt]; exact hca
          obtain ⟨h1, h2, h3⟩ := finishMain_fail S hwf f hI1 hc1 h
          exact ⟨h1, h2, (hSa.trans hS1).trans h3⟩


/-- what a successful main load establishes -/
structure MainOK (S : Spec) (b : St) (f : File) (st' : St) (j : Inst) : Prop where
  wf : WF st'
  invW : InvW b.all b.next b.loc st'
  stable : Stable b st'
  locJ : ∀ x ∈ st'.loc j, x ∈ st'.all
  inAll : S.glob = true → (f, j) ∈ st'.all
  fileJ : st'.fileOf j = f
  ltJ : j < st'.next
  /-- the references of every model constructed in this load are resolved by `lookup` in the final state -/
  tgt : ∀ m, b.next ≤ m → m ∈ included st' j → (st'.tgt m).map some = resolveAll S st' m

theorem finishMain_ok (S : Spec) {b : St} (hwf : WF b) (f : File) {st1 st' : St} {j : Inst}
    (hI : Inv b.all b.next b.loc st1) (hG : Good b.next st1) (hc : st1.constr b.next = true)
    (hlt : b.next < st1.next) (hfile : st1.fileOf b.next = f) (hin : S.glob = true → (f, b.next) ∈ st1.all)
    (hS : Stable b st1)
    (h : finishMain S b f st1 = (st', .ok, j)) : MainOK S b f st' j := by
  have hB := hwf.baseOK
  unfold finishMain at h
  simp only at h
  split at h
  · cases h
  · rename_i hres
    split at h
    · cases h
    · split at h
      · cases h
      · cases h
        have hallc : ∀ e ∈ st1.all, b.next ≤ e.2 → e.2 ∈ modelsOf st1 b.next := fun e he hge' =>
          List.mem_filter.2 ⟨mem_included_of_mem_all _ e he, hI.newc e he hge'⟩
        refine
        { wf :=
          { nodup := hG.nodup
            lt := hG.lt
            file := hG.file
            locIn := fun e he x hx => by
              rcases Nat.lt_or_ge e.2 b.next with hl | hge
              · have heB := hI.mem_B_of_lt e he hl
                have hx' : x ∈ b.loc e.2 := by
                  have := hI.frame e.2 hl
                  simp only [St.endConstruction, St.setTargets] at hx
                  rw [this] at hx; exact hx
                exact hI.B_sub x (hB.loc e heB x hx')
              · exact hG.locIn e.2 hge (hG.lt e he) x hx
            noConstr := fun e he => by
              simp only [St.endConstruction, St.setTargets]
              split
              · rfl
              · rename_i hnm
                rcases Nat.lt_or_ge e.2 b.next with hl | hge
                · exact hI.oldc e (hI.mem_B_of_lt e he hl)
                · exact absurd (by simpa [modelsOf] using hallc e he hge) hnm }
          invW := endC_invW hI S _
          stable := hS.trans (Stable.of_eq rfl rfl rfl)
          locJ := fun x hx => hG.locIn b.next (Nat.le_refl _) hlt x hx
          inAll := hin
          fileJ := hfile
          ltJ := hlt
          tgt := ?_ }
        intro m hge hm
        have hmm : m ∈ (included st1 b.next).filter st1.constr := by
          refine List.mem_filter.2 ⟨hm, ?_⟩
          have hm' : m ∈ included st1 b.next := hm
          unfold included at hm'
          split at hm'
          · obtain ⟨e, he, hem⟩ := List.mem_map.1 hm'
            rw [← hem]; exact hI.newc e he (by rw [hem]; exact hge)
          · rcases List.mem_append.1 hm' with h' | h'
            · obtain ⟨e, he, hem⟩ := List.mem_map.1 h'
              rw [← hem]; exact hI.newc e he (by rw [hem]; exact hge)
            · have : m = b.next := by simpa using h'
              rw [this]; exact hc
        have hsome : ∀ t ∈ resolveAll S st1 m, t.isNone = false := by
          intro t ht
          cases hn : t.isNone
          · rfl
          · exfalso
            apply hres
            exact List.any_eq_true.2 ⟨m, hmm, List.any_eq_true.2 ⟨t, ht, hn⟩⟩
        have hcont : ((included st1 b.next).filter st1.constr).contains m = true := by simpa using hmm
        show (((st1.setTargets S _).endConstruction _).tgt m).map some = resolveAll S st1 m
        simp only [St.endConstruction, St.setTargets, hcont, if_true]
        generalize resolveAll S st1 m = l at hsome
        induction l with
        | nil => rfl
        | cons t l ih =>
          cases t with
          | none => have := hsome none List.mem_cons_self; simp at this
          | some v =>
            simp only [List.filterMap_cons, id, List.map_cons]
            rw [ih (fun t ht => hsome t (List.mem_cons_of_mem _ ht))]

theorem loadMain_ok (S : Spec) (fuel : Nat) (st0 : St) (f : File) {st' : St} {j : Inst}
    (hwf : WF (base S st0)) (h : loadMain S fuel st0 f = (st', .ok, j)) :
    MainOK S (base S st0) f st' j := by
  have hB := hwf.baseOK
  rw [loadMain_unfold] at h
  split at h
  · -- cached main model
    rename_i hc
    have hg : S.glob = true := by cases hgl : S.glob <;> simp [hgl] at hc ⊢
    have hh : (base S st0).all.has f = true := by rw [hg] at hc; simpa using hc
    split at h
    · cases h
    · cases h
      have hm := Dict.get?_of_has _ _ hh
      exact
      { wf := hwf
        invW := hwf.inv.toW
        stable := Stable.refl _
        locJ := hwf.locIn _ hm
        inAll := fun _ => hm
        fileJ := hwf.file _ hm
        ltJ := hwf.lt _ hm
        tgt := fun m hge hmi => by
          exfalso
          unfold included at hmi
          have hv : ((base S st0).all.get? f).getD 0 ∈ (base S st0).all.vals := Dict.mem_vals_of_mem hm
          have : (base S st0).all.vals.contains (((base S st0).all.get? f).getD 0) = true := by simpa using hv
          rw [this] at hmi
          simp only [if_true] at hmi
          obtain ⟨e, he, hem⟩ := List.mem_map.1 hmi
          have := hwf.lt e he
          rw [hem] at this
          exact absurd this (Nat.not_lt.2 hge) }
  · rename_i hnc
    split at h
    · cases h
    · have hf : S.glob = true → f ∉ (base S st0).all.keys := fun hg => by
        have : (base S st0).all.has f = false := by
          cases hh : (base S st0).all.has f
          · rfl
          · rw [hg, hh] at hnc; simp at hnc
        exact (Dict.has_false_iff _ _).1 this
      obtain ⟨hIa, hGa, hSa, hlt, hca, hina, hfa, _⟩ := mainStart_facts S hwf f hf
      cases hl : loadCalls (internal S fuel) (base S st0).next (mainStart S (base S st0) f) (S.calls f) with
      | mk st1 r1 =>
        rw [hl] at h
        obtain ⟨hI1, hok1⟩ := loadCalls_safe (internal_safe hB S fuel) _ (Nat.le_refl _) (S.calls f) _ st1 r1
          hIa hGa hlt hca hl
        have hS1 : Stable (mainStart S (base S st0) f) st1 := by
          have := loadCalls_stable (internal_stable S fuel) (base S st0).next (S.calls f) (mainStart S (base S st0) f)
          rw [hl] at this; exact this
        cases r1 with
        | fuel => simp only at h; cases h
        | fail k' => simp only at h; cases h
        | ok =>
          simp only at h
          obtain ⟨hG1, hM1, _⟩ := hok1 rfl
          have hc1 : st1.constr (base S st0).next = true := by rw [hM1.constr _ hlt]; exact hca
          exact finishMain_ok S hwf f hI1 hG1 hc1 (Nat.lt_of_lt_of_le hlt hM1.next)
            (by rw [hS1.fileOf _ hlt]; exact hfa) (fun hg => hM1.all _ (hina hg)) (hSa.trans hS1) h

end Repo
