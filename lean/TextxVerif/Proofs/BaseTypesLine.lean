import TextxVerif.Proofs.BaseTypes
import TextxVerif.BaseTypesLine
/-!
Lemmas for the whole-line theorems of C04 (`v*=TYPE` on a line of literals of any base type) and for
the recognisers of the literal forms (`intLit?`, `floatLit?`: what they accept is a well-formed
literal with exactly that text, and they accept every well-formed ASCII literal).
-/
namespace Re
open BaseTypes

/-! ## a line of literals through `v*=TYPE` -/
section line
variable {cc : CharClasses}

/-- no token at the end of the text (an empty match is no token) -/
theorem firstMatch_nil (p : Option Char) (alts : List (R × (List Char → Py.Val))) :
    firstMatch cc (p, []) alts = none := by
  induction alts with
  | nil => rfl
  | cons a as ih =>
    obtain ⟨r, conv⟩ := a
    simp only [firstMatch]
    split <;> simp [ih]

theorem tokenAt_nil (ty : BaseType) (p : Option Char) : tokenAt cc ty (p, []) = none := firstMatch_nil p _

theorem isWs_cases {c : Char} (h : isWs c = true) : c = ' ' ∨ c = '\t' ∨ c = '\n' ∨ c = '\r' := by
  simp only [isWs, Bool.or_eq_true, beq_iff_eq] at h
  rcases h with ((h | h) | h) | h
  · exact Or.inl h
  · exact Or.inr (Or.inl h)
  · exact Or.inr (Or.inr (Or.inl h))
  · exact Or.inr (Or.inr (Or.inr h))

/-- a whitespace character is no word character, no digit, no '.', no sign -/
theorem ws_facts (hs : Sane cc) {c : Char} (h : isWs c = true) :
    cc.isWord c = false ∧ cc.isDigit c = false ∧ c ≠ '.' ∧ c ≠ '+' ∧ c ≠ '-' := by
  rcases isWs_cases h with h | h | h | h <;> subst h <;>
    exact ⟨hs.ascii_nonword _ (by decide) (by decide), hs.ascii_nondigit _ (by decide) (by decide),
      by decide, by decide, by decide⟩

/-- whitespace (or the end of the text) is a number boundary -/
theorem numBoundary_ws (hs : Sane cc) (c : Char) (t : List Char) (h : isWs c = true) : NumBoundary cc (c :: t) := by
  intro d hd
  simp at hd; subst hd
  exact ⟨(ws_facts hs h).1, (ws_facts hs h).2.2.1⟩

theorem not_ws_of_digit (hs : Sane cc) {c : Char} (h : cc.isDigit c = true) : isWs c = false := by
  cases hw : isWs c with
  | false => rfl
  | true => have := (ws_facts hs hw).2.1; simp [h] at this

theorem litLine_length {α : Type} (text : α → List Char) (tail : List Char) :
    ∀ (items : List (Item α)), (∀ i ∈ items, text i.lit ≠ []) → items.length ≤ (litLine text items tail).length := by
  intro items
  induction items with
  | nil => intro _; simp
  | cons i is ih =>
    intro h
    have h1 := ih (fun j hj => h j (by simp [hj]))
    have h2 : 0 < (text i.lit).length := List.length_pos_iff.mpr (h i (by simp))
    simp only [litLine, List.length_append, List.length_cons]
    omega

/-- The loop of `v*=TYPE` over a line of literals: whenever the type reads each literal (at any position,
before any continuation satisfying `B`), whitespace and the end of the text satisfy `B`, and the literals
are separated by whitespace, the loop reads all of them and stops at the end of the text. -/
theorem tokensLoop_litLine {α : Type} (ty : BaseType) (text : α → List Char) (val : α → Py.Val)
    (B : List Char → Prop) (hB_nil : B []) (hB_ws : ∀ c t, isWs c = true → B (c :: t))
    (good : α → Prop)
    (hread : ∀ a, good a → ∀ p rest, B rest → ∃ q, tokenAt cc ty (p, text a ++ rest) = some (val a, (q, rest)))
    (hhead : ∀ a, good a → ∃ c t, text a = c :: t ∧ isWs c = false)
    (tail : List Char) (htail : ∀ c ∈ tail, isWs c = true) :
    ∀ (items : List (Item α)), (∀ i ∈ items, (∀ c ∈ i.ws, isWs c = true) ∧ good i.lit) → Separated items →
    ∀ (n : Nat), items.length ≤ n → ∀ (p : Option Char) (acc : List Py.Val),
      (tokensLoop cc ty n (p, litLine text items tail) acc).1 = acc.reverse ++ items.map (fun i => val i.lit) ∧
      (tokensLoop cc ty n (p, litLine text items tail) acc).2.2 = [] := by
  intro items
  induction items with
  | nil =>
    intro _ _ n _ p acc
    cases n with
    | zero => simp [tokensLoop, litLine, skipWs, skipWsAux_all tail htail]
    | succ n =>
      have h2 := skipWsAux_all tail htail p
      simp only [tokensLoop, litLine, skipWs]
      generalize skipWsAux p tail = r at h2
      obtain ⟨q, l⟩ := r
      simp at h2; subst h2
      simp [tokenAt_nil]
  | cons i is ih =>
    intro hitems hsep n hn p acc
    cases n with
    | zero => simp at hn
    | succ n =>
      obtain ⟨hws, hgood⟩ := hitems i (by simp)
      obtain ⟨c, t, htext, hc⟩ := hhead i.lit hgood
      have hB : B (litLine text is tail) := by
        cases is with
        | nil =>
          cases tail with
          | nil => exact hB_nil
          | cons d tl => exact hB_ws d tl (htail d (by simp))
        | cons j js =>
          have hj : j.ws ≠ [] := hsep j (by simp)
          have hjws := (hitems j (by simp)).1
          cases hw : j.ws with
          | nil => exact absurd hw hj
          | cons d tl =>
            simp only [litLine, hw, List.cons_append]
            exact hB_ws d _ (hjws d (by simp [hw]))
      have hskip : skipWs (p, litLine text (i :: is) tail) = (lastOr p i.ws, text i.lit ++ litLine text is tail) := by
        simp only [skipWs, litLine, htext, List.cons_append]
        exact skipWsAux_run i.ws hws c hc _ p
      obtain ⟨q, hq⟩ := hread i.lit hgood (lastOr p i.ws) _ hB
      simp only [tokensLoop, hskip, hq]
      have := ih (fun j hj => hitems j (by simp [hj])) (fun j hj => hsep j (List.mem_of_mem_tail hj)) n
        (by simp at hn; omega) q (val i.lit :: acc)
      simpa using this

/-- `Model: v*=TYPE;` on a line of separated literals yields their values, in order. -/
theorem tokens_litLine {α : Type} (ty : BaseType) (text : α → List Char) (val : α → Py.Val)
    (B : List Char → Prop) (hB_nil : B []) (hB_ws : ∀ c t, isWs c = true → B (c :: t))
    (good : α → Prop)
    (hread : ∀ a, good a → ∀ p rest, B rest → ∃ q, tokenAt cc ty (p, text a ++ rest) = some (val a, (q, rest)))
    (hhead : ∀ a, good a → ∃ c t, text a = c :: t ∧ isWs c = false)
    (items : List (Item α)) (hitems : ∀ i ∈ items, (∀ c ∈ i.ws, isWs c = true) ∧ good i.lit)
    (hsep : Separated items) (tail : List Char) (htail : ∀ c ∈ tail, isWs c = true) :
    tokens cc ty (litLine text items tail) = .ok (items.map (fun i => val i.lit)) := by
  have hlen : items.length ≤ (litLine text items tail).length := by
    apply litLine_length
    intro i hi
    obtain ⟨c, t, h, _⟩ := hhead i.lit (hitems i hi).2
    simp [h]
  have h := tokensLoop_litLine (cc := cc) ty text val B hB_nil hB_ws good hread hhead tail htail items hitems hsep
    (litLine text items tail).length hlen none []
  unfold tokens
  generalize tokensLoop cc ty (litLine text items tail).length (none, litLine text items tail) [] = r at h
  obtain ⟨vals, q, l⟩ := r
  simp at h
  simp [h.1, h.2]

/-! first characters of the literal forms -/
theorem sign_head_not_ws {sg : List Char} (hsg : IsSign sg) {c : Char} {t : List Char} (h : sg = c :: t) :
    isWs c = false := by
  rcases hsg with h' | h' | h' <;> rw [h'] at h
  · simp at h
  · simp at h; rw [← h.1]; decide
  · simp at h; rw [← h.1]; decide

theorem intLit_head (i : IntLit) (hi : i.WF) : ∃ c t, i.text = c :: t ∧ isWs c = false := by
  obtain ⟨hsg, hd, _⟩ := hi
  have hdw : isWs i.d = false := not_ws_of_digit asciiCC_sane (asciiCC_sane.ascii_digit _ hd)
  cases hs : i.sg with
  | nil => exact ⟨i.d, i.ds, by simp [IntLit.text, hs], hdw⟩
  | cons c t => exact ⟨c, t ++ i.d :: i.ds, by simp [IntLit.text, hs], sign_head_not_ws hsg hs⟩

theorem mant_head (hs : Sane cc) (mt : Mant) (hd : ∀ c ∈ mt.digits, cc.isDigit c = true) :
    ∃ c t, mt.text = c :: t ∧ isWs c = false := by
  cases mt with
  | intDot d ds fs => exact ⟨d, _, rfl, not_ws_of_digit hs (hd d (by simp [Mant.digits]))⟩
  | dotFrac f fs => exact ⟨'.', _, rfl, by decide⟩
  | int d ds => exact ⟨d, _, rfl, not_ws_of_digit hs (hd d (by simp [Mant.digits]))⟩

theorem floatLit_head (hs : Sane cc) (f : FloatLit) (hf : f.WF cc) : ∃ c t, f.text = c :: t ∧ isWs c = false := by
  obtain ⟨hsg, hd, _⟩ := hf
  obtain ⟨c, t, hm, hc⟩ := mant_head hs f.mant hd
  cases hsgn : f.sg with
  | nil => exact ⟨c, t ++ optExpText f.exp, by simp [FloatLit.text, hsgn, hm], hc⟩
  | cons c' t' => exact ⟨c', t' ++ (f.mant.text ++ optExpText f.exp), by simp [FloatLit.text, hsgn], sign_head_not_ws hsg hsgn⟩

theorem numLit_head (hs : Sane cc) (a : NumLit) (ha : a.WF cc) : ∃ c t, a.text = c :: t ∧ isWs c = false := by
  cases a with
  | int i => exact intLit_head i ha
  | float f => exact floatLit_head hs f ha.1

theorem bool_head (w : List Char) (b : Bool) (hw : (w, b) ∈ boolSpellings) : ∃ c t, w = c :: t ∧ isWs c = false := by
  simp only [boolSpellings, List.mem_cons, Prod.mk.injEq, List.not_mem_nil, or_false] at hw
  rcases hw with ⟨hw, _⟩ | ⟨hw, _⟩ | ⟨hw, _⟩ | ⟨hw, _⟩ | ⟨hw, _⟩ | ⟨hw, _⟩ <;> subst hw <;>
    exact ⟨_, _, rfl, by decide⟩

end line

/-! ## the recognisers of the literal forms -/
section recognisers

theorem spanDigits_spec (t : List Char) :
    (spanDigits t).1 ++ (spanDigits t).2 = t ∧ (∀ c ∈ (spanDigits t).1, asciiDigit c = true) ∧
      Stops asciiDigit (spanDigits t).2 := by
  induction t with
  | nil => simp [spanDigits, Stops]
  | cons c cs ih =>
    by_cases h : asciiDigit c = true
    · simp only [spanDigits, h, if_true, List.cons_append, ih.1, List.mem_cons]
      refine ⟨trivial, ?_, ih.2.2⟩
      intro x hx
      rcases hx with hx | hx
      · rw [hx]; exact h
      · exact ih.2.1 x hx
    · simp only [spanDigits, h]
      refine ⟨by simp, by simp, ?_⟩
      exact Stops.cons (by simpa using h)

theorem spanSign_spec (t : List Char) : (spanSign t).1 ++ (spanSign t).2 = t ∧ IsSign (spanSign t).1 := by
  cases t with
  | nil => simp [spanSign, IsSign]
  | cons c cs =>
    by_cases h : c = '+' ∨ c = '-'
    · simp only [spanSign, h, if_true]
      refine ⟨by simp, ?_⟩
      rcases h with h | h <;> subst h <;> simp [IsSign]
    · simp [spanSign, h, IsSign]

/-- what `intLit?` accepts is a well-formed int literal with exactly that text -/
theorem intLit?_sound (t : List Char) (i : IntLit) (h : intLit? t = some i) : i.text = t ∧ i.WF := by
  unfold intLit? at h
  have hs := spanSign_spec t
  have hd := spanDigits_spec (spanSign t).2
  split at h
  · rename_i d ds heq
    rw [heq] at hd
    simp only [Option.some.injEq] at h
    subst h
    refine ⟨?_, hs.2, hd.2.1 d (by simp), fun c hc => hd.2.1 c (by simp [hc])⟩
    have := hd.1
    simp only [List.append_nil] at this
    simp only [IntLit.text]
    rw [this]; exact hs.1
  · simp at h

theorem exp?_sound (cc : CharClasses) (hcc : Sane cc) (t : List Char) (x : Option Exp) (h : exp? t = some x) :
    optExpText x = t ∧ ∀ y, x = some y → y.WF cc := by
  cases t with
  | nil =>
    simp only [exp?, Option.some.injEq] at h
    subst h
    exact ⟨rfl, by simp⟩
  | cons e t =>
    simp only [exp?] at h
    split at h
    · rename_i he
      have hs := spanSign_spec t
      have hd := spanDigits_spec (spanSign t).2
      split at h
      · rename_i d ds heq
        rw [heq] at hd
        simp only [Option.some.injEq] at h
        subst h
        have h1 := hd.1
        simp only [List.append_nil] at h1
        refine ⟨?_, ?_⟩
        · simp only [optExpText, Exp.text]
          rw [h1, hs.1]
        · intro y hy
          simp only [Option.some.injEq] at hy
          subst hy
          exact ⟨he, hs.2, hcc.ascii_digit _ (hd.2.1 d (by simp)),
            fun c hc => hcc.ascii_digit _ (hd.2.1 c (by simp [hc]))⟩
      · simp at h
    · simp at h

theorem mant?_sound (cc : CharClasses) (hcc : Sane cc) (t : List Char) (mt : Mant) (t' : List Char)
    (h : mant? t = some (mt, t')) : mt.text ++ t' = t ∧ ∀ c ∈ mt.digits, cc.isDigit c = true := by
  unfold mant? at h
  have hd := spanDigits_spec t
  split at h
  · rename_i d ds t1 heq
    rw [heq] at hd
    have hdig : ∀ c ∈ d :: ds, cc.isDigit c = true := fun c hc => hcc.ascii_digit _ (hd.2.1 c hc)
    split at h
    · rename_i c t2
      have hd2 := spanDigits_spec t2
      split at h
      · rename_i hc
        subst hc
        simp only [Option.some.injEq, Prod.mk.injEq] at h
        obtain ⟨h1, h2⟩ := h
        subst h1; subst h2
        refine ⟨?_, ?_⟩
        · have := hd.1
          simp only [Mant.text, List.cons_append, List.append_assoc, hd2.1]
          simpa using this
        · intro x hx
          simp only [Mant.digits, List.mem_cons, List.mem_append] at hx
          rcases hx with hx | hx | hx
          · exact hdig x (by simp [hx])
          · exact hdig x (by simp [hx])
          · exact hcc.ascii_digit _ (hd2.2.1 x hx)
      · simp only [Option.some.injEq, Prod.mk.injEq] at h
        obtain ⟨h1, h2⟩ := h
        subst h1; subst h2
        exact ⟨by simpa [Mant.text] using hd.1, fun x hx => hdig x (by simpa [Mant.digits] using hx)⟩
    · simp only [Option.some.injEq, Prod.mk.injEq] at h
      obtain ⟨h1, h2⟩ := h
      subst h1; subst h2
      exact ⟨by simpa [Mant.text] using hd.1, fun x hx => hdig x (by simpa [Mant.digits] using hx)⟩
  · rename_i t1 heq
    rw [heq] at hd
    split at h
    · rename_i c t2
      split at h
      · rename_i hc
        subst hc
        have hd2 := spanDigits_spec t2
        split at h
        · rename_i f fs t3 heq2
          rw [heq2] at hd2
          simp only [Option.some.injEq, Prod.mk.injEq] at h
          obtain ⟨h1, h2⟩ := h
          subst h1; subst h2
          refine ⟨?_, fun x hx => hcc.ascii_digit _ (hd2.2.1 x (by simpa [Mant.digits] using hx))⟩
          have h1 := hd.1
          have h2 := hd2.1
          simp only [List.nil_append] at h1
          simp only [Mant.text, List.cons_append]
          rw [← h1]
          simp only [List.cons_append] at h2
          rw [h2]
        · simp at h
      · simp at h
    · simp at h

/-- what `floatLit?` accepts is a well-formed float literal with exactly that text -/
theorem floatLit?_sound (cc : CharClasses) (hcc : Sane cc) (t : List Char) (f : FloatLit) (h : floatLit? t = some f) :
    f.text = t ∧ f.WF cc := by
  unfold floatLit? at h
  have hs := spanSign_spec t
  split at h
  · rename_i mt t2 hm
    split at h
    · rename_i x hx
      simp only [Option.some.injEq] at h
      subst h
      obtain ⟨hm1, hm2⟩ := mant?_sound cc hcc _ mt t2 hm
      obtain ⟨hx1, hx2⟩ := exp?_sound cc hcc t2 x hx
      refine ⟨?_, hs.2, hm2, hx2⟩
      simp only [FloatLit.text]
      rw [hx1, hm1, hs.1]
    · simp at h
  · simp at h

theorem strictB_iff (f : FloatLit) : f.strictB = true ↔ f.Strict := by
  simp [FloatLit.strictB, FloatLit.Strict]

/-- what `numLit?` accepts is a well-formed NUMBER literal with exactly that text, valued as `numVal` says -/
theorem numLit?_sound (cc : CharClasses) (hcc : Sane cc) (t : List Char) (a : NumLit) (h : numLit? t = some a) :
    a.text = t ∧ a.WF cc ∧ a.val = numVal t := by
  have hk : (∀ i, a = .int i → litKind t = 1) ∧ (∀ f, a = .float f → litKind t = 2) := by
    constructor <;> intro x hx <;> subst hx <;> simp [litKind, h]
  unfold numLit? at h
  split at h
  · rename_i i hi
    simp only [Option.some.injEq] at h
    subst h
    obtain ⟨h1, h2⟩ := intLit?_sound t i hi
    exact ⟨h1, h2, by simp [NumLit.val, numVal, hk.1 i rfl, h1]⟩
  · split at h
    · rename_i f hf
      split at h
      · rename_i hstrict
        simp only [Option.some.injEq] at h
        subst h
        obtain ⟨h1, h2⟩ := floatLit?_sound cc hcc t f hf
        exact ⟨h1, ⟨h2, (strictB_iff f).mp hstrict⟩, by simp [NumLit.val, numVal, hk.2 f rfl, h1]⟩
      · simp at h
    · simp at h

theorem litKind_ne_zero {t : List Char} (h : litKind t ≠ 0) : ∃ a, numLit? t = some a := by
  unfold litKind at h
  cases hn : numLit? t with
  | none => simp [hn] at h
  | some a => exact ⟨a, rfl⟩

end recognisers

end Re
