import TextxVerif.Proofs.BaseTypes
import TextxVerif.BaseTypesLine
/-!
Lemmas for the whole-line theorems of C04 (`v*=TYPE` on a line of literals of any base type) and for
the recognisers of the literal forms (`intLit?`, `floatLit?`: what they accept is a well-formed
literal with exactly that text, and they accept every well-formed ASCII literal).
-/
namespace Re
open BaseTypes

/-! ## a line of literals through `v*=TYPE` -/
section line
variable {cc : CharClasses}

/-- no token at the end of the text (an empty match is no token) -/
theorem firstMatch_nil (p : Option Char) (alts : List (R × (List Char → Py.Val))) :
    firstMatch cc (p, []) alts = none := by
  induction alts with
  | nil => rfl
  | cons a as ih =>
    obtain ⟨r, conv⟩ := a
    simp only [firstMatch]
    split <;> simp [ih]

theorem tokenAt_nil (ty : BaseType) (p : Option Char) : tokenAt cc ty (p, []) = none := firstMatch_nil p _

theorem isWs_cases {c : Char} (h : isWs c = true) : c = ' ' ∨ c = '\t' ∨ c = '\n' ∨ c = '\r' := by
  simp only [isWs, Bool.or_eq_true, beq_iff_eq] at h
  rcases h with ((h | h) | h) | h
  · exact Or.inl h
  · exact Or.inr (Or.inl h)
  · exact Or.inr (Or.inr (Or.inl h))
  · exact Or.inr (Or.inr (Or.inr h))

/-- a whitespace character is no word character, no digit, no '.', no sign -/
theorem ws_facts (hs : Sane cc) {c : Char} (h : isWs c = true) :
    cc.isWord c = false ∧ cc.isDigit c = false ∧ c ≠ '.' ∧ c ≠ '+' ∧ c ≠ '-' := by
  rcases isWs_cases h with h | h | h | h <;> subst h <;>
    exact ⟨hs.ascii_nonword _ (by decide) (by decide), hs.ascii_nondigit _ (by decide) (by decide),
      by decide, by decide, by decide⟩

/-- whitespace (or the end of the text) is a number boundary -/
theorem numBoundary_ws (hs : Sane cc) (c : Char) (t : List Char) (h : isWs c = true) : NumBoundary cc (c :: t) := by
  intro d hd
  simp at hd; subst hd
  exact ⟨(ws_facts hs h).1, (ws_facts hs h).2.2.1⟩

theorem not_ws_of_digit (hs : Sane cc) {c : Char} (h : cc.isDigit c = true) : isWs c = false := by
  cases hw : isWs c with
  | false => rfl
  | true => have := (ws_facts hs hw).2.1; simp [h] at this

theorem litLine_length {α : Type} (text : α → List Char) (tail : List Char) :
    ∀ (items : List (Item α)), (∀ i ∈ items, text i.lit ≠ []) → items.length ≤ (litLine text items tail).length := by
  intro items
  induction items with
  | nil => intro _; simp
  | cons i is ih =>
    intro h
    have h1 := ih (fun j hj => h j (by simp [hj]))
    have h2 : 0 < (text i.lit).length := List.length_pos_iff.mpr (h i (by simp))
    simp only [litLine, List.length_append, List.length_cons]
    omega

/-- The loop of `v*=TYPE` over a line of literals: whenever the type reads each literal (at any position,
before any continuation satisfying `B`), whitespace and the end of the text satisfy `B`, and the literals
are separated by whitespace, the loop reads all of them and stops at the end of the text. -/
theorem tokensLoop_litLine {α : Type} (ty : BaseType) (text : α → List Char) (val : α → Py.Val)
    (B : List Char → Prop) (hB_nil : B []) (hB_ws : ∀ c t, isWs c = true → B (c :: t))
    (good : α → Prop)
    (hread : ∀ a, good a → ∀ p rest, B rest → ∃ q, tokenAt cc ty (p, text a ++ rest) = some (val a, (q, rest)))
    (hhead : ∀ a, good a → ∃ c t, text a = c :: t ∧ isWs c = false)
    (tail : List Char) (htail : ∀ c ∈ tail, isWs c = true) :
    ∀ (items : List (Item α)), (∀ i ∈ items, (∀ c ∈ i.ws, isWs c = true) ∧ good i.lit) →
    (Separated items ∨ ∀ rest, B rest) →
    ∀ (n : Nat), items.length ≤ n → ∀ (p : Option Char) (acc : List Py.Val),
      (tokensLoop cc ty n (p, litLine text items tail) acc).1 = acc.reverse ++ items.map (fun i => val i.lit) ∧
      (tokensLoop cc ty n (p, litLine text items tail) acc).2.2 = [] := by
  intro items
  induction items with
  | nil =>
    intro _ _ n _ p acc
    cases n with
    | zero => simp [tokensLoop, litLine, skipWs, skipWsAux_all tail htail]
    | succ n =>
      have h2 := skipWsAux_all tail htail p
      simp only [tokensLoop, litLine, skipWs]
      generalize skipWsAux p tail = r at h2
      obtain ⟨q, l⟩ := r
      simp at h2; subst h2
      simp [tokenAt_nil]
  | cons i is ih =>
    intro hitems hsep n hn p acc
    cases n with
    | zero => simp at hn
    | succ n =>
      obtain ⟨hws, hgood⟩ := hitems i (by simp)
      obtain ⟨c, t, htext, hc⟩ := hhead i.lit hgood
      have hB : B (litLine text is tail) := by
        rcases hsep with hsep | hall
        case inr => exact hall _
        cases is with
        | nil =>
          cases tail with
          | nil => exact hB_nil
          | cons d tl => exact hB_ws d tl (htail d (by simp))
        | cons j js =>
          have hj : j.ws ≠ [] := hsep j (by simp)
          have hjws := (hitems j (by simp)).1
          cases hw : j.ws with
          | nil => exact absurd hw hj
          | cons d tl =>
            simp only [litLine, hw, List.cons_append]
            exact hB_ws d _ (hjws d (by simp [hw]))
      have hskip : skipWs (p, litLine text (i :: is) tail) = (lastOr p i.ws, text i.lit ++ litLine text is tail) := by
        simp only [skipWs, litLine, htext, List.cons_append]
        exact skipWsAux_run i.ws hws c hc _ p
      obtain ⟨q, hq⟩ := hread i.lit hgood (lastOr p i.ws) _ hB
      simp only [tokensLoop, hskip, hq]
      have := ih (fun j hj => hitems j (by simp [hj]))
        (hsep.imp (fun hsep j hj => hsep j (List.mem_of_mem_tail hj)) id) n
        (by simp at hn; omega) q (val i.lit :: acc)
      simpa using this

/-- `Model: v*=TYPE;` on a line of separated literals yields their values, in order. -/
theorem tokens_litLine {α : Type} (ty : BaseType) (text : α → List Char) (val : α → Py.Val)
    (B : List Char → Prop) (hB_nil : B []) (hB_ws : ∀ c t, isWs c = true → B (c :: t))
    (good : α → Prop)
    (hread : ∀ a, good a → ∀ p rest, B rest → ∃ q, tokenAt cc ty (p, text a ++ rest) = some (val a, (q, rest)))
    (hhead : ∀ a, good a → ∃ c t, text a = c :: t ∧ isWs c = false)
    (items : List (Item α)) (hitems : ∀ i ∈ items, (∀ c ∈ i.ws, isWs c = true) ∧ good i.lit)
    (hsep : Separated items ∨ ∀ rest, B rest) (tail : List Char) (htail : ∀ c ∈ tail, isWs c = true) :
    tokens cc ty (litLine text items tail) = .ok (items.map (fun i => val i.lit)) := by
  have hlen : items.length ≤ (litLine text items tail).length := by
    apply litLine_length
    intro i hi
    obtain ⟨c, t, h, _⟩ := hhead i.lit (hitems i hi).2
    simp [h]
  have h := tokensLoop_litLine (cc := cc) ty text val B hB_nil hB_ws good hread hhead tail htail items hitems hsep
    (litLine text items tail).length hlen none []
  unfold tokens
  generalize tokensLoop cc ty (litLine text items tail).length (none, litLine text items tail) [] = r at h
  obtain ⟨vals, q, l⟩ := r
  simp at h
  simp [h.1, h.2]

/-! first characters of the literal forms -/
theorem sign_head_not_ws {sg : List Char} (hsg : IsSign sg) {c : Char} {t : List Char} (h : sg = c :: t) :
    isWs c = false := by
  rcases hsg with h' | h' | h' <;> rw [h'] at h
  · simp at h
  · simp at h; rw [← h.1]; decide
  · simp at h; rw [← h.1]; decide

theorem intLit_head (i : IntLit) (hi : i.WF) : ∃ c t, i.text = c :: t ∧ isWs c = false := by
  obtain ⟨hsg, hd, _⟩ := hi
  have hdw : isWs i.d = false := not_ws_of_digit asciiCC_sane (asciiCC_sane.ascii_digit _ hd)
  cases hs : i.sg with
  | nil => exact ⟨i.d, i.ds, by simp [IntLit.text, hs], hdw⟩
  | cons c t => exact ⟨c, t ++ i.d :: i.ds, by simp [IntLit.text, hs], sign_head_not_ws hsg hs⟩

theorem mant_head (hs : Sane cc) (mt : Mant) (hd : ∀ c ∈ mt.digits, cc.isDigit c = true) :
    ∃ c t, mt.text = c :: t ∧ isWs c = false := by
  cases mt with
  | intDot d ds fs => exact ⟨d, _, rfl, not_ws_of_digit hs (hd d (by simp [Mant.digits]))⟩
  | dotFrac f fs => exact ⟨'.', _, rfl, by decide⟩
  | int d ds => exact ⟨d, _, rfl, not_ws_of_digit hs (hd d (by simp [Mant.digits]))⟩

theorem floatLit_head (hs : Sane cc) (f : FloatLit) (hf : f.WF cc) : ∃ c t, f.text = c :: t ∧ isWs c = false := by
  obtain ⟨hsg, hd, _⟩ := hf
  obtain ⟨c, t, hm, hc⟩ := mant_head hs f.mant hd
  cases hsgn : f.sg with
  | nil => exact ⟨c, t ++ optExpText f.exp, by simp [FloatLit.text, hsgn, hm], hc⟩
  | cons c' t' => exact ⟨c', t' ++ (f.mant.text ++ optExpText f.exp), by simp [FloatLit.text, hsgn], sign_head_not_ws hsg hsgn⟩

theorem numLit_head (hs : Sane cc) (a : NumLit) (ha : a.WF cc) : ∃ c t, a.text = c :: t ∧ isWs c = false := by
  cases a with
  | int i => exact intLit_head i ha
  | float f => exact floatLit_head hs f ha.1

theorem bool_head (w : List Char) (b : Bool) (hw : (w, b) ∈ boolSpellings) : ∃ c t, w = c :: t ∧ isWs c = false := by
  simp only [boolSpellings, List.mem_cons, Prod.mk.injEq, List.not_mem_nil, or_false] at hw
  rcases hw with ⟨hw, _⟩ | ⟨hw, _⟩ | ⟨hw, _⟩ | ⟨hw, _⟩ | ⟨hw, _⟩ | ⟨hw, _⟩ <;> subst hw <;>
    exact ⟨_, _, rfl, by decide⟩

end line

/-! ## the recognisers of the literal forms -/
section recognisers

theorem spanDigits_spec (t : List Char) :
    (spanDigits t).1 ++ (spanDigits t).2 = t ∧ (∀ c ∈ (spanDigits t).1, asciiDigit c = true) ∧
      Stops asciiDigit (spanDigits t).2 := by
  induction t with
  | nil => simp [spanDigits, Stops]
  | cons c cs ih =>
    by_cases h : asciiDigit c = true
    · simp only [spanDigits, h, if_true, List.cons_append, ih.1, List.mem_cons]
      refine ⟨trivial, ?_, ih.2.2⟩
      intro x hx
      rcases hx with hx | hx
      · rw [hx]; exact h
      · exact ih.2.1 x hx
    · simp only [spanDigits, h]
      refine ⟨by simp, by simp, ?_⟩
      exact Stops.cons (by simpa using h)

theorem spanSign_spec (t : List Char) : (spanSign t).1 ++ (spanSign t).2 = t ∧ IsSign (spanSign t).1 := by
  cases t with
  | nil => simp [spanSign, IsSign]
  | cons c cs =>
    by_cases h : c = '+' ∨ c = '-'
    · simp only [spanSign, h, if_true]
      refine ⟨by simp, ?_⟩
      rcases h with h | h <;> subst h <;> simp [IsSign]
    · simp [spanSign, h, IsSign]

/-- what `intLit?` accepts is a well-formed int literal with exactly that text -/
theorem intLit?_sound (t : List Char) (i : IntLit) (h : intLit? t = some i) : i.text = t ∧ i.WF := by
  unfold intLit? at h
  have hs := spanSign_spec t
  have hd := spanDigits_spec (spanSign t).2
  split at h
  · rename_i d ds heq
    rw [heq] at hd
    simp only [Option.some.injEq] at h
    subst h
    refine ⟨?_, hs.2, hd.2.1 d (by simp), fun c hc => hd.2.1 c (by simp [hc])⟩
    have := hd.1
    simp only [List.append_nil] at this
    simp only [IntLit.text]
    rw [this]; exact hs.1
  · simp at h

theorem exp?_sound (cc : CharClasses) (hcc : Sane cc) (t : List Char) (x : Option Exp) (h : exp? t = some x) :
    optExpText x = t ∧ ∀ y, x = some y → y.WF cc := by
  cases t with
  | nil =>
    simp only [exp?, Option.some.injEq] at h
    subst h
    exact ⟨rfl, by simp⟩
  | cons e t =>
    simp only [exp?] at h
    split at h
    · rename_i he
      have hs := spanSign_spec t
      have hd := spanDigits_spec (spanSign t).2
      split at h
      · rename_i d ds heq
        rw [heq] at hd
        simp only [Option.some.injEq] at h
        subst h
        have h1 := hd.1
        simp only [List.append_nil] at h1
        refine ⟨?_, ?_⟩
        · simp only [optExpText, Exp.text]
          rw [h1, hs.1]
        · intro y hy
          simp only [Option.some.injEq] at hy
          subst hy
          exact ⟨he, hs.2, hcc.ascii_digit _ (hd.2.1 d (by simp)),
            fun c hc => hcc.ascii_digit _ (hd.2.1 c (by simp [hc]))⟩
      · simp at h
    · simp at h

theorem mant?_sound (cc : CharClasses) (hcc : Sane cc) (t : List Char) (mt : Mant) (t' : List Char)
    (h : mant? t = some (mt, t')) : mt.text ++ t' = t ∧ ∀ c ∈ mt.digits, cc.isDigit c = true := by
  unfold mant? at h
  have hd := spanDigits_spec t
  split at h
  · rename_i d ds t1 heq
    rw [heq] at hd
    have hdig : ∀ c ∈ d :: ds, cc.isDigit c = true := fun c hc => hcc.ascii_digit _ (hd.2.1 c hc)
    split at h
    · rename_i c t2
      have hd2 := spanDigits_spec t2
      split at h
      · rename_i hc
        subst hc
        simp only [Option.some.injEq, Prod.mk.injEq] at h
        obtain ⟨h1, h2⟩ := h
        subst h1; subst h2
        refine ⟨?_, ?_⟩
        · have := hd.1
          simp only [Mant.text, List.cons_append, List.append_assoc, hd2.1]
          simpa using this
        · intro x hx
          simp only [Mant.digits, List.mem_cons, List.mem_append] at hx
          rcases hx with hx | hx | hx
          · exact hdig x (by simp [hx])
          · exact hdig x (by simp [hx])
          · exact hcc.ascii_digit _ (hd2.2.1 x hx)
      · simp only [Option.some.injEq, Prod.mk.injEq] at h
        obtain ⟨h1, h2⟩ := h
        subst h1; subst h2
        exact ⟨by simpa [Mant.text] using hd.1, fun x hx => hdig x (by simpa [Mant.digits] using hx)⟩
    · simp only [Option.some.injEq, Prod.mk.injEq] at h
      obtain ⟨h1, h2⟩ := h
      subst h1; subst h2
      exact ⟨by simpa [Mant.text] using hd.1, fun x hx => hdig x (by simpa [Mant.digits] using hx)⟩
  · rename_i t1 heq
    rw [heq] at hd
    split at h
    · rename_i c t2
      split at h
      · rename_i hc
        subst hc
        have hd2 := spanDigits_spec t2
        split at h
        · rename_i f fs t3 heq2
          rw [heq2] at hd2
          simp only [Option.some.injEq, Prod.mk.injEq] at h
          obtain ⟨h1, h2⟩ := h
          subst h1; subst h2
          refine ⟨?_, fun x hx => hcc.ascii_digit _ (hd2.2.1 x (by simpa [Mant.digits] using hx))⟩
          have h1 := hd.1
          have h2 := hd2.1
          simp only [List.nil_append] at h1
          simp only [Mant.text, List.cons_append]
          rw [← h1]
          simp only [List.cons_append] at h2
          rw [h2]
        · simp at h
      · simp at h
    · simp at h

/-- what `floatLit?` accepts is a well-formed float literal with exactly that text -/
theorem floatLit?_sound (cc : CharClasses) (hcc : Sane cc) (t : List Char) (f : FloatLit) (h : floatLit? t = some f) :
    f.text = t ∧ f.WF cc := by
  unfold floatLit? at h
  have hs := spanSign_spec t
  split at h
  · rename_i mt t2 hm
    split at h
    · rename_i x hx
      simp only [Option.some.injEq] at h
      subst h
      obtain ⟨hm1, hm2⟩ := mant?_sound cc hcc _ mt t2 hm
      obtain ⟨hx1, hx2⟩ := exp?_sound cc hcc t2 x hx
      refine ⟨?_, hs.2, hm2, hx2⟩
      simp only [FloatLit.text]
      rw [hx1, hm1, hs.1]
    · simp at h
  · simp at h

theorem strictB_iff (f : FloatLit) : f.strictB = true ↔ f.Strict := by
  simp [FloatLit.strictB, FloatLit.Strict]

/-- what `numLit?` accepts is a well-formed NUMBER literal with exactly that text, valued as `numVal` says -/
theorem numLit?_sound (cc : CharClasses) (hcc : Sane cc) (t : List Char) (a : NumLit) (h : numLit? t = some a) :
    a.text = t ∧ a.WF cc ∧ a.val = numVal t := by
  have hk : (∀ i, a = .int i → litKind t = 1) ∧ (∀ f, a = .float f → litKind t = 2) := by
    constructor <;> intro x hx <;> subst hx <;> simp [litKind, h]
  unfold numLit? at h
  split at h
  · rename_i i hi
    simp only [Option.some.injEq] at h
    subst h
    obtain ⟨h1, h2⟩ := intLit?_sound t i hi
    exact ⟨h1, h2, by simp [NumLit.val, numVal, hk.1 i rfl, h1]⟩
  · split at h
    · rename_i f hf
      split at h
      · rename_i hstrict
        simp only [Option.some.injEq] at h
        subst h
        obtain ⟨h1, h2⟩ := floatLit?_sound cc hcc t f hf
        exact ⟨h1, ⟨h2, (strictB_iff f).mp hstrict⟩, by simp [NumLit.val, numVal, hk.2 f rfl, h1]⟩
      · simp at h
    · simp at h

theorem litKind_ne_zero {t : List Char} (h : litKind t ≠ 0) : ∃ a, numLit? t = some a := by
  unfold litKind at h
  cases hn : numLit? t with
  | none => simp [hn] at h
  | some a => exact ⟨a, rfl⟩

theorem litKind_one {t : List Char} (h : litKind t = 1) : ∃ i, numLit? t = some (.int i) := by
  unfold litKind at h
  split at h
  · rename_i i hi; exact ⟨i, hi⟩
  · simp at h
  · simp at h

theorem litKind_two {t : List Char} (h : litKind t = 2) : ∃ f, numLit? t = some (.float f) := by
  unfold litKind at h
  split at h
  · simp at h
  · rename_i f hf; exact ⟨f, hf⟩
  · simp at h

theorem boolOf_mem {t : List Char} {b : Bool} (h : boolOf t = some b) : (t, b) ∈ boolSpellings := by
  unfold boolOf at h
  cases hf : boolSpellings.find? (fun sp => sp.1 == t) with
  | none => simp [hf] at h
  | some sp =>
    simp only [hf, Option.map_some, Option.some.injEq] at h
    have h1 := List.mem_of_find?_eq_some hf
    have h2 := List.find?_some hf
    simp only [beq_iff_eq] at h2
    obtain ⟨w, b'⟩ := sp
    simp only at h h2
    subst h; subst h2
    exact h1

theorem lineHyp_spec {ty : BaseType} {items : List (Item (List Char))} {tail : List Char}
    (h : lineHyp ty items tail = true) :
    (∀ i ∈ items, (∀ c ∈ i.ws, isWs c = true) ∧ litOk ty i.lit = true) ∧ (ty = .STRING ∨ Separated items) ∧
      ∀ c ∈ tail, isWs c = true := by
  simp only [lineHyp, Bool.and_eq_true, Bool.or_eq_true, beq_iff_eq, List.all_eq_true, Bool.not_eq_true',
    List.isEmpty_eq_false_iff] at h
  exact ⟨fun i hi => h.1.1 i hi, h.1.2.imp id (fun hs i hi => hs i hi), h.2⟩

/-- what `strLit?` accepts is `encode q s` of a string without trailing backslash -/
theorem strLit?_sound (t : List Char) (q : Char) (s : List Char) (h : strLit? t = some (q, s)) :
    t = encode q s ∧ (q = '"' ∨ q = '\'') ∧ noTrailingBackslash s := by
  cases t with
  | nil => simp [strLit?] at h
  | cons q' r =>
    simp only [strLit?] at h
    split at h
    · rename_i h1
      split at h
      · rename_i h2
        simp only [Option.some.injEq, Prod.mk.injEq] at h
        obtain ⟨hq, hs⟩ := h
        subst hq
        have hr : r.dropLast ++ [q'] = r := by
          obtain ⟨ys, hys⟩ := List.getLast?_eq_some_iff.mp h1.2
          rw [hys]; simp
        refine ⟨?_, h1.1, by rw [← hs]; exact h2.2⟩
        simp only [encode]
        rw [← hs, h2.1, hr]
      · simp at h
    · simp at h

/-- … and it accepts every such text -/
theorem strLit?_complete (q : Char) (hq : q = '"' ∨ q = '\'') (s : List Char) (hs : noTrailingBackslash s) :
    strLit? (encode q s) = some (q, s) := by
  have hne : q ≠ '\\' := by rcases hq with h | h <;> subst h <;> decide
  have h1 : (escape q s ++ [q]).getLast? = some q := by simp
  have h2 : (escape q s ++ [q]).dropLast = escape q s := by simp
  simp only [strLit?, encode, h1, h2, replace_escape q hne s]
  simp [hq, hs]

/-! ### completeness: the scanners accept every well-formed ASCII literal (so `intLit?` / `floatLit?` are
exactly the literal grammars `IntLit.WF` / `FloatLit.WF asciiCC`) -/

theorem spanDigits_stop (rest : List Char) (hrest : Stops asciiDigit rest) : spanDigits rest = ([], rest) := by
  cases rest with
  | nil => rfl
  | cons c t => simp [spanDigits, hrest c rfl]

theorem spanDigits_append (ds rest : List Char) (hds : ∀ c ∈ ds, asciiDigit c = true) (hrest : Stops asciiDigit rest) :
    spanDigits (ds ++ rest) = (ds, rest) := by
  induction ds with
  | nil => exact spanDigits_stop rest hrest
  | cons d ds ih =>
    have := ih (fun c hc => hds c (by simp [hc]))
    simp [spanDigits, hds d (by simp), this]

theorem spanSign_append (sg rest : List Char) (hsg : IsSign sg)
    (hrest : ∀ c, rest.head? = some c → c ≠ '+' ∧ c ≠ '-') : spanSign (sg ++ rest) = (sg, rest) := by
  rcases hsg with h | h | h <;> subst h
  · cases rest with
    | nil => rfl
    | cons c t =>
      have := hrest c rfl
      simp [spanSign, this.1, this.2]
  · simp [spanSign]
  · simp [spanSign]

theorem asciiDigit_not_sign {c : Char} (h : asciiDigit c = true) : c ≠ '+' ∧ c ≠ '-' := by
  constructor <;> (intro e; rw [e] at h; revert h; decide)

theorem asciiDigit_of_asciiCC {c : Char} (h : asciiCC.isDigit c = true) : asciiDigit c = true := by
  simp only [asciiCC, tableCC] at h
  by_cases hlt : c.toNat < 128
  · simpa [hlt] using h
  · simp [hlt] at h

theorem intLit?_complete (i : IntLit) (hi : i.WF) : intLit? i.text = some i := by
  obtain ⟨hsg, hd, hds⟩ := hi
  have h1 : spanSign i.text = (i.sg, i.d :: i.ds) := by
    unfold IntLit.text
    apply spanSign_append _ _ hsg
    intro c hc
    simp at hc; subst hc
    exact asciiDigit_not_sign hd
  have h2 : spanDigits (i.d :: i.ds) = (i.d :: i.ds, []) := by
    have := spanDigits_append (i.d :: i.ds) [] (by
      intro c hc
      simp at hc
      rcases hc with hc | hc
      · rw [hc]; exact hd
      · exact hds c hc) Stops.nil
    simpa using this
  simp [intLit?, h1, h2]

/-- `intLit?` is exactly the grammar `[-+]?[0-9]+` -/
theorem intLit?_iff (t : List Char) (i : IntLit) : intLit? t = some i ↔ i.text = t ∧ i.WF := by
  constructor
  · exact intLit?_sound t i
  · intro ⟨h1, h2⟩; subst h1; exact intLit?_complete i h2

/-- well-formed with ASCII digits -/
def ExpWFa (x : Exp) : Prop :=
  (x.e = 'e' ∨ x.e = 'E') ∧ IsSign x.sg ∧ asciiDigit x.d = true ∧ ∀ c ∈ x.ds, asciiDigit c = true

theorem exp?_complete (x : Option Exp) (hx : ∀ y, x = some y → ExpWFa y) : exp? (optExpText x) = some x := by
  cases x with
  | none => rfl
  | some y =>
    obtain ⟨he, hsg, hd, hds⟩ := hx y rfl
    have h1 : spanSign (y.sg ++ y.d :: y.ds) = (y.sg, y.d :: y.ds) := by
      apply spanSign_append _ _ hsg
      intro c hc
      simp at hc; subst hc
      exact asciiDigit_not_sign hd
    have h2 : spanDigits (y.d :: y.ds) = (y.d :: y.ds, []) := by
      have := spanDigits_append (y.d :: y.ds) [] (by
        intro c hc
        simp at hc
        rcases hc with hc | hc
        · rw [hc]; exact hd
        · exact hds c hc) Stops.nil
      simpa using this
    simp [optExpText, Exp.text, exp?, he, h1, h2]

theorem mant?_complete (mt : Mant) (hd : ∀ c ∈ mt.digits, asciiDigit c = true) (t : List Char)
    (ht : ∀ c, t.head? = some c → asciiDigit c = false ∧ c ≠ '.') : mant? (mt.text ++ t) = some (mt, t) := by
  have hstop : Stops asciiDigit t := fun c hc => (ht c hc).1
  cases mt with
  | intDot d ds fs =>
    have hdds : ∀ c ∈ d :: ds, asciiDigit c = true := fun c hc => hd c (by
      simp at hc; rcases hc with hc | hc <;> simp [Mant.digits, hc])
    have hfs : ∀ c ∈ fs, asciiDigit c = true := fun c hc => hd c (by simp [Mant.digits, hc])
    have h1 : spanDigits ((d :: ds) ++ ('.' :: (fs ++ t))) = (d :: ds, '.' :: (fs ++ t)) :=
      spanDigits_append _ _ hdds (Stops.cons (by decide))
    have h2 : spanDigits (fs ++ t) = (fs, t) := spanDigits_append _ _ hfs hstop
    have e : (Mant.intDot d ds fs).text ++ t = (d :: ds) ++ ('.' :: (fs ++ t)) := by simp [Mant.text]
    rw [e]
    unfold mant?
    rw [h1]
    simp [h2]
  | dotFrac f fs =>
    have hffs : ∀ c ∈ f :: fs, asciiDigit c = true := fun c hc => hd c (by simpa [Mant.digits] using hc)
    have h1 : spanDigits ('.' :: ((f :: fs) ++ t)) = ([], '.' :: ((f :: fs) ++ t)) :=
      spanDigits_stop _ (Stops.cons (by decide))
    have h2 : spanDigits ((f :: fs) ++ t) = (f :: fs, t) := spanDigits_append _ _ hffs hstop
    have e : (Mant.dotFrac f fs).text ++ t = '.' :: ((f :: fs) ++ t) := by simp [Mant.text]
    rw [e]
    unfold mant?
    rw [h1]
    simp only [if_true]
    rw [h2]
  | int d ds =>
    have hdds : ∀ c ∈ d :: ds, asciiDigit c = true := fun c hc => hd c (by simpa [Mant.digits] using hc)
    have h1 : spanDigits ((d :: ds) ++ t) = (d :: ds, t) := spanDigits_append _ _ hdds hstop
    have e : (Mant.int d ds).text ++ t = (d :: ds) ++ t := by simp [Mant.text]
    rw [e]
    unfold mant?
    rw [h1]
    cases t with
    | nil => rfl
    | cons c t2 =>
      have := (ht c rfl).2
      simp [this]

/-- a float literal with ASCII digits -/
def FloatWFa (f : FloatLit) : Prop :=
  IsSign f.sg ∧ (∀ c ∈ f.mant.digits, asciiDigit c = true) ∧ ∀ x, f.exp = some x → ExpWFa x

theorem floatWFa_of_asciiCC (f : FloatLit) (h : f.WF asciiCC) : FloatWFa f :=
  ⟨h.1, fun c hc => asciiDigit_of_asciiCC (h.2.1 c hc), fun x hx =>
    ⟨(h.2.2 x hx).1, (h.2.2 x hx).2.1, asciiDigit_of_asciiCC (h.2.2 x hx).2.2.1,
      fun c hc => asciiDigit_of_asciiCC ((h.2.2 x hx).2.2.2 c hc)⟩⟩

theorem floatLit?_complete (f : FloatLit) (hf : FloatWFa f) : floatLit? f.text = some f := by
  obtain ⟨hsg, hd, hx⟩ := hf
  have hmhead : ∀ c, (f.mant.text ++ optExpText f.exp).head? = some c → c ≠ '+' ∧ c ≠ '-' := by
    intro c hc
    cases hm : f.mant with
    | intDot d ds fs =>
      simp [hm, Mant.text] at hc; subst hc
      exact asciiDigit_not_sign (hd _ (by simp [hm, Mant.digits]))
    | dotFrac g gs => simp [hm, Mant.text] at hc; subst hc; exact ⟨by decide, by decide⟩
    | int d ds =>
      simp [hm, Mant.text] at hc; subst hc
      exact asciiDigit_not_sign (hd _ (by simp [hm, Mant.digits]))
  have h1 : spanSign f.text = (f.sg, f.mant.text ++ optExpText f.exp) := spanSign_append _ _ hsg hmhead
  have hexp : ∀ c, (optExpText f.exp).head? = some c → asciiDigit c = false ∧ c ≠ '.' := by
    intro c hc
    cases he : f.exp with
    | none => simp [he, optExpText] at hc
    | some y =>
      simp [he, optExpText, Exp.text] at hc; subst hc
      rcases (hx y he).1 with h | h <;> rw [h] <;> exact ⟨by decide, by decide⟩
  have h2 := mant?_complete f.mant hd (optExpText f.exp) hexp
  have h3 := exp?_complete f.exp hx
  simp [floatLit?, h1, h2, h3]

/-- `floatLit?` is exactly the float-literal grammar over ASCII digits -/
theorem floatLit?_iff (t : List Char) (f : FloatLit) : floatLit? t = some f ↔ f.text = t ∧ f.WF asciiCC := by
  constructor
  · exact floatLit?_sound asciiCC asciiCC_sane t f
  · intro ⟨h1, h2⟩; subst h1; exact floatLit?_complete f (floatWFa_of_asciiCC f h2)

end recognisers

end Re
