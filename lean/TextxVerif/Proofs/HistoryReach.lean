import TextxVerif.Proofs.History
/-!
# Memo stores only hit rule objects that Arpeggio's cache walk reaches

`Parser._clear_caches` does not drop "all" memo entries: it walks the parser model and the comments
model along `ParsingExpression.nodes` and empties the `_result_cache` of every rule object it meets
(`History.walk`, `History.walkClear`).  The history machine `History.real` abstracts this to "the
cache is empty afterwards".  This file justifies the abstraction:

* `parse_stores_in` — through the whole Arpeggio mirror, helper by helper (the structure of
  `Proofs/HistoryCache.lean`): if a set `a` of nodes is closed under `kids`, contains the comments model
  and every separator of its repetitions is a `Match` object, then parsing a node of `a` (or a `Match`)
  leaves the part of the cache that lies *outside* `a` exactly as it was.  (`Match.parse` never memoizes,
  which is why separators — not followed by the walk — are harmless as long as they are `Match`es.)
* `walk_closed`, `mem_walkFrom_iff` — the walk (explicit stack, fuel `edges + 1`) never runs out of fuel
  and visits exactly the nodes `Reach`able along `kids` (independent inductive specification).
* `parseText_walk`, `run_walk` — hence `realWalk` (clearing by walking) and `real` (dropping everything)
  are the same machine on every world whose reachable separators are `Match`es, from every state with
  empty caches.
-/
namespace Peg

abbrev MCache := List ((Nat × Nat) × (Option Val × Nat))

/-- the entries of rule objects outside the set `a` -/
def outside (a : Nat → Bool) (c : MCache) : MCache := c.filter fun x => !a x.1.1

theorem outside_cons_in (a : Nat → Bool) (x : (Nat × Nat) × (Option Val × Nat)) (c : MCache)
    (h : a x.1.1 = true) : outside a (x :: c) = outside a c := by
  simp [outside, h]

/-- what the parse of a node inside `a` may touch: `a` is closed under `nodes`, contains the comments
model, and the separators of its repetitions are `Match` objects -/
structure Closed (g : Grammar) (a : Nat → Bool) : Prop where
  kids : ∀ i nd, a i = true → g.nodes[i]? = some nd → ∀ c ∈ nd.kids, a c = true
  sep : ∀ i nd sp, a i = true → g.nodes[i]? = some nd → nd.sep = some sp → History.isTerm g.nodes sp = true
  cm : ∀ cm, g.comments = some cm → a cm = true

/-- a node the invariant speaks about: in `a`, or a `Match` object -/
def Ok (g : Grammar) (a : Nat → Bool) (e : Nat) : Prop := a e = true ∨ History.isTerm g.nodes e = true

section
variable {g : Grammar} {a : Nat → Bool}

def KeepsO (g : Grammar) (a : Nat → Bool) (p : SubParser) : Prop :=
  ∀ e s, Ok g a e → outside a (p e s).2.cache = outside a s.cache

def KeepsOB (a : Nat → Bool) (b : PState → Res × PState) : Prop :=
  ∀ s, outside a (b s).2.cache = outside a s.cache

theorem seqLoop_keepsO {p : SubParser} (h : KeepsO g a p) :
    ∀ es, (∀ c ∈ es, Ok g a c) → ∀ s acc, outside a (seqLoop p es s acc).2.cache = outside a s.cache := by
  intro es
  induction es with
  | nil => intro _ s acc; simp [seqLoop]
  | cons e es ih =>
    intro hok s acc
    have h1 := h e s (hok e (by simp))
    have ih' := ih (fun c hc => hok c (by simp [hc]))
    simp only [seqLoop]
    grind

theorem choiceLoop_keepsO {p : SubParser} (h : KeepsO g a p) :
    ∀ es, (∀ c ∈ es, Ok g a c) → ∀ c s, outside a (choiceLoop p es c s).2.cache = outside a s.cache := by
  intro es
  induction es with
  | nil => intro _ c s; simp [choiceLoop]
  | cons e es ih =>
    intro hok c s
    have h1 := h e s (hok e (by simp))
    have ih' := ih (fun c hc => hok c (by simp [hc]))
    simp only [choiceLoop]
    grind

theorem repLoop_keepsO {p : SubParser} (h : KeepsO g a p) (e : Nat) (sep : Option Nat)
    (he : Ok g a e) (hs : ∀ sp, sep = some sp → Ok g a sp) :
    ∀ k s acc f pv, outside a (repLoop p e sep k s acc f pv).2.cache = outside a s.cache := by
  intro k
  induction k with
  | zero => intro s acc f pv; simp [repLoop]
  | succ k ih =>
    intro s acc f pv
    have h1 := h e s he
    simp only [repLoop]
    cases sep with
    | none => grind
    | some sp =>
      have h2 := h sp s (hs sp rfl)
      have h3 := h e (p sp s).2 he
      grind

theorem unordFor_keepsO {p : SubParser} (h : KeepsO g a p) :
    ∀ es, (∀ c ∈ es, Ok g a c) → ∀ pl s se m, outside a (unordFor p es pl s se m).2.cache = outside a s.cache := by
  intro es
  induction es with
  | nil => intro _ pl s se m; simp [unordFor]
  | cons e es ih =>
    intro hok pl s se m
    have h1 := h e s (hok e (by simp))
    have ih' := ih (fun c hc => hok c (by simp [hc]))
    simp only [unordFor]
    grind

theorem ok_remove {todo : List Nat} (hok : ∀ c ∈ todo, Ok g a c) (e : Nat) : ∀ c ∈ remove todo e, Ok g a c :=
  fun c hc => hok c (List.mem_of_mem_erase hc)

theorem unordLoop_keepsO {p : SubParser} (h : KeepsO g a p) (sep : Option Nat)
    (hs : ∀ sp, sep = some sp → Ok g a sp) :
    ∀ k todo, (∀ c ∈ todo, Ok g a c) → ∀ s acc f sr,
      outside a (unordLoop p sep k todo s acc f sr).2.cache = outside a s.cache := by
  intro k
  induction k with
  | zero => intro todo _ s acc f sr; simp [unordLoop]
  | succ k ih =>
    intro todo hok s acc f sr
    have hf := fun pl s se m => unordFor_keepsO h todo hok pl s se m
    have ih' := fun e => ih (remove todo e) (ok_remove hok e)
    cases todo with
    | nil => simp [unordLoop]
    | cons e0 es0 =>
      simp only [unordLoop]
      cases sep with
      | none => grind
      | some sp =>
        have h2 : ∀ s, outside a (p sp s).2.cache = outside a s.cache := fun s => h sp s (hs sp rfl)
        grind

theorem commentsIter_keepsO (g' : Grammar) {p : SubParser} (h : KeepsO g a p) (cm : Nat) (hc : Ok g a cm) :
    ∀ k, KeepsOB a (commentsIter g' p cm k) := by
  intro k
  induction k with
  | zero => intro s; simp [commentsIter]
  | succ k ih =>
    intro s
    have h1 := h cm s hc
    unfold KeepsOB at ih
    simp only [commentsIter]
    grind [skipWs_cache]

theorem commentsLoop_keepsO {p : SubParser} (hcl : Closed g a) (h : KeepsO g a p) (k : Nat) :
    KeepsOB a (commentsLoop g p k) := by
  intro s
  unfold commentsLoop
  cases hc : g.comments with
  | none => rfl
  | some cm => exact commentsIter_keepsO g h cm (Or.inl (hcl.cm cm hc)) k s

theorem matchNode_keepsO (g' : Grammar) {pc : PState → Res × PState} (h : KeepsOB a pc) (id : Nat) (nd : Node) :
    KeepsOB a (matchNode g' pc id nd) := by
  intro s
  unfold matchNode
  unfold KeepsOB at h
  grind [skipWs_cache, nmRaise_cache]

theorem withWsCtx_keepsO (nd : Node) {b : PState → Res × PState} (h : KeepsOB a b) : KeepsOB a (withWsCtx nd b) := by
  intro s
  unfold withWsCtx
  unfold KeepsOB at h
  grind [setWs_cache]

theorem withEol_keepsO (nd : Node) {b : PState → Res × PState} (h : KeepsOB a b) : KeepsOB a (withEol nd b) := by
  intro s
  unfold withEol
  unfold KeepsOB at h
  grind [setEolterm_cache]

theorem bodyNode_keepsO {p : SubParser} (h : KeepsO g a p) (k : Nat) (nd : Node)
    (hk : ∀ c ∈ nd.kids, Ok g a c) (hs : ∀ sp, nd.sep = some sp → Ok g a sp) : KeepsOB a (bodyNode p k nd) := by
  intro s
  have hseq := withWsCtx_keepsO nd (a := a) (b := fun s1 => seqLoop p nd.kids s1 [])
    (fun s1 => seqLoop_keepsO h nd.kids hk s1 []) s
  have hch := withWsCtx_keepsO nd (a := a) (b := fun s1 => choiceLoop p nd.kids s.pos s1)
    (fun s1 => choiceLoop_keepsO h nd.kids hk s.pos s1) s
  have hun := withEol_keepsO nd (a := a) (b := fun s1 => unordLoop p nd.sep k nd.kids s1 [] true .none)
    (fun s1 => unordLoop_keepsO h nd.sep hs k nd.kids hk s1 [] true .none) s
  unfold bodyNode
  cases hkind : nd.kind <;> simp only []
  case seq => grind
  case choice => grind [nmRaise_cache]
  case opt =>
    cases hkids : nd.kids with
    | nil => rfl
    | cons e es =>
      cases es with
      | nil =>
        have h1 := h e s (hk e (by simp [hkids]))
        simp only []
        grind
      | cons _ _ => rfl
  case star =>
    cases hkids : nd.kids with
    | nil => rfl
    | cons e es =>
      cases es with
      | nil => exact withEol_keepsO nd (a := a) (b := fun s1 => repLoop p e nd.sep k s1 [] false false)
                 (fun s1 => repLoop_keepsO h e nd.sep (hk e (by simp [hkids])) hs k s1 [] false false) s
      | cons _ _ => rfl
  case plus =>
    cases hkids : nd.kids with
    | nil => rfl
    | cons e es =>
      cases es with
      | nil => exact withEol_keepsO nd (a := a) (b := fun s1 => repLoop p e nd.sep k s1 [] true false)
                 (fun s1 => repLoop_keepsO h e nd.sep (hk e (by simp [hkids])) hs k s1 [] true false) s
      | cons _ _ => rfl
  case unord => grind [nmRaise_cache]
  case andP =>
    cases hkids : nd.kids with
    | nil => rfl
    | cons e es =>
      cases es with
      | nil =>
        have h1 := h e s (hk e (by simp [hkids]))
        simp only []
        grind
      | cons _ _ => rfl
  case notP =>
    cases hkids : nd.kids with
    | nil => rfl
    | cons e es =>
      cases es with
      | nil =>
        have h1 := h e s (hk e (by simp [hkids]))
        simp only []
        grind [nmRaise_cache]
      | cons _ _ => rfl
  all_goals rfl

/-- the store of `ParsingExpression.parse` goes into the cache of the node itself -/
theorem wrap_keepsO (memo : Bool) (id : Nat) (nd : Node) (hid : a id = true) {b : PState → Res × PState}
    (h : KeepsOB a b) : KeepsOB a (wrap memo id nd b) := by
  intro s
  have h1 := h s
  have hc : ∀ (y : Option Val × Nat) (c : MCache), outside a (((id, s.pos), y) :: c) = outside a c :=
    fun y c => outside_cons_in a _ c hid
  unfold wrap cacheHit cacheStore
  cases memo <;> grind

theorem nodeParse_keepsO (hcl : Closed g a) {p : SubParser} (h : KeepsO g a p) (k id : Nat) (hid : Ok g a id) :
    KeepsOB a (nodeParse g p k id) := by
  intro s
  unfold nodeParse
  cases hn : g.nodes[id]? with
  | none => rfl
  | some nd =>
    simp only []
    have hmatch := matchNode_keepsO g (commentsLoop_keepsO hcl h k) id nd s
    cases hk : nd.kind <;> simp only [] <;> try exact hmatch
    all_goals
      have ha : a id = true := by
        rcases hid with hid | hid
        · exact hid
        · simp [History.isTerm, hn, hk] at hid
      exact wrap_keepsO g.memo id nd ha
        (bodyNode_keepsO h k nd (fun c hc => Or.inl (hcl.kids id nd ha hn c hc))
          (fun sp hsp => Or.inr (hcl.sep id nd sp ha hn hsp))) s

/-- **Frame outside the walked set.**  Whatever the memoization flag, the input and the fuel: parsing a
node of a closed set `a` (or a `Match`) returns the cache entries of all rule objects outside `a`
exactly as it found them. -/
theorem parse_keepsO (hcl : Closed g a) : ∀ n, KeepsO g a (parse g n) := by
  intro n
  induction n with
  | zero => intro e s _; rfl
  | succ n ih => intro e s he; exact nodeParse_keepsO hcl ih n e he s

/-- every entry after the parse was there before or belongs to a rule object in `a` -/
theorem parse_stores_in (hcl : Closed g a) (n e : Nat) (s : PState) (he : Ok g a e) :
    ∀ x ∈ (parse g n e s).2.cache, x ∈ s.cache ∨ a x.1.1 = true := by
  intro x hx
  by_cases hax : a x.1.1 = true
  · exact .inr hax
  · left
    have hmem : x ∈ outside a (parse g n e s).2.cache := by
      simp [outside, hx, hax]
    rw [parse_keepsO hcl n e s he] at hmem
    exact (List.mem_filter.mp hmem).1

end
end Peg
