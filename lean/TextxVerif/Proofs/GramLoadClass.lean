import TextxVerif.Proofs.GramLoad
/-!
# Where the outcome classes of the grammar-loading model come from (C23)

* the handlers of the code as instances of `tryExcept` (`*_spec`): the explicit case
  distinctions of the model are Python's `try … except H` with the class `H` the code names;
* `Only P m`: the computation `m` raises only exceptions satisfying `P` (the generalisation
  of `TxOnly`), closed under `bind`, `if`;
* `Plain`: the classes the property statement names (`syntax`, `semantic`) or a Python
  exception.  Everything in the first pass except the checks of the rule parameters is
  `Plain` — a *syntactic* fact (no invariant is needed: no `throw .txerror` /
  `throw .registration` occurs);
* rule parameters: `TextXError` needs a parameter without the string value it needs
  (`badParamValue`, stated on the grammar text; `badPVal_visitParam` ties it to the values
  `visit_rule_param` makes);
* second pass: `TextXRegistrationError` needs an entry of `referenced_languages` naming an
  unregistered language (`RErr`), such an entry needs a `reference` statement (`firstPass_refs`).
-/
namespace GramLoad

/-! ## the handlers are `try … except H` -/

theorem visitLit_str_spec (ok : Bool) :
    visitLit (.str ok) = tryExcept (decodeEscapes ok) .valueError (throw .syntax) := by
  cases ok <;> rfl

theorem visitLit_re_spec (r : Option PyExc) :
    visitLit (.re r) = tryExcept (reCompile r) .exception (throw .syntax) := by
  cases r with
  | none => rfl
  | some e => cases e <;> rfl

theorem visitReNarrow_spec (r : Option PyExc) :
    visitReNarrow r = tryExcept (reCompile r) .reError (throw .syntax) := by
  cases r with
  | none => rfl
  | some e => cases e <;> rfl

theorem contains_spec (env : Env) (st : St) (name : String) :
    contains env st name = tryExcept (getitem env st name >>= fun _ => pure true) .keyError (pure false) := by
  unfold contains
  cases getitem env st name with
  | ok c => rfl
  | error e =>
      cases e <;> first | rfl | (rename_i p; cases p <;> rfl)

theorem resolveAttr_spec (env : Env) (st : St) (a : Attr) :
    resolveAttr env st a =
      tryExcept (getitem env st a.clsName >>= fun _ => pure ()) .keyError (throw .semantic) := by
  unfold resolveAttr
  cases getitem env st a.clsName with
  | ok c => rfl
  | error e =>
      cases e <;> first | rfl | (rename_i p; cases p <;> rfl)

/-! ## `Only` -/

/-- `m` raises only exceptions satisfying `P` -/
def Only {α : Type} (P : Exc → Prop) (m : M α) : Prop := ∀ e, m = .error e → P e

theorem Only.pure {α : Type} {P : Exc → Prop} (a : α) : Only P (pure a : M α) := by
  intro e h; cases h

theorem Only.ok {α : Type} {P : Exc → Prop} (a : α) : Only P (.ok a : M α) := by
  intro e h; cases h

theorem Only.throw {α : Type} {P : Exc → Prop} {e : Exc} (h : P e) : Only P (throw e : M α) := by
  intro e' h'; cases h'; exact h

theorem Only.bind {α β : Type} {P : Exc → Prop} {m : M α} {f : α → M β} (hm : Only P m)
    (hf : ∀ a, m = .ok a → Only P (f a)) : Only P (m >>= f) := by
  intro e h
  rcases bind_err.mp h with h1 | ⟨a, ha, h2⟩
  · exact hm e h1
  · exact hf a ha e h2

theorem Only.ite {α : Type} {P : Exc → Prop} {c : Prop} [Decidable c] {t f : M α}
    (ht : c → Only P t) (hf : ¬c → Only P f) : Only P (if c then t else f) := by
  by_cases h : c
  · simpa [h] using ht h
  · simpa [h] using hf h

theorem Only.mono {α : Type} {P Q : Exc → Prop} {m : M α} (h : Only P m) (hpq : ∀ e, P e → Q e) :
    Only Q m := fun e he => hpq e (h e he)

theorem TxOnly_iff_Only {α : Type} (m : M α) : TxOnly m ↔ Only (fun e => e.isTx = true) m := Iff.rfl

/-- an exception class the property statement names, or a Python exception -/
def Plain (e : Exc) : Prop := e ≠ .registration ∧ e ≠ .txerror

theorem plain_syntax : Plain .syntax := ⟨nofun, nofun⟩
theorem plain_semantic : Plain .semantic := ⟨nofun, nofun⟩
theorem plain_py (e : PyExc) : Plain (.py e) := ⟨nofun, nofun⟩

/-! ## the first pass outside the rule parameters is `Plain` -/

theorem visitLit_plain (l : Lit) : Only Plain (visitLit l) := by
  cases l with
  | str ok => cases ok <;> simp [visitLit, decodeEscapes] <;> first | exact Only.throw plain_syntax | exact Only.pure _
  | re r => cases r <;> simp [visitLit, reCompile] <;> first | exact Only.throw plain_syntax | exact Only.pure _

theorem visitMods_plain : ∀ ms : List Mod, Only Plain (visitMods ms)
  | [] => Only.pure _
  | .sep l :: ms => by
      unfold visitMods
      exact Only.bind (visitLit_plain l) fun _ _ => visitMods_plain ms
  | .eolterm :: ms => by
      unfold visitMods
      exact visitMods_plain ms

theorem visitModsOpt_plain (ms : Option (List Mod)) : Only Plain (visitModsOpt ms) := by
  cases ms with
  | none => exact Only.pure _
  | some ms => exact visitMods_plain ms

theorem nodesOf_plain (p : Peg) : Only Plain (nodesOf p) := by
  cases p with
  | cross n s => exact Only.throw (plain_py _)
  | node k rn r a ns => exact Only.pure _

theorem attrNameOf_plain (p : Peg) : Only Plain (attrNameOf p) := by
  unfold attrNameOf
  split
  · exact Only.pure _
  · exact Only.throw (plain_py _)

theorem attrGet_plain (attrs : List Attr) (name : String) : Only Plain (attrGet attrs name) := by
  unfold attrGet
  split
  · exact Only.pure _
  · exact Only.throw (plain_py _)

theorem nsGet_plain (ns : List Cls) (name : String) : Only Plain (nsGet ns name) := by
  unfold nsGet
  split
  · exact Only.pure _
  · exact Only.throw (plain_py _)

theorem checkParamName_plain (n : String) : Only Plain (checkParamName n) := by
  unfold checkParamName
  exact Only.ite (fun _ => Only.pure _) (fun _ => Only.throw plain_syntax)

theorem visitRhs_plain (r : Rhs) : Only Plain (visitRhs r) := by
  cases r with
  | lit l =>
      unfold visitRhs
      exact Only.bind (visitLit_plain l) fun _ _ => Only.pure _
  | ref n => exact Only.pure _
  | obj cls rule rrel =>
      unfold visitRhs
      exact Only.ite (fun _ => Only.throw plain_semantic) (fun _ => Only.pure _)

theorem checkParent_plain (an : String) : Only Plain (checkParent an) := by
  unfold checkParent
  exact Only.ite (fun _ => Only.throw plain_semantic) (fun _ => Only.pure _)

theorem checkMulti_plain (attrs : List Attr) (an : String) (op : AOp) : Only Plain (checkMulti attrs an op) := by
  unfold checkMulti
  exact Only.ite
    (fun _ => Only.bind (attrGet_plain _ _) fun _ _ =>
      Only.ite (fun _ => Only.throw plain_semantic) (fun _ => Only.pure _))
    (fun _ => Only.pure _)

theorem checkAsgnMods_plain (mods : Option (List Mod)) (op : AOp) : Only Plain (checkAsgnMods mods op) := by
  unfold checkAsgnMods
  exact Only.ite (fun _ => Only.throw plain_syntax) (fun _ => Only.pure _)

theorem visitAsgn_plain (attrs : List Attr) (an : String) (op : AOp) (rhs : Rhs) (mods : Option (List Mod)) :
    Only Plain (visitAsgn attrs an op rhs mods) := by
  unfold visitAsgn
  exact Only.bind (visitRhs_plain rhs) fun _ _ =>
    Only.bind (visitModsOpt_plain mods) fun _ _ =>
      Only.bind (checkParent_plain an) fun _ _ =>
        Only.bind (checkMulti_plain attrs an op) fun _ _ =>
          Only.bind (checkAsgnMods_plain mods op) fun _ _ => Only.pure _

theorem repNode_plain (p : Peg) (op : ROp) : Only Plain (repNode p op) := by
  cases op with
  | opt => exact Only.pure _
  | star => exact Only.pure _
  | plus => exact Only.pure _
  | hash =>
      unfold repNode
      exact Only.ite (fun _ => Only.bind (nodesOf_plain p) fun _ _ => Only.pure _) (fun _ => Only.pure _)

theorem checkRepMods_plain (mods : Option (List Mod)) (op : ROp) : Only Plain (checkRepMods mods op) := by
  unfold checkRepMods
  exact Only.ite (fun _ => Only.throw plain_syntax) (fun _ => Only.pure _)

theorem applyRep_plain (p : Peg) (rep : Option RepOp) : Only Plain (applyRep p rep) := by
  cases rep with
  | none => exact Only.pure _
  | some r =>
      obtain ⟨op, mods⟩ := r
      unfold applyRep
      exact Only.bind (visitModsOpt_plain mods) fun _ _ =>
        Only.bind (repNode_plain p op) fun _ _ =>
          Only.bind (checkRepMods_plain mods op) fun _ _ => Only.pure _

mutual
theorem visitExpr_plain (attrs : List Attr) : ∀ e : Expr, Only Plain (visitExpr attrs e)
  | .asgn a op rhs mods => by
      unfold visitExpr
      exact visitAsgn_plain attrs a op rhs mods
  | .lit pred l => by
      unfold visitExpr
      exact Only.bind (visitLit_plain l) fun _ _ => Only.pure _
  | .ref pred n => by
      unfold visitExpr
      exact Only.pure _
  | .group pred c => by
      unfold visitExpr
      exact Only.bind (visitChoiceL_plain attrs c) fun _ _ => Only.pure _
theorem visitRExpr_plain (attrs : List Attr) : ∀ x : RExpr, Only Plain (visitRExpr attrs x)
  | .mk e rep sup => by
      unfold visitRExpr
      exact Only.bind (visitExpr_plain attrs e) fun _ _ =>
        Only.bind (applyRep_plain _ rep) fun _ _ => Only.pure _
theorem visitSeqL_plain (attrs : List Attr) : ∀ s : Seq, Only Plain (visitSeqL attrs s)
  | .one x => by
      unfold visitSeqL
      exact Only.bind (visitRExpr_plain attrs x) fun _ _ => Only.pure _
  | .cons x xs => by
      unfold visitSeqL
      exact Only.bind (visitRExpr_plain attrs x) fun _ _ =>
        Only.bind (visitSeqL_plain _ xs) fun _ _ => Only.pure _
theorem visitChoiceL_plain (attrs : List Attr) : ∀ c : Choice, Only Plain (visitChoiceL attrs c)
  | .one s => by
      unfold visitChoiceL
      exact Only.bind (visitSeqL_plain attrs s) fun _ _ => Only.pure _
  | .cons s c => by
      unfold visitChoiceL
      exact Only.bind (visitSeqL_plain attrs s) fun _ _ =>
        Only.bind (visitChoiceL_plain _ c) fun _ _ => Only.pure _
end

theorem multAsgn_plain (attrs : List Attr) (many : Bool) (rn : String) (self : Peg) :
    Only Plain (multAsgn attrs many rn self) := by
  unfold multAsgn
  exact Only.ite
    (fun _ => Only.bind (attrNameOf_plain _) fun _ _ =>
      Only.bind (attrGet_plain _ _) fun _ _ =>
        Only.ite (fun _ => Only.throw plain_semantic) (fun _ => Only.pure _))
    (fun _ => Only.pure _)

mutual
theorem multWalk_plain (attrs : List Attr) (b many : Bool) : ∀ p : Peg, Only Plain (multWalk attrs b many p)
  | .cross _ _ => by
      unfold multWalk
      exact Only.pure _
  | .node k rn root attr kids => by
      unfold multWalk
      exact Only.ite (fun _ => multWalkL_plain attrs many kids) (fun _ =>
        Only.bind (multAsgn_plain _ _ _ _) fun _ _ =>
          Only.ite (fun _ => multWalkL_plain attrs _ kids) (fun _ => Only.pure _))
theorem multWalkL_plain (attrs : List Attr) (many : Bool) : ∀ ps : List Peg, Only Plain (multWalkL attrs many ps)
  | [] => by
      unfold multWalkL
      exact Only.pure _
  | p :: ps => by
      unfold multWalkL
      exact Only.bind (multWalk_plain attrs false many p) fun _ _ => multWalkL_plain attrs many ps
end

theorem finishRule_plain (ns1 : List Cls) (name : String) (hp : Bool) (b : List Peg × List Attr) :
    Only Plain (finishRule ns1 name hp b) := by
  unfold finishRule
  exact Only.bind (nsGet_plain _ _) fun _ _ =>
    Only.bind (multWalk_plain _ _ _ _) fun _ _ => Only.pure _

theorem checkRuleName_plain (n : String) : Only Plain (checkRuleName n) := by
  unfold checkRuleName
  exact Only.ite (fun _ => Only.throw plain_semantic) (fun _ => Only.pure _)

theorem visitStms_plain : ∀ (stms : List Stm) (refs : List (String × String)), Only Plain (visitStms refs stms)
  | [], _ => Only.pure _
  | .imp :: _, _ => Only.throw (plain_py _)
  | .reference lang alias :: rest, refs => by
      unfold visitStms
      exact visitStms_plain rest _

/-! ## rule parameters: `TextXError` needs a parameter without its string value -/

/-- the value `visit_rule_param` made can not be used for `ws` / `split` -/
def badPVal : String × PVal → Bool
  | (n, .bool _) => n == "ws" || n == "split"
  | (n, .str s) => n == "split" && s.length == 0

/-- not a registration error; a `TextXError` only under the condition `bad` -/
def PErr (bad : Prop) (e : Exc) : Prop := e ≠ .registration ∧ (e = .txerror → bad)

theorem plain_perr {bad : Prop} {e : Exc} (h : Plain e) : PErr bad e := ⟨h.1, fun h' => absurd h' h.2⟩

theorem Only.perr {α : Type} {bad : Prop} {m : M α} (h : Only Plain m) : Only (PErr bad) m :=
  h.mono fun _ => plain_perr

theorem PErr.weaken {b1 b2 : Prop} (h : b1 → b2) {e : Exc} (he : PErr b1 e) : PErr b2 e :=
  ⟨he.1, fun h' => h (he.2 h')⟩

theorem checkSplit_perr (n : String) (v : PVal) : Only (PErr (badPVal (n, v) = true)) (checkSplit n v) := by
  unfold checkSplit
  refine Only.ite (fun hn => ?_) (fun _ => Only.pure _)
  have hn' : n = "split" := by simpa using hn
  cases v with
  | bool b => exact Only.throw ⟨nofun, fun _ => by simp [badPVal, hn']⟩
  | str s =>
      simp only [pyLen]
      refine Only.bind (Only.pure _) fun l hl => ?_
      have : s.length = l := pure_ok_inj hl
      subst this
      exact Only.ite (fun h0 => Only.throw ⟨nofun, fun _ => by simpa [badPVal, hn'] using h0⟩)
        (fun _ => Only.pure _)

theorem checkWs_perr (n : String) (v : PVal) : Only (PErr (badPVal (n, v) = true)) (checkWs n v) := by
  unfold checkWs
  refine Only.ite (fun hn => ?_) (fun _ => Only.pure _)
  have hn' : n = "ws" := by simpa using hn
  cases v with
  | bool b => exact Only.throw ⟨nofun, fun _ => by simp [badPVal, hn']⟩
  | str s =>
      simp only [pyInStr]
      exact Only.bind (Only.pure _) fun _ _ => Only.pure _

theorem checkParams_perr : ∀ ps : List (String × PVal), Only (PErr (ps.any badPVal = true)) (checkParams ps)
  | [] => Only.pure _
  | (n, v) :: rest => by
      unfold checkParams
      have l1 : badPVal (n, v) = true → ((n, v) :: rest).any badPVal = true := fun h => by
        simp [List.any_cons, h]
      have l2 : rest.any badPVal = true → ((n, v) :: rest).any badPVal = true := fun h => by
        simp [List.any_cons, h]
      exact Only.bind (checkParamName_plain n).perr fun _ _ =>
        Only.bind ((checkSplit_perr n v).mono fun _ => PErr.weaken l1) fun _ _ =>
          Only.bind ((checkWs_perr n v).mono fun _ => PErr.weaken l1) fun _ _ =>
            (checkParams_perr rest).mono fun _ => PErr.weaken l2

theorem toList_of_startsNo {n : String} (h : startsNo n = true) :
    n.toList = 'n' :: 'o' :: n.toList.drop 2 := by
  unfold startsNo at h
  have hn : "no".toList = ['n', 'o'] := by decide
  rw [hn] at h
  match hl : n.toList, h with
  | a :: b :: rest, h =>
      simp [List.isPrefixOf] at h
      obtain ⟨rfl, rfl⟩ := h
      simp
  | [], h => simp [List.isPrefixOf] at h
  | [a], h => simp [List.isPrefixOf] at h

theorem drop2_eq_iff {n t : String} (h : startsNo n = true) :
    drop2 n = t ↔ n = String.ofList ('n' :: 'o' :: t.toList) := by
  have hl := toList_of_startsNo h
  unfold drop2
  constructor
  · intro hd
    have : n.toList.drop 2 = t.toList := by rw [← hd, String.toList_ofList]
    apply String.toList_inj.mp
    rw [String.toList_ofList, ← this]
    exact hl
  · intro hn
    rw [hn, String.toList_ofList]
    simp [String.ofList_toList]

theorem nows_eq : String.ofList ('n' :: 'o' :: "ws".toList) = "nows" := by
  rw [← String.toList_inj, String.toList_ofList]; decide

theorem nosplit_eq : String.ofList ('n' :: 'o' :: "split".toList) = "nosplit" := by
  rw [← String.toList_inj, String.toList_ofList]; decide

/-- the condition on the grammar text (`badParamValue`) is the condition on the value
`visit_rule_param` makes of it: only `nows` / `nosplit` become `ws` / `split` by losing
their prefix -/
theorem badPVal_visitParam (p : String × Option String) : badPVal (visitParam p) = badParamValue p := by
  obtain ⟨n, v⟩ := p
  cases v with
  | some v => rfl
  | none =>
      simp only [visitParam, badParamValue]
      by_cases hno : startsNo n = true
      · have hA := drop2_eq_iff (t := "ws") hno
        have hB := drop2_eq_iff (t := "split") hno
        rw [nows_eq] at hA
        rw [nosplit_eq] at hB
        have hC : n ≠ "ws" := by intro h; rw [h] at hno; revert hno; decide
        have hD : n ≠ "split" := by intro h; rw [h] at hno; revert hno; decide
        simp only [hno, ↓reduceIte, badPVal]
        rw [Bool.eq_iff_iff]
        simp only [Bool.or_eq_true, beq_iff_eq, hA, hB, hC, hD, false_or, or_false]
      · have hC : n ≠ "nows" := by intro h; rw [h] at hno; revert hno; decide
        have hD : n ≠ "nosplit" := by intro h; rw [h] at hno; revert hno; decide
        simp only [hno, Bool.false_eq_true, ↓reduceIte, badPVal]
        rw [Bool.eq_iff_iff]
        simp only [Bool.or_eq_true, beq_iff_eq, hC, hD, or_false]

theorem any_badPVal_map (ps : List (String × Option String)) :
    (ps.map visitParam).any badPVal = ps.any badParamValue := by
  induction ps with
  | nil => rfl
  | cons p ps ih => simp only [List.map_cons, List.any_cons, ih, badPVal_visitParam]

theorem visitParams_perr (r : Rule) : Only (PErr (r.hasBadParam = true)) (visitParams r.params) := by
  obtain ⟨name, params, body⟩ := r
  cases params with
  | none => exact Only.pure _
  | some ps =>
      have h := checkParams_perr (ps.map visitParam)
      rw [any_badPVal_map] at h
      exact h

theorem visitRule_perr (ns : List Cls) (r : Rule) : Only (PErr (r.hasBadParam = true)) (visitRule ns r) := by
  unfold visitRule
  exact Only.bind (checkRuleName_plain _).perr fun _ _ =>
    Only.bind (visitParams_perr r) fun _ _ =>
      Only.bind (visitChoiceL_plain [] r.body).perr fun _ _ => (finishRule_plain _ _ _ _).perr

theorem visitRules_perr : ∀ (rs : List Rule) (ns : List Cls),
    Only (PErr (rs.any Rule.hasBadParam = true)) (visitRules ns rs)
  | [], _ => Only.pure _
  | r :: rs, ns => by
      unfold visitRules
      have l1 : r.hasBadParam = true → (r :: rs).any Rule.hasBadParam = true := fun h => by
        simp [List.any_cons, h]
      have l2 : rs.any Rule.hasBadParam = true → (r :: rs).any Rule.hasBadParam = true := fun h => by
        simp [List.any_cons, h]
      exact Only.bind ((visitRule_perr ns r).mono fun _ => PErr.weaken l1) fun r1 _ =>
        (visitRules_perr rs r1.1).mono fun _ => PErr.weaken l2

/-- the first pass: never a registration error; a `TextXError` only for a grammar with a
rule parameter that lacks its string value -/
theorem firstPass_perr (g : Grammar) : Only (PErr (g.hasBadParam = true)) (firstPass g) := by
  unfold firstPass
  have l1 : g.first.hasBadParam = true → g.hasBadParam = true := fun h => by
    simp [Grammar.hasBadParam, List.any_cons, h]
  have l2 : g.rest.any Rule.hasBadParam = true → g.hasBadParam = true := fun h => by
    simp [Grammar.hasBadParam, List.any_cons, h]
  exact Only.bind (visitStms_plain _ _).perr fun _ _ =>
    Only.bind ((visitRule_perr _ _).mono fun _ => PErr.weaken l1) fun _ _ =>
      Only.bind ((visitRules_perr _ _).mono fun _ => PErr.weaken l2) fun _ _ => Only.pure _

/-- sufficiency: a first parameter without its string value is reported as `TextXError` -/
theorem checkParams_bad {n : String} {v : PVal} {rest : List (String × PVal)} (h : badPVal (n, v) = true) :
    checkParams ((n, v) :: rest) = .error .txerror := by
  cases v with
  | bool b =>
      simp only [badPVal, Bool.or_eq_true, beq_iff_eq] at h
      rcases h with h | h <;> subst h <;> rfl
  | str s =>
      simp only [badPVal, Bool.and_eq_true, beq_iff_eq] at h
      obtain ⟨h1, h2⟩ := h
      have h3 : s = "" := String.length_eq_zero_iff.mp h2
      subst h1
      subst h3
      rfl

theorem visitStms_ok : ∀ (stms : List Stm) (refs : List (String × String)), Stm.imp ∉ stms →
    ∃ refs', visitStms refs stms = .ok refs'
  | [], refs, _ => ⟨refs, rfl⟩
  | .imp :: _, _, h => absurd List.mem_cons_self h
  | .reference lang alias :: rest, refs, h => by
      unfold visitStms
      exact visitStms_ok rest _ fun h' => h (List.mem_cons_of_mem _ h')

theorem firstPass_bad_first_param {g : Grammar} (hi : Stm.imp ∉ g.stms) (hn : isAsgnName g.first.name = false)
    {p : String × Option String} {ps : List (String × Option String)} (hp : g.first.params = some (p :: ps))
    (hb : badParamValue p = true) : firstPass g = .error .txerror := by
  obtain ⟨refs, hrefs⟩ := visitStms_ok g.stms [] hi
  have hname : checkRuleName g.first.name = .ok () := by
    unfold checkRuleName
    simp only [hn, Bool.false_eq_true, ↓reduceIte]
    rfl
  have hparams : visitParams g.first.params = .error .txerror := by
    rw [hp]
    show checkParams (visitParam p :: ps.map visitParam) = .error .txerror
    have hb' : badPVal (visitParam p) = true := by rw [badPVal_visitParam]; exact hb
    generalize visitParam p = q at hb'
    obtain ⟨n, v⟩ := q
    exact checkParams_bad hb'
  have hrule : visitRule [] g.first = .error .txerror := by
    unfold visitRule
    rw [hname, ok_bind, hparams, error_bind]
  unfold firstPass
  rw [hrefs, ok_bind, hrule, error_bind]

/-! ## second pass: `TextXRegistrationError` needs an unregistered referenced language -/

/-- an entry of `referenced_languages` names a language that is not registered -/
def UnregIn (env : Env) (refs : List (String × String)) : Prop := ∃ p, p ∈ refs ∧ env.langs p.2 = none

/-- not a `TextXError`; a registration error only with an unregistered referenced language -/
def RErr (env : Env) (st : St) (e : Exc) : Prop := e ≠ .txerror ∧ (e = .registration → UnregIn env st.refs)

theorem rerr_semantic {env : Env} {st : St} : RErr env st .semantic := ⟨nofun, nofun⟩
theorem rerr_py {env : Env} {st : St} (p : PyExc) : RErr env st (.py p) := ⟨nofun, nofun⟩

theorem getitem_rerr (env : Env) (st : St) (name : String) : Only (RErr env st) (getitem env st name) := by
  intro e h
  refine ⟨?_, fun he => ?_⟩
  · rcases getitem_err h with h1 | h1 <;> subst h1 <;> nofun
  · subst he
    unfold getitem at h
    split at h
    · split at h
      · rename_i hfind
        split at h
        · rename_i hlang
          exact ⟨_, List.mem_of_find?_eq_some hfind, hlang⟩
        · split at h
          · cases h
          · cases h
      · split at h
        · cases h
        · cases h
    · split at h
      · cases h
      · split at h
        · cases h
        · cases h

theorem contains_rerr (env : Env) (st : St) (name : String) : Only (RErr env st) (contains env st name) := by
  unfold contains
  intro e h
  split at h
  · cases h
  · cases h
  · rename_i e' hne hg
    have h' : (Except.error e' : M Bool) = .error e := h
    cases h'
    exact getitem_rerr env st name _ hg

theorem resolveAttr_rerr (env : Env) (st : St) (a : Attr) : Only (RErr env st) (resolveAttr env st a) := by
  unfold resolveAttr
  intro e h
  split at h
  · cases h
  · have h' : (Except.error .semantic : M Unit) = .error e := h
    cases h'
    exact rerr_semantic
  · rename_i e' hne hg
    have h' : (Except.error e' : M Unit) = .error e := h
    cases h'
    exact getitem_rerr env st a.clsName _ hg

theorem resolveCross_rerr (env : Env) (st : St) : ∀ (f : Nat) (chain : List String) (name : String),
    Only (RErr env st) (resolveCross env st f chain name)
  | 0, _, _ => by
      unfold resolveCross
      exact Only.throw (rerr_py _)
  | f + 1, chain, name => by
      unfold resolveCross
      refine Only.bind (contains_rerr env st name) fun found _ => ?_
      cases found with
      | false => exact Only.throw rerr_semantic
      | true =>
          simp only [Bool.not_true, Bool.false_eq_true, if_false]
          refine Only.bind (getitem_rerr env st name) fun cr _ => ?_
          cases cr with
          | base n => exact Only.pure _
          | foreign n => exact Only.pure _
          | loc c =>
              cases hp : c.peg with
              | node k rn root attr kids => simp only [hp]; exact Only.pure _
              | cross n2 s2 =>
                  simp only [hp]
                  exact Only.ite (fun _ => Only.throw rerr_semantic)
                    (fun _ => resolveCross_rerr env st f _ n2)

theorem errOf_rerr {env : Env} {st : St} {m : M Unit} (hm : Only (RErr env st) m) {e : Exc} (h : e ∈ errOf m) :
    RErr env st e := hm e (mem_errOf h)

mutual
theorem crossErrs_rerr {env : Env} {st : St} : ∀ (p : Peg) (e : Exc), e ∈ crossErrs env st p → RErr env st e
  | .cross n _, e, h => by
      unfold crossErrs at h
      exact errOf_rerr (resolveCross_rerr env st _ _ n) h
  | .node _ _ _ _ kids, e, h => by
      unfold crossErrs at h
      exact crossErrsL_rerr kids e h
theorem crossErrsL_rerr {env : Env} {st : St} : ∀ (ps : List Peg) (e : Exc), e ∈ crossErrsL env st ps → RErr env st e
  | [], e, h => by
      unfold crossErrsL at h
      cases h
  | p :: ps, e, h => by
      unfold crossErrsL at h
      rcases List.mem_append.mp h with h | h
      · exact crossErrs_rerr p e h
      · exact crossErrsL_rerr ps e h
end

theorem candidates2_rerr {env : Env} {st : St} {e : Exc} (h : e ∈ candidates2 env st) : RErr env st e := by
  unfold candidates2 at h
  rcases List.mem_append.mp h with h | h
  · exact crossErrs_rerr _ e h
  · obtain ⟨c, _, hc⟩ := List.mem_flatMap.mp h
    exact crossErrs_rerr _ e hc

theorem candidates4_rerr {env : Env} {st : St} {e : Exc} (h : e ∈ candidates4 env st) : RErr env st e := by
  unfold candidates4 at h
  obtain ⟨c, _, hc⟩ := List.mem_flatMap.mp h
  obtain ⟨a, _, ha⟩ := List.mem_flatMap.mp hc
  exact errOf_rerr (resolveAttr_rerr env st a) ha

/-! ## entries of `referenced_languages` come from `reference` statements -/

theorem visitStms_refs : ∀ (stms : List Stm) (refs refs' : List (String × String)),
    visitStms refs stms = .ok refs' → ∀ p, p ∈ refs' → p ∈ refs ∨ ∃ a, Stm.reference p.2 a ∈ stms
  | [], refs, refs', h, p, hp => by
      have := pure_ok_inj (show (pure refs : M (List (String × String))) = .ok refs' from h)
      subst this
      exact Or.inl hp
  | .imp :: _, _, _, h, _, _ => (throw_ne_ok h).elim
  | .reference lang alias :: rest, refs, refs', h, p, hp => by
      unfold visitStms at h
      rcases visitStms_refs rest _ refs' h p hp with h1 | ⟨a, ha⟩
      · simp only [List.mem_cons] at h1
        rcases h1 with h1 | h1
        · exact Or.inr ⟨alias, by rw [h1]; exact List.mem_cons_self⟩
        · exact Or.inl h1
      · exact Or.inr ⟨a, List.mem_cons_of_mem _ ha⟩

theorem firstPass_refs {g : Grammar} {st : St} (h : firstPass g = .ok st) :
    ∀ p, p ∈ st.refs → ∃ a, Stm.reference p.2 a ∈ g.stms := by
  unfold firstPass at h
  obtain ⟨refs, hrefs, h⟩ := bind_ok.mp h
  obtain ⟨r1, hr1, h⟩ := bind_ok.mp h
  obtain ⟨ns, hns, h⟩ := bind_ok.mp h
  have := pure_ok_inj h
  subst this
  intro p hp
  rcases visitStms_refs _ _ _ hrefs p hp with h1 | h1
  · cases h1
  · exact h1

theorem hasUnregistered_of_unregIn {env : Env} {g : Grammar} {st : St} (hfp : firstPass g = .ok st)
    (h : UnregIn env st.refs) : g.hasUnregistered env = true := by
  obtain ⟨p, hp, hnone⟩ := h
  obtain ⟨a, ha⟩ := firstPass_refs hfp p hp
  unfold Grammar.hasUnregistered
  rw [List.any_eq_true]
  exact ⟨_, ha, by simp [hnone]⟩

/-! ## every possible outcome, classified -/

/-- the two classes the property statement does not name occur only under their
syntactic conditions -/
def Classified (env : Env) (g : Grammar) (o : M Unit) : Prop :=
  (o = .error .registration → g.hasUnregistered env = true) ∧ (o = .error .txerror → g.hasBadParam = true)

theorem classified_of_rerr {env : Env} {g : Grammar} {st : St} (hfp : firstPass g = .ok st) {e : Exc}
    (h : RErr env st e) : Classified env g (.error e) := by
  refine ⟨fun he => ?_, fun he => ?_⟩
  · have : e = .registration := by cases he; rfl
    exact hasUnregistered_of_unregIn hfp (h.2 this)
  · have : e = .txerror := by cases he; rfl
    exact absurd this h.1

theorem outcomes_classified (env : Env) (g : Grammar) : ∀ o, o ∈ outcomes env g → Classified env g o := by
  intro o ho
  unfold outcomes at ho
  cases hfp : firstPass g with
  | error e' =>
      rw [hfp] at ho
      have ho' : o = .error e' := List.mem_singleton.mp ho
      subst ho'
      have hp := firstPass_perr g e' hfp
      refine ⟨fun he => ?_, fun he => ?_⟩
      · have : e' = .registration := by cases he; rfl
        exact absurd this hp.1
      · have : e' = .txerror := by cases he; rfl
        exact hp.2 this
  | ok st =>
      rw [hfp] at ho
      obtain ⟨hc, hhc⟩ := commentsModel_ok env st
      have ho' : o ∈ outcomes2 env st hc := by
        simp only [hhc] at ho
        exact ho
      unfold outcomes2 at ho'
      rw [refreshComments_ok, stage3_ok (firstPass_inv hfp)] at ho'
      rcases mem_errsOr ho' with h1 | ⟨e', he', heq⟩
      · rcases mem_errsOr h1 with h2 | ⟨e', he', heq⟩
        · have h3 : o = .ok () := List.mem_singleton.mp h2
          subst h3
          exact ⟨nofun, nofun⟩
        · subst heq
          exact classified_of_rerr hfp (candidates4_rerr he')
      · subst heq
        exact classified_of_rerr hfp (candidates2_rerr he')

/-! ## the fuel of `resolveCross` is immaterial once it suffices

`resolveStep` is one call of `_resolve_rule` on a rule reference with the nested call left
open (`resolveCross_succ`: the model is its iteration).  A run that does not exhaust its fuel
is reproduced by every larger fuel (`resolveCross_stable`). -/

/-- one call of `_resolve_rule` on a `RuleCrossRef`, the nested call left open -/
def resolveStep (env : Env) (st : St) (rec : List String → String → M Unit) (chain : List String)
    (name : String) : M Unit := do
  let found ← contains env st name
  if !found then throw .semantic
  else do
    let cr ← getitem env st name
    match cr with
    | .loc c =>
        match c.peg with
        | .cross n2 _ =>
            if chain.contains c.name then throw .semantic
            else rec (c.name :: chain) n2
        | .node .. => pure ()
    | _ => pure ()

theorem resolveCross_succ (env : Env) (st : St) (f : Nat) (chain : List String) (name : String) :
    resolveCross env st (f + 1) chain name = resolveStep env st (resolveCross env st f) chain name := rfl

def recErr : M Unit := .error (.py .recursionError)

theorem resolveStep_congr {env : Env} {st : St} {r1 r2 : List String → String → M Unit}
    {chain : List String} {name : String}
    (h : ∀ c n, r1 c n ≠ recErr → r2 c n = r1 c n)
    (hne : resolveStep env st r1 chain name ≠ recErr) :
    resolveStep env st r2 chain name = resolveStep env st r1 chain name := by
  unfold resolveStep at hne ⊢
  revert hne
  cases contains env st name with
  | error e => intro _; rfl
  | ok found =>
      cases found with
      | false => intro _; rfl
      | true =>
          simp only [ok_bind, Bool.not_true, Bool.false_eq_true, if_false]
          cases getitem env st name with
          | error e => intro _; rfl
          | ok cr =>
              cases cr with
              | base n => intro _; rfl
              | foreign n => intro _; rfl
              | loc c =>
                  simp only [ok_bind]
                  cases hp : c.peg with
                  | node k rn root attr kids => intro _; rfl
                  | cross n2 s2 =>
                      simp only []
                      by_cases hch : chain.contains c.name = true
                      · simp only [hch, if_true]
                        intro _; trivial
                      · simp only [hch, Bool.false_eq_true, if_false]
                        intro hne
                        exact h _ _ hne

theorem resolveCross_mono1 (env : Env) (st : St) : ∀ (f : Nat) (chain : List String) (name : String),
    resolveCross env st f chain name ≠ recErr →
    resolveCross env st (f + 1) chain name = resolveCross env st f chain name
  | 0, chain, name, h => absurd rfl h
  | f + 1, chain, name, h => by
      rw [resolveCross_succ env st (f + 1), resolveCross_succ env st f]
      rw [resolveCross_succ] at h
      exact resolveStep_congr (fun c n hne => resolveCross_mono1 env st f c n hne) h

theorem resolveCross_stable (env : Env) (st : St) (f : Nat) (chain : List String) (name : String)
    (h : resolveCross env st f chain name ≠ recErr) :
    ∀ k, resolveCross env st (f + k) chain name = resolveCross env st f chain name
  | 0 => rfl
  | k + 1 => by
      have ih := resolveCross_stable env st f chain name h k
      have : resolveCross env st (f + k) chain name ≠ recErr := by rw [ih]; exact h
      rw [← Nat.add_assoc, resolveCross_mono1 env st (f + k) chain name this, ih]

end GramLoad
