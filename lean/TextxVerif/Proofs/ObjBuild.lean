import TextxVerif.Obj.Build
import TextxVerif.Proofs.ObjNav
/-! Helper lemmas for C05: `process_node` builds tree-shaped heaps with correct parent links. -/
namespace Obj

/-! ## heap primitives -/

theorem Heap.get_append_left {h : Heap} {o : HObj} {x : Nat} (hx : x < h.length) :
    Heap.get (h ++ [o]) x = h.get x := by
  simp [Heap.get, List.getElem?_append_left hx]

theorem Heap.get_append_new (h : Heap) (o : HObj) : Heap.get (h ++ [o]) h.length = some o := by
  simp [Heap.get]

theorem Heap.get_of_ge {h : Heap} {x : Nat} (hx : h.length ≤ x) : h.get x = none := by
  simp [Heap.get, hx]

theorem Heap.isSome_iff {h : Heap} {x : Nat} : (h.get x).isSome = true ↔ x < h.length := by
  simp [Heap.get]

theorem Heap.length_put {h : Heap} {x : Nat} {o : HObj} : (h.put x o).length = h.length := by
  simp [Heap.put]

theorem Heap.get_put_eq {h : Heap} {x : Nat} {o : HObj} (hx : x < h.length) : (h.put x o).get x = some o := by
  simp [Heap.get, Heap.put, hx]

theorem Heap.get_put_ne {h : Heap} {x y : Nat} {o : HObj} (hne : y ≠ x) : (h.put x o).get y = h.get y := by
  simp only [Heap.get, Heap.put]
  rw [List.getElem?_set_ne (Ne.symm hne)]

theorem updAttr_length {h : Heap} {x a : Nat} {f : AVal → AVal} : (h.updAttr x a f).length = h.length := by
  unfold Heap.updAttr
  cases h.get x <;> simp [Heap.length_put]

theorem updAttr_get_ne {h : Heap} {x y a : Nat} {f : AVal → AVal} (hne : y ≠ x) :
    (h.updAttr x a f).get y = h.get y := by
  unfold Heap.updAttr
  cases h.get x with
  | none => rfl
  | some o => exact Heap.get_put_ne hne

theorem updAttr_get_eq {h : Heap} {x a : Nat} {f : AVal → AVal} {o : HObj} (hx : h.get x = some o) :
    (h.updAttr x a f).get x = some { o with attrs := updAttrs a f o.attrs } := by
  unfold Heap.updAttr
  rw [hx]
  exact Heap.get_put_eq (get_lt hx)

theorem setParent_length {h : Heap} {x p : Nat} : (h.setParent x p).length = h.length := by
  unfold Heap.setParent
  cases h.get x <;> simp [Heap.length_put]

theorem setParent_get_ne {h : Heap} {x y p : Nat} (hne : y ≠ x) : (h.setParent x p).get y = h.get y := by
  unfold Heap.setParent
  cases h.get x with
  | none => rfl
  | some o => exact Heap.get_put_ne hne

theorem setParent_get_eq {h : Heap} {x p : Nat} {o : HObj} (hx : h.get x = some o) :
    (h.setParent x p).get x = some { o with parent := some p } := by
  unfold Heap.setParent
  rw [hx]
  exact Heap.get_put_eq (get_lt hx)

theorem contIds_congr {h h' : Heap} {x : Nat} (hx : h'.get x = h.get x) : contIds h' x = contIds h x := by
  simp [contIds, hx]

theorem parentOf_congr {h h' : Heap} {x : Nat} (hx : h'.get x = h.get x) : parentOf h' x = parentOf h x := by
  simp [parentOf, hx]

/-! ## attribute updates and contained ids -/

theorem filterMap_objId_single (v : Val) : List.filterMap Val.objId? [v] = v.objId?.toList := by
  cases v <;> simp [Val.objId?]

theorem AVal.objIds_append (v : Val) (cur : AVal) : (AVal.append v cur).objIds = cur.objIds ++ v.objId?.toList := by
  cases cur with
  | many vs => simp only [AVal.append, AVal.objIds, List.filterMap_append, filterMap_objId_single]
  | one w =>
    cases w with
    | none => simp only [AVal.append, AVal.objIds, filterMap_objId_single]; simp [Val.objId?]
    | prim t =>
      simp only [AVal.append, AVal.objIds]
      rw [show [Val.prim t, v] = [Val.prim t] ++ [v] from rfl, List.filterMap_append, filterMap_objId_single,
        filterMap_objId_single]
    | obj i =>
      simp only [AVal.append, AVal.objIds]
      rw [show [Val.obj i, v] = [Val.obj i] ++ [v] from rfl, List.filterMap_append, filterMap_objId_single,
        filterMap_objId_single]

theorem AVal.objIds_assign (v : Val) (cur : AVal) : (AVal.assign v cur).objIds = v.objId?.toList := by
  simp [AVal.assign, AVal.objIds]

theorem contIdsL_updAttrs (a : Nat) (f : AVal → AVal) (V : List Nat)
    (hf : ∀ cur, (f cur).objIds.Sublist (cur.objIds ++ V)) :
    ∀ attrs, ∃ L, (contIdsL (updAttrs a f attrs)).Sublist L ∧ L.Perm (contIdsL attrs ++ V) := by
  intro attrs
  induction attrs with
  | nil => exact ⟨V, by simp [updAttrs, contIdsL], by simp [contIdsL]⟩
  | cons mv rest ih =>
    obtain ⟨m, v⟩ := mv
    unfold updAttrs
    by_cases hn : m.name = a
    · simp only [hn, if_true, contIdsL]
      by_cases hc : m.cont = true
      · simp only [hc, if_true]
        refine ⟨(v.objIds ++ V) ++ contIdsL rest, List.Sublist.append (hf v) (List.Sublist.refl _), ?_⟩
        simp only [List.append_assoc]
        exact List.Perm.append_left _ List.perm_append_comm
      · simp only [hc, Bool.false_eq_true, if_false, List.nil_append]
        exact ⟨contIdsL rest ++ V, List.sublist_append_left _ _, List.Perm.refl _⟩
    · simp only [hn, if_false, contIdsL]
      obtain ⟨L, h1, h2⟩ := ih
      refine ⟨(if m.cont then v.objIds else []) ++ L, List.Sublist.append (List.Sublist.refl _) h1, ?_⟩
      simp only [List.append_assoc]
      exact List.Perm.append_left _ h2

theorem contIds_updAttr (h : Heap) (top a : Nat) (f : AVal → AVal) (V : List Nat)
    (hf : ∀ cur, (f cur).objIds.Sublist (cur.objIds ++ V)) :
    ∃ L, (contIds (h.updAttr top a f) top).Sublist L ∧ L.Perm (contIds h top ++ V) := by
  cases hx : h.get top with
  | none =>
    have : h.updAttr top a f = h := by unfold Heap.updAttr; rw [hx]
    rw [this]
    exact ⟨contIds h top ++ V, List.sublist_append_left _ _, List.Perm.refl _⟩
  | some o =>
    obtain ⟨L, h1, h2⟩ := contIdsL_updAttrs a f V hf o.attrs
    refine ⟨L, ?_, ?_⟩
    · simpa [contIds, updAttr_get_eq hx, HObj.contIds] using h1
    · simpa [contIds, hx, HObj.contIds] using h2

theorem parentOf_updAttr (h : Heap) (top a : Nat) (f : AVal → AVal) (x : Nat) :
    parentOf (h.updAttr top a f) x = parentOf h x := by
  by_cases hxt : x = top
  · subst hxt
    cases hx : h.get x with
    | none =>
      have : h.updAttr x a f = h := by unfold Heap.updAttr; rw [hx]
      rw [this]
    | some o => simp [parentOf, updAttr_get_eq hx, hx]
  · exact parentOf_congr (updAttr_get_ne hxt)

/-- adding (or dropping) contained objects in one attribute of `top` keeps the heap a tree, as
long as every added object is so far uncontained and already points to `top` -/
theorem TreeHeap.updAttr {h : Heap} (T : TreeHeap h) (top a : Nat) (f : AVal → AVal) (V : List Nat)
    (hf : ∀ cur, (f cur).objIds.Sublist (cur.objIds ++ V)) (hVnd : V.Nodup)
    (hV : ∀ c ∈ V, c < h.length ∧ parentOf h c = some top ∧ ∀ p, c ∉ contIds h p) :
    TreeHeap (h.updAttr top a f) := by
  obtain ⟨L, hsub, hperm⟩ := contIds_updAttr h top a f V hf
  have hmem : ∀ p c, c ∈ contIds (h.updAttr top a f) p → c ∈ contIds h p ∨ (p = top ∧ c ∈ V) := by
    intro p c hc
    by_cases hp : p = top
    · subst hp
      have := hperm.mem_iff.mp (hsub.subset hc)
      rcases List.mem_append.mp this with h1 | h1
      · exact Or.inl h1
      · exact Or.inr ⟨rfl, h1⟩
    · rw [contIds_congr (updAttr_get_ne hp)] at hc
      exact Or.inl hc
  constructor
  · intro p c hc
    rw [parentOf_updAttr]
    rcases hmem p c hc with h1 | ⟨rfl, h1⟩
    · exact T.parent_of_cont p c h1
    · exact (hV c h1).2.1
  · intro c p hp
    rw [parentOf_updAttr] at hp
    exact T.parent_lt c p hp
  · intro p
    by_cases hp : p = top
    · subst hp
      refine List.Nodup.sublist hsub (hperm.nodup_iff.mpr ?_)
      refine List.nodup_append.mpr ⟨T.nodup p, hVnd, ?_⟩
      intro x hx y hy hxy
      subst hxy
      exact (hV x hy).2.2 p hx
    · rw [contIds_congr (updAttr_get_ne hp)]
      exact T.nodup p
  · intro p c hc
    rw [Heap.isSome_iff, updAttr_length]
    rcases hmem p c hc with h1 | ⟨_, h1⟩
    · exact Heap.isSome_iff.mp (T.exists_of_cont p c h1)
    · exact (hV c h1).1

/-! ## invariant and frame conditions of `process_node` -/

structure Inv (s : St) : Prop where
  tree : TreeHeap s.heap
  stack_lt : ∀ x ∈ s.stack, x < s.heap.length

def SameCore (o o' : HObj) : Prop :=
  o'.cls = o.cls ∧ o'.parent = o.parent ∧ o'.pos = o.pos ∧ o'.posEnd = o.posEnd

/-- what one call of `process_node` (or of one of its loops) may change -/
structure Step (s s' : St) : Prop where
  inv : Inv s'
  stack : s'.stack = s.stack
  len : s.heap.length ≤ s'.heap.length
  /-- objects that exist already and are not on top of the instance stack are untouched -/
  frame : ∀ x, x < s.heap.length → s.stack.head? ≠ some x → s'.heap.get x = s.heap.get x
  /-- the object on top of the stack keeps class, parent and span (only attributes change) -/
  head_same : ∀ x o, s.stack.head? = some x → s.heap.get x = some o →
    ∃ o', s'.heap.get x = some o' ∧ SameCore o o'
  /-- containment is only ever extended by objects allocated during the call -/
  cont_new : ∀ p c, c ∈ contIds s'.heap p → c ∈ contIds s.heap p ∨ s.heap.length ≤ c

/-- the object returned by `process_node` -/
structure Fresh (s s' : St) (c : Nat) : Prop where
  ge : s.heap.length ≤ c
  lt : c < s'.heap.length
  uncont : ∀ p, c ∉ contIds s'.heap p
  parent : parentOf s'.heap c = s.stack.head?
  old_same : ∀ x, x < s.heap.length → s'.heap.get x = s.heap.get x

theorem Step.refl {s : St} (hi : Inv s) : Step s s :=
  ⟨hi, rfl, Nat.le_refl _, fun _ _ _ => rfl, fun _ o _ ho => ⟨o, ho, rfl, rfl, rfl, rfl⟩, fun _ _ hc => Or.inl hc⟩

theorem Step.trans {s s1 s2 : St} (a : Step s s1) (b : Step s1 s2) : Step s s2 := by
  refine ⟨b.inv, b.stack.trans a.stack, Nat.le_trans a.len b.len, ?_, ?_, ?_⟩
  · intro x hx hh
    rw [b.frame x (Nat.lt_of_lt_of_le hx a.len) (by rw [a.stack]; exact hh), a.frame x hx hh]
  · intro x o hh ho
    obtain ⟨o1, h1, c1⟩ := a.head_same x o hh ho
    obtain ⟨o2, h2, c2⟩ := b.head_same x o1 (by rw [a.stack]; exact hh) h1
    exact ⟨o2, h2, c2.1.trans c1.1, c2.2.1.trans c1.2.1, c2.2.2.1.trans c1.2.2.1, c2.2.2.2.trans c1.2.2.2⟩
  · intro p c hc
    rcases b.cont_new p c hc with h1 | h1
    · exact a.cont_new p c h1
    · exact Or.inr (Nat.le_trans a.len h1)

theorem Step.parent_old {s s' : St} (st : Step s s') {x : Nat} (hx : x < s.heap.length) :
    parentOf s'.heap x = parentOf s.heap x := by
  by_cases hh : s.stack.head? = some x
  · cases ho : s.heap.get x with
    | none =>
      have := Heap.isSome_iff.mpr hx
      rw [ho] at this; simp at this
    | some o =>
      obtain ⟨o', h1, c⟩ := st.head_same x o hh ho
      simp [parentOf, h1, ho, c.2.1]
  · exact parentOf_congr (st.frame x hx hh)

/-- storing the value returned for a child node into an attribute of the object on top of the stack -/
theorem Step.attach {s s1 : St} {top a : Nat} {f : AVal → AVal} {val : Val}
    (st : Step s s1) (fr : ∀ c, val = .obj c → Fresh s s1 c) (htop : s.stack.head? = some top)
    (hf : ∀ cur, (f cur).objIds.Sublist (cur.objIds ++ val.objId?.toList)) :
    Step s { s1 with heap := s1.heap.updAttr top a f } := by
  have hV : ∀ c ∈ val.objId?.toList, val = .obj c := by
    intro c hc
    cases val <;> simp [Val.objId?] at hc
    subst hc; rfl
  have hT : TreeHeap (s1.heap.updAttr top a f) := by
    refine st.inv.tree.updAttr top a f _ hf ?_ ?_
    · cases val <;> simp [Val.objId?]
    · intro c hc
      have := fr c (hV c hc)
      exact ⟨this.lt, by rw [this.parent, htop], this.uncont⟩
  refine ⟨⟨hT, ?_⟩, st.stack, ?_, ?_, ?_, ?_⟩
  · intro x hx
    simp only [updAttr_length]
    exact st.inv.stack_lt x hx
  · simp only [updAttr_length]; exact st.len
  · intro x hx hh
    have hxt : x ≠ top := by intro h; subst h; exact hh htop
    simp only []
    rw [updAttr_get_ne hxt]
    exact st.frame x hx hh
  · intro x o hh ho
    have hxt : x = top := by rw [htop] at hh; exact (Option.some.inj hh).symm
    subst hxt
    obtain ⟨o1, h1, c1⟩ := st.head_same x o hh ho
    exact ⟨_, updAttr_get_eq h1, c1⟩
  · intro p c hc
    simp only [] at hc
    by_cases hp : p = top
    · subst hp
      obtain ⟨L, hsub, hperm⟩ := contIds_updAttr s1.heap p a f _ hf
      rcases List.mem_append.mp (hperm.mem_iff.mp (hsub.subset hc)) with h1 | h1
      · exact st.cont_new p c h1
      · exact Or.inr (fr c (hV c h1)).ge
    · rw [contIds_congr (updAttr_get_ne hp)] at hc
      exact st.cont_new p c hc


/-! ## allocation and the end of an object node -/

theorem contIdsL_init (l : List MetaAttr) : contIdsL (l.map initAttr) = [] := by
  induction l with
  | nil => rfl
  | cons m l ih =>
    simp only [List.map_cons, initAttr, contIdsL, ih, List.append_nil]
    by_cases hm : m.many = true <;> simp [hm, AVal.objIds, Val.objId?]

theorem contIds_append_new {h : Heap} {o : HObj} (hoc : contIdsL o.attrs = []) (p : Nat) :
    contIds (h ++ [o]) p = contIds h p := by
  rcases Nat.lt_trichotomy p h.length with hlt | heq | hgt
  · exact contIds_congr (Heap.get_append_left hlt)
  · subst heq
    simp [contIds, Heap.get_append_new, HObj.contIds, hoc, Heap.get_of_ge]
  · have h1 : Heap.get (h ++ [o]) p = none := Heap.get_of_ge (by simp; omega)
    have h2 : h.get p = none := Heap.get_of_ge (by omega)
    simp [contIds, h1, h2]

theorem parentOf_append_new {h : Heap} {o : HObj} (ho : o.parent = none) (x : Nat) :
    parentOf (h ++ [o]) x = parentOf h x := by
  rcases Nat.lt_trichotomy x h.length with hlt | heq | hgt
  · exact parentOf_congr (Heap.get_append_left hlt)
  · subst heq
    simp [parentOf, Heap.get_append_new, ho, Heap.get_of_ge]
  · have h1 : Heap.get (h ++ [o]) x = none := Heap.get_of_ge (by simp; omega)
    have h2 : h.get x = none := Heap.get_of_ge (by omega)
    simp [parentOf, h1, h2]

theorem Inv.alloc {s : St} (hi : Inv s) {o : HObj} (ho : o.parent = none) (hoc : contIdsL o.attrs = []) :
    Inv { heap := s.heap ++ [o], stack := s.heap.length :: s.stack } := by
  refine ⟨⟨?_, ?_, ?_, ?_⟩, ?_⟩
  · intro p c hc
    rw [contIds_append_new hoc] at hc
    rw [parentOf_append_new ho]
    exact hi.tree.parent_of_cont p c hc
  · intro c p hp
    rw [parentOf_append_new ho] at hp
    exact hi.tree.parent_lt c p hp
  · intro p
    rw [contIds_append_new hoc]
    exact hi.tree.nodup p
  · intro p c hc
    rw [contIds_append_new hoc] at hc
    have := Heap.isSome_iff.mp (hi.tree.exists_of_cont p c hc)
    rw [Heap.isSome_iff]; simp; omega
  · intro x hx
    simp only [List.mem_cons] at hx
    simp only [List.length_append, List.length_singleton]
    rcases hx with rfl | hx
    · omega
    · have := hi.stack_lt x hx; omega

theorem contIds_setParent (h : Heap) (x p q : Nat) : contIds (h.setParent x p) q = contIds h q := by
  by_cases hq : q = x
  · subst hq
    cases hx : h.get q with
    | none =>
      have : h.setParent q p = h := by unfold Heap.setParent; rw [hx]
      rw [this]
    | some o => simp [contIds, setParent_get_eq hx, hx, HObj.contIds]
  · exact contIds_congr (setParent_get_ne hq)

theorem parentOf_setParent_ne (h : Heap) {x p y : Nat} (hy : y ≠ x) : parentOf (h.setParent x p) y = parentOf h y :=
  parentOf_congr (setParent_get_ne hy)

theorem parentOf_setParent_eq {h : Heap} {x p : Nat} (hx : x < h.length) : parentOf (h.setParent x p) x = some p := by
  cases hg : h.get x with
  | none => have := Heap.isSome_iff.mpr hx; rw [hg] at this; simp at this
  | some o => simp [parentOf, setParent_get_eq hg]

theorem TreeHeap.setParent {h : Heap} (T : TreeHeap h) {x p : Nat} (hx : x < h.length) (hpx : p < x)
    (hun : ∀ q, x ∉ contIds h q) : TreeHeap (h.setParent x p) := by
  refine ⟨?_, ?_, ?_, ?_⟩
  · intro q c hc
    rw [contIds_setParent] at hc
    have hcx : c ≠ x := by intro h'; subst h'; exact hun q hc
    rw [parentOf_setParent_ne h hcx]
    exact T.parent_of_cont q c hc
  · intro c q hq
    by_cases hcx : c = x
    · subst hcx
      rw [parentOf_setParent_eq hx] at hq
      cases hq; exact hpx
    · rw [parentOf_setParent_ne h hcx] at hq
      exact T.parent_lt c q hq
  · intro q; rw [contIds_setParent]; exact T.nodup q
  · intro q c hc
    rw [contIds_setParent] at hc
    rw [Heap.isSome_iff, setParent_length]
    exact Heap.isSome_iff.mp (T.exists_of_cont q c hc)

/-- end of an object node: pop, then `parent := top of the stack` -/
theorem obj_post {s s2 : St} {o : HObj} (hi : Inv s) (ho : o.parent = none) (hoc : contIdsL o.attrs = [])
    (st : Step { heap := s.heap ++ [o], stack := s.heap.length :: s.stack } s2) :
    Step s { heap := (match s2.stack.tail with
                      | [] => s2.heap
                      | p :: _ => s2.heap.setParent s.heap.length p), stack := s2.stack.tail } ∧
    Fresh s { heap := (match s2.stack.tail with
                       | [] => s2.heap
                       | p :: _ => s2.heap.setParent s.heap.length p), stack := s2.stack.tail } s.heap.length := by
  have hstk : s2.stack.tail = s.stack := by rw [st.stack]; rfl
  have hlen2 : s.heap.length + 1 ≤ s2.heap.length := by simpa using st.len
  -- old objects are untouched while the new object is on top of the stack
  have hold : ∀ x, x < s.heap.length → s2.heap.get x = s.heap.get x := by
    intro x hx
    have := st.frame x (by simp; omega) (by simp; omega)
    rw [this]; exact Heap.get_append_left hx
  -- the new object is not contained anywhere yet
  have hun : ∀ q, s.heap.length ∉ contIds s2.heap q := by
    intro q hq
    rcases st.cont_new q _ hq with h1 | h1
    · rw [contIds_append_new hoc] at h1
      have := Heap.isSome_iff.mp (hi.tree.exists_of_cont q _ h1)
      omega
    · simp at h1; omega
  have hcont : ∀ q c, c ∈ contIds s2.heap q → c ∈ contIds s.heap q ∨ s.heap.length ≤ c := by
    intro q c hc
    rcases st.cont_new q c hc with h1 | h1
    · rw [contIds_append_new hoc] at h1; exact Or.inl h1
    · simp at h1; exact Or.inr (by omega)
  obtain ⟨o', hget, hcore⟩ := st.head_same s.heap.length o (by simp) (Heap.get_append_new _ _)
  have hpar2 : parentOf s2.heap s.heap.length = none := by simp [parentOf, hget, hcore.2.1, ho]
  rw [hstk]
  cases hs : s.stack with
  | nil =>
    refine ⟨⟨⟨?_, ?_⟩, ?_, ?_, ?_, ?_, ?_⟩, ⟨?_, ?_, ?_, ?_, ?_⟩⟩ <;> (try dsimp only)
    · exact st.inv.tree
    · intro x hx; cases hx
    · exact hs.symm
    · omega
    · intro x hx _; exact hold x hx
    · intro x o'' hh; simp [hs] at hh
    · exact hcont
    · exact Nat.le_refl _
    · omega
    · exact hun
    · simp [hpar2, hs]
    · exact hold
  | cons p rest =>
    have hp : p < s.heap.length := hi.stack_lt p (by simp [hs])
    have hT := st.inv.tree.setParent (x := s.heap.length) (p := p) (by omega) hp hun
    refine ⟨⟨⟨hT, ?_⟩, ?_, ?_, ?_, ?_, ?_⟩, ⟨?_, ?_, ?_, ?_, ?_⟩⟩ <;> (try dsimp only)
    · intro x hx
      rw [setParent_length]
      have := hi.stack_lt x (by rw [hs]; exact hx); omega
    · exact hs.symm
    · rw [setParent_length]; omega
    · intro x hx _
      rw [setParent_get_ne (by omega)]; exact hold x hx
    · intro x o'' hh ho''
      simp [hs] at hh
      subst hh
      exact ⟨o'', by rw [setParent_get_ne (by omega), hold p hp]; exact ho'', rfl, rfl, rfl, rfl⟩
    · intro q c hc
      rw [contIds_setParent] at hc
      exact hcont q c hc
    · exact Nat.le_refl _
    · rw [setParent_length]; omega
    · intro q; rw [contIds_setParent]; exact hun q
    · rw [parentOf_setParent_eq (by omega)]; simp [hs]
    · intro x hx
      rw [setParent_get_ne (by omega)]; exact hold x hx


/-! ## the main induction -/

theorem sublist_assign (val : Val) (cur : AVal) :
    (AVal.assign val cur).objIds.Sublist (cur.objIds ++ val.objId?.toList) := by
  rw [AVal.objIds_assign]; exact List.sublist_append_right _ _

theorem sublist_append (val : Val) (cur : AVal) :
    (AVal.append val cur).objIds.Sublist (cur.objIds ++ val.objId?.toList) := by
  rw [AVal.objIds_append]; exact List.Sublist.refl _

theorem head_lt {s : St} (hi : Inv s) {top : Nat} (h : s.stack.head? = some top) : top < s.heap.length := by
  cases hs : s.stack with
  | nil => simp [hs] at h
  | cons x xs =>
    simp [hs] at h; subst h
    exact hi.stack_lt x (by simp [hs])

mutual
theorem processNode_post (tr : Heap → Nat → Bool) (mm : Nat → List MetaAttr) : (n : PT) → ∀ (s : St) (v : Val) (s' : St),
    Inv s → processNode tr mm n s = some (v, s') → Step s s' ∧ ∀ c, v = .obj c → Fresh s s' c
  | .term _ _ _ t, s, v, s', hi, h => by
    simp only [processNode, Option.some.injEq, Prod.mk.injEq] at h
    obtain ⟨rfl, rfl⟩ := h
    exact ⟨Step.refl hi, fun c hc => by cases hc⟩
  | .nt (.mat t) _, s, v, s', hi, h => by
    simp only [processNode, Option.some.injEq, Prod.mk.injEq] at h
    obtain ⟨rfl, rfl⟩ := h
    exact ⟨Step.refl hi, fun c hc => by cases hc⟩
  | .nt .abs ks, s, v, s', hi, h => by
    match ks, h with
    | [], h => simp [processNode] at h
    | [k], h =>
      simp only [processNode] at h
      exact processNode_post tr mm k s v s' hi h
    | k :: k2 :: rest, h =>
      simp only [processNode] at h
      exact processFirstNT_post tr mm _ (k :: k2 :: rest) s v s' hi h
  | .nt (.obj cls) ks, s, v, s', hi, h => by
    simp only [processNode, St.next] at h
    have hi1 := hi.alloc (o := newObj mm cls ks) rfl (contIdsL_init _)
    cases hk : processKids tr mm ks { heap := s.heap ++ [newObj mm cls ks], stack := s.heap.length :: s.stack } with
    | none => simp [hk] at h
    | some s2 =>
      simp only [hk, Option.some.injEq, Prod.mk.injEq] at h
      obtain ⟨rfl, rfl⟩ := h
      have st := processKids_post tr mm ks _ s2 hi1 hk
      have := obj_post (o := newObj mm cls ks) hi rfl (contIdsL_init (mm cls)) st
      refine ⟨this.1, ?_⟩
      intro c hc
      cases hc
      exact this.2
  | .nt (.asgn a op) ks, s, v, s', hi, h => by
    simp only [processNode] at h
    cases hs : s.stack with
    | nil => simp [hs] at h
    | cons top rest =>
      have htop : s.stack.head? = some top := by simp [hs]
      simp only [hs] at h
      cases hf : (s.heap.get top).bind (fun o => findAttr a o.attrs) with
      | none => simp [hf] at h
      | some mc =>
        obtain ⟨m, cur⟩ := mc
        simp only [hf] at h
        cases op with
        | optional =>
          simp only [Option.some.injEq, Prod.mk.injEq] at h
          rw [← hs] at h
          obtain ⟨rfl, rfl⟩ := h
          refine ⟨?_, fun c hc => by cases hc⟩
          exact (Step.refl hi).attach (val := .prim true) (fun c hc => by cases hc) htop
            (fun cur => sublist_assign _ cur)
        | plain =>
          match cur, ks, h with
          | cur, [], h => cases cur <;> simp at h
          | .one v0, k :: _, h =>
            simp only [] at h
            by_cases hv : v0.truthyIn tr s.heap = true
            · simp [hv] at h
            · simp only [hv, Bool.false_eq_true, if_false] at h
              cases hk : processNode tr mm k s with
              | none => simp [hk] at h
              | some r =>
                obtain ⟨val, s1⟩ := r
                simp only [hk] at h
                have ih := processNode_post tr mm k s val s1 hi hk
                by_cases hc : m.cont = true
                · simp only [hc, if_true, Option.some.injEq, Prod.mk.injEq] at h
                  obtain ⟨rfl, rfl⟩ := h
                  exact ⟨ih.1.attach ih.2 htop (fun cur => sublist_assign _ cur), fun c hc => by cases hc⟩
                · simp only [hc, Bool.false_eq_true, if_false, Option.some.injEq, Prod.mk.injEq] at h
                  obtain ⟨rfl, rfl⟩ := h
                  exact ⟨ih.1, fun c hc => by cases hc⟩
          | .many _, k :: _, h =>
            simp only [] at h
            cases hk : processNode tr mm k s with
            | none => simp [hk] at h
            | some r =>
              obtain ⟨val, s1⟩ := r
              simp only [hk] at h
              have ih := processNode_post tr mm k s val s1 hi hk
              by_cases hc : m.cont = true
              · simp only [hc, if_true, Option.some.injEq, Prod.mk.injEq] at h
                obtain ⟨rfl, rfl⟩ := h
                exact ⟨ih.1.attach ih.2 htop (fun cur => sublist_append _ cur), fun c hc => by cases hc⟩
              · simp only [hc, Bool.false_eq_true, if_false, Option.some.injEq, Prod.mk.injEq] at h
                obtain ⟨rfl, rfl⟩ := h
                exact ⟨ih.1, fun c hc => by cases hc⟩
        | many =>
          cases hk : processItems tr mm top a m.cont ks s with
          | none => simp [hk] at h
          | some s1 =>
            simp only [hk, Option.some.injEq, Prod.mk.injEq] at h
            obtain ⟨rfl, rfl⟩ := h
            exact ⟨processItems_post tr mm ks top a m.cont s s1 hi htop hk, fun c hc => by cases hc⟩

theorem processKids_post (tr : Heap → Nat → Bool) (mm : Nat → List MetaAttr) : (ks : List PT) → ∀ (s s' : St),
    Inv s → processKids tr mm ks s = some s' → Step s s'
  | [], s, s', hi, h => by
    simp only [processKids, Option.some.injEq] at h
    subst h; exact Step.refl hi
  | k :: ks, s, s', hi, h => by
    simp only [processKids] at h
    cases hk : processNode tr mm k s with
    | none => simp [hk] at h
    | some r =>
      obtain ⟨val, s1⟩ := r
      simp only [hk] at h
      have ih := processNode_post tr mm k s val s1 hi hk
      exact ih.1.trans (processKids_post tr mm ks s1 s' ih.1.inv h)

theorem processFirstNT_post (tr : Heap → Nat → Bool) (mm : Nat → List MetaAttr) (fb : Bool) : (ks : List PT) → ∀ (s : St) (v : Val) (s' : St),
    Inv s → processFirstNT tr mm fb ks s = some (v, s') → Step s s' ∧ ∀ c, v = .obj c → Fresh s s' c
  | [], s, v, s', hi, h => by
    simp only [processFirstNT, Option.some.injEq, Prod.mk.injEq] at h
    obtain ⟨rfl, rfl⟩ := h
    exact ⟨Step.refl hi, fun c hc => by cases hc⟩
  | k :: ks, s, v, s', hi, h => by
    simp only [processFirstNT] at h
    by_cases ht : (k.isTerm || k.isMatchNT) = true
    · simp only [ht, if_true] at h
      exact processFirstNT_post tr mm fb ks s v s' hi h
    · simp only [ht, Bool.false_eq_true, if_false] at h
      exact processNode_post tr mm k s v s' hi h

theorem processItems_post (tr : Heap → Nat → Bool) (mm : Nat → List MetaAttr) : (ks : List PT) → ∀ (top a : Nat) (cont : Bool) (s s' : St),
    Inv s → s.stack.head? = some top → processItems tr mm top a cont ks s = some s' → Step s s'
  | [], top, a, cont, s, s', hi, _, h => by
    simp only [processItems, Option.some.injEq] at h
    subst h; exact Step.refl hi
  | k :: ks, top, a, cont, s, s', hi, htop, h => by
    simp only [processItems] at h
    by_cases hsep : k.isSep = true
    · simp only [hsep, if_true] at h
      exact processItems_post tr mm ks top a cont s s' hi htop h
    · simp only [hsep, Bool.false_eq_true, if_false] at h
      cases hk : processNode tr mm k s with
      | none => simp [hk] at h
      | some r =>
        obtain ⟨val, s1⟩ := r
        simp only [hk] at h
        have ih := processNode_post tr mm k s val s1 hi hk
        by_cases hc : cont = true
        · simp only [hc, if_true] at h
          have st : Step s { s1 with heap := s1.heap.updAttr top a (AVal.append val) } :=
            ih.1.attach ih.2 htop (fun cur => sublist_append _ cur)
          exact st.trans (processItems_post tr mm ks top a true _ s' st.inv (by rw [st.stack]; exact htop) h)
        · simp only [hc, Bool.false_eq_true, if_false] at h
          have hc' : cont = false := by simpa using hc
          subst hc'
          exact ih.1.trans (processItems_post tr mm ks top a false s1 s' ih.1.inv (by rw [ih.1.stack]; exact htop) h)
end

end Obj
