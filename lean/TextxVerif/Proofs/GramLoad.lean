import TextxVerif.GramLoad
/-!
# Helper lemmas for the grammar-loading model (C23)

* `TxOnly m`: the computation `m` raises textX errors only; closure under `bind`,
  `if`, `match`.
* invariants of the parser model the first pass builds (`innerOk`): inside a rule
  body a node is `root` exactly when it is an assignment rule, its `rule_name`
  starts with `__asgn` exactly then, and its `_attr_name` is a key of `_tx_attrs`
  of the rule's class; kept by every visitor function (`visit*_inv`).
* totality of the first pass (`firstPass_tx`), of following aliases with the fuel
  `len(namespace) + 1` (`resolveCross_tx`), of the attribute reads of
  `_determine_rule_types` (`stage3_ok`) and of `_resolve_cls_refs` (`stage4_tx`).
-/
namespace GramLoad

/-! ## `TxOnly` -/

/-- `m` raises textX errors only -/
def TxOnly {α : Type} (m : M α) : Prop := ∀ e, m = .error e → e.isTx = true

theorem TxOnly.pure {α : Type} (a : α) : TxOnly (pure a : M α) := by
  intro e h; cases h

theorem TxOnly.ok {α : Type} (a : α) : TxOnly (.ok a : M α) := by
  intro e h; cases h

theorem TxOnly.throw {α : Type} {e : Exc} (h : e.isTx = true) : TxOnly (throw e : M α) := by
  intro e' h'; cases h'; exact h

theorem TxOnly.bind {α β : Type} {m : M α} {f : α → M β} (hm : TxOnly m)
    (hf : ∀ a, m = .ok a → TxOnly (f a)) : TxOnly (m >>= f) := by
  intro e h
  cases m with
  | error e' =>
      have h' : (Except.error e' : M β) = .error e := h
      have h2 : e' = e := by cases h'; rfl
      exact h2 ▸ hm e' rfl
  | ok a =>
      have h' : f a = .error e := h
      exact hf a rfl e h'

theorem TxOnly.ite {α : Type} {c : Prop} [Decidable c] {t f : M α} (ht : c → TxOnly t) (hf : ¬c → TxOnly f) :
    TxOnly (if c then t else f) := by
  by_cases h : c
  · simpa [h] using ht h
  · simpa [h] using hf h

theorem bind_ok {α β : Type} {m : M α} {f : α → M β} {b : β} :
    (m >>= f) = .ok b ↔ ∃ a, m = .ok a ∧ f a = .ok b := by
  cases m with
  | error e =>
      constructor
      · intro h
        have h' : (Except.error e : M β) = .ok b := h
        cases h'
      · rintro ⟨a, h, _⟩
        cases h
  | ok a =>
      constructor
      · intro h
        exact ⟨a, rfl, h⟩
      · rintro ⟨a', h, h2⟩
        cases h
        exact h2

theorem bind_err {α β : Type} {m : M α} {f : α → M β} {e : Exc} :
    (m >>= f) = .error e ↔ m = .error e ∨ ∃ a, m = .ok a ∧ f a = .error e := by
  cases m with
  | error e' =>
      constructor
      · intro h
        have h' : (Except.error e' : M β) = .error e := h
        have h2 : e' = e := by cases h'; rfl
        exact Or.inl (h2 ▸ rfl)
      · rintro (h | ⟨a, h, _⟩)
        · have h2 : e' = e := by cases h; rfl
          subst h2
          rfl
        · cases h
  | ok a =>
      constructor
      · intro h
        exact Or.inr ⟨a, rfl, h⟩
      · rintro (h | ⟨a', h, h2⟩)
        · cases h
        · cases h
          exact h2

theorem ok_bind {α β : Type} (a : α) (f : α → M β) : ((Except.ok a : M α) >>= f) = f a := rfl

theorem error_bind {α β : Type} (e : Exc) (f : α → M β) : ((Except.error e : M α) >>= f) = .error e := rfl

theorem pure_ok_inj {α : Type} {a b : α} (h : (pure a : M α) = .ok b) : a = b := by
  have h' : (Except.ok a : M α) = .ok b := h
  cases h'
  rfl

theorem throw_ne_ok {α : Type} {e : Exc} {b : α} (h : (throw e : M α) = .ok b) : False := by
  have h' : (Except.error e : M α) = .ok b := h
  cases h'

/-! ## literals, modifiers, rule parameters -/

theorem visitLit_tx (l : Lit) : TxOnly (visitLit l) := by
  cases l with
  | str ok => cases ok <;> simp [visitLit, decodeEscapes] <;> first | exact TxOnly.throw rfl | exact TxOnly.pure _
  | re r => cases r <;> simp [visitLit, reCompile] <;> first | exact TxOnly.throw rfl | exact TxOnly.pure _

theorem visitMods_tx : ∀ ms : List Mod, TxOnly (visitMods ms)
  | [] => TxOnly.pure _
  | .sep l :: ms => by
      unfold visitMods
      exact TxOnly.bind (visitLit_tx l) fun _ _ => visitMods_tx ms
  | .eolterm :: ms => by
      unfold visitMods
      exact visitMods_tx ms

theorem visitModsOpt_tx (ms : Option (List Mod)) : TxOnly (visitModsOpt ms) := by
  cases ms with
  | none => exact TxOnly.pure _
  | some ms => exact visitMods_tx ms

theorem checkParamName_tx (n : String) : TxOnly (checkParamName n) := by
  unfold checkParamName
  exact TxOnly.ite (fun _ => TxOnly.pure _) (fun _ => TxOnly.throw rfl)

theorem checkSplit_tx (n : String) (v : PVal) : TxOnly (checkSplit n v) := by
  unfold checkSplit
  refine TxOnly.ite (fun _ => ?_) (fun _ => TxOnly.pure _)
  cases v with
  | bool b => exact TxOnly.throw rfl
  | str s =>
      simp only [pyLen]
      exact TxOnly.bind (TxOnly.pure _) fun l _ => TxOnly.ite (fun _ => TxOnly.throw rfl) (fun _ => TxOnly.pure _)

theorem checkWs_tx (n : String) (v : PVal) : TxOnly (checkWs n v) := by
  unfold checkWs
  refine TxOnly.ite (fun _ => ?_) (fun _ => TxOnly.pure _)
  cases v with
  | bool b => exact TxOnly.throw rfl
  | str s =>
      simp only [pyInStr]
      exact TxOnly.bind (TxOnly.pure _) fun _ _ => TxOnly.pure _

theorem checkParams_tx : ∀ ps : List (String × PVal), TxOnly (checkParams ps)
  | [] => TxOnly.pure _
  | (n, v) :: rest => by
      unfold checkParams
      exact TxOnly.bind (checkParamName_tx n) fun _ _ =>
        TxOnly.bind (checkSplit_tx n v) fun _ _ =>
          TxOnly.bind (checkWs_tx n v) fun _ _ => checkParams_tx rest

theorem visitParams_tx (ps : Option (List (String × Option String))) : TxOnly (visitParams ps) := by
  cases ps with
  | none => exact TxOnly.pure _
  | some ps => exact checkParams_tx _

/-! ## assignments and repeat operators -/

theorem attrGet_ok_of_any {attrs : List Attr} {an : String} (h : attrs.any (·.name == an) = true) :
    ∃ a, attrGet attrs an = .ok a := by
  unfold attrGet
  cases hf : attrs.find? (·.name == an) with
  | some a => exact ⟨a, rfl⟩
  | none =>
      rw [List.find?_eq_none] at hf
      rw [List.any_eq_true] at h
      obtain ⟨x, hx, hx'⟩ := h
      exact absurd hx' (hf x hx)

theorem visitRhs_tx (r : Rhs) : TxOnly (visitRhs r) := by
  cases r with
  | lit l =>
      unfold visitRhs
      exact TxOnly.bind (visitLit_tx l) fun _ _ => TxOnly.pure _
  | ref n => exact TxOnly.pure _
  | obj cls rule rrel =>
      unfold visitRhs
      exact TxOnly.ite (fun _ => TxOnly.throw rfl) (fun _ => TxOnly.pure _)

theorem checkParent_tx (an : String) : TxOnly (checkParent an) := by
  unfold checkParent
  exact TxOnly.ite (fun _ => TxOnly.throw rfl) (fun _ => TxOnly.pure _)

theorem checkMulti_tx (attrs : List Attr) (an : String) (op : AOp) : TxOnly (checkMulti attrs an op) := by
  unfold checkMulti
  refine TxOnly.ite (fun h => ?_) (fun _ => TxOnly.pure _)
  obtain ⟨a, ha⟩ := attrGet_ok_of_any h
  rw [ha]
  exact TxOnly.bind (TxOnly.ok _) fun _ _ => TxOnly.ite (fun _ => TxOnly.throw rfl) (fun _ => TxOnly.pure _)

theorem checkAsgnMods_tx (mods : Option (List Mod)) (op : AOp) : TxOnly (checkAsgnMods mods op) := by
  unfold checkAsgnMods
  exact TxOnly.ite (fun _ => TxOnly.throw rfl) (fun _ => TxOnly.pure _)

theorem visitAsgn_tx (attrs : List Attr) (an : String) (op : AOp) (rhs : Rhs) (mods : Option (List Mod)) :
    TxOnly (visitAsgn attrs an op rhs mods) := by
  unfold visitAsgn
  exact TxOnly.bind (visitRhs_tx rhs) fun _ _ =>
    TxOnly.bind (visitModsOpt_tx mods) fun _ _ =>
      TxOnly.bind (checkParent_tx an) fun _ _ =>
        TxOnly.bind (checkMulti_tx attrs an op) fun _ _ =>
          TxOnly.bind (checkAsgnMods_tx mods op) fun _ _ => TxOnly.pure _

theorem repNode_tx (p : Peg) (op : ROp) : TxOnly (repNode p op) := by
  cases op with
  | opt => exact TxOnly.pure _
  | star => exact TxOnly.pure _
  | plus => exact TxOnly.pure _
  | hash =>
      unfold repNode
      refine TxOnly.ite (fun h => ?_) (fun _ => TxOnly.pure _)
      -- `expr.nodes` is read only when `expr` is a `Sequence`
      cases p with
      | cross n s => simp [isSeqClass] at h
      | node k rn r a ns =>
          simp only [nodesOf]
          exact TxOnly.bind (TxOnly.pure _) fun _ _ => TxOnly.pure _

theorem checkRepMods_tx (mods : Option (List Mod)) (op : ROp) : TxOnly (checkRepMods mods op) := by
  unfold checkRepMods
  exact TxOnly.ite (fun _ => TxOnly.throw rfl) (fun _ => TxOnly.pure _)

theorem applyRep_tx (p : Peg) (rep : Option RepOp) : TxOnly (applyRep p rep) := by
  cases rep with
  | none => exact TxOnly.pure _
  | some r =>
      obtain ⟨op, mods⟩ := r
      unfold applyRep
      exact TxOnly.bind (visitModsOpt_tx mods) fun _ _ =>
        TxOnly.bind (repNode_tx p op) fun _ _ =>
          TxOnly.bind (checkRepMods_tx mods op) fun _ _ => TxOnly.pure _

/-! ## expressions: only textX errors -/

mutual
theorem visitExpr_tx (attrs : List Attr) : ∀ e : Expr, TxOnly (visitExpr attrs e)
  | .asgn a op rhs mods => by
      unfold visitExpr
      exact visitAsgn_tx attrs a op rhs mods
  | .lit pred l => by
      unfold visitExpr
      exact TxOnly.bind (visitLit_tx l) fun _ _ => TxOnly.pure _
  | .ref pred n => by
      unfold visitExpr
      exact TxOnly.pure _
  | .group pred c => by
      unfold visitExpr
      exact TxOnly.bind (visitChoiceL_tx attrs c) fun _ _ => TxOnly.pure _
theorem visitRExpr_tx (attrs : List Attr) : ∀ x : RExpr, TxOnly (visitRExpr attrs x)
  | .mk e rep sup => by
      unfold visitRExpr
      exact TxOnly.bind (visitExpr_tx attrs e) fun _ _ =>
        TxOnly.bind (applyRep_tx _ rep) fun _ _ => TxOnly.pure _
theorem visitSeqL_tx (attrs : List Attr) : ∀ s : Seq, TxOnly (visitSeqL attrs s)
  | .one x => by
      unfold visitSeqL
      exact TxOnly.bind (visitRExpr_tx attrs x) fun _ _ => TxOnly.pure _
  | .cons x xs => by
      unfold visitSeqL
      exact TxOnly.bind (visitRExpr_tx attrs x) fun _ _ =>
        TxOnly.bind (visitSeqL_tx _ xs) fun _ _ => TxOnly.pure _
theorem visitChoiceL_tx (attrs : List Attr) : ∀ c : Choice, TxOnly (visitChoiceL attrs c)
  | .one s => by
      unfold visitChoiceL
      exact TxOnly.bind (visitSeqL_tx attrs s) fun _ _ => TxOnly.pure _
  | .cons s c => by
      unfold visitChoiceL
      exact TxOnly.bind (visitSeqL_tx attrs s) fun _ _ =>
        TxOnly.bind (visitChoiceL_tx _ c) fun _ _ => TxOnly.pure _
end

/-! ## invariant of the parser model built by the first pass -/

/-- keys of `_tx_attrs` -/
def names (attrs : List Attr) : List String := attrs.map (·.name)

mutual
/-- a node inside a rule body: it is `root` exactly when it is an assignment rule;
its `rule_name` starts with `__asgn` exactly then; its `_attr_name` is a key of
the class's `_tx_attrs` -/
def innerOk (ns : List String) : Peg → Bool
  | .cross _ _ => true
  | .node _ rn root attr kids =>
      (match attr with
       | some a => root && isAsgnName rn && ns.contains a
       | none => !root && !isAsgnName rn) && innerOkL ns kids
def innerOkL (ns : List String) : List Peg → Bool
  | [] => true
  | p :: ps => innerOk ns p && innerOkL ns ps
end

/-- the root of a rule: a rule reference, or a node that is not an assignment
rule, whose name does not start with `__asgn`, over a well-formed body -/
def rootOk (ns : List String) : Peg → Prop
  | .cross _ _ => True
  | .node _ rn _ attr kids => isAsgnName rn = false ∧ attr = none ∧ innerOkL ns kids = true

def ClsOk (c : Cls) : Prop := rootOk (names c.attrs) c.peg

mutual
theorem innerOk_mono {n1 n2 : List String} (h : ∀ x, x ∈ n1 → x ∈ n2) :
    ∀ p : Peg, innerOk n1 p = true → innerOk n2 p = true
  | .cross _ _, _ => by simp [innerOk]
  | .node k rn root attr kids, hp => by
      simp only [innerOk, Bool.and_eq_true] at hp ⊢
      refine ⟨?_, innerOkL_mono h kids hp.2⟩
      cases attr with
      | none => exact hp.1
      | some a =>
          have h1 := hp.1
          simp only [Bool.and_eq_true, List.contains_iff_mem] at h1 ⊢
          exact ⟨h1.1, h a h1.2⟩
theorem innerOkL_mono {n1 n2 : List String} (h : ∀ x, x ∈ n1 → x ∈ n2) :
    ∀ ps : List Peg, innerOkL n1 ps = true → innerOkL n2 ps = true
  | [], _ => by simp [innerOkL]
  | p :: ps, hp => by
      simp only [innerOkL, Bool.and_eq_true] at hp ⊢
      exact ⟨innerOk_mono h p hp.1, innerOkL_mono h ps hp.2⟩
end

theorem isAsgnName_empty : isAsgnName "" = false := by decide

theorem innerOk_mkMatch (ns : List String) : innerOk ns mkMatch = true := by
  simp [mkMatch, innerOk, innerOkL, isAsgnName_empty]

theorem innerOk_wrapPred (ns : List String) (pred : Option Pred) (p : Peg) (h : innerOk ns p = true) :
    innerOk ns (wrapPred pred p) = true := by
  cases pred with
  | none => exact h
  | some pr => cases pr <;> simp [wrapPred, innerOk, innerOkL, isAsgnName_empty, h]

theorem innerOk_mkSeq (ns : List String) (ps : List Peg) (h : innerOkL ns ps = true) :
    innerOk ns (mkSeq ps) = true := by
  unfold mkSeq
  split
  · simpa [innerOkL] using h
  · simp [innerOk, isAsgnName_empty, h]

theorem innerOk_mkChoice (ns : List String) (ps : List Peg) (h : innerOkL ns ps = true) :
    innerOk ns (mkChoice ps) = true := by
  unfold mkChoice
  split
  · simpa [innerOkL] using h
  · simp [innerOk, isAsgnName_empty, h]

theorem innerOk_setSup (ns : List String) (p : Peg) (s : Bool) (h : innerOk ns p = true) :
    innerOk ns (setSup p s) = true := by
  cases p with
  | cross n s' => simp [setSup, innerOk]
  | node k rn r a kids => simpa [setSup] using h

theorem repNode_inv {ns : List String} {p r : Peg} {op : ROp} (h : repNode p op = .ok r)
    (hp : innerOk ns p = true) : innerOk ns r = true := by
  cases op with
  | opt =>
      have := pure_ok_inj (show (pure (Peg.node .opt "" false none [p]) : M Peg) = .ok r from h)
      subst this
      simp [innerOk, innerOkL, isAsgnName_empty, hp]
  | star =>
      have := pure_ok_inj (show (pure (Peg.node .zom "" false none [p]) : M Peg) = .ok r from h)
      subst this
      simp [innerOk, innerOkL, isAsgnName_empty, hp]
  | plus =>
      have := pure_ok_inj (show (pure (Peg.node .oom "" false none [p]) : M Peg) = .ok r from h)
      subst this
      simp [innerOk, innerOkL, isAsgnName_empty, hp]
  | hash =>
      have h0 : (if (isSeqClass p && !(rootOf p)) = true then (do
          let ns ← nodesOf p
          pure (Peg.node .ug "" false none ns) : M Peg)
        else pure (Peg.node .ug "" false none [p])) = .ok r := h
      split at h0
      · rename_i hc
        cases p with
        | cross n s => simp [isSeqClass] at hc
        | node k rn rt a kids =>
            have := pure_ok_inj (show (pure (Peg.node .ug "" false none kids) : M Peg) = .ok r from h0)
            subst this
            simp only [innerOk, Bool.and_eq_true] at hp
            simp [innerOk, isAsgnName_empty, hp.2]
      · have := pure_ok_inj h0
        subst this
        simp [innerOk, innerOkL, isAsgnName_empty, hp]

theorem applyRep_inv {ns : List String} {p r : Peg} {rep : Option RepOp} (h : applyRep p rep = .ok r)
    (hp : innerOk ns p = true) : innerOk ns r = true := by
  cases rep with
  | none =>
      have := pure_ok_inj (show (pure p : M Peg) = .ok r from h)
      exact this ▸ hp
  | some ro =>
      obtain ⟨op, mods⟩ := ro
      have h0 : (visitModsOpt mods >>= fun _ => repNode p op >>= fun r' =>
          checkRepMods mods op >>= fun _ => pure r') = .ok r := h
      obtain ⟨_, _, h0⟩ := bind_ok.mp h0
      obtain ⟨r', hr, h0⟩ := bind_ok.mp h0
      obtain ⟨_, _, h0⟩ := bind_ok.mp h0
      have := pure_ok_inj h0
      subst this
      exact repNode_inv hr hp

theorem visitRhs_inv {ns : List String} {rhs : Rhs} {r : Peg × Option String × String}
    (h : visitRhs rhs = .ok r) : innerOk ns r.1 = true := by
  cases rhs with
  | lit l =>
      have h0 : (visitLit l >>= fun _ => (pure (mkMatch, none, "") : M (Peg × Option String × String))) = .ok r := h
      obtain ⟨_, _, h0⟩ := bind_ok.mp h0
      have := pure_ok_inj h0
      subst this
      exact innerOk_mkMatch ns
  | ref n =>
      have := pure_ok_inj (show (pure (Peg.cross n false, none, n) : M (Peg × Option String × String)) = .ok r from h)
      subst this
      simp [innerOk]
  | obj cls rule rrel =>
      have h0 : (if baseTypeNames.contains cls = true then (throw .semantic : M (Peg × Option String × String))
        else pure (.cross (rule.getD "ID") false, some cls, rule.getD "ID")) = .ok r := h
      split at h0
      · exact (throw_ne_ok h0).elim
      · have := pure_ok_inj h0
        subst this
        simp [innerOk]

theorem mem_names_upsert_self (attrs : List Attr) (an : String) (b : Bool) (ty : String) :
    an ∈ names (upsertAttr attrs an b ty) := by
  induction attrs with
  | nil => simp [upsertAttr, names]
  | cons a rest ih =>
      simp only [upsertAttr]
      split
      · rename_i h
        have : a.name = an := by simpa using h
        simp [names, this]
      · simp only [names, List.map_cons, List.mem_cons]
        exact Or.inr ih

theorem mem_names_upsert_of_mem (attrs : List Attr) (an : String) (b : Bool) (ty : String) (x : String)
    (hx : x ∈ names attrs) : x ∈ names (upsertAttr attrs an b ty) := by
  induction attrs with
  | nil => simp [names] at hx
  | cons a rest ih =>
      simp only [names, List.map_cons, List.mem_cons] at hx
      simp only [upsertAttr]
      split
      · simp only [names, List.map_cons, List.mem_cons]
        exact hx
      · simp only [names, List.map_cons, List.mem_cons]
        rcases hx with hx | hx
        · exact Or.inl hx
        · exact Or.inr (ih hx)

theorem isAsgnName_asgnKind (op : AOp) (b : String) : isAsgnName (asgnKind op b).2.1 = true := by
  cases op <;> simp only [asgnKind] <;> decide

theorem visitAsgn_inv {attrs a : List Attr} {an : String} {op : AOp} {rhs : Rhs} {mods : Option (List Mod)}
    {p : Peg} (h : visitAsgn attrs an op rhs mods = .ok (p, a)) :
    innerOk (names a) p = true ∧ ∀ x, x ∈ names attrs → x ∈ names a := by
  unfold visitAsgn at h
  obtain ⟨r, hr, h⟩ := bind_ok.mp h
  obtain ⟨_, _, h⟩ := bind_ok.mp h
  obtain ⟨_, _, h⟩ := bind_ok.mp h
  obtain ⟨_, _, h⟩ := bind_ok.mp h
  obtain ⟨_, _, h⟩ := bind_ok.mp h
  cases h
  refine ⟨?_, fun x hx => mem_names_upsert_of_mem attrs an _ _ x hx⟩
  simp only [innerOk, innerOkL, Bool.and_eq_true, isAsgnName_asgnKind, List.contains_iff_mem, Bool.true_and,
    Bool.and_true]
  exact ⟨mem_names_upsert_self attrs an _ _, visitRhs_inv hr⟩

mutual
theorem visitExpr_inv {attrs : List Attr} : ∀ (e : Expr) {p : Peg} {a : List Attr},
    visitExpr attrs e = .ok (p, a) → innerOk (names a) p = true ∧ ∀ x, x ∈ names attrs → x ∈ names a
  | .asgn an op rhs mods, p, a, h => by
      unfold visitExpr at h
      exact visitAsgn_inv h
  | .lit pred l, p, a, h => by
      unfold visitExpr at h
      obtain ⟨_, _, h⟩ := bind_ok.mp h
      cases h
      exact ⟨innerOk_wrapPred _ _ _ (innerOk_mkMatch _), fun x hx => hx⟩
  | .ref pred n, p, a, h => by
      unfold visitExpr at h
      cases h
      exact ⟨innerOk_wrapPred _ _ _ (by simp [innerOk]), fun x hx => hx⟩
  | .group pred c, p, a, h => by
      unfold visitExpr at h
      obtain ⟨⟨ps, a'⟩, hc, h⟩ := bind_ok.mp h
      cases h
      have := visitChoiceL_inv c hc
      exact ⟨innerOk_wrapPred _ _ _ (innerOk_mkChoice _ _ this.1), this.2⟩
theorem visitRExpr_inv {attrs : List Attr} : ∀ (x : RExpr) {p : Peg} {a : List Attr},
    visitRExpr attrs x = .ok (p, a) → innerOk (names a) p = true ∧ ∀ y, y ∈ names attrs → y ∈ names a
  | .mk e rep sup, p, a, h => by
      unfold visitRExpr at h
      obtain ⟨⟨p', a'⟩, he, h⟩ := bind_ok.mp h
      obtain ⟨r, hr, h⟩ := bind_ok.mp h
      cases h
      have := visitExpr_inv e he
      exact ⟨innerOk_setSup _ _ _ (applyRep_inv hr this.1), this.2⟩
theorem visitSeqL_inv {attrs : List Attr} : ∀ (s : Seq) {ps : List Peg} {a : List Attr},
    visitSeqL attrs s = .ok (ps, a) → innerOkL (names a) ps = true ∧ ∀ y, y ∈ names attrs → y ∈ names a
  | .one x, ps, a, h => by
      unfold visitSeqL at h
      obtain ⟨⟨p', a'⟩, hx, h⟩ := bind_ok.mp h
      cases h
      have := visitRExpr_inv x hx
      exact ⟨by simp [innerOkL, this.1], this.2⟩
  | .cons x xs, ps, a, h => by
      unfold visitSeqL at h
      obtain ⟨⟨p', a'⟩, hx, h⟩ := bind_ok.mp h
      obtain ⟨⟨ps', a2⟩, hxs, h⟩ := bind_ok.mp h
      cases h
      have h1 := visitRExpr_inv x hx
      have h2 := visitSeqL_inv xs hxs
      refine ⟨?_, fun y hy => h2.2 y (h1.2 y hy)⟩
      simp only [innerOkL, Bool.and_eq_true]
      exact ⟨innerOk_mono h2.2 _ h1.1, h2.1⟩
theorem visitChoiceL_inv {attrs : List Attr} : ∀ (c : Choice) {ps : List Peg} {a : List Attr},
    visitChoiceL attrs c = .ok (ps, a) → innerOkL (names a) ps = true ∧ ∀ y, y ∈ names attrs → y ∈ names a
  | .one s, ps, a, h => by
      unfold visitChoiceL at h
      obtain ⟨⟨ps', a'⟩, hs, h⟩ := bind_ok.mp h
      cases h
      have := visitSeqL_inv s hs
      exact ⟨by simp [innerOkL, innerOk_mkSeq _ _ this.1], this.2⟩
  | .cons s c, ps, a, h => by
      unfold visitChoiceL at h
      obtain ⟨⟨ps', a'⟩, hs, h⟩ := bind_ok.mp h
      obtain ⟨⟨qs, a2⟩, hc, h⟩ := bind_ok.mp h
      cases h
      have h1 := visitSeqL_inv s hs
      have h2 := visitChoiceL_inv c hc
      refine ⟨?_, fun y hy => h2.2 y (h1.2 y hy)⟩
      simp only [innerOkL, Bool.and_eq_true]
      exact ⟨innerOk_mono h2.2 _ (innerOk_mkSeq _ _ h1.1), h2.1⟩
end

/-! ## `_update_attr_multiplicities` never fails on what the visitor built -/

theorem attrGet_ok_of_mem {attrs : List Attr} {an : String} (h : an ∈ names attrs) :
    ∃ a, attrGet attrs an = .ok a := by
  apply attrGet_ok_of_any
  rw [List.any_eq_true]
  simp only [names, List.mem_map] at h
  obtain ⟨a, ha, hn⟩ := h
  exact ⟨a, ha, by simp [hn]⟩

/-- the assignment branch on an inner node -/
theorem multAsgn_tx {attrs : List Attr} {k : PK} {rn : String} {root : Bool} {attr : Option String}
    {kids : List Peg} (many : Bool) (h : innerOk (names attrs) (.node k rn root attr kids) = true) :
    TxOnly (multAsgn attrs many rn (.node k rn root attr [])) := by
  unfold multAsgn
  refine TxOnly.ite (fun hn => ?_) (fun _ => TxOnly.pure _)
  simp only [innerOk, Bool.and_eq_true] at h
  cases attr with
  | none =>
      have h1 := h.1
      simp [hn] at h1
  | some a =>
      have h1 := h.1
      simp only [Bool.and_eq_true, List.contains_iff_mem] at h1
      obtain ⟨c, hc⟩ := attrGet_ok_of_mem h1.2
      simp only [attrNameOf]
      refine TxOnly.bind (TxOnly.pure _) fun an han => ?_
      have : a = an := pure_ok_inj han
      subst this
      rw [hc]
      exact TxOnly.bind (TxOnly.ok _) fun _ _ => TxOnly.ite (fun _ => TxOnly.throw rfl) (fun _ => TxOnly.pure _)

mutual
theorem multWalk_tx {attrs : List Attr} (b many : Bool) :
    ∀ p : Peg, innerOk (names attrs) p = true → TxOnly (multWalk attrs b many p)
  | .cross _ _, _ => by
      unfold multWalk
      exact TxOnly.pure _
  | .node k rn root attr kids, h => by
      have hk : innerOkL (names attrs) kids = true := by
        simp only [innerOk, Bool.and_eq_true] at h
        exact h.2
      unfold multWalk
      refine TxOnly.ite (fun _ => multWalkL_tx many kids hk) (fun _ => ?_)
      exact TxOnly.bind (multAsgn_tx _ h) fun _ _ =>
        TxOnly.ite (fun _ => multWalkL_tx _ kids hk) (fun _ => TxOnly.pure _)
theorem multWalkL_tx {attrs : List Attr} (many : Bool) :
    ∀ ps : List Peg, innerOkL (names attrs) ps = true → TxOnly (multWalkL attrs many ps)
  | [], _ => by
      unfold multWalkL
      exact TxOnly.pure _
  | p :: ps, h => by
      simp only [innerOkL, Bool.and_eq_true] at h
      unfold multWalkL
      exact TxOnly.bind (multWalk_tx false many p h.1) fun _ _ => multWalkL_tx many ps h.2
end

/-- the walk from the root of a rule -/
theorem multWalk_root_tx {attrs : List Attr} {p : Peg} (h : rootOk (names attrs) p) :
    TxOnly (multWalk attrs true false p) := by
  cases p with
  | cross n s =>
      unfold multWalk
      exact TxOnly.pure _
  | node k rn root attr kids =>
      obtain ⟨hn, ha, hk⟩ := h
      unfold multWalk
      refine TxOnly.ite (fun _ => multWalkL_tx _ kids hk) (fun _ => ?_)
      refine TxOnly.bind ?_ fun _ _ => TxOnly.ite (fun _ => multWalkL_tx _ kids hk) (fun _ => TxOnly.pure _)
      unfold multAsgn
      exact TxOnly.ite (fun h => by simp [hn] at h) (fun _ => TxOnly.pure _)

theorem innerOk_kids {ns : List String} {k : PK} {rn : String} {root : Bool} {attr : Option String}
    {kids : List Peg} (h : innerOk ns (.node k rn root attr kids) = true) : innerOkL ns kids = true := by
  simp only [innerOk, Bool.and_eq_true] at h
  exact h.2

/-- `visit_textx_rule` makes a well-formed root of a well-formed body, provided the
rule name is not reserved -/
theorem mkRoot_rootOk {ns : List String} {name : String} (hp : Bool) {body : Peg}
    (hb : innerOk ns body = true) (hn : isAsgnName name = false) : rootOk ns (mkRoot name hp body) := by
  unfold mkRoot
  split
  · exact ⟨hn, rfl, by simp [innerOkL, hb]⟩
  · rename_i hc
    cases body with
    | cross n s => exact True.intro
    | node k rn root attr kids =>
        refine ⟨hn, ?_, innerOk_kids hb⟩
        -- the body is not an assignment rule (it would have been wrapped)
        simp only [ruleNameOf, Bool.or_eq_true, not_or] at hc
        simp only [innerOk, Bool.and_eq_true] at hb
        cases attr with
        | none => rfl
        | some a =>
            have h1 := hb.1
            simp only [Bool.and_eq_true] at h1
            exact absurd h1.1.2 hc.1

/-! ## the namespace -/

theorem mem_nsInsert {ns : List Cls} {d c : Cls} (h : c ∈ nsInsert ns d) : c ∈ ns ∨ c = d := by
  induction ns with
  | nil =>
      simp only [nsInsert, List.mem_singleton] at h
      exact Or.inr h
  | cons x rest ih =>
      simp only [nsInsert] at h
      split at h
      · simp only [List.mem_cons] at h
        rcases h with h | h
        · exact Or.inr h
        · exact Or.inl (List.mem_cons_of_mem _ h)
      · simp only [List.mem_cons] at h
        rcases h with h | h
        · exact Or.inl (h ▸ List.mem_cons_self)
        · rcases ih h with h' | h'
          · exact Or.inl (List.mem_cons_of_mem _ h')
          · exact Or.inr h'

theorem nsGet_nsInsert (ns : List Cls) (d : Cls) : ∃ c, nsGet (nsInsert ns d) d.name = .ok c := by
  unfold nsGet
  cases hf : (nsInsert ns d).find? (·.name == d.name) with
  | some c => exact ⟨c, rfl⟩
  | none =>
      exfalso
      rw [List.find?_eq_none] at hf
      induction ns with
      | nil => exact hf d (by simp [nsInsert]) (by simp)
      | cons x rest ih =>
          simp only [nsInsert] at hf
          split at hf
          · exact hf d List.mem_cons_self (by simp)
          · exact ih fun c hc => hf c (List.mem_cons_of_mem _ hc)

def AllOk (ns : List Cls) : Prop := ∀ c, c ∈ ns → ClsOk c

theorem clsOk_placeholder (n : String) : ClsOk { name := n, attrs := [], peg := mkMatch } :=
  ⟨isAsgnName_empty, rfl, rfl⟩

theorem allOk_nsInsert {ns : List Cls} {d : Cls} (h : AllOk ns) (hd : ClsOk d) : AllOk (nsInsert ns d) := by
  intro c hc
  rcases mem_nsInsert hc with h' | h'
  · exact h c h'
  · exact h' ▸ hd

/-! ## the first pass: textX errors only, and the invariant of the classes -/

theorem checkRuleName_tx (n : String) : TxOnly (checkRuleName n) := by
  unfold checkRuleName
  exact TxOnly.ite (fun _ => TxOnly.throw rfl) (fun _ => TxOnly.pure _)

theorem checkRuleName_ok {n : String} {u : Unit} (h : checkRuleName n = .ok u) : isAsgnName n = false := by
  unfold checkRuleName at h
  split at h
  · exact (throw_ne_ok h).elim
  · rename_i hc
    simpa using hc

theorem rootOk_of_body {name : String} {hp : Bool} {c : Choice} {b : List Peg × List Attr}
    (hb : visitChoiceL [] c = .ok b) (hn : isAsgnName name = false) :
    rootOk (names b.2) (mkRoot name hp (mkChoice b.1)) := by
  obtain ⟨ps, a⟩ := b
  exact mkRoot_rootOk hp (innerOk_mkChoice _ _ (visitChoiceL_inv c hb).1) hn

theorem finishRule_tx {ns1 : List Cls} {name : String} {hp : Bool} {b : List Peg × List Attr} {d : Cls}
    {ns : List Cls} (hns : ns1 = nsInsert ns d) (hd : d.name = name)
    (hr : rootOk (names b.2) (mkRoot name hp (mkChoice b.1))) : TxOnly (finishRule ns1 name hp b) := by
  unfold finishRule
  obtain ⟨c, hc⟩ := nsGet_nsInsert ns d
  rw [hns, ← hd, hc]
  exact TxOnly.bind (TxOnly.ok _) fun _ _ =>
    TxOnly.bind (multWalk_root_tx (hd ▸ hr)) fun _ _ => TxOnly.pure _

theorem visitRule_tx (ns : List Cls) (r : Rule) : TxOnly (visitRule ns r) := by
  unfold visitRule
  refine TxOnly.bind (checkRuleName_tx _) fun u hu => ?_
  refine TxOnly.bind (visitParams_tx _) fun _ _ => ?_
  refine TxOnly.bind (visitChoiceL_tx [] r.body) fun b hb => ?_
  exact finishRule_tx rfl rfl (rootOk_of_body hb (checkRuleName_ok hu))

theorem visitRule_inv {ns : List Cls} {r : Rule} {res : List Cls × Peg} (h : visitRule ns r = .ok res)
    (hns : AllOk ns) : AllOk res.1 := by
  unfold visitRule at h
  obtain ⟨u, hu, h⟩ := bind_ok.mp h
  obtain ⟨_, _, h⟩ := bind_ok.mp h
  obtain ⟨b, hb, h⟩ := bind_ok.mp h
  unfold finishRule at h
  obtain ⟨_, _, h⟩ := bind_ok.mp h
  obtain ⟨_, _, h⟩ := bind_ok.mp h
  have := pure_ok_inj h
  subst this
  exact allOk_nsInsert (allOk_nsInsert hns (clsOk_placeholder _)) (rootOk_of_body hb (checkRuleName_ok hu))

theorem visitRules_tx : ∀ (rs : List Rule) (ns : List Cls), TxOnly (visitRules ns rs)
  | [], _ => TxOnly.pure _
  | r :: rs, ns => by
      unfold visitRules
      exact TxOnly.bind (visitRule_tx ns r) fun r1 _ => visitRules_tx rs r1.1

theorem visitRules_inv : ∀ (rs : List Rule) {ns ns' : List Cls}, visitRules ns rs = .ok ns' → AllOk ns → AllOk ns'
  | [], ns, ns', h, hns => by
      have := pure_ok_inj (show (pure ns : M (List Cls)) = .ok ns' from h)
      exact this ▸ hns
  | r :: rs, ns, ns', h, hns => by
      unfold visitRules at h
      obtain ⟨r1, hr1, h⟩ := bind_ok.mp h
      exact visitRules_inv rs h (visitRule_inv hr1 hns)

theorem visitStms_tx : ∀ (stms : List Stm) (refs : List (String × String)), Stm.imp ∉ stms →
    TxOnly (visitStms refs stms)
  | [], _, _ => TxOnly.pure _
  | .imp :: _, _, h => absurd List.mem_cons_self h
  | .reference lang alias :: rest, refs, h => by
      unfold visitStms
      exact visitStms_tx rest _ fun h' => h (List.mem_cons_of_mem _ h')

/-- an `import` statement is the only thing that stops the statements, with the
assertion of `_new_import` -/
theorem visitStms_imp : ∀ (stms : List Stm) (refs : List (String × String)), Stm.imp ∈ stms →
    visitStms refs stms = .error (.py .assertionError)
  | [], _, h => by cases h
  | .imp :: _, _, _ => rfl
  | .reference lang alias :: rest, refs, h => by
      unfold visitStms
      refine visitStms_imp rest _ ?_
      simp only [List.mem_cons] at h
      rcases h with h | h
      · cases h
      · exact h

theorem firstPass_tx (g : Grammar) (h : Stm.imp ∉ g.stms) : TxOnly (firstPass g) := by
  unfold firstPass
  exact TxOnly.bind (visitStms_tx _ _ h) fun _ _ =>
    TxOnly.bind (visitRule_tx _ _) fun _ _ =>
      TxOnly.bind (visitRules_tx _ _) fun _ _ => TxOnly.pure _

theorem firstPass_inv {g : Grammar} {st : St} (h : firstPass g = .ok st) : AllOk st.ns := by
  unfold firstPass at h
  obtain ⟨_, _, h⟩ := bind_ok.mp h
  obtain ⟨r1, hr1, h⟩ := bind_ok.mp h
  obtain ⟨ns, hns, h⟩ := bind_ok.mp h
  have := pure_ok_inj h
  subst this
  exact visitRules_inv _ hns (visitRule_inv hr1 (fun c hc => by cases hc))

/-! ## second pass: meta-model lookups -/

/-- `__getitem__` raises `KeyError` or `TextXRegistrationError`, nothing else -/
theorem getitem_err {env : Env} {st : St} {name : String} {e : Exc} (h : getitem env st name = .error e) :
    e = .py .keyError ∨ e = .registration := by
  unfold getitem at h
  split at h
  · split at h
    · split at h
      · have h' : (Except.error .registration : M ClsRef) = .error e := h
        cases h'
        exact Or.inr rfl
      · split at h
        · cases h
        · have h' : (Except.error (.py .keyError) : M ClsRef) = .error e := h
          cases h'
          exact Or.inl rfl
    · split at h
      · cases h
      · have h' : (Except.error (.py .keyError) : M ClsRef) = .error e := h
        cases h'
        exact Or.inl rfl
  · split at h
    · cases h
    · split at h
      · cases h
      · have h' : (Except.error (.py .keyError) : M ClsRef) = .error e := h
        cases h'
        exact Or.inl rfl

/-- a class `__getitem__` finds in the current namespace is one of its classes -/
theorem getitem_loc_mem {env : Env} {st : St} {name : String} {c : Cls} (h : getitem env st name = .ok (.loc c)) :
    c ∈ st.ns := by
  unfold getitem at h
  split at h
  · split at h
    · split at h
      · cases h
      · split at h
        · cases h
        · cases h
    · split at h
      · cases h
      · cases h
  · split at h
    · rename_i c' hf
      have h' : (Except.ok (.loc c') : M ClsRef) = .ok (.loc c) := h
      cases h'
      exact List.mem_of_find?_eq_some hf
    · split at h
      · cases h
      · cases h

theorem contains_tx (env : Env) (st : St) (name : String) : TxOnly (contains env st name) := by
  unfold contains
  intro e h
  split at h
  · cases h
  · cases h
  · rename_i e' hne hg
    have h' : (Except.error e' : M Bool) = .error e := h
    cases h'
    rcases getitem_err hg with h1 | h1
    · exact absurd h1 (by intro h2; exact hne (h2 ▸ rfl))
    · subst h1; rfl

theorem contains_true {env : Env} {st : St} {name : String} (h : contains env st name = .ok true) :
    ∃ c, getitem env st name = .ok c := by
  unfold contains at h
  split at h
  · rename_i c hg
    exact ⟨c, hg⟩
  · have h' : (Except.ok false : M Bool) = .ok true := h
    cases h'
  · cases h

/-! ## following rule aliases comes to an end -/

/-- pigeonhole: a duplicate-free list drawn from `m` is no longer than `m` -/
theorem nodup_subset_length {α : Type} [DecidableEq α] : ∀ (l m : List α), l.Nodup → (∀ x, x ∈ l → x ∈ m) →
    l.length ≤ m.length
  | [], _, _, _ => Nat.zero_le _
  | a :: l, m, hn, hs => by
      have ha : a ∈ m := hs a List.mem_cons_self
      have hn' := List.nodup_cons.mp hn
      have ih := nodup_subset_length l (m.erase a) hn'.2 (fun x hx => by
        have hxa : x ≠ a := fun h => hn'.1 (h ▸ hx)
        exact (List.mem_erase_of_ne hxa).mpr (hs x (List.mem_cons_of_mem _ hx)))
      have hl : (m.erase a).length = m.length - 1 := List.length_erase_of_mem ha
      have hpos : 0 < m.length := List.length_pos_of_mem ha
      simp only [List.length_cons]
      omega

/-- with the names of the rules being followed duplicate-free and inside the
namespace, fuel `len(namespace) + 1 - len(chain)` is enough: `resolveCross` never
runs out of stack -/
theorem resolveCross_tx (env : Env) (st : St) : ∀ (f : Nat) (chain : List String) (name : String),
    chain.Nodup → (∀ x, x ∈ chain → x ∈ st.ns.map (·.name)) → st.ns.length + 1 ≤ f + chain.length →
    TxOnly (resolveCross env st f chain name)
  | 0, chain, name, hn, hs, hf => by
      have := nodup_subset_length chain (st.ns.map (·.name)) hn hs
      simp only [List.length_map] at this
      omega
  | f + 1, chain, name, hn, hs, hf => by
      unfold resolveCross
      refine TxOnly.bind (contains_tx env st name) fun found hfound => ?_
      cases found with
      | false => exact TxOnly.throw rfl
      | true =>
          obtain ⟨cr, hcr⟩ := contains_true hfound
          simp only [Bool.not_true, Bool.false_eq_true, if_false]
          rw [hcr]
          refine TxOnly.bind (TxOnly.ok _) fun cr' hcr' => ?_
          have : cr = cr' := by
            have h' : (Except.ok cr : M ClsRef) = .ok cr' := hcr'
            cases h'
            rfl
          subst this
          cases cr with
          | base n => exact TxOnly.pure _
          | foreign n => exact TxOnly.pure _
          | loc c =>
              have hc : c ∈ st.ns := getitem_loc_mem hcr
              cases hp : c.peg with
              | node k rn root attr kids => simp only [hp]; exact TxOnly.pure _
              | cross n2 s2 =>
                  simp only [hp]
                  refine TxOnly.ite (fun _ => TxOnly.throw rfl) (fun hnot => ?_)
                  have hnot' : c.name ∉ chain := by simpa using hnot
                  refine resolveCross_tx env st f (c.name :: chain) n2 (List.nodup_cons.mpr ⟨hnot', hn⟩) ?_ ?_
                  · intro x hx
                    simp only [List.mem_cons] at hx
                    rcases hx with hx | hx
                    · exact hx ▸ List.mem_map_of_mem hc
                    · exact hs x hx
                  · simp only [List.length_cons]
                    omega

theorem resolveCross_top_tx (env : Env) (st : St) (name : String) :
    TxOnly (resolveCross env st (st.ns.length + 1) [] name) :=
  resolveCross_tx env st _ [] name List.nodup_nil (fun x hx => by cases hx) (by simp)

mutual
theorem resolvePeg_tx (env : Env) (st : St) : ∀ p : Peg, TxOnly (resolvePeg env st p)
  | .cross n _ => by
      unfold resolvePeg
      exact resolveCross_top_tx env st n
  | .node _ _ _ _ kids => by
      unfold resolvePeg
      exact resolvePegL_tx env st kids
theorem resolvePegL_tx (env : Env) (st : St) : ∀ ps : List Peg, TxOnly (resolvePegL env st ps)
  | [] => by
      unfold resolvePegL
      exact TxOnly.pure _
  | p :: ps => by
      unfold resolvePegL
      exact TxOnly.bind (resolvePeg_tx env st p) fun _ _ => resolvePegL_tx env st ps
end

theorem forM_tx {α : Type} (f : α → M Unit) : ∀ l : List α, (∀ x, x ∈ l → TxOnly (f x)) → TxOnly (l.forM f)
  | [], _ => by
      show TxOnly (pure () : M Unit)
      exact TxOnly.pure _
  | a :: l, h => by
      show TxOnly (f a >>= fun _ => l.forM f)
      exact TxOnly.bind (h a List.mem_cons_self) fun _ _ => forM_tx f l fun x hx => h x (List.mem_cons_of_mem _ hx)

theorem stage2_tx (env : Env) (st : St) : TxOnly (stage2 env st) := by
  unfold stage2
  exact TxOnly.bind (resolvePeg_tx env st st.top) fun _ _ => forM_tx _ _ fun c _ => resolvePeg_tx env st c.peg

/-! ## `_determine_rule_types`: its attribute reads succeed -/

mutual
theorem nonmatchWalk_ok : ∀ p : Peg, innerOk [] p = true → nonmatchWalk p = .ok ()
  | .cross _ _, _ => rfl
  | .node k rn root attr kids, h => by
      simp only [innerOk, Bool.and_eq_true] at h
      cases attr with
      | some a =>
          have h1 := h.1
          simp at h1
      | none =>
          have h1 := h.1
          simp only [Bool.and_eq_true, Bool.not_eq_true'] at h1
          unfold nonmatchWalk
          simp only [h1.1, Bool.false_eq_true, if_false]
          exact nonmatchWalkL_ok kids h.2
theorem nonmatchWalkL_ok : ∀ ps : List Peg, innerOkL [] ps = true → nonmatchWalkL ps = .ok ()
  | [], _ => rfl
  | p :: ps, h => by
      simp only [innerOkL, Bool.and_eq_true] at h
      unfold nonmatchWalkL
      rw [nonmatchWalk_ok p h.1]
      exact nonmatchWalkL_ok ps h.2
end

theorem forM_ok {α : Type} (f : α → M Unit) : ∀ l : List α, (∀ x, x ∈ l → f x = .ok ()) → l.forM f = .ok ()
  | [], _ => rfl
  | a :: l, h => by
      show (f a >>= fun _ => l.forM f) = .ok ()
      rw [h a List.mem_cons_self]
      exact forM_ok f l fun x hx => h x (List.mem_cons_of_mem _ hx)

/-- a class without attributes has no assignment rule in its body, so every root
node `_has_nonmatch_ref` meets is the root rule of a class: `_tx_class` is there -/
theorem stage3_ok {st : St} (h : AllOk st.ns) : stage3 st = .ok () := by
  unfold stage3
  refine forM_ok _ _ fun c hc => ?_
  have hok := h c hc
  split
  · rfl
  · rename_i hlen
    have hnil : c.attrs = [] := by
      cases hca : c.attrs with
      | nil => rfl
      | cons a rest => simp [hca] at hlen
    unfold ClsOk at hok
    split
    · rfl
    · rename_i k rn root attr kids hp
      rw [hp, hnil] at hok
      exact nonmatchWalkL_ok kids hok.2.2

/-! ## `_resolve_cls_refs` -/

theorem resolveAttr_tx (env : Env) (st : St) (a : Attr) : TxOnly (resolveAttr env st a) := by
  unfold resolveAttr
  intro e h
  split at h
  · cases h
  · have h' : (Except.error .semantic : M Unit) = .error e := h
    cases h'
    rfl
  · rename_i e' hne hg
    have h' : (Except.error e' : M Unit) = .error e := h
    cases h'
    rcases getitem_err hg with h1 | h1
    · exact absurd h1 (by intro h2; exact hne (h2 ▸ rfl))
    · subst h1; rfl

theorem stage4_tx (env : Env) (st : St) : TxOnly (stage4 env st) := by
  unfold stage4
  exact forM_tx _ _ fun c _ => forM_tx _ _ fun a _ => resolveAttr_tx env st a

/-! ## the comments model: `"Comment" in metamodel`, `metamodel["Comment"]` -/

theorem rsplitDot_Comment : rsplitDot "Comment" = none := by decide

/-- a name without a dot: `__getitem__` finds it or raises `KeyError` (no language is consulted) -/
theorem getitem_nodot (env : Env) (st : St) {name : String} (h : rsplitDot name = none) :
    (∃ c, getitem env st name = .ok c) ∨ getitem env st name = .error (.py .keyError) := by
  unfold getitem
  split
  · rename_i nsp n hs
    rw [h] at hs
    cases hs
  · split
    · exact Or.inl ⟨_, rfl⟩
    · split
      · exact Or.inl ⟨_, rfl⟩
      · exact Or.inr rfl

/-- `visit_textx_model` / the refresh of the comments model never fail -/
theorem commentsModel_ok (env : Env) (st : St) : ∃ b, commentsModel env st = .ok b := by
  unfold commentsModel
  rcases getitem_nodot env st rsplitDot_Comment with ⟨c, hc⟩ | hk
  · have hct : contains env st "Comment" = .ok true := by
      unfold contains
      rw [hc]
      rfl
    refine ⟨true, ?_⟩
    rw [hct, ok_bind]
    simp only [↓reduceIte]
    rw [hc, ok_bind]
    rfl
  · have hcf : contains env st "Comment" = .ok false := by
      unfold contains
      rw [hk]
      rfl
    refine ⟨false, ?_⟩
    rw [hcf, ok_bind]
    rfl

theorem refreshComments_ok (env : Env) (st : St) (hc : Bool) : refreshComments env st hc = .ok () := by
  unfold refreshComments
  cases hc with
  | false => rfl
  | true =>
      obtain ⟨b, hb⟩ := commentsModel_ok env st
      simp only [↓reduceIte]
      rw [hb, ok_bind]
      rfl

theorem secondPass_tx (env : Env) {st : St} (h : AllOk st.ns) (hc : Bool) : TxOnly (secondPass env st hc) := by
  unfold secondPass
  refine TxOnly.bind (stage2_tx env st) fun _ _ => ?_
  rw [refreshComments_ok, stage3_ok h]
  exact TxOnly.bind (TxOnly.ok _) fun _ _ => TxOnly.bind (TxOnly.ok _) fun _ _ => stage4_tx env st

/-! ## the second pass in any order: `candidates`, `outcomes` -/

theorem errOf_mem {m : M Unit} {e : Exc} (h : m = .error e) : e ∈ errOf m := by
  subst h
  simp [errOf]

theorem errOf_nil {m : M Unit} (h : m = .ok ()) : errOf m = [] := by
  subst h
  rfl

theorem mem_errOf {m : M Unit} {e : Exc} (h : e ∈ errOf m) : m = .error e := by
  cases m with
  | ok u => simp [errOf] at h
  | error e' =>
      simp only [errOf, List.mem_singleton] at h
      rw [h]

mutual
theorem resolvePeg_err {env : Env} {st : St} : ∀ (p : Peg) (e : Exc), resolvePeg env st p = .error e →
    e ∈ crossErrs env st p
  | .cross n _, e, h => by
      unfold resolvePeg at h
      unfold crossErrs
      exact errOf_mem h
  | .node _ _ _ _ kids, e, h => by
      unfold resolvePeg at h
      unfold crossErrs
      exact resolvePegL_err kids e h
theorem resolvePegL_err {env : Env} {st : St} : ∀ (ps : List Peg) (e : Exc), resolvePegL env st ps = .error e →
    e ∈ crossErrsL env st ps
  | [], e, h => by
      unfold resolvePegL at h
      cases h
  | p :: ps, e, h => by
      unfold resolvePegL at h
      unfold crossErrsL
      rcases bind_err.mp h with h1 | ⟨_, _, h2⟩
      · exact List.mem_append_left _ (resolvePeg_err p e h1)
      · exact List.mem_append_right _ (resolvePegL_err ps e h2)
end

mutual
theorem resolvePeg_okc {env : Env} {st : St} : ∀ (p : Peg), resolvePeg env st p = .ok () →
    crossErrs env st p = []
  | .cross n _, h => by
      unfold resolvePeg at h
      unfold crossErrs
      exact errOf_nil h
  | .node _ _ _ _ kids, h => by
      unfold resolvePeg at h
      unfold crossErrs
      exact resolvePegL_okc kids h
theorem resolvePegL_okc {env : Env} {st : St} : ∀ (ps : List Peg), resolvePegL env st ps = .ok () →
    crossErrsL env st ps = []
  | [], _ => by
      unfold crossErrsL
      rfl
  | p :: ps, h => by
      unfold resolvePegL at h
      unfold crossErrsL
      obtain ⟨u, h1, h2⟩ := bind_ok.mp h
      rw [resolvePeg_okc p h1, resolvePegL_okc ps h2]
      rfl
end

theorem forM_err {α : Type} (f : α → M Unit) (g : α → List Exc) (hf : ∀ x e, f x = .error e → e ∈ g x) :
    ∀ (l : List α) (e : Exc), l.forM f = .error e → e ∈ l.flatMap g
  | [], e, h => by
      have h' : (Except.ok () : M Unit) = .error e := h
      cases h'
  | a :: l, e, h => by
      have h' : (f a >>= fun _ => l.forM f) = .error e := h
      simp only [List.flatMap_cons]
      rcases bind_err.mp h' with h1 | ⟨_, _, h2⟩
      · exact List.mem_append_left _ (hf a e h1)
      · exact List.mem_append_right _ (forM_err f g hf l e h2)

theorem forM_okc {α : Type} (f : α → M Unit) (g : α → List Exc) (hf : ∀ x, f x = .ok () → g x = []) :
    ∀ (l : List α), l.forM f = .ok () → l.flatMap g = []
  | [], _ => rfl
  | a :: l, h => by
      have h' : (f a >>= fun _ => l.forM f) = .ok () := h
      obtain ⟨u, h1, h2⟩ := bind_ok.mp h'
      simp only [List.flatMap_cons]
      rw [hf a h1, forM_okc f g hf l h2]
      rfl

theorem stage2_err {env : Env} {st : St} {e : Exc} (h : stage2 env st = .error e) : e ∈ candidates2 env st := by
  unfold stage2 at h
  unfold candidates2
  rcases bind_err.mp h with h1 | ⟨_, _, h2⟩
  · exact List.mem_append_left _ (resolvePeg_err _ e h1)
  · exact List.mem_append_right _
      (forM_err _ (fun c => crossErrs env st c.peg) (fun c e h => resolvePeg_err c.peg e h) _ e h2)

theorem stage2_okc {env : Env} {st : St} (h : stage2 env st = .ok ()) : candidates2 env st = [] := by
  unfold stage2 at h
  unfold candidates2
  obtain ⟨u, h1, h2⟩ := bind_ok.mp h
  rw [resolvePeg_okc _ h1,
    forM_okc _ (fun c => crossErrs env st c.peg) (fun c h => resolvePeg_okc c.peg h) _ h2]
  rfl

theorem stage4_err {env : Env} {st : St} {e : Exc} (h : stage4 env st = .error e) : e ∈ candidates4 env st := by
  unfold stage4 at h
  unfold candidates4
  exact forM_err _ (fun c => c.attrs.flatMap fun a => errOf (resolveAttr env st a))
    (fun c e h => forM_err _ (fun a => errOf (resolveAttr env st a)) (fun a e h => errOf_mem h) _ e h) _ e h

theorem stage4_okc {env : Env} {st : St} (h : stage4 env st = .ok ()) : candidates4 env st = [] := by
  unfold stage4 at h
  unfold candidates4
  exact forM_okc _ (fun c => c.attrs.flatMap fun a => errOf (resolveAttr env st a))
    (fun c h => forM_okc _ (fun a => errOf (resolveAttr env st a)) (fun a h => errOf_nil h) _ h) _ h

mutual
theorem crossErrs_tx {env : Env} {st : St} : ∀ (p : Peg) (e : Exc), e ∈ crossErrs env st p → e.isTx = true
  | .cross n _, e, h => by
      unfold crossErrs at h
      exact resolveCross_top_tx env st n e (mem_errOf h)
  | .node _ _ _ _ kids, e, h => by
      unfold crossErrs at h
      exact crossErrsL_tx kids e h
theorem crossErrsL_tx {env : Env} {st : St} : ∀ (ps : List Peg) (e : Exc), e ∈ crossErrsL env st ps → e.isTx = true
  | [], e, h => by
      unfold crossErrsL at h
      cases h
  | p :: ps, e, h => by
      unfold crossErrsL at h
      rcases List.mem_append.mp h with h | h
      · exact crossErrs_tx p e h
      · exact crossErrsL_tx ps e h
end

theorem candidates2_tx {env : Env} {st : St} {e : Exc} (h : e ∈ candidates2 env st) : e.isTx = true := by
  unfold candidates2 at h
  rcases List.mem_append.mp h with h | h
  · exact crossErrs_tx _ e h
  · obtain ⟨c, _, hc⟩ := List.mem_flatMap.mp h
    exact crossErrs_tx _ e hc

theorem candidates4_tx {env : Env} {st : St} {e : Exc} (h : e ∈ candidates4 env st) : e.isTx = true := by
  unfold candidates4 at h
  obtain ⟨c, _, hc⟩ := List.mem_flatMap.mp h
  obtain ⟨a, _, ha⟩ := List.mem_flatMap.mp hc
  exact resolveAttr_tx env st a e (mem_errOf ha)

theorem mem_errsOr {es : List Exc} {k : List (M Unit)} {o : M Unit} (h : o ∈ errsOr es k) :
    o ∈ k ∨ ∃ e, e ∈ es ∧ o = .error e := by
  cases es with
  | nil => exact Or.inl h
  | cons x xs =>
      obtain ⟨e, he, heq⟩ := List.mem_map.mp h
      exact Or.inr ⟨e, he, heq.symm⟩

theorem errsOr_nil {es : List Exc} {k : List (M Unit)} (h : es = []) : errsOr es k = k := by
  subst h
  rfl

theorem mem_errsOr_of_mem {es : List Exc} {k : List (M Unit)} {e : Exc} (h : e ∈ es) : .error e ∈ errsOr es k := by
  cases es with
  | nil => cases h
  | cons x xs => exact List.mem_map.mpr ⟨e, h, rfl⟩

/-! ## the code before the fix: following aliases without the cycle check -/

/-- `_resolve_rule` on a `RuleCrossRef` as it was: no record of the references being followed -/
def resolveCrossUnfixed (env : Env) (st : St) : Nat → String → M Unit
  | 0, _ => throw (.py .recursionError)
  | f + 1, name => do
      let found ← contains env st name
      if !found then throw .semantic
      else do
        let cr ← getitem env st name
        match cr with
        | .loc c =>
            match c.peg with
            | .cross n2 _ => resolveCrossUnfixed env st f n2
            | .node .. => pure ()
        | _ => pure ()

/-- what the first pass leaves for the grammar `A: A;` -/
def selfAlias : St :=
  { ns := [{ name := "A", attrs := [], peg := .cross "A" false }], refs := [], top := .cross "A" false }

/-! ## seeded change C23-1: only the reference the walk started from is remembered -/

/-- `_resolve_rule` on a `RuleCrossRef` when only the first followed rule is
remembered (`rule is alias_start` instead of `rule in alias_chain`): a cycle that
contains the start is still reported, a cycle behind a tail is not -/
def resolveCrossStartOnly (env : Env) (st : St) : Nat → Option String → String → M Unit
  | 0, _, _ => throw (.py .recursionError)
  | f + 1, start, name => do
      let found ← contains env st name
      if !found then throw .semantic
      else do
        let cr ← getitem env st name
        match cr with
        | .loc c =>
            match c.peg with
            | .cross n2 _ =>
                if start == some c.name then throw .semantic
                else resolveCrossStartOnly env st f (some (start.getD c.name)) n2
            | .node .. => pure ()
        | _ => pure ()

/-- what the first pass leaves for the grammar `A: B; B: C; C: B;` (a tail `A`
leading into the cycle `B → C → B`) -/
def rhoAlias : St :=
  { ns := [{ name := "A", attrs := [], peg := .cross "B" false },
           { name := "B", attrs := [], peg := .cross "C" false },
           { name := "C", attrs := [], peg := .cross "B" false }],
    refs := [], top := .cross "B" false }

/-! ## seeded change C23-2: the handler of `visit_re_match` narrowed to `except re.error` -/

def visitReNarrow (r : Option PyExc) : M Unit :=
  match reCompile r with
  | .ok _ => pure ()
  | .error (.py .reError) => throw .syntax
  | .error e => throw e

end GramLoad
