import TextxVerif.Peg.Arp
/-!
# Simulation lemmas for the Arpeggio mirror

`Sim Q pA pB`: whenever `pA` finishes from a state related by `Q` to the state of
`pB`, `pB` finishes with the same result in a `Q`-related state.  Each loop of the
interpreter maps simulating sub-parsers to simulating loops, for every relation `Q`
closed under the state updates the interpreter performs (`QOK`).  Used for
position-determinism of the plain parser and for memoized-vs-plain (C19).
-/
namespace Peg

def Sim (Q : PState → PState → Prop) (pA pB : SubParser) : Prop :=
  ∀ e sA sB r tA, Q sA sB → pA e sA = (r, tA) → r ≠ .fuel → ∃ tB, pB e sB = (r, tB) ∧ Q tA tB

def SimB (Q : PState → PState → Prop) (bA bB : PState → Res × PState) : Prop :=
  ∀ sA sB r tA, Q sA sB → bA sA = (r, tA) → r ≠ .fuel → ∃ tB, bB sB = (r, tB) ∧ Q tA tB

/-- every comment-cache entry maps a position to itself (true when there is no comment model) -/
def IdCP (l : List (Nat × Nat)) : Prop := ∀ a b, (a, b) ∈ l → a = b

/-- closure properties of a state relation -/
structure QOK (Q : PState → PState → Prop) : Prop where
  pos : ∀ {a b}, Q a b → a.pos = b.pos
  skipws : ∀ {a b}, Q a b → a.skipws = b.skipws
  ws : ∀ {a b}, Q a b → a.ws = b.ws
  notInC : ∀ {a b}, Q a b → a.inComments = false ∧ b.inComments = false
  idcp : ∀ {a b}, Q a b → IdCP a.commentPos ∧ IdCP b.commentPos
  setPos : ∀ {a b}, Q a b → ∀ c, Q { a with pos := c } { b with pos := c }
  nmR : ∀ {a b}, Q a b → ∀ c, Q (a.nmRaise c) (b.nmRaise c)
  setCP : ∀ {a b}, Q a b → ∀ l l', IdCP l → IdCP l' → Q { a with commentPos := l } { b with commentPos := l' }

variable {Q : PState → PState → Prop}

theorem seqLoop_sim (hQ : QOK Q) {pA pB : SubParser} (h : Sim Q pA pB) :
    ∀ es sA sB acc r tA, Q sA sB → seqLoop pA es sA acc = (r, tA) → r ≠ .fuel →
      ∃ tB, seqLoop pB es sB acc = (r, tB) ∧ Q tA tB := by
  intro es
  induction es with
  | nil => intro sA sB acc r tA hq h1 _; simp only [seqLoop] at h1 ⊢; cases h1; exact ⟨sB, rfl, hq⟩
  | cons e es ih =>
    intro sA sB acc r tA hq h1 hr
    simp only [seqLoop] at h1 ⊢
    cases hp : pA e sA with | mk r1 s1 =>
    rw [hp] at h1
    have hne : r1 ≠ .fuel := by intro e; subst e; (try simp only [] at h1); cases h1; exact hr rfl
    obtain ⟨tB1, hB, hq1⟩ := h e sA sB r1 s1 hq hp hne
    rw [hB]
    rcases r1 with v | _ | _ | _
    · exact ih _ _ _ _ _ hq1 h1 hr
    · (try simp only [] at h1 ⊢); cases h1; exact ⟨tB1, rfl, hq1⟩
    · exact absurd rfl hne
    · (try simp only [] at h1 ⊢); cases h1; exact ⟨tB1, rfl, hq1⟩

theorem choiceLoop_sim (hQ : QOK Q) {pA pB : SubParser} (h : Sim Q pA pB) :
    ∀ es c sA sB r tA, Q sA sB → choiceLoop pA es c sA = (r, tA) → r ≠ .fuel →
      ∃ tB, choiceLoop pB es c sB = (r, tB) ∧ Q tA tB := by
  intro es
  induction es with
  | nil => intro c sA sB r tA hq h1 _; simp only [choiceLoop] at h1 ⊢; cases h1; exact ⟨sB, rfl, hq⟩
  | cons e es ih =>
    intro c sA sB r tA hq h1 hr
    simp only [choiceLoop] at h1 ⊢
    cases hp : pA e sA with | mk r1 s1 =>
    rw [hp] at h1
    have hne : r1 ≠ .fuel := by intro e; subst e; (try simp only [] at h1); cases h1; exact hr rfl
    obtain ⟨tB1, hB, hq1⟩ := h e sA sB r1 s1 hq hp hne
    rw [hB]
    rcases r1 with v | _ | _ | _
    · rcases v with _ | ⟨a, b, c'⟩ | ⟨a, b⟩ | a
      · exact ih _ _ _ _ _ hq1 h1 hr
      · (try simp only [] at h1 ⊢); cases h1; exact ⟨tB1, rfl, hq1⟩
      · (try simp only [] at h1 ⊢); cases h1; exact ⟨tB1, rfl, hq1⟩
      · (try simp only [] at h1 ⊢); cases h1; exact ⟨tB1, rfl, hq1⟩
    · exact ih _ _ _ _ _ (hQ.setPos hq1 c) h1 hr
    · exact absurd rfl hne
    · (try simp only [] at h1 ⊢); cases h1; exact ⟨tB1, rfl, hq1⟩

theorem unordFor_sim (hQ : QOK Q) {pA pB : SubParser} (h : Sim Q pA pB) :
    ∀ es pl sA sB se m r tA, Q sA sB → unordFor pA es pl sA se m = (r, tA) → r ≠ .fuel →
      ∃ tB, unordFor pB es pl sB se m = (r, tB) ∧ Q tA tB := by
  intro es
  induction es with
  | nil => intro pl sA sB se m r tA hq h1 _; simp only [unordFor] at h1 ⊢; cases h1; exact ⟨sB, rfl, hq⟩
  | cons e es ih =>
    intro pl sA sB se m r tA hq h1 hr
    simp only [unordFor] at h1 ⊢
    cases hp : pA e sA with | mk r1 s1 =>
    rw [hp] at h1
    have hne : r1 ≠ .fuel := by intro e; subst e; (try simp only [] at h1); cases h1; exact hr rfl
    obtain ⟨tB1, hB, hq1⟩ := h e sA sB r1 s1 hq hp hne
    rw [hB]
    rcases r1 with v | _ | _ | _
    · (try simp only [] at h1 ⊢)
      by_cases hv : v.truthy = true
      · simp only [hv, if_true] at h1 ⊢
        by_cases hse : se = true
        · simp only [hse, if_true] at h1 ⊢; exact ih _ _ _ _ _ _ _ (hQ.setPos hq1 pl) h1 hr
        · simp only [hse] at h1 ⊢; cases h1; exact ⟨tB1, rfl, hq1⟩
      · simp only [hv] at h1 ⊢; exact ih _ _ _ _ _ _ _ hq1 h1 hr
    · exact ih _ _ _ _ _ _ _ (hQ.setPos hq1 pl) h1 hr
    · exact absurd rfl hne
    · (try simp only [] at h1 ⊢); cases h1; exact ⟨tB1, rfl, hq1⟩

/-- the part of one `repLoop` iteration after the separator -/
def repTail (p : SubParser) (e : Nat) (cpos : Nat) (first : Bool)
    (rec : PState → List Val → Res × PState) (s1 : PState) (acc1 : List Val) : Res × PState :=
  match p e s1 with
  | (.ok v, s2) => if v.truthy then rec s2 (v :: acc1) else (.ok (.list acc1.reverse), s2)
  | (.nomatch, s2) =>
      if first then (.nomatch, { s2 with pos := cpos })
      else (.ok (.list acc1.reverse), { s2 with pos := cpos })
  | r => r

theorem repLoop_succ (p : SubParser) (e : Nat) (sep : Option Nat) (k : Nat) (s : PState) (acc : List Val)
    (first prev : Bool) :
    repLoop p e sep (k+1) s acc first prev =
      match (match sep with
             | some sp =>
               if prev then
                 match p sp s with
                 | (.ok v, s') => ((.ok .none : Res), s', if v.truthy then v :: acc else acc)
                 | (r, s') => (r, s', acc)
               else (.ok .none, s, acc)
             | .none => (.ok .none, s, acc)) with
      | (.ok _, s1, acc1) => repTail p e s.pos first (fun s2 a => repLoop p e sep k s2 a false true) s1 acc1
      | (.nomatch, s1, _) =>
          if first then (.nomatch, { s1 with pos := s.pos })
          else (.ok (.list acc.reverse), { s1 with pos := s.pos })
      | (r, s1, _) => (r, s1) := by
  rfl

theorem repTail_sim (hQ : QOK Q) {pA pB : SubParser} (h : Sim Q pA pB) (e cpos : Nat) (first : Bool)
    {recA recB : PState → List Val → Res × PState}
    (hrec : ∀ sA sB a r tA, Q sA sB → recA sA a = (r, tA) → r ≠ .fuel → ∃ tB, recB sB a = (r, tB) ∧ Q tA tB) :
    ∀ sA sB acc1 r tA, Q sA sB → repTail pA e cpos first recA sA acc1 = (r, tA) → r ≠ .fuel →
      ∃ tB, repTail pB e cpos first recB sB acc1 = (r, tB) ∧ Q tA tB := by
  intro sA sB acc1 r tA hq h1 hr
  unfold repTail at h1 ⊢
  cases hp : pA e sA with | mk r1 s1 =>
  rw [hp] at h1
  have hne : r1 ≠ .fuel := by intro e; subst e; (try simp only [] at h1); cases h1; exact hr rfl
  obtain ⟨tB1, hB, hq1⟩ := h e sA sB r1 s1 hq hp hne
  rw [hB]
  rcases r1 with v | _ | _ | _
  · (try simp only [] at h1 ⊢)
    by_cases hv : v.truthy = true
    · simp only [hv, if_true] at h1 ⊢; exact hrec _ _ _ _ _ hq1 h1 hr
    · simp only [hv] at h1 ⊢; cases h1; exact ⟨tB1, rfl, hq1⟩
  · (try simp only [] at h1 ⊢)
    cases first
    · (try simp only [] at h1 ⊢); cases h1; exact ⟨_, rfl, hQ.setPos hq1 cpos⟩
    · simp only [if_true] at h1 ⊢; cases h1; exact ⟨_, rfl, hQ.setPos hq1 cpos⟩
  · exact absurd rfl hne
  · (try simp only [] at h1 ⊢); cases h1; exact ⟨tB1, rfl, hq1⟩

theorem repLoop_sim (hQ : QOK Q) {pA pB : SubParser} (h : Sim Q pA pB) (e : Nat) (sep : Option Nat) :
    ∀ k sA sB acc f pv r tA, Q sA sB → repLoop pA e sep k sA acc f pv = (r, tA) → r ≠ .fuel →
      ∃ tB, repLoop pB e sep k sB acc f pv = (r, tB) ∧ Q tA tB := by
  intro k
  induction k with
  | zero => intro sA sB acc f pv r tA _ h1 hr; simp only [repLoop] at h1; cases h1; exact absurd rfl hr
  | succ k ih =>
    intro sA sB acc f pv r tA hq h1 hr
    rw [repLoop_succ] at h1 ⊢
    have hpos := hQ.pos hq
    have htail := fun (sA' sB' : PState) (a1 : List Val) (hq' : Q sA' sB') =>
      repTail_sim hQ h e sA.pos f (recA := fun s2 a => repLoop pA e sep k s2 a false true)
        (recB := fun s2 a => repLoop pB e sep k s2 a false true)
        (fun sA sB a r tA hq h1 hr => ih sA sB a false true r tA hq h1 hr) sA' sB' a1 r tA hq'
    rw [← hpos]
    cases sep with
    | none => (try simp only [] at h1 ⊢); exact htail _ _ _ hq h1 hr
    | some sp =>
      cases pv
      · (try simp only [] at h1 ⊢); exact htail _ _ _ hq h1 hr
      · simp only [if_true] at h1 ⊢
        cases hp : pA sp sA with | mk r1 s1 =>
        rw [hp] at h1
        have hne : r1 ≠ .fuel := by intro e; subst e; (try simp only [] at h1); cases h1; exact hr rfl
        obtain ⟨tB1, hB, hq1⟩ := h sp sA sB r1 s1 hq hp hne
        rw [hB]
        rcases r1 with v | _ | _ | _
        · (try simp only [] at h1 ⊢); exact htail _ _ _ hq1 h1 hr
        · (try simp only [] at h1 ⊢)
          cases f
          · (try simp only [] at h1 ⊢); cases h1; exact ⟨_, rfl, hQ.setPos hq1 _⟩
          · simp only [if_true] at h1 ⊢; cases h1; exact ⟨_, rfl, hQ.setPos hq1 _⟩
        · exact absurd rfl hne
        · (try simp only [] at h1 ⊢); cases h1; exact ⟨tB1, rfl, hq1⟩

/-- the part of one `unordLoop` iteration after the separator -/
def unordTail (p : SubParser) (todo : List Nat) (posSep : Nat) (acc : List Val)
    (rec : List Nat → PState → List Val → Option Val → Res × PState)
    (s1 : PState) (sepExc : Bool) (sepRes1 : Option Val) : Res × PState :=
  match unordFor p todo s1.pos s1 sepExc true with
  | (.hit v e, s2) =>
      let acc1 := match sepRes1 with
        | some sv => if sv.truthy then sv :: acc else acc
        | .none => acc
      rec (remove todo e) s2 (v :: acc1) sepRes1
  | (.exhausted true, s2) =>
      (.ok (if acc.isEmpty then .none else .list acc.reverse), { s2 with pos := posSep })
  | (.exhausted false, s2) => (.nomatch, { s2 with pos := posSep })
  | (.fuel, s2) => (.fuel, s2)
  | (.bad, s2) => (.bad, s2)

theorem unordLoop_succ (p : SubParser) (sep : Option Nat) (k : Nat) (e0 : Nat) (es0 : List Nat) (s : PState)
    (acc : List Val) (first : Bool) (sepRes : Option Val) :
    unordLoop p sep (k+1) (e0 :: es0) s acc first sepRes =
      match (match sep with
             | some sp =>
               if !first then
                 match p sp s with
                 | (.ok v, s') => ((.ok .none : Res), s', false, some v)
                 | (.nomatch, s') => (.ok .none, { s' with pos := s.pos }, true, sepRes)
                 | (r, s') => (r, s', false, sepRes)
               else (.ok .none, s, false, sepRes)
             | .none => (.ok .none, s, false, sepRes)) with
      | (.ok _, s1, sepExc, sepRes1) =>
          unordTail p (e0 :: es0) s.pos acc (fun td s2 a sr => unordLoop p sep k td s2 a false sr) s1 sepExc sepRes1
      | (r, s1, _, _) => (r, s1) := by
  rfl

theorem unordTail_sim (hQ : QOK Q) {pA pB : SubParser} (h : Sim Q pA pB) (todo : List Nat) (posSep : Nat)
    (acc : List Val) {recA recB : List Nat → PState → List Val → Option Val → Res × PState}
    (hrec : ∀ td sA sB a sr r tA, Q sA sB → recA td sA a sr = (r, tA) → r ≠ .fuel →
      ∃ tB, recB td sB a sr = (r, tB) ∧ Q tA tB) :
    ∀ sA sB se sr1 r tA, Q sA sB → unordTail pA todo posSep acc recA sA se sr1 = (r, tA) → r ≠ .fuel →
      ∃ tB, unordTail pB todo posSep acc recB sB se sr1 = (r, tB) ∧ Q tA tB := by
  intro sA sB se sr1 r tA hq h1 hr
  unfold unordTail at h1 ⊢
  rw [← hQ.pos hq]
  cases hp : unordFor pA todo sA.pos sA se true with | mk r1 s1 =>
  rw [hp] at h1
  have hne : r1 ≠ .fuel := by intro e; subst e; (try simp only [] at h1); cases h1; exact hr rfl
  obtain ⟨tB1, hB, hq1⟩ := unordFor_sim hQ h todo sA.pos sA sB se true r1 s1 hq hp hne
  rw [hB]
  rcases r1 with ⟨v, e⟩ | m | _ | _
  · (try simp only [] at h1 ⊢); exact hrec _ _ _ _ _ _ _ hq1 h1 hr
  · cases m
    · (try simp only [] at h1 ⊢); cases h1; exact ⟨_, rfl, hQ.setPos hq1 _⟩
    · (try simp only [] at h1 ⊢); cases h1; exact ⟨_, rfl, hQ.setPos hq1 _⟩
  · exact absurd rfl hne
  · (try simp only [] at h1 ⊢); cases h1; exact ⟨tB1, rfl, hq1⟩

theorem unordLoop_sim (hQ : QOK Q) {pA pB : SubParser} (h : Sim Q pA pB) (sep : Option Nat) :
    ∀ k todo sA sB acc f sr r tA, Q sA sB → unordLoop pA sep k todo sA acc f sr = (r, tA) → r ≠ .fuel →
      ∃ tB, unordLoop pB sep k todo sB acc f sr = (r, tB) ∧ Q tA tB := by
  intro k
  induction k with
  | zero => intro todo sA sB acc f sr r tA _ h1 hr; simp only [unordLoop] at h1; cases h1; exact absurd rfl hr
  | succ k ih =>
    intro todo sA sB acc f sr r tA hq h1 hr
    cases todo with
    | nil => simp only [unordLoop] at h1 ⊢; cases h1; exact ⟨sB, rfl, hq⟩
    | cons e0 es0 =>
      rw [unordLoop_succ] at h1 ⊢
      have hpos := hQ.pos hq
      have htail := fun (sA' sB' : PState) (se : Bool) (sr1 : Option Val) (hq' : Q sA' sB') =>
        unordTail_sim hQ h (e0 :: es0) sA.pos acc
          (recA := fun td s2 a sr => unordLoop pA sep k td s2 a false sr)
          (recB := fun td s2 a sr => unordLoop pB sep k td s2 a false sr)
          (fun td sA sB a sr r tA hq h1 hr => ih td sA sB a false sr r tA hq h1 hr) sA' sB' se sr1 r tA hq'
      rw [← hpos]
      cases sep with
      | none => (try simp only [] at h1 ⊢); exact htail _ _ _ _ hq h1 hr
      | some sp =>
        cases f
        · simp only [Bool.not_false, if_true] at h1 ⊢
          cases hp : pA sp sA with | mk r1 s1 =>
          rw [hp] at h1
          have hne : r1 ≠ .fuel := by intro e; subst e; (try simp only [] at h1); cases h1; exact hr rfl
          obtain ⟨tB1, hB, hq1⟩ := h sp sA sB r1 s1 hq hp hne
          rw [hB]
          rcases r1 with v | _ | _ | _
          · (try simp only [] at h1 ⊢); exact htail _ _ _ _ hq1 h1 hr
          · (try simp only [] at h1 ⊢); exact htail _ _ _ _ (hQ.setPos hq1 _) h1 hr
          · exact absurd rfl hne
          · (try simp only [] at h1 ⊢); cases h1; exact ⟨tB1, rfl, hq1⟩
        · simp only [Bool.not_true] at h1 ⊢
          (try simp only [] at h1 ⊢); exact htail _ _ _ _ hq h1 hr

end Peg
