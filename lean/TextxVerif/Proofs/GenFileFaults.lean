import TextxVerif.Out.GenFileFaults
/-!
# Lemmas for `Out.GenFileFaults` (C31): only the first failing call that is reached matters
-/
namespace GenFile

theorem firstWrite_none (f : Faults) (m : Nat) : ∀ k, firstWrite f k m = none →
    ∀ j, k ≤ j → j < k + m → f.atWrite j = none := by
  induction m with
  | zero => intro k _ j h1 h2; omega
  | succ m ih =>
    intro k h j h1 h2
    unfold firstWrite at h
    cases hk : f.atWrite k with
    | some b => rw [hk] at h; cases h
    | none =>
      rw [hk] at h
      by_cases hj : j = k
      · rw [hj]; exact hk
      · exact ih (k + 1) h j (by omega) (by omega)

theorem firstWrite_some (f : Faults) (m : Nat) : ∀ k j b, firstWrite f k m = some (j, b) →
    k ≤ j ∧ j < k + m ∧ f.atWrite j = some b ∧ ∀ i, k ≤ i → i < j → f.atWrite i = none := by
  induction m with
  | zero => intro k j b h; unfold firstWrite at h; cases h
  | succ m ih =>
    intro k j b h
    unfold firstWrite at h
    cases hk : f.atWrite k with
    | some b' =>
      rw [hk] at h
      injection h with h
      injection h with h1 h2
      subst h1; subst h2
      exact ⟨Nat.le_refl _, by omega, hk, fun i h1 h2 => by omega⟩
    | none =>
      rw [hk] at h
      obtain ⟨h1, h2, h3, h4⟩ := ih (k + 1) j b h
      refine ⟨by omega, by omega, h3, fun i hi1 hi2 => ?_⟩
      by_cases hik : i = k
      · rw [hik]; exact hk
      · exact h4 i (by omega) hi2

/-- the converse: a failing write with none before it is the first -/
theorem firstWrite_of (f : Faults) (m : Nat) : ∀ k j b, k ≤ j → j < k + m → f.atWrite j = some b →
    (∀ i, k ≤ i → i < j → f.atWrite i = none) → firstWrite f k m = some (j, b) := by
  induction m with
  | zero => intro k j b h1 h2; omega
  | succ m ih =>
    intro k j b h1 h2 h3 h4
    unfold firstWrite
    by_cases hj : j = k
    · subst hj; rw [h3]
    · rw [h4 k (Nat.le_refl _) (by omega)]
      exact ih (k + 1) j b (by omega) (by omega) h3 (fun i hi1 hi2 => h4 i (by omega) hi2)

theorem firstWrite_none_of (f : Faults) (m : Nat) : ∀ k, (∀ j, k ≤ j → j < k + m → f.atWrite j = none) →
    firstWrite f k m = none := by
  induction m with
  | zero => intro k _; rfl
  | succ m ih =>
    intro k h
    unfold firstWrite
    rw [h k (Nat.le_refl _) (by omega)]
    exact ih (k + 1) (fun j h1 h2 => h j (by omega) (by omega))

theorem writeLoop_none (f : Faults) (cs : List Nat) : ∀ k acc,
    (∀ j, k ≤ j → j < k + cs.length → f.atWrite j = none) →
    writeLoop f k cs acc = (acc ++ fullContent cs, true) := by
  induction cs with
  | nil => intro k acc _; simp [writeLoop, fullContent]
  | cons c cs ih =>
    intro k acc h
    unfold writeLoop
    rw [h k (Nat.le_refl _) (by simp)]
    simp only
    rw [ih (k + 1) (acc ++ [Piece.full c]) (fun j h1 h2 => h j (by omega) (by simp only [List.length_cons]; omega))]
    simp [fullContent]

theorem writeLoop_some (f : Faults) (cs : List Nat) : ∀ k acc j b,
    k ≤ j → j < k + cs.length → f.atWrite j = some b → (∀ i, k ≤ i → i < j → f.atWrite i = none) →
    writeLoop f k cs acc =
      (acc ++ fullContent (cs.take (j - k)) ++ (if b then [.part (cs.getD (j - k) 0)] else []), false) := by
  induction cs with
  | nil => intro k acc j b h1 h2; simp at h2; omega
  | cons c cs ih =>
    intro k acc j b h1 h2 h3 h4
    unfold writeLoop
    by_cases hj : j = k
    · subst hj
      rw [h3]
      simp [fullContent]
    · rw [h4 k (Nat.le_refl _) (by omega)]
      simp only
      rw [ih (k + 1) (acc ++ [Piece.full c]) j b (by omega) (by simp only [List.length_cons] at h2; omega) h3
        (fun i hi1 hi2 => h4 i (by omega) hi2)]
      have hjk : j - k = (j - (k + 1)) + 1 := by omega
      rw [hjk]
      simp [fullContent]

/-- **Only the first failing call that is reached matters.**  Under any failure schedule the export ends
exactly as the export with the single crash point `f.first`. -/
theorem exportFaults_eq (fs : FS) (p : Path) (chunks : List Nat) (f : Faults) :
    exportFaults fs p chunks f = exportNew fs p chunks (f.first chunks.length) := by
  unfold exportFaults Faults.first
  by_cases ho : f.atOpen = true
  · simp [ho, exportNew]
  · simp only [ho, Bool.false_eq_true, ↓reduceIte]
    cases hw : firstWrite f 0 chunks.length with
    | none =>
      have hl := writeLoop_none f chunks 0 [] (fun j h1 h2 => firstWrite_none f _ 0 hw j h1 (by omega))
      rw [hl]
      by_cases hc : f.atClose = true
      · simp [hc, exportNew, written]
      · by_cases hr : f.atReplace = true
        · simp [hc, hr, exportNew, written]
        · simp [hc, hr, exportNew, written]
    | some kb =>
      obtain ⟨k, b⟩ := kb
      obtain ⟨h1, h2, h3, h4⟩ := firstWrite_some f _ 0 k b hw
      have hl := writeLoop_some f chunks 0 [] k b h1 (by omega) h3 h4
      rw [hl]
      have hk : k < chunks.length := by omega
      simp [exportNew, written, hk]

/-- the schedule of the fault injection has the named call as its first failing call (or none, when the
call is a `write` behind the last one) -/
theorem first_ofCrash (persist : Bool) (n : Nat) (crash : Crash) :
    (Faults.ofCrash persist n crash).first n =
      match crash with
      | .atWrite k b => if k < n then .atWrite k b else .none
      | c => c := by
  cases crash with
  | none => simp [Faults.ofCrash, Faults.first, firstWrite_none_of]
  | atOpen => simp [Faults.ofCrash, Faults.first]
  | atClose => simp [Faults.ofCrash, Faults.first, firstWrite_none_of]
  | atReplace => simp [Faults.ofCrash, Faults.first, firstWrite_none_of]
  | atWrite k b =>
    by_cases hk : k < n
    · simp only [Faults.ofCrash, hk, ↓reduceIte, Faults.first, Bool.false_eq_true]
      rw [firstWrite_of _ n 0 k b (Nat.zero_le _) (by omega) (by simp)
        (fun i _ hi => by
          have h1 : i ≠ k := by omega
          have h2 : ¬ k < i := by omega
          simp [h1, h2])]
    · simp [Faults.ofCrash, hk, Faults.first, firstWrite_none_of]

/-- a `write` crash point behind the last write is the same as no crash point -/
theorem exportNew_unreached (fs : FS) (p : Path) (chunks : List Nat) (k : Nat) (b : Bool)
    (hk : ¬ k < chunks.length) :
    exportNew fs p chunks (.atWrite k b) = exportNew fs p chunks .none := by
  simp [exportNew, written, hk]

/-- what the driver runs for a one-shot and for a persistent failure is `exportNew` -/
theorem exportMode_eq (persist : Bool) (fs : FS) (p : Path) (chunks : List Nat) (crash : Crash) :
    exportMode persist fs p chunks crash = exportNew fs p chunks crash := by
  unfold exportMode
  rw [exportFaults_eq, first_ofCrash]
  cases crash with
  | atWrite k b =>
    by_cases hk : k < chunks.length
    · simp [hk]
    · simp only [hk, ↓reduceIte]; exact (exportNew_unreached fs p chunks k b hk).symm
  | _ => rfl

end GenFile
