import TextxVerif.Proofs.RepoOrder
/-!
Where failures come from: a load fails only at a scripted fault (syntax error,
missing import target, object / model processor error) or at a reference
without visible definition.  Used for C18 "the repaired load succeeds".
-/
namespace Repo

/-- no file has a syntax error, a failing processor or an import statement without target -/
structure NoFault (S : Spec) : Prop where
  syn : ∀ g, S.syntaxErr g = false
  obj : ∀ g, S.objFault g = false
  mod : ∀ g, S.modFault g = false
  calls : ∀ g, none ∉ S.calls g

def ParseNoFail (parse : Parse) : Prop := ∀ st g k, (parse st g).2.1 ≠ .fail k

theorem loadModelWith_nofail {parse : Parse} (hp : ParseNoFail parse) (st : St) (i : Inst) (g : File) (k : Kind) :
    (loadModelWith parse st i g).2 ≠ .fail k := by
  unfold loadModelWith
  split
  · intro h; cases h
  · split
    · intro h; cases h
    · have := hp st g
      cases hpe : parse st g with
      | mk st' rj =>
        obtain ⟨r', j⟩ := rj
        rw [hpe] at this
        cases r' with
        | ok => intro h; cases h
        | fail k' => exact absurd rfl (this k')
        | fuel => intro h; cases h

theorem loadCalls_nofail {parse : Parse} (hp : ParseNoFail parse) (i : Inst) :
    ∀ (cs : List (Option File)) (st : St) (k : Kind), none ∉ cs → (loadCalls parse i st cs).2 ≠ .fail k := by
  intro cs
  induction cs with
  | nil => intro st k _ h; simp only [loadCalls] at h; cases h
  | cons c cs ih =>
    intro st k hn
    simp only [loadCalls]
    cases c with
    | none => exact absurd List.mem_cons_self hn
    | some g =>
      simp only
      have h1 := loadModelWith_nofail hp (st.registerSelf i) i g
      cases hl : loadModelWith parse (st.registerSelf i) i g with
      | mk st2 r2 =>
        rw [hl] at h1
        cases r2 with
        | ok => exact ih st2 k (fun h => hn (List.mem_cons_of_mem _ h))
        | fail k' => exact absurd rfl (h1 k')
        | fuel => intro h; cases h

theorem internal_nofail (S : Spec) (hS : NoFault S) : ∀ fuel, ParseNoFail (internal S fuel)
  | 0 => by intro st g k h; simp only [internal] at h; cases h
  | fuel + 1 => by
    intro st g k
    rw [internal_unfold]
    simp only [hS.syn g, Bool.false_eq_true, if_false, hS.mod g]
    have h1 := loadCalls_nofail (internal_nofail S hS fuel) st.next (S.calls g) (afterCallback S st g)
    cases hl : loadCalls (internal S fuel) st.next (afterCallback S st g) (S.calls g) with
    | mk st2 r2 =>
      rw [hl] at h1
      cases r2 with
      | ok => intro h; cases h
      | fuel => intro h; cases h
      | fail k' => exact absurd rfl (h1 k' (hS.calls g))

/-- with every fault repaired a load can only fail at an unresolvable reference -/
theorem loadMain_nofault (S : Spec) (hS : NoFault S) (fuel : Nat) (st0 : St) (f : File) :
    (loadMain S fuel st0 f).2.1 = .ok ∨ (loadMain S fuel st0 f).2.1 = .fail .semantic ∨
      (loadMain S fuel st0 f).2.1 = .fuel := by
  rw [loadMain_unfold]
  simp only [hS.syn f, hS.mod f, Bool.false_eq_true, if_false]
  split
  · exact Or.inl rfl
  · have h1 := loadCalls_nofail (internal_nofail S hS fuel) (base S st0).next (S.calls f) (mainStart S (base S st0) f)
    cases hl : loadCalls (internal S fuel) (base S st0).next (mainStart S (base S st0) f) (S.calls f) with
    | mk st1 r1 =>
      rw [hl] at h1
      cases r1 with
      | fuel => exact Or.inr (Or.inr rfl)
      | fail k' => exact absurd rfl (h1 k' (hS.calls f))
      | ok =>
        simp only
        unfold finishMain
        simp only [hS.mod f, Bool.false_eq_true, if_false]
        split
        · exact Or.inr (Or.inl rfl)
        · have : (List.any (modelsOf st1 (base S st0).next) fun m =>
              S.objFault (((st1.setTargets S (modelsOf st1 (base S st0).next)).endConstruction
                (modelsOf st1 (base S st0).next)).fileOf m)) = false := by
            apply List.any_eq_false.2
            intro m _
            simp [hS.obj]
          unfold modelsOf at this
          simp only [this, Bool.false_eq_true, if_false]
          simp

end Repo
