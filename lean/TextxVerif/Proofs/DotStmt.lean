import TextxVerif.Proofs.DotLex
/-! Every rendered statement lexes to its tokens (`lex_stmt`) and its tokens are accepted by
the recogniser from every statement boundary, which then reports exactly the statement's
events (`parse_stmt`); the document theorem `recognise_renderDoc` follows. -/
namespace Dot

/-! ### side conditions on the strings of a statement -/

def StmtOk : Stmt → Prop
  | .edgeObj _ _ l _ => Safe l
  | .edgePrim _ d l _ => Safe d ∧ Safe l
  | .node _ _ n a => Safe n ∧ Safe a
  | .cluster f _ => Safe f
  | .link _ _ _ l => Safe l
  | .inh _ _ => True
  | .blank => True
  | .matchTable rows => ∀ r ∈ rows, NoAngle r.1

/-! ### tokens -/

def endmarkToks (c : Bool) : List Tok :=
  if c then [(Tok.id cl!"arrowtail"), .eq, (Tok.id cl!"diamond"), (Tok.id cl!"dir"), .eq, (Tok.id cl!"both")] else []

def linkToks (c : Bool) : List Tok :=
  if c then [(Tok.id cl!"arrowtail"), .eq, (Tok.id cl!"diamond"), .comma, (Tok.id cl!"dir"), .eq, (Tok.id cl!"both"), .comma] else []

def stmtToks : Stmt → List Tok
  | .edgeObj s d l c =>
    [.num (digits s), .arrow, .num (digits d), .lbrack, (Tok.id cl!"label"), .eq, .qstr l] ++ endmarkToks c ++ [.rbrack]
  | .edgePrim s d l c =>
    [.num (digits s), .arrow, .qstr d, .lbrack, (Tok.id cl!"label"), .eq, .qstr l] ++ endmarkToks c ++ [.rbrack]
  | .node _ i n a => [.num (digits i), .lbrack, (Tok.id cl!"label"), .eq, .qstr (recordLabel n a), .rbrack]
  | .cluster f ks =>
    [(Tok.id cl!"subgraph"), .qstr (cl!"cluster_" ++ f), .lbrace, (Tok.id cl!"penwidth"), .eq, .num cl!"2.0",
     (Tok.id cl!"color"), .eq, (Tok.id cl!"darkorange4"), .semi, (Tok.id cl!"label"), .eq, .qstr f, .semi]
      ++ ks.flatMap (fun k => [.num (digits k), .semi]) ++ [.rbrace]
  | .link s d c l =>
    [.num (digits s), .arrow, .num (digits d), .lbrack] ++ linkToks c ++ [(Tok.id cl!"headlabel"), .eq, .qstr l, .rbrack]
  | .inh b s => [.num (digits b), .arrow, .num (digits s), .lbrack, (Tok.id cl!"dir"), .eq, (Tok.id cl!"back"), .rbrack]
  | .blank => []
  | .matchTable rows =>
    [(Tok.id cl!"match_rules"), .lbrack, (Tok.id cl!"shape"), .eq, (Tok.id cl!"plaintext"), .comma, (Tok.id cl!"label"), .eq,
     .html (' ' :: tableText rows ++ [' ']), .rbrack]

/-! ### lexing a statement -/

theorem recordLabel_qsafe {n a : Str} (hn : Safe n) (ha : Safe a) : QSafe (recordLabel n a) := by
  have h1 : QSafe ['{'] := by decide
  have h2 : QSafe ['|'] := by decide
  have h3 : QSafe ['}'] := by decide
  have := (((h1.append hn.qsafe).append h2).append ha.qsafe).append h3
  simpa [recordLabel] using this

theorem lex_edge_tail (c : Bool) : Lx .start (' ' :: endmark c ++ cl!"]\n") .start (endmarkToks c ++ [.rbrack]) := by
  cases c <;> decide

theorem lex_link_mid (c : Bool) :
    Lx .start ((if c then cl!"arrowtail=diamond, dir=both, " else []) ++ cl!"headlabel=") .start
      (linkToks c ++ [(Tok.id cl!"headlabel"), .eq]) := by
  cases c <;> decide

theorem lex_kids (ks : List Nat) :
    Lx .start (ks.flatMap (fun k => digits k ++ cl!";\n")) .start (ks.flatMap (fun k => [.num (digits k), .semi])) := by
  induction ks with
  | nil => exact Lx.nil _
  | cons k ks ih =>
    have h1 := Lx.number_semi k
    have h2 : Lx .start ['\n'] .start [] := by decide
    have := (h1.append h2).append ih
    simpa [List.flatMap_cons] using this

theorem lex_stmt (s : Stmt) (h : StmtOk s) : Lx .start (renderStmt s) .start (stmtToks s) := by
  cases s with
  | edgeObj s d l c =>
    have p1 := Lx.number_space s
    have p2 : Lx .start cl!"-> " .start [.arrow] := by decide
    have p3 := Lx.number_space d
    have p4 : Lx .start cl!"[label=" .start [.lbrack, (Tok.id cl!"label"), .eq] := by decide
    have p5 := Lx.quoted (Safe.qsafe (show Safe l from h))
    have p6 := lex_edge_tail c
    have := ((((p1.append p2).append p3).append p4).append p5).append p6
    simpa [renderStmt, stmtToks] using this
  | edgePrim s d l c =>
    obtain ⟨hd, hl⟩ := h
    have p1 := Lx.number_space s
    have p2 : Lx .start cl!"-> " .start [.arrow] := by decide
    have p3 := Lx.quoted hd.qsafe
    have p4 : Lx .start cl!" [label=" .start [.lbrack, (Tok.id cl!"label"), .eq] := by decide
    have p5 := Lx.quoted hl.qsafe
    have p6 := lex_edge_tail c
    have := ((((p1.append p2).append p3).append p4).append p5).append p6
    simpa [renderStmt, stmtToks] using this
  | node mm i n a =>
    obtain ⟨hn, ha⟩ := h
    have p1 := Lx.number_lbrack i
    have p3 := Lx.quoted (recordLabel_qsafe hn ha)
    cases mm with
    | false =>
      have p2 : Lx .start cl!"label=" .start [(Tok.id cl!"label"), .eq] := by decide
      have p4 : Lx .start cl!"]\n" .start [.rbrack] := by decide
      have := ((p1.append p2).append p3).append p4
      simpa [renderStmt, stmtToks, recordLabel] using this
    | true =>
      have p2 : Lx .start cl!" label=" .start [(Tok.id cl!"label"), .eq] := by decide
      have p4 : Lx .start cl!"]\n\n" .start [.rbrack] := by decide
      have := ((p1.append p2).append p3).append p4
      simpa [renderStmt, stmtToks, recordLabel] using this
  | cluster f ks =>
    have hf : Safe f := h
    have p1 : Lx .start cl!"subgraph " .start [(Tok.id cl!"subgraph")] := by decide
    have hq : QSafe (cl!"cluster_" ++ f) := QSafe.append (by decide) hf.qsafe
    have p2 := Lx.quoted hq
    have p3 : Lx .start cl!" {\n\n        penwidth=2.0\n        color=darkorange4;\n        label = " .start
        [.lbrace, (Tok.id cl!"penwidth"), .eq, .num cl!"2.0", (Tok.id cl!"color"), .eq, (Tok.id cl!"darkorange4"), .semi,
         (Tok.id cl!"label"), .eq] := by decide
    have p4 := Lx.quoted hf.qsafe
    have p5 : Lx .start cl!";\n                    " .start [.semi] := by decide
    have p6 := lex_kids ks
    have p7 : Lx .start cl!"\n}\n" .start [.rbrace] := by decide
    have := ((((((p1.append p2).append p3).append p4).append p5).append p6).append p7)
    simpa [renderStmt, stmtToks, clusterHead] using this
  | link s d c l =>
    have p1 := Lx.number_space s
    have p2 : Lx .start cl!"-> " .start [.arrow] := by decide
    have p3 := Lx.number_lbrack d
    have p4 := lex_link_mid c
    have p5 := Lx.quoted (Safe.qsafe (show Safe l from h))
    have p6 : Lx .start cl!"]\n" .start [.rbrack] := by decide
    have := ((((p1.append p2).append p3).append p4).append p5).append p6
    simpa [renderStmt, stmtToks] using this
  | inh b s =>
    have p1 := Lx.number_space b
    have p2 : Lx .start cl!"-> " .start [.arrow] := by decide
    have p3 := Lx.number_space s
    have p4 : Lx .start cl!"[dir=back]\n" .start [.lbrack, (Tok.id cl!"dir"), .eq, (Tok.id cl!"back"), .rbrack] := by decide
    have := ((p1.append p2).append p3).append p4
    simpa [renderStmt, stmtToks] using this
  | blank => decide
  | matchTable rows =>
    have p1 : Lx .start cl!"match_rules [ shape=plaintext, label=" .start
        [(Tok.id cl!"match_rules"), .lbrack, (Tok.id cl!"shape"), .eq, (Tok.id cl!"plaintext"), .comma, (Tok.id cl!"label"), .eq] := by decide
    have p2 := Lx.html (tableText_angle rows h)
    have p3 : Lx .start cl!"]\n\n" .start [.rbrack] := by decide
    have := (p1.append p2).append p3
    simpa [renderStmt, stmtToks] using this

theorem lex_stmts (ss : List Stmt) (h : ∀ s ∈ ss, StmtOk s) :
    Lx .start (ss.flatMap renderStmt) .start (ss.flatMap stmtToks) := by
  induction ss with
  | nil => exact Lx.nil _
  | cons s ss ih =>
    have := (lex_stmt s (h s (by simp))).append (ih (fun x hx => h x (by simp [hx])))
    simpa [List.flatMap_cons] using this

/-! ### parsing -/

theorem psteps_append (st : PState) (a b : List Tok) :
    psteps st (a ++ b) = (psteps st a).bind (fun st' => psteps st' b) := by
  induction a generalizing st with
  | nil => simp [psteps]
  | cons t ts ih =>
    simp only [List.cons_append, psteps]
    cases pstep st t with
    | none => simp
    | some s' => exact ih s'

/-- the statements seen so far, the pending one included (reversed) -/
def flushed (s : PState) : List Ev :=
  match s.mode with
  | .afterAttrs o acc => o.ev acc :: s.out
  | .afterId i => .node i [] :: s.out
  | .afterEdge a b => .edge a b [] :: s.out
  | _ => s.out

/-- a statement boundary inside the graph body -/
def Bnd (s : PState) : Prop :=
  1 ≤ s.depth ∧ (s.mode = .stmt ∨ s.mode = .stmtEnd ∨ ∃ o acc, s.mode = .afterAttrs o acc)

theorem isKw_parts {w : Str} (h : isKw w = false) :
    lower w ≠ cl!"node" ∧ lower w ≠ cl!"edge" ∧ lower w ≠ cl!"graph" ∧
      lower w ≠ cl!"subgraph" := by
  simp only [isKw, Bool.or_eq_false_iff, decide_eq_false_iff_not] at h
  exact ⟨h.1.1.1.1.1, h.1.1.1.1.2, h.1.1.1.2, h.1.2⟩

/-- a numeral, string or non-keyword identifier at a boundary starts a statement -/
theorem pstep_start {s : PState} (hb : Bnd s) {t : Tok}
    (ht : (∃ w, t = .num w) ∨ (∃ w, t = .id w ∧ isKw w = false)) :
    pstep s t = some { depth := s.depth, mode := .afterId t, out := flushed s } := by
  obtain ⟨_, hm⟩ := hb
  obtain ⟨d, m, out⟩ := s
  rcases ht with ⟨w, rfl⟩ | ⟨w, rfl, hk⟩
  · rcases hm with hm | hm | ⟨o, acc, hm⟩ <;> simp only at hm <;> subst hm <;>
      simp [pstep, stmtTok, flushed, PState.emit]
  · obtain ⟨h1, h2, h3, h4⟩ := isKw_parts hk
    rcases hm with hm | hm | ⟨o, acc, hm⟩ <;> simp only at hm <;> subst hm <;>
      simp [pstep, stmtTok, flushed, PState.emit, h1, h2, h3, h4, hk]

theorem pstep_subgraph {s : PState} (hb : Bnd s) :
    pstep s ((Tok.id cl!"subgraph")) = some { depth := s.depth, mode := .sub0, out := flushed s } := by
  obtain ⟨_, hm⟩ := hb
  obtain ⟨d, m, out⟩ := s
  have e : lower cl!"subgraph" = cl!"subgraph" := by decide
  rcases hm with hm | hm | ⟨o, acc, hm⟩ <;> simp only at hm <;> subst hm <;>
    simp [pstep, stmtTok, flushed, PState.emit, e]

theorem pstep_rbrace_inner {s : PState} (hb : Bnd s) {d : Nat} (hd : s.depth = d + 2) :
    pstep s .rbrace = some { depth := d + 1, mode := .stmtEnd, out := .close :: flushed s } := by
  obtain ⟨_, hm⟩ := hb
  obtain ⟨d0, m, out⟩ := s
  simp only at hd; subst hd
  rcases hm with hm | hm | ⟨o, acc, hm⟩ <;> simp only at hm <;> subst hm <;>
    simp [pstep, stmtTok, flushed, PState.emit]

theorem pstep_rbrace_outer {s : PState} (hb : Bnd s) (hd : s.depth = 1) :
    pstep s .rbrace = some { depth := 0, mode := .done, out := flushed s } := by
  obtain ⟨_, hm⟩ := hb
  obtain ⟨d0, m, out⟩ := s
  simp only at hd; subst hd
  rcases hm with hm | hm | ⟨o, acc, hm⟩ <;> simp only at hm <;> subst hm <;>
    simp [pstep, stmtTok, flushed, PState.emit]

@[simp] theorem kw_label : isKw cl!"label" = false := by decide
@[simp] theorem kw_arrowtail : isKw cl!"arrowtail" = false := by decide
@[simp] theorem kw_diamond : isKw cl!"diamond" = false := by decide
@[simp] theorem kw_dir : isKw cl!"dir" = false := by decide
@[simp] theorem kw_both : isKw cl!"both" = false := by decide
@[simp] theorem kw_back : isKw cl!"back" = false := by decide
@[simp] theorem kw_headlabel : isKw cl!"headlabel" = false := by decide
@[simp] theorem kw_penwidth : isKw cl!"penwidth" = false := by decide
@[simp] theorem kw_color : isKw cl!"color" = false := by decide
@[simp] theorem kw_darkorange4 : isKw cl!"darkorange4" = false := by decide
@[simp] theorem kw_shape : isKw cl!"shape" = false := by decide
@[simp] theorem kw_plaintext : isKw cl!"plaintext" = false := by decide
@[simp] theorem kw_match_rules : isKw cl!"match_rules" = false := by decide

/-- the result of a statement's tokens from a boundary -/
def After (st st' : PState) (evs : List Ev) : Prop :=
  Bnd st' ∧ st'.depth = st.depth ∧ flushed st' = evs.reverse ++ flushed st

theorem parse_kids (ks : List Nat) (d : Nat) (out : List Ev) (m : PMode) (hm : m = .stmt ∨ m = .stmtEnd) :
    psteps { depth := d, mode := m, out := out } (ks.flatMap (fun k => [.num (digits k), .semi])) =
      some { depth := d, mode := (if ks.isEmpty then m else .stmt),
             out := (ks.map (fun k => Ev.node (.num (digits k)) [])).reverse ++ out } := by
  induction ks generalizing out m with
  | nil => simp [psteps]
  | cons k ks ih =>
    have step1 : psteps { depth := d, mode := m, out := out } [.num (digits k), .semi] =
        some { depth := d, mode := .stmt, out := Ev.node (.num (digits k)) [] :: out } := by
      rcases hm with rfl | rfl <;> simp [psteps, pstep, stmtTok, PState.emit]
    rw [List.flatMap_cons, psteps_append, step1, Option.bind_some, ih _ .stmt (Or.inl rfl)]
    simp

/-- the state after a statement that ends with an attribute list -/
def stAttrs (st : PState) (o : Owner) (acc : List (Tok × Tok)) : PState :=
  { depth := st.depth, mode := .afterAttrs o acc, out := flushed st }

theorem stAttrs_after (st : PState) (hb : Bnd st) (o : Owner) (acc : List (Tok × Tok)) :
    After st (stAttrs st o acc) [o.ev acc] :=
  ⟨⟨hb.1, Or.inr (Or.inr ⟨_, _, rfl⟩)⟩, rfl, by simp [flushed, stAttrs]⟩

theorem parse_stmt (s : Stmt) (st : PState) (hb : Bnd st) :
    ∃ st', psteps st (stmtToks s) = some st' ∧ After st st' (stmtEvs s) := by
  have hd := hb.1
  cases s with
  | edgeObj a b l c =>
    refine ⟨stAttrs st (.edge (.num (digits a)) (.num (digits b))) ((Tok.id cl!"label", .qstr l) :: endmarkAttrs c), ?_,
      stAttrs_after st hb _ _⟩
    simp only [stmtToks, List.cons_append, List.nil_append, psteps]
    rw [pstep_start hb (Or.inl ⟨_, rfl⟩)]
    cases c <;> simp [psteps, pstep, isIdTok, endmarkToks, endmarkAttrs, stAttrs]
  | edgePrim a b l c =>
    refine ⟨stAttrs st (.edge (.num (digits a)) (.qstr b)) ((Tok.id cl!"label", .qstr l) :: endmarkAttrs c), ?_,
      stAttrs_after st hb _ _⟩
    simp only [stmtToks, List.cons_append, List.nil_append, psteps]
    rw [pstep_start hb (Or.inl ⟨_, rfl⟩)]
    cases c <;> simp [psteps, pstep, isIdTok, endmarkToks, endmarkAttrs, stAttrs]
  | node mm i n a =>
    refine ⟨stAttrs st (.node (.num (digits i))) [(Tok.id cl!"label", .qstr (recordLabel n a))], ?_,
      stAttrs_after st hb _ _⟩
    simp only [stmtToks, psteps]
    rw [pstep_start hb (Or.inl ⟨_, rfl⟩)]
    simp [pstep, isIdTok, stAttrs]
  | cluster f ks =>
    obtain ⟨d, hdd⟩ : ∃ d, st.depth = d + 1 := ⟨st.depth - 1, by omega⟩
    refine ⟨{ depth := st.depth, mode := .stmtEnd, out := (stmtEvs (.cluster f ks)).reverse ++ flushed st }, ?_,
      ⟨hd, Or.inr (Or.inl rfl)⟩, rfl, rfl⟩
    have head : psteps st [Tok.id cl!"subgraph", .qstr (cl!"cluster_" ++ f), .lbrace, Tok.id cl!"penwidth", .eq,
        .num cl!"2.0", Tok.id cl!"color", .eq, Tok.id cl!"darkorange4", .semi, Tok.id cl!"label", .eq, .qstr f, .semi] =
        some { depth := st.depth + 1, mode := .stmt,
               out := [Ev.assign (Tok.id cl!"label") (.qstr f), .assign (Tok.id cl!"color") (Tok.id cl!"darkorange4"),
                       .assign (Tok.id cl!"penwidth") (.num cl!"2.0"),
                       .sub (some (.qstr (cl!"cluster_" ++ f)))] ++ flushed st } := by
      simp only [psteps]
      rw [pstep_subgraph hb]
      have e1 : lower cl!"penwidth" = cl!"penwidth" := by decide
      have e2 : lower cl!"color" = cl!"color" := by decide
      have e3 : lower cl!"label" = cl!"label" := by decide
      simp [pstep, stmtTok, isIdTok, PState.emit, e1, e2, e3]
    have hk := parse_kids ks (st.depth + 1)
      ([Ev.assign (Tok.id cl!"label") (.qstr f), .assign (Tok.id cl!"color") (Tok.id cl!"darkorange4"),
        .assign (Tok.id cl!"penwidth") (.num cl!"2.0"), .sub (some (.qstr (cl!"cluster_" ++ f)))] ++ flushed st)
      .stmt (Or.inl rfl)
    have hmode : (if ks.isEmpty then PMode.stmt else PMode.stmt) = PMode.stmt := by split <;> rfl
    rw [hmode] at hk
    simp only [stmtToks]
    rw [psteps_append, psteps_append, head, Option.bind_some, hk, Option.bind_some]
    generalize hout : ((ks.map (fun k => Ev.node (.num (digits k)) [])).reverse ++ _ : List Ev) = out2
    have hb2 : Bnd { depth := st.depth + 1, mode := .stmt, out := out2 } := ⟨by simp, Or.inl rfl⟩
    simp only [psteps]
    rw [pstep_rbrace_inner hb2 (d := d) (by simp [hdd])]
    subst hout
    simp [stmtEvs, flushed, hdd]
  | link a b c l =>
    refine ⟨stAttrs st (.edge (.num (digits a)) (.num (digits b))) (endmarkAttrs c ++ [(Tok.id cl!"headlabel", .qstr l)]), ?_,
      stAttrs_after st hb _ _⟩
    simp only [stmtToks, List.cons_append, List.nil_append, psteps]
    rw [pstep_start hb (Or.inl ⟨_, rfl⟩)]
    cases c <;> simp [psteps, pstep, isIdTok, linkToks, endmarkAttrs, stAttrs]
  | inh a b =>
    refine ⟨stAttrs st (.edge (.num (digits a)) (.num (digits b))) [(Tok.id cl!"dir", Tok.id cl!"back")], ?_,
      stAttrs_after st hb _ _⟩
    simp only [stmtToks, psteps]
    rw [pstep_start hb (Or.inl ⟨_, rfl⟩)]
    simp [pstep, isIdTok, stAttrs]
  | blank => exact ⟨st, rfl, hb, rfl, by simp [stmtEvs]⟩
  | matchTable rows =>
    refine ⟨stAttrs st (.node (Tok.id cl!"match_rules"))
      [(Tok.id cl!"shape", Tok.id cl!"plaintext"), (Tok.id cl!"label", .html (' ' :: tableText rows ++ [' ']))], ?_,
      stAttrs_after st hb _ _⟩
    simp only [stmtToks, psteps]
    rw [pstep_start hb (Or.inr ⟨_, rfl, kw_match_rules⟩)]
    simp [pstep, isIdTok, stAttrs]

theorem parse_stmts (ss : List Stmt) (st : PState) (hb : Bnd st) :
    ∃ st', psteps st (ss.flatMap stmtToks) = some st' ∧ After st st' (ss.flatMap stmtEvs) := by
  induction ss generalizing st with
  | nil => exact ⟨st, rfl, hb, rfl, by simp⟩
  | cons s ss ih =>
    obtain ⟨s1, h1, b1, d1, f1⟩ := parse_stmt s st hb
    obtain ⟨s2, h2, b2, d2, f2⟩ := ih s1 b1
    refine ⟨s2, ?_, b2, d2.trans d1, ?_⟩
    · rw [List.flatMap_cons, psteps_append, h1]; exact h2
    · rw [f2, f1]; simp

end Dot
