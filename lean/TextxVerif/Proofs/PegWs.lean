import TextxVerif.Peg.GapExt
/-!
# Lemmas for C22: whitespace skipping and gap extension on the Arpeggio mirror
-/
namespace Peg

/-! ## `skipWsFrom` skips exactly the maximal run of active-set characters -/

/-- the character at `i` exists and belongs to `W` -/
def inW (inp : Array Char) (W : List Char) (i : Nat) : Prop := ∃ c, inp[i]? = some c ∧ c ∈ W

/-- `r` is where skipping from `q` stops: everything in `[q, r)` is in `W`, the character at `r` (if any) is not -/
def IsSkip (inp : Array Char) (W : List Char) (q r : Nat) : Prop :=
  q ≤ r ∧ (∀ i, q ≤ i → i < r → inW inp W i) ∧ ¬ inW inp W r

theorem skipWsFrom_succ (inp : Array Char) (W : List Char) (f q : Nat) :
    skipWsFrom inp W (f+1) q =
      if h : q < inp.size then (if inp[q] ∈ W then skipWsFrom inp W f (q+1) else q) else q := by
  rw [skipWsFrom]

theorem IsSkip.unique {inp : Array Char} {W : List Char} {q r r' : Nat}
    (h : IsSkip inp W q r) (h' : IsSkip inp W q r') : r = r' := by
  obtain ⟨h1, h2, h3⟩ := h
  obtain ⟨h1', h2', h3'⟩ := h'
  rcases Nat.lt_trichotomy r r' with hlt | heq | hgt
  · exact absurd (h2' r h1 hlt) h3
  · exact heq
  · exact absurd (h2 r' h1' hgt) h3'

theorem skipWsFrom_spec (inp : Array Char) (W : List Char) :
    ∀ f q, inp.size - q ≤ f → IsSkip inp W q (skipWsFrom inp W f q) := by
  intro f
  induction f with
  | zero =>
    intro q hq
    refine ⟨Nat.le_refl _, fun i h1 h2 => ?_, ?_⟩
    · simp [skipWsFrom] at h2; omega
    · simp only [skipWsFrom]
      rintro ⟨c, hc, _⟩
      have : q < inp.size := by
        rcases Nat.lt_or_ge q inp.size with h | h
        · exact h
        · simp [Array.getElem?_eq_none h] at hc
      omega
  | succ f ih =>
    intro q hq
    rw [skipWsFrom_succ]
    by_cases hlt : q < inp.size
    · simp only [hlt, dite_true]
      by_cases hm : inp[q] ∈ W
      · simp only [hm, if_true]
        obtain ⟨h1, h2, h3⟩ := ih (q+1) (by omega)
        refine ⟨by omega, fun i hi1 hi2 => ?_, h3⟩
        by_cases hiq : i = q
        · subst hiq; exact ⟨inp[i], by simp [hlt], hm⟩
        · exact h2 i (by omega) hi2
      · simp only [hm, if_false]
        refine ⟨Nat.le_refl _, fun i h1 h2 => by omega, ?_⟩
        rintro ⟨c, hc, hcW⟩
        simp [hlt] at hc
        subst hc; exact hm hcW
    · simp only [hlt, dite_false]
      refine ⟨Nat.le_refl _, fun i h1 h2 => by omega, ?_⟩
      rintro ⟨c, hc, _⟩
      simp [Array.getElem?_eq_none (Nat.le_of_not_lt hlt)] at hc

theorem skipTo_spec (inp : Array Char) (W : List Char) (q : Nat) : IsSkip inp W q (skipTo inp W q) :=
  skipWsFrom_spec inp W _ q (by omega)

theorem skipTo_eq {inp : Array Char} {W : List Char} {q r : Nat} (h : IsSkip inp W q r) :
    skipTo inp W q = r := (skipTo_spec inp W q).unique h

/-- skipping is idempotent -/
theorem skipTo_idem (inp : Array Char) (W : List Char) (q : Nat) :
    skipTo inp W (skipTo inp W q) = skipTo inp W q := by
  apply skipTo_eq
  obtain ⟨_, _, h3⟩ := skipTo_spec inp W q
  exact ⟨Nat.le_refl _, fun i h1 h2 => by omega, h3⟩

theorem skipTo_le_size {inp : Array Char} {W : List Char} {q : Nat} (hq : q ≤ inp.size) :
    skipTo inp W q ≤ inp.size := by
  obtain ⟨h1, h2, _⟩ := skipTo_spec inp W q
  rcases Nat.lt_or_ge inp.size (skipTo inp W q) with h | h
  · obtain ⟨c, hc, _⟩ := h2 inp.size hq h
    simp at hc
  · exact h

theorem skipWs_pos (g : Grammar) (s : PState) : (skipWs g s).pos = skipTo g.input s.ws s.pos := rfl

/-! ## the extended input -/

/-- `inp'` is `inp` with `k` characters, all from `ins`, inserted in front of position `p` -/
structure InputExt (inp inp' : Array Char) (ins : List Char) (p k : Nat) : Prop where
  size : inp'.size = inp.size + k
  le : p ≤ inp.size
  below : ∀ i, i < p → inp'[i]? = inp[i]?
  mid : ∀ i, p ≤ i → i < p + k → ∃ c, inp'[i]? = some c ∧ c ∈ ins
  above : ∀ i, p ≤ i → inp'[i + k]? = inp[i]?

theorem extendGap_inputExt (inp : Array Char) (p : Nat) (ins : List Char) (hp : p ≤ inp.size) :
    InputExt inp (extendGap inp p ins) ins p ins.length := by
  have hsz : inp.toList.length = inp.size := by simp
  refine ⟨?_, hp, ?_, ?_, ?_⟩
  · simp [extendGap]; omega
  · intro i hi
    simp only [extendGap, List.getElem?_toArray, List.append_assoc]
    rw [List.getElem?_append_left (by simp; omega)]
    simp [hi]
  · intro i h1 h2
    simp only [extendGap, List.getElem?_toArray, List.append_assoc]
    rw [List.getElem?_append_right (by simp; omega)]
    have hl : (List.take p inp.toList).length = p := by simp; omega
    rw [hl, List.getElem?_append_left (by omega)]
    have : i - p < ins.length := by omega
    exact ⟨ins[i - p], by simp [this], List.getElem_mem _⟩
  · intro i h1
    simp only [extendGap, List.getElem?_toArray, List.append_assoc]
    have hl : (List.take p inp.toList).length = p := by simp; omega
    rw [List.getElem?_append_right (by omega), hl, List.getElem?_append_right (by omega)]
    simp only [List.getElem?_drop]
    have : p + (i + ins.length - p - ins.length) = i := by omega
    rw [this]; simp

/-- positions of the original and of the extended input that correspond: the shifted
position, or — at the insertion point itself — also the place in front of the insertion -/
def R (p k q q' : Nat) : Prop := q' = sh p k q ∨ (q = p ∧ q' = p)

theorem R.sh (p k q : Nat) : R p k q (Peg.sh p k q) := Or.inl rfl

theorem sh_inj {p k a b : Nat} (h : sh p k a = sh p k b) : a = b := by
  unfold sh at h; split at h <;> split at h <;> omega

theorem sh_beq (p k a b : Nat) : (sh p k a == sh p k b) = (a == b) := by
  rw [Bool.eq_iff_iff, beq_iff_eq, beq_iff_eq]
  exact ⟨sh_inj, fun e => by rw [e]⟩

/-- skipping on the extended input lands on the shifted position, whatever related position it starts from,
as long as the inserted characters belong to the active set -/
theorem isSkip_ext {inp inp' : Array Char} {ins W : List Char} {p k q q' r : Nat}
    (hx : InputExt inp inp' ins p k) (hins : ∀ c ∈ ins, c ∈ W) (hR : R p k q q')
    (hs : IsSkip inp W q r) : IsSkip inp' W q' (sh p k r) := by
  obtain ⟨h1, h2, h3⟩ := hs
  refine ⟨?_, ?_, ?_⟩
  · rcases hR with h | ⟨h, h'⟩ <;> (unfold sh at *; split <;> (try split at h) <;> omega)
  · intro i hi1 hi2
    by_cases hip : i < p
    · have hqi : q ≤ i := by
        rcases hR with h | ⟨h, h'⟩ <;> (unfold sh at *; (try split at h) <;> omega)
      have hir : i < r := by unfold sh at hi2; split at hi2 <;> omega
      obtain ⟨c, hc, hcW⟩ := h2 i hqi hir
      exact ⟨c, by rw [hx.below i hip]; exact hc, hcW⟩
    · by_cases hik : i < p + k
      · obtain ⟨c, hc, hci⟩ := hx.mid i (by omega) hik
        exact ⟨c, hc, hins c hci⟩
      · have hr : ¬ r < p := by intro hr; unfold sh at hi2; simp [hr] at hi2; omega
        have hir : i - k < r := by unfold sh at hi2; simp [hr] at hi2; omega
        have hqi : q ≤ i - k := by
          rcases hR with h | ⟨h, h'⟩ <;> (unfold sh at *; (try split at h) <;> omega)
        obtain ⟨c, hc, hcW⟩ := h2 (i - k) hqi hir
        have := hx.above (i - k) (by omega)
        rw [show i - k + k = i by omega] at this
        exact ⟨c, by rw [this]; exact hc, hcW⟩
  · rintro ⟨c, hc, hcW⟩
    apply h3
    unfold sh at hc
    split at hc
    · next hr => exact ⟨c, by rw [← hx.below r hr]; exact hc, hcW⟩
    · next hr => exact ⟨c, by rw [← hx.above r (by omega)]; exact hc, hcW⟩

theorem skipTo_ext {inp inp' : Array Char} {ins W : List Char} {p k q q' : Nat}
    (hx : InputExt inp inp' ins p k) (hins : ∀ c ∈ ins, c ∈ W) (hR : R p k q q') :
    skipTo inp' W q' = sh p k (skipTo inp W q) :=
  skipTo_eq (isSkip_ext hx hins hR (skipTo_spec inp W q))

end Peg
