import TextxVerif.Re
/-!
General lemmas about the backtracking matcher `Re.m`:
fuel independence of loops, the unfolding equation of `star`, results are
suffixes of the input, the complete result list of a character-class loop
(`splits`: longest first), and a small calculus of "the best match is …"
(`Hd`) used to follow the greedy path through a pattern.
-/
namespace Re

/-! ### lists -/
theorem head_flatMap_cons {α β} (f : α → List β) (x : α) (xs : List α) (y : β)
    (h : (f x).head? = some y) : ((x :: xs).flatMap f).head? = some y := by
  simp only [List.flatMap_cons]
  cases hfx : f x with
  | nil => simp [hfx] at h
  | cons z zs => simp [hfx] at h ⊢; exact h

theorem head_append_of_head {α} (xs ys : List α) (y : α) (h : xs.head? = some y) :
    (xs ++ ys).head? = some y := by
  cases xs with
  | nil => simp at h
  | cons z zs => simpa using h

theorem head_flatMap_of_head {α β} (f : α → List β) (l : List α) (x : α) (y : β)
    (hl : l.head? = some x) (h : (f x).head? = some y) : (l.flatMap f).head? = some y := by
  cases l with
  | nil => simp at hl
  | cons z zs =>
    simp at hl; subst hl
    exact head_flatMap_cons f z zs y h

theorem flatMap_congr_mem {α β} (l : List α) (f g : α → List β) (h : ∀ x ∈ l, f x = g x) :
    l.flatMap f = l.flatMap g := by
  induction l with
  | nil => rfl
  | cons a as ih =>
    simp only [List.flatMap_cons]
    rw [h a (by simp), ih (fun x hx => h x (by simp [hx]))]

theorem flatMap_eq_nil_of {α β} (l : List α) (f : α → List β) (h : ∀ x ∈ l, f x = []) :
    l.flatMap f = [] := by
  induction l with
  | nil => rfl
  | cons a as ih =>
    simp only [List.flatMap_cons]
    rw [h a (by simp), ih (fun x hx => h x (by simp [hx]))]; rfl

/-! ### loops -/
theorem starLoop_fuel (g : Bool) (f : St → List St) :
    ∀ (n k : Nat) (s : St), s.2.length ≤ n → s.2.length ≤ k → starLoop g f n s = starLoop g f k s := by
  intro n
  induction n with
  | zero =>
    intro k s hn _
    have hs : s.2.length = 0 := by omega
    cases k with
    | zero => rfl
    | succ k =>
      have : (f s).filter (fun t => decide (t.2.length < s.2.length)) = [] := by
        simp [hs]
      simp only [starLoop, this]
      cases g <;> simp
  | succ n ih =>
    intro k s hn hk
    cases k with
    | zero =>
      have hs : s.2.length = 0 := by omega
      have : (f s).filter (fun t => decide (t.2.length < s.2.length)) = [] := by
        simp [hs]
      simp only [starLoop, this]
      cases g <;> simp
    | succ k =>
      simp only [starLoop]
      have : ((f s).filter (fun t => decide (t.2.length < s.2.length))).flatMap (starLoop g f n) =
          ((f s).filter (fun t => decide (t.2.length < s.2.length))).flatMap (starLoop g f k) := by
        apply flatMap_congr_mem
        intro x hx
        simp only [List.mem_filter, decide_eq_true_eq] at hx
        exact ih k x (by omega) (by omega)
      rw [this]

theorem starLoop_unfold (g : Bool) (f : St → List St) (s : St) :
    starLoop g f s.2.length s =
      (if g then ((f s).filter (fun t => decide (t.2.length < s.2.length))).flatMap (fun t => starLoop g f t.2.length t) ++ [s]
       else s :: ((f s).filter (fun t => decide (t.2.length < s.2.length))).flatMap (fun t => starLoop g f t.2.length t)) := by
  obtain ⟨p, l⟩ := s
  cases l with
  | nil => cases g <;> simp [starLoop]
  | cons c l =>
    simp only [List.length_cons, starLoop]
    have : ((f (p, c :: l)).filter (fun t => decide (t.2.length < l.length + 1))).flatMap (starLoop g f l.length) =
        ((f (p, c :: l)).filter (fun t => decide (t.2.length < l.length + 1))).flatMap
          (fun t => starLoop g f t.2.length t) := by
      apply flatMap_congr_mem
      intro x hx
      simp only [List.mem_filter, decide_eq_true_eq] at hx
      exact starLoop_fuel g f l.length x.2.length x (by omega) (Nat.le_refl _)
    rw [this]

/-- the defining equation of a greedy loop: one more iteration that makes progress, or stop -/
theorem m_star (cc : CharClasses) (r : R) (s : St) :
    m cc (.star true r) s =
      ((m cc r s).filter (fun t => decide (t.2.length < s.2.length))).flatMap (m cc (.star true r)) ++ [s] := by
  have := starLoop_unfold true (m cc r) s
  simp only [if_true] at this
  exact this

theorem m_star_lazy (cc : CharClasses) (r : R) (s : St) :
    m cc (.star false r) s =
      s :: ((m cc r s).filter (fun t => decide (t.2.length < s.2.length))).flatMap (m cc (.star false r)) := by
  have := starLoop_unfold false (m cc r) s
  simp only [Bool.false_eq_true, if_false] at this
  exact this

/-! ### every result is a position further right in the same text -/
theorem step_suffix (p : Char → Bool) (s t : St) (h : t ∈ step p s) : t.2 <:+ s.2 := by
  obtain ⟨q, l⟩ := s
  cases l with
  | nil => simp [step] at h
  | cons d l =>
    simp only [step] at h
    split at h
    · simp at h; subst h; exact List.suffix_cons d l
    · simp at h

theorem starLoop_suffix (g : Bool) (f : St → List St) (hf : ∀ s t, t ∈ f s → t.2 <:+ s.2) :
    ∀ (n : Nat) (s t : St), t ∈ starLoop g f n s → t.2 <:+ s.2 := by
  intro n
  induction n with
  | zero => intro s t h; simp [starLoop] at h; subst h; exact List.suffix_refl _
  | succ n ih =>
    intro s t h
    simp only [starLoop] at h
    have key : t ∈ ((f s).filter (fun t => decide (t.2.length < s.2.length))).flatMap (starLoop g f n) ∨ t = s := by
      cases g <;> simp at h ⊢ <;> grind
    rcases key with h | h
    · simp only [List.mem_flatMap, List.mem_filter] at h
      obtain ⟨u, ⟨hu, _⟩, ht⟩ := h
      exact (ih u t ht).trans (hf s u hu)
    · subst h; exact List.suffix_refl _

theorem m_suffix (cc : CharClasses) (r : R) : ∀ (s t : St), t ∈ m cc r s → t.2 <:+ s.2 := by
  induction r with
  | eps => intro s t h; simp [m] at h; subst h; exact List.suffix_refl _
  | chr c => intro s t h; exact step_suffix _ s t h
  | chrI c => intro s t h; exact step_suffix _ s t h
  | cls n is => intro s t h; exact step_suffix _ s t h
  | seq a b iha ihb =>
    intro s t h
    simp only [m, List.mem_flatMap] at h
    obtain ⟨u, hu, ht⟩ := h
    exact (ihb u t ht).trans (iha s u hu)
  | alt a b iha ihb =>
    intro s t h
    simp only [m, List.mem_append] at h
    rcases h with h | h
    · exact iha s t h
    · exact ihb s t h
  | star g r ih =>
    intro s t h
    exact starLoop_suffix g (m cc r) ih _ s t h
  | wordB n =>
    intro s t h
    simp only [m] at h
    split at h
    · simp at h; subst h; exact List.suffix_refl _
    · simp at h
  | ahead n r _ =>
    intro s t h
    simp only [m] at h
    split at h
    · simp at h; subst h; exact List.suffix_refl _
    · simp at h
  | behind n c is =>
    intro s t h
    simp only [m] at h
    split at h <;> split at h <;> simp at h <;> (subst h; exact List.suffix_refl _)

/-! ### the best match (`Hd`) and how it composes along the greedy path -/
/-- the first success of `r` at `s` is `t` -/
def Hd (cc : CharClasses) (r : R) (s t : St) : Prop := (m cc r s).head? = some t

theorem Hd.seq {cc a b s t u} (h1 : Hd cc a s t) (h2 : Hd cc b t u) : Hd cc (.seq a b) s u := by
  unfold Hd at *
  simp only [m]
  exact head_flatMap_of_head _ _ t u h1 h2

theorem Hd.alt_left {cc a b s t} (h : Hd cc a s t) : Hd cc (.alt a b) s t := by
  unfold Hd at *
  simp only [m]
  exact head_append_of_head _ _ _ h

theorem Hd.alt_right {cc a b s t} (h0 : m cc a s = []) (h : Hd cc b s t) : Hd cc (.alt a b) s t := by
  unfold Hd at *
  simp only [m, h0, List.nil_append]
  exact h

theorem Hd.eps {cc s} : Hd cc .eps s s := by simp [Hd, m]

theorem Hd.opt_some {cc r s t} (h : Hd cc r s t) : Hd cc (R.opt r) s t := Hd.alt_left h

theorem Hd.opt_none {cc r s} (h : m cc r s = []) : Hd cc (R.opt r) s s := Hd.alt_right h Hd.eps

theorem Hd.chr {cc c p t} : Hd cc (.chr c) (p, c :: t) (some c, t) := by simp [Hd, m, step]

theorem Hd.cls {cc n is p d t} (h : clsTest cc n is d = true) : Hd cc (.cls n is) (p, d :: t) (some d, t) := by
  simp [Hd, m, step, h]

theorem m_chr_ne {cc c p d t} (h : d ≠ c) : m cc (.chr c) (p, d :: t) = [] := by simp [m, step, h]
theorem m_chr_nil {cc c p} : m cc (.chr c) (p, []) = [] := by simp [m, step]
theorem m_cls_not {cc n is p d t} (h : clsTest cc n is d = false) : m cc (.cls n is) (p, d :: t) = [] := by
  simp [m, step, h]
theorem m_cls_nil {cc n is p} : m cc (.cls n is) (p, []) = [] := by simp [m, step]

theorem m_seq_nil_left {cc a b s} (h : m cc a s = []) : m cc (.seq a b) s = [] := by simp [m, h]

theorem Hd.pyMatch {cc r p rest t} (h : Hd cc r (p, rest) t) :
    pyMatch cc r p rest = some (rest.length - t.2.length) := by
  simp only [Re.pyMatch, pyMatchSt, Hd] at *
  rw [h]; rfl

/-! ### loops over one character class: all results, longest first -/
theorem lastOr_append (p : Option Char) (a b : List Char) : lastOr p (a ++ b) = lastOr (lastOr p a) b := by
  induction a generalizing p with
  | nil => rfl
  | cons c cs ih => simp [lastOr, ih]

theorem lastOr_cons_some (p : Option Char) (c : Char) (cs : List Char) : ∃ d, lastOr p (c :: cs) = some d := by
  induction cs generalizing p c with
  | nil => exact ⟨c, rfl⟩
  | cons e es ih => simpa [lastOr] using ih (some c) e

theorem lastOr_mem (p : Option Char) (l : List Char) (d : Char) (hl : l ≠ []) (h : lastOr p l = some d) : d ∈ l := by
  induction l generalizing p with
  | nil => exact absurd rfl hl
  | cons c cs ih =>
    cases cs with
    | nil => simp [lastOr] at h; simp [h]
    | cons e es =>
      simp only [lastOr] at h ih
      exact List.mem_cons_of_mem _ (ih (some c) (by simp) h)

/-- all ways to stop inside the run `ds`, longest first -/
def splits (p : Option Char) : List Char → List Char → List St
  | [], rest => [(p, rest)]
  | d :: ds, rest => splits (some d) ds rest ++ [(p, d :: (ds ++ rest))]

/-- `rest` does not continue a run of `P` characters -/
def Stops (P : Char → Bool) (rest : List Char) : Prop := ∀ c, rest.head? = some c → P c = false

theorem Stops.nil {P} : Stops P [] := by intro c h; simp at h
theorem Stops.cons {P c t} (h : P c = false) : Stops P (c :: t) := by
  intro d hd; simp at hd; subst hd; exact h

theorem step_stops {P : Char → Bool} {p rest} (h : Stops P rest) : step P (p, rest) = [] := by
  cases rest with
  | nil => rfl
  | cons c t => simp [step, h c rfl]

theorem m_star_cls (cc : CharClasses) (n : Bool) (is : List CItem) (ds rest : List Char)
    (hds : ∀ d ∈ ds, clsTest cc n is d = true) (hrest : Stops (clsTest cc n is) rest) :
    ∀ p, m cc (.star true (.cls n is)) (p, ds ++ rest) = splits p ds rest := by
  induction ds with
  | nil =>
    intro p
    rw [m_star]
    simp [m, step_stops hrest, splits]
  | cons d ds ih =>
    intro p
    rw [m_star]
    have hd : clsTest cc n is d = true := hds d (by simp)
    have hstep : m cc (.cls n is) (p, d :: ds ++ rest) = [(some d, ds ++ rest)] := by
      simp [m, step, hd]
    rw [hstep]
    simp only [List.filter_cons, List.length_cons, List.cons_append, Nat.lt_succ_self, decide_true, if_true,
      List.filter_nil, List.flatMap_cons, List.flatMap_nil, List.append_nil]
    rw [ih (fun x hx => hds x (by simp [hx])) (some d)]
    rfl

theorem m_plus_cls (cc : CharClasses) (n : Bool) (is : List CItem) (d : Char) (ds rest : List Char)
    (hd : clsTest cc n is d = true) (hds : ∀ x ∈ ds, clsTest cc n is x = true)
    (hrest : Stops (clsTest cc n is) rest) (p : Option Char) :
    m cc (R.plus (.cls n is)) (p, d :: (ds ++ rest)) = splits (some d) ds rest := by
  have := m_star_cls cc n is ds rest hds hrest (some d)
  simp only [R.plus, m, step, hd, if_true, List.flatMap_cons, List.flatMap_nil, List.append_nil] at this ⊢
  exact this

theorem m_plus_cls_fail (cc : CharClasses) (n : Bool) (is : List CItem) (p : Option Char) (rest : List Char)
    (hrest : Stops (clsTest cc n is) rest) : m cc (R.plus (.cls n is)) (p, rest) = [] := by
  simp [R.plus, m, step_stops hrest]

theorem splits_head (p : Option Char) (ds rest : List Char) :
    (splits p ds rest).head? = some (lastOr p ds, rest) := by
  induction ds generalizing p with
  | nil => rfl
  | cons d ds ih =>
    simp only [splits, lastOr]
    exact head_append_of_head _ _ _ (ih (some d))

/-- a member of `splits` stands before a character of the run or before `rest` -/
theorem mem_splits (p : Option Char) (ds rest : List Char) (x : St) (h : x ∈ splits p ds rest) :
    x.2 = rest ∨ ∃ d t, d ∈ ds ∧ x.2 = d :: t := by
  induction ds generalizing p with
  | nil => simp [splits] at h; left; simp [h]
  | cons d ds ih =>
    simp only [splits, List.mem_append, List.mem_singleton] at h
    rcases h with h | h
    · rcases ih (some d) h with h' | ⟨e, t, he, hx⟩
      · left; exact h'
      · right; exact ⟨e, t, by simp [he], hx⟩
    · right; exact ⟨d, ds ++ rest, by simp, by simp [h]⟩

/-- after a run, a continuation that fails both before `rest` and before run characters fails altogether -/
theorem splits_flatMap_nil (p : Option Char) (ds rest : List Char) (f : St → List St)
    (hrest : ∀ q, f (q, rest) = []) (hrun : ∀ q d t, d ∈ ds → f (q, d :: t) = []) :
    (splits p ds rest).flatMap f = [] := by
  apply flatMap_eq_nil_of
  intro x hx
  obtain ⟨q, l⟩ := x
  rcases mem_splits p ds rest (q, l) hx with h | ⟨d, t, hd, h⟩
  · simp at h; subst h; exact hrest q
  · simp at h; subst h; exact hrun q d t hd

theorem Hd.star_cls {cc n is ds rest p} (hds : ∀ d ∈ ds, clsTest cc n is d = true)
    (hrest : Stops (clsTest cc n is) rest) :
    Hd cc (.star true (.cls n is)) (p, ds ++ rest) (lastOr p ds, rest) := by
  unfold Hd
  rw [m_star_cls cc n is ds rest hds hrest p]
  exact splits_head p ds rest

theorem Hd.plus_cls {cc n is d ds rest p} (hd : clsTest cc n is d = true)
    (hds : ∀ x ∈ ds, clsTest cc n is x = true) (hrest : Stops (clsTest cc n is) rest) :
    Hd cc (R.plus (.cls n is)) (p, d :: (ds ++ rest)) (lastOr (some d) ds, rest) := by
  unfold Hd
  rw [m_plus_cls cc n is d ds rest hd hds hrest p]
  exact splits_head (some d) ds rest

end Re
