import TextxVerif.Proofs.Cli
/-!
Helper lemmas for C30 (deepening):
* every token list is the rendering of exactly one well-formed command line
  (`readItems`), so `WF` restricts nothing;
* the generation loop stops at the first file it does not get past, with the
  calls for the files before it (`genLoop_prefix`, `genLoop_head_stop`);
* the validation error names a real culprit;
* the whole `check` command in terms of `loads`.
-/
namespace Cli

/-! ## every token list is a command line -/

/-- the reading of a token list in the CLI's syntax (only used as a witness: the
theorems are stated with `render` and `WF`) -/
def readItems : List Str → List Item
  | [] => []
  | m :: rest =>
    if isSwitch m then
      match rest with
      | [] => [.arg (m.drop 2) none]
      | v :: rest' =>
        if isSwitch v then .arg (m.drop 2) none :: readItems (v :: rest')
        else .arg (m.drop 2) (some v) :: readItems rest'
    else .file m :: readItems rest
termination_by structural args => args

theorem switch_shape (m : Str) (h : isSwitch m = true) : m = '-' :: '-' :: m.drop 2 := by
  unfold isSwitch at h
  split at h
  · rfl
  · cases h

theorem readItems_nil : readItems [] = [] := by rw [readItems]

theorem readItems_file (m : Str) (rest : List Str) (h : isSwitch m = false) :
    readItems (m :: rest) = .file m :: readItems rest := by
  cases rest with
  | nil => simp [readItems, h]
  | cons v r => rw [readItems]; simp [h]

theorem readItems_flag_end (m : Str) (h : isSwitch m = true) :
    readItems [m] = [.arg (m.drop 2) none] := by
  rw [readItems]; simp [h]

theorem readItems_flag_switch (m v : Str) (rest : List Str) (h : isSwitch m = true) (hv : isSwitch v = true) :
    readItems (m :: v :: rest) = .arg (m.drop 2) none :: readItems (v :: rest) := by
  rw [readItems]; simp [h, hv]

theorem readItems_valued (m v : Str) (rest : List Str) (h : isSwitch m = true) (hv : isSwitch v = false) :
    readItems (m :: v :: rest) = .arg (m.drop 2) (some v) :: readItems rest := by
  rw [readItems]; simp [h, hv]

theorem readItems_head_switch (v : Str) (rest : List Str) (hv : isSwitch v = true) :
    ∃ n val r, readItems (v :: rest) = .arg n val :: r := by
  cases rest with
  | nil => exact ⟨_, _, _, readItems_flag_end v hv⟩
  | cons w rest' =>
    by_cases hw : isSwitch w = true
    · exact ⟨_, _, _, readItems_flag_switch v w rest' hv hw⟩
    · exact ⟨_, _, _, readItems_valued v w rest' hv (by simpa using hw)⟩

theorem readItems_spec (n : Nat) : ∀ args : List Str, args.length ≤ n →
    render (readItems args) = args ∧ WF (readItems args) := by
  induction n with
  | zero =>
    intro args h
    cases args with
    | nil => rw [readItems_nil]; exact ⟨rfl, trivial⟩
    | cons _ _ => simp at h
  | succ n ih =>
    intro args h
    cases args with
    | nil => rw [readItems_nil]; exact ⟨rfl, trivial⟩
    | cons m rest =>
      have hrest : rest.length ≤ n := by simp at h; omega
      by_cases hm : isSwitch m = true
      · have hshape := switch_shape m hm
        cases rest with
        | nil =>
          rw [readItems_flag_end m hm]
          refine ⟨?_, ?_⟩
          · simp only [render]; rw [← hshape]
          · simp [WF]
        | cons v rest' =>
          by_cases hv : isSwitch v = true
          · rw [readItems_flag_switch m v rest' hm hv]
            obtain ⟨h1, h2⟩ := ih (v :: rest') hrest
            refine ⟨?_, ?_, h2⟩
            · simp only [render]; rw [h1, ← hshape]
            · obtain ⟨a, b, c, e⟩ := readItems_head_switch v rest' hv
              rw [e]; trivial
          · have hv' : isSwitch v = false := by simpa using hv
            rw [readItems_valued m v rest' hm hv']
            have hrest' : rest'.length ≤ n := by simp at hrest; omega
            obtain ⟨h1, h2⟩ := ih rest' hrest'
            refine ⟨?_, hv', h2⟩
            simp only [render]; rw [h1, ← hshape]
      · have hm' : isSwitch m = false := by simpa using hm
        rw [readItems_file m rest hm']
        obtain ⟨h1, h2⟩ := ih rest hrest
        refine ⟨?_, hm', h2⟩
        simp only [render]; rw [h1]

/-- reading back the rendering of a well-formed command line gives the command line -/
theorem readItems_render (items : List Item) (hwf : WF items) : readItems (render items) = items := by
  induction items with
  | nil => simp [render, readItems_nil]
  | cons it r ih =>
    cases it with
    | file f =>
      obtain ⟨hf, hr⟩ := hwf
      simp only [render]
      rw [readItems_file _ _ hf, ih hr]
    | arg n v =>
      cases v with
      | some v =>
        obtain ⟨hv, hr⟩ := hwf
        simp only [render]
        rw [readItems_valued _ _ _ (isSwitch_dashes n) hv, ih hr]
        all_goals rfl
      | none =>
        obtain ⟨hnext, hr⟩ := hwf
        cases r with
        | nil =>
          simp only [render]
          rw [readItems_flag_end _ (isSwitch_dashes n)]
          all_goals rfl
        | cons it2 r2 =>
          cases it2 with
          | file f => exact absurd hnext (by simp)
          | arg n2 v2 =>
            have ih' := ih hr
            cases v2 with
            | none =>
              simp only [render] at ih' ⊢
              rw [readItems_flag_switch _ _ _ (isSwitch_dashes n) (isSwitch_dashes n2), ih']
              all_goals rfl
            | some w =>
              simp only [render] at ih' ⊢
              rw [readItems_flag_switch _ _ _ (isSwitch_dashes n) (isSwitch_dashes n2), ih']
              all_goals rfl

/-! ## validation: the reported error is true -/

theorem validate_missing_spec (ps : List Param) (given : List Str) (n : Str)
    (h : validate (some ps) given = some (.missing n)) :
    ∃ p ∈ ps, p.mandatory = true ∧ p.name = n ∧ n ∉ given := by
  unfold validate at h
  simp only at h
  split at h
  · rename_i p h1
    have hp := List.find?_some h1
    have hm := List.mem_of_find?_eq_some h1
    simp only [Bool.and_eq_true, Bool.not_eq_true', List.contains_eq_mem, decide_eq_false_iff_not] at hp
    simp only [Option.some.injEq, ArgErr.missing.injEq] at h
    exact ⟨p, hm, hp.1, h, by rw [← h]; exact hp.2⟩
  · split at h
    · simp at h
    · simp at h

theorem validate_undeclared_spec (ps : List Param) (given : List Str) (k : Str)
    (h : validate (some ps) given = some (.undeclared k)) :
    k ∈ given ∧ k ∉ ps.map (·.name) ∧ ∀ p ∈ ps, p.mandatory = true → p.name ∈ given := by
  unfold validate at h
  simp only at h
  split at h
  · simp at h
  · rename_i h1
    split at h
    · rename_i k' h2
      have hk := List.find?_some h2
      have hm := List.mem_of_find?_eq_some h2
      simp only [Bool.not_eq_true', List.contains_eq_mem, decide_eq_false_iff_not] at hk
      simp only [Option.some.injEq, ArgErr.undeclared.injEq] at h
      rw [List.find?_eq_none] at h1
      rw [← h]
      refine ⟨hm, hk, fun p hp hmand => ?_⟩
      have := h1 p hp
      simp only [Bool.and_eq_true, Bool.not_eq_true', List.contains_eq_mem, decide_eq_false_iff_not,
        not_and, Decidable.not_not] at this
      exact this hmand
    · simp at h

/-! ## the generation loop stops at the first file it does not get past -/

theorem genLoop_step_ok (env : Env) (ex : Option Str) (d : Dict) (f : Str) (rest : List Str)
    (calls : List Call) (h : Accepts env ex d f) :
    genLoop env ex d (f :: rest) calls =
      genLoop env ex d rest (calls ++ [{ file := some f, kwargs := d }]) := by
  obtain ⟨hres, lang, decl, hl, hg, hv⟩ := h
  have hone : generateOne env lang ex.isNone (some f) d = .ok { file := some f, kwargs := d } := by
    unfold generateOne; simp [hg, hv]
  rw [genLoop, hl]
  simp only [hres, hone]

theorem genLoop_prefix (env : Env) (ex : Option Str) (d : Dict) (pre rest : List Str) (calls : List Call)
    (hpre : ∀ g ∈ pre, Accepts env ex d g) :
    genLoop env ex d (pre ++ rest) calls =
      genLoop env ex d rest (calls ++ pre.map (fun g => { file := some g, kwargs := d })) := by
  induction pre generalizing calls with
  | nil => simp
  | cons f pre ih =>
    rw [List.cons_append, genLoop_step_ok env ex d f _ calls (hpre f List.mem_cons_self),
      ih _ (fun g hg => hpre g (List.mem_cons_of_mem _ hg))]
    simp

theorem genLoop_head_nolang (env : Env) (ex : Option Str) (d : Dict) (f : Str) (rest : List Str)
    (calls : List Call) (hl : langFor env ex f = none) :
    genLoop env ex d (f :: rest) calls = { exit := 1, calls := calls, fail := some .registration } := by
  rw [genLoop, hl]

theorem genLoop_head_noFile (env : Env) (ex : Option Str) (d : Dict) (f : Str) (rest : List Str)
    (calls : List Call) (lang : Str) (hl : langFor env ex f = some lang)
    (hres : (fileInfo env f).res = .noFile) :
    genLoop env ex d (f :: rest) calls = { exit := 1, calls := calls, fail := some .exception } := by
  rw [genLoop, hl]
  simp only [hres]

theorem genLoop_head_loadErr (env : Env) (ex : Option Str) (d : Dict) (f : Str) (rest : List Str)
    (calls : List Call) (lang : Str) (l c : Nat) (hl : langFor env ex f = some lang)
    (hres : (fileInfo env f).res = .loadErr l c) :
    genLoop env ex d (f :: rest) calls = { exit := 1, calls := calls, fail := some (.located f l c) } := by
  rw [genLoop, hl]
  simp only [hres]

theorem genLoop_head_nogen (env : Env) (ex : Option Str) (d : Dict) (f : Str) (rest : List Str)
    (calls : List Call) (lang : Str) (hl : langFor env ex f = some lang)
    (hres : (fileInfo env f).res = .ok) (hg : findGen env.gens lang ex.isNone = none) :
    genLoop env ex d (f :: rest) calls = { exit := 1, calls := calls, fail := some .registration } := by
  have hone : generateOne env lang ex.isNone (some f) d = .error .registration := by
    unfold generateOne; simp [hg]
  rw [genLoop, hl]
  simp only [hres, hone]

theorem genLoop_head_args (env : Env) (ex : Option Str) (d : Dict) (f : Str) (rest : List Str)
    (calls : List Call) (lang : Str) (decl : Option (List Param)) (e : ArgErr)
    (hl : langFor env ex f = some lang) (hres : (fileInfo env f).res = .ok)
    (hg : findGen env.gens lang ex.isNone = some decl) (hv : validate decl (dkeys d) = some e) :
    genLoop env ex d (f :: rest) calls = { exit := 1, calls := calls, fail := some (.args e) } := by
  have hone : generateOne env lang ex.isNone (some f) d = .error (.args e) := by
    unfold generateOne; simp [hg, hv]
  rw [genLoop, hl]
  simp only [hres, hone]

/-- why the loop stops at file `f` -/
inductive StopsWith (env : Env) (ex : Option Str) (d : Dict) (f : Str) : Fail → Prop
  | nolang : langFor env ex f = none → StopsWith env ex d f .registration
  | noFile (lang : Str) : langFor env ex f = some lang → (fileInfo env f).res = .noFile →
      StopsWith env ex d f .exception
  | loadErr (lang : Str) (l c : Nat) : langFor env ex f = some lang → (fileInfo env f).res = .loadErr l c →
      StopsWith env ex d f (.located f l c)
  | nogen (lang : Str) : langFor env ex f = some lang → (fileInfo env f).res = .ok →
      findGen env.gens lang ex.isNone = none → StopsWith env ex d f .registration
  | args (lang : Str) (decl : Option (List Param)) (e : ArgErr) : langFor env ex f = some lang →
      (fileInfo env f).res = .ok → findGen env.gens lang ex.isNone = some decl →
      validate decl (dkeys d) = some e → StopsWith env ex d f (.args e)

theorem genLoop_head_stop (env : Env) (ex : Option Str) (d : Dict) (f : Str) (rest : List Str)
    (calls : List Call) (hna : ¬ Accepts env ex d f) :
    ∃ e, StopsWith env ex d f e ∧
      genLoop env ex d (f :: rest) calls = { exit := 1, calls := calls, fail := some e } := by
  cases hl : langFor env ex f with
  | none => exact ⟨_, .nolang hl, genLoop_head_nolang env ex d f rest calls hl⟩
  | some lang =>
    cases hres : (fileInfo env f).res with
    | noFile => exact ⟨_, .noFile lang hl hres, genLoop_head_noFile env ex d f rest calls lang hl hres⟩
    | loadErr l c =>
      exact ⟨_, .loadErr lang l c hl hres, genLoop_head_loadErr env ex d f rest calls lang l c hl hres⟩
    | ok =>
      cases hg : findGen env.gens lang ex.isNone with
      | none => exact ⟨_, .nogen lang hl hres hg, genLoop_head_nogen env ex d f rest calls lang hl hres hg⟩
      | some decl =>
        cases hv : validate decl (dkeys d) with
        | none => exact absurd ⟨hres, lang, decl, hl, hg, hv⟩ hna
        | some e =>
          exact ⟨_, .args lang decl e hl hres hg hv,
            genLoop_head_args env ex d f rest calls lang decl e hl hres hg hv⟩

/-! ## the whole `check` command -/

/-- is the metamodel given on the command line (`--grammar` / `--language`) -/
def Mode.explicit : Mode → Bool
  | .byPattern => false
  | _ => true

/-- does the metamodel selection succeed (only an unregistered `--language` fails) -/
def Mode.usable : Mode → Bool
  | .byLanguage _ false => false
  | _ => true

theorem runCheck_eq (env : Env) (files : List Str) :
    runCheck env files =
      if env.mode.usable then checkLoop env env.mode.explicit files []
      else { exit := 1, msgs := [.error .registration] } := by
  unfold runCheck
  split <;> rename_i h <;> simp [h, Mode.usable, Mode.explicit]

theorem loads_iff (env : Env) (explicit : Bool) (f : Str) :
    loads env explicit f = true ↔
      (explicit = true ∨ ∃ l, (fileInfo env f).lang = some l) ∧ (fileInfo env f).res = .ok := by
  unfold loads
  cases explicit <;> cases (fileInfo env f).lang <;> simp

end Cli
