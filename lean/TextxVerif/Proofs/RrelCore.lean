import TextxVerif.RrelCore
/-!
Lemmas about `toCore` (object tree → evaluation calculus):

* the node identities of the result are exactly `i, i+1, …, j-1` in preorder
  (`core*_ids`), hence pairwise distinct (`toCore_ids`, `toCore_nodup`);
* every tree with the shape of an RREL expression (`gwfExpr`, any condition on the
  fixed names) has a core (`toCore_isSome`).
-/
namespace RrelSyntax
open Rrel

theorem range'_two {i k : Nat} (h : i + 2 ≤ k) :
    i :: (i + 1) :: List.range' (i + 2) (k - (i + 2)) = List.range' i (k - i) := by
  have h1 : k - i = (k - (i + 2)) + 1 + 1 := by omega
  rw [h1, List.range'_succ, List.range'_succ]

theorem range'_glue {i k j : Nat} (h1 : i ≤ k) (h2 : k ≤ j) :
    List.range' i (k - i) ++ List.range' k (j - k) = List.range' i (j - i) := by
  have h3 : List.range' k (j - k) = List.range' (i + (k - i)) (j - k) := by
    congr 1; omega
  rw [h3, List.range'_append_1]
  congr 1; omega

mutual
theorem coreElem_ids : ∀ (x : Elem) (i : Nat) (c : E) (j : Nat), coreElem i x = some (c, j) →
    i < j ∧ c.ids = List.range' i (j - i)
  | .parent t, i, c, j, h => by
    simp only [coreElem, Option.some.injEq, Prod.mk.injEq] at h
    obtain ⟨rfl, rfl⟩ := h
    simp [E.ids]
  | .dots n, i, c, j, h => by
    simp only [coreElem, Option.some.injEq, Prod.mk.injEq] at h
    obtain ⟨rfl, rfl⟩ := h
    simp [E.ids]
  | .nav n cn f, i, c, j, h => by
    simp only [coreElem, Option.map_eq_some_iff, Prod.mk.injEq] at h
    obtain ⟨m, _, rfl, rfl⟩ := h
    simp [E.ids]
  | .brackets s, i, c, j, h => by
    simp only [coreElem, Option.map_eq_some_iff, Prod.mk.injEq] at h
    obtain ⟨⟨b, k⟩, hr, rfl, rfl⟩ := h
    obtain ⟨h1, h2⟩ := coreAlts_ids s (i + 2) b k hr
    refine ⟨by omega, ?_⟩
    simp only [E.ids, h2]
    exact range'_two (by omega)
  | .star s, i, c, j, h => by
    simp only [coreElem, Option.map_eq_some_iff, Prod.mk.injEq] at h
    obtain ⟨⟨b, k⟩, hr, rfl, rfl⟩ := h
    obtain ⟨h1, h2⟩ := coreAlts_ids s (i + 2) b k hr
    refine ⟨by omega, ?_⟩
    simp only [E.ids, h2]
    exact range'_two (by omega)
theorem coreCat_ids : ∀ (es : List Elem) (i : Nat) (c : E) (j : Nat), coreCat i es = some (c, j) →
    i < j ∧ c.ids = List.range' i (j - i)
  | [], i, c, j, h => by simp [coreCat] at h
  | e :: es, i, c, j, h => by
    simp only [coreCat] at h
    cases ha : coreElem i e with
    | none => simp [ha] at h
    | some a =>
      obtain ⟨a1, a2⟩ := a
      obtain ⟨h1, h2⟩ := coreElem_ids e i a1 a2 ha
      simp only [ha] at h
      cases es with
      | nil =>
        simp only [Option.some.injEq, Prod.mk.injEq] at h
        obtain ⟨rfl, rfl⟩ := h
        exact ⟨h1, h2⟩
      | cons e' es' =>
        simp only [Option.map_eq_some_iff, Prod.mk.injEq] at h
        obtain ⟨⟨b1, b2⟩, hb, rfl, rfl⟩ := h
        obtain ⟨h3, h4⟩ := coreCat_ids (e' :: es') a2 b1 b2 hb
        refine ⟨by omega, ?_⟩
        simp only [E.ids, h2, h4]
        exact range'_glue (by omega) (by omega)
theorem coreAlts_ids : ∀ (ps : List (List Elem)) (i : Nat) (c : E) (j : Nat),
    coreAlts i ps = some (c, j) → i < j ∧ c.ids = List.range' i (j - i)
  | [], i, c, j, h => by simp [coreAlts] at h
  | p :: ps, i, c, j, h => by
    simp only [coreAlts] at h
    cases ha : coreCat i p with
    | none => simp [ha] at h
    | some a =>
      obtain ⟨a1, a2⟩ := a
      obtain ⟨h1, h2⟩ := coreCat_ids p i a1 a2 ha
      simp only [ha] at h
      cases ps with
      | nil =>
        simp only [Option.some.injEq, Prod.mk.injEq] at h
        obtain ⟨rfl, rfl⟩ := h
        exact ⟨h1, h2⟩
      | cons p' ps' =>
        simp only [Option.map_eq_some_iff, Prod.mk.injEq] at h
        obtain ⟨⟨b1, b2⟩, hb, rfl, rfl⟩ := h
        obtain ⟨h3, h4⟩ := coreAlts_ids (p' :: ps') a2 b1 b2 hb
        refine ⟨by omega, ?_⟩
        simp only [E.ids, h2, h4]
        exact range'_glue (by omega) (by omega)
end

theorem coreTop_ids : ∀ (ps : List (List Elem)) (i : Nat) (l : List E), coreTop i ps = some l →
    ∃ j, i ≤ j ∧ l.flatMap E.ids = List.range' i (j - i)
  | [], i, l, h => by
    simp only [coreTop, Option.some.injEq] at h
    subst h
    exact ⟨i, Nat.le_refl _, by simp⟩
  | p :: ps, i, l, h => by
    simp only [coreTop] at h
    cases ha : coreCat i p with
    | none => simp [ha] at h
    | some a =>
      obtain ⟨a1, a2⟩ := a
      obtain ⟨h1, h2⟩ := coreCat_ids p i a1 a2 ha
      simp only [ha, Option.map_eq_some_iff] at h
      obtain ⟨r, hr, rfl⟩ := h
      obtain ⟨j, h3, h4⟩ := coreTop_ids ps a2 r hr
      refine ⟨j, by omega, ?_⟩
      simp only [List.flatMap_cons, h2, h4]
      exact range'_glue (by omega) h3

/-- the node identities of the core of an expression tree are `0 … n-1`, in preorder -/
theorem toCore_ids (e : Expr) (ps : List E) (h : toCore e = some ps) :
    ∃ n, ps.flatMap E.ids = List.range n := by
  obtain ⟨j, _, hj⟩ := coreTop_ids e.seq 0 ps h
  exact ⟨j, by rw [hj, List.range_eq_range']; simp⟩

/-- … hence pairwise distinct -/
theorem toCore_nodup (e : Expr) (ps : List E) (h : toCore e = some ps) :
    (ps.flatMap E.ids).Nodup := by
  obtain ⟨n, hn⟩ := toCore_ids e ps h
  rw [hn]
  exact List.nodup_range

/-! ### every RREL expression has a core -/

theorem modeOf_isSome {okf : Str → Bool} (c : Bool) (f : Option Str) (h : (match f with | none => true | some fx => !c && okf fx) = true) :
    (modeOf c f).isSome = true := by
  cases f with
  | none => cases c <;> rfl
  | some fx =>
    cases c with
    | true => simp at h
    | false => rfl

mutual
theorem coreElem_isSome {cc : CC} {okf : Str → Bool} : ∀ (x : Elem), gwfElem cc okf x = true →
    ∀ i, (coreElem i x).isSome = true
  | .parent _, _, i => by simp [coreElem]
  | .dots _, _, i => by simp [coreElem]
  | .nav n c f, h, i => by
    simp only [gwfElem, Bool.and_eq_true] at h
    simp only [coreElem, Option.isSome_map]
    exact modeOf_isSome (okf := okf) c f h.2
  | .brackets s, h, i => by
    simp only [gwfElem, Bool.and_eq_true, Bool.not_eq_true', List.isEmpty_eq_false_iff] at h
    simp only [coreElem, Option.isSome_map]
    exact coreAlts_isSome s h.1 h.2 (i + 2)
  | .star s, h, i => by
    simp only [gwfElem, Bool.and_eq_true, Bool.not_eq_true', List.isEmpty_eq_false_iff] at h
    simp only [coreElem, Option.isSome_map]
    exact coreAlts_isSome s h.1 h.2 (i + 2)
theorem coreTail_isSome {cc : CC} {okf : Str → Bool} : ∀ (es : List Elem), gwfTail cc okf es = true →
    es ≠ [] → ∀ i, (coreCat i es).isSome = true
  | [], _, hne, _ => absurd rfl hne
  | e :: es, h, _, i => by
    simp only [gwfTail, Bool.and_eq_true] at h
    have h1 := coreElem_isSome e h.1.2 i
    simp only [coreCat]
    cases ha : coreElem i e with
    | none => simp [ha] at h1
    | some a =>
      cases es with
      | nil => simp
      | cons e' es' =>
        simp only [Option.isSome_map]
        exact coreTail_isSome (e' :: es') h.2 (by simp) a.2
theorem coreCat_isSome {cc : CC} {okf : Str → Bool} : ∀ (es : List Elem), gwfPath cc okf es = true →
    ∀ i, (coreCat i es).isSome = true
  | [], h, _ => by simp [gwfPath] at h
  | e :: es, h, i => by
    simp only [gwfPath, Bool.and_eq_true] at h
    have h1 := coreElem_isSome e h.1 i
    simp only [coreCat]
    cases ha : coreElem i e with
    | none => simp [ha] at h1
    | some a =>
      cases es with
      | nil => simp
      | cons e' es' =>
        simp only [Option.isSome_map]
        exact coreTail_isSome (e' :: es') h.2 (by simp) a.2
theorem coreAlts_isSome {cc : CC} {okf : Str → Bool} : ∀ (ps : List (List Elem)),
    gwfPaths cc okf ps = true → ps ≠ [] → ∀ i, (coreAlts i ps).isSome = true
  | [], _, hne, _ => absurd rfl hne
  | p :: ps, h, _, i => by
    simp only [gwfPaths, Bool.and_eq_true] at h
    have h1 := coreCat_isSome p h.1 i
    simp only [coreAlts]
    cases ha : coreCat i p with
    | none => simp [ha] at h1
    | some a =>
      cases ps with
      | nil => simp
      | cons p' ps' =>
        simp only [Option.isSome_map]
        exact coreAlts_isSome (p' :: ps') h.2 (by simp) a.2
end

theorem coreTop_isSome {cc : CC} {okf : Str → Bool} : ∀ (ps : List (List Elem)),
    gwfPaths cc okf ps = true → ∀ i, (coreTop i ps).isSome = true
  | [], _, _ => by simp [coreTop]
  | p :: ps, h, i => by
    simp only [gwfPaths, Bool.and_eq_true] at h
    have h1 := coreCat_isSome p h.1 i
    simp only [coreTop]
    cases ha : coreCat i p with
    | none => simp [ha] at h1
    | some a =>
      simp only [Option.isSome_map]
      exact coreTop_isSome ps h.2 a.2

/-- a tree with the shape of an RREL expression has a core (whatever is demanded of its fixed names) -/
theorem toCore_isSome {cc : CC} {okf : Str → Bool} (e : Expr) (h : gwfExpr cc okf e = true) :
    (toCore e).isSome = true := by
  simp only [gwfExpr, gwfSeq, Bool.and_eq_true] at h
  exact coreTop_isSome e.seq h.2.1 0

/-- the core of a non-empty sequence is non-empty -/
theorem coreTop_ne_nil : ∀ (ps : List (List Elem)) (i : Nat) (l : List E), coreTop i ps = some l →
    ps ≠ [] → l ≠ []
  | [], _, _, _, hne => absurd rfl hne
  | p :: ps, i, l, h, _ => by
    simp only [coreTop] at h
    cases ha : coreCat i p with
    | none => simp [ha] at h
    | some a =>
      simp only [ha, Option.map_eq_some_iff] at h
      obtain ⟨r, _, rfl⟩ := h
      simp

end RrelSyntax
