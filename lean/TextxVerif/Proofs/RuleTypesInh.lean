import TextxVerif.Proofs.RuleTypes
/-!
Helper lemmas for C03, part 2: the inheritance walk (`addRef`) against `FirstNM`,
and `textx_isinstance` (`dfs` with its visited set) against reachability.
-/
namespace RuleTypes

/-! ### inversion of `FirstNM` -/

theorem firstNM_lit {k : Kinds} {o : Option Nat} : FirstNM k .lit o ↔ o = none := by
  constructor
  · intro h; cases h; rfl
  · intro h; subst h; exact .lit

theorem firstNM_ref {k : Kinds} {r : Nat} {o : Option Nat} :
    FirstNM k (.ref r) o ↔ (k r ≠ .mtch ∧ o = some r) ∨ (k r = .mtch ∧ o = none) := by
  constructor
  · intro h
    cases h with
    | refNM h => exact Or.inl ⟨h, rfl⟩
    | refM h => exact Or.inr ⟨h, rfl⟩
  · rintro (⟨h, rfl⟩ | ⟨h, rfl⟩)
    · exact .refNM h
    · exact .refM h

theorem firstNM_seq_nil {k : Kinds} {o : Option Nat} : FirstNM k (.seq []) o ↔ o = none := by
  constructor
  · intro h; cases h; rfl
  · intro h; subst h; exact .seqNil

theorem firstNM_seq_cons {k : Kinds} {x : Body} {xs : List Body} {o : Option Nat} :
    FirstNM k (.seq (x :: xs)) o ↔
      (∃ s, o = some s ∧ FirstNM k x (some s)) ∨ (FirstNM k x none ∧ FirstNM k (.seq xs) o) := by
  constructor
  · intro h
    cases h with
    | seqHead h => exact Or.inl ⟨_, rfl, h⟩
    | seqTail h1 h2 => exact Or.inr ⟨h1, h2⟩
  · rintro (⟨s, rfl, h⟩ | ⟨h1, h2⟩)
    · exact .seqHead h
    · exact .seqTail h1 h2

theorem firstNM_choice_nil {k : Kinds} {o : Option Nat} : ¬ FirstNM k (.choice []) o := by
  intro h
  cases h with
  | choice hm _ => cases hm

theorem firstNM_choice_cons {k : Kinds} {x : Body} {xs : List Body} {o : Option Nat} :
    FirstNM k (.choice (x :: xs)) o ↔ FirstNM k x o ∨ FirstNM k (.choice xs) o := by
  constructor
  · intro h
    cases h with
    | choice hm h =>
      rcases List.mem_cons.mp hm with rfl | hm'
      · exact Or.inl h
      · exact Or.inr (.choice hm' h)
  · rintro (h | h)
    · exact .choice (List.mem_cons_self ..) h
    · cases h with
      | choice hm h => exact .choice (List.mem_cons_of_mem _ hm) h

/-! ### the walk computes `FirstNM` -/

/-- result of a walk over `b` started with the list `acc` -/
structure WalkSpec (k : Kinds) (b : Body) (acc : List Nat) (res : List Nat × Bool) : Prop where
  mem : ∀ x, x ∈ res.1 ↔ x ∈ acc ∨ FirstNM k b (some x)
  stop : res.2 = true ↔ ¬ FirstNM k b none
  nodup : acc.Nodup → res.1.Nodup

mutual
theorem addRef_spec (k : Kinds) : ∀ (b : Body) (acc : List Nat), b.documented = true →
    WalkSpec k b acc (addRef k b acc)
  | .lit, acc, _ => by
    simp only [addRef]
    exact ⟨fun x => by simp [firstNM_lit], by simp [firstNM_lit], fun h => h⟩
  | .ref r, acc, _ => by
    simp only [addRef]
    by_cases hk : k r = .mtch
    · simp only [hk, ne_eq, not_true, if_false]
      exact ⟨fun x => by simp [firstNM_ref, hk], by simp [firstNM_ref, hk], fun h => h⟩
    · simp only [ne_eq, hk, not_false_eq_true, if_true]
      refine ⟨?_, by simp [firstNM_ref, hk], ?_⟩
      · intro x
        by_cases hr : r ∈ acc
        · simp only [hr, if_true, firstNM_ref, hk, ne_eq, not_false_eq_true, Option.some.injEq, true_and,
            false_and, or_false]
          constructor
          · exact Or.inl
          · rintro (h | h)
            · exact h
            · subst h; exact hr
        · simp only [hr, if_false, List.mem_append, List.mem_singleton, firstNM_ref, hk, ne_eq,
            not_false_eq_true, Option.some.injEq, true_and, false_and, or_false]
      · intro hn
        by_cases hr : r ∈ acc
        · simpa [hr] using hn
        · simp only [hr, if_false]
          rw [List.nodup_append]
          refine ⟨hn, by simp, ?_⟩
          intro a ha b hb
          simp only [List.mem_singleton] at hb
          subst hb
          intro hab; subst hab; exact hr ha
  | .seq xs, acc, hd => by
    simp only [addRef]
    exact addSeq_spec k xs acc (by simpa [Body.documented] using hd)
  | .choice xs, acc, hd => by
    simp only [addRef]
    exact addChoice_spec k xs acc (by simpa [Body.documented] using hd)
  | .other _, _, hd => by simp [Body.documented] at hd
theorem addSeq_spec (k : Kinds) : ∀ (xs : List Body) (acc : List Nat), documentedL xs = true →
    WalkSpec k (.seq xs) acc (addSeq k xs acc)
  | [], acc, _ => by
    simp only [addSeq]
    exact ⟨fun x => by simp [firstNM_seq_nil], by simp [firstNM_seq_nil], fun h => h⟩
  | x :: xs, acc, hd => by
    simp only [documentedL, Bool.and_eq_true] at hd
    have hx := addRef_spec k x acc hd.1
    rcases hres : addRef k x acc with ⟨acc1, b⟩
    rw [hres] at hx
    cases b with
    | true =>
      simp only [addSeq, hres]
      have hnone : ¬ FirstNM k x none := hx.stop.mp rfl
      refine ⟨?_, ?_, hx.nodup⟩
      · intro y
        rw [hx.mem y, firstNM_seq_cons]
        constructor
        · rintro (h | h)
          · exact Or.inl h
          · exact Or.inr (Or.inl ⟨y, rfl, h⟩)
        · rintro (h | ⟨s, hs, h⟩ | ⟨h, _⟩)
          · exact Or.inl h
          · cases hs; exact Or.inr h
          · exact absurd h hnone
      · simp only [true_iff, firstNM_seq_cons]
        rintro (⟨s, hs, _⟩ | ⟨h, _⟩)
        · cases hs
        · exact hnone h
    | false =>
      simp only [addSeq, hres]
      have hnone : FirstNM k x none := by
        apply Classical.byContradiction
        intro h
        have := hx.stop.mpr h
        cases this
      have hrest := addSeq_spec k xs acc1 hd.2
      refine ⟨?_, ?_, fun h => hrest.nodup (hx.nodup h)⟩
      · intro y
        rw [hrest.mem y, hx.mem y, firstNM_seq_cons]
        constructor
        · rintro ((h | h) | h)
          · exact Or.inl h
          · exact Or.inr (Or.inl ⟨y, rfl, h⟩)
          · exact Or.inr (Or.inr ⟨hnone, h⟩)
        · rintro (h | ⟨s, hs, h⟩ | ⟨_, h⟩)
          · exact Or.inl (Or.inl h)
          · cases hs; exact Or.inl (Or.inr h)
          · exact Or.inr h
      · rw [hrest.stop, firstNM_seq_cons]
        constructor
        · rintro h (⟨s, hs, _⟩ | ⟨_, h'⟩)
          · cases hs
          · exact h h'
        · intro h h'
          exact h (Or.inr ⟨hnone, h'⟩)
theorem addChoice_spec (k : Kinds) : ∀ (xs : List Body) (acc : List Nat), documentedL xs = true →
    WalkSpec k (.choice xs) acc (addChoice k xs acc)
  | [], acc, _ => by
    simp only [addChoice]
    exact ⟨fun x => by simp [firstNM_choice_nil], by simp [firstNM_choice_nil], fun h => h⟩
  | x :: xs, acc, hd => by
    simp only [documentedL, Bool.and_eq_true] at hd
    have hx := addRef_spec k x acc hd.1
    rcases hres : addRef k x acc with ⟨acc1, b1⟩
    rw [hres] at hx
    have hrest := addChoice_spec k xs acc1 hd.2
    rcases hres2 : addChoice k xs acc1 with ⟨acc2, b2⟩
    rw [hres2] at hrest
    simp only [addChoice, hres, hres2]
    refine ⟨?_, ?_, fun h => hrest.nodup (hx.nodup h)⟩
    · intro y
      rw [hrest.mem y, hx.mem y, firstNM_choice_cons]
      simp only [or_assoc]
    · have h1 := hx.stop
      have h2 := hrest.stop
      simp only at h1 h2
      rw [Bool.and_eq_true, h1, h2, firstNM_choice_cons]
      constructor
      · rintro ⟨a, b⟩ (h | h)
        · exact a h
        · exact b h
      · intro h
        exact ⟨fun h' => h (Or.inl h'), fun h' => h (Or.inr h')⟩
end

/-- everything the walk lists is referenced in the body (all operators) -/
theorem addRef_sub (k : Kinds) : ∀ (b : Body) (acc : List Nat),
    ∀ x ∈ (addRef k b acc).1, x ∈ acc ∨ x ∈ b.refs := by
  intro b
  induction b using Body.rec (motive_2 := fun xs =>
      (∀ acc, ∀ x ∈ (addSeq k xs acc).1, x ∈ acc ∨ x ∈ refsL xs) ∧
      (∀ acc, ∀ x ∈ (addChoice k xs acc).1, x ∈ acc ∨ x ∈ refsL xs)) with
  | lit => intro acc x hx; simp only [addRef] at hx; exact Or.inl hx
  | ref r =>
    intro acc x hx
    simp only [addRef] at hx
    by_cases hk : k r = .mtch
    · simp only [hk, ne_eq, not_true, if_false] at hx; exact Or.inl hx
    · simp only [ne_eq, hk, not_false_eq_true, if_true] at hx
      by_cases hr : r ∈ acc
      · simp only [hr, if_true] at hx; exact Or.inl hx
      · simp only [hr, if_false, List.mem_append, List.mem_singleton] at hx
        rcases hx with h | h
        · exact Or.inl h
        · exact Or.inr (by simp [Body.refs, h])
  | seq xs ih => intro acc x hx; simp only [addRef] at hx; simpa [Body.refs] using ih.1 acc x hx
  | choice xs ih => intro acc x hx; simp only [addRef] at hx; simpa [Body.refs] using ih.2 acc x hx
  | other xs ih => intro acc x hx; simp only [addRef] at hx; simpa [Body.refs] using ih.1 acc x hx
  | nil =>
    constructor
    · intro acc x hx; simp only [addSeq] at hx; exact Or.inl hx
    · intro acc x hx; simp only [addChoice] at hx; exact Or.inl hx
  | cons b bs ihb ihbs =>
    constructor
    · intro acc x hx
      simp only [addSeq] at hx
      rcases hres : addRef k b acc with ⟨acc1, s⟩
      rw [hres] at hx
      have hb := ihb acc
      rw [hres] at hb
      cases s with
      | true =>
        rcases hb x hx with h | h
        · exact Or.inl h
        · exact Or.inr (by simp [refsL, h])
      | false =>
        simp only at hx
        rcases ihbs.1 acc1 x hx with h | h
        · rcases hb x h with h' | h'
          · exact Or.inl h'
          · exact Or.inr (by simp [refsL, h'])
        · exact Or.inr (by simp [refsL, h])
    · intro acc x hx
      simp only [addChoice] at hx
      rcases hres : addRef k b acc with ⟨acc1, s⟩
      rw [hres] at hx
      have hb := ihb acc
      rw [hres] at hb
      rcases hres2 : addChoice k bs acc1 with ⟨acc2, s2⟩
      rw [hres2] at hx
      have h2 := ihbs.2 acc1
      rw [hres2] at h2
      simp only at hx
      rcases h2 x hx with h | h
      · rcases hb x h with h' | h'
        · exact Or.inl h'
        · exact Or.inr (by simp [refsL, h'])
      · exact Or.inr (by simp [refsL, h])

theorem inhBy_sub (g : Gram) (k : Kinds) (R : Nat) (rule : Rule) (hR : g[R]? = some rule) :
    ∀ x ∈ inhBy g k R, x ∈ rule.body.refs := by
  intro x hx
  unfold inhBy at hx
  rw [hR] at hx
  simp only at hx
  by_cases hk : k R = .abstr
  · simp only [hk, if_true] at hx
    cases hb : rule.body with
    | ref t => rw [hb] at hx; simpa [Body.refs] using hx
    | lit => rw [hb] at hx; simp [addRef] at hx
    | seq xs =>
      rw [hb] at hx
      rcases addRef_sub k (.seq xs) [] x hx with h | h
      · cases h
      · exact h
    | choice xs =>
      rw [hb] at hx
      rcases addRef_sub k (.choice xs) [] x hx with h | h
      · cases h
      · exact h
    | other xs =>
      rw [hb] at hx
      rcases addRef_sub k (.other xs) [] x hx with h | h
      · cases h
      · exact h
  · simp [hk] at hx

theorem inhBy_lt (g : Gram) (hwf : WF g) (k : Kinds) (R : Nat) : ∀ x ∈ inhBy g k R, x < g.length := by
  intro x hx
  cases hR : g[R]? with
  | none => simp [inhBy, hR] at hx
  | some rule => exact hwf.ref_lt hR (inhBy_sub g k R rule hR x hx)

/-- the inheritance list of a rule with a documented body is the set of its
`FirstNM` references, without repetition -/
theorem inhBy_spec (g : Gram) (k : Kinds) (hk : KindSpec g k) (R : Nat) (rule : Rule)
    (hR : g[R]? = some rule) (hdoc : rule.body.documented = true) :
    (∀ S, S ∈ inhBy g k R ↔ Edge g k R S) ∧ (inhBy g k R).Nodup := by
  unfold inhBy Edge
  rw [hR]
  simp only [Option.some.injEq, exists_eq_left']
  by_cases hab : k R = .abstr
  · simp only [hab, if_true, true_and]
    cases hb : rule.body with
    | ref t =>
      have hkt : k t ≠ .mtch := by
        have hnm := ((hk R).2.1.mp hab).2
        have hno := ((hk R).2.1.mp hab).1
        cases hnm with
        | attrs hr ha =>
          rw [hR] at hr; cases hr
          obtain ⟨rule', hr', ha'⟩ := hno
          rw [hR] at hr'; cases hr'
          rw [ha] at ha'; cases ha'
        | ref hr hs hn =>
          rw [hR] at hr; cases hr
          rw [hb] at hs
          simp only [Body.refs, List.mem_singleton] at hs
          subst hs
          intro hm
          exact (hk _).2.2.mp hm hn
      refine ⟨fun S => ?_, by simp⟩
      simp only [List.mem_singleton, firstNM_ref, hkt, ne_eq, not_false_eq_true, Option.some.injEq,
        true_and, false_and, or_false]
    | lit =>
      have := addRef_spec k .lit [] rfl
      exact ⟨fun S => by simpa using this.mem S, this.nodup List.nodup_nil⟩
    | seq xs =>
      rw [hb] at hdoc
      have := addRef_spec k (.seq xs) [] hdoc
      exact ⟨fun S => by simpa using this.mem S, this.nodup List.nodup_nil⟩
    | choice xs =>
      rw [hb] at hdoc
      have := addRef_spec k (.choice xs) [] hdoc
      exact ⟨fun S => by simpa using this.mem S, this.nodup List.nodup_nil⟩
    | other xs => rw [hb] at hdoc; simp [Body.documented] at hdoc
  · simp [hab]

/-! ### `textx_isinstance`: depth-first search with a visited set -/

/-- `b` is reached from `a` along inheritance-list entries (zero or more steps) -/
inductive Path (inh : Nat → List Nat) : Nat → Nat → Prop
  | refl (a : Nat) : Path inh a a
  | step {a y b : Nat} : y ∈ inh a → Path inh y b → Path inh a b

structure LPost (inh : Nat → List Nat) (tgt : Nat) (cs seen : List Nat) (res : Bool × List Nat) : Prop where
  mono : ∀ x, x ∈ seen → x ∈ res.2
  tru : res.1 = true → ∃ c, c ∈ cs ∧ Path inh c tgt
  fls : res.1 = false → (∀ c, c ∈ cs → c ∈ res.2) ∧
    ∀ x, x ∈ res.2 → x ∉ seen → x ≠ tgt ∧ ∀ y, y ∈ inh x → y ∈ res.2

def DfsOK (inh : Nat → List Nat) (tgt n f : Nat) (rec : Nat → List Nat → Bool × List Nat) : Prop :=
  ∀ c seen, c < n → c ∉ seen → unv n seen ≤ f → LPost inh tgt [c] seen (rec c seen)

theorem dfsL_post (inh : Nat → List Nat) (tgt n f : Nat) (rec : Nat → List Nat → Bool × List Nat)
    (hrec : DfsOK inh tgt n f rec) :
    ∀ (cs seen : List Nat), (∀ c, c ∈ cs → c < n) → unv n seen ≤ f →
      LPost inh tgt cs seen (dfsL rec cs seen)
  | [], seen, _, _ => by
    simp only [dfsL]
    exact ⟨fun _ h => h, (fun h => by cases h), fun _ => ⟨(fun c h => by cases h), fun x h1 h2 => absurd h1 h2⟩⟩
  | c :: cs, seen, hcs, hu => by
    simp only [dfsL]
    by_cases hc : c ∈ seen
    · rw [if_pos hc]
      have ih := dfsL_post inh tgt n f rec hrec cs seen (fun x h => hcs x (by simp [h])) hu
      refine ⟨ih.mono, ?_, ?_⟩
      · intro h
        obtain ⟨d, hd, hp⟩ := ih.tru h
        exact ⟨d, by simp [hd], hp⟩
      · intro h
        refine ⟨?_, (ih.fls h).2⟩
        intro d hd
        rcases List.mem_cons.mp hd with rfl | hd'
        · exact ih.mono _ hc
        · exact (ih.fls h).1 d hd'
    · rw [if_neg hc]
      have h1 := hrec c seen (hcs c (by simp)) hc hu
      rcases hres : rec c seen with ⟨b, seen1⟩
      rw [hres] at h1
      cases b with
      | true =>
        simp only
        refine ⟨h1.mono, ?_, (fun h => by cases h)⟩
        intro _
        obtain ⟨d, hd, hp⟩ := h1.tru rfl
        simp only [List.mem_singleton] at hd
        subst hd
        exact ⟨d, by simp, hp⟩
      | false =>
        simp only
        have hu1 : unv n seen1 ≤ f := Nat.le_trans (unv_mono _ _ _ h1.mono) hu
        have ih := dfsL_post inh tgt n f rec hrec cs seen1 (fun x h => hcs x (by simp [h])) hu1
        refine ⟨fun x hx => ih.mono x (h1.mono x hx), ?_, ?_⟩
        · intro h
          obtain ⟨d, hd, hp⟩ := ih.tru h
          exact ⟨d, by simp [hd], hp⟩
        · intro h
          have f1 := h1.fls rfl
          have f2 := ih.fls h
          refine ⟨?_, ?_⟩
          · intro d hd
            rcases List.mem_cons.mp hd with rfl | hd'
            · exact ih.mono _ (f1.1 _ (by simp))
            · exact f2.1 d hd'
          · intro x hx hxs
            by_cases hx1 : x ∈ seen1
            · have := f1.2 x hx1 hxs
              exact ⟨this.1, fun y hy => ih.mono y (this.2 y hy)⟩
            · exact f2.2 x hx hx1

theorem dfs_ok (inh : Nat → List Nat) (tgt n : Nat) (hinh : ∀ c, c < n → ∀ y, y ∈ inh c → y < n) :
    ∀ f, DfsOK inh tgt n f (dfs inh tgt f)
  | 0 => by
    intro c seen hc hs hu
    exact absurd (mem_of_unv_zero n seen c hc (Nat.le_zero.mp hu)) hs
  | f + 1 => by
    intro c seen hc hs hu
    simp only [dfs]
    by_cases hct : c = tgt
    · rw [if_pos hct]
      subst hct
      exact ⟨fun _ h => h, fun _ => ⟨c, by simp, Path.refl c⟩, (fun h => by cases h)⟩
    · rw [if_neg hct]
      have hu0 : unv n (c :: seen) ≤ f := by
        have := unv_cons_lt n seen c hc hs
        omega
      have h := dfsL_post inh tgt n f (dfs inh tgt f) (dfs_ok inh tgt n hinh f) (inh c) (c :: seen)
        (hinh c hc) hu0
      refine ⟨fun x hx => h.mono x (List.mem_cons_of_mem _ hx), ?_, ?_⟩
      · intro hb
        obtain ⟨d, hd, hp⟩ := h.tru hb
        exact ⟨c, by simp, Path.step hd hp⟩
      · intro hb
        have hf := h.fls hb
        have hcin : c ∈ (dfsL (dfs inh tgt f) (inh c) (c :: seen)).2 := h.mono c (by simp)
        refine ⟨fun d hd => ?_, ?_⟩
        · simp only [List.mem_singleton] at hd
          subst hd; exact hcin
        · intro x hx hxs
          by_cases hxc : x = c
          · subst hxc
            exact ⟨hct, hf.1⟩
          · exact hf.2 x hx (by simp [hxc, hxs])

theorem dfs_correct (inh : Nat → List Nat) (tgt n : Nat) (hinh : ∀ c, c < n → ∀ y, y ∈ inh c → y < n)
    (R : Nat) (hR : R < n) : (dfs inh tgt (n + 1) R []).1 = true ↔ Path inh R tgt := by
  have h := dfs_ok inh tgt n hinh (n + 1) R [] hR (by simp) (Nat.le_trans (unv_le _ _) (Nat.le_succ _))
  constructor
  · intro hb
    obtain ⟨c, hc, hp⟩ := h.tru hb
    simp only [List.mem_singleton] at hc
    subst hc; exact hp
  · intro hp
    cases hb : (dfs inh tgt (n + 1) R []).1 with
    | true => rfl
    | false =>
      exfalso
      have hf := h.fls hb
      have hcl : ∀ a b, Path inh a b → a ∈ (dfs inh tgt (n + 1) R []).2 → b ∈ (dfs inh tgt (n + 1) R []).2 := by
        intro a b hab
        induction hab with
        | refl => exact fun h => h
        | step hy _ ih => exact fun ha => ih ((hf.2 _ ha (by simp)).2 _ hy)
      have := hcl R tgt hp (hf.1 R (by simp))
      exact (hf.2 tgt this (by simp)).1 rfl

/-- a class without inheritance list: only the class itself -/
theorem dfs_leaf (inh : Nat → List Nat) (tgt f R : Nat) (h : inh R = []) :
    (dfs inh tgt (f + 1) R []).1 = true ↔ R = tgt := by
  simp only [dfs, h]
  by_cases hr : R = tgt
  · simp [hr]
  · simp [hr, dfsL]

theorem path_leaf (inh : Nat → List Nat) (a b : Nat) (h : inh a = []) : Path inh a b ↔ a = b := by
  constructor
  · intro hp
    cases hp with
    | refl => rfl
    | step hy _ => rw [h] at hy; cases hy
  · intro e; subst e; exact Path.refl a

/-- `isInstance` decides reachability along the inheritance lists, for every
grammar (all operators), cyclic lists included -/
theorem isInstance_iff_path (g : Gram) (hwf : WF g) (k : Kinds) (o R : Nat) :
    isInstance g k o (.rule R) = true ↔ Path (inhBy g k) R o := by
  simp only [isInstance]
  rcases Nat.lt_or_ge R g.length with hR | hR
  · exact dfs_correct (inhBy g k) o g.length (fun c _ => inhBy_lt g hwf k c) R hR
  · have hnone : g[R]? = none := List.getElem?_eq_none_iff.mpr hR
    have hl : inhBy g k R = [] := by simp [inhBy, hnone]
    rw [dfs_leaf _ _ _ _ hl, path_leaf _ _ _ hl]

theorem path_iff_reach (g : Gram) (k : Kinds) (hedge : ∀ R S, S ∈ inhBy g k R ↔ Edge g k R S) (R o : Nat) :
    Path (inhBy g k) R o ↔ R = o ∨ Reach g k R o := by
  constructor
  · intro hp
    induction hp with
    | refl => exact Or.inl rfl
    | step hy _ ih =>
      have he := (hedge _ _).mp hy
      rcases ih with rfl | h
      · exact Or.inr (.edge he)
      · exact Or.inr (.trans he h)
  · rintro (rfl | h)
    · exact Path.refl _
    · induction h with
      | edge he => exact Path.step ((hedge _ _).mpr he) (Path.refl _)
      | trans he _ ih => exact Path.step ((hedge _ _).mpr he) ih

end RuleTypes
