import TextxVerif.RuleTypes
/-!
Helper lemmas for C03, part 3: what `proc` (the rule-kind dispatch of
`process_node`) returns.
-/
namespace RuleTypes

theorem procFirst_eq_find (k : Kinds) (p : PT → Bool) :
    ∀ kids : List PT, procFirst k p kids = (kids.find? p).map (proc k)
  | [] => by simp [procFirst]
  | x :: xs => by
    by_cases hp : p x = true
    · simp [procFirst, hp]
    · simp [procFirst, hp, procFirst_eq_find k p xs]

mutual
/-- every object below a value has a common rule -/
theorem proc_common (k : Kinds) : ∀ (t : PT), ∀ r ∈ (proc k t).objRules, k r = .common
  | .term t v => by intro r hr; simp [proc, Val.objRules] at hr
  | .asgn a ks => by intro r hr; simp [proc, Val.objRules] at hr
  | .nt rule kids => by
    intro r hr
    simp only [proc] at hr
    cases hk : k rule with
    | mtch => rw [hk] at hr; simp [Val.objRules] at hr
    | common =>
      rw [hk] at hr
      simp only [Val.objRules, List.mem_cons] at hr
      rcases hr with rfl | h
      · exact hk
      · exact procAttrs_common k kids r h
    | abstr =>
      rw [hk] at hr
      simp only at hr
      by_cases hlen : kids.length = 1
      · rw [if_pos hlen] at hr
        cases h1 : procFirst k (fun _ => true) kids with
        | none => rw [h1] at hr; simp [Val.objRules] at hr
        | some v => rw [h1] at hr; exact procFirst_common k _ kids v h1 r hr
      · rw [if_neg hlen] at hr
        cases h1 : procFirst k (PT.isNM k) kids with
        | some v => rw [h1] at hr; exact procFirst_common k _ kids v h1 r hr
        | none =>
          rw [h1] at hr
          cases h2 : procFirst k PT.isNT kids with
          | some v => rw [h2] at hr; exact procFirst_common k _ kids v h2 r hr
          | none => rw [h2] at hr; simp [Val.objRules] at hr
theorem procFirst_common (k : Kinds) (p : PT → Bool) : ∀ (kids : List PT) (v : Val),
    procFirst k p kids = some v → ∀ r ∈ v.objRules, k r = .common
  | [], v, h => by simp [procFirst] at h
  | x :: xs, v, h => by
    simp only [procFirst] at h
    by_cases hp : p x = true
    · rw [if_pos hp] at h
      cases h
      exact proc_common k x
    · rw [if_neg hp] at h
      exact procFirst_common k p xs v h
theorem procAttrs_common (k : Kinds) : ∀ (kids : List PT), ∀ r ∈ objRulesA (procAttrs k kids), k r = .common
  | [] => by intro r hr; simp [procAttrs, objRulesA] at hr
  | .term t v :: xs => by intro r hr; simp only [procAttrs] at hr; exact procAttrs_common k xs r hr
  | .nt q ks :: xs => by intro r hr; simp only [procAttrs] at hr; exact procAttrs_common k xs r hr
  | .asgn a ks :: xs => by
    intro r hr
    simp only [procAttrs, objRulesA, List.mem_append] at hr
    rcases hr with h | h
    · exact procL_common k ks r h
    · exact procAttrs_common k xs r h
theorem procL_common (k : Kinds) : ∀ (kids : List PT), ∀ r ∈ objRulesL (procL k kids), k r = .common
  | [] => by intro r hr; simp [procL, objRulesL] at hr
  | x :: xs => by
    intro r hr
    simp only [procL, objRulesL, List.mem_append] at hr
    rcases hr with h | h
    · exact proc_common k x r h
    · exact procL_common k xs r h
end

/-- abstract rule, a child is the node of a non-match rule: the result of the first such child -/
theorem proc_abstr_nm (k : Kinds) (r : Nat) (kids : List PT) (x : PT) (hk : k r = .abstr)
    (hx : kids.find? (PT.isNM k) = some x) : proc k (.nt r kids) = proc k x := by
  simp only [proc, hk]
  by_cases hlen : kids.length = 1
  · rw [if_pos hlen]
    match kids, hlen, hx with
    | [y], _, hx =>
      have : y = x := by
        by_cases hy : PT.isNM k y = true
        · simpa [List.find?, hy] using hx
        · simp [List.find?, hy] at hx
      subst this
      simp [procFirst]
  · rw [if_neg hlen]
    simp [procFirst_eq_find, hx]

theorem flatL_terms : ∀ (kids : List PT), (∀ x ∈ kids, ∃ t v, x = .term t v) → kids.find? PT.isNT = none
  | [], _ => by simp
  | x :: xs, h => by
    obtain ⟨t, v, rfl⟩ := h x (by simp)
    simp only [List.find?, PT.isNT]
    exact flatL_terms xs (fun y hy => h y (by simp [hy]))

theorem find_isNM_none_of_terms (k : Kinds) : ∀ (kids : List PT), (∀ x ∈ kids, ∃ t v, x = .term t v) →
    kids.find? (PT.isNM k) = none
  | [], _ => by simp
  | x :: xs, h => by
    obtain ⟨t, v, rfl⟩ := h x (by simp)
    simp only [List.find?, PT.isNM]
    exact find_isNM_none_of_terms k xs (fun y hy => h y (by simp [hy]))

/-- abstract rule, a single child: the result of that child (`process_node(node[0])`) -/
theorem proc_abstr_single (k : Kinds) (r : Nat) (x : PT) (hk : k r = .abstr) :
    proc k (.nt r [x]) = proc k x := by
  simp [proc, hk, procFirst]

/-- abstract rule, several children, all of them terminals: the concatenated matched text -/
theorem proc_abstr_terms (k : Kinds) (r : Nat) (kids : List PT) (hk : k r = .abstr)
    (hlen : 2 ≤ kids.length) (hall : ∀ x ∈ kids, ∃ t v, x = .term t v) :
    proc k (.nt r kids) = .prim (rawL kids) := by
  simp only [proc, hk]
  have hne : ¬ kids.length = 1 := by omega
  rw [if_neg hne]
  simp [procFirst_eq_find, flatL_terms kids hall, find_isNM_none_of_terms k kids hall]

/-- abstract rule, several children, only match rules referenced, one of them
with a non-terminal node: the result of that child alone -/
theorem proc_abstr_match_nt (k : Kinds) (r : Nat) (kids : List PT) (x : PT) (hk : k r = .abstr)
    (hlen : kids.length ≠ 1) (hnm : kids.find? (PT.isNM k) = none) (hx : kids.find? PT.isNT = some x) :
    proc k (.nt r kids) = proc k x := by
  simp only [proc, hk]
  rw [if_neg hlen]
  simp [procFirst_eq_find, hnm, hx]

end RuleTypes
