import TextxVerif.Resolve
/-! Helper lemmas for reference lists (C08): position-ordered insertion. -/
namespace Resolve

theorem insertByPos_perm (r : LRef) : ∀ l, (insertByPos r l).Perm (r :: l)
  | [] => by simp [insertByPos]
  | x :: xs => by
      simp only [insertByPos]
      split
      · exact List.Perm.refl _
      · exact ((insertByPos_perm r xs).cons x).trans (List.Perm.swap r x xs)

theorem insertByPos_sorted (r : LRef) : ∀ l, l.Pairwise (fun a b => a.pos ≤ b.pos) →
    (insertByPos r l).Pairwise (fun a b => a.pos ≤ b.pos)
  | [], _ => by simp [insertByPos]
  | x :: xs, h => by
      simp only [insertByPos]
      have hx := List.pairwise_cons.1 h
      split
      · rename_i hlt
        refine List.pairwise_cons.2 ⟨?_, h⟩
        intro b hb
        rcases List.mem_cons.1 hb with rfl | hb
        · exact Nat.le_of_lt hlt
        · exact Nat.le_trans (Nat.le_of_lt hlt) (hx.1 b hb)
      · rename_i hge
        refine List.pairwise_cons.2 ⟨?_, insertByPos_sorted r xs hx.2⟩
        intro b hb
        have := (insertByPos_perm r xs).subset hb
        rcases List.mem_cons.1 this with rfl | hb
        · exact Nat.le_of_not_lt hge
        · exact hx.1 b hb

theorem foldl_insert_perm (seq : List LRef) : ∀ acc,
    (seq.foldl (fun acc r => insertByPos r acc) acc).Perm (seq.reverse ++ acc) := by
  induction seq with
  | nil => intro acc; simp
  | cons r rs ih =>
    intro acc
    simp only [List.foldl_cons, List.reverse_cons, List.append_assoc, List.singleton_append]
    exact (ih _).trans ((insertByPos_perm r acc).append_left _)

theorem foldl_insert_sorted (seq : List LRef) : ∀ acc, acc.Pairwise (fun a b => a.pos ≤ b.pos) →
    (seq.foldl (fun acc r => insertByPos r acc) acc).Pairwise (fun a b => a.pos ≤ b.pos) := by
  induction seq with
  | nil => intro acc h; simpa using h
  | cons r rs ih => intro acc h; exact ih _ (insertByPos_sorted r acc h)

theorem listAfter_perm (seq : List LRef) : (listAfter seq).Perm seq := by
  have := foldl_insert_perm seq []
  simp only [List.append_nil] at this
  exact this.trans (List.reverse_perm seq)

theorem listAfter_sorted (seq : List LRef) : (listAfter seq).Pairwise (fun a b => a.pos ≤ b.pos) :=
  foldl_insert_sorted seq [] List.Pairwise.nil

/-- in a list with strictly increasing positions the position identifies the element -/
theorem eq_of_pos_eq {refs : List LRef} (h : refs.Pairwise (fun a b => a.pos < b.pos)) :
    ∀ a b, a ∈ refs → b ∈ refs → a.pos = b.pos → a = b := by
  induction refs with
  | nil => intro a b ha; simp at ha
  | cons x xs ih =>
    have hx := List.pairwise_cons.1 h
    intro a b ha hb hab
    rcases List.mem_cons.1 ha with hax | ha' <;> rcases List.mem_cons.1 hb with hbx | hb'
    · rw [hax, hbx]
    · have := hx.1 b hb'; rw [hax] at hab; omega
    · have := hx.1 a ha'; rw [hbx] at hab; omega
    · exact ih hx.2 a b ha' hb' hab

end Resolve
