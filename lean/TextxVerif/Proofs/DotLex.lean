import TextxVerif.Proofs.DotEscape
import TextxVerif.Export
/-! Lexer lemmas: `steps` on concatenations, on quoted safe fragments, on numerals and on
balanced HTML content. -/
namespace Dot

/-- `p` takes the lexer from `st` to `st'` emitting `ts` -/
def Lx (st : LState) (p : Str) (st' : LState) (ts : List Tok) : Prop := steps st p = some (st', ts)

instance (st : LState) (p : Str) (st' : LState) (ts : List Tok) : Decidable (Lx st p st' ts) :=
  inferInstanceAs (Decidable (_ = _))

theorem takeWhile_all {p : α → Bool} {l : List α} (h : ∀ x ∈ l, p x = true) : l.takeWhile p = l := by
  induction l with
  | nil => rfl
  | cons x xs ih => simp [List.takeWhile, h x (by simp), ih (fun y hy => h y (by simp [hy]))]

theorem dropWhile_all {p : α → Bool} {l : List α} (h : ∀ x ∈ l, p x = true) : l.dropWhile p = [] := by
  induction l with
  | nil => rfl
  | cons x xs ih => simp [List.dropWhile, h x (by simp), ih (fun y hy => h y (by simp [hy]))]

theorem steps_append (st : LState) (a b : Str) :
    steps st (a ++ b) =
      match steps st a with
      | none => none
      | some (st', ts) =>
        match steps st' b with
        | none => none
        | some (st'', ts') => some (st'', ts ++ ts') := by
  induction a generalizing st with
  | nil => simp only [List.nil_append, steps]; cases steps st b <;> simp
  | cons c cs ih =>
    simp only [List.cons_append, steps]
    cases hs : step st c with
    | none => simp
    | some r =>
      obtain ⟨st1, t1⟩ := r
      simp only
      rw [ih]
      cases steps st1 cs with
      | none => simp
      | some r2 =>
        obtain ⟨st2, t2⟩ := r2
        simp only
        cases steps st2 b with
        | none => simp
        | some r3 => simp [List.append_assoc]

theorem Lx.append {a b c : LState} {p q : Str} {t1 t2 : List Tok} (h1 : Lx a p b t1) (h2 : Lx b q c t2) :
    Lx a (p ++ q) c (t1 ++ t2) := by
  unfold Lx at *; rw [steps_append, h1]; simp only; rw [h2]

theorem Lx.nil (a : LState) : Lx a [] a [] := rfl

/-! ### quoted strings -/

theorem steps_str (f : Str) (acc : Str) (e e' : Bool) (h : scan isQuote e f = some e') :
    steps (.str acc e) f = some (.str (f.reverse ++ acc) e', []) := by
  induction f generalizing acc e with
  | nil => simp only [scan, Option.some.injEq] at h; simp [steps, h]
  | cons c cs ih =>
    cases e
    · simp only [scan] at h
      by_cases hb : c = '\\'
      · subst hb
        simp only [if_true] at h
        have := ih ('\\' :: acc) true h
        have hq : ¬ ('\\' = '"') := by decide
        simp only [steps, step, hq, if_false, if_true]
        rw [this]; simp
      · simp only [hb, if_false] at h
        by_cases hq : c = '"'
        · simp [isQuote, hq] at h
        · have hq' : isQuote c = false := by simp [isQuote, hq]
          simp only [hq'] at h
          have := ih (c :: acc) false h
          simp only [steps, step, hq, hb, if_false]
          rw [this]; simp
    · simp only [scan] at h
      have := ih (c :: acc) false h
      simp only [steps, step]
      rw [this]; simp

/-- `"f"` with a quote-safe `f` is exactly one string token -/
theorem Lx.quoted {f : Str} (h : QSafe f) : Lx .start ('"' :: f ++ ['"']) .start [.qstr f] := by
  have h1 : Lx .start ['"'] (.str [] false) [] := by decide
  have h2 : Lx (.str [] false) f (.str (f.reverse ++ []) false) [] := steps_str f [] false false h
  have h3 : Lx (.str (f.reverse ++ []) false) ['"'] .start [.qstr f] := by
    simp [Lx, steps, step]
  have := (h1.append h2).append h3
  simpa using this

/-! ### numerals -/

theorem isDigit_isWordChar {c : Char} (h : c.isDigit = true) : isWordChar c = true := by
  simp [isWordChar, Char.isAlphanum, h]

theorem isDigit_not_ws {c : Char} (h : c.isDigit = true) : isWs c = false := by
  simp only [isWs, Bool.or_eq_false_iff, decide_eq_false_iff_not]
  refine ⟨⟨⟨?_, ?_⟩, ?_⟩, ?_⟩ <;> (intro hc; rw [hc] at h; revert h; decide)

theorem steps_word (w acc : Str) (h : ∀ c ∈ w, isWordChar c = true) :
    steps (.word acc) w = some (.word (w.reverse ++ acc), []) := by
  induction w generalizing acc with
  | nil => simp [steps]
  | cons c cs ih =>
    have hc := h c (by simp)
    simp only [steps, step, hc, if_true]
    rw [ih (c :: acc) (fun d hd => h d (by simp [hd]))]
    simp

theorem digits_ne_nil (n : Nat) : digits n ≠ [] := Nat.toDigits_ne_nil

theorem digits_isDigit (n : Nat) : ∀ c ∈ digits n, c.isDigit = true :=
  fun _ hc => Nat.isDigit_of_mem_toDigits (by decide) (by decide) hc

theorem isNumeral_of_digits {w : Str} (hne : w ≠ []) (h : ∀ c ∈ w, c.isDigit = true) : isNumeral w = true := by
  have h1 : w.takeWhile Char.isDigit = w := takeWhile_all h
  have h2 : w.dropWhile Char.isDigit = [] := dropWhile_all h
  simp only [isNumeral, h1, h2]
  cases w with
  | nil => exact absurd rfl hne
  | cons _ _ => rfl

/-- the digits of a number, in the `start` state, leave a pending word -/
theorem steps_digits (n : Nat) : steps .start (digits n) = some (.word (digits n).reverse, []) := by
  have hd := digits_isDigit n
  cases hw : digits n with
  | nil => exact absurd hw (digits_ne_nil n)
  | cons d ds =>
    rw [hw] at hd
    have h0 := hd d (by simp)
    simp only [steps, step, startStep, isDigit_not_ws h0, isDigit_isWordChar h0, if_true, Bool.false_eq_true, if_false]
    rw [steps_word ds [d] (fun c hc => isDigit_isWordChar (hd c (by simp [hc])))]
    simp

/-- a numeral followed by a character that ends it -/
theorem Lx.number (n : Nat) {c : Char} {st : LState} {ts : List Tok} (hc : isWordChar c = false)
    (hs : startStep c = some (st, ts)) : Lx .start (digits n ++ [c]) st (.num (digits n) :: ts) := by
  have h1 : Lx .start (digits n) (.word (digits n).reverse) [] := steps_digits n
  have h2 : Lx (.word (digits n).reverse) [c] st (.num (digits n) :: ts) := by
    have hn : wordTok (digits n) = some (.num (digits n)) := by
      simp [wordTok, isNumeral_of_digits (digits_ne_nil n) (digits_isDigit n)]
    simp [Lx, steps, step, hc, hn, hs]
  simpa using h1.append h2

theorem Lx.number_space (n : Nat) : Lx .start (digits n ++ [' ']) .start [.num (digits n)] :=
  Lx.number n (by decide) (by decide)

theorem Lx.number_lbrack (n : Nat) : Lx .start (digits n ++ ['[']) .start [.num (digits n), .lbrack] :=
  Lx.number n (by decide) (by decide)

theorem Lx.number_semi (n : Nat) : Lx .start (digits n ++ [';']) .start [.num (digits n), .semi] :=
  Lx.number n (by decide) (by decide)

/-! ### HTML strings -/

theorem angle_append (d : Nat) (a b : Str) : angle d (a ++ b) = (angle d a).bind (fun d' => angle d' b) := by
  induction a generalizing d with
  | nil => simp [angle]
  | cons c cs ih =>
    simp only [List.cons_append, angle]
    split
    · exact ih _
    · split
      · cases d with
        | zero => simp
        | succ d' => exact ih _
      · exact ih _

theorem angle_noAngle (d : Nat) (s : Str) (h : NoAngle s) : angle d s = some d := by
  induction s with
  | nil => rfl
  | cons c cs ih =>
    have hc := h c (by simp)
    simp only [angle, hc.1, hc.2, if_false]
    exact ih (fun x hx => h x (by simp [hx]))

theorem steps_html (f acc : Str) (d d' : Nat) (h : angle d f = some d') :
    steps (.html acc d) f = some (.html (f.reverse ++ acc) d', []) := by
  induction f generalizing acc d with
  | nil => simp only [angle, Option.some.injEq] at h; simp [steps, h]
  | cons c cs ih =>
    simp only [angle] at h
    by_cases h1 : c = '<'
    · simp only [h1, if_true] at h
      simp only [steps, step, h1, if_true]
      rw [ih _ _ h]; simp
    · simp only [h1, if_false] at h
      by_cases h2 : c = '>'
      · simp only [h2, if_true] at h
        cases d with
        | zero => simp at h
        | succ d0 =>
          simp only at h
          have hlt : ¬ ('>' = '<') := by decide
          simp only [steps, step, h2, hlt, if_false, if_true]
          rw [ih _ _ h]; simp
      · simp only [h2, if_false] at h
        simp only [steps, step, h1, h2, if_false]
        rw [ih _ _ h]; simp

/-- `<f>` with angle-balanced `f` is exactly one HTML token -/
theorem Lx.html {f : Str} (h : angle 0 f = some 0) : Lx .start ('<' :: f ++ ['>']) .start [.html f] := by
  have h1 : Lx .start ['<'] (.html [] 0) [] := by decide
  have h2 : Lx (.html [] 0) f (.html (f.reverse ++ []) 0) [] := steps_html f [] 0 0 h
  have h3 : Lx (.html (f.reverse ++ []) 0) ['>'] .start [.html f] := by
    simp [Lx, steps, step]
  have := (h1.append h2).append h3
  simpa using this

theorem tableRow_angle (r : Str × Str) (h : NoAngle r.1) : angle 0 (tableRow r) = some 0 := by
  unfold tableRow
  have e1 : angle 0 cl!"\t<tr>\n" = some 0 := by decide
  have e2 : angle 0 cl!"\t\t<td><b>" = some 0 := by decide
  have e3 : angle 0 cl!"</b></td><td>" = some 0 := by decide
  have e4 : angle 0 cl!"</td>\n" = some 0 := by decide
  have e5 : angle 0 cl!"\t</tr>\n" = some 0 := by decide
  simp only [angle_append, e1, e2, e3, e4, e5, angle_noAngle 0 _ h, angle_noAngle 0 _ (htmlEscape_noAngle r.2),
    Option.bind_some]

theorem tableText_angle (rows : List (Str × Str)) (h : ∀ r ∈ rows, NoAngle r.1) :
    angle 0 (' ' :: tableText rows ++ [' ']) = some 0 := by
  have hrows : angle 0 (rows.flatMap tableRow) = some 0 := by
    induction rows with
    | nil => rfl
    | cons r rs ih =>
      rw [List.flatMap_cons, angle_append, tableRow_angle r (h r (by simp))]
      exact ih (fun x hx => h x (by simp [hx]))
  have e1 : angle 0 cl!"<table>\n" = some 0 := by decide
  have e2 : angle 0 cl!"</table>" = some 0 := by decide
  have e3 : angle 0 [' '] = some 0 := by decide
  show angle 0 ([' '] ++ tableText rows ++ [' ']) = some 0
  unfold tableText
  simp only [angle_append, e1, e2, e3, hrows, Option.bind_some]

end Dot
