import TextxVerif.Mult
/-!
Helper lemmas for C02.

Part 1 — the walk: an invariant per attribute (`Inv`) that composes along
sequences (`Inv.comp`, counts add) and alternatives (`AltInv`, counts take the
maximum); `walk_inv` by mutual structural recursion over the body.
-/
namespace Mult

/-! ### small facts about multiplicities and counts -/

theorem asgnMult_isMany (op : Op) (m : M) : (asgnMult op m).isMany = (op.isList || m.isMany) := by
  cases op <;> cases m <;> rfl

theorem repMult_isMany (plus : Bool) (m : M) : (repMult plus m).isMany = true := by
  cases plus <;> cases m <;> rfl

theorem lift_isMany (c m' : M) (h : m'.isMany = true) : (if M.lt c m' then m' else c).isMany = true := by
  cases c <;> cases m' <;> simp_all [M.lt, M.prio, M.isMany]

@[simp] theorem upd_same (f : Attr → M) (a : Attr) (m : M) : upd f a m a = m := by simp [upd]

theorem upd_other (f : Attr → M) {a b : Attr} (m : M) (h : a ≠ b) : upd f b m a = f a := by
  simp [upd, h]

/-- what a walk must guarantee about attribute `a`, given the spec count `c` of the walked part;
`r` = the walk runs below a repetition -/
structure Inv (a : Attr) (r : Bool) (c : Cnt) (s s' : St) : Prop where
  seenMono : a ∈ s.seen → a ∈ s'.seen
  seenZero : c = .zero → (a ∈ s'.seen → a ∈ s.seen)
  seenOne  : r = false → c = .one → a ∈ s'.seen
  manyIff  : (s'.mult a).isMany = true ↔ (s.mult a).isMany = true ∨
               (if r then c ≠ .zero else (c = .many ∨ (c = .one ∧ a ∈ s.seen)))

theorem Inv.refl (a : Attr) (r : Bool) (s : St) : Inv a r .zero s s where
  seenMono := id
  seenZero := fun _ h => h
  seenOne := fun _ h => by cases h
  manyIff := by cases r <;> simp

/-- sequential composition of invariants adds the counts -/
theorem Inv.comp {a : Attr} {r : Bool} {c1 c2 : Cnt} {s s1 s2 : St}
    (h1 : Inv a r c1 s s1) (h2 : Inv a r c2 s1 s2) : Inv a r (c1.add c2) s s2 := by
  refine ⟨fun h => h2.seenMono (h1.seenMono h), ?_, ?_, ?_⟩
  · intro hc h
    have : c1 = .zero ∧ c2 = .zero := by cases c1 <;> cases c2 <;> simp_all [Cnt.add]
    exact h1.seenZero this.1 (h2.seenZero this.2 h)
  · intro hr hc
    have : (c1 = .one ∧ c2 = .zero) ∨ (c1 = .zero ∧ c2 = .one) := by
      cases c1 <;> cases c2 <;> simp_all [Cnt.add]
    rcases this with ⟨e1, _⟩ | ⟨_, e2⟩
    · exact h2.seenMono (h1.seenOne hr e1)
    · exact h2.seenOne hr e2
  · rw [h2.manyIff, h1.manyIff]
    cases r
    · simp only [Bool.false_eq_true, if_false]
      cases c1 <;> cases c2 <;> simp [Cnt.add]
      · constructor
        · rintro (h | h)
          · exact Or.inl h
          · exact Or.inr (h1.seenZero rfl h)
        · rintro (h | h)
          · exact Or.inl h
          · exact Or.inr (h1.seenMono h)
      · exact Or.inr (h1.seenOne rfl rfl)
    · simp only [if_true]
      cases c1 <;> cases c2 <;> simp [Cnt.add]

/-- invariant of `walkAlts` relative to the branch start `seen0` and the accumulator -/
structure AltInv (a : Attr) (r : Bool) (c : Cnt) (seen0 : List Attr) (acc res : St) : Prop where
  seenMono : a ∈ acc.seen → a ∈ res.seen
  seenZero : c = .zero → (a ∈ res.seen → a ∈ acc.seen)
  seenOne  : r = false → c = .one → a ∈ res.seen
  manyIff  : (res.mult a).isMany = true ↔ (acc.mult a).isMany = true ∨
               (if r then c ≠ .zero else (c = .many ∨ (c = .one ∧ a ∈ seen0)))

theorem walkAsgn_inv (a : Attr) (m : M) (b : Attr) (op : Op) (s : St) :
    Inv a m.isMany (count a (.asgn b op)) s (walkAsgn m b op s) := by
  have hm := asgnMult_isMany op m
  by_cases hmany : (asgnMult op m).isMany = true
  · -- list operator or below a repetition: the multiplicity is lifted, the branch set untouched
    have hw : walkAsgn m b op s =
        { seen := s.seen, rej := s.rej || (op == .bool),
          mult := if M.lt (s.mult b) (asgnMult op m) then upd s.mult b (asgnMult op m) else s.mult } := by
      simp [walkAsgn, hmany]
    rw [hw]
    by_cases hab : a = b
    · subst hab
      have hl : ((if M.lt (s.mult a) (asgnMult op m) then upd s.mult a (asgnMult op m) else s.mult) a).isMany = true := by
        have := lift_isMany (s.mult a) (asgnMult op m) hmany
        by_cases hlt : M.lt (s.mult a) (asgnMult op m) = true <;> simp_all
      refine ⟨id, ?_, ?_, ?_⟩
      · intro hc; simp [count] at hc; cases hop : op.isList <;> simp_all
      · intro hr hc
        simp [count] at hc
        cases hop : op.isList <;> simp_all
      · simp only [hl, true_iff, count, if_true]
        right
        cases hop : op.isList <;> cases hmm : m.isMany <;> simp_all
    · have hl : ((if M.lt (s.mult b) (asgnMult op m) then upd s.mult b (asgnMult op m) else s.mult) a) = s.mult a := by
        by_cases hlt : M.lt (s.mult b) (asgnMult op m) = true <;> simp [hlt, upd_other _ _ hab]
      refine ⟨id, fun _ h => h, ?_, ?_⟩
      · intro _ hc; simp [count, hab] at hc
      · simp only [hl, count, hab, if_false]
        cases m.isMany <;> simp
  · -- scalar operator outside repetitions
    have hop : op.isList = false := by cases h : op.isList <;> simp_all
    have hr : m.isMany = false := by cases h : m.isMany <;> simp_all
    rw [hr]
    by_cases hseen : b ∈ s.seen
    · have hw : walkAsgn m b op s = { s with mult := upd s.mult b .oneMore } := by
        simp [walkAsgn, hmany, hseen]
      rw [hw]
      by_cases hab : a = b
      · subst hab
        refine ⟨id, fun _ h => h, fun _ _ => hseen, ?_⟩
        simp [count, hop, hseen, M.isMany]
      · refine ⟨id, fun _ h => h, ?_, ?_⟩
        · intro _ hc; simp [count, hab] at hc
        · simp [count, hab, upd_other _ _ hab]
    · have hw : walkAsgn m b op s = { s with seen := b :: s.seen } := by
        simp [walkAsgn, hmany, hseen]
      rw [hw]
      by_cases hab : a = b
      · subst hab
        refine ⟨fun h => by simp [h], ?_, fun _ _ => by simp, ?_⟩
        · intro hc; simp [count, hop] at hc
        · simp [count, hop, hseen]
      · refine ⟨fun h => by simp [h], ?_, ?_, ?_⟩
        · intro _ h; simpa [hab] using h
        · intro _ hc; simp [count, hab] at hc
        · simp [count, hab]

mutual
theorem walk_inv (a : Attr) (m : M) : ∀ (b : Body) (s : St), Inv a m.isMany (count a b) s (walk m b s)
  | .leaf, s => by simpa [walk, count] using Inv.refl a m.isMany s
  | .asgn b op, s => by simpa [walk] using walkAsgn_inv a m b op s
  | .seq xs, s => by simpa [walk, count] using walkSeq_inv a m xs s
  | .unordered xs, s => by simpa [walk, count] using walkSeq_inv a m xs s
  | .opt x, s => by simpa [walk, count] using walk_inv a m x s
  | .rep plus x, s => by
      have h := walk_inv a (repMult plus m) x s
      rw [repMult_isMany] at h
      simp only [walk, count]
      refine ⟨h.seenMono, ?_, ?_, ?_⟩
      · intro hc; apply h.seenZero
        cases hx : count a x <;> simp_all
      · intro hr hc
        cases hx : count a x <;> simp_all
      · rw [h.manyIff]
        cases m.isMany <;> cases hx : count a x <;> simp_all
  | .choice xs, s => by
      have h := walkAlts_inv a m xs s.seen s (fun h => h)
      simp only [walk, count]
      exact ⟨h.seenMono, h.seenZero, h.seenOne, h.manyIff⟩
theorem walkSeq_inv (a : Attr) (m : M) : ∀ (xs : List Body) (s : St),
    Inv a m.isMany (countSum a xs) s (walkSeq m xs s)
  | [], s => by simpa [walkSeq, countSum] using Inv.refl a m.isMany s
  | x :: xs, s => by
      simp only [walkSeq, countSum]
      exact Inv.comp (walk_inv a m x s) (walkSeq_inv a m xs _)
theorem walkAlts_inv (a : Attr) (m : M) : ∀ (xs : List Body) (seen0 : List Attr) (acc : St),
    (a ∈ seen0 → a ∈ acc.seen) → AltInv a m.isMany (countMax a xs) seen0 acc (walkAlts m xs seen0 acc)
  | [], seen0, acc, _ => by
      simp only [walkAlts, countMax]
      exact { seenMono := id, seenZero := fun _ h => h, seenOne := (fun _ h => nomatch h),
              manyIff := by cases m.isMany <;> simp }
  | x :: xs, seen0, acc, hsub => by
      simp only [walkAlts, countMax]
      have h1 := walk_inv a m x { seen := seen0, mult := acc.mult, rej := acc.rej }
      have h2 := walkAlts_inv a m xs seen0
        { seen := (walk m x { seen := seen0, mult := acc.mult, rej := acc.rej }).seen ++ acc.seen,
          mult := (walk m x { seen := seen0, mult := acc.mult, rej := acc.rej }).mult,
          rej := (walk m x { seen := seen0, mult := acc.mult, rej := acc.rej }).rej }
        (fun h => by simp [h1.seenMono h])
      refine ⟨?_, ?_, ?_, ?_⟩
      · intro h; exact h2.seenMono (by simp [h])
      · intro hc h
        have hz : count a x = .zero ∧ countMax a xs = .zero := by
          cases hx : count a x <;> cases hm : countMax a xs <;> simp_all [Cnt.max]
        have := h2.seenZero hz.2 h
        simp at this
        rcases this with h | h
        · exact hsub (h1.seenZero hz.1 h)
        · exact h
      · intro hr hc
        have : count a x = .one ∨ countMax a xs = .one := by
          cases hx : count a x <;> cases hm : countMax a xs <;> simp_all [Cnt.max]
        rcases this with e | e
        · exact h2.seenMono (by simp [h1.seenOne hr e])
        · exact h2.seenOne hr e
      · rw [h2.manyIff, h1.manyIff]
        cases m.isMany <;> cases hx : count a x <;> cases hm : countMax a xs <;> simp [Cnt.max]
        all_goals grind
end

end Mult
