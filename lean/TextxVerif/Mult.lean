/-!
# Mult — multiplicity inference and assignment storage of textX (C02)

Hand-written mirror of

* `textx/lang.py` `visit_assignment` (operator base multiplicity, the
  `"?="` on multiple assignments rejection) — `visitAsgn`, `visit`;
* `textx/lang.py` `_update_attr_multiplicities` (the walk over the rule body
  that promotes multiplicities; *after* the `fix:` commits: alternatives of an
  ordered choice start from a copy of the incoming branch set and are merged
  back into it) — `walk`, `walkSeq`, `walkAlts`;
* `textx/model.py` `process_node`, assignment branch (plain assignment with
  its truthiness based "Multiple assignments" test, bool assignment, list
  assignment) — `storeEv`, `store`;
* `textx/metamodel.py` `_init_obj_attrs` — `initHeap`.

and of the *statement side* of the property:

* `count` — how many values one object can collect for an attribute
  (DESIGN "Reading": sequence and `#` add, choice takes the maximum, `?` keeps,
  repetitions and `*= +=` mean many);
* `Events` — every sequence of assignment events a parse of the rule body can
  perform on one object (sequence = concatenation, choice = one alternative,
  optional = nothing or the body, repetition = any number of iterations,
  unordered group = the elements once each in any order).

Core Lean only.
-/
namespace Mult

abbrev Attr := Nat

/-- assignment operators `=`, `?=`, `*=`, `+=` -/
inductive Op | plain | bool | star | plus
deriving DecidableEq, Repr

def Op.isList : Op → Bool
  | .star | .plus => true
  | _ => false

/-- `textx/const.py`: MULT_OPTIONAL, MULT_ONE, MULT_ZEROORMORE, MULT_ONEORMORE -/
inductive M | opt | one | zeroMore | oneMore
deriving DecidableEq, Repr

/-- index in `const.priority` -/
def M.prio : M → Nat
  | .opt => 0 | .one => 1 | .zeroMore => 2 | .oneMore => 3

/-- `const.mult_lt` -/
def M.lt (l r : M) : Bool := l.prio < r.prio

/-- `mult in [MULT_ZEROORMORE, MULT_ONEORMORE]` -/
def M.isMany : M → Bool
  | .zeroMore | .oneMore => true
  | _ => false

/-- rule body as the grammar visitor sees it; matches and references to other
rules are leaves (they assign nothing to *this* rule's object) -/
inductive Body
  | leaf
  | asgn (a : Attr) (op : Op)
  | seq (xs : List Body)
  | choice (xs : List Body)
  | opt (x : Body)
  | rep (plus : Bool) (x : Body)        -- `*` (false) or `+` (true)
  | unordered (xs : List Body)
deriving Repr

/-! ## Specification side: the three-valued count -/

/-- 0, 1, many -/
inductive Cnt | zero | one | many
deriving DecidableEq, Repr

def Cnt.add : Cnt → Cnt → Cnt
  | .zero, c => c
  | c, .zero => c
  | _, _ => .many

def Cnt.max : Cnt → Cnt → Cnt
  | .many, _ => .many
  | _, .many => .many
  | .one, _ => .one
  | _, .one => .one
  | .zero, .zero => .zero

def Cnt.toNat : Cnt → Nat
  | .zero => 0 | .one => 1 | .many => 2

mutual
/-- how many values attribute `a` can collect in one object of the rule -/
def count (a : Attr) : Body → Cnt
  | .leaf => .zero
  | .asgn b op => if a = b then (if op.isList then .many else .one) else .zero
  | .seq xs => countSum a xs
  | .choice xs => countMax a xs
  | .opt x => count a x
  | .rep _ x => match count a x with | .zero => .zero | _ => .many
  | .unordered xs => countSum a xs
def countSum (a : Attr) : List Body → Cnt
  | [] => .zero
  | x :: xs => (count a x).add (countSum a xs)
def countMax (a : Attr) : List Body → Cnt
  | [] => .zero
  | x :: xs => (count a x).max (countMax a xs)
end

/-! ## Grammar visitor: `visit_assignment` in textual order -/

mutual
/-- assignments of the body in textual order (the order in which the visitor's
`visit_assignment` runs) -/
def asgns : Body → List (Attr × Op)
  | .leaf => []
  | .asgn a op => [(a, op)]
  | .seq xs => asgnsL xs
  | .choice xs => asgnsL xs
  | .opt x => asgns x
  | .rep _ x => asgns x
  | .unordered xs => asgnsL xs
def asgnsL : List Body → List (Attr × Op)
  | [] => []
  | x :: xs => asgns x ++ asgnsL xs
end

/-- what the visitor has recorded on the metaclass so far -/
structure VSt where
  known : List Attr          -- `attr_name in cls._tx_attrs`
  boolA : List Attr          -- attributes with `bool_assignment`
  mult : Attr → M            -- `cls_attr.mult` (MULT_ONE when created)
  rej : Bool                 -- `Cannot use "?=" operator on multiple assignments` raised

def upd (f : Attr → M) (a : Attr) (m : M) : Attr → M := fun x => if x = a then m else f x

/-- one `visit_assignment` (the multiplicity relevant part) -/
def visitAsgn (s : VSt) (p : Attr × Op) : VSt :=
  let a := p.1
  let op := p.2
  let rej := s.rej || (decide (a ∈ s.known) && (op == .bool || decide (a ∈ s.boolA)))
  let known := if a ∈ s.known then s.known else a :: s.known
  match op with
  | .plus => { known, rej, boolA := s.boolA, mult := upd s.mult a .oneMore }
  | .star => { known, rej, boolA := s.boolA,
               mult := if s.mult a = .oneMore then s.mult else upd s.mult a .zeroMore }
  | .bool => { known, rej, boolA := a :: s.boolA, mult := upd s.mult a .opt }
  | .plain => { known, rej, boolA := s.boolA, mult := s.mult }

def visit (l : List (Attr × Op)) : VSt :=
  l.foldl visitAsgn { known := [], boolA := [], mult := fun _ => .one, rej := false }

/-! ## `_update_attr_multiplicities` -/

/-- walker state: `oc_branch_set`, the multiplicities on the metaclass, and
whether `Can't use bool assignment inside repetition` was raised -/
structure St where
  seen : List Attr
  mult : Attr → M
  rej : Bool

/-- the `mult` a node hands to itself and its children -/
def repMult (plus : Bool) (m : M) : M :=
  if plus then .oneMore else if m = .oneMore then .oneMore else .zeroMore

/-- the `__asgn_*` node: `+=` is a OneOrMore, `*=` a ZeroOrMore, the others a
Sequence / Optional which leave `mult` alone -/
def asgnMult (op : Op) (m : M) : M :=
  match op with
  | .plus => repMult true m
  | .star => repMult false m
  | _ => m

def walkAsgn (m : M) (a : Attr) (op : Op) (s : St) : St :=
  let m' := asgnMult op m
  if m'.isMany then
    { seen := s.seen,
      rej := s.rej || (op == .bool),
      mult := if M.lt (s.mult a) m' then upd s.mult a m' else s.mult }
  else if a ∈ s.seen then
    { s with mult := upd s.mult a .oneMore }
  else
    { s with seen := a :: s.seen }

mutual
/-- `_update_attr_multiplicities(rule, oc_branch_set, mult)` -/
def walk (m : M) : Body → St → St
  | .leaf, s => s
  | .asgn a op, s => walkAsgn m a op s
  | .seq xs, s => walkSeq m xs s
  | .unordered xs, s => walkSeq m xs s
  | .opt x, s => walk m x s
  | .rep plus x, s => walk (repMult plus m) x s
  | .choice xs, s => walkAlts m xs s.seen s
def walkSeq (m : M) : List Body → St → St
  | [], s => s
  | x :: xs, s => walkSeq m xs (walk m x s)
/-- every alternative starts from a copy of the incoming branch set `seen0`;
the sets of the alternatives are merged into the accumulator -/
def walkAlts (m : M) : List Body → List Attr → St → St
  | [], _, acc => acc
  | x :: xs, seen0, acc =>
      let r := walk m x { seen := seen0, mult := acc.mult, rej := acc.rej }
      walkAlts m xs seen0 { seen := r.seen ++ acc.seen, mult := r.mult, rej := r.rej }
end

/-- the whole inference for one rule: visitor pass, then the walk from the root -/
def infer (b : Body) : St :=
  let v := visit (asgns b)
  walk .one b { seen := [], mult := v.mult, rej := v.rej }

/-- the grammar is accepted (neither of the two errors raised) -/
def accepted (b : Body) : Bool := !(infer b).rej

def multOf (b : Body) (a : Attr) : M := (infer b).mult a

def isList (b : Body) (a : Attr) : Bool := (multOf b a).isMany

/-! ## The rule level: `visit_textx_rule`

The body visitors reduce one-element sequences and choices to their element, so the
root of a rule body may be any expression.  `visit_textx_rule` wraps the root into a
one-element `Sequence` when it is a lone assignment, or when the rule has rule
modifiers (`[skipws]`, `[noskipws]`, `[ws=…]`, `[split=…]`) and the root is not a
`Sequence` (Arpeggio's `OrderedChoice` is a subclass of `Sequence`): only those apply
`ws` / `skipws` while parsing.  The multiplicity walk then starts from that root. -/

/-- a grammar rule: does it carry rule modifiers, and its body as the body visitors
return it -/
structure Rule where
  params : Bool
  body : Body
deriving Repr

/-- `root_rule.rule_name.startswith("__asgn")` -/
def Body.isAsgn : Body → Bool
  | .asgn _ _ => true
  | _ => false

/-- `isinstance(root_rule, Sequence)` for a root that is not an assignment node -/
def Body.isSeq : Body → Bool
  | .seq _ | .choice _ => true
  | _ => false

/-- the root parsing expression of the rule (`cls._tx_peg_rule`) -/
def Rule.root (r : Rule) : Body :=
  if r.body.isAsgn || (r.params && !r.body.isSeq) then .seq [r.body] else r.body

/-- the seeded variant "a root sequence of a single element is the wrapper of a lone
assignment, there is nothing to promote" (not the code): the walk is skipped for it -/
def inferSkipSingle (b : Body) : St :=
  let v := visit (asgns b)
  match b with
  | .seq [_] => { seen := [], mult := v.mult, rej := v.rej }
  | _ => walk .one b { seen := [], mult := v.mult, rej := v.rej }

/-! ### the walk before the repair (`oc_branch_set = set()` per alternative, never merged) -/

mutual
def walkOld (m : M) : Body → St → St
  | .leaf, s => s
  | .asgn a op, s => walkAsgn m a op s
  | .seq xs, s => walkSeqOld m xs s
  | .unordered xs, s => walkSeqOld m xs s
  | .opt x, s => walkOld m x s
  | .rep plus x, s => walkOld (repMult plus m) x s
  | .choice xs, s => walkAltsOld m xs s
def walkSeqOld (m : M) : List Body → St → St
  | [], s => s
  | x :: xs, s => walkSeqOld m xs (walkOld m x s)
def walkAltsOld (m : M) : List Body → St → St
  | [], acc => acc
  | x :: xs, acc =>
      let r := walkOld m x { seen := [], mult := acc.mult, rej := acc.rej }
      walkAltsOld m xs { seen := acc.seen, mult := r.mult, rej := r.rej }
end

def isListOld (b : Body) (a : Attr) : Bool :=
  ((walkOld .one b { seen := [], mult := (visit (asgns b)).mult, rej := false }).mult a).isMany

/-! ## Assignment events of one object and the trace language of a body -/

/-- one `__asgn_*` node of the parse tree below an object's node -/
inductive Ev (V : Type)
  | plain (a : Attr) (v : V)                 -- `__asgn_plain`
  | bool (a : Attr) (v : V)                  -- `__asgn_optional` (the value is `True`)
  | list (a : Attr) (plus : Bool) (vs : List V)   -- `__asgn_zeroormore` / `__asgn_oneormore`
deriving Repr

variable {V : Type}

def Ev.attr : Ev V → Attr
  | .plain a _ | .bool a _ | .list a _ _ => a

/-- the values the event matched, in input order -/
def Ev.vals : Ev V → List V
  | .plain _ v | .bool _ v => [v]
  | .list _ _ vs => vs

/-- does the event come from an assignment `a op`? -/
def Ev.fits (e : Ev V) (a : Attr) (op : Op) : Bool :=
  match e, op with
  | .plain b _, .plain => a == b
  | .bool b _, .bool => a == b
  | .list b false _, .star => a == b
  | .list b true _, .plus => a == b
  | _, _ => false

/-- all values matched for `a`, in input order -/
def valsOf (a : Attr) : List (Ev V) → List V
  | [] => []
  | e :: t => (if e.attr = a then e.vals else []) ++ valsOf a t

/-- weight of an event for `a`: a scalar assignment counts 1, a list assignment 2 -/
def Ev.w (a : Attr) : Ev V → Nat
  | .plain b _ | .bool b _ => if b = a then 1 else 0
  | .list b _ _ => if b = a then 2 else 0

def tw (a : Attr) : List (Ev V) → Nat
  | [] => 0
  | e :: t => e.w a + tw a t

mutual
/-- `Events b t`: `t` is a sequence of assignment events a parse of `b` can
perform on the object of the rule (an over-approximation of Arpeggio: PEG
commitment only removes traces).  A `*=` that matches nothing leaves no node,
a `?=` whose operand does not match neither.  Unordered group: every element
once; the trace of an element is inserted as one block somewhere into the trace
of the remaining elements (this contains every permutation of the elements). -/
def Events : Body → List (Ev V) → Prop
  | .leaf, t => t = []
  | .asgn a op, t =>
      (∃ e, t = [e] ∧ e.fits a op = true) ∨ ((op = .star ∨ op = .bool) ∧ t = [])
  | .seq xs, t => EventsSeq xs t
  | .choice xs, t => EventsAny xs t
  | .opt x, t => t = [] ∨ Events x t
  | .rep _ x, t => ∃ us : List (List (Ev V)), (∀ u ∈ us, Events x u) ∧ t = us.flatten
  | .unordered xs, t => EventsUn xs t
def EventsSeq : List Body → List (Ev V) → Prop
  | [], t => t = []
  | x :: xs, t => ∃ u v, t = u ++ v ∧ Events x u ∧ EventsSeq xs v
def EventsAny : List Body → List (Ev V) → Prop
  | [], _ => False
  | x :: xs, t => Events x t ∨ EventsAny xs t
def EventsUn : List Body → List (Ev V) → Prop
  | [], t => t = []
  | x :: xs, t => ∃ v u w, t = v ++ u ++ w ∧ Events x u ∧ EventsUn xs (v ++ w)
end

/-! ## The object's attribute store: `_init_obj_attrs` and `process_node` -/

/-- a Python attribute value as far as the assignment code distinguishes it -/
inductive Slot (V : Type)
  | none                      -- `None`
  | scalar (v : V)
  | list (vs : List V)
deriving Repr, DecidableEq

def Slot.vals : Slot V → List V
  | .none => []
  | .scalar v => [v]
  | .list vs => vs

inductive StoreErr
  | multAssign                -- TextXSemanticError, err_type "Multiple assignments"
  | crash                     -- AttributeError: `.append` on a non-list
deriving DecidableEq, Repr

abbrev Heap (V : Type) := Attr → Slot V

def Heap.set (h : Heap V) (a : Attr) (s : Slot V) : Heap V := fun x => if x = a then s else h x

/-- `_init_obj_attrs`: a list for "many" attributes, the (falsy) default otherwise -/
def initHeap (mult : Attr → M) (dflt : Attr → Slot V) : Heap V :=
  fun a => if (mult a).isMany then .list [] else dflt a

/-- the `for n in node` loop of the list branch -/
def storeList (h : Heap V) (a : Attr) : List V → Except StoreErr (Heap V)
  | [] => .ok h
  | v :: vs =>
      match h a with
      | .none => storeList (h.set a (.list [v])) a vs          -- `setattr(obj, attr, [])` then append
      | .list xs => storeList (h.set a (.list (xs ++ [v]))) a vs
      | .scalar _ => .error .crash

/-- one assignment node; `truthy` is Python truthiness of a value -/
def storeEv (truthy : V → Bool) (h : Heap V) : Ev V → Except StoreErr (Heap V)
  | .bool a v => .ok (h.set a (.scalar v))                   -- `setattr(obj_attr, attr_name, True)`
  | .plain a v =>
      match h a with
      | .scalar old =>
          if truthy old then .error .multAssign                -- `attr_value and not isinstance(attr_value, list)`
          else .ok (h.set a (.scalar v))
      | .none => .ok (h.set a (.scalar v))
      | .list xs => .ok (h.set a (.list (xs ++ [v])))          -- `attr_value.append(value)`
  | .list a _ vs => storeList h a vs

def store (truthy : V → Bool) (h : Heap V) : List (Ev V) → Except StoreErr (Heap V)
  | [] => .ok h
  | e :: t =>
      match storeEv truthy h e with
      | .ok h' => store truthy h' t
      | .error x => .error x

/-! ### the raw list assignment node: values and separator matches

`attr+=X[sep]` / `attr*=X[sep]`: Arpeggio's repetition appends the node of the
separator match and the node of the value to one flat list.  A separator that
matched the empty string leaves no node, a separator that matched before a value
that then failed stays as a trailing node, so values and separators do *not*
alternate.  `process_node` (after the `fix:` commit) skips a child exactly when it
was made by the separator match of this assignment (`n.rule is sep_rule`);
neither the child's rule name nor its place is looked at. -/

/-- one child `n` of an `__asgn_zeroormore` / `__asgn_oneormore` node: `rule`
identifies the parsing expression that made it (`n.rule`), `val` is what
`process_node(n)` returns for it -/
structure Kid (V : Type) where
  rule : Nat
  val : V
deriving Repr

/-- `sep_rule is None or n.rule is not sep_rule` -/
def Kid.kept (sep : Option Nat) (k : Kid V) : Bool :=
  match sep with
  | none => true
  | some s => k.rule != s

/-- the values of the children that are not separator matches, in input order -/
def kidVals (sep : Option Nat) (ks : List (Kid V)) : List V :=
  (ks.filter (Kid.kept sep)).map Kid.val

/-- the `for n in node` loop as it is written: separator children are skipped
where they stand, every other child is appended -/
def storeKids (h : Heap V) (a : Attr) (sep : Option Nat) : List (Kid V) → Except StoreErr (Heap V)
  | [] => .ok h
  | k :: ks =>
      if k.kept sep then
        match h a with
        | .none => storeKids (h.set a (.list [k.val])) a sep ks
        | .list xs => storeKids (h.set a (.list (xs ++ [k.val]))) a sep ks
        | .scalar _ => .error .crash
      else storeKids h a sep ks

/-- an `__asgn_*` node as Arpeggio hands it over: list assignments with all their
children and the separator match of their repeat modifiers (if any) -/
inductive Raw (V : Type)
  | plain (a : Attr) (v : V)
  | bool (a : Attr) (v : V)
  | list (a : Attr) (plus : Bool) (sep : Option Nat) (kids : List (Kid V))
deriving Repr

/-- the assignment event of a raw node: the values of its non-separator children -/
def Raw.ev : Raw V → Ev V
  | .plain a v => .plain a v
  | .bool a v => .bool a v
  | .list a plus sep ks => .list a plus (kidVals sep ks)

def storeRawEv (truthy : V → Bool) (h : Heap V) : Raw V → Except StoreErr (Heap V)
  | .plain a v => storeEv truthy h (.plain a v)
  | .bool a v => storeEv truthy h (.bool a v)
  | .list a _ sep ks => storeKids h a sep ks

/-- `process_node` over the raw assignment nodes of one object -/
def storeRaw (truthy : V → Bool) (h : Heap V) : List (Raw V) → Except StoreErr (Heap V)
  | [] => .ok h
  | e :: t =>
      match storeRawEv truthy h e with
      | .ok h' => storeRaw truthy h' t
      | .error x => .error x

/-- the seeded variant "separators stand at the odd places" (not the code):
with a separator every second child is skipped, whatever made it -/
def kidValsByPlace (sep : Option Nat) (ks : List (Kid V)) : List V :=
  match sep with
  | none => ks.map Kid.val
  | some _ => ((ks.zipIdx).filter (fun p => p.2 % 2 == 0)).map (fun p => p.1.val)

/-- the outcome of `store` observed at the attributes `as` -/
def peek (r : Except StoreErr (Heap V)) (as : List Attr) : StoreErr ⊕ List (Slot V) :=
  match r with
  | .ok h => .inr (as.map h)
  | .error e => .inl e

/-- a Python-falsy attribute default: `None`, or a scalar that the truthiness
test rejects (`0`, `""`, `False`, `0.0`) -/
def Falsy (truthy : V → Bool) : Slot V → Prop
  | .none => True
  | .scalar v => truthy v = false
  | .list _ => False

/-- the heap holds exactly the values matched by the events `p` processed so far:
a list attribute all of them in input order, a scalar attribute its single
value, or still its default when nothing was matched for it -/
def Stored (mult : Attr → M) (dflt : Attr → Slot V) (p : List (Ev V)) (h : Heap V) : Prop :=
  ∀ a, ((mult a).isMany = true → h a = .list (valsOf a p)) ∧
       ((mult a).isMany = false →
          (valsOf a p = [] ∧ h a = dflt a) ∨ (∃ v, valsOf a p = [v] ∧ h a = .scalar v))

/-- number of values matched for `a` -/
def nvals (a : Attr) (t : List (Ev V)) : Nat := (valsOf a t).length

mutual
/-- no ordered choice without alternatives (cannot be written in a grammar) -/
def Body.wf : Body → Bool
  | .leaf => true
  | .asgn _ _ => true
  | .seq xs => wfL xs
  | .choice xs => !xs.isEmpty && wfL xs
  | .opt x => x.wf
  | .rep _ x => x.wf
  | .unordered xs => wfL xs
def wfL : List Body → Bool
  | [] => true
  | x :: xs => x.wf && wfL xs
end

/-! ## Deciding `Events` on a concrete trace (used by the driver) -/

/-- all ways to cut a list in two -/
def splits {α : Type} : List α → List (List α × List α)
  | [] => [([], [])]
  | x :: xs => ([], x :: xs) :: (splits xs).map (fun p => (x :: p.1, p.2))

/-- all ways to cut a list in three -/
def splits3 {α : Type} (t : List α) : List (List α × List α × List α) :=
  (splits t).flatMap fun p => (splits p.2).map fun q => (p.1, q.1, q.2)

abbrev Acc (V : Type) := List (Ev V) → Bool

def asgnAcc (a : Attr) (op : Op) : Acc V := fun t =>
  match t with
  | [] => op == .star || op == .bool
  | [e] => e.fits a op
  | _ => false

def seqAcc : List (Acc V) → Acc V
  | [] => fun t => t.isEmpty
  | f :: fs => fun t => (splits t).any fun p => f p.1 && seqAcc fs p.2

def altAcc : List (Acc V) → Acc V
  | [] => fun _ => false
  | f :: fs => fun t => f t || altAcc fs t

/-- iterations with an empty trace add nothing and are not enumerated -/
def starAcc (f : Acc V) : Nat → Acc V
  | 0 => fun t => t.isEmpty
  | n + 1 => fun t => t.isEmpty || (splits t).any fun p => !p.1.isEmpty && f p.1 && starAcc f n p.2

def unAcc : List (Acc V) → Acc V
  | [] => fun t => t.isEmpty
  | f :: fs => fun t => (splits3 t).any fun q => f q.2.1 && unAcc fs (q.1 ++ q.2.2)

mutual
/-- `accepts b t = true ↔ Events b t` (`Proofs/Mult.lean`) -/
def accepts : Body → Acc V
  | .leaf => fun t => t.isEmpty
  | .asgn a op => asgnAcc a op
  | .seq xs => seqAcc (acceptsEach xs)
  | .choice xs => altAcc (acceptsEach xs)
  | .opt x => fun t => t.isEmpty || accepts x t
  | .rep _ x => fun t => starAcc (accepts x) t.length t
  | .unordered xs => unAcc (acceptsEach xs)
def acceptsEach : List Body → List (Acc V)
  | [] => []
  | x :: xs => accepts x :: acceptsEach xs
end

end Mult
