import TextxVerif.LoadTree
/-!
# The load-tree machine with the bookkeeping of the *pinned* code (before the C14 / C15 repairs)

Same walk as `LoadTree.node`, but with the handlers `textx/model.py` had at the pinned commit:

* `_restore_user_attr_methods` had no per-parser flag: every call decrements the counter of every class
  that has one (`restoreP`), also in a parser that never replaced anything (syntax error);
* the handler of `get_model_from_str` only restored; nothing ever removed the `_tx_obj_attrs` entries
  of objects whose constructor was not reached (no `_discard_user_obj_attrs`);
* the handlers of `parse_tree_to_objgraph` only cleaned the repositories: the parsers of imported
  models that were already parsed kept their count (no `_abort_model_construction`);
* a main model of an immutable type never gave back its count (no final restore).

Used for negation witnesses only (`C15_pinned_false`): the theorems of C14 / C15 are false for this
machine.  Driver op `run_pinned` runs it (checked against the pinned tree, see `notes/C15.md`).
-/
namespace LoadTree.Pinned

variable {α : Type}

/-- the pinned `_restore_user_attr_methods` -/
def restoreP (P : PRec) (sh : Sh α) : Sh α := decAll P.classes sh

/-- `_end_model_construction` -/
def endRecP (env : Env α) (r : PRec) (sh : Sh α) : Sh α × Bool :=
  initAll env r.pid r.classes r.insts (restoreP r sh)

def endAllP (env : Env α) : List PRec → Sh α → Sh α × Bool
  | [], sh => (sh, true)
  | r :: rs, sh =>
    let x := endRecP env r sh
    if x.2 then endAllP env rs x.1 else (x.1, false)

def phase2P (env : Env α) (ms : List PRec) (sh : Sh α) : Sh α × Bool :=
  let a := resolveAll env ms sh
  if !a.2 || ms.any (·.unresolved) then (a.1, false) else
  let b := endAllP env ms a.1
  if !b.2 then (b.1, false) else
  procAll env ms b.1

def frontP (env : Env α) (isMain hasImports : Bool) (pid : Nat) (classes : List ClassId) (syntaxOk : Bool) (root : OT)
    (pre : Option Hook) (resolve : List Hook) (unresolved : Bool) (oprocs : List Hook) (sh : Sh α) :
    Sh α ⊕ (PRec × Sh α) :=
  let P0 := newRec pid classes resolve unresolved oprocs
  if !syntaxOk then .inl (restoreP P0 sh) else
  let p := replace P0 sh
  let b := buildOT env p.2 root p.1
  if !b.2.2 then .inl (restoreP b.2.1 b.1) else
  if !isMain && root.isConv then .inl (restoreP b.2.1 b.1) else
  let q := match pre with
    | some h => runHook env 1 pid classes h b.1
    | none => (b.1, true)
  if !q.2 then .inl (restoreP b.2.1 q.1) else
  if root.isConv && hasImports then .inl (restoreP b.2.1 q.1) else .inr (b.2.1, q.1)

def backP (env : Env α) (isMain immut : Bool) (pid : Nat) (classes : List ClassId) (mproc : Hook)
    (P : PRec) (repo mine : List PRec) (sh : Sh α) : Sh α × Option (List PRec) :=
  if isMain then
    let ms := if immut then [] else P :: (repo ++ mine)
    let r := phase2P env ms sh
    if !r.2 then (restoreP P r.1, none) else
    let m := runHook env 5 pid classes mproc r.1
    (m.1, if m.2 then some [] else none)
  else
    let m := runHook env 5 pid classes mproc sh
    (m.1, if m.2 then some (P :: mine) else none)

mutual
def nodeP (env : Env α) (isMain : Bool) : Load → List PRec → Sh α → Sh α × Option (List PRec)
  | .mk pid classes syntaxOk root pre imps resolve unresolved oprocs mproc, repo, sh =>
    match frontP env isMain (!imps.isEmpty) pid classes syntaxOk root pre resolve unresolved oprocs sh with
    | .inl sh' => (sh', none)
    | .inr (P, sh1) =>
      match importListP env imps repo [] sh1 with
      | (sh2, none) => (restoreP P sh2, none)
      | (sh2, some mine) => backP env isMain root.isConv pid classes mproc P repo mine sh2
def importListP (env : Env α) : List Load → List PRec → List PRec → Sh α → Sh α × Option (List PRec)
  | [], _, mine, sh => (sh, some mine)
  | L :: Ls, repo, mine, sh =>
    match nodeP env false L (repo ++ mine) sh with
    | (sh, none) => (sh, none)
    | (sh, some new) => importListP env Ls repo (mine ++ new) sh
end

def runMainP (env : Env α) (L : Load) (sh : Sh α) : Sh α × Bool :=
  let r := nodeP env true L [] sh
  (r.1, r.2.isSome)

/-- loads started by user code are pinned loads again -/
def runFP (table : List Load) : Nat → Load → Sh α → Sh α × Bool
  | 0, _, sh => (sh, false)
  | n + 1, L, sh => runMainP (tableEnv (runFP table n) table) L sh

end LoadTree.Pinned
