import TextxVerif.BaseTypes
/-!
# Lines of literals and a recogniser of the literal forms (C04)

`Item` / `litLine`   a text made of literals of one kind, each preceded by
                     whitespace, followed by trailing whitespace — what
                     `Model: v*=TYPE;` is given.
`NumLit`             what NUMBER reads: an int literal or a float literal
                     written with a '.' or an exponent.
`floatLit?`          recogniser of the float-literal grammar `FloatLit` on a
                     text of ASCII characters (independent of the regexes: a
                     hand-written scanner, sign / digits / '.' / digits /
                     exponent); `intLit?` the same for `[-+]?[0-9]+`.
                     The driver answers op `lit` with them, and the harness
                     checks on every generated literal (`repr`, `%e`, `%g`,
                     `%f`, `str(int)` …) that it is of the form the theorems
                     quantify over.
Model file: core Lean only.
-/
namespace BaseTypes
open Re

/-- one literal of a line: the whitespace before it and the literal -/
structure Item (α : Type) where
  ws : List Char
  lit : α
deriving Repr

/-- the text of several literals, each preceded by its whitespace, and trailing characters -/
def litLine {α : Type} (text : α → List Char) : List (Item α) → List Char → List Char
  | [], tail => tail
  | i :: is, tail => i.ws ++ (text i.lit ++ litLine text is tail)

/-- the literals are separated: every item but the first has at least one whitespace character before it -/
def Separated {α : Type} (items : List (Item α)) : Prop := ∀ i ∈ items.tail, i.ws ≠ []

/-- what NUMBER reads -/
inductive NumLit
  | int (i : IntLit)
  | float (f : FloatLit)
deriving Repr

def NumLit.text : NumLit → List Char
  | .int i => i.text
  | .float f => f.text

/-- an int literal goes to `int()`, a literal with '.' or exponent to `float()` -/
def NumLit.val : NumLit → Py.Val
  | .int i => .int i.text
  | .float f => .float f.text

def NumLit.WF (cc : CharClasses) : NumLit → Prop
  | .int i => i.WF
  | .float f => f.WF cc ∧ f.Strict

/-! ## recognisers (ASCII digits) -/

/-- longest prefix of ASCII digits and the rest -/
def spanDigits : List Char → List Char × List Char
  | [] => ([], [])
  | c :: cs => if asciiDigit c then (c :: (spanDigits cs).1, (spanDigits cs).2) else ([], c :: cs)

/-- optional sign -/
def spanSign : List Char → List Char × List Char
  | [] => ([], [])
  | c :: cs => if c = '+' ∨ c = '-' then ([c], cs) else ([], c :: cs)

/-- `[-+]?[0-9]+` exactly -/
def intLit? (t : List Char) : Option IntLit :=
  match spanDigits (spanSign t).2 with
  | (d :: ds, []) => some ⟨(spanSign t).1, d, ds⟩
  | _ => none

/-- mantissa at the start of `t`: `12.5` `12.` `.5` `12`, longest -/
def mant? (t : List Char) : Option (Mant × List Char) :=
  match spanDigits t with
  | (d :: ds, t1) =>
      match t1 with
      | c :: t2 => if c = '.' then some (.intDot d ds (spanDigits t2).1, (spanDigits t2).2) else some (.int d ds, t1)
      | [] => some (.int d ds, [])
  | ([], t1) =>
      match t1 with
      | c :: t2 =>
          if c = '.' then
            match spanDigits t2 with
            | (f :: fs, t3) => some (.dotFrac f fs, t3)
            | ([], _) => none
          else none
      | [] => none

/-- exponent covering all of `t`, or nothing when `t` is empty -/
def exp? : List Char → Option (Option Exp)
  | [] => some none
  | e :: t =>
      if e = 'e' ∨ e = 'E' then
        match spanDigits (spanSign t).2 with
        | (d :: ds, []) => some (some ⟨e, (spanSign t).1, d, ds⟩)
        | _ => none
      else none

/-- the float-literal grammar, exactly (whole text) -/
def floatLit? (t : List Char) : Option FloatLit :=
  match mant? (spanSign t).2 with
  | some (mt, t2) =>
      match exp? t2 with
      | some x => some ⟨(spanSign t).1, mt, x⟩
      | none => none
  | none => none

def FloatLit.strictB (f : FloatLit) : Bool := f.mant.hasDot || f.exp.isSome

/-- what NUMBER reads, recognised on a whole text: an int literal, else a float literal written with
'.' or exponent -/
def numLit? (t : List Char) : Option NumLit :=
  match intLit? t with
  | some i => some (.int i)
  | none =>
      match floatLit? t with
      | some f => if f.strictB then some (.float f) else none
      | none => none

/-- classification of a literal text (driver op `tokens`, field `lits`): 0 = not a literal of NUMBER,
1 = int literal, 2 = float literal with '.' or exponent -/
def litKind (t : List Char) : Nat :=
  match numLit? t with
  | some (.int _) => 1
  | some (.float _) => 2
  | none => 0

/-- the value NUMBER gives to a recognised literal text -/
def numVal (t : List Char) : Py.Val := if litKind t = 1 then .int t else .float t

/-! ## a line given as plain text: the hypotheses of the line theorems as a decidable check -/

/-- the bool a BOOL spelling stands for -/
def boolOf (t : List Char) : Option Bool := (boolSpellings.find? (fun sp => sp.1 == t)).map (·.2)

/-- decode a quoted string literal: its quote character and its content (`\\q` → `q`), provided the
text is exactly `encode q s` for a string `s` that does not end in a backslash -/
def strLit? (t : List Char) : Option (Char × List Char) :=
  match t with
  | q :: r =>
      if (q = '"' ∨ q = '\'') ∧ r.getLast? = some q then
        if escape q (Py.replace r.dropLast ['\\', q] [q]) = r.dropLast ∧
            noTrailingBackslash (Py.replace r.dropLast ['\\', q] [q]) then
          some (q, Py.replace r.dropLast ['\\', q] [q])
        else none
      else none
  | [] => none

/-- is the text `t` a literal of the form the theorems about `ty` quantify over? -/
def litOk (ty : BaseType) (t : List Char) : Bool :=
  match ty with
  | .INT => litKind t == 1
  | .NUMBER => litKind t != 0
  | .STRICTFLOAT => litKind t == 2
  | .FLOAT => (floatLit? t).isSome
  | .BOOL => (boolOf t).isSome
  | .STRING => (strLit? t).isSome

/-- the value `ty` is to give to the literal text `t` -/
def litVal (ty : BaseType) (t : List Char) : Py.Val :=
  match ty with
  | .INT => .int t
  | .NUMBER => numVal t
  | .BOOL => .bool ((boolOf t).getD false)
  | .STRING => .str (((strLit? t).map (·.2)).getD [])
  | _ => .float t

/-- whitespace before every literal, literals of the right form, separated (strings may touch), trailing
whitespace (driver op `tokens`, field `items`: the harness's own idea of "this case satisfies the property's
hypothesis" is compared with this) -/
def lineHyp (ty : BaseType) (items : List (Item (List Char))) (tail : List Char) : Bool :=
  items.all (fun i => i.ws.all isWs && litOk ty i.lit) &&
    (ty == .STRING || items.tail.all (fun i => !i.ws.isEmpty)) && tail.all isWs

end BaseTypes
