import TextxVerif.Select
/-! GENERATED on every run by harness/props/c32.py (`translate`) from the list
expression `attr_refs = [...]` in textx/model.py — never edit by hand. -/
namespace Gen
open Select

def providerOrder : List KeyExpr :=
  [[.cls, .lit ".", .attr], [.lit "*.", .attr], [.cls, .lit ".*"], [.lit "*.*"]]

end Gen
