import TextxVerif.ParamsLoad
/-! GENERATED on every run by harness/props/c27.py (`translate`) from the body of
`ModelParamDefinitions.check_params` in textx/model_params.py — never edit by hand. -/
namespace Gen
open ParamsLoad

/-- body of `for k in kwargs:` -/
def checkParamsBody : Stmt :=
  .ite .notInStore .raise .pass

end Gen
