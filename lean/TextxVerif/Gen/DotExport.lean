/-! GENERATED from textx/export.py by harness/c29_translate.py on every run of `./check C29` —
do not edit.  `dot_escape` (replace chain), `dot_repr` (limit and delimiters), `HEADER`. -/
namespace Gen.Dot

/-- `dot_escape`: the `.replace(old, new)` calls in application order -/
def escapePairs : List (Char × List Char) :=
  [('\n', ['\\', 'n']),
   ('\\', ['\\', '\\']),
   ('"', ['\\', '"']),
   ('|', ['\\', '|']),
   ('{', ['\\', '{']),
   ('}', ['\\', '}']),
   ('>', ['\\', '>']),
   ('<', ['\\', '<']),
   ('?', ['\\', '?'])]

/-- `dot_repr`: `len(escaped) > reprLimit` selects the truncated form -/
def reprLimit : Nat := 20
def reprTake : Nat := 20
def reprOpenLong : List Char := ['\'']
def reprCloseLong : List Char := ['.', '.', '.', '\'']
def reprOpenShort : List Char := ['\'']
def reprCloseShort : List Char := ['\'']

/-- `HEADER` -/
def header : List Char :=
  ['\n', ' ', ' ', ' ', ' ', 'd', 'i', 'g', 'r', 'a', 'p', 'h', ' ', 't', 'e', 'x', 't', 'X', ' ', '{', '\n', ' ', ' ', ' ', ' ', 'f', 'o', 'n', 't', 'n', 'a', 'm', 'e', ' ', '=', ' ', '"', 'B', 'i', 't', 's', 't', 'r', 'e', 'a', 'm', ' ', 'V', 'e', 'r', 'a', ' ', 'S', 'a', 'n', 's', '"', '\n', ' ', ' ', ' ', ' ', 'f', 'o', 'n', 't', 's', 'i', 'z', 'e', ' ', '=', ' ', '8', '\n', ' ', ' ', ' ', ' ', 'n', 'o', 'd', 'e', '[', '\n', ' ', ' ', ' ', ' ', ' ', ' ', ' ', ' ', 's', 'h', 'a', 'p', 'e', '=', 'r', 'e', 'c', 'o', 'r', 'd', ',', '\n', ' ', ' ', ' ', ' ', ' ', ' ', ' ', ' ', 's', 't', 'y', 'l', 'e', '=', 'f', 'i', 'l', 'l', 'e', 'd', ',', '\n', ' ', ' ', ' ', ' ', ' ', ' ', ' ', ' ', 'f', 'i', 'l', 'l', 'c', 'o', 'l', 'o', 'r', '=', 'a', 'l', 'i', 'c', 'e', 'b', 'l', 'u', 'e', '\n', ' ', ' ', ' ', ' ', ']', '\n', ' ', ' ', ' ', ' ', 'n', 'o', 'd', 'e', 's', 'e', 'p', ' ', '=', ' ', '0', '.', '3', '\n', ' ', ' ', ' ', ' ', 'e', 'd', 'g', 'e', '[', 'd', 'i', 'r', '=', 'b', 'l', 'a', 'c', 'k', ',', 'a', 'r', 'r', 'o', 'w', 't', 'a', 'i', 'l', '=', 'e', 'm', 'p', 't', 'y', ']', '\n', '\n', '\n']

end Gen.Dot
