/-!
# The table of object processors of a meta-model (round X04, property C04)

`TextXMetaModel.__init__` builds `_default_obj_processors` (the built-in conversions of BOOL, INT, FLOAT,
STRICTFLOAT, STRING) and calls `register_obj_processors({})`;

    def register_obj_processors(self, obj_processors):
        self._obj_processors = dict(self._default_obj_processors)
        self._obj_processors.update(obj_processors)

`metamodel.process(value, type)` applies `self._obj_processors.get(type, identity)`.
The table after a registration is a *fresh copy* of the defaults updated by the user's dict: it does not
depend on the table before (the copy is what `C04_registration_replaces` rests on; the correspondence op
`tokens` + `"hist"` compares `inForce` with the live table of the meta-model after the same history).
-/
namespace BaseTypes.Registry

/-- which callable a key of the table is bound to -/
inductive Proc where
  | builtin            -- the entry of `_default_obj_processors`
  | user (name : String)  -- a processor supplied by the user (identified by a name)
  deriving DecidableEq, Repr

/-- a Python dict `key ↦ callable` -/
abbrev Dict := String → Option Proc

/-- the keys of `_default_obj_processors` -/
def defaultKeys : List String := ["BOOL", "INT", "FLOAT", "STRICTFLOAT", "STRING"]

/-- `_default_obj_processors` -/
def defaults : Dict := fun k => if k ∈ defaultKeys then some .builtin else none

/-- `d.update(u)` (entries of `u` in order; a later entry for the same key wins) -/
def update (d : Dict) (u : List (String × String)) : Dict :=
  u.foldl (fun d kv => fun k => if k = kv.1 then some (.user kv.2) else d k) d

/-- `register_obj_processors(ps)`: the new table; the old one is dropped -/
def register (_old : Dict) (ps : List (String × String)) : Dict := update defaults ps

/-- the table of a meta-model after `__init__` and a history of registrations -/
def after (hist : List (List (String × String))) : Dict :=
  hist.foldl register (register (fun _ => none) [])

theorem update_other (d : Dict) (u : List (String × String)) (k : String)
    (hk : ∀ kv ∈ u, kv.1 ≠ k) : update d u k = d k := by
  induction u generalizing d with
  | nil => rfl
  | cons kv u ih =>
    simp only [update, List.foldl_cons]
    have h1 : kv.1 ≠ k := hk kv (by simp)
    have := ih (fun k' => if k' = kv.1 then some (.user kv.2) else d k') (fun x hx => hk x (by simp [hx]))
    simp only [update] at this
    rw [this]
    simp [Ne.symm h1]

theorem after_snoc (hist : List (List (String × String))) (ps : List (String × String)) :
    after (hist ++ [ps]) = update defaults ps := by
  simp [after, List.foldl_append, register]

end BaseTypes.Registry
