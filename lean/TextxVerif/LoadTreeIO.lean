import TextxVerif.Wire
import TextxVerif.LoadTree
import TextxVerif.LoadTreePinned
/-! JSON decoding / encoding for the load-tree driver (compiled with the library so that
`lean --run Drivers/LoadTree.lean` starts fast). 
ops:
  {"op":"run","nclasses":n,"loads":[Load…],"kw"?:[{"attrs","assigned","contained","extras","ops"?:[[isSet,name]…]}…]}
      → {"ok":bool,"events":[[kind,pid,lab,[[cnt,instr,saved,nkeys]…]]…],
         "final":[[cnt,instr,saved,nkeys]…],"restored":[bool…]}
     loads[0] is run from the clean state; hooks may start loads[k] (k = action)
     optional "then":[Load…]: later attempts with the same classes, one after the other (`runNext` on
     `runHist`: the state the earlier attempts left, own event lists; hooks may start loads[k] again)
      → additionally "then":[{"ok":bool,"events":[…],"final":[…]}…]
  {"op":"run_pinned","nclasses":n,"loads":[Load…]} → {"ok","events","final","restored"}: the same tree on the machine
      with the bookkeeping of the pinned code (`LoadTreePinned.lean`)
  {"op":"kwargs","attrs":[…],"assigned":[…],"contained":bool,"extras":[…],"ops"?:[[isSet,name]…]} → {"keys":[…]}
Load  = {"pid","classes":[…],"syntax_ok","immut","root":OT,"pre"?:Hook,"imports":[Load…],
         "resolve":[Hook…],"unresolved","oprocs":[Hook…],"mproc":Hook}
OT    = {"conv":Hook} | {"cls"?:n,"init":Hook,"kids":[OT…]}
Hook  = {"lab":n,"acts":[[k,swallow]…],"raises":bool}
-/
open Lean Wire LoadTree

namespace LoadTreeIO


def parseHook (j : Json) : Option Hook := do
  let lab ← getNat? j "lab"
  let acts ← getArr? j "acts"
  let acts ← acts.toList.mapM fun e => do
    let xs ← asArr? e
    let a ← asNat? (← xs[0]?)
    let s ← asBool? (← xs[1]?)
    if xs.size = 2 then pure (a, s) else none
  let raises ← getBool? j "raises"
  pure { lab, acts, raises }

partial def parseOT (j : Json) : Option OT :=
  match getObj? j "conv" with
  | some h => do pure (.conv (← parseHook h))
  | none => do
    let init ← parseHook (← getObj? j "init")
    let kids ← getArr? j "kids"
    let kids ← kids.toList.mapM parseOT
    match getObj? j "cls" with
    | some c => do pure (.obj (some (← asNat? c)) init kids)
    | none => pure (.obj none init kids)

partial def parseLoad (j : Json) : Option Load := do
  let pid ← getNat? j "pid"
  let classes ← getNatList? j "classes"
  let syntaxOk ← getBool? j "syntax_ok"
  let immut ← getBool? j "immut"
  let root ← parseOT (← getObj? j "root")
  let pre ← match getObj? j "pre" with
    | some h => do pure (some (← parseHook h))
    | none => pure none
  let imps ← getArr? j "imports"
  let imps ← imps.toList.mapM parseLoad
  let res ← getArr? j "resolve"
  let res ← res.toList.mapM parseHook
  let unresolved ← getBool? j "unresolved"
  let op ← getArr? j "oprocs"
  let op ← op.toList.mapM parseHook
  let mproc ← parseHook (← getObj? j "mproc")
  -- immutable model <=> the top rule application is a match rule; such a model cannot
  -- import (ImportURI needs attributes on the model)
  if immut != root.isConv then none
  if immut && !imps.isEmpty then none
  pure (.mk pid classes syntaxOk root pre imps res unresolved op mproc)

def cleanState (_n : Nat) : Sh Nat :=
  { core := fun c => { cnt := 0, cur := .real c, saved := none }, attrs := [], next := 0, log := [], own := [] }

def snapJson (s : List (Nat × Bool × Bool × Nat)) : Json :=
  toJson (s.map fun (a, b, c, d) => Json.arr #[toJson a, toJson b, toJson c, toJson d])

def evsJson (l : List Ev) : Json :=
  toJson (l.map fun e => Json.arr #[toJson e.kind, toJson e.pid, toJson e.lab, snapJson e.snap])

/-- `[[isSet, name]…]`; an absent field = no stores of user code -/
def parseOps (j : Json) : Option (List Kw.Op) :=
  match getArr? j "ops" with
  | none => if (getObj? j "ops").isSome then none else some []
  | some a => a.toList.mapM fun e => do
    let xs ← asArr? e
    let b ← asBool? (← xs[0]?)
    let k ← asStr? (← xs[1]?)
    if xs.size = 2 then pure (if b then Kw.Op.set k else Kw.Op.del k) else none

def kwOne (j : Json) : Option Json :=
  match getStrList? j "attrs", getStrList? j "assigned", getBool? j "contained", getStrList? j "extras", parseOps j with
  | some a, some s, some c, some e, some ops => some (toJson (Kw.kwargs a c (Kw.collectedOps a s c e ops)))
  | _, _, _, _, _ => none

def handle (j : Json) : Json :=
  match getStr? j "op" with
  | some "run" =>
    let kw : Option (List Json) := match getArr? j "kw" with
      | some a => a.toList.mapM kwOne
      | none => if (getObj? j "kw").isSome then none else some []
    let thens : Option (List Load) := match getArr? j "then" with
      | some a => a.toList.mapM parseLoad
      | none => if (getObj? j "then").isSome then none else some []
    match getNat? j "nclasses", (getArr? j "loads").bind (fun a => a.toList.mapM parseLoad), kw, thens with
    | some n, some (L :: Ls), some kws, some thens =>
      let table := L :: Ls
      let fuel := table.length + 1
      let r := runF table fuel L (cleanState n)
      let cs := List.range n
      let later := (List.range thens.length).filterMap fun i =>
        match thens[i]? with
        | none => none
        | some L' =>
          let hist := (table, fuel, L) :: (thens.take i).map fun X => (table, fuel, X)
          let r' := runNext table fuel L' (runHist hist (cleanState n))
          some (Json.mkObj [("ok", toJson r'.2), ("events", evsJson r'.1.log), ("final", snapJson (snapOf cs r'.1))])
      Json.mkObj ([
        ("ok", toJson r.2),
        ("events", evsJson r.1.log),
        ("own", toJson (r.1.own.map fun e => e.lab)),
        ("final", snapJson (snapOf cs r.1)),
        ("restored", toJson (cs.map fun c => decide ((r.1.core c).cur = .real c))),
        ("kw", toJson kws)] ++ (if thens.isEmpty then [] else [("then", toJson later)]))
    | _, _, _, _ => badOp
  | some "run_pinned" =>
    -- the machine with the pinned bookkeeping (`LoadTreePinned.lean`); for experiments against the pinned tree
    match getNat? j "nclasses", (getArr? j "loads").bind (fun a => a.toList.mapM parseLoad) with
    | some n, some (L :: Ls) =>
      let table := L :: Ls
      let r := Pinned.runFP table (table.length + 1) L (cleanState n)
      let cs := List.range n
      Json.mkObj [
        ("ok", toJson r.2),
        ("events", evsJson r.1.log),
        ("final", snapJson (snapOf cs r.1)),
        ("restored", toJson (cs.map fun c => decide ((r.1.core c).cur = .real c)))]
    | _, _ => badOp
  | some "kwargs" =>
    match kwOne j with
    | some keys => Json.mkObj [("keys", keys)]
    | none => badOp
  | _ => badOp


end LoadTreeIO
