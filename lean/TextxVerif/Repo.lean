/-!
# Model repositories of multi-file loads (C17, C18)

Mirrors, after the `fix:` commit on `metamodel.py`:

* `textx/scoping/__init__.py`  `ModelRepository` (an insertion-ordered dict
  file name → model), `GlobalModelRepository.load_model`,
  `update_model_in_repo_based_on_filename`, `pre_ref_resolution_callback`,
  `get_included_models`, `remove_models_from_repositories`;
* `textx/scoping/providers.py`  `ImportURI.load_models / _load_referenced_models`
  (the sequence of `load_model` calls one model issues) and `ImportURI.__call__`
  (lookup order self → local models → builtin models);
* `textx/metamodel.py`  `internal_model_from_file` (global-repository cache
  check, callback, read, model processors, `_call_model_processors`);
* `textx/model.py`  `parse_tree_to_objgraph` (construction marker, callback,
  model loaders, main-model resolution / end of construction / object
  processors, the two exception handlers) and
  `_remove_all_affected_models_in_construction`.

Python objects are instance numbers (`Inst`), allocated in parse order.  All
`GlobalModelRepository` objects alive during one load share one `all_models`
dict (`St.all`); each model has its own `local_models` (`St.loc i`).  With a
metamodel-global repository `St.all` survives from load to load, without one
each main load starts from a fresh, empty dict.

Core Lean only.
-/
namespace Repo

abbrev File := Nat
abbrev Inst := Nat
abbrev Name := Nat
/-- `ModelRepository.filename_to_model`: insertion ordered, unique keys -/
abbrev Dict := List (File × Inst)

def upd {α : Type} (f : Nat → α) (i : Nat) (v : α) : Nat → α := fun k => if k = i then v else f k

namespace Dict
def has (d : Dict) (f : File) : Bool := d.any (fun e => e.1 == f)
def get? (d : Dict) (f : File) : Option Inst := (d.find? (fun e => e.1 == f)).map (·.2)
/-- `d[f] = i` : in place when the key exists, appended otherwise -/
def set : Dict → File → Inst → Dict
  | [], f, i => [(f, i)]
  | (g, j) :: r, f, i => if g = f then (g, i) :: r else (g, j) :: set r f i
/-- `remove_model` for every model satisfying `p` (each model sits under one key) -/
def removeVals (d : Dict) (p : Inst → Bool) : Dict := d.filter (fun e => !p e.2)
def vals (d : Dict) : List Inst := d.map (·.2)
def keys (d : Dict) : List File := d.map (·.1)
end Dict

inductive Kind | syntax | io | semantic | objproc | modproc
deriving DecidableEq, Repr

inductive Res | ok | fail (k : Kind) | fuel
deriving DecidableEq, Repr

/-- where a reference ends up: element `n` of model instance `i`, or of builtin model `k` -/
inductive Target | elem (i : Inst) (n : Name) | builtin (k : Nat) (n : Name)
deriving DecidableEq, Repr

/-- The files as they are on disk during one load, and the metamodel configuration. -/
structure Spec where
  /-- the `load_model` calls a model of this file issues, in order
      (`none`: an import statement that finds no file → `OSError`) -/
  calls : File → List (Option File)
  defs : File → List Name
  refs : File → List Name
  syntaxErr : File → Bool
  objFault : File → Bool
  modFault : File → Bool
  builtins : List (List Name)
  /-- the metamodel has a global repository -/
  glob : Bool

/-- expansion of the import statements of one file into `load_model` calls:
`passes` = how often `load_models` runs for the model (once per registered
`ModelLoader` provider; once per cross-reference for a provider attached to an
attribute through RREL `+m:`), every statement expanded to its files (glob
order / search-path hit), an empty expansion raising `OSError`. -/
def mkCalls (passes : Nat) (stmts : List (List File)) : List (Option File) :=
  (List.replicate passes (stmts.flatMap fun e => if e.isEmpty then [none] else e.map some)).flatten

structure St where
  next : Inst
  /-- files opened, newest first -/
  reads : List File
  all : Dict
  loc : Inst → Dict
  /-- `hasattr(model, "_tx_reference_resolver")`: model being constructed -/
  constr : Inst → Bool
  fileOf : Inst → File
  defsOf : Inst → List Name
  /-- resolved reference targets, set when the main model's resolution succeeds -/
  tgt : Inst → List Target

def St.init : St :=
  { next := 0, reads := [], all := [], loc := fun _ => [], constr := fun _ => false,
    fileOf := fun _ => 0, defsOf := fun _ => [], tgt := fun _ => [] }

/-- `self.local_models[filename] = new_model` on the repository of model `i` -/
def St.setLoc (st : St) (i : Inst) (g : File) (j : Inst) : St :=
  { st with loc := upd st.loc i ((st.loc i).set g j) }

def St.setAll (st : St) (g : File) (j : Inst) : St := { st with all := st.all.set g j }

/-- `update_model_in_repo_based_on_filename(model)` for a model with a file name -/
def St.registerSelf (st : St) (i : Inst) : St :=
  if st.all.has (st.fileOf i) then st else st.setAll (st.fileOf i) i

/-- `get_included_models(model)` -/
def included (st : St) (i : Inst) : List Inst :=
  if st.all.vals.contains i then st.all.vals else st.all.vals ++ [i]

/-- `remove_models_from_repositories(models, rm)`: every model's metamodel
repository and own repository share `all`; the own `local_models` differ. -/
def removeFromRepos (st : St) (models rm : List Inst) : St :=
  if models.isEmpty then st else
  { st with
    all := st.all.removeVals (rm.contains ·),
    loc := fun i => if models.contains i then (st.loc i).removeVals (rm.contains ·) else st.loc i }

/-- `_remove_all_affected_models_in_construction(model)` -/
def cleanupA (st : St) (i : Inst) : St :=
  let affected := included st i
  removeFromRepos st affected (affected.filter st.constr)

/-- `_call_model_processors` failure path (the fix): remove from the global
repository the models that were not in it before the load. -/
def removeNew (glob : Bool) (st : St) (before : List Inst) : St :=
  if glob then { st with all := st.all.removeVals (fun j => !before.contains j) } else st

/-- the parser for an imported file: state, file ↦ state, result, new instance -/
abbrev Parse := St → File → St × Res × Inst

/-- `GlobalModelRepository.load_model` on the repository of model `i` -/
def loadModelWith (parse : Parse) (st : St) (i : Inst) (g : File) : St × Res :=
  if (st.loc i).has g then (st, .ok)
  else if st.all.has g then
    (st.setLoc i g ((st.all.get? g).getD 0), .ok)
  else
    match parse st g with
    | (st1, .ok, j) => ((st1.setAll g j).setLoc i g j, .ok)
    | (st1, r, _) => (st1, r)

/-- `_load_referenced_models`: the calls of model `i`, in order, stopping at the first error -/
def loadCalls (parse : Parse) (i : Inst) : St → List (Option File) → St × Res
  | st, [] => (st, .ok)
  | st, c :: cs =>
    let st := st.registerSelf i
    match c with
    | none => (st, .fail .io)
    | some g =>
      match loadModelWith parse st i g with
      | (st1, .ok) => loadCalls parse i st1 cs
      | (st1, r) => (st1, r)

/-- a new model object for file `g`: `_start_model_construction`, attributes -/
def St.alloc (st : St) (S : Spec) (g : File) : St :=
  { st with next := st.next + 1, fileOf := upd st.fileOf st.next g, defsOf := upd st.defsOf st.next (S.defs g),
            constr := upd st.constr st.next true, loc := upd st.loc st.next [] }

/-- `internal_model_from_file(g, is_main_model=False, pre_ref_resolution_callback=…)`
called from `load_model`; `fuel` bounds the nesting depth of loads. -/
def internal (S : Spec) : Nat → Parse
  | 0, st, _ => (st, .fuel, 0)
  | fuel + 1, st, g =>
    let st := { st with reads := g :: st.reads }
    if S.syntaxErr g then (st, .fail .syntax, 0) else
    let j := st.next
    -- the callback stores the model in `all` before its imports are followed
    let st := (st.alloc S g).setAll g j
    match loadCalls (internal S fuel) j st (S.calls g) with
    | (st1, .ok) => if S.modFault g then (st1, .fail .modproc, 0) else (st1, .ok, j)
    | (st1, .fuel) => (st1, .fuel, 0)
    | (st1, r) => (cleanupA st1 j, r, 0)

/-- `ImportURI.__call__` over plain names: the model itself, its local models
in insertion order, the builtin models -/
def lookup (S : Spec) (st : St) (i : Inst) (n : Name) : Option Target :=
  if (st.defsOf i).contains n then some (.elem i n)
  else match (st.loc i).find? (fun e => (st.defsOf e.2).contains n) with
    | some e => some (.elem e.2 n)
    | none => match S.builtins.findIdx? (·.contains n) with
      | some k => some (.builtin k n)
      | none => none

def resolveAll (S : Spec) (st : St) (i : Inst) : List (Option Target) :=
  (S.refs (st.fileOf i)).map (lookup S st i)

def St.setTargets (st : St) (S : Spec) (models : List Inst) : St :=
  { st with tgt := fun i => if models.contains i then (resolveAll S st i).filterMap id else st.tgt i }

/-- `_end_model_construction` for every model of the load -/
def St.endConstruction (st : St) (models : List Inst) : St :=
  { st with constr := fun i => if models.contains i then false else st.constr i }

/-- `metamodel.model_from_file(f)` = `internal_model_from_file(f, is_main_model=True)` -/
def loadMain (S : Spec) (fuel : Nat) (st0 : St) (f : File) : St × Res × Inst :=
  -- without a global repository the main model gets a fresh repository
  let st0 := if S.glob then st0 else { st0 with all := [] }
  let before := st0.all.vals
  if S.glob && st0.all.has f then
    -- cached: no read; the model processors run again
    if S.modFault f then (removeNew S.glob st0 before, .fail .modproc, 0)
    else (st0, .ok, (st0.all.get? f).getD 0)
  else
    let st := { st0 with reads := f :: st0.reads }
    if S.syntaxErr f then (st, .fail .syntax, 0) else
    let j := st.next
    let st := st.alloc S f
    let st := if S.glob then st.setAll f j else st
    match loadCalls (internal S fuel) j st (S.calls f) with
    | (st1, .fuel) => (st1, .fuel, 0)
    | (st1, .fail k) => (cleanupA st1 j, .fail k, 0)
    | (st1, .ok) =>
      let models := (included st1 j).filter st1.constr
      if models.any (fun m => (resolveAll S st1 m).any (·.isNone)) then
        (cleanupA (removeFromRepos st1 models models) j, .fail .semantic, 0)
      else
        let st2 := (st1.setTargets S models).endConstruction models
        if models.any (fun m => S.objFault (st2.fileOf m)) then
          (cleanupA (removeFromRepos st2 models models) j, .fail .objproc, 0)
        else if S.modFault f then (removeNew S.glob st2 before, .fail .modproc, 0)
        else (st2, .ok, j)

end Repo
