import TextxVerif.Re
import TextxVerif.Gen.Regexes
/-!
# autokwd: keyword-like string literals match on word boundaries only (C21)

`isKeywordLike`  `visit_str_match` (`textx/lang.py:1033-1043`): the literal is
                 keyword-like iff `keyword_regex.match(to_match)` spans the whole
                 literal; the regex is the *generated* `Gen.Regexes.keyword`.
`kwRe`           the pattern `rf"{to_match}\b"` as Python parses it for a literal made
                 of word characters only (no regex meta characters can occur);
                 tied to the live code by `Gen.Regexes.kwProbe = kwRe false "kw_1"`.
`compileLit`     `visit_str_match`: `RegExMatch(lit\b)` for keyword-like literals
                 under autokwd, `StrMatch(lit)` otherwise.
`tokMatch`       Arpeggio's `StrMatch._parse` / `RegExMatch._parse` at a position:
                 new position, the terminal's value (the grammar literal for string
                 matches and — after the repair of the ignore_case deviation — for
                 keyword matches; the matched text for other regex tokens) **and** the
                 value `process_node` (`textx/model.py`, Terminal branch) hands to the
                 object graph for that terminal: group 1 for a regex match with exactly
                 one capturing group under `use_regexp_group`, `node.value` otherwise.
`Opts`           the metamodel options that are not about literals: the whitespace set
                 (`ws`; empty for `skipws=False`) and `use_regexp_group`.
`PE`, `parse`    a small PEG (sequence, ordered choice, `*`, `?`, `!`, literals, ID, INT,
                 user regex matches `/pre/` and `/pre(body)/`; `+`, `&`, separator
                 repetitions as derived forms) run the way Arpeggio runs it: the
                 whitespace set is skipped before every terminal, failures restore the
                 position.  Only what C21 needs: the parser is a function of the token
                 matchers.
Model file: core Lean only.
-/
namespace Kwd
open Re

structure Cfg where
  autokwd : Bool
  icase : Bool
deriving DecidableEq, Repr

/-- `match = self.keyword_regex.match(to_match); match and match.span() == (0, len(to_match))` -/
def isKeywordLike (cc : CharClasses) (icase : Bool) (l : List Char) : Bool :=
  match pyMatch cc (if icase then Gen.Regexes.keywordI else Gen.Regexes.keyword) none l with
  | some n => n == l.length
  | none => false

/-- one literal character of a pattern (`LITERAL`; compared through case folding under IGNORECASE) -/
def litChr (icase : Bool) (c : Char) : R := if icase then .chrI c else .chr c

/-- `rf"{to_match}\b"` -/
def kwRe (icase : Bool) : List Char → R
  | [] => .wordB false
  | c :: cs => .seq (litChr icase c) (kwRe icase cs)

/-- the other metamodel options the property quantifies over: `ws` = the characters skipped before
every terminal (`ws` parameter; `[]` for `skipws=False`), `useGroup` = `use_regexp_group` -/
structure Opts where
  ws : List Char
  useGroup : Bool
deriving DecidableEq, Repr

/-- Arpeggio's default whitespace set `'\t\n\r '` -/
def defaultWs : List Char := ['\t', '\n', '\r', ' ']

inductive Tok
  | str (l : List Char) (icase : Bool)          -- StrMatch(to_match, ignore_case)
  | re (r : R) (value : Option (List Char))     -- RegExMatch without capturing group (`regex.groups = 0`);
                                                -- `value` = fixed terminal value, if any (KeywordMatch)
  | reG (pre body : R)                          -- RegExMatch of `pre(body)`: exactly one capturing group
deriving DecidableEq, Repr

/-- `regex.groups` of the compiled match (string matches have no regex) -/
def Tok.groups : Tok → Nat
  | .str .. => 0
  | .re .. => 0
  | .reG .. => 1

/-- value of the terminal (`Terminal.value`) and the value `process_node` passes on to the object graph -/
abbrev TV := List Char × List Char

/-- `visit_str_match` -/
def compileLit (cc : CharClasses) (cfg : Cfg) (l : List Char) : Tok :=
  if cfg.autokwd && isKeywordLike cc cfg.icase l then .re (kwRe cfg.icase l) (some l)
  else .str l cfg.icase

/-- `StrMatch._parse`: compare the input fragment of the literal's length -/
def litMatch (cc : CharClasses) (icase : Bool) (l s : List Char) : Bool :=
  if icase then (s.take l.length).map cc.fold == l.map cc.fold else s.take l.length == l

/-- all matches of `pre(body)`, best first: position after `pre` (start of the group) and after `body` -/
def mG (cc : CharClasses) (pre body : R) (s : St) : List (St × St) :=
  (m cc pre s).flatMap fun t => (m cc body t).map fun u => (t, u)

/-- a token at a position: position after it, the terminal's value and the value for the object
graph (`ug` = `use_regexp_group`).  Empty regex matches produce no terminal (`if matched:`) and count
as no token.  `process_node`: `if use_regexp_group and isinstance(rule, RegExMatch) and
regex.groups == 1: extra_info.group(1) else node.value`. -/
def tokMatch (cc : CharClasses) (ug : Bool) : Tok → St → Option (St × TV)
  | .str l ic, s =>
      if litMatch cc ic l s.2 then some ((lastOr s.1 (s.2.take l.length), s.2.drop l.length), (l, l)) else none
  | .re r v, s =>
      match pyMatchSt cc r s with
      | some t =>
          let n := s.2.length - t.2.length
          if n = 0 then none else some (t, (v.getD (s.2.take n), v.getD (s.2.take n)))
      | none => none
  | .reG pre body, s =>
      match (mG cc pre body s).head? with
      | some (t, u) =>
          let n := s.2.length - u.2.length
          if n = 0 then none
          else some (u, (s.2.take n, if ug then t.2.take (t.2.length - u.2.length) else s.2.take n))
      | none => none

/-! ## a small PEG over such tokens -/
inductive PE
  | lit (l : List Char)
  | ident
  | int
  | seq (a b : PE)
  | choice (a b : PE)
  | star (a : PE)
  | opt (a : PE)
  | notP (a : PE)
  | empty
  | rx (pre : R) (body : Option R)     -- `/pre/` or `/pre(body)/`
  | sepPlus (a sep : PE)               -- `a+[sep]` (`OneOrMore` with a separator)
deriving DecidableEq, Repr

/-- `a+` (`OneOrMore`; also what `attr+=a` compiles to) -/
def PE.plus (a : PE) : PE := .seq a (.star a)
/-- `&a` (`And`): succeeds without consuming iff `a` matches -/
def PE.andP (a : PE) : PE := .notP (.notP a)
/-- `a*[sep]` (`ZeroOrMore` with a separator: no separator before the first element) -/
def PE.sepStar (a sep : PE) : PE := .opt (.sepPlus a sep)

/-- the token of a user regex match -/
def rxTok (pre : R) : Option R → Tok
  | none => .re pre none
  | some b => .reG pre b

def PE.lits : PE → List (List Char)
  | .lit l => [l]
  | .seq a b | .choice a b => a.lits ++ b.lits
  | .star a | .opt a | .notP a => a.lits
  | .sepPlus a sep => a.lits ++ sep.lits
  | _ => []

/-- a matched terminal: number of characters left when it started, and its values -/
abbrev Tk := Nat × TV

/-- `while pos < length and input[pos] in ws: pos += 1` -/
def skipByAux (ws : List Char) : Option Char → List Char → St
  | p, c :: cs => if ws.contains c then skipByAux ws (some c) cs else (p, c :: cs)
  | p, [] => (p, [])

def skipBy (ws : List Char) (s : St) : St := skipByAux ws s.1 s.2

/-- `Match.parse`: skip whitespace, then match -/
def term (ws : List Char) (tm : St → Option (St × TV)) (s : St) : Option (St × List Tk) :=
  let s' := skipBy ws s
  match tm s' with
  | some (t, v) => some (t, [(s'.2.length, v)])
  | none => none

/-- `ZeroOrMore`: iterate while the body matches and consumes -/
def starP (f : St → Option (St × List Tk)) : Nat → St → St × List Tk
  | 0, s => (s, [])
  | n+1, s =>
      match f s with
      | some (t, toks) =>
          if t.2.length < s.2.length then
            let (u, more) := starP f n t
            (u, toks ++ more)
          else (s, [])
      | none => (s, [])

/-- the rounds `sep a` of a repetition with separator, after the first element.  Arpeggio appends the
separator's result *before* it tries the element: when the element then fails, the position goes back
to before the separator but the separator's terminals stay in the parse tree (the object graph skips
separator nodes, so nothing of it reaches the model). -/
def sepLoop (f sep : St → Option (St × List Tk)) : Nat → St → St × List Tk
  | 0, s => (s, [])
  | n+1, s =>
      match sep s with
      | some (t, ts) =>
          match f t with
          | some (u, tu) =>
              if u.2.length < s.2.length then
                let (w, more) := sepLoop f sep n u
                (w, ts ++ tu ++ more)
              else (s, [])
          | none => (s, ts)
      | none => (s, [])

/-- the parser as a function of the token matcher for literals -/
def parse (cc : CharClasses) (o : Opts) (lit : List Char → St → Option (St × TV)) : PE → St → Option (St × List Tk)
  | .lit l, s => term o.ws (lit l) s
  | .ident, s => term o.ws (tokMatch cc o.useGroup (.re Gen.Regexes.ID none)) s
  | .int, s => term o.ws (tokMatch cc o.useGroup (.re Gen.Regexes.INT none)) s
  | .rx pre body, s => term o.ws (tokMatch cc o.useGroup (rxTok pre body)) s
  | .seq a b, s =>
      match parse cc o lit a s with
      | some (t, ta) =>
          match parse cc o lit b t with
          | some (u, tb) => some (u, ta ++ tb)
          | none => none
      | none => none
  | .choice a b, s =>
      match parse cc o lit a s with
      | some r => some r
      | none => parse cc o lit b s
  | .star a, s => some (starP (parse cc o lit a) s.2.length s)
  | .opt a, s =>
      match parse cc o lit a s with
      | some r => some r
      | none => some (s, [])
  | .notP a, s =>
      match parse cc o lit a s with
      | some _ => none
      | none => some (s, [])
  | .empty, s => some (s, [])
  | .sepPlus a sep, s =>
      match parse cc o lit a s with
      | some (t, ta) =>
          let (u, more) := sepLoop (parse cc o lit a) (parse cc o lit sep) t.2.length t
          some (u, ta ++ more)
      | none => none

/-- the literal matcher a metamodel configuration compiles to -/
def litTok (cc : CharClasses) (cfg : Cfg) (ug : Bool) (l : List Char) : St → Option (St × TV) :=
  tokMatch cc ug (compileLit cc cfg l)

/-- `Model: g EOF` on a text: the terminals (start offset, value, value for the object graph), or none
on a syntax error -/
def parseText (cc : CharClasses) (cfg : Cfg) (o : Opts) (g : PE) (text : List Char) : Option (List (Nat × TV)) :=
  match parse cc o (litTok cc cfg o.useGroup) g (none, text) with
  | some (t, toks) =>
      if (skipBy o.ws t).2.isEmpty then some (toks.map fun (left, v) => (text.length - left, v)) else none
  | none => none

end Kwd
