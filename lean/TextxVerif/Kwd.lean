import TextxVerif.Re
import TextxVerif.Gen.Regexes
/-!
# autokwd: keyword-like string literals match on word boundaries only (C21)

`isKeywordLike`  `visit_str_match` (`textx/lang.py:1033-1043`): the literal is
                 keyword-like iff `keyword_regex.match(to_match)` spans the whole
                 literal; the regex is the *generated* `Gen.Regexes.keyword`.
`kwRe`           the pattern `rf"{to_match}\b"` as Python parses it for a literal made
                 of word characters only (no regex meta characters can occur);
                 tied to the live code by `Gen.Regexes.kwProbe = kwRe false "kw_1"`.
`compileLit`     `visit_str_match`: `RegExMatch(lit\b)` for keyword-like literals
                 under autokwd, `StrMatch(lit)` otherwise.
`tokMatch`       Arpeggio's `StrMatch._parse` / `RegExMatch._parse` at a position:
                 new position and the terminal's value (the grammar literal for string
                 matches and — after the repair of the ignore_case deviation — for
                 keyword matches; the matched text for other regex tokens).
`PE`, `parse`    a small PEG (sequence, ordered choice, `*`, `?`, `!`, literals, ID, INT)
                 run the way Arpeggio runs it: whitespace is skipped before every
                 terminal, failures restore the position.  Only what C21 needs:
                 the parser is a function of the token matchers.
Model file: core Lean only.
-/
namespace Kwd
open Re

structure Cfg where
  autokwd : Bool
  icase : Bool
deriving DecidableEq, Repr

/-- `match = self.keyword_regex.match(to_match); match and match.span() == (0, len(to_match))` -/
def isKeywordLike (cc : CharClasses) (icase : Bool) (l : List Char) : Bool :=
  match pyMatch cc (if icase then Gen.Regexes.keywordI else Gen.Regexes.keyword) none l with
  | some n => n == l.length
  | none => false

/-- one literal character of a pattern (`LITERAL`; compared through case folding under IGNORECASE) -/
def litChr (icase : Bool) (c : Char) : R := if icase then .chrI c else .chr c

/-- `rf"{to_match}\b"` -/
def kwRe (icase : Bool) : List Char → R
  | [] => .wordB false
  | c :: cs => .seq (litChr icase c) (kwRe icase cs)

inductive Tok
  | str (l : List Char) (icase : Bool)          -- StrMatch(to_match, ignore_case)
  | re (r : R) (value : Option (List Char))     -- RegExMatch; `value` = fixed terminal value, if any
deriving DecidableEq, Repr

/-- `visit_str_match` -/
def compileLit (cc : CharClasses) (cfg : Cfg) (l : List Char) : Tok :=
  if cfg.autokwd && isKeywordLike cc cfg.icase l then .re (kwRe cfg.icase l) (some l)
  else .str l cfg.icase

/-- `StrMatch._parse`: compare the input fragment of the literal's length -/
def litMatch (cc : CharClasses) (icase : Bool) (l s : List Char) : Bool :=
  if icase then (s.take l.length).map cc.fold == l.map cc.fold else s.take l.length == l

/-- a token at a position: position after it and the terminal's value.  Empty regex
matches produce no terminal (`if matched:`) and count as no token. -/
def tokMatch (cc : CharClasses) : Tok → St → Option (St × List Char)
  | .str l ic, s =>
      if litMatch cc ic l s.2 then some ((lastOr s.1 (s.2.take l.length), s.2.drop l.length), l) else none
  | .re r v, s =>
      match pyMatchSt cc r s with
      | some t =>
          let n := s.2.length - t.2.length
          if n = 0 then none else some (t, v.getD (s.2.take n))
      | none => none

/-! ## a small PEG over such tokens -/
inductive PE
  | lit (l : List Char)
  | ident
  | int
  | seq (a b : PE)
  | choice (a b : PE)
  | star (a : PE)
  | opt (a : PE)
  | notP (a : PE)
  | empty
deriving DecidableEq, Repr

def PE.lits : PE → List (List Char)
  | .lit l => [l]
  | .seq a b | .choice a b => a.lits ++ b.lits
  | .star a | .opt a | .notP a => a.lits
  | _ => []

/-- a matched terminal: number of characters left when it started, and its value -/
abbrev Tk := Nat × List Char

/-- `Match.parse`: skip whitespace, then match -/
def term (tm : St → Option (St × List Char)) (s : St) : Option (St × List Tk) :=
  let s' := skipWs s
  match tm s' with
  | some (t, v) => some (t, [(s'.2.length, v)])
  | none => none

/-- `ZeroOrMore`: iterate while the body matches and consumes -/
def starP (f : St → Option (St × List Tk)) : Nat → St → St × List Tk
  | 0, s => (s, [])
  | n+1, s =>
      match f s with
      | some (t, toks) =>
          if t.2.length < s.2.length then
            let (u, more) := starP f n t
            (u, toks ++ more)
          else (s, [])
      | none => (s, [])

/-- the parser as a function of the token matcher for literals -/
def parse (cc : CharClasses) (lit : List Char → St → Option (St × List Char)) : PE → St → Option (St × List Tk)
  | .lit l, s => term (lit l) s
  | .ident, s => term (tokMatch cc (.re Gen.Regexes.ID none)) s
  | .int, s => term (tokMatch cc (.re Gen.Regexes.INT none)) s
  | .seq a b, s =>
      match parse cc lit a s with
      | some (t, ta) =>
          match parse cc lit b t with
          | some (u, tb) => some (u, ta ++ tb)
          | none => none
      | none => none
  | .choice a b, s =>
      match parse cc lit a s with
      | some r => some r
      | none => parse cc lit b s
  | .star a, s => some (starP (parse cc lit a) s.2.length s)
  | .opt a, s =>
      match parse cc lit a s with
      | some r => some r
      | none => some (s, [])
  | .notP a, s =>
      match parse cc lit a s with
      | some _ => none
      | none => some (s, [])
  | .empty, s => some (s, [])

/-- the literal matcher a metamodel configuration compiles to -/
def litTok (cc : CharClasses) (cfg : Cfg) (l : List Char) : St → Option (St × List Char) :=
  tokMatch cc (compileLit cc cfg l)

/-- `Model: g EOF` on a text: the terminals (start offset, value), or none on a syntax error -/
def parseText (cc : CharClasses) (cfg : Cfg) (g : PE) (text : List Char) : Option (List (Nat × List Char)) :=
  match parse cc (litTok cc cfg) g (none, text) with
  | some (t, toks) =>
      if (skipWs t).2.isEmpty then some (toks.map fun (left, v) => (text.length - left, v)) else none
  | none => none

end Kwd
