import Lean.Data.Json
/-!
JSON-lines plumbing shared by the drivers (`lake env lean --run Drivers/X.lean`).
One request per input line, one answer per output line, in order.  A request the
driver cannot decode is answered with `{"err":"bad-op"}` — never with a default.
-/
open Lean

namespace Wire

def getNat? (j : Json) (k : String) : Option Nat := (j.getObjValAs? Nat k).toOption
def getInt? (j : Json) (k : String) : Option Int := (j.getObjValAs? Int k).toOption
def getStr? (j : Json) (k : String) : Option String := (j.getObjValAs? String k).toOption
def getBool? (j : Json) (k : String) : Option Bool := (j.getObjValAs? Bool k).toOption
def getArr? (j : Json) (k : String) : Option (Array Json) := (j.getObjValAs? (Array Json) k).toOption
def getObj? (j : Json) (k : String) : Option Json := (j.getObjVal? k).toOption
def getNatList? (j : Json) (k : String) : Option (List Nat) := (j.getObjValAs? (List Nat) k).toOption
def getStrList? (j : Json) (k : String) : Option (List String) := (j.getObjValAs? (List String) k).toOption

def asNat? (j : Json) : Option Nat := (fromJson? j : Except String Nat).toOption
def asStr? (j : Json) : Option String := (fromJson? j : Except String String).toOption
def asBool? (j : Json) : Option Bool := (fromJson? j : Except String Bool).toOption
def asArr? (j : Json) : Option (Array Json) := (fromJson? j : Except String (Array Json)).toOption
def asNatList? (j : Json) : Option (List Nat) := (fromJson? j : Except String (List Nat)).toOption

def badOp : Json := Json.mkObj [("err", "bad-op")]
def fuelOut : Json := Json.mkObj [("err", "fuel")]

partial def loop (h : IO.FS.Stream) (out : IO.FS.Stream) (handle : Json → Json) : IO Unit := do
  let line ← h.getLine
  if line.isEmpty then return ()
  let ans := match Json.parse line with
    | .ok j => handle j
    | .error _ => badOp
  out.putStrLn ans.compress
  loop h out handle

def serve (handle : Json → Json) : IO Unit := do
  let stdin ← IO.getStdin
  let stdout ← IO.getStdout
  loop stdin stdout handle
  stdout.flush

end Wire
