import TextxVerif.LinkLoc
/-!
# Declarative, executable specification of the "Unresolvable cross references" outcome

Everything here is a function of the files (their reference lists) and of the provider
answers `ans k id` alone — no loop, no model records.  `Proofs/LinkLocFirst.lean` proves
that the loop model `LinkLoc.run` agrees with it (`Props/C28.lean`:
`C28_unresolvable_first`, `C28_unresolvable_computed`); the driver reports it next to the
result of `run`, and the harness compares both with the real code (round count, sequence
of provider calls, file / line / column).
Model file: core Lean only.
-/
namespace LinkLoc

/-- reference `id` was answered "postponed" in every round `< k` -/
def pendB (ans : Nat → Nat → Answer) : Nat → Nat → Bool
  | 0, _ => true
  | k + 1, id => pendB ans k id && decide (ans k id = .postponed)

def isResolved : Answer → Bool
  | .resolved _ => true
  | _ => false

/-- the first answer for `id` other than "postponed" came in a round `< K` and was an object -/
def resolvedBeforeB (ans : Nat → Nat → Answer) : Nat → Nat → Bool
  | 0, _ => false
  | K + 1, id => resolvedBeforeB ans K id || (pendB ans K id && isResolved (ans K id))

/-- some reference is resolved in round `j` -/
def progressB (files : List FileSpec) (ans : Nat → Nat → Answer) (j : Nat) : Bool :=
  files.any fun g => g.refs.any fun q => pendB ans j q.id && isResolved (ans j q.id)

/-- the loop runs the rounds `0 … K` and gives up after round `K` -/
def gaveUpAtB (files : List FileSpec) (ans : Nat → Nat → Answer) (K : Nat) : Bool :=
  (files.all fun g => g.refs.all fun q => resolvedBeforeB ans K q.id || pendB ans (K + 1) q.id) &&
  (List.range K).all (progressB files ans)

/-- some reference is postponed in all rounds `0 … K` -/
def somePostponedB (files : List FileSpec) (ans : Nat → Nat → Answer) (K : Nat) : Bool :=
  files.any fun g => g.refs.any fun q => pendB ans (K + 1) q.id

/-- the round after which the loop gives up with unresolved references, if there is one below `fuel` -/
def giveUpRound (files : List FileSpec) (ans : Nat → Nat → Answer) (fuel : Nat) : Option Nat :=
  (List.range fuel).find? fun K => gaveUpAtB files ans K && somePostponedB files ans K

/-- first reference in load order (files in load order, references in text order)
that is postponed in all rounds `0 … K` -/
def firstPending (files : List FileSpec) (ans : Nat → Nat → Answer) (K : Nat) : Option (FileSpec × RefSpec) :=
  files.findSome? fun g => (g.refs.find? fun q => pendB ans (K + 1) q.id).map fun q => (g, q)

/-- the references the providers are asked for in round `k`: the pending ones, files in
load order, references in text order -/
def askedInRound (files : List FileSpec) (ans : Nat → Nat → Answer) (k : Nat) : List Nat :=
  files.flatMap fun g => (g.refs.filter fun q => pendB ans k q.id).map (·.id)

/-- all provider calls of the rounds `0 … K`, in order -/
def askTrace (files : List FileSpec) (ans : Nat → Nat → Answer) (K : Nat) : List Nat :=
  (List.range (K + 1)).flatMap (askedInRound files ans)

end LinkLoc
