/-!
# Reference resolution loop (textx/model.py:935-968, 1118-1218)

`step`  = one pass of `ReferenceResolver.resolve_one_step` over the pending
          cross-references, in order; a reference resolved earlier in the pass
          is visible to the providers of the later ones.  With several model
          files the passes of one round are run model after model, which is
          `step` on the concatenation of the pending lists.
`loop`  = the `while unresolved_count > 0 and resolved_count > 0` loop.
`res`   = resolved references, most recent first (so `res.reverse` is the
          resolution sequence).
Model file: core Lean only.
-/
namespace Resolve

abbrev Ref := Nat

/-- A scope provider as seen by the loop: may `r` be resolved, given the resolved set? -/
structure Provider where
  ready : List Ref → Ref → Bool
  mono : ∀ S S' r, (∀ x, x ∈ S → x ∈ S') → ready S r = true → ready S' r = true

/-- one pass of `resolve_one_step`: in order; later refs see earlier results -/
def step (P : Provider) : List Ref → List Ref → List Ref × List Ref
  | [], res => ([], res)
  | r :: rs, res =>
      if P.ready res r then step P rs (r :: res)
      else
        let (p, res') := step P rs res
        (r :: p, res')

/-- rounds until nothing is pending or a round makes no progress -/
def loop (P : Provider) : Nat → List Ref → List Ref → List Ref × List Ref
  | 0, p, res => (p, res)
  | n+1, p, res =>
      let (p', res') := step P p res
      if p' = [] ∨ p'.length = p.length then (p', res') else loop P n p' res'

/-- references that some resolution order can resolve, starting from `S0` -/
inductive Derivable (P : Provider) (U : List Ref) : Ref → Prop
  | step {r} (S : List Ref) : r ∈ U → (∀ x, x ∈ S → Derivable P U x) → P.ready S r = true → Derivable P U r

/-! ## list attributes holding references (C08)

After the repair (`fix:` commit) `resolve_one_step` inserts a resolved target at
the `bisect` index of the reference's text position among the positions
already present in the list. -/

/-- a reference in a list attribute: id, text position, resolved target -/
structure LRef where
  id : Ref
  pos : Nat
  tgt : Nat
deriving Repr, DecidableEq

/-- `bisect.bisect` (right) followed by `insert` on the parallel lists, fused -/
def insertByPos (r : LRef) : List LRef → List LRef
  | [] => [r]
  | x :: xs => if r.pos < x.pos then r :: x :: xs else x :: insertByPos r xs

/-- content of the list attribute after the references were resolved in the
order `seq` -/
def listAfter (seq : List LRef) : List LRef := seq.foldl (fun acc r => insertByPos r acc) []

/-- the pinned (unrepaired) behaviour: append in resolution order -/
def listAfterAppend (seq : List LRef) : List LRef := seq

/-! ## list attributes under the resolver loop (C09)

A list attribute of one object is given by its references `L` in textual
order.  `resolve_one_step` keeps one position list per `(object, attribute)`
(`_list_ref_positions[(id(obj), attr.name)]`), so the content of the attribute
after the loop resolved the references in the sequence `seq` is `listAfter` of
the attribute's own references, taken in the order they appear in `seq`;
references of other objects / attributes do not take part. -/

/-- the references of the list attribute `L` among `seq`, in resolution order -/
def attrSeq (L : List LRef) (seq : List Ref) : List LRef :=
  seq.filterMap (fun r => L.find? (fun l => l.id == r))

/-- content of the list attribute `L` once the loop has resolved `seq` -/
def attrAfter (L : List LRef) (seq : List Ref) : List LRef := listAfter (attrSeq L seq)

end Resolve
