/-!
# Reference resolution loop (textx/model.py:935-968, 1118-1218)

`step`  = one pass of `ReferenceResolver.resolve_one_step` over the pending
          cross-references, in order; a reference resolved earlier in the pass
          is visible to the providers of the later ones.  With several model
          files the passes of one round are run model after model, which is
          `step` on the concatenation of the pending lists.
`loop`  = the `while unresolved_count > 0 and resolved_count > 0` loop.
`res`   = resolved references, most recent first (so `res.reverse` is the
          resolution sequence).
Model file: core Lean only.
-/
namespace Resolve

abbrev Ref := Nat

/-- A scope provider as seen by the loop: may `r` be resolved, given the resolved set? -/
structure Provider where
  ready : List Ref → Ref → Bool
  mono : ∀ S S' r, (∀ x, x ∈ S → x ∈ S') → ready S r = true → ready S' r = true

/-- one pass of `resolve_one_step`: in order; later refs see earlier results -/
def step (P : Provider) : List Ref → List Ref → List Ref × List Ref
  | [], res => ([], res)
  | r :: rs, res =>
      if P.ready res r then step P rs (r :: res)
      else
        let (p, res') := step P rs res
        (r :: p, res')

/-- rounds until nothing is pending or a round makes no progress -/
def loop (P : Provider) : Nat → List Ref → List Ref → List Ref × List Ref
  | 0, p, res => (p, res)
  | n+1, p, res =>
      let (p', res') := step P p res
      if p' = [] ∨ p'.length = p.length then (p', res') else loop P n p' res'

/-- references that some resolution order can resolve, starting from `S0` -/
inductive Derivable (P : Provider) (U : List Ref) : Ref → Prop
  | step {r} (S : List Ref) : r ∈ U → (∀ x, x ∈ S → Derivable P U x) → P.ready S r = true → Derivable P U r

/-! ## list attributes holding references (C08)

After the repair (`fix:` commit) `resolve_one_step` inserts a resolved target at
the `bisect` index of the reference's text position among the positions
already present in the list. -/

/-- a reference in a list attribute: id, text position, resolved target -/
structure LRef where
  id : Ref
  pos : Nat
  tgt : Nat
deriving Repr, DecidableEq

/-- `bisect.bisect` (right) followed by `insert` on the parallel lists, fused -/
def insertByPos (r : LRef) : List LRef → List LRef
  | [] => [r]
  | x :: xs => if r.pos < x.pos then r :: x :: xs else x :: insertByPos r xs

/-- content of the list attribute after the references were resolved in the
order `seq` -/
def listAfter (seq : List LRef) : List LRef := seq.foldl (fun acc r => insertByPos r acc) []

/-- the pinned (unrepaired) behaviour: append in resolution order -/
def listAfterAppend (seq : List LRef) : List LRef := seq

end Resolve
